import Tumfl.Theory.HintsLadder
/-!
# The generic ladder with a result predicate

`KeepsW I W G m` : started in a state satisfying `I`, the computation `m` either succeeds in a state
satisfying `I` with a result satisfying `W`, or fails with an error satisfying `G`.
`ladderExp_keepsW` : the expression ladder keeps `(I, W, G)` as soon as `S.eat` keeps `(I, G)`,
`S.simple` keeps `(I, W, G)`, and `W` is closed under `S.mkBin` and `S.mkUn`.
(This generalises `ladderExp_keeps` of `HintsLadder.lean`, which is the case `W := fun _ => True`.)
-/
namespace Tumfl.Theory
open Tumfl.Model Tumfl.Spec

variable {σ ε Err T α : Type}

/-- outcome: good state and good result, or good error -/
def ResW (I : σ → Prop) (W : α → Prop) (G : Err → Prop) (r : Except Err (α × σ)) : Prop :=
  match r with
  | .ok (a, s') => I s' ∧ W a
  | .error e => G e

def KeepsW (I : σ → Prop) (W : α → Prop) (G : Err → Prop) (m : σ → Except Err (α × σ)) : Prop :=
  ∀ s, I s → ResW I W G (m s)

section
variable {I : σ → Prop} {W : ε → Prop} {G : Err → Prop} {S : ExprSig σ ε Err T}

/-- the items collected by `rightCollect` -/
def ItemsW (W : ε → Prop) (items : List (T × BOp × ε)) : Prop := ∀ x ∈ items, W x.2.2

theorem foldRight_W (hB : ∀ t o l r, W l → W r → W (S.mkBin t o l r)) :
    ∀ (items : List (T × BOp × ε)) (first : ε), W first → ItemsW W items → W (foldRight S first items)
  | [], first, h, _ => by simpa [foldRight] using h
  | (t, o, e) :: rest, first, h, hi => by
    rw [foldRight]
    refine hB _ _ _ _ h (foldRight_W hB rest e (hi (t, o, e) (List.mem_cons_self ..)) ?_)
    intro x hx
    exact hi x (List.mem_cons_of_mem _ hx)

theorem leftLoop_keepsW (hf : G S.fuelErr) (he : KeepsEat I G S.eat)
    (hB : ∀ t o l r, W l → W r → W (S.mkBin t o l r)) (ops : List BOp)
    {base : σ → PR σ ε Err} (hb : KeepsW I W G base) :
    ∀ (f : Nat) (node : ε), W node → KeepsW I W G (leftLoop S ops base f node) := by
  intro f
  induction f with
  | zero => intro node _ s _; simpa [leftLoop, ResW] using hf
  | succ f ih =>
    intro node hn s hs
    rw [leftLoop]
    split
    · split
      · have h1 := he s hs
        split
        · next e he1 => rw [he1] at h1; simpa [ResW] using h1
        · next s1 hs1 =>
          rw [hs1] at h1
          have h2 := hb s1 h1
          split
          · next e he2 => rw [he2] at h2; simpa [ResW] using h2
          · next r s2 hs2 =>
            rw [hs2] at h2
            exact ih _ (hB _ _ _ _ hn h2.2) s2 h2.1
      · exact ⟨hs, hn⟩
    · exact ⟨hs, hn⟩

theorem leftAssoc_keepsW (hf : G S.fuelErr) (he : KeepsEat I G S.eat)
    (hB : ∀ t o l r, W l → W r → W (S.mkBin t o l r)) (ops : List BOp)
    {base : σ → PR σ ε Err} (hb : KeepsW I W G base) (f : Nat) :
    KeepsW I W G (leftAssoc S ops base f) := by
  intro s hs
  unfold leftAssoc
  have h1 := hb s hs
  split
  · next e h => rw [h] at h1; simpa [ResW] using h1
  · next n s1 h => rw [h] at h1; exact leftLoop_keepsW hf he hB ops hb f n h1.2 s1 h1.1

theorem rightCollect_keepsW (hf : G S.fuelErr) (he : KeepsEat I G S.eat) (ops : List BOp)
    {operand : σ → PR σ ε Err} (ho : KeepsW I W G operand) :
    ∀ (f : Nat), KeepsW I (ItemsW W) G (rightCollect S ops operand f) := by
  intro f
  induction f with
  | zero => intro s _; simpa [rightCollect, ResW] using hf
  | succ f ih =>
    intro s hs
    rw [rightCollect]
    split
    · split
      · have h1 := he s hs
        split
        · next e he1 => rw [he1] at h1; simpa [ResW] using h1
        · next s1 hs1 =>
          rw [hs1] at h1
          have h2 := ho s1 h1
          split
          · next e he2 => rw [he2] at h2; simpa [ResW] using h2
          · next r s2 hs2 =>
            rw [hs2] at h2
            have h3 := ih s2 h2.1
            split
            · next e he3 => rw [he3] at h3; simpa [ResW] using h3
            · next rest s3 hs3 =>
              rw [hs3] at h3
              refine ⟨h3.1, ?_⟩
              intro x hx
              rcases List.mem_cons.mp hx with rfl | hx
              · exact h2.2
              · exact h3.2 x hx
      · exact ⟨hs, fun x hx => by cases hx⟩
    · exact ⟨hs, fun x hx => by cases hx⟩

theorem rightAssoc_keepsW (hf : G S.fuelErr) (he : KeepsEat I G S.eat)
    (hB : ∀ t o l r, W l → W r → W (S.mkBin t o l r)) (ops : List BOp)
    {base operand : σ → PR σ ε Err} (hb : KeepsW I W G base) (ho : KeepsW I W G operand) (f : Nat) :
    KeepsW I W G (rightAssoc S ops base operand f) := by
  intro s hs
  unfold rightAssoc
  have h1 := hb s hs
  split
  · next e h => rw [h] at h1; simpa [ResW] using h1
  · next n s1 h =>
    rw [h] at h1
    have h2 := rightCollect_keepsW hf he ops ho f s1 h1.1
    split
    · next e h' => rw [h'] at h2; simpa [ResW] using h2
    · next items s2 h' =>
      rw [h'] at h2
      exact ⟨h2.1, foldRight_W hB items n h1.2 h2.2⟩

theorem unLevel_powLevel_keepsW (hf : G S.fuelErr) (he : KeepsEat I G S.eat)
    (hB : ∀ t o l r, W l → W r → W (S.mkBin t o l r)) (hU : ∀ t u e, W e → W (S.mkUn t u e))
    (hs : KeepsW I W G S.simple) (powOps : List BOp) :
    ∀ (f : Nat), KeepsW I W G (unLevel S powOps f) ∧ KeepsW I W G (powLevel S powOps f) := by
  intro f
  induction f with
  | zero =>
    constructor
    · intro s _; simpa [unLevel, ResW] using hf
    · intro s _; simpa [powLevel, ResW] using hf
  | succ f ih =>
    constructor
    · intro s h0
      rw [unLevel]
      split
      · have h1 := he s h0
        split
        · next e he1 => rw [he1] at h1; simpa [ResW] using h1
        · next s1 hs1 =>
          rw [hs1] at h1
          have h2 := ih.1 s1 h1
          split
          · next e he2 => rw [he2] at h2; simpa [ResW] using h2
          · next r s2 hs2 => rw [hs2] at h2; exact ⟨h2.1, hU _ _ _ h2.2⟩
      · exact ih.2 s h0
    · intro s h0
      rw [powLevel]
      exact rightAssoc_keepsW hf he hB powOps hs ih.1 f s h0

theorem binLevels_keepsW (hf : G S.fuelErr) (he : KeepsEat I G S.eat)
    (hB : ∀ t o l r, W l → W r → W (S.mkBin t o l r)) (hU : ∀ t u e, W e → W (S.mkUn t u e))
    (hs : KeepsW I W G S.simple) (powOps : List BOp) :
    ∀ (f : Nat) (levels : List LevelDesc), KeepsW I W G (binLevels S powOps levels f) := by
  intro f
  induction f with
  | zero =>
    intro levels
    cases levels with
    | nil => intro s h0; rw [binLevels]; exact (unLevel_powLevel_keepsW hf he hB hU hs powOps 0).1 s h0
    | cons d rest => intro s _; simpa [binLevels, ResW] using hf
  | succ f ih =>
    intro levels
    cases levels with
    | nil => intro s h0; rw [binLevels]; exact (unLevel_powLevel_keepsW hf he hB hU hs powOps (f + 1)).1 s h0
    | cons d rest =>
      intro s h0
      rw [binLevels]
      split
      · exact rightAssoc_keepsW hf he hB d.ops (ih rest) (ih (d :: rest)) f s h0
      · exact leftAssoc_keepsW hf he hB d.ops (ih rest) f s h0

/-- **The generic ladder lemma with a result predicate** -/
theorem ladderExp_keepsW (hf : G S.fuelErr) (he : KeepsEat I G S.eat)
    (hB : ∀ t o l r, W l → W r → W (S.mkBin t o l r)) (hU : ∀ t u e, W e → W (S.mkUn t u e))
    (hs : KeepsW I W G S.simple) (levels : List LevelDesc) (powOps : List BOp) (f : Nat) :
    KeepsW I W G (ladderExp S levels powOps f) := by
  intro s h0
  unfold ladderExp
  exact binLevels_keepsW hf he hB hU hs powOps f levels s h0

end
end Tumfl.Theory
