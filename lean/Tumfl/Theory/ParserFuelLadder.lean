import Tumfl.Model.Ladder
/-!
# Fuel adequacy of the generic expression ladder

For a measure `μ` of the cursor state that `S.eat` strictly decreases on operator tokens and that the
atom parser `S.simple` does not increase, the ladder `ladderExp S levels powOps F s` never fails with
`S.fuelErr` as soon as `2 * μ s + 3 + levels.length ≤ F`, and does not increase `μ`.

The fuel of the ladder is *local*: `S.simple` carries its own fuel, so only the operator chains of one
expression (`a+b+c..`, `- - - x`, `a^b^c`, `a..b..c`) are paid from `F`.
-/
namespace Tumfl.Theory
open Tumfl.Model Tumfl.Spec

variable {σ ε Err T α : Type}

/-- the outcome is not the fuel error, and on success the measure has not grown -/
def ResF (μ : σ → Nat) (bad : Err) (s : σ) (r : Except Err (α × σ)) : Prop :=
  match r with
  | .ok (_, s') => μ s' ≤ μ s
  | .error e => e ≠ bad

/-- `m` behaves on all states of measure below `B` -/
def GoodBelow (μ : σ → Nat) (bad : Err) (B : Nat) (m : σ → Except Err (α × σ)) : Prop :=
  ∀ s, μ s < B → ResF μ bad s (m s)

theorem ResF_mono {μ : σ → Nat} {bad : Err} {s1 s : σ} {r : Except Err (α × σ)}
    (h : ResF μ bad s1 r) (hle : μ s1 ≤ μ s) : ResF μ bad s r := by
  unfold ResF at *
  split
  · next a s' => simp only [] at h; omega
  · next e => simpa using h

theorem GoodBelow_mono {μ : σ → Nat} {bad : Err} {B B' : Nat} {m : σ → Except Err (α × σ)}
    (h : GoodBelow μ bad B m) (hle : B' ≤ B) : GoodBelow μ bad B' m :=
  fun s hs => h s (by omega)

section
variable {μ : σ → Nat} {S : ExprSig σ ε Err T}

/-- what the ladder needs from the cursor -/
structure EatOK (μ : σ → Nat) (S : ExprSig σ ε Err T) : Prop where
  bin : ∀ s s1 o, S.binOf (S.peek s) = some o → S.eat s = .ok s1 → μ s1 + 1 ≤ μ s
  un : ∀ s s1 u, S.unOf (S.peek s) = some u → S.eat s = .ok s1 → μ s1 + 1 ≤ μ s
  err : ∀ s, S.eat s ≠ .error S.fuelErr

theorem leftLoop_fuel (he : EatOK μ S) (ops : List BOp) {base : σ → PR σ ε Err} {B : Nat}
    (hb : GoodBelow μ S.fuelErr B base) :
    ∀ (f : Nat) (node : ε) (s : σ), μ s ≤ B → μ s + 1 ≤ f → ResF μ S.fuelErr s (leftLoop S ops base f node s) := by
  intro f
  induction f with
  | zero => intro node s _ h; omega
  | succ f ih =>
    intro node s hB hf
    rw [leftLoop]
    split
    · next o ho =>
      split
      · cases h1 : S.eat s with
        | error e => simp only [ResF]; intro h; subst h; exact he.err s h1
        | ok s1 =>
          have d1 := he.bin s s1 o ho h1
          simp only []
          have h2 := hb s1 (by omega)
          cases hs2 : base s1 with
          | error e => rw [hs2] at h2; simpa [ResF] using h2
          | ok r =>
            obtain ⟨r, s2⟩ := r
            rw [hs2] at h2
            simp only [ResF] at h2
            simp only []
            exact ResF_mono (ih _ s2 (by omega) (by omega)) (by omega)
      · simp [ResF]
    · simp [ResF]

theorem leftAssoc_fuel (he : EatOK μ S) (ops : List BOp) {base : σ → PR σ ε Err} {B : Nat}
    (hb : GoodBelow μ S.fuelErr (B + 1) base) (f : Nat) (s : σ) (hB : μ s ≤ B) (hf : μ s + 1 ≤ f) :
    ResF μ S.fuelErr s (leftAssoc S ops base f s) := by
  unfold leftAssoc
  have h1 := hb s (by omega)
  cases hs1 : base s with
  | error e => rw [hs1] at h1; simpa [ResF] using h1
  | ok r =>
    obtain ⟨n, s1⟩ := r
    rw [hs1] at h1
    simp only [ResF] at h1
    simp only []
    exact ResF_mono (leftLoop_fuel he ops (GoodBelow_mono hb (Nat.le_succ B)) f n s1 (by omega) (by omega)) h1

theorem rightCollect_fuel (he : EatOK μ S) (ops : List BOp) {operand : σ → PR σ ε Err} {B : Nat}
    (ho : GoodBelow μ S.fuelErr B operand) :
    ∀ (f : Nat) (s : σ), μ s ≤ B → μ s + 1 ≤ f → ResF μ S.fuelErr s (rightCollect S ops operand f s) := by
  intro f
  induction f with
  | zero => intro s _ h; omega
  | succ f ih =>
    intro s hB hf
    rw [rightCollect]
    split
    · next o ho' =>
      split
      · cases h1 : S.eat s with
        | error e => simp only [ResF]; intro h; subst h; exact he.err s h1
        | ok s1 =>
          have d1 := he.bin s s1 o ho' h1
          simp only []
          have h2 := ho s1 (by omega)
          cases hs2 : operand s1 with
          | error e => rw [hs2] at h2; simpa [ResF] using h2
          | ok r =>
            obtain ⟨r, s2⟩ := r
            rw [hs2] at h2
            simp only [ResF] at h2
            simp only []
            have h3 := ih s2 (by omega) (by omega)
            cases hs3 : rightCollect S ops operand f s2 with
            | error e => rw [hs3] at h3; simpa [ResF] using h3
            | ok r3 =>
              obtain ⟨rest, s3⟩ := r3
              rw [hs3] at h3
              simp only [ResF] at h3 ⊢
              omega
      · simp [ResF]
    · simp [ResF]

theorem rightAssoc_fuel (he : EatOK μ S) (ops : List BOp) {base operand : σ → PR σ ε Err} {B : Nat}
    (hb : GoodBelow μ S.fuelErr (B + 1) base) (ho : GoodBelow μ S.fuelErr B operand)
    (f : Nat) (s : σ) (hB : μ s ≤ B) (hf : μ s + 1 ≤ f) :
    ResF μ S.fuelErr s (rightAssoc S ops base operand f s) := by
  unfold rightAssoc
  have h1 := hb s (by omega)
  cases hs1 : base s with
  | error e => rw [hs1] at h1; simpa [ResF] using h1
  | ok r =>
    obtain ⟨n, s1⟩ := r
    rw [hs1] at h1
    simp only [ResF] at h1
    simp only []
    have h2 := rightCollect_fuel he ops ho f s1 (by omega) (by omega)
    cases hs2 : rightCollect S ops operand f s1 with
    | error e => rw [hs2] at h2; simpa [ResF] using h2
    | ok r2 =>
      obtain ⟨items, s2⟩ := r2
      rw [hs2] at h2
      simp only [ResF] at h2 ⊢
      omega

theorem unLevel_powLevel_fuel (he : EatOK μ S) (powOps : List BOp) {M : Nat}
    (hs : GoodBelow μ S.fuelErr (M + 1) S.simple) :
    ∀ (g : Nat),
      (∀ s, μ s ≤ M → 2 * μ s + 3 ≤ g → ResF μ S.fuelErr s (unLevel S powOps g s)) ∧
      (∀ s, μ s ≤ M → 2 * μ s + 2 ≤ g → ResF μ S.fuelErr s (powLevel S powOps g s)) := by
  intro g
  induction g with
  | zero => exact ⟨fun s _ h => by omega, fun s _ h => by omega⟩
  | succ g ih =>
    constructor
    · intro s hM hg
      rw [unLevel]
      split
      · next u hu =>
        cases h1 : S.eat s with
        | error e => simp only [ResF]; intro h; subst h; exact he.err s h1
        | ok s1 =>
          have d1 := he.un s s1 u hu h1
          simp only []
          have h2 := ih.1 s1 (by omega) (by omega)
          cases hs2 : unLevel S powOps g s1 with
          | error e => rw [hs2] at h2; simpa [ResF] using h2
          | ok r =>
            obtain ⟨r, s2⟩ := r
            rw [hs2] at h2
            simp only [ResF] at h2 ⊢
            omega
      · exact ih.2 s hM (by omega)
    · intro s hM hg
      rw [powLevel]
      refine rightAssoc_fuel (B := μ s) he powOps (GoodBelow_mono hs (by omega)) ?_ g s (Nat.le_refl _) (by omega)
      intro s2 h2
      exact ih.1 s2 (by omega) (by omega)

theorem binLevels_fuel (he : EatOK μ S) (powOps : List BOp) {M : Nat}
    (hs : GoodBelow μ S.fuelErr (M + 1) S.simple) :
    ∀ (g : Nat) (levels : List LevelDesc) (s : σ), μ s ≤ M → 2 * μ s + 3 + levels.length ≤ g →
      ResF μ S.fuelErr s (binLevels S powOps levels g s) := by
  intro g
  induction g with
  | zero =>
    intro levels s hM hg
    omega
  | succ g ih =>
    intro levels s hM hg
    cases levels with
    | nil =>
      rw [binLevels]
      exact (unLevel_powLevel_fuel he powOps hs (g + 1)).1 s hM (by simpa using hg)
    | cons d rest =>
      simp only [List.length_cons] at hg
      rw [binLevels]
      split
      · refine rightAssoc_fuel (B := μ s) he d.ops ?_ ?_ g s (Nat.le_refl _) (by omega)
        · intro s2 h2
          exact ih rest s2 (by omega) (by omega)
        · intro s2 h2
          exact ih (d :: rest) s2 (by omega) (by simp only [List.length_cons]; omega)
      · refine leftAssoc_fuel (B := μ s) he d.ops ?_ g s (Nat.le_refl _) (by omega)
        intro s2 h2
        exact ih rest s2 (by omega) (by omega)

/-- **The generic ladder lemma for fuel**: `2 * μ s + 3 + levels.length` units of fuel suffice. -/
theorem ladderExp_fuel (he : EatOK μ S) (levels : List LevelDesc) (powOps : List BOp) {M : Nat}
    (hs : GoodBelow μ S.fuelErr (M + 1) S.simple) (F : Nat) (s : σ) (hM : μ s ≤ M)
    (hF : 2 * μ s + 3 + levels.length ≤ F) :
    ResF μ S.fuelErr s (ladderExp S levels powOps F s) := by
  unfold ladderExp
  exact binLevels_fuel he powOps hs F levels s hM hF

end
end Tumfl.Theory
