import Tumfl.Theory.ParserSimBridge
import Tumfl.Theory.ClimbRel
import Tumfl.Inst.Ladder
/-!
# Naturality of `climb`: the model's expression layer against the reference's

If the model's atom parser simulates `simpleexp`, then `climb` over the model signature simulates
`climb` over the reference signature; with `model_ladder_iff_climb` this gives `parseExp` ~ `expr`.
-/
namespace Tumfl.Theory
open Tumfl.Model Tumfl.Spec

variable {B : Bridge}

/-- what the atom parser has to satisfy (soundness direction) -/
def AtomSound (B : Bridge) (atom : PM Expr) : Prop :=
  ∀ ts, SPF B atom ts (fun e ts' => ∃ e', Ev (simpleexp · ts) (e', ts') ∧ ExpRel e e')

inductive ModeRel : Option Expr → Option Exp → Prop
  | none : ModeRel none none
  | some {a a'} : ExpRel a a' → ModeRel (some a) (some a')

theorem unOfTk_ne_eof {k : Tk} {u : UOp} (h : unOfTk k = some u) : k ≠ .eof := by
  intro hk; subst hk; simp [unOfTk] at h

theorem binOfTk_ne_eof {k : Tk} {o : BOp} (h : binOfTk k = some o) : k ≠ .eof := by
  intro hk; subst hk; simp [binOfTk] at h

theorem modelSig_eat {atom : PM Expr} {s s1 : PSt} (h : (modelSig atom).eat s = .ok s1) : eatRaw s = .ok ((), s1) := by
  simp only [modelSig] at h
  split at h
  · next u s' he => cases h; rw [he]
  · cases h

theorem climb_natural {atom : PM Expr} (hatom : AtomSound B atom) {limit : Nat} {m : Option Expr} {s : PSt}
    {r : Expr × PSt} (h : CR (modelSig atom) limit m s r) :
    ∀ (m' : Option Exp) (ts : List Tok), ModeRel m m' → B.Feeds s ts →
      ∃ e' ts', ExpRel r.1 e' ∧ B.Feeds r.2 ts' ∧
        ∃ G, ∀ g F, G ≤ g → G ≤ F → runMode (specSig (simpleexp g)) F limit m' ts = .ok (e', ts') := by
  induction h with
  | @un limit s u s1 e s2 r hu he _ _ ih1 ih2 =>
    intro m' ts hm hf
    cases hm
    have hu' : unOfTk (pk ts) = some u := by
      rw [← unOf_rel (B.cur hf)]; exact hu
    have hf1 : B.Feeds s1 ts.tail := B.eat_sound hf (unOfTk_ne_eof hu') (modelSig_eat he)
    obtain ⟨e1, ts1, hr1, hf2, G1, h1⟩ := ih1 none ts.tail .none hf1
    obtain ⟨e2, ts2, hr2, hf3, G2, h2⟩ := ih2 (some (.un u e1)) ts1 (.some (.un _ _ hr1)) hf2
    refine ⟨e2, ts2, hr2, hf3, G1 + G2 + 1, fun g F hg hF => ?_⟩
    obtain ⟨F', rfl⟩ : ∃ F', F = F' + 1 := ⟨F - 1, by omega⟩
    simp only [runMode] at h1 h2 ⊢
    rw [climb_succ]
    simp only [specSig] at hu' ⊢
    simp only [hu']
    have a := h1 g F' (by omega) (by omega)
    simp only [specSig] at a
    simp only [a]
    have b := h2 g F' (by omega) (by omega)
    simp only [specSig] at b
    exact b
  | @simple limit s e s1 r hu hs _ ih =>
    intro m' ts hm hf
    cases hm
    have hu' : unOfTk (pk ts) = none := by
      rw [← unOf_rel (B.cur hf)]; exact hu
    obtain ⟨ts1, hf1, e1, hev, hr1⟩ := hatom ts s hf e s1 hs
    obtain ⟨e2, ts2, hr2, hf2, G2, h2⟩ := ih (some e1) ts1 (.some hr1) hf1
    obtain ⟨G1, h1⟩ := hev
    refine ⟨e2, ts2, hr2, hf2, G1 + G2 + 1, fun g F hg hF => ?_⟩
    obtain ⟨F', rfl⟩ : ∃ F', F = F' + 1 := ⟨F - 1, by omega⟩
    simp only [runMode] at h2 ⊢
    rw [climb_succ]
    simp only [specSig] at hu' ⊢
    simp only [hu', h1 g (by omega)]
    have b := h2 g F' (by omega) (by omega)
    simp only [specSig] at b
    exact b
  | @step limit acc s o s1 e2 s2 r ho hlt he _ _ ih1 ih2 =>
    intro m' ts hm hf
    cases hm with | some hacc => ?_
    rename_i acc'
    have ho' : binOfTk (pk ts) = some o := by
      rw [← binOf_rel (B.cur hf)]; exact ho
    have hf1 : B.Feeds s1 ts.tail := B.eat_sound hf (binOfTk_ne_eof ho') (modelSig_eat he)
    obtain ⟨e1, ts1, hr1, hf2, G1, h1⟩ := ih1 none ts.tail .none hf1
    obtain ⟨e3, ts3, hr3, hf3, G2, h2⟩ := ih2 (some (.bin o acc' e1)) ts1 (.some (.bin _ _ hacc hr1)) hf2
    refine ⟨e3, ts3, hr3, hf3, G1 + G2 + 1, fun g F hg hF => ?_⟩
    obtain ⟨F', rfl⟩ : ∃ F', F = F' + 1 := ⟨F - 1, by omega⟩
    simp only [runMode] at h1 h2 ⊢
    rw [climbLoop_succ]
    simp only [specSig] at ho' ⊢
    simp only [ho', hlt, if_true]
    have a := h1 g F' (by omega) (by omega)
    simp only [specSig] at a
    simp only [a]
    have b := h2 g F' (by omega) (by omega)
    simp only [specSig] at b
    exact b
  | @stop limit acc s hq =>
    intro m' ts hm hf
    cases hm with | some hacc => ?_
    rename_i acc'
    refine ⟨acc', ts, hacc, hf, 1, fun g F hg hF => ?_⟩
    obtain ⟨F', rfl⟩ : ∃ F', F = F' + 1 := ⟨F - 1, by omega⟩
    simp only [runMode]
    rw [climbLoop_succ]
    have hb : binOfTk (pk ts) = (modelSig atom).binOf ((modelSig atom).peek s) := (binOf_rel (B.cur hf)).symm
    simp only [specSig]
    split
    · next o ho =>
      have := hq o (by rw [← hb]; exact ho)
      rw [if_neg (by omega)]
    · rfl

/-- `parseExp` simulates `expr`, given that the atom parser at the previous fuel simulates `simpleexp` -/
theorem parseExp_sound_step {f : Nat} (hatom : AtomSound B (Model.parseAtom f)) (ts : List Tok) :
    SPF B (Model.parseExp (f + 1)) ts (fun e ts' => ∃ e', Ev (expr · ts) (e', ts') ∧ ExpRel e e') := by
  intro s hf e s' hr
  rw [Model.parseExp] at hr
  obtain ⟨f1, h1⟩ := (Inst.model_ladder_iff_climb (modelSig (parseAtom f)) s (e, s')).1 ⟨f + 1, hr⟩
  have hcr := (climb_sound _ f1).1 _ _ _ h1
  obtain ⟨e', ts', hrel, hf', G, hG⟩ := climb_natural hatom hcr none ts .none hf
  refine ⟨ts', hf', e', ⟨G + 1, fun g hg => ?_⟩, hrel⟩
  obtain ⟨g', rfl⟩ : ∃ g', g = g' + 1 := ⟨g - 1, by omega⟩
  show expr (g' + 1) ts = _
  rw [expr_succ]
  exact hG g' (g' + 1) (by omega) (by omega)

end Tumfl.Theory
