import Tumfl.Theory.StrRead
import Tumfl.Theory.LexNoIndex
import Tumfl.Theory.LexPosScan
/-!
# The lexer is total: tokens or `LexerError`, nothing else, and it terminates

For any text whatsoever, `getNextToken` / `lexText` either deliver tokens or fail with a `LexerError`
(or the documented border of the model, a lone surrogate from `\u{D800}`): never a Python built-in
exception (`AssertionError`, `IndexError`, "Unreachable") and never `.fuel` (non-termination).

* every asserted precondition (`getLongBrackets`, `skipComment`, `getName`, `getString`) holds at its
  call site because of the dispatching condition;
* every inner loop is given fuel `rest.length + k` and consumes a character per iteration;
* every non-EOF token consumes at least one character, an EOF token is delivered only at the end of
  the text, hence `lexAll` with fuel `text.length + 2` never runs dry.
-/
namespace Tumfl.Theory
open Tumfl.Model

/-- the errors lexing may end with: `LexerError`, or the model border for lone surrogates (this is `Benign` of `StrRead`) -/
def Benign' (e : PyErr) : Prop := (∃ m l c, e = .lexer m l c) ∨ e = .py "OutOfModel" "lone surrogate"

theorem benign'_iff (e : PyErr) : Benign' e ↔ Benign e := Iff.rfl

/-! ## the cursor -/

/-- "at most `n` characters left" is preserved by every scanner -/
theorem stable_len (n : Nat) : Stable (fun x : LexSt => x.rest.length ≤ n) :=
  ⟨fun s h => Nat.le_trans (advance_len_le s) h, fun _ _ h => h⟩

theorem rest_of_cur {s : LexSt} {c : Char} (h : s.cur = some c) : ∃ r, s.rest = c :: r := by
  cases hr : s.rest with
  | nil => simp [LexSt.cur, hr] at h
  | cons d r => simp [LexSt.cur, hr] at h; exact ⟨r, by rw [h]⟩

theorem rest_of_peek {s : LexSt} {p : Char} (h : s.peek = some p) : ∃ c r, s.rest = c :: p :: r := by
  unfold LexSt.peek at h
  split at h
  · rename_i c d r hr
    cases h
    exact ⟨c, r, hr⟩
  · cases h

theorem peek_of_rest {s : LexSt} {c p : Char} {r : List Char} (h : s.rest = c :: p :: r) : s.peek = some p := by
  simp [LexSt.peek, h]

theorem advance_cur_of_peek {s : LexSt} {p : Char} (h : s.peek = some p) : (advance s).cur = some p := by
  obtain ⟨c, r, hr⟩ := rest_of_peek h
  exact cur_of (advance_rest_of hr)

theorem cur_none_rest {s : LexSt} (h : s.cur = none) : s.rest = [] := by
  cases hr : s.rest with
  | nil => rfl
  | cons d r => simp [LexSt.cur, hr] at h

/-- two characters ahead: two `advance`s consume two characters -/
theorem advance2_len_lt {s : LexSt} {c : Char} (h : s.cur = some c) : (advance (advance s)).rest.length < s.rest.length :=
  Nat.lt_of_le_of_lt (advance_len_le _) (advance_len_lt h)

theorem Progress_mono {n m : Nat} (h : n ≤ m) {r : Except PyErr (List Char × LexSt)} (hr : Progress n r) : Progress m r := by
  match r, hr with
  | .error e, hr => exact hr
  | .ok (_, s1), hr => exact Nat.lt_of_lt_of_le hr h

/-! ## the inner loops: each iteration consumes a character, the fuel suffices -/

theorem skipWhitespace_progress (f : Nat) (s : LexSt) (c : Char) (hc : s.cur = some c)
    (hw : Gen.whitespace.contains c = true) : (skipWhitespace (f + 1) s).rest.length < s.rest.length := by
  rw [skipWhitespace]
  simp only [hc, inStr, hw, if_true]
  exact Nat.lt_of_le_of_lt (skipWhitespace_len_le _ _) (advance_len_lt hc)

/-- with fuel above the remaining length, `skipWhitespace` stops at a non-white-space character (it is not cut short) -/
theorem skipWhitespace_stops : ∀ (f : Nat) (s : LexSt), s.rest.length < f →
    inStr (skipWhitespace f s).cur Gen.whitespace = false
  | 0, s, h => by omega
  | f + 1, s, h => by
    rw [skipWhitespace]
    split
    · rename_i hin
      cases hc : s.cur with
      | none => simp [hc, inStr] at hin
      | some c =>
        have := advance_len_lt hc
        exact skipWhitespace_stops f _ (by omega)
    · rename_i hin
      simpa using hin

theorem countEquals_len_le (f : Nat) (s : LexSt) (n : Nat) : (countEquals f s n).2.rest.length ≤ s.rest.length :=
  countEquals_pres (stable_len s.rest.length) f s n (Nat.le_refl _)

/-- with fuel above the remaining length, `countEquals` stops at a character other than `=` -/
theorem countEquals_stops : ∀ (f : Nat) (s : LexSt) (n : Nat), s.rest.length < f →
    (countEquals f s n).2.cur ≠ some '='
  | 0, s, n, h => by omega
  | f + 1, s, n, h => by
    rw [countEquals]
    split
    · rename_i hin
      have hc : s.cur = some '=' := by simpa using hin
      have := advance_len_lt hc
      exact countEquals_stops f _ _ (by omega)
    · rename_i hin
      simpa using hin

theorem shortComment_len_le (f : Nat) (s : LexSt) (acc : List Char) : (shortComment f s acc).2.rest.length ≤ s.rest.length :=
  shortComment_pres (stable_len s.rest.length) f s acc (Nat.le_refl _)

/-- with fuel above the remaining length, the short-comment loop stops at a newline or at the end of the text -/
theorem shortComment_stops : ∀ (f : Nat) (s : LexSt) (acc : List Char), s.rest.length < f →
    (shortComment f s acc).2.cur = some '\n' ∨ (shortComment f s acc).2.cur = none
  | 0, s, acc, h => by omega
  | f + 1, s, acc, h => by
    rw [shortComment]
    split
    · rename_i c hc
      split
      · have := advance_len_lt hc
        exact shortComment_stops f _ _ (by omega)
      · rename_i hne
        have : c = '\n' := by simpa using hne
        exact Or.inl (by rw [hc, this])
    · rename_i hc
      exact Or.inr hc

theorem skipShebang_len_le (f : Nat) (s : LexSt) : (skipShebang f s).rest.length ≤ s.rest.length :=
  skipShebang_pres (stable_len s.rest.length) f s (Nat.le_refl _)

/-- with fuel above the remaining length, the shebang loop stops at a newline or at the end of the text -/
theorem skipShebang_stops : ∀ (f : Nat) (s : LexSt), s.rest.length < f →
    (skipShebang f s).cur = some '\n' ∨ (skipShebang f s).cur = none
  | 0, s, h => by omega
  | f + 1, s, h => by
    rw [skipShebang]
    split
    · rename_i c hc
      split
      · have := advance_len_lt hc
        exact skipShebang_stops f _ (by omega)
      · rename_i hne
        have : c = '\n' := by simpa using hne
        exact Or.inl (by rw [hc, this])
    · rename_i hc
      exact Or.inr hc

/-- with fuel above the remaining length, `takeWhileIn` stops at a character outside the set (it is not cut short) -/
theorem takeWhileIn_stops (set : List Char) (lower : Bool) : ∀ (f : Nat) (s : LexSt) (acc : List Char), s.rest.length < f →
    inStr (takeWhileIn set lower f s acc).2.cur set = false
  | 0, s, acc, h => by omega
  | f + 1, s, acc, h => by
    rw [takeWhileIn]
    split
    · rename_i c hc
      split
      · have := advance_len_lt hc
        exact takeWhileIn_stops set lower f _ _ (by omega)
      · rename_i hne
        simpa [inStr, hc] using hne
    · rename_i hc
      simp [inStr, hc]

theorem takeWhileIn_progress (set : List Char) (lower : Bool) (f : Nat) (s : LexSt) (acc : List Char) (c : Char)
    (hc : s.cur = some c) (hin : set.contains c = true) :
    (takeWhileIn set lower (f + 1) s acc).2.rest.length < s.rest.length := by
  rw [takeWhileIn]
  simp only [hc, hin, if_true]
  exact Nat.lt_of_le_of_lt (takeWhileIn_len_le _ _ _ _ _) (advance_len_lt hc)

/-- the body loop of a long bracket: with fuel above the remaining length it never runs dry; it fails only with
`LexerError`, and succeeds only after consuming the closing `]` -/
theorem longBody_progress (equals line0 : Nat) (col0 : Int) : ∀ (f : Nat) (s : LexSt) (ce : Option Nat) (acc : List Char),
    s.rest.length < f → Progress (s.rest.length) (longBody equals line0 col0 f s ce acc)
  | 0, s, ce, acc, h => by omega
  | f + 1, s, ce, acc, h => by
    rw [longBody]
    split
    · exact progress_lexErrorAt _ _ _ _
    · rename_i c hc
      have l1 := advance_len_lt hc
      split
      · exact l1
      · exact Progress_mono (Nat.le_of_lt l1) (longBody_progress equals line0 col0 f _ _ _ (by omega))

/-! ## the scanners called by `get_next_token`, under their dispatching conditions -/

/-- `get_long_brackets`, called on `[` followed by `=` or `[`: the assertion holds, no loop runs dry -/
theorem getLongBrackets_progress (s : LexSt) (hc : s.cur = some '[') (hp : s.peek = some '=' ∨ s.peek = some '[') :
    Progress s.rest.length (getLongBrackets s) := by
  have hcond : (!(s.cur == some '[' && (s.peek == some '=' || s.peek == some '['))) = false := by
    rcases hp with hp | hp <;> simp [hc, hp]
  unfold getLongBrackets
  simp only [hcond, Bool.false_eq_true, if_false]
  have l1 := advance_len_lt hc
  have l2 := countEquals_len_le ((advance s).rest.length + 1) (advance s) 0
  generalize countEquals ((advance s).rest.length + 1) (advance s) 0 = p at l2 ⊢
  obtain ⟨eq, s2⟩ := p
  dsimp only at l2 ⊢
  split
  · exact progress_lexError _ _ _
  · have l3 := advance_len_le s2
    have l4 := advance_len_le (advance s2)
    refine Progress_mono ?_ (longBody_progress eq s.line s.col _ _ none [] (Nat.lt_succ_self _))
    split <;> omega

theorem isLongBracketAux_head {r : List Char} (h : isLongBracketAux r = true) :
    ∃ d t, r = d :: t ∧ (d = '=' ∨ d = '[') := by
  cases r with
  | nil => simp [isLongBracketAux] at h
  | cons d t =>
    refine ⟨d, t, rfl, ?_⟩
    by_cases h1 : d = '='
    · exact Or.inl h1
    · by_cases h2 : d = '['
      · exact Or.inr h2
      · exfalso
        unfold isLongBracketAux at h
        split at h
        · rename_i heq; cases heq; exact h1 rfl
        · rename_i heq; cases heq; exact h2 rfl
        · cases h

theorem peek_of_isLongBracket {s : LexSt} (hc : s.cur = some '[') (h : isLongBracket s = true) :
    s.peek = some '=' ∨ s.peek = some '[' := by
  obtain ⟨r, hr⟩ := rest_of_cur hc
  unfold isLongBracket at h
  rw [hr, List.tail_cons] at h
  obtain ⟨d, t, rfl, hd⟩ := isLongBracketAux_head h
  rw [peek_of_rest hr]
  rcases hd with rfl | rfl
  · exact Or.inl rfl
  · exact Or.inr rfl

/-- `skip_comment`, called on `--`: the assertion holds, and so does the one of `get_long_brackets` it may call -/
theorem skipComment_progress (s : LexSt) (hc : s.cur = some '-') (hp : s.peek = some '-') :
    (∀ e, skipComment s = .error e → Benign e) ∧ (∀ s1, skipComment s = .ok s1 → s1.rest.length < s.rest.length) := by
  have hcond : (!(s.cur == some '-' && s.peek == some '-')) = false := by simp [hc, hp]
  have l2 := advance2_len_lt hc
  unfold skipComment
  simp only [hcond, Bool.false_eq_true, if_false]
  by_cases hlb : ((advance (advance s)).cur == some '[' && isLongBracket (advance (advance s))) = true
  · simp only [hlb, if_true]
    simp only [Bool.and_eq_true, beq_iff_eq] at hlb
    have hp2 := getLongBrackets_progress (advance (advance s)) hlb.1 (peek_of_isLongBracket hlb.1 hlb.2)
    cases he : getLongBrackets (advance (advance s)) with
    | error e' =>
      rw [he] at hp2
      refine ⟨fun e h => ?_, fun s1 h => by cases h⟩
      cases h
      exact hp2
    | ok r =>
      obtain ⟨v, s3⟩ := r
      rw [he] at hp2
      have hp2 : s3.rest.length < (advance (advance s)).rest.length := hp2
      refine ⟨fun e h => (by cases h), fun s1 h => ?_⟩
      cases h
      show s3.rest.length < s.rest.length
      omega
  · simp only [hlb, Bool.false_eq_true, if_false]
    have l3 := shortComment_len_le ((advance (advance s)).rest.length + 1) (advance (advance s)) []
    generalize shortComment ((advance (advance s)).rest.length + 1) (advance (advance s)) [] = p at l3 ⊢
    obtain ⟨c, s3⟩ := p
    dsimp only at l3 ⊢
    refine ⟨fun e h => (by cases h), fun s1 h => ?_⟩
    cases h
    show s3.rest.length < s.rest.length
    omega

theorem letter_sub_alphanumeric : ∀ c ∈ Gen.letter, Gen.alphanumeric.contains c = true := by decide

/-- `get_name`, called on a letter: the assertion holds and the name is not empty -/
theorem getName_progress (s : LexSt) (c : Char) (hc : s.cur = some c) (hl : Gen.letter.contains c = true) :
    ∃ name s1, getName s = .ok (name, s1) ∧ s1.rest.length < s.rest.length := by
  have hcond : (!inStr s.cur Gen.letter) = false := by simp only [hc, inStr, hl, Bool.not_true]
  have ha := letter_sub_alphanumeric c (by simpa using hl)
  unfold getName
  simp only [hcond, Bool.false_eq_true, if_false]
  exact ⟨_, _, rfl, takeWhileIn_progress Gen.alphanumeric false _ s [] c hc ha⟩

/-- `get_number`, called on a digit or on `.`: at least one character is consumed -/
theorem getNumber_progress (s : LexSt) (c : Char) (hc : s.cur = some c) (hd : Gen.number.contains c = true ∨ c = '.') :
    (getNumber s).2.rest.length < s.rest.length := by
  rw [getNumber_eq]
  refine Nat.lt_of_le_of_lt (numExp_pres (stable_len _) _ _ _ _ (Nat.le_refl _)) ?_
  by_cases hn : Gen.number.contains c = true
  · refine Nat.lt_of_le_of_lt (numFrac_pres (stable_len _) _ _ (Nat.le_refl _)) ?_
    unfold numInt
    simp only [hc, inStr, hn, if_true]
    split
    · exact Nat.lt_of_le_of_lt (takeWhileIn_len_le _ _ _ _ _) (advance2_len_lt hc)
    · exact takeWhileIn_progress Gen.number true _ s [] c hc hn
  · have hdot : c = '.' := by rcases hd with hd | hd; exact absurd hd hn; exact hd
    subst hdot
    have hni : numInt (s.rest.length + 1) s = (false, none, s) := by
      have hn' : Gen.number.contains '.' = false := by decide
      unfold numInt
      simp only [hc, inStr, hn', Bool.false_eq_true, if_false]
    rw [hni]
    unfold numFrac
    simp only [hc, beq_self_eq_true, if_true]
    exact Nat.lt_of_le_of_lt (takeWhileIn_len_le _ _ _ _ _) (advance_len_lt hc)

/-- `get_string`, called on a quote: the assertion holds, the loop does not run dry, the opening quote is consumed -/
theorem getString_progress (iu : Bool) (s : LexSt) (q : Char) (hc : s.cur = some q) (hq : q = '"' ∨ q = '\'') :
    Progress s.rest.length (getString iu s) := by
  cases h : getString iu s with
  | error e => exact getString_on_quote iu s q hc hq e h
  | ok r =>
    obtain ⟨v, s1⟩ := r
    have hq' : (q == '\'' || q == '"') = true := by rcases hq with rfl | rfl <;> decide
    unfold getString at h
    simp only [hc, hq', if_true] at h
    have := stringLoop_pres (stable_len (advance s).rest.length) _ _ _ _ _ _ (Nat.le_refl _) h
    exact Nat.lt_of_le_of_lt this (advance_len_lt hc)

/-! ## no keyword and no symbol is the `EOF` token type -/

theorem lt_lookup_mem {α β : Type} [BEq α] (k : α) (v : β) : ∀ (l : List (α × β)), l.lookup k = some v → v ∈ l.map Prod.snd
  | [], h => by simp [List.lookup] at h
  | (k', v') :: l, h => by
    rw [List.lookup] at h
    split at h
    · cases h; simp
    · simpa using Or.inr (by simpa using lt_lookup_mem k v l h)

theorem ofName_eof {n : String} (h : TT.ofName n = some .EOF) : n = "EOF" := by
  unfold TT.ofName at h
  have := List.find?_some h
  exact (beq_iff_eq.mp this).symm

theorem keywords_no_eof : ∀ n ∈ Gen.keywords.map Prod.snd, n ≠ "EOF" := by decide
theorem symbols_no_eof : ∀ n ∈ Gen.symbols.map Prod.snd, n ≠ "EOF" := by decide

theorem keywordOf_ne_eof {cfg : LexCfg} {name : List Char} {t : TT} (h : keywordOf cfg name = some t) : t ≠ .EOF := by
  rintro rfl
  unfold keywordOf at h
  split at h
  · rename_i n hn
    split at h
    · rename_i t' ht
      split at h
      · cases h
      · cases h
        exact keywords_no_eof n (lt_lookup_mem _ _ _ hn) (ofName_eof ht)
    · cases h
  · cases h

theorem symbolOf_ne_eof {x : List Char} {t : TT} (h : symbolOf x = some t) : t ≠ .EOF := by
  rintro rfl
  unfold symbolOf at h
  split at h
  · rename_i n hn
    exact symbols_no_eof n (lt_lookup_mem _ _ _ hn) (ofName_eof h)
  · cases h

/-! ## `get_next_token` -/

/-- outcome of `get_next_token` started with `n` characters left: a benign error; or an `EOF` token at the end of the
text; or another token, having consumed at least one character -/
def Good (n : Nat) : Except PyErr (Token × LexSt) → Prop
  | .error e => Benign e
  | .ok (tok, s') => (tok.type = .EOF ∧ s'.rest = []) ∨ (tok.type ≠ .EOF ∧ s'.rest.length < n)

theorem Good_mono {n m : Nat} (h : n ≤ m) {r : Except PyErr (Token × LexSt)} (hr : Good n r) : Good m r := by
  match r, hr with
  | .error e, hr => exact hr
  | .ok (_, s1), .inl hr => exact .inl hr
  | .ok (_, s1), .inr hr => exact .inr ⟨hr.1, Nat.lt_of_lt_of_le hr.2 h⟩

theorem Good_ite {n : Nat} {c : Prop} [Decidable c] {a b : Except PyErr (Token × LexSt)}
    (ha : c → Good n a) (hb : ¬ c → Good n b) : Good n (if c then a else b) := by
  split
  · exact ha ‹_›
  · exact hb ‹_›

theorem Good_tok {n : Nat} {ty : TT} {v : TokVal} {a : Nat × Int × List (List Char)} {X : LexSt}
    (hty : ty ≠ .EOF) (hX : X.rest.length < n) : Good n (.ok (mkTok ty v a, X)) := .inr ⟨hty, hX⟩

theorem Good_lexError {n : Nat} (m : String) (s : LexSt) : Good n (lexError m s) := Or.inl ⟨_, _, _, rfl⟩
theorem Good_lexErrorAt {n : Nat} (m : String) (l : Nat) (c : Int) : Good n (lexErrorAt m l c) := Or.inl ⟨_, _, _, rfl⟩

theorem nextTokenLoop_good (cfg : LexCfg) : ∀ (f : Nat) (s : LexSt), s.rest.length < f →
    Good s.rest.length (nextTokenLoop cfg f s)
  | 0, s, h => by omega
  | f + 1, s, h => by
    rw [nextTokenLoop]
    split
    · rename_i hc
      exact Or.inl ⟨rfl, cur_none_rest hc⟩
    · rename_i c hc
      have l1 := advance_len_lt hc
      refine Good_ite (fun hw => ?_) (fun hw => ?_)
      · -- white space
        have lw := skipWhitespace_progress s.rest.length s c hc hw
        exact Good_mono (Nat.le_of_lt lw) (nextTokenLoop_good cfg f _ (by omega))
      refine Good_ite (fun hcm => ?_) (fun hcm => ?_)
      · -- comment
        simp only [Bool.and_eq_true, beq_iff_eq] at hcm
        obtain ⟨herr, hok⟩ := skipComment_progress s (by rw [hc, hcm.1]) hcm.2
        split
        · rename_i e he
          exact herr e he
        · rename_i s1 he
          have := hok s1 he
          exact Good_mono (Nat.le_of_lt this) (nextTokenLoop_good cfg f _ (by omega))
      -- a token starts here
      simp only [tokenArgs]
      have hc0 : ({ s with comments := [] } : LexSt).cur = some c := hc
      have l1 : (advance { s with comments := [] }).rest.length < s.rest.length := advance_len_lt hc0
      have l2 : (advance (advance { s with comments := [] })).rest.length < s.rest.length := advance2_len_lt hc0
      have l3 := advance_len_le (advance (advance { s with comments := [] }))
      refine Good_ite (fun hl => ?_) (fun hl => ?_)
      · -- name or keyword
        obtain ⟨name, s1, hn, hlt⟩ := getName_progress { s with comments := [] } c hc0 hl
        rw [hn]
        dsimp only
        split
        · rename_i t ht
          exact Good_tok (keywordOf_ne_eof ht) hlt
        · exact Good_tok (ty := .NAME) (by decide) hlt
      refine Good_ite (fun hnum => ?_) (fun hnum => ?_)
      · -- number
        have hd : Gen.number.contains c = true ∨ c = '.' := by
          simp only [Bool.or_eq_true, Bool.and_eq_true, beq_iff_eq] at hnum
          rcases hnum with h1 | h1
          · exact Or.inl h1
          · exact Or.inr h1.1
        have := getNumber_progress { s with comments := [] } c hc0 hd
        refine Good_ite (fun _ => Good_lexErrorAt _ _ _) (fun _ => Good_tok (ty := .NUMBER) (by decide) this)
      refine Good_ite (fun hq => ?_) (fun hq => ?_)
      · -- quoted string
        have hq' : c = '"' ∨ c = '\'' := by
          simp only [Bool.or_eq_true, beq_iff_eq] at hq
          exact hq.symm
        have hp := getString_progress cfg.ignoreUnicode { s with comments := [] } c hc0 hq'
        split
        · rename_i e he
          rw [he] at hp
          exact hp
        · rename_i v s1 he
          rw [he] at hp
          exact Good_tok (ty := .STRING) (by decide) hp
      refine Good_ite (fun hlb => ?_) (fun hlb => ?_)
      · -- long bracket string
        simp only [Bool.and_eq_true, Bool.or_eq_true, beq_iff_eq] at hlb
        have hp := getLongBrackets_progress { s with comments := [] } (by rw [hc0, hlb.1]) hlb.2.symm
        split
        · rename_i e he
          rw [he] at hp
          exact hp
        · rename_i v s1 he
          rw [he] at hp
          exact Good_tok (ty := .STRING) (by decide) hp
      refine Good_ite (fun hdd => ?_) (fun hdd => ?_)
      · -- `..` or `...`
        refine Good_ite (fun _ => Good_tok (ty := .ELLIPSIS) (by decide) ?_) (fun _ => Good_tok (ty := .CONCAT) (by decide) l2)
        exact Nat.lt_of_le_of_lt l3 l2
      -- symbols
      split
      · rename_i t v htwo
        split at htwo
        · rename_i p hp
          cases hs : symbolOf [c, p] with
          | none => rw [hs] at htwo; cases htwo
          | some t' =>
            rw [hs] at htwo
            cases htwo
            exact Good_tok (symbolOf_ne_eof hs) l2
        · cases htwo
      · split
        · rename_i t ht
          exact Good_tok (symbolOf_ne_eof ht) l1
        · exact Good_lexError _ _

theorem getNextToken_good (cfg : LexCfg) (s : LexSt) : Good s.rest.length (getNextToken cfg s) := by
  unfold getNextToken
  dsimp only
  split
  · have := skipShebang_len_le (s.rest.length + 1) s
    exact Good_mono this (nextTokenLoop_good cfg _ _ (by omega))
  · exact nextTokenLoop_good cfg _ _ (by omega)

/-- **`get_next_token` is total**: a token, or a `LexerError` (or the lone-surrogate border of the model); in particular
never `.fuel`, never `.py "AssertionError" _`, never `.py "Unreachable" _`, never `.py "IndexError" _` -/
theorem getNextToken_total (cfg : LexCfg) (s : LexSt) :
    (∃ tok s', getNextToken cfg s = .ok (tok, s')) ∨ (∃ e, getNextToken cfg s = .error e ∧ Benign' e) := by
  have h := getNextToken_good cfg s
  cases hr : getNextToken cfg s with
  | error e => rw [hr] at h; exact Or.inr ⟨e, rfl, h⟩
  | ok r => exact Or.inl ⟨r.1, r.2, rfl⟩

/-- every non-EOF token consumes at least one character -/
theorem getNextToken_progress {cfg : LexCfg} {s : LexSt} {tok : Token} {s' : LexSt}
    (h : getNextToken cfg s = .ok (tok, s')) (hne : tok.type ≠ .EOF) : s'.rest.length < s.rest.length := by
  have hg := getNextToken_good cfg s
  rw [h] at hg
  rcases hg with hg | hg
  · exact absurd hg.1 hne
  · exact hg.2

/-- an `EOF` token is delivered only when the text is exhausted (no keyword or symbol of the tables is `EOF`) -/
theorem getNextToken_eof {cfg : LexCfg} {s : LexSt} {tok : Token} {s' : LexSt}
    (h : getNextToken cfg s = .ok (tok, s')) (heof : tok.type = .EOF) : s'.rest = [] := by
  have hg := getNextToken_good cfg s
  rw [h] at hg
  rcases hg with hg | hg
  · exact hg.2
  · exact absurd heof hg.1

/-- a token never leaves more text than there was -/
theorem getNextToken_len_le {cfg : LexCfg} {s : LexSt} {tok : Token} {s' : LexSt}
    (h : getNextToken cfg s = .ok (tok, s')) : s'.rest.length ≤ s.rest.length := by
  have hg := getNextToken_good cfg s
  rw [h] at hg
  rcases hg with hg | hg
  · rw [hg.2]; exact Nat.zero_le _
  · exact Nat.le_of_lt hg.2

/-! ### what `Benign'` excludes -/

theorem benign'_ne_fuel {e : PyErr} (h : Benign' e) : e ≠ .fuel := by
  rintro rfl
  rcases h with ⟨_, _, _, h⟩ | h <;> cases h

theorem benign'_py {e : PyErr} {kind site : String} (h : Benign' e) (he : e = .py kind site) :
    kind = "OutOfModel" ∧ site = "lone surrogate" := by
  subst he
  rcases h with ⟨_, _, _, h⟩ | h
  · cases h
  · injection h with h1 h2
    exact ⟨h1, h2⟩

/-- `get_next_token` terminates: the fuel of the model never runs out -/
theorem getNextToken_ne_fuel (cfg : LexCfg) (s : LexSt) : getNextToken cfg s ≠ .error .fuel := by
  intro h
  have hg := getNextToken_good cfg s
  rw [h] at hg
  exact benign'_ne_fuel hg rfl

/-- `get_next_token` raises no built-in exception: no `AssertionError`, no `IndexError`, no "Unreachable" -/
theorem getNextToken_no_py (cfg : LexCfg) (s : LexSt) (kind site : String)
    (h : getNextToken cfg s = .error (.py kind site)) : kind = "OutOfModel" ∧ site = "lone surrogate" := by
  have hg := getNextToken_good cfg s
  rw [h] at hg
  exact benign'_py hg rfl

theorem getNextToken_no_assertion (cfg : LexCfg) (s : LexSt) (site : String) :
    getNextToken cfg s ≠ .error (.py "AssertionError" site) := by
  intro h
  exact absurd (getNextToken_no_py cfg s _ _ h).1 (by decide)

theorem getNextToken_no_unreachable (cfg : LexCfg) (s : LexSt) (site : String) :
    getNextToken cfg s ≠ .error (.py "Unreachable" site) := by
  intro h
  exact absurd (getNextToken_no_py cfg s _ _ h).1 (by decide)

theorem getNextToken_no_indexError (cfg : LexCfg) (s : LexSt) (site : String) :
    getNextToken cfg s ≠ .error (.py "IndexError" site) := by
  intro h
  exact absurd (getNextToken_no_py cfg s _ _ h).1 (by decide)

/-! ## the whole text -/

/-- `lexAll` with fuel above the remaining length never runs dry: every call but the last consumes a character -/
theorem lexAll_total (cfg : LexCfg) : ∀ (f : Nat) (s : LexSt), s.rest.length < f →
    (∃ toks, lexAll cfg f s = .ok toks) ∨ (∃ e, lexAll cfg f s = .error e ∧ Benign' e)
  | 0, s, h => by omega
  | f + 1, s, h => by
    rw [lexAll]
    have hg := getNextToken_good cfg s
    cases hr : getNextToken cfg s with
    | error e =>
      rw [hr] at hg
      exact Or.inr ⟨e, rfl, hg⟩
    | ok r =>
      obtain ⟨t, s1⟩ := r
      dsimp only
      by_cases ht : t.type = .EOF
      · simp only [ht, beq_self_eq_true, if_true]
        exact Or.inl ⟨_, rfl⟩
      · have hlt := getNextToken_progress hr ht
        have hb : (t.type == TT.EOF) = false := by simpa using ht
        simp only [hb, Bool.false_eq_true, if_false]
        rcases lexAll_total cfg f s1 (by omega) with ⟨toks, h1⟩ | ⟨e, h1, h2⟩
        · rw [h1]; exact Or.inl ⟨_, rfl⟩
        · rw [h1]; exact Or.inr ⟨e, rfl, h2⟩

theorem initLex_rest (t : List Char) : (initLex t).rest = t := by
  unfold initLex
  split
  · rfl
  · split <;> rfl

/-- **lexing is total**: for any text whatsoever, tokens or a `LexerError` (or the lone-surrogate border of the model);
the fuel `t.length + 2` suffices -/
theorem lexText_total (cfg : LexCfg) (t : List Char) :
    (∃ toks, lexText cfg t = .ok toks) ∨ (∃ e, lexText cfg t = .error e ∧ Benign' e) := by
  unfold lexText
  exact lexAll_total cfg _ _ (by rw [initLex_rest]; omega)

theorem lexText_ne_fuel (cfg : LexCfg) (t : List Char) : lexText cfg t ≠ .error .fuel := by
  intro h
  rcases lexText_total cfg t with ⟨_, h1⟩ | ⟨e, h1, h2⟩
  · rw [h] at h1; cases h1
  · rw [h] at h1; cases h1; exact benign'_ne_fuel h2 rfl

theorem lexText_no_py (cfg : LexCfg) (t : List Char) (kind site : String)
    (h : lexText cfg t = .error (.py kind site)) : kind = "OutOfModel" ∧ site = "lone surrogate" := by
  rcases lexText_total cfg t with ⟨_, h1⟩ | ⟨e, h1, h2⟩
  · rw [h] at h1; cases h1
  · rw [h] at h1; cases h1; exact benign'_py h2 rfl

/-- a successful `lexAll` (hence `lexText`) ends with the `EOF` token, and that is the only one -/
theorem lexAll_shape (cfg : LexCfg) : ∀ (f : Nat) (s : LexSt) (toks : List Token), lexAll cfg f s = .ok toks →
    ∃ pre last, toks = pre ++ [last] ∧ last.type = .EOF ∧ ∀ t ∈ pre, t.type ≠ .EOF
  | 0, s, toks, h => by rw [lexAll] at h; cases h
  | f + 1, s, toks, h => by
    rw [lexAll] at h
    split at h
    · cases h
    · rename_i t s1 heq
      split at h
      · rename_i ht
        cases h
        exact ⟨[], t, rfl, by simpa using ht, by simp⟩
      · rename_i ht
        cases hr : lexAll cfg f s1 with
        | error e => rw [hr] at h; cases h
        | ok r =>
          rw [hr] at h
          cases h
          obtain ⟨pre, last, rfl, h1, h2⟩ := lexAll_shape cfg f s1 r hr
          refine ⟨t :: pre, last, rfl, h1, ?_⟩
          intro x hx
          rcases List.mem_cons.mp hx with rfl | hx
          · simpa using ht
          · exact h2 x hx

end Tumfl.Theory
