import Tumfl.Theory.FormatTextLay
/-!
# Stage B3: `add_spacing` only inserts Newline separators
-/
namespace Tumfl.Theory
open Tumfl Tumfl.Model

theorem InsNl.trans {a b c : Pieces} (h1 : InsNl a b) (h2 : InsNl b c) : InsNl a c := by
  induction h2 generalizing a with
  | nil => exact h1
  | @keep p b' c' _ ih =>
    cases h1 with
    | keep _ h => exact .keep p (ih h)
    | ins h => exact .ins (ih h)
  | ins _ ih => exact .ins (ih h1)

theorem insNl_insertAt (xs : Pieces) (i : Nat) : InsNl xs (insertAt xs i (S .newline)) := by
  unfold insertAt
  induction xs generalizing i with
  | nil => simp; exact .ins .nil
  | cons x xs ih =>
    cases i with
    | zero => simp; exact .ins (InsNl.refl _)
    | succ i => simp only [List.take_succ_cons, List.drop_succ_cons, List.cons_append]; exact .keep x (ih i)

theorem insNl_foldl : ∀ (is : List Nat) (xs : Pieces), InsNl xs (is.foldl (fun acc i => insertAt acc i (S .newline)) xs)
  | [], xs => InsNl.refl xs
  | i :: is, xs => by
    simp only [List.foldl_cons]
    exact (insNl_insertAt xs i).trans (insNl_foldl is _)

/-- **STAGE B3** -/
theorem addSpacing_insNl {ts ts' : Pieces} {sty : Style} (h : addSpacing ts sty = .ok ts') : InsNl ts ts' := by
  simp only [addSpacing] at h
  obtain ⟨⟨_, _, toAdd⟩, _, h⟩ := lk_bind_ok h
  simp only [Except.ok.injEq] at h
  subst h
  exact insNl_foldl _ ts

end Tumfl.Theory
