import Tumfl.Theory.Resolve
/-!
# Termination of the dependency resolver: vocabulary

* `reqNames*`   : the module names of the EXPRESSION-level calls `require(<string literal>)` of a tree, collected
                  structurally, at any depth (blocks, function bodies, tables, arguments ...).  A statement-level
                  `require("m")` (`Stmt.call`) does not contribute its own name.
* `ExprEdge`    : the expression-level dependency edges between the files of a file system.
* `depth*`      : recursion depth of the resolver on a tree (one unit per call of a `resolve*` function, exactly as the
                  fuel is consumed; list cells count because `resolveExprs`/`resolveStmts`/`resolveFields` recurse on
                  the tail).
* `unfound`     : number of files of the file system that are not yet in `found`.
-/
namespace Tumfl.Theory
open Tumfl.Model

/-- the name of an expression-level `require(<string literal>)`, exactly the shape `resolveExpr` inlines -/
def reqLitName (fn : Expr) (args : List Expr) : Option (List Char) :=
  if isRequireName fn then
    match args with
    | [.string _ name] => some name
    | _ => none
  else none

mutual
def reqNamesExpr : Expr → List (List Char)
  | .func _ ps body => reqNamesExprs ps ++ reqNamesBlock body
  | .table _ fs => reqNamesFields fs
  | .binop _ _ l r => reqNamesExpr l ++ reqNamesExpr r
  | .unop _ _ x => reqNamesExpr x
  | .index _ l k => reqNamesExpr l ++ reqNamesExpr k
  | .namedIndex _ l n => reqNamesExpr l ++ reqNamesExpr n
  | .call _ fn args => (reqLitName fn args).toList ++ (reqNamesExpr fn ++ reqNamesExprs args)
  | .method _ fn m args => reqNamesExpr fn ++ (reqNamesExpr m ++ reqNamesExprs args)
  | _ => []
def reqNamesExprs : List Expr → List (List Char)
  | [] => []
  | e :: es => reqNamesExpr e ++ reqNamesExprs es
def reqNamesOptExpr : Option Expr → List (List Char)
  | none => []
  | some e => reqNamesExpr e
def reqNamesOptExprs : Option (List Expr) → List (List Char)
  | none => []
  | some es => reqNamesExprs es
def reqNamesField : Field → List (List Char)
  | .explicit _ k v => reqNamesExpr k ++ reqNamesExpr v
  | .named _ n v => reqNamesExpr n ++ reqNamesExpr v
  | .numbered _ v => reqNamesExpr v
def reqNamesFields : List Field → List (List Char)
  | [] => []
  | fd :: rest => reqNamesField fd ++ reqNamesFields rest
def reqNamesStmt : Stmt → List (List Char)
  | .assign _ ts es => reqNamesExprs ts ++ reqNamesExprs es
  | .block b => reqNamesBlock b
  | .call _ fn args => reqNamesExpr fn ++ reqNamesExprs args
  | .funcDef _ ns m ps body => reqNamesExprs ns ++ (reqNamesOptExpr m ++ (reqNamesExprs ps ++ reqNamesBlock body))
  | .goto _ l => reqNamesExpr l
  | .label _ n => reqNamesExpr n
  | .iff _ c tr fl => reqNamesExpr c ++ (reqNamesBlock tr ++ reqNamesFalse fl)
  | .iterFor _ ns es body => reqNamesExprs ns ++ (reqNamesExprs es ++ reqNamesBlock body)
  | .localAssign _ _ es => reqNamesOptExprs es
  | .localFunc _ n ps body => reqNamesExpr n ++ (reqNamesExprs ps ++ reqNamesBlock body)
  | .method _ fn m args => reqNamesExpr fn ++ (reqNamesExpr m ++ reqNamesExprs args)
  | .numFor _ v a b st body =>
    reqNamesExpr v ++ (reqNamesExpr a ++ (reqNamesExpr b ++ (reqNamesOptExpr st ++ reqNamesBlock body)))
  | .repeat _ c body => reqNamesExpr c ++ reqNamesBlock body
  | .whl _ c body => reqNamesExpr c ++ reqNamesBlock body
  | _ => []
def reqNamesStmts : List Stmt → List (List Char)
  | [] => []
  | s :: rest => reqNamesStmt s ++ reqNamesStmts rest
def reqNamesFalse : IfFalse → List (List Char)
  | .none => []
  | .block b => reqNamesBlock b
  | .elif _ c tr fl => reqNamesExpr c ++ (reqNamesBlock tr ++ reqNamesFalse fl)
def reqNamesBlock : Block → List (List Char)
  | .mk _ ss rs _ => reqNamesStmts ss ++ reqNamesOptExprs rs
end

/-- `p --expr--> q`: the parsed tree of file `p` contains, anywhere, an expression-level `require(<literal name>)`
that the lookup (from `p`'s directory, then the search path) resolves to the file `q` -/
def ExprEdge (fs : FS) (sp : List Path) (p q : Path) : Prop :=
  ∃ text b hs name, fs.read p = some text ∧ parseText text = .ok (b, hs) ∧ name ∈ reqNamesBlock b ∧
    findFileInPath fs sp name (dirOf p) = some q

/-! ## Recursion depth of the resolver on a tree -/

mutual
def depthExpr : Expr → Nat
  | .func _ ps body => 1 + max (depthExprs ps) (depthBlock body)
  | .table _ fs => 1 + depthFields fs
  | .binop _ _ l r => 1 + max (depthExpr l) (depthExpr r)
  | .unop _ _ x => 1 + depthExpr x
  | .index _ l k => 1 + max (depthExpr l) (depthExpr k)
  | .namedIndex _ l n => 1 + max (depthExpr l) (depthExpr n)
  | .call _ fn args => 1 + max (depthExpr fn) (depthExprs args)
  | .method _ fn m args => 1 + max (depthExpr fn) (max (depthExpr m) (depthExprs args))
  | _ => 1
def depthExprs : List Expr → Nat
  | [] => 1
  | e :: es => 1 + max (depthExpr e) (depthExprs es)
def depthOptExpr : Option Expr → Nat
  | none => 1
  | some e => 1 + depthExpr e
def depthOptExprs : Option (List Expr) → Nat
  | none => 0
  | some es => depthExprs es
def depthField : Field → Nat
  | .explicit _ k v => max (depthExpr k) (depthExpr v)
  | .named _ n v => max (depthExpr n) (depthExpr v)
  | .numbered _ v => depthExpr v
def depthFields : List Field → Nat
  | [] => 1
  | fd :: rest => 1 + max (depthField fd) (depthFields rest)
def depthStmt : Stmt → Nat
  | .assign _ ts es => 1 + max (depthExprs ts) (depthExprs es)
  | .block b => 1 + depthBlock b
  | .call _ fn args => 1 + max (depthExpr fn) (depthExprs args)
  | .funcDef _ ns m ps body =>
    1 + max (depthExprs ns) (max (depthOptExpr m) (max (depthExprs ps) (depthBlock body)))
  | .goto _ l => 1 + depthExpr l
  | .label _ n => 1 + depthExpr n
  | .iff _ c tr fl => 1 + max (depthExpr c) (max (depthBlock tr) (depthFalse fl))
  | .iterFor _ ns es body => 1 + max (depthExprs ns) (max (depthExprs es) (depthBlock body))
  | .localAssign _ _ es => 1 + depthOptExprs es
  | .localFunc _ n ps body => 1 + max (depthExpr n) (max (depthExprs ps) (depthBlock body))
  | .method _ fn m args => 1 + max (depthExpr fn) (max (depthExpr m) (depthExprs args))
  | .numFor _ v a b st body =>
    1 + max (depthExpr v) (max (depthExpr a) (max (depthExpr b) (max (depthOptExpr st) (depthBlock body))))
  | .repeat _ c body => 1 + max (depthExpr c) (depthBlock body)
  | .whl _ c body => 1 + max (depthExpr c) (depthBlock body)
  | _ => 1
def depthStmts : List Stmt → Nat
  | [] => 1
  | s :: rest => 1 + max (depthStmt s) (depthStmts rest)
def depthFalse : IfFalse → Nat
  | .none => 1
  | .block b => 1 + depthBlock b
  | .elif _ c tr fl => 1 + max (depthExpr c) (max (depthBlock tr) (depthFalse fl))
def depthBlock : Block → Nat
  | .mk _ ss rs _ => 1 + max (depthStmts ss) (depthOptExprs rs)
end

/-- depth of the parsed tree of file `p` (`0` if `p` is missing or does not parse) -/
def fileDepth (fs : FS) (p : Path) : Nat :=
  match fs.read p with
  | none => 0
  | some text =>
    match parseText text with
    | .error _ => 0
    | .ok (b, _) => depthBlock b

/-- the largest recursion depth of a parsed file of the file system -/
def maxFileDepth (fs : FS) : Nat := (fs.files.map fun pf => fileDepth fs pf.1).foldr max 0

/-- the largest rank of a file of the file system -/
def maxFileRank (fs : FS) (rank : Path → Nat) : Nat := (fs.files.map fun pf => rank pf.1).foldr max 0

/-- number of file entries whose path is not in `found` -/
def unfound (fs : FS) (st : RSt) : Nat := (fs.files.filter fun pf => !st.found.contains pf.1).length

theorem le_foldr_max {l : List Nat} {a : Nat} (h : a ∈ l) : a ≤ l.foldr max 0 := by
  induction l with
  | nil => cases h
  | cons b l ih =>
    rw [List.foldr_cons]
    rcases List.mem_cons.mp h with rfl | h
    · exact Nat.le_max_left _ _
    · exact Nat.le_trans (ih h) (Nat.le_max_right _ _)

theorem lookup_some_mem {l : List (Path × List Char)} {p : Path} {c : List Char} (hl : l.lookup p = some c) :
    (p, c) ∈ l := by
  induction l with
  | nil => cases hl
  | cons x xs ih =>
    obtain ⟨k, v⟩ := x
    rw [List.lookup_cons] at hl
    split at hl
    · rename_i hk
      cases hl
      have : p = k := by simpa using hk
      subst this
      exact List.mem_cons_self
    · exact List.mem_cons_of_mem _ (ih hl)

theorem isFile_mem {fs : FS} {p : Path} (h : fs.isFile p = true) : ∃ c, (p, c) ∈ fs.files := by
  unfold FS.isFile at h
  cases hl : fs.files.lookup p with
  | none => rw [hl] at h; cases h
  | some c => exact ⟨c, lookup_some_mem hl⟩

theorem read_some_isFile {fs : FS} {p : Path} {text : List Char} (h : fs.read p = some text) : fs.isFile p = true := by
  unfold FS.read at h; unfold FS.isFile; rw [h]; rfl

theorem fileDepth_le_max {fs : FS} {p : Path} (h : fs.isFile p = true) : fileDepth fs p ≤ maxFileDepth fs := by
  obtain ⟨c, hc⟩ := isFile_mem h
  exact le_foldr_max (List.mem_map.mpr ⟨(p, c), hc, rfl⟩)

theorem rank_le_max {fs : FS} (rank : Path → Nat) {p : Path} (h : fs.isFile p = true) :
    rank p ≤ maxFileRank fs rank := by
  obtain ⟨c, hc⟩ := isFile_mem h
  exact le_foldr_max (List.mem_map.mpr ⟨(p, c), hc, rfl⟩)

theorem depthBlock_le_max {fs : FS} {p : Path} {text : List Char} {b : Block} {hs}
    (hr : fs.read p = some text) (hp : parseText text = .ok (b, hs)) : depthBlock b ≤ maxFileDepth fs := by
  have := fileDepth_le_max (read_some_isFile hr)
  unfold fileDepth at this
  rw [hr] at this
  simp only [hp] at this
  exact this

theorem unfound_le_length (fs : FS) (st : RSt) : unfound fs st ≤ fs.files.length := List.length_filter_le _ _

end Tumfl.Theory
