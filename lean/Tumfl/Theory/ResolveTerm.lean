import Tumfl.Theory.ResolveTermInd
/-!
# Termination of `resolve_recursive` (`Tumfl/Model/Resolve.lean`)

The Python resolver has no fuel; the model's fuel stands for the Python recursion depth.  If the EXPRESSION-level
dependency edges of the file system (`ExprEdge`, `ResolveTermDefs.lean`) are well-founded - given by a rank function
that decreases along them - then the resolver never runs out of fuel, for every main file and every search path,
whatever the statement-level `require`s do (cycles included): a statement-level `require` is cut by the `found` table.

Explicit bound:  `(N + 1) * (R + 1) * D ≤ fuel`  with `N` the number of files, `R` the largest rank of a file and `D`
the largest recursion depth (`depthBlock`) of a parsed file.
-/
namespace Tumfl.Theory
open Tumfl.Model

theorem unfound_init (fs : FS) : unfound fs { found := [] } ≤ fs.files.length := unfound_le_length fs _

/-- MAIN THEOREM, explicit bound.  `Ranked fs sp rank R D`: `rank` decreases along expression-level edges, every file
has rank at most `R`, every parsed file has depth at most `D`. -/
theorem resolveRecursive_no_fuel_of_bound {fs : FS} {sp : List Path} {rank : Path → Nat} {R D : Nat}
    (hR : Ranked fs sp rank R D) (main : Path) (fuel : Nat) (hf : (fs.files.length + 1) * (R + 1) * D ≤ fuel) :
    resolveRecursive fs main sp fuel ≠ .error .fuel := by
  have key : RNF fs fs.files.length
      (do let ast ← parseFile fs main; resolveBlock fs sp fuel (dirOf main) ast : RM Block) := by
    refine RNF.bindP (fun ast => ∃ text hs, fs.read main = some text ∧ parseText text = .ok (ast, hs))
      (parseFile_nf fs main _) (parseFile_grow fs main) (fun st a st' h => (parseFile_ok h).2) ?_
    rintro ast ⟨text, hs, hr, hp⟩
    refine (resolve_nf hR fuel).2.2.2.1 _ _ _ (rank main) ?_ ?_
    · intro name hn q hq
      exact hR.edge main q ⟨text, ast, hs, name, hr, hp, hn, hq⟩
    · have h1 := hR.depthLe main text ast hs hr hp
      have h2 := hR.rankLe main (read_some_isFile hr)
      have h3 : W R D fs.files.length (rank main) ≤ W R D fs.files.length R := by
        unfold W; exact Nat.mul_le_mul_right _ (by omega)
      have h4 : D + W R D fs.files.length R = (fs.files.length + 1) * (R + 1) * D := by
        unfold W
        have e : (fs.files.length + 1) * (R + 1) = (fs.files.length * (R + 1) + R) + 1 := by
          rw [Nat.succ_mul]; omega
        rw [e, Nat.succ_mul]; omega
      omega
  have := key { found := [] } (unfound_init fs)
  unfold resolveRecursive
  intro h
  split at h
  · rename_i e heq
    cases h
    exact this heq
  · cases h

/-- the hypotheses with the canonical bounds `R = maxFileRank`, `D = maxFileDepth` -/
theorem ranked_max {fs : FS} {sp : List Path} {rank : Path → Nat}
    (hrank : ∀ p q, ExprEdge fs sp p q → rank q < rank p) :
    Ranked fs sp rank (maxFileRank fs rank) (maxFileDepth fs) where
  edge := hrank
  rankLe := fun _ h => rank_le_max rank h
  depthLe := fun _ _ _ _ hr hp => depthBlock_le_max hr hp

/-- the fuel that always suffices -/
def resolveFuel (fs : FS) (rank : Path → Nat) : Nat :=
  (fs.files.length + 1) * (maxFileRank fs rank + 1) * maxFileDepth fs

/-- MAIN THEOREM.  If the expression-level edge relation is well-founded (rank function), resolution terminates for
every main file and every fuel above `resolveFuel fs rank` - which does not depend on the main file. -/
theorem resolveRecursive_no_fuel {fs : FS} {sp : List Path} {rank : Path → Nat}
    (hrank : ∀ p q, ExprEdge fs sp p q → rank q < rank p) (main : Path) (fuel : Nat)
    (hf : resolveFuel fs rank ≤ fuel) : resolveRecursive fs main sp fuel ≠ .error .fuel :=
  resolveRecursive_no_fuel_of_bound (ranked_max hrank) main fuel hf

theorem resolveRecursive_terminates {fs : FS} {sp : List Path} {rank : Path → Nat}
    (hrank : ∀ p q, ExprEdge fs sp p q → rank q < rank p) (main : Path) :
    ∃ fuel0, ∀ fuel, fuel0 ≤ fuel → resolveRecursive fs main sp fuel ≠ .error .fuel :=
  ⟨resolveFuel fs rank, fun fuel hf => resolveRecursive_no_fuel hrank main fuel hf⟩

/-- COROLLARY (a).  Without expression-level `require`s between files, resolution terminates: statement-level cycles of
any length are harmless.  Bound: `(N + 1) * D`. -/
theorem resolveRecursive_no_fuel_stmt_only {fs : FS} {sp : List Path} (hno : ∀ p q, ¬ ExprEdge fs sp p q)
    (main : Path) (fuel : Nat) (hf : (fs.files.length + 1) * maxFileDepth fs ≤ fuel) :
    resolveRecursive fs main sp fuel ≠ .error .fuel := by
  have hR : Ranked fs sp (fun _ => 0) 0 (maxFileDepth fs) :=
    { edge := fun p q h => absurd h (hno p q)
      rankLe := fun _ _ => Nat.le_refl _
      depthLe := fun _ _ _ _ hr hp => depthBlock_le_max hr hp }
  exact resolveRecursive_no_fuel_of_bound hR main fuel (by simpa using hf)

theorem resolveRecursive_terminates_stmt_only {fs : FS} {sp : List Path} (hno : ∀ p q, ¬ ExprEdge fs sp p q)
    (main : Path) : ∃ fuel0, ∀ fuel, fuel0 ≤ fuel → resolveRecursive fs main sp fuel ≠ .error .fuel :=
  ⟨_, fun fuel hf => resolveRecursive_no_fuel_stmt_only hno main fuel hf⟩

end Tumfl.Theory
