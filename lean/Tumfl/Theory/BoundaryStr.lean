import Tumfl.Theory.BoundarySym
import Tumfl.Theory.StrWrite
import Tumfl.Theory.StrRead
import Tumfl.Inst.StrWrite
/-!
# Boundary lemmas, part 5: string literals

A quoted or long string piece ends with its closing delimiter, so whatever follows cannot extend
it.  `IsQuotedLit a v` / `IsLongLit a v` say that `a` is a literal whose body the reference lexer reads
as `v` *for every continuation*; what `visitString` writes is such a literal (`visitString_quoted`,
`visitString_long`), and so is every well-formed source literal (`spelled_quoted`).  For these pieces no
hypothesis on `sepRequired` is needed at all.
-/
namespace Tumfl.Theory
open Tumfl Tumfl.Spec Tumfl.Model

/-- `a = q body q` and the reference reads `body` up to the closing quote as `v`, whatever follows -/
def IsQuotedLit (a : List Char) (v : List SUnit) : Prop :=
  ∃ q body, (q = '"' ∨ q = '\'') ∧ a = q :: body ++ [q] ∧
    ∀ rest F, body.length < F → strBody q F (body ++ q :: rest) = some (v, rest)

/-- `a = [=*[ content ]=*]` and the reference reads `content` up to the closer as `v`, whatever follows -/
def IsLongLit (a : List Char) (v : List Char) : Prop :=
  ∃ lvl content, a = '[' :: repeatChar '=' lvl ++ '[' :: content ++ closer lvl ∧
    ∀ rest, longBody lvl (dropFirstNewline (content ++ closer lvl ++ rest)) = some (v, rest)

/-! ## quoted -/

theorem escapeCharWith_ne_nil (tbl : List (Char × Char)) (q c : Char) : 1 ≤ (escapeCharWith tbl q c).length := by
  unfold escapeCharWith
  split
  · simp
  · split
    · simp
    · split
      · simp
      · split
        · simp
        · simp

theorem flatMap_length_ge (f : Char → List Char) (hf : ∀ c, 1 ≤ (f c).length) (v : List Char) :
    v.length ≤ (v.flatMap f).length := by
  induction v with
  | nil => simp
  | cons c cs ih =>
    have := hf c
    simp only [List.flatMap_cons, List.length_append, List.length_cons]
    omega

/-- `quoted_roundtrip_with` for every fuel above the length of the value -/
theorem quoted_roundtrip_ge {tbl : List (Char × Char)} (hok : EscTableOK tbl = true) (q : Char)
    (hq : q = '"' ∨ q = '\'') (v rest : List Char) (F : Nat) (hF : v.length < F) :
    strBody q F (v.flatMap (escapeCharWith tbl q) ++ q :: rest) =
      some (v.map (fun c => SUnit.ch c.toNat), rest) := by
  induction v generalizing F with
  | nil =>
    obtain ⟨F', rfl⟩ : ∃ F', F = F' + 1 := ⟨F - 1, by omega⟩
    simp [strBody]
  | cons c cs ih =>
    obtain ⟨F', rfl⟩ : ∃ F', F = F' + 1 := ⟨F - 1, by omega⟩
    rw [List.flatMap_cons, List.append_assoc, strBody_escapeChar hok q hq, ih F' (by simpa using hF)]
    rfl

/-- what `visitString` writes in quoted form is a quoted literal that reads back as the value -/
theorem visitString_quoted (q : Char) (hq : q = '"' ∨ q = '\'') (v : List Char) :
    IsQuotedLit (q :: (v.flatMap (escapeChar q)) ++ [q]) (v.map fun c => SUnit.ch c.toNat) := by
  refine ⟨q, v.flatMap (escapeChar q), hq, rfl, ?_⟩
  intro rest F hF
  rw [escapeChar_eq] at hF ⊢
  have := flatMap_length_ge (escapeCharWith Gen.escapeCharacters q) (escapeCharWith_ne_nil _ q) v
  exact quoted_roundtrip_ge Inst.escTable_ok q hq v rest F (by omega)

/-- every well-formed source literal (`StrRead.WF`) is a quoted literal -/
theorem spelled_quoted (q : Char) (hq : q = '"' ∨ q = '\'') (items : List StrItem) (hwf : WF q items) :
    IsQuotedLit (q :: spellAll items ++ [q]) (unitsAll items) :=
  ⟨q, spellAll items, hq, rfl, fun rest F hF => spec_strBody_fuel q hq rest items hwf F (by omega)⟩

/-- STRINGS (quoted): the reference lexer reads the literal and stops right after it -/
theorem quoted_lexOne (a : List Char) (v : List SUnit) (ha : IsQuotedLit a v) (b rest : List Char) :
    lexOne (a ++ b ++ rest) = some (.str v, b ++ rest) := by
  obtain ⟨q, body, hq, rfl, hb⟩ := ha
  have e : q :: body ++ [q] ++ b ++ rest = q :: (body ++ q :: (b ++ rest)) := by simp
  rw [e]
  have hs := hb (b ++ rest) ((body ++ q :: (b ++ rest)).length + 1) (by simp; omega)
  unfold lexOne
  rcases hq with rfl | rfl
  · simp only [show isAlpha '"' = false by decide, show isDigit '"' = false by decide,
      show ('"' == '.') = false by decide, show ('"' == '"' || '"' == '\'') = true by decide,
      Bool.false_and, Bool.or_self, Bool.false_eq_true, if_false, if_true, hs, Option.map_some]
  · simp only [show isAlpha '\'' = false by decide, show isDigit '\'' = false by decide,
      show ('\'' == '.') = false by decide, show ('\'' == '"' || '\'' == '\'') = true by decide,
      Bool.false_and, Bool.or_self, Bool.false_eq_true, if_false, if_true, hs, Option.map_some]

/-! ## long brackets -/

theorem countEq_replicate (lvl : Nat) (t : List Char) (ht : ∀ r, t ≠ '=' :: r) :
    countEq (repeatChar '=' lvl ++ t) = (lvl, t) := by
  induction lvl with
  | zero =>
    simp only [repeatChar, List.replicate_zero, List.nil_append]
    rw [countEq.eq_def]
    split
    · rename_i r; exact absurd rfl (ht r)
    · rfl
  | succ k ih =>
    simp only [repeatChar, List.replicate_succ, List.cons_append] at ih ⊢
    rw [countEq, ih]

theorem longOpener_written (lvl : Nat) (t : List Char) :
    longOpener ('[' :: repeatChar '=' lvl ++ '[' :: t) = some (lvl, t) := by
  rw [List.cons_append, longOpener, countEq_replicate lvl ('[' :: t) (by intro r h; cases h)]
  rfl

/-- what `visitString` writes in long form is a long literal that reads back as the value -/
theorem visitString_long (v : List Char) :
    IsLongLit (('[' :: repeatChar '=' (findLevel v) ++ ['[']) ++ (if startsWith v ['\n'] then ['\n'] else []) ++ v ++
      (']' :: repeatChar '=' (findLevel v) ++ [']'])) v := by
  refine ⟨findLevel v, (if startsWith v ['\n'] then ['\n'] else []) ++ v, by simp [closer], ?_⟩
  intro rest
  have := long_roundtrip v rest
  simp only at this
  rw [← this]
  simp [closer]

/-- STRINGS (long): the reference lexer reads the literal and stops right after it -/
theorem long_lexOne (a v : List Char) (ha : IsLongLit a v) (b rest : List Char) :
    lexOne (a ++ b ++ rest) = some (.str (v.map fun ch => .ch ch.toNat), b ++ rest) := by
  obtain ⟨lvl, content, rfl, hb⟩ := ha
  have e : '[' :: repeatChar '=' lvl ++ '[' :: content ++ closer lvl ++ b ++ rest =
      '[' :: (repeatChar '=' lvl ++ '[' :: (content ++ closer lvl ++ (b ++ rest))) := by simp
  rw [e]
  have ho := longOpener_written lvl (content ++ closer lvl ++ (b ++ rest))
  rw [List.cons_append] at ho
  have hl := hb (b ++ rest)
  have hsym : symAt ('[' :: (repeatChar '=' lvl ++ '[' :: (content ++ closer lvl ++ (b ++ rest)))) = none := by
    unfold symAt
    simp only [show (isSpace '[' || '[' == '"' || '[' == '\'' || isDigit '[' || isAlpha '[') = false by decide,
      show ('[' == '-') = false by decide, show ('[' == '[') = true by decide, Bool.false_eq_true, if_false,
      if_true, ho]
  unfold lexOne
  simp only [show isAlpha '[' = false by decide, show isDigit '[' = false by decide,
    show ('[' == '.') = false by decide, show ('[' == '"' || '[' == '\'') = false by decide,
    show ('[' == '[') = true by decide,
    Bool.false_and, Bool.or_self, Bool.false_eq_true, if_false, if_true, hsym, ho, hl, Option.map_some]

end Tumfl.Theory
