import Tumfl.Theory.LadderMono
/-!
# Fuel monotonicity of the generic ladder, errors included

`FLe bad a b` : wherever `a` does not fail with `bad` (the fuel error), `b` gives the very same outcome
(result or error).  The ladder with more fuel and a "more defined" atom parser is above the ladder
with less fuel.  Unlike `PLe` of `LadderMono.lean` this also transports the errors, and it allows the
atom parser (`S.simple`) to change with the fuel, as it does in `parseExp`.
-/
namespace Tumfl.Theory
open Tumfl.Spec Tumfl.Model

variable {σ ε Err T α : Type}

/-- `b` agrees with `a` wherever `a` does not fail with `bad` -/
def FLe (bad : Err) (a b : σ → Except Err α) : Prop := ∀ s, a s ≠ .error bad → b s = a s

theorem FLe.refl (bad : Err) (a : σ → Except Err α) : FLe bad a a := fun _ _ => rfl

theorem FLe.trans {bad : Err} {a b c : σ → Except Err α} (h1 : FLe bad a b) (h2 : FLe bad b c) : FLe bad a c := by
  intro s h
  have e1 := h1 s h
  rw [h2 s (by rw [e1]; exact h), e1]

/-- two signatures with the same cursor (they may differ in the atom parser `simple`) -/
structure SameCursor (S S' : ExprSig σ ε Err T) : Prop where
  peek : S'.peek = S.peek
  eat : S'.eat = S.eat
  binOf : S'.binOf = S.binOf
  unOf : S'.unOf = S.unOf
  mkBin : S'.mkBin = S.mkBin
  mkUn : S'.mkUn = S.mkUn
  fuelErr : S'.fuelErr = S.fuelErr

section
variable {S S' : ExprSig σ ε Err T}

theorem leftLoop_fle (hS : SameCursor S S') (ops : List BOp) {b b' : σ → PR σ ε Err} (hb : FLe S.fuelErr b b') :
    ∀ (f : Nat) (node : ε), FLe S.fuelErr (leftLoop S ops b f node) (leftLoop S' ops b' (f + 1) node) := by
  intro f
  induction f with
  | zero => intro node s h; exact absurd (by rw [leftLoop]) h
  | succ f ih =>
    intro node s
    rw [leftLoop_succ S ops b f node s, leftLoop_succ S' ops b' (f + 1) node s]
    simp only [hS.peek, hS.binOf, hS.eat, hS.mkBin]
    cases S.binOf (S.peek s) with
    | none => intro _; rfl
    | some o =>
      simp only []
      by_cases hc : ops.contains o = true
      · simp only [hc, if_true]
        cases S.eat s with
        | error e => intro _; rfl
        | ok s1 =>
          simp only []
          intro h
          have hb1 : b s1 ≠ .error S.fuelErr := by intro hh; rw [hh] at h; exact h rfl
          rw [hb s1 hb1]
          cases hbs : b s1 with
          | error e => rfl
          | ok r =>
            obtain ⟨r, s2⟩ := r
            rw [hbs] at h
            exact ih _ s2 h
      · simp only [hc]; intro _; rfl

theorem leftAssoc_fle (hS : SameCursor S S') (ops : List BOp) {b b' : σ → PR σ ε Err} (hb : FLe S.fuelErr b b')
    (f : Nat) : FLe S.fuelErr (leftAssoc S ops b f) (leftAssoc S' ops b' (f + 1)) := by
  intro s
  unfold leftAssoc
  intro h
  have hb1 : b s ≠ .error S.fuelErr := by intro hh; rw [hh] at h; exact h rfl
  rw [hb s hb1]
  cases hbs : b s with
  | error e => rfl
  | ok r =>
    obtain ⟨n, s1⟩ := r
    rw [hbs] at h
    exact leftLoop_fle hS ops hb f n s1 h

theorem rightCollect_fle (hS : SameCursor S S') (ops : List BOp) {b b' : σ → PR σ ε Err} (hb : FLe S.fuelErr b b') :
    ∀ (f : Nat), FLe S.fuelErr (rightCollect S ops b f) (rightCollect S' ops b' (f + 1)) := by
  intro f
  induction f with
  | zero => intro s h; exact absurd (by rw [rightCollect]) h
  | succ f ih =>
    intro s
    rw [rightCollect_succ S ops b f s, rightCollect_succ S' ops b' (f + 1) s]
    simp only [hS.peek, hS.binOf, hS.eat]
    cases S.binOf (S.peek s) with
    | none => intro _; rfl
    | some o =>
      simp only []
      by_cases hc : ops.contains o = true
      · simp only [hc, if_true]
        cases S.eat s with
        | error e => intro _; rfl
        | ok s1 =>
          simp only []
          intro h
          have hb1 : b s1 ≠ .error S.fuelErr := by intro hh; rw [hh] at h; exact h rfl
          rw [hb s1 hb1]
          cases hbs : b s1 with
          | error e => rfl
          | ok r =>
            obtain ⟨r, s2⟩ := r
            rw [hbs] at h
            simp only [] at h ⊢
            have hc1 : rightCollect S ops b f s2 ≠ .error S.fuelErr := by intro hh; rw [hh] at h; exact h rfl
            rw [ih s2 hc1]
      · simp only [hc]; intro _; rfl

theorem foldRight_same (hS : SameCursor S S') (first : ε) (items : List (T × BOp × ε)) :
    foldRight S' first items = foldRight S first items := by
  induction items generalizing first with
  | nil => rfl
  | cons x rest ih =>
    obtain ⟨t, o, e⟩ := x
    simp only [foldRight, hS.mkBin, ih]

theorem rightAssoc_fle (hS : SameCursor S S') (ops : List BOp) {b b' o o' : σ → PR σ ε Err}
    (hb : FLe S.fuelErr b b') (ho : FLe S.fuelErr o o') (f : Nat) :
    FLe S.fuelErr (rightAssoc S ops b o f) (rightAssoc S' ops b' o' (f + 1)) := by
  intro s
  unfold rightAssoc
  intro h
  have hb1 : b s ≠ .error S.fuelErr := by intro hh; rw [hh] at h; exact h rfl
  rw [hb s hb1]
  cases hbs : b s with
  | error e => rfl
  | ok r =>
    obtain ⟨n, s1⟩ := r
    rw [hbs] at h
    simp only [] at h ⊢
    have hc1 : rightCollect S ops o f s1 ≠ .error S.fuelErr := by intro hh; rw [hh] at h; exact h rfl
    rw [rightCollect_fle hS ops ho f s1 hc1]
    simp only [foldRight_same hS]

theorem unpow_fle (hS : SameCursor S S') (powOps : List BOp) (hs : FLe S.fuelErr S.simple S'.simple) : ∀ f,
    FLe S.fuelErr (unLevel S powOps f) (unLevel S' powOps (f + 1)) ∧
    FLe S.fuelErr (powLevel S powOps f) (powLevel S' powOps (f + 1)) := by
  intro f
  induction f with
  | zero =>
    constructor
    · intro s h; exact absurd (by rw [unLevel]) h
    · intro s h; exact absurd (by rw [powLevel]) h
  | succ f ih =>
    obtain ⟨ihu, ihp⟩ := ih
    constructor
    · intro s
      rw [unLevel_succ S powOps f s, unLevel_succ S' powOps (f + 1) s]
      simp only [hS.peek, hS.unOf, hS.eat, hS.mkUn]
      cases S.unOf (S.peek s) with
      | none => exact ihp s
      | some u =>
        simp only []
        cases S.eat s with
        | error e => intro _; rfl
        | ok s1 =>
          simp only []
          intro h
          have h1 : unLevel S powOps f s1 ≠ .error S.fuelErr := by intro hh; rw [hh] at h; exact h rfl
          rw [ihu s1 h1]
    · intro s
      rw [powLevel_succ S powOps f s, powLevel_succ S' powOps (f + 1) s]
      exact rightAssoc_fle hS powOps hs ihu f s

theorem binLevels_fle (hS : SameCursor S S') (powOps : List BOp) (hs : FLe S.fuelErr S.simple S'.simple) :
    ∀ f levels, FLe S.fuelErr (binLevels S powOps levels f) (binLevels S' powOps levels (f + 1)) := by
  intro f
  induction f with
  | zero =>
    intro levels
    cases levels with
    | nil => intro s; rw [binLevels_nil, binLevels_nil]; exact (unpow_fle hS powOps hs 0).1 s
    | cons d rest => intro s h; exact absurd (by rw [binLevels]) h
  | succ f ih =>
    intro levels
    cases levels with
    | nil => intro s; rw [binLevels_nil, binLevels_nil]; exact (unpow_fle hS powOps hs _).1 s
    | cons d rest =>
      intro s
      rw [binLevels_cons_succ S powOps d rest f s, binLevels_cons_succ S' powOps d rest (f + 1) s]
      cases hd : d.right
      · simp only [Bool.false_eq_true, if_false]
        exact leftAssoc_fle hS d.ops (ih rest) f s
      · simp only [if_true]
        exact rightAssoc_fle hS d.ops (ih rest) (ih (d :: rest)) f s

/-- **Monotonicity of the ladder in the fuel and in the atom parser**, outcome by outcome -/
theorem ladderExp_fle (hS : SameCursor S S') (levels : List LevelDesc) (powOps : List BOp)
    (hs : FLe S.fuelErr S.simple S'.simple) (f : Nat) :
    FLe S.fuelErr (ladderExp S levels powOps f) (ladderExp S' levels powOps (f + 1)) := by
  intro s
  unfold ladderExp
  exact binLevels_fle hS powOps hs f levels s

end
end Tumfl.Theory
