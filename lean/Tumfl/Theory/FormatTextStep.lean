import Tumfl.Theory.FormatTextDefs
/-!
# One piece through `resolve_tokens`, `indent` and `join_tokens`
-/
namespace Tumfl.Theory
open Tumfl Tumfl.Model

/-- the indentation `indent` puts in front of a piece -/
def indPre (ind : List Char) (level : Int) (dirty : Bool) : List Char :=
  if dirty then (List.replicate level.toNat ind).flatten else []

theorem indPre_false (ind : List Char) (level : Int) : indPre ind level false = [] := rfl

theorem indPre_layout {sty : Style} (hd : DocStyle sty) (level : Int) (dirty : Bool) :
    ∀ c ∈ indPre sty.indentation level dirty, c = ' ' ∨ c = '\t' := by
  intro c hc
  unfold indPre at hc
  split at hc
  · simp only [List.mem_flatten, List.mem_replicate] at hc
    obtain ⟨l, ⟨_, rfl⟩, hcl⟩ := hc
    exact hd.indent c hcl
  · cases hc

def endsNl (s : List Char) : Bool := s.getLast? == some '\n'

/-- what one piece contributes to the joined text, and the states after it -/
def StepOut (sty : Style) (p : Piece) (rest : Pieces) (blank : Bool) (level : Int) (dirty : Bool)
    (txt : List Char) (blank' : Bool) (level' : Int) (dirty' : Bool) : Prop :=
  match p with
  | .str s => txt = indPre sty.indentation level dirty ++ s ∧ blank' = false ∧ level' = level ∧ dirty' = endsNl s
  | .sep .space => txt = indPre sty.indentation level dirty ++ [' '] ∧ blank' = false ∧ level' = level ∧ dirty' = false
  | .sep .dot => txt = indPre sty.indentation level dirty ++ ['.'] ∧ blank' = false ∧ level' = level ∧ dirty' = false
  | .sep .statement | .sep .block =>
    txt = indPre sty.indentation level dirty ++ sty.statementSeparator ∧ blank' = false ∧ level' = level ∧
      dirty' = endsNl sty.statementSeparator
  | .sep .argument =>
    rest ≠ [] ∧ txt = indPre sty.indentation level dirty ++
        (if rest.head? = some (.sep .newline) then [','] else sty.argumentSeparator) ∧
      blank' = false ∧ level' = level ∧ dirty' = false
  | .sep .newline =>
    if blank then txt = indPre sty.indentation level dirty ∧ blank' = false ∧ level' = level ∧ dirty' = false
    else txt = indPre sty.indentation level dirty ++ ['\n'] ∧ blank' = true ∧ level' = level ∧ dirty' = true
  | .sep .indent => txt = [] ∧ blank' = false ∧ level' = level + 1 ∧ dirty' = dirty
  | .sep .deindent => txt = [] ∧ blank' = false ∧ level' = level - 1 ∧ dirty' = dirty

theorem joinTokens_cons_str (s : List Char) (r : Pieces) : joinTokens (.str s :: r) = s ++ joinTokens r := by
  simp [joinTokens]
theorem joinTokens_cons_sep (k : Sep) (r : Pieces) : joinTokens (.sep k :: r) = joinTokens r := by
  simp [joinTokens]

/-- `indent` on a text piece -/
theorem indent_str {ind : List Char} {s : List Char} {r6 ts7 : Pieces} {level : Int} {dirty : Bool}
    (h : indentLoop ind (.str s :: r6) level dirty = .ok ts7) :
    ∃ r7, indentLoop ind r6 level (endsNl s) = .ok r7 ∧ joinTokens ts7 = (indPre ind level dirty ++ s) ++ joinTokens r7 := by
  rw [indentLoop] at h
  obtain ⟨r, hr, h⟩ := lk_bind_ok h
  cases h
  have hd : (if s.getLast? == some '\n' then true else (if dirty then false else dirty)) = endsNl s := by
    unfold endsNl
    cases s.getLast? == some '\n' <;> cases dirty <;> rfl
  rw [hd] at hr
  refine ⟨r, hr, ?_⟩
  rw [joinTokens_cons_str]
  unfold indPre
  cases dirty <;> simp

theorem newlineText {sty : Style} (hd : DocStyle sty) :
    (if sty.statementSeparator.contains '\n' then sty.statementSeparator else ['\n']) = ['\n'] := by
  rcases hd.stmtSep with h | h <;> rw [h] <;> decide

theorem rstrip_argSep {sty : Style} (hd : DocStyle sty) : pyRstrip sty.argumentSeparator = [','] := by
  rcases hd.argSep with h | h <;> rw [h] <;> decide

theorem step_cons {sty : Style} (hd : DocStyle sty) (p : Piece) (rest : Pieces) (blank : Bool) (level : Int)
    (dirty : Bool) (ts6 ts7 : Pieces) (h6 : resolveTokensAux sty blank (p :: rest) = .ok ts6)
    (h7 : indentLoop sty.indentation ts6 level dirty = .ok ts7) :
    ∃ txt blank' level' dirty' r6 r7, resolveTokensAux sty blank' rest = .ok r6 ∧
      indentLoop sty.indentation r6 level' dirty' = .ok r7 ∧ joinTokens ts7 = txt ++ joinTokens r7 ∧
      StepOut sty p rest blank level dirty txt blank' level' dirty' := by
  have strCase : ∀ (t : List Char) (b' : Bool) (r6 : Pieces), resolveTokensAux sty b' rest = .ok r6 → ts6 = .str t :: r6 →
      ∃ r7, indentLoop sty.indentation r6 level (endsNl t) = .ok r7 ∧
        joinTokens ts7 = (indPre sty.indentation level dirty ++ t) ++ joinTokens r7 := by
    intro t b' r6 _ e
    rw [e] at h7
    exact indent_str h7
  cases p with
  | str s =>
    simp only [resolveTokensAux] at h6
    split at h6
    · rename_i hc; simp at hc
    · obtain ⟨r6, hr6, h⟩ := lk_bind_ok h6
      cases h
      obtain ⟨r7, hr7, hj⟩ := strCase s false r6 hr6 rfl
      exact ⟨_, false, level, endsNl s, r6, r7, hr6, hr7, hj, rfl, rfl, rfl, rfl⟩
  | sep k =>
    cases k with
    | newline =>
      cases blank with
      | true =>
        simp only [resolveTokensAux, Bool.true_and, beq_self_eq_true, if_true] at h6
        obtain ⟨r6, hr6, h⟩ := lk_bind_ok h6
        cases h
        obtain ⟨r7, hr7, hj⟩ := strCase [] false r6 hr6 rfl
        refine ⟨_, false, level, false, r6, r7, hr6, hr7, hj, ?_⟩
        simp [StepOut]
      | false =>
        simp only [resolveTokensAux, Bool.false_and, Bool.false_eq_true, if_false] at h6
        obtain ⟨r6, hr6, h⟩ := lk_bind_ok h6
        rw [newlineText hd] at h
        cases h
        obtain ⟨r7, hr7, hj⟩ := strCase ['\n'] true r6 hr6 rfl
        refine ⟨_, true, level, true, r6, r7, hr6, hr7, hj, ?_⟩
        simp [StepOut]
    | space =>
      simp only [resolveTokensAux] at h6
      split at h6
      · rename_i hc; simp at hc
      · obtain ⟨r6, hr6, h⟩ := lk_bind_ok h6
        cases h
        obtain ⟨r7, hr7, hj⟩ := strCase " ".toList false r6 hr6 rfl
        exact ⟨_, false, level, false, r6, r7, hr6, hr7, hj, rfl, rfl, rfl, rfl⟩
    | dot =>
      simp only [resolveTokensAux] at h6
      split at h6
      · rename_i hc; simp at hc
      · obtain ⟨r6, hr6, h⟩ := lk_bind_ok h6
        cases h
        obtain ⟨r7, hr7, hj⟩ := strCase ".".toList false r6 hr6 rfl
        exact ⟨_, false, level, false, r6, r7, hr6, hr7, hj, rfl, rfl, rfl, rfl⟩
    | statement =>
      simp only [resolveTokensAux] at h6
      split at h6
      · rename_i hc; simp at hc
      · obtain ⟨r6, hr6, h⟩ := lk_bind_ok h6
        cases h
        obtain ⟨r7, hr7, hj⟩ := strCase sty.statementSeparator false r6 hr6 rfl
        exact ⟨_, false, level, _, r6, r7, hr6, hr7, hj, rfl, rfl, rfl, rfl⟩
    | block =>
      simp only [resolveTokensAux] at h6
      split at h6
      · rename_i hc; simp at hc
      · obtain ⟨r6, hr6, h⟩ := lk_bind_ok h6
        cases h
        obtain ⟨r7, hr7, hj⟩ := strCase sty.statementSeparator false r6 hr6 rfl
        exact ⟨_, false, level, _, r6, r7, hr6, hr7, hj, rfl, rfl, rfl, rfl⟩
    | argument =>
      simp only [resolveTokensAux] at h6
      split at h6
      · rename_i hc; simp at hc
      · obtain ⟨r6, hr6, h⟩ := lk_bind_ok h6
        cases hh : rest.head? with
        | none => rw [hh] at h; cases h
        | some nxt =>
          rw [hh] at h
          simp only [Except.ok.injEq] at h
          have hne : rest ≠ [] := by rintro rfl; cases hh
          by_cases hn : nxt = .sep .newline
          · subst hn
            simp only [beq_self_eq_true, if_true, rstrip_argSep hd] at h
            obtain ⟨r7, hr7, hj⟩ := strCase [','] false r6 hr6 h.symm
            refine ⟨_, false, level, false, r6, r7, hr6, hr7, hj, hne, ?_, rfl, rfl, ?_⟩
            · rw [if_pos hh]
            · rfl
          · have : (nxt == .sep .newline) = false := by simpa using hn
            simp only [this, Bool.false_eq_true, if_false] at h
            obtain ⟨r7, hr7, hj⟩ := strCase sty.argumentSeparator false r6 hr6 h.symm
            refine ⟨_, false, level, endsNl sty.argumentSeparator, r6, r7, hr6, hr7, hj, hne, ?_, rfl, rfl, ?_⟩
            · have : ¬ (rest.head? = some (Piece.sep Sep.newline)) := by rw [hh]; simpa using hn
              rw [if_neg this]
            · rcases hd.argSep with e | e <;> rw [e] <;> decide
    | indent =>
      simp only [resolveTokensAux] at h6
      split at h6
      · rename_i hc; simp at hc
      · obtain ⟨r6, hr6, h⟩ := lk_bind_ok h6
        cases h
        simp only [indentLoop] at h7
        obtain ⟨r7, hr7, h⟩ := lk_bind_ok h7
        cases h
        exact ⟨[], false, level + 1, dirty, r6, r7, hr6, hr7, by simp [joinTokens_cons_sep], rfl, rfl, rfl, rfl⟩
    | deindent =>
      simp only [resolveTokensAux] at h6
      split at h6
      · rename_i hc; simp at hc
      · obtain ⟨r6, hr6, h⟩ := lk_bind_ok h6
        cases h
        simp only [indentLoop] at h7
        obtain ⟨r7, hr7, h⟩ := lk_bind_ok h7
        cases h
        exact ⟨[], false, level - 1, dirty, r6, r7, hr6, hr7, by simp [joinTokens_cons_sep], rfl, rfl, rfl, rfl⟩

end Tumfl.Theory
