import Tumfl.Model.Layout
/-!
# Basic vocabulary for the "layout passes keep the tokens" theorems

`strs` (the string pieces in order), `isSep`, a pointwise list relation `Fa2` (core has no `Forall₂`),
and small lemmas about `strs`, `filter` and the `Except` monad.
-/
namespace Tumfl.Theory
open Tumfl.Model

/-- the string pieces in order -/
def strs (ps : Pieces) : List (List Char) := ps.filterMap fun | .str s => some s | .sep _ => none

def isSep (p : Piece) : Bool := match p with | .sep _ => true | _ => false

@[simp] theorem strs_nil : strs [] = [] := rfl
@[simp] theorem strs_cons_str (s : List Char) (ps : Pieces) : strs (.str s :: ps) = s :: strs ps := rfl
@[simp] theorem strs_cons_sep (x : Sep) (ps : Pieces) : strs (.sep x :: ps) = strs ps := rfl
@[simp] theorem strs_cons_S (x : Sep) (ps : Pieces) : strs (S x :: ps) = strs ps := rfl
@[simp] theorem strs_cons_P (s : String) (ps : Pieces) : strs (P s :: ps) = s.toList :: strs ps := rfl
@[simp] theorem strs_append (a b : Pieces) : strs (a ++ b) = strs a ++ strs b := by
  simp [strs, List.filterMap_append]
theorem strs_reverse (a : Pieces) : strs a.reverse = (strs a).reverse := by
  simp [strs, List.filterMap_reverse]

/-- `strs` only sees the pieces a filter keeps, when the filter keeps all string pieces -/
theorem strs_filter (f : Piece → Bool) (hf : ∀ s, f (.str s) = true) (ps : Pieces) :
    strs (ps.filter f) = strs ps := by
  induction ps with
  | nil => rfl
  | cons p ps ih =>
    cases p with
    | str s => simp [hf, ih]
    | sep x => cases h : f (.sep x) <;> simp [h, ih]

theorem strs_eq_of_filter_eq (f : Piece → Bool) (hf : ∀ s, f (.str s) = true) {a b : Pieces}
    (h : a.filter f = b.filter f) : strs a = strs b := by
  rw [← strs_filter f hf a, ← strs_filter f hf b, h]

/-- pointwise relation between two lists of the same length -/
inductive Fa2 {α β : Type} (R : α → β → Prop) : List α → List β → Prop
  | nil : Fa2 R [] []
  | cons {a b as bs} : R a b → Fa2 R as bs → Fa2 R (a :: as) (b :: bs)

theorem Fa2.length_eq {α β : Type} {R : α → β → Prop} {as : List α} {bs : List β}
    (h : Fa2 R as bs) : as.length = bs.length := by
  induction h with
  | nil => rfl
  | cons _ _ ih => simp [ih]

theorem Fa2.get {α β : Type} {R : α → β → Prop} {as : List α} {bs : List β}
    (h : Fa2 R as bs) : ∀ (i : Nat) (ha : i < as.length) (hb : i < bs.length), R as[i] bs[i] := by
  induction h with
  | nil => intro i ha; simp at ha
  | cons hr _ ih =>
    intro i ha hb
    cases i with
    | zero => simpa using hr
    | succ i => simpa using ih i (by simpa using ha) (by simpa using hb)

theorem Fa2.imp {α β : Type} {R Q : α → β → Prop} (hi : ∀ a b, R a b → Q a b) {as : List α} {bs : List β}
    (h : Fa2 R as bs) : Fa2 Q as bs := by
  induction h with
  | nil => exact .nil
  | cons hr _ ih => exact .cons (hi _ _ hr) ih

/-- inversion of a monadic bind in `Except` -/
theorem lk_bind_ok {ε α β : Type} {x : Except ε α} {f : α → Except ε β} {b : β}
    (h : (x >>= f) = .ok b) : ∃ a, x = .ok a ∧ f a = .ok b := by
  cases x with
  | error e => simp [bind, Except.bind] at h
  | ok a => exact ⟨a, rfl, by simpa [bind, Except.bind] using h⟩

end Tumfl.Theory
