import Tumfl.Theory.EmitIRel
/-!
# The statement loop of the repaired emitter with a continuation

`VSK sty first ss K`: the pieces of `visitStmtsI sty first ss` with `K` in place of the separator behind the last statement;
`contentI sty b K`: what `visit_Block` puts between `do` and `end`, with `K` in place of its last separator.  `visit_Chunk`'s
slice is `contentI sty b []`.
-/
namespace Tumfl.Theory
open Tumfl.Model

/-- one statement of the loop, without its separator -/
def stPI (sty : Style) (first : Bool) (s : Stmt) : Pieces :=
  stmtCommentPieces sty s ++ guardI first (visitStmtI sty s) ++ visitStmtI sty s

def VSK (sty : Style) : Bool → List Stmt → Pieces → Pieces
  | _, [], K => K
  | first, [s], K => stPI sty first s ++ K
  | first, s :: s2 :: rest, K => stPI sty first s ++ S .statement :: VSK sty false (s2 :: rest) K

theorem VSK_cons (sty : Style) (first : Bool) (s : Stmt) (rest : List Stmt) (K : Pieces) :
    VSK sty first (s :: rest) K = stPI sty first s ++ (if rest.isEmpty then K else S .statement :: VSK sty false rest K) := by
  cases rest <;> simp [VSK]

theorem visitStmtsI_eq_VSK (sty : Style) : ∀ (first : Bool) (ss : List Stmt) (tail : Pieces), ss ≠ [] →
    visitStmtsI sty first ss ++ tail = VSK sty first ss (S .statement :: tail)
  | _, [], _, h => absurd rfl h
  | first, [s], tail, _ => by
    rw [visitStmtsI_cons]; simp [VSK, stPI, visitStmtsI]
  | first, s :: s2 :: rest, tail, _ => by
    have ih := visitStmtsI_eq_VSK sty false (s2 :: rest) tail (by simp)
    rw [visitStmtsI_cons, VSK, ← ih]
    simp [stPI]

theorem VSK_append_K (sty : Style) : ∀ (first : Bool) (ss : List Stmt) (K1 K2 : Pieces), ss ≠ [] →
    VSK sty first ss K1 ++ K2 = VSK sty first ss (K1 ++ K2)
  | _, [], _, _, h => absurd rfl h
  | first, [s], K1, K2, _ => by simp [VSK]
  | first, s :: s2 :: rest, K1, K2, _ => by
    have ih := VSK_append_K sty false (s2 :: rest) K1 K2 (by simp)
    simp only [VSK, List.append_assoc, List.cons_append, ih]

theorem VSK_append (sty : Style) : ∀ (first : Bool) (L1 L2 : List Stmt) (K : Pieces), L1 ≠ [] →
    VSK sty first (L1 ++ L2) K =
      VSK sty first L1 (if L2.isEmpty then K else S .statement :: VSK sty false L2 K)
  | _, [], _, _, h => absurd rfl h
  | first, [s], L2, K, _ => by
    rw [List.singleton_append, VSK_cons]; simp [VSK]
  | first, s :: s2 :: rest, L2, K, _ => by
    have ih := VSK_append sty false (s2 :: rest) L2 K (by simp)
    rw [List.cons_append, List.cons_append, VSK, ← List.cons_append, ih, VSK]

/-! ## Leading tokens -/

theorem leadTok_stmtCommentPieces (sty : Style) (s : Stmt) (r : Pieces) :
    leadTok (stmtCommentPieces sty s ++ r) = leadTok r :=
  leadTok_commentLike (commentLike_stmtCommentPieces sty s) r

theorem leadTok_semi (r : Pieces) : leadTok (P ";" :: r) = some [';'] := leadTok_str (by decide) r

theorem leadTok_guardI (first : Bool) (toks r : Pieces) (h : leadTok toks = none) : leadTok (guardI first toks ++ r) = leadTok r := by
  rw [guardI_of_lead (by rw [h]; simp)]; rfl

/-- behind the first statement of a list no statement begins with an unguarded `(` -/
theorem leadTok_stPI_false (sty : Style) (s : Stmt) (r : Pieces) (hr : leadTok r ≠ some ['(']) :
    leadTok (stPI sty false s ++ r) ≠ some ['('] := by
  unfold stPI
  rw [List.append_assoc, List.append_assoc, leadTok_stmtCommentPieces]
  by_cases h : leadTok (visitStmtI sty s) = some ['(']
  · have : guardI false (visitStmtI sty s) = [P ";"] := by simp [guardI, h]
    rw [this]
    simp only [List.cons_append, List.nil_append, leadTok_semi]
    decide
  · rw [guardI_of_lead h, List.nil_append, leadTok_append]
    cases h' : leadTok (visitStmtI sty s) with
    | none => simpa using hr
    | some t => rw [h'] at h; simpa using h

theorem leadTok_VSK_false (sty : Style) : ∀ (L : List Stmt) (K : Pieces), leadTok K ≠ some ['('] →
    leadTok (VSK sty false L K) ≠ some ['(']
  | [], K, h => h
  | [s], K, h => by rw [VSK]; exact leadTok_stPI_false sty s K h
  | s :: s2 :: rest, K, h => by
    rw [VSK]
    apply leadTok_stPI_false
    rw [show S .statement = Piece.sep .statement from rfl, leadTok_sep]
    exact leadTok_VSK_false sty (s2 :: rest) K h

/-! ## Blocks -/

/-- the pieces between `do` ... `end`, with `K` in place of the last separator -/
def contentI (sty : Style) : Block → Pieces → Pieces
  | .mk _ [] none _, _ => []
  | .mk _ (s :: r) none _, K => VSK sty true (s :: r) K
  | .mk _ ss (some es) _, K =>
    visitStmtsI sty true ss ++ ([P "return"] ++ (if es.isEmpty then [] else [S .space]) ++ visitArgsI sty es) ++ K

theorem visitBlockFullI_eq (sty : Style) (b : Block) :
    visitBlockFullI sty b = [P "do", S .block, S .indent] ++ contentI sty b [S .statement] ++ [S .deindent, P "end"] := by
  obtain ⟨t, ss, rs, c⟩ := b
  cases rs with
  | none =>
    cases ss with
    | nil => simp [visitBlockFullI, contentI, visitStmtsI]
    | cons s r =>
      have := visitStmtsI_eq_VSK sty true (s :: r) [] (by simp)
      simp only [List.append_nil] at this
      simp only [visitBlockFullI, contentI, List.append_nil, this]
  | some es => simp [visitBlockFullI, contentI]

/-- `contentI` with `[]`, then the separator -/
theorem contentI_snoc (sty : Style) (b : Block) (K : Pieces) :
    contentI sty b K = [] ∧ contentI sty b [] = [] ∨ contentI sty b K = contentI sty b [] ++ K := by
  obtain ⟨t, ss, rs, c⟩ := b
  cases rs with
  | none =>
    cases ss with
    | nil => left; simp [contentI]
    | cons s r => right; simp only [contentI]; rw [VSK_append_K _ _ _ _ _ (by simp)]; rfl
  | some es => right; simp [contentI]

/-- `visit_Chunk`'s slice -/
theorem blkI_chunk (sty : Style) (b : Block) (h : b.isChunk = true) :
    blk b (visitBlockFullI sty b) = contentI sty b [] := by
  unfold blk
  rw [if_pos h, visitBlockFullI_eq]
  rcases contentI_snoc sty b [S .statement] with ⟨h1, h2⟩ | h1
  · rw [h1, h2]; rfl
  · rw [h1]
    have : [P "do", S .block, S .indent] ++ (contentI sty b [] ++ [S .statement]) ++ [S .deindent, P "end"] =
        [P "do", S .block, S .indent] ++ contentI sty b [] ++ [S .statement, S .deindent, P "end"] := by simp
    rw [this, sliceInner_mid _ _ _ 3 3 rfl rfl]

theorem blkI_block (sty : Style) (b : Block) (h : b.isChunk = false) :
    blk b (visitBlockFullI sty b) =
      [P "do", S .block, S .indent] ++ contentI sty b [S .statement] ++ [S .deindent, P "end"] := by
  unfold blk
  rw [if_neg (by simp [h]), visitBlockFullI_eq]

theorem slice21I (sty : Style) (b : Block) (h : b.isChunk = false) :
    sliceInner 2 1 (blk b (visitBlockFullI sty b)) = [S .indent] ++ contentI sty b [S .statement] ++ [S .deindent] := by
  rw [blkI_block sty b h]
  have : [P "do", S .block, S .indent] ++ contentI sty b [S .statement] ++ [S .deindent, P "end"] =
      [P "do", S .block] ++ ([S .indent] ++ contentI sty b [S .statement] ++ [S .deindent]) ++ [P "end"] := by simp
  rw [this, sliceInner_mid _ _ _ 2 1 rfl rfl]

theorem drop1I (sty : Style) (b : Block) :
    (visitBlockFullI sty b).drop 1 = [S .block, S .indent] ++ contentI sty b [S .statement] ++ [S .deindent, P "end"] := by
  rw [visitBlockFullI_eq]; rfl

/-! ## Comments moved by `addComment` -/

theorem visitStmtI_addComment (sty : Style) (cm : List (List Char)) (s : Stmt) :
    visitStmtI sty (addComment cm s) = visitStmtI sty s := by
  cases s with
  | block b =>
    obtain ⟨t, ss, rs, c⟩ := b
    cases rs <;> simp [addComment, visitStmtI, blk, Block.isChunk, visitBlockFullI]
  | _ => rfl

theorem stPI_addComment (sty : Style) (first : Bool) (cm : List (List Char)) (s : Stmt) :
    stPI sty first (addComment cm s) =
      (if sty.includeComments then cm.flatMap (formatComment sty) else []) ++ stPI sty first s := by
  unfold stPI
  rw [visitStmtI_addComment, stmtCommentPieces_addComment]
  simp

theorem VSK_addCommentHead (sty : Style) (first : Bool) (cm : List (List Char)) (x : Stmt) (xs : List Stmt) (K : Pieces) :
    VSK sty first (addCommentHead cm (x :: xs)) K =
      (if sty.includeComments then cm.flatMap (formatComment sty) else []) ++ VSK sty first (x :: xs) K := by
  simp only [addCommentHead, VSK_cons, stPI_addComment, List.append_assoc]

end Tumfl.Theory
