import Tumfl.Theory.LexPosScan
/-!
# Positions inside a text (definitions for `ErrorPos.lean`)

`lineLen t n` : the length of line number `n` (0-based, lines split at `'\n'`, the newline not counted) of `t`;
`PosInText t line col` : `(line, col)` (the lexer's 0-based convention, column `-1` on a line break) lies inside `t`;
`PosStrict t line col` : the sharp form (column `-1`, or the column of a character of that line);
`Inv2 t s` : the position invariant `Inv t s` of the lexer state together with `PosStrict t s.line s.col`
(which `Inv` alone does not give at the end of the text, where `PosAt` says nothing).  `Inv2 t` is `Stable`.
-/
namespace Tumfl.Theory
open Tumfl.Model

/-- length of line number `n` (0-based) of the text; `0` when the text has fewer lines -/
def lineLen : List Char → Nat → Nat
  | [], _ => 0
  | c :: r, 0 => if c = '\n' then 0 else lineLen r 0 + 1
  | c :: r, n + 1 => if c = '\n' then lineLen r n else lineLen r (n + 1)

/-- the lexer position `(line, col)` (0-based line; column `-1` directly after / on a line break) lies inside `t` -/
def PosInText (t : List Char) (line : Nat) (col : Int) : Prop :=
  line ≤ lineOf t ∧ -1 ≤ col ∧ col ≤ (lineLen t line : Int)

instance (t : List Char) (line : Nat) (col : Int) : Decidable (PosInText t line col) := by
  unfold PosInText; exact inferInstance

/-- the sharp form: the column is `-1` (on a line break, or in the empty text) or that of a character of the line -/
def PosStrict (t : List Char) (line : Nat) (col : Int) : Prop :=
  line ≤ lineOf t ∧ (col = -1 ∨ (0 ≤ col ∧ col < (lineLen t line : Int)))

theorem PosStrict.posInText {t : List Char} {line : Nat} {col : Int} (h : PosStrict t line col) : PosInText t line col := by
  obtain ⟨h1, h2⟩ := h
  refine ⟨h1, ?_, ?_⟩ <;> omega

theorem lineOf_cons (c : Char) (p : List Char) : lineOf (c :: p) = lineOf p + (if c = '\n' then 1 else 0) := by
  by_cases h : c = '\n'
  · subst h; simp [lineOf]
  · simp [lineOf, h]

/-- lines after those of `pre` are lines of the rest -/
theorem lineLen_skip : ∀ (pre rest : List Char) (k : Nat),
    lineLen (pre ++ rest) (lineOf pre + (k + 1)) = lineLen rest (k + 1)
  | [], rest, k => by simp [lineOf]
  | c :: p, rest, k => by
    by_cases h : c = '\n'
    · subst h
      have : lineOf ('\n' :: p) + (k + 1) = (lineOf p + (k + 1)) + 1 := by rw [lineOf_cons]; simp; omega
      rw [this, List.cons_append, lineLen]
      simp only [if_true]
      exact lineLen_skip p rest k
    · have : lineOf (c :: p) + (k + 1) = (lineOf p + k) + 1 := by rw [lineOf_cons]; simp [h]; omega
      rw [this, List.cons_append, lineLen]
      simp only [h, if_false]
      exact lineLen_skip p rest k

theorem lineLen_split_rev : ∀ (l rest : List Char),
    lineLen (l.reverse ++ rest) (lineOf l.reverse) = colOf l.reverse + lineLen rest 0
  | [], rest => by simp [lineOf, colOf]
  | c :: l, rest => by
    rw [List.reverse_cons, lineOf_snoc, colOf_snoc, List.append_assoc]
    by_cases h : c = '\n'
    · subst h
      simp only [if_true, List.singleton_append]
      rw [lineLen_skip l.reverse ('\n' :: rest) 0, lineLen]
      simp
    · simp only [h, if_false, List.singleton_append, Nat.add_zero]
      rw [lineLen_split_rev l (c :: rest), lineLen]
      simp only [h, if_false]
      omega

/-- the line of the split point `pre | rest` has the column of the split point plus the rest of that line -/
theorem lineLen_split (pre rest : List Char) :
    lineLen (pre ++ rest) (lineOf pre) = colOf pre + lineLen rest 0 := by
  have := lineLen_split_rev pre.reverse rest
  rwa [List.reverse_reverse] at this

/-- a state standing on a character of the text has its position inside the text -/
theorem inv_pos {t : List Char} {s : LexSt} (h : Inv t s) (hne : s.rest ≠ []) : PosStrict t s.line s.col := by
  obtain ⟨pre, ht, hp⟩ := h
  cases hr : s.rest with
  | nil => exact absurd hr hne
  | cons c r =>
    simp only [PosAt, hr] at hp
    rw [hr] at ht
    by_cases hc : c = '\n'
    · subst hc
      simp only [if_true] at hp
      refine ⟨?_, Or.inl hp.2⟩
      rw [hp.1, ht, lineOf_append, lineOf_cons]; simp
    · simp only [hc, if_false] at hp
      refine ⟨?_, Or.inr ⟨?_, ?_⟩⟩
      · rw [hp.1, ht, lineOf_append]; omega
      · rw [hp.2]; omega
      · rw [hp.2, hp.1, ht, lineLen_split, lineLen]
        simp only [hc, if_false]
        omega

/-- the position invariant, with the position inside the text also at the end of the text -/
def Inv2 (t : List Char) (s : LexSt) : Prop := Inv t s ∧ PosStrict t s.line s.col

theorem advance_col_of_rest_nil {s : LexSt} (h : (advance s).rest = []) : (advance s).col = s.col := by
  cases hr : s.rest with
  | nil =>
    have : advance s = s := by unfold advance; rw [hr]
    rw [this]
  | cons c r =>
    rw [advance_rest_cons hr] at h
    subst h
    unfold advance
    rw [hr]

theorem inv2_advance {t : List Char} {s : LexSt} (h : Inv2 t s) : Inv2 t (advance s) := by
  refine ⟨inv_advance h.1, ?_⟩
  by_cases hr : (advance s).rest = []
  · rw [advance_line_of_rest_nil hr, advance_col_of_rest_nil hr]; exact h.2
  · exact inv_pos (inv_advance h.1) hr

theorem inv2_init (t : List Char) : Inv2 t (initLex t) := by
  refine ⟨inv_init t, ?_⟩
  cases t with
  | nil => simp [initLex, PosStrict, lineOf]
  | cons c cs =>
    apply inv_pos (inv_init _)
    simp only [initLex]
    split <;> simp

theorem stable_inv2 (t : List Char) : Stable (Inv2 t) :=
  ⟨fun _ h => inv2_advance h, fun _ cs h => ⟨inv_comments cs h.1, h.2⟩⟩

end Tumfl.Theory
