import Tumfl.Theory.HintsCore
import Tumfl.Theory.LexNoIndex
/-!
# The hint stack of the model parser is balanced

By one induction on the fuel (the conjunction `AllOK G f` over all 21 parse functions) every parse
function satisfies its hint-stack contract `HS G · pre post`:

* `parseFuncBody` expects a stack with (at least) one entry pushed by its caller and pops it;
* `parseAttNames` and `parseElseIfs` expect such an entry and rewrite (`switchHint`) its `what`;
* every other parse function leaves the stack exactly as it found it.

`G` is the predicate satisfied by all errors; with `G := fun e => ∀ site, e ≠ .py "IndexError" site`
this is the absence of hint-stack `IndexError`s.
-/
namespace Tumfl.Theory
open Tumfl.Model Tumfl.Spec

set_option linter.unusedSectionVars false

/-- the hint-stack contracts of all parse functions at fuel `f` -/
structure AllOK (G : PyErr → Prop) (f : Nat) : Prop where
  parseBlock : ∀ (tok : Token) (b : Bool) (P : List Hint → Prop), HS G (Model.parseBlock f tok b) P P
  parseStatements : ∀ (P : List Hint → Prop), HS G (Model.parseStatements f) P P
  parseStatement : ∀ (P : List Hint → Prop), HS G (Model.parseStatement f) P P
  parseDotted : ∀ (P : List Hint → Prop), HS G (Model.parseDotted f) P P
  parseAttNames : ∀ (P : List Hint → Prop), HS G (Model.parseAttNames f) (Top P) (Top P)
  parseIf : ∀ (P : List Hint → Prop), HS G (Model.parseIf f) P P
  parseElseIfs : ∀ (P : List Hint → Prop), HS G (Model.parseElseIfs f) (Top P) (Top P)
  parseFuncBody : ∀ (tok : Token) (P : List Hint → Prop), HS G (Model.parseFuncBody f tok) (Top P) P
  parseNameList : ∀ (first : Option Expr) (lv : Bool) (P : List Hint → Prop), HS G (Model.parseNameList f first lv) P P
  parseNames : ∀ (lv : Bool) (P : List Hint → Prop), HS G (Model.parseNames f lv) P P
  parseExpList : ∀ (P : List Hint → Prop), HS G (Model.parseExpList f) P P
  parseVarStmt : ∀ (P : List Hint → Prop), HS G (Model.parseVarStmt f) P P
  parseMoreVars : ∀ (P : List Hint → Prop), HS G (Model.parseMoreVars f) P P
  parseExp : ∀ (P : List Hint → Prop), HS G (Model.parseExp f) P P
  parseAtom : ∀ (P : List Hint → Prop), HS G (Model.parseAtom f) P P
  parseVar : ∀ (b : Bool) (P : List Hint → Prop), HS G (Model.parseVar f b) P P
  parseVarTerminal : ∀ (e : Expr) (P : List Hint → Prop), HS G (Model.parseVarTerminal f e) P P
  parseTable : ∀ (P : List Hint → Prop), HS G (Model.parseTable f) P P
  parseFields : ∀ (P : List Hint → Prop), HS G (Model.parseFields f) P P
  parseField : ∀ (P : List Hint → Prop), HS G (Model.parseField f) P P
  parseArgs : ∀ (P : List Hint → Prop), HS G (Model.parseArgs f) P P

macro "guard_hs" : tactic => `(tactic| show HS _ _ _ _)

/-- one syntax-directed step of the hint-stack logic -/
syntax "hs_step " ident : tactic
macro_rules
  | `(tactic| hs_step $ih) => `(tactic| (guard_hs; first
    | apply HS_pure
    | apply HS_curTok
    | apply HS_nxtTok
    | apply HS_curIs
    | apply HS_eat
    | apply HS_eatName
    | apply HS_assertTok
    | apply HS_addHint
    | apply HS_removeHint
    | apply HS_switchHint
    | apply HS_perror
    | apply HS_pyerr_assert
    | apply ($ih).parseBlock
    | apply ($ih).parseStatements
    | apply ($ih).parseStatement
    | apply ($ih).parseDotted
    | apply ($ih).parseAttNames
    | apply ($ih).parseIf
    | apply ($ih).parseElseIfs
    | apply ($ih).parseFuncBody
    | apply ($ih).parseNameList
    | apply ($ih).parseNames
    | apply ($ih).parseExpList
    | apply ($ih).parseVarStmt
    | apply ($ih).parseMoreVars
    | apply ($ih).parseExp
    | apply ($ih).parseAtom
    | apply ($ih).parseVar
    | apply ($ih).parseVarTerminal
    | apply ($ih).parseTable
    | apply ($ih).parseFields
    | apply ($ih).parseField
    | apply ($ih).parseArgs
    | refine' HS_bind ?_ (fun _ => ?_)
    | apply HS_ite
    | split))
macro "hs " ih:ident : tactic => `(tactic| repeat' hs_step $ih)

variable {G : PyErr → Prop} [GoodErr G]

theorem allOK_zero : AllOK G 0 := by
  constructor
  · intros; rw [Model.parseBlock]; apply HS_fuelErrP
  · intros; rw [Model.parseStatements]; apply HS_fuelErrP
  · intros; rw [Model.parseStatement]; apply HS_fuelErrP
  · intros; rw [Model.parseDotted]; apply HS_fuelErrP
  · intros; rw [Model.parseAttNames]; apply HS_fuelErrP
  · intros; rw [Model.parseIf]; apply HS_fuelErrP
  · intros; rw [Model.parseElseIfs]; apply HS_fuelErrP
  · intros; rw [Model.parseFuncBody]; apply HS_fuelErrP
  · intros; rw [Model.parseNameList]; apply HS_fuelErrP
  · intros; rw [Model.parseNames]; apply HS_fuelErrP
  · intros; rw [Model.parseExpList]; apply HS_fuelErrP
  · intros; rw [Model.parseVarStmt]; apply HS_fuelErrP
  · intros; rw [Model.parseMoreVars]; apply HS_fuelErrP
  · intros; rw [Model.parseExp]; apply HS_fuelErrP
  · intros; rw [Model.parseAtom]; apply HS_fuelErrP
  · intros; rw [Model.parseVar]; apply HS_fuelErrP
  · intros; rw [Model.parseVarTerminal]; apply HS_fuelErrP
  · intros; rw [Model.parseTable]; apply HS_fuelErrP
  · intros; rw [Model.parseFields]; apply HS_fuelErrP
  · intros; rw [Model.parseField]; apply HS_fuelErrP
  · intros; rw [Model.parseArgs]; apply HS_fuelErrP

theorem parseBlock_step {f : Nat} (ih : AllOK G f) (tok : Token) (b : Bool) (P : List Hint → Prop) :
    HS G (Model.parseBlock (f + 1) tok b) P P := by
  rw [Model.parseBlock]
  hs ih

theorem parseStatements_step {f : Nat} (ih : AllOK G f) (P : List Hint → Prop) :
    HS G (Model.parseStatements (f + 1)) P P := by
  rw [Model.parseStatements]
  hs ih

theorem parseStatement_step {f : Nat} (ih : AllOK G f) (P : List Hint → Prop) :
    HS G (Model.parseStatement (f + 1)) P P := by
  rw [Model.parseStatement]
  hs ih

theorem parseDotted_step {f : Nat} (ih : AllOK G f) (P : List Hint → Prop) :
    HS G (Model.parseDotted (f + 1)) P P := by
  rw [Model.parseDotted]
  hs ih

theorem parseAttNames_step {f : Nat} (ih : AllOK G f) (P : List Hint → Prop) :
    HS G (Model.parseAttNames (f + 1)) (Top P) (Top P) := by
  rw [Model.parseAttNames]
  hs ih

theorem parseIf_step {f : Nat} (ih : AllOK G f) (P : List Hint → Prop) :
    HS G (Model.parseIf (f + 1)) P P := by
  rw [Model.parseIf]
  hs ih

theorem parseElseIfs_step {f : Nat} (ih : AllOK G f) (P : List Hint → Prop) :
    HS G (Model.parseElseIfs (f + 1)) (Top P) (Top P) := by
  rw [Model.parseElseIfs]
  hs ih

theorem parseFuncBody_step {f : Nat} (ih : AllOK G f) (tok : Token) (P : List Hint → Prop) :
    HS G (Model.parseFuncBody (f + 1) tok) (Top P) P := by
  rw [Model.parseFuncBody]
  hs ih

theorem parseNameList_step {f : Nat} (ih : AllOK G f) (first : Option Expr) (lv : Bool) (P : List Hint → Prop) :
    HS G (Model.parseNameList (f + 1) first lv) P P := by
  cases first <;> rw [Model.parseNameList] <;> hs ih

theorem parseNames_step {f : Nat} (ih : AllOK G f) (lv : Bool) (P : List Hint → Prop) :
    HS G (Model.parseNames (f + 1) lv) P P := by
  rw [Model.parseNames]
  hs ih

theorem parseExpList_step {f : Nat} (ih : AllOK G f) (P : List Hint → Prop) :
    HS G (Model.parseExpList (f + 1)) P P := by
  rw [Model.parseExpList]
  hs ih

theorem parseVarStmt_step {f : Nat} (ih : AllOK G f) (P : List Hint → Prop) :
    HS G (Model.parseVarStmt (f + 1)) P P := by
  rw [Model.parseVarStmt]
  hs ih

theorem parseMoreVars_step {f : Nat} (ih : AllOK G f) (P : List Hint → Prop) :
    HS G (Model.parseMoreVars (f + 1)) P P := by
  rw [Model.parseMoreVars]
  hs ih

theorem HS_of_keeps {α : Type} {m : PM α} {P : List Hint → Prop}
    (h : Keeps (fun s : PSt => P s.hints) G m) : HS G m P P := by
  constructor
  intro s hs
  have h1 := h s hs
  unfold Res at h1
  cases hm : m s with
  | error e => rw [hm] at h1; exact h1
  | ok r => obtain ⟨a, s1⟩ := r; rw [hm] at h1; exact h1

theorem keeps_of_HS {α : Type} {m : PM α} {P : List Hint → Prop}
    (h : HS G m P P) : Keeps (fun s : PSt => P s.hints) G m := by
  intro s hs
  have h1 := h.run s hs
  unfold Res
  cases hm : m s with
  | error e => rw [hm] at h1; exact h1
  | ok r => obtain ⟨a, s1⟩ := r; rw [hm] at h1; exact h1

theorem keepsEat_modelSig (atom : PM Expr) (P : List Hint → Prop) :
    KeepsEat (fun s : PSt => P s.hints) G (modelSig atom).eat := by
  intro s hs
  have h := (HS_eatRaw (G := G) P).run s hs
  simp only [modelSig]
  cases he : eatRaw s with
  | error e => rw [he] at h; exact h
  | ok r => obtain ⟨a, s1⟩ := r; rw [he] at h; exact h

theorem parseExp_step {f : Nat} (ih : AllOK G f) (P : List Hint → Prop) :
    HS G (Model.parseExp (f + 1)) P P := by
  rw [Model.parseExp]
  apply HS_of_keeps
  apply ladderExp_keeps
  · exact GoodErr.fuel
  · exact keepsEat_modelSig _ P
  · exact keeps_of_HS (ih.parseAtom P)

theorem parseAtom_step {f : Nat} (ih : AllOK G f) (P : List Hint → Prop) :
    HS G (Model.parseAtom (f + 1)) P P := by
  rw [Model.parseAtom]
  hs ih

theorem parseVar_step {f : Nat} (ih : AllOK G f) (b : Bool) (P : List Hint → Prop) :
    HS G (Model.parseVar (f + 1) b) P P := by
  rw [Model.parseVar]
  hs ih

theorem parseVarTerminal_step {f : Nat} (ih : AllOK G f) (e : Expr) (P : List Hint → Prop) :
    HS G (Model.parseVarTerminal (f + 1) e) P P := by
  rw [Model.parseVarTerminal]
  hs ih

theorem parseTable_step {f : Nat} (ih : AllOK G f) (P : List Hint → Prop) :
    HS G (Model.parseTable (f + 1)) P P := by
  rw [Model.parseTable]
  hs ih

theorem parseFields_step {f : Nat} (ih : AllOK G f) (P : List Hint → Prop) :
    HS G (Model.parseFields (f + 1)) P P := by
  rw [Model.parseFields]
  hs ih

theorem parseField_step {f : Nat} (ih : AllOK G f) (P : List Hint → Prop) :
    HS G (Model.parseField (f + 1)) P P := by
  rw [Model.parseField]
  hs ih

theorem parseArgs_step {f : Nat} (ih : AllOK G f) (P : List Hint → Prop) :
    HS G (Model.parseArgs (f + 1)) P P := by
  rw [Model.parseArgs]
  hs ih

theorem allOK_succ {f : Nat} (ih : AllOK G f) : AllOK G (f + 1) where
  parseBlock := parseBlock_step ih
  parseStatements := parseStatements_step ih
  parseStatement := parseStatement_step ih
  parseDotted := parseDotted_step ih
  parseAttNames := parseAttNames_step ih
  parseIf := parseIf_step ih
  parseElseIfs := parseElseIfs_step ih
  parseFuncBody := parseFuncBody_step ih
  parseNameList := parseNameList_step ih
  parseNames := parseNames_step ih
  parseExpList := parseExpList_step ih
  parseVarStmt := parseVarStmt_step ih
  parseMoreVars := parseMoreVars_step ih
  parseExp := parseExp_step ih
  parseAtom := parseAtom_step ih
  parseVar := parseVar_step ih
  parseVarTerminal := parseVarTerminal_step ih
  parseTable := parseTable_step ih
  parseFields := parseFields_step ih
  parseField := parseField_step ih
  parseArgs := parseArgs_step ih

theorem allOK (f : Nat) : AllOK G f := by
  induction f with
  | zero => exact allOK_zero
  | succ f ih => exact allOK_succ ih

/-! ## Consequences: successful runs -/

/-- the trivial error predicate: only successful runs are constrained -/
abbrev AnyErr : PyErr → Prop := fun _ => True

theorem hints_eq_of_HS {α : Type} {m : PM α} (h : ∀ P, HS AnyErr m P P) {s s' : PSt} {r : α}
    (hm : m s = .ok (r, s')) : s'.hints = s.hints := by
  have h1 := (h (· = s.hints)).run s rfl
  rw [hm] at h1
  exact h1

theorem top_dropLast {hs : List Hint} (h : hs ≠ []) : Top (· = hs.dropLast) hs := by
  refine ⟨hs.dropLast, hs.getLast h, rfl, ?_⟩
  exact (List.dropLast_concat_getLast h).symm

/-- a computation that expects an open hint and closes it -/
theorem hints_pop_of_HS {α : Type} {m : PM α} (h : ∀ P, HS AnyErr m (Top P) P) {s s' : PSt} {r : α}
    (hm : m s = .ok (r, s')) (hne : s.hints ≠ []) : s'.hints = s.hints.dropLast := by
  have h1 := (h (· = s.hints.dropLast)).run s (top_dropLast hne)
  rw [hm] at h1
  exact h1

/-- a computation that expects an open hint and only rewrites it -/
theorem hints_top_of_HS {α : Type} {m : PM α} (h : ∀ P, HS AnyErr m (Top P) (Top P)) {s s' : PSt} {r : α}
    (hm : m s = .ok (r, s')) (hne : s.hints ≠ []) : ∃ x, s'.hints = s.hints.dropLast ++ [x] := by
  have h1 := (h (· = s.hints.dropLast)).run s (top_dropLast hne)
  rw [hm] at h1
  obtain ⟨l, x, hl, hx⟩ := h1
  exact ⟨x, by rw [hx, hl]⟩

theorem parseBlock_hints (f : Nat) (tok : Token) (b : Bool) (s s' : PSt) (r : Block) :
    Model.parseBlock f tok b s = .ok (r, s') → s'.hints = s.hints :=
  fun h => hints_eq_of_HS (fun P => (allOK f).parseBlock tok b P) h

theorem parseStatements_hints (f : Nat) (s s' : PSt) (r : List Stmt) :
    Model.parseStatements f s = .ok (r, s') → s'.hints = s.hints :=
  fun h => hints_eq_of_HS (fun P => (allOK f).parseStatements P) h

theorem parseStatement_hints (f : Nat) (s s' : PSt) (r : Stmt) :
    Model.parseStatement f s = .ok (r, s') → s'.hints = s.hints :=
  fun h => hints_eq_of_HS (fun P => (allOK f).parseStatement P) h

theorem parseDotted_hints (f : Nat) (s s' : PSt) (r : List Expr) :
    Model.parseDotted f s = .ok (r, s') → s'.hints = s.hints :=
  fun h => hints_eq_of_HS (fun P => (allOK f).parseDotted P) h

theorem parseIf_hints (f : Nat) (s s' : PSt) (r : Stmt) :
    Model.parseIf f s = .ok (r, s') → s'.hints = s.hints :=
  fun h => hints_eq_of_HS (fun P => (allOK f).parseIf P) h

theorem parseNameList_hints (f : Nat) (first : Option Expr) (lv : Bool) (s s' : PSt) (r : List Expr) :
    Model.parseNameList f first lv s = .ok (r, s') → s'.hints = s.hints :=
  fun h => hints_eq_of_HS (fun P => (allOK f).parseNameList first lv P) h

theorem parseNames_hints (f : Nat) (lv : Bool) (s s' : PSt) (r : List Expr) :
    Model.parseNames f lv s = .ok (r, s') → s'.hints = s.hints :=
  fun h => hints_eq_of_HS (fun P => (allOK f).parseNames lv P) h

theorem parseExpList_hints (f : Nat) (s s' : PSt) (r : List Expr) :
    Model.parseExpList f s = .ok (r, s') → s'.hints = s.hints :=
  fun h => hints_eq_of_HS (fun P => (allOK f).parseExpList P) h

theorem parseVarStmt_hints (f : Nat) (s s' : PSt) (r : Stmt) :
    Model.parseVarStmt f s = .ok (r, s') → s'.hints = s.hints :=
  fun h => hints_eq_of_HS (fun P => (allOK f).parseVarStmt P) h

theorem parseMoreVars_hints (f : Nat) (s s' : PSt) (r : List Expr) :
    Model.parseMoreVars f s = .ok (r, s') → s'.hints = s.hints :=
  fun h => hints_eq_of_HS (fun P => (allOK f).parseMoreVars P) h

theorem parseExp_hints (f : Nat) (s s' : PSt) (r : Expr) :
    Model.parseExp f s = .ok (r, s') → s'.hints = s.hints :=
  fun h => hints_eq_of_HS (fun P => (allOK f).parseExp P) h

theorem parseAtom_hints (f : Nat) (s s' : PSt) (r : Expr) :
    Model.parseAtom f s = .ok (r, s') → s'.hints = s.hints :=
  fun h => hints_eq_of_HS (fun P => (allOK f).parseAtom P) h

theorem parseVar_hints (f : Nat) (b : Bool) (s s' : PSt) (r : Expr) :
    Model.parseVar f b s = .ok (r, s') → s'.hints = s.hints :=
  fun h => hints_eq_of_HS (fun P => (allOK f).parseVar b P) h

theorem parseVarTerminal_hints (f : Nat) (e : Expr) (s s' : PSt) (r : Expr) :
    Model.parseVarTerminal f e s = .ok (r, s') → s'.hints = s.hints :=
  fun h => hints_eq_of_HS (fun P => (allOK f).parseVarTerminal e P) h

theorem parseTable_hints (f : Nat) (s s' : PSt) (r : Expr) :
    Model.parseTable f s = .ok (r, s') → s'.hints = s.hints :=
  fun h => hints_eq_of_HS (fun P => (allOK f).parseTable P) h

theorem parseFields_hints (f : Nat) (s s' : PSt) (r : List Field) :
    Model.parseFields f s = .ok (r, s') → s'.hints = s.hints :=
  fun h => hints_eq_of_HS (fun P => (allOK f).parseFields P) h

theorem parseField_hints (f : Nat) (s s' : PSt) (r : Field) :
    Model.parseField f s = .ok (r, s') → s'.hints = s.hints :=
  fun h => hints_eq_of_HS (fun P => (allOK f).parseField P) h

theorem parseArgs_hints (f : Nat) (s s' : PSt) (r : List Expr) :
    Model.parseArgs f s = .ok (r, s') → s'.hints = s.hints :=
  fun h => hints_eq_of_HS (fun P => (allOK f).parseArgs P) h

/-- `parseFuncBody` fails (with the `IndexError` of `_switch_hint`, or for lack of fuel) on an empty
hint stack -/
theorem parseFuncBody_nonempty (f : Nat) (tok : Token) (s s' : PSt) (r : List Expr × Block) :
    Model.parseFuncBody f tok s = .ok (r, s') → s.hints ≠ [] := by
  intro h he
  cases f with
  | zero => rw [Model.parseFuncBody] at h; cases h
  | succ f =>
    rw [Model.parseFuncBody] at h
    have hsw : switchHint "parameters" s = .error (.py "IndexError" "parser._switch_hint") := by
      unfold switchHint; rw [he]; rfl
    rw [bind_err hsw] at h
    cases h

/-- `parseFuncBody` closes the hint its caller opened -/
theorem parseFuncBody_hints (f : Nat) (tok : Token) (s s' : PSt) (r : List Expr × Block) :
    Model.parseFuncBody f tok s = .ok (r, s') → s.hints ≠ [] ∧ s'.hints = s.hints.dropLast := by
  intro h
  have hne := parseFuncBody_nonempty f tok s s' r h
  exact ⟨hne, hints_pop_of_HS (fun P => (allOK f).parseFuncBody tok P) h hne⟩

/-- `parseAttNames` rewrites (`switchHint`) the hint its caller opened: the stack below it is
unchanged and the stack keeps its height.  (It does *not* leave the stack literally unchanged.) -/
theorem parseAttNames_hints (f : Nat) (s s' : PSt) (r : List AttName) :
    Model.parseAttNames f s = .ok (r, s') → s.hints ≠ [] → ∃ x, s'.hints = s.hints.dropLast ++ [x] :=
  fun h hne => hints_top_of_HS (fun P => (allOK f).parseAttNames P) h hne

/-- the same for `parseElseIfs` -/
theorem parseElseIfs_hints (f : Nat) (s s' : PSt) (r : List (Token × Expr × Block)) :
    Model.parseElseIfs f s = .ok (r, s') → s.hints ≠ [] → ∃ x, s'.hints = s.hints.dropLast ++ [x] :=
  fun h hne => hints_top_of_HS (fun P => (allOK f).parseElseIfs P) h hne

/-! ## The chunk and the whole text -/

theorem parseChunk_HS (fuel : Nat) (P : List Hint → Prop) : HS G (parseChunk fuel) P P := by
  have ih : AllOK G fuel := allOK fuel
  unfold parseChunk
  hs ih

theorem parseChunk_hints (fuel : Nat) (s s' : PSt) (b : Block) :
    parseChunk fuel s = .ok (b, s') → s'.hints = s.hints :=
  fun h => hints_eq_of_HS (fun P => parseChunk_HS fuel P) h

theorem initParser_hints (cfg : LexCfg) (text : List Char) (s0 : PSt) :
    initParser cfg text = .ok s0 → s0.hints = [] := by
  unfold initParser
  intro h
  split at h
  · cases h
  · split at h
    · cases h
    · cases h; rfl

theorem initParser_err (cfg : LexCfg) (text : List Char) (e : PyErr) :
    initParser cfg text = .error e → G e := by
  unfold initParser
  intro h
  split at h
  · next e1 h1 => cases h; exact GoodErr.lex _ _ _ h1
  · split at h
    · next e2 h2 => cases h; exact GoodErr.lex _ _ _ h2
    · cases h

/-- the computation run by `parseText` after `initParser` -/
theorem parseText_body_HS (n : Nat) (P : List Hint → Prop) :
    HS G (do let b ← parseChunk n; assertTok .EOF; pure b : PM Block) P P := by
  refine HS_bind (parseChunk_HS n P) (fun _ => ?_)
  refine HS_bind (HS_assertTok P _) (fun _ => ?_)
  exact HS_pure _ _

/-- **when parsing succeeds, the context chain is empty**: every construct that was entered has
been closed -/
theorem parseText_hints_empty (src : List Char) (b : Block) (hs : List Hint) :
    parseText src = .ok (b, hs) → hs = [] := by
  unfold parseText
  intro h
  split at h
  · cases h
  · next s0 h0 =>
    have hi := initParser_hints _ _ _ h0
    split at h
    · cases h
    · next b1 s1 h1 =>
      cases h
      have := hints_eq_of_HS (fun P => parseText_body_HS (G := AnyErr) _ P) h1
      rw [this, hi]

/-- every error of `parseText` satisfies every good error predicate -/
theorem parseText_err (src : List Char) (e : PyErr) : parseText src = .error e → G e := by
  unfold parseText
  intro h
  split at h
  · next e0 h0 => cases h; exact initParser_err _ _ _ h0
  · next s0 h0 =>
    have hi := initParser_hints _ _ _ h0
    split at h
    · next e1 h1 =>
      cases h
      have := (parseText_body_HS (G := G) (5 * src.length + 64) (· = [])).run s0 hi
      rw [h1] at this
      exact this
    · cases h

/-! ## No `IndexError` from the hint stack -/

instance : GoodErr NoIndexError where
  fuel := by intro site h; cases h
  parser := by intro _ _ _ site h; cases h
  assertion := by
    intro site1 site h
    injection h with h1 _
    exact absurd h1 (by decide)
  lex := getNextToken_noIndexError

/-- a computation with a hint-stack contract raises no `IndexError` when started on a stack of the
shape it expects; with `allOK (G := NoIndexError) f` this applies to every parse function -/
theorem no_index_error_of_HS {α : Type} {m : PM α} {P Q : List Hint → Prop}
    (h : HS NoIndexError m P Q) (s : PSt) (hs : P s.hints) (site : String) :
    m s ≠ .error (.py "IndexError" site) := by
  intro he
  have := h.run s hs
  rw [he] at this
  exact this site rfl

/-- e.g. blocks, statements and expressions raise no `IndexError` on any stack -/
theorem parseBlock_no_index_error (f : Nat) (tok : Token) (b : Bool) (s : PSt) (site : String) :
    Model.parseBlock f tok b s ≠ .error (.py "IndexError" site) :=
  no_index_error_of_HS ((allOK f).parseBlock tok b (fun _ => True)) s trivial site

theorem parseStatement_no_index_error (f : Nat) (s : PSt) (site : String) :
    Model.parseStatement f s ≠ .error (.py "IndexError" site) :=
  no_index_error_of_HS ((allOK f).parseStatement (fun _ => True)) s trivial site

theorem parseExp_no_index_error (f : Nat) (s : PSt) (site : String) :
    Model.parseExp f s ≠ .error (.py "IndexError" site) :=
  no_index_error_of_HS ((allOK f).parseExp (fun _ => True)) s trivial site

/-- **`parseText` never raises an `IndexError`** - neither `context_hints.pop()` /
`context_hints[-1]` on an empty hint stack, nor anything in the lexer -/
theorem parseText_no_index_error (src : List Char) (site : String) :
    parseText src ≠ .error (.py "IndexError" site) :=
  fun h => parseText_err (G := NoIndexError) src _ h site rfl

/-- the same for any parse function started on a stack of the shape it expects; e.g. a chunk -/
theorem parseChunk_no_index_error (fuel : Nat) (s : PSt) (site : String) :
    parseChunk fuel s ≠ .error (.py "IndexError" site) := by
  intro h
  have := (parseChunk_HS (G := NoIndexError) fuel (fun _ => True)).run s trivial
  rw [h] at this
  exact this site rfl

/-- `parseFuncBody` raises no `IndexError` when its caller has pushed a hint -/
theorem parseFuncBody_no_index_error (f : Nat) (tok : Token) (s : PSt) (site : String)
    (hne : s.hints ≠ []) : Model.parseFuncBody f tok s ≠ .error (.py "IndexError" site) := by
  intro h
  have := ((allOK (G := NoIndexError) f).parseFuncBody tok (· = s.hints.dropLast)).run s (top_dropLast hne)
  rw [h] at this
  exact this site rfl

end Tumfl.Theory
