import Tumfl.Theory.FormatTextHead
/-!
# The adjacency discipline of the emitter: building blocks (no induction over the tree)
-/
namespace Tumfl.Theory
open Tumfl Tumfl.Model

/-- a calm state in which, in addition, the last token is not fusy -/
def CalmNF (σ : DS) : Prop := Calm σ ∧ ∀ x, σ.tok = some x → Fusy x = false

/-- at the start of a statement: calm, or directly after the `;` guard -/
def EntryS (σ : DS) : Prop := Calm σ ∨ Tight ";".toList false σ

/-- directly after a Dot separator -/
def AfterDot (σ : DS) : Prop := σ = ⟨some ['.'], .sep, .dot⟩

/-- directly after a token that is neither `.` nor `:` (and is not an opening bracket) -/
def ExitT (σ : DS) : Prop := ∃ l, Tight l false σ ∧ l ≠ ['.'] ∧ l ≠ [':']

theorem ExitE.exitT {σ : DS} (h : ExitE σ) : ExitT σ := by
  obtain ⟨l, ht, _, hf⟩ := h
  exact ⟨l, ht, (fusy_ne hf).1, (fusy_ne hf).2⟩

theorem ExitT.settled {σ : DS} (h : ExitT σ) : Settled σ := by
  obtain ⟨l, ht, h1, h2⟩ := h
  exact ht.settled h1 h2

theorem EntryS.settled {σ : DS} (h : EntryS σ) : Settled σ := by
  rcases h with h | h
  · exact h.settled
  · exact h.settled (by decide) (by decide)

theorem EntryS.last_ne {σ : DS} (h : EntryS σ) : σ.last ≠ .comShort ∧ σ.last ≠ .dot := by
  rcases h with h | h
  · exact ⟨h.1, h.2.1⟩
  · rw [h]; simp

theorem CalmNF.calm {σ : DS} (h : CalmNF σ) : Calm σ := h.1

/-! ## pre-condition in "last / Foll" form -/

/-- the generic pre-condition of a piece list that starts with a token -/
def Pre (y : List Char) (σ : DS) : Prop := σ.last ≠ .comShort ∧ Foll σ y ∧ (y = ['}'] → ∃ b, σ.last = .tok b)

theorem tr_tok_pre {s : List Char} (hc : isCom s = false) (hg : GoodTok s) :
    Tr (Pre s) [.str s] (Tight s (isOpener s)) := Tr.one fun _ h =>
  ⟨(okPiece_tok hc).mpr ⟨h.1, hg, h.2.1, h.2.2⟩, adv_tok hc⟩

theorem tr_lit_pre {s : String} (h : LitOK s) : Tr (Pre s.toList) [P s] (Tight s.toList (isOpener s.toList)) :=
  tr_tok_pre h.com h.good

theorem pre_of_calm {σ : DS} (h : Calm σ) {c : Char} (cs : List Char) (h3 : H3 c) : Pre (c :: cs) σ :=
  ⟨h.1, foll_calm h cs h3, fun e => by cases e; exact absurd rfl h3.2.2.2⟩

theorem pre_of_tight {x : List Char} {op : Bool} {σ : DS} (h : Tight x op σ) {y : List Char} (hg : NoGlue x y) :
    Pre y σ := ⟨by rw [h]; simp, foll_tight h hg, fun _ => ⟨op, by rw [h]⟩⟩

theorem foll_calmNF {σ : DS} (h : CalmNF σ) (y : List Char) : Foll σ y := by
  intro x hx
  obtain ⟨⟨_, h2, hn, _⟩, hf⟩ := h
  refine ⟨noFuse_of_not_fusy (hf x hx) y, ?_⟩
  rintro (hh | hh)
  · exact absurd hh hn
  · exact absurd hh h2

theorem pre_of_calmNF {σ : DS} (h : CalmNF σ) (y : List Char) (hy : y ≠ ['}']) : Pre y σ :=
  ⟨h.1.1, foll_calmNF h y, fun e => absurd e hy⟩

theorem noGlue_semi (c : Char) (cs : List Char) : NoGlue ";".toList (c :: cs) :=
  noGlue_leftInert (l := ';') (f0 := ';') (by decide) (by decide) leftInert_closers.2.2.2.2.2.2.2.1 (by decide)
    (by decide) cs

theorem pre_of_entryS {σ : DS} (h : EntryS σ) {c : Char} (cs : List Char) (h3 : H3 c) : Pre (c :: cs) σ := by
  rcases h with h | h
  · exact pre_of_calm h cs h3
  · exact pre_of_tight h (noGlue_semi c cs)

theorem pre_of_head {ps : Pieces} {Q : Char → Prop} (h : HeadIs ps Q) {σ : DS}
    (hf : ∀ c cs, Q c → Pre (c :: cs) σ) : Pre (firstStr ps) σ := by
  obtain ⟨c, cs, tail, rfl, hq⟩ := h
  exact hf c cs hq

theorem firstStr_append {a : Pieces} {Q : Char → Prop} (h : HeadIs a Q) (b : Pieces) :
    firstStr (a ++ b) = firstStr a := by
  obtain ⟨c, cs, tail, rfl, _⟩ := h
  rfl

/-! ## exits -/

theorem tight_exitE {s : List Char} {σ : DS} (ho : isOpener s = false) (hne : s ≠ []) (hf : Fusy s = false)
    (h : Tight s (isOpener s) σ) : ExitE σ := ⟨s, by rw [ho] at h; exact h, hne, hf⟩

theorem tight_exitC {s : List Char} {σ : DS} (ho : isOpener s = false) (hc : CalleeEnd s)
    (h : Tight s (isOpener s) σ) : ExitC σ := ⟨s, by rw [ho] at h; exact h, hc⟩

theorem calleeEnd_closer {s : List Char} {l : Char} (hs : s = [l]) (hl : LeftInert l) (hd : Spec.isDigit l = false)
    (hf : Fusy s = false) : CalleeEnd s := by
  subst hs
  exact ⟨l, l, rfl, rfl, hd, hf, Or.inr hl⟩

theorem calleeEnd_rpar : CalleeEnd ")".toList :=
  calleeEnd_closer (l := ')') (by decide) leftInert_closers.1 (by decide) (by decide)
theorem calleeEnd_rbrk : CalleeEnd "]".toList :=
  calleeEnd_closer (l := ']') (by decide) leftInert_closers.2.1 (by decide) (by decide)
theorem calleeEnd_rcur : CalleeEnd "}".toList :=
  calleeEnd_closer (l := '}') (by decide) leftInert_closers.2.2.1 (by decide) (by decide)

theorem inert_closers : Inert ')' ∧ Inert ']' ∧ Inert '}' ∧ Inert '(' ∧ Inert '{' ∧ Inert '"' ∧ Inert '\'' ∧ Inert ';' ∧
    Inert ',' := by
  refine ⟨?_, ?_, ?_, ?_, ?_, ?_, ?_, ?_, ?_⟩ <;> (unfold Inert; decide)

/-! ## separators, more -/

theorem tr_argument' : Tr ExitT [S .argument] Calm := Tr.one fun σ h => by
  obtain ⟨l, rfl, _, _⟩ := h
  exact ⟨rfl, by simp [adv, S], by simp [adv, S], by simp [adv, S], by simp [adv, S]⟩

theorem tr_space_exitE : Tr ExitE [S .space] CalmNF := Tr.one fun σ h => by
  obtain ⟨l, rfl, _, hf⟩ := h
  refine ⟨⟨by simp, by simp⟩, ⟨by simp [adv, S], by simp [adv, S], by simp [adv, S], ?_⟩, ?_⟩
  · intro x hx
    simp only [adv, S, Option.some.injEq] at hx
    subst hx
    exact fusy_ne hf
  · intro x hx
    simp only [adv, S, Option.some.injEq] at hx
    subst hx
    exact hf

theorem tr_dot : Tr ExitC [S .dot] AfterDot := Tr.one fun σ h => by
  obtain ⟨l, rfl, hc⟩ := h
  exact ⟨⟨by simp, l, rfl, rfl, noGlue_callee hc [] (by decide)⟩, rfl⟩

theorem noGlue_dot_alpha {c : Char} (cs : List Char) (hc : Spec.isAlpha c = true) : NoGlue ['.'] (c :: cs) := by
  have hne : c ≠ '.' := (isAlpha_not_special hc).2.2.2.2.1
  have hd : Spec.isDigit c = false := (isAlpha_not_special hc).2.2.2.2.2.1
  refine ⟨?_, ?_⟩
  · rw [sepRequired_of ['.'] (c :: cs) '.' c '.' rfl rfl rfl]
    have e : (c == '.') = false := by simpa using hne
    have e2 : (c == '=') = false := by
      have : c ≠ '=' := (alpha_h5 hc).1.2.2.2.2.1
      simpa using this
    have w : wordChars.contains '.' = false := by decide
    simp only [sepBool, w, e, e2, Bool.false_and, Bool.and_false, Bool.or_false, Bool.false_or,
      show ('.' == '-') = false by decide, show ('.' == '[') = false by decide]
  · intro d t e
    cases e
    simp [fuses, hd]

/-- a name directly after a Dot separator -/
theorem tr_name_afterDot {n : List Char} (h : identOK n = true) : Tr AfterDot [.str n] (Tight n false) :=
  Tr.one fun σ hσ => by
    subst hσ
    have hw := identOK_word h
    obtain ⟨c, cs, rfl, hc⟩ := word_head hw
    refine ⟨(okPiece_tok (isCom_word hw)).mpr ⟨by simp, goodTok_ident h, ?_,
      fun e => by cases e; exact absurd hc (by decide)⟩, ?_⟩
    · intro x hx
      cases hx
      exact ⟨(noGlue_dot_alpha cs hc).2, fun _ => noGlue_dot_alpha cs hc⟩
    · rw [adv_tok (isCom_word hw), isOpener_word hw]; rfl

/-! ## names -/

theorem tr_name_pre {n : List Char} (h : identOK n = true) : Tr (Pre n) [.str n] ExitC :=
  (tr_tok_pre (isCom_word (identOK_word h)) (goodTok_ident h)).post fun _ hσ =>
    tight_exitC (isOpener_word (identOK_word h)) (calleeEnd_word (identOK_word h)) hσ

theorem headIs_name {n : List Char} (h : identOK n = true) (r : Pieces) :
    HeadIs (.str n :: r) (fun c => Spec.isAlpha c = true) := by
  obtain ⟨c, cs, rfl, hc⟩ := word_head (identOK_word h)
  exact ⟨c, cs, r, rfl, hc⟩

theorem tr_name_calm {n : List Char} (h : identOK n = true) : Tr Calm [.str n] ExitC := by
  obtain ⟨c, cs, rfl, hc⟩ := word_head (identOK_word h)
  exact (tr_name_pre h).pre fun σ hσ => pre_of_calm hσ cs (alpha_h5 hc).1.h3

/-- a name directly after a token that is left-inert (`:`, `::`, `(`, ...) or `<` -/
theorem tr_name_tight {x : List Char} {op : Bool} {n : List Char} (h : identOK n = true)
    (hg : ∀ c cs, Spec.isAlpha c = true → NoGlue x (c :: cs)) : Tr (Tight x op) [.str n] ExitC := by
  obtain ⟨c, cs, rfl, hc⟩ := word_head (identOK_word h)
  exact (tr_name_pre h).pre fun σ hσ => pre_of_tight hσ (hg c cs hc)

/-! ## expressions: the induction hypothesis and its use -/

/-- expressions whose last token can be the last token of a callee -/
def endsCallee : Expr → Bool
  | .name _ _ | .index _ _ _ | .namedIndex _ _ _ | .call _ _ _ | .method _ _ _ _ | .string _ _ | .table _ _ => true
  | _ => false

theorem endsCallee_of_varLike {e : Expr} (h : isVarLike e = true) : endsCallee e = true := by
  cases e <;> simp [isVarLike] at h <;> rfl

def ExitX (e : Expr) (σ : DS) : Prop := ExitE σ ∧ (endsCallee e = true → ExitC σ)

/-- the statement proved for every expression -/
def SE (sty : Style) (e : Expr) : Prop := Tr (Pre (firstStr (visitExpr sty e))) (visitExpr sty e) (ExitX e)

/-- the head of a printed expression -/
def HE (sty : Style) (e : Expr) : Prop := HeadIs (visitExpr sty e) (fun c => H5 c ∧ (e.kind = .atom → c ≠ '-'))

theorem noGlue_lpar (c : Char) (cs : List Char) : NoGlue "(".toList (c :: cs) :=
  noGlue_leftInert (l := '(') (f0 := '(') (by decide) (by decide) leftInert_closers.2.2.2.2.2.1 (by decide)
    (by decide) cs

theorem noGlue_lcur (c : Char) (cs : List Char) : NoGlue "{".toList (c :: cs) :=
  noGlue_leftInert (l := '{') (f0 := '{') (by decide) (by decide) leftInert_closers.2.2.2.2.2.2.1 (by decide)
    (by decide) cs

theorem se_calm {sty : Style} {e : Expr} (he : SE sty e) (hh : HE sty e) : Tr Calm (visitExpr sty e) (ExitX e) :=
  he.pre fun _ hσ => pre_of_head hh fun _ cs hq => pre_of_calm hσ cs hq.1.h3

theorem se_tight {sty : Style} {e : Expr} (he : SE sty e) (hh : HE sty e) {x : List Char} {op : Bool}
    (hx : ∀ c cs, NoGlue x (c :: cs)) : Tr (Tight x op) (visitExpr sty e) (ExitX e) :=
  he.pre fun _ hσ => pre_of_head hh fun c cs _ => pre_of_tight hσ (hx c cs)

theorem isOpener_lpar : isOpener "(".toList = true := by decide
theorem isOpener_rpar : isOpener ")".toList = false := by decide

/-- `( ps )` -/
theorem tr_wrap {ps : Pieces} (h : Tr (Tight "(".toList true) ps ExitE) :
    Tr (Pre "(".toList) (wrapParens ps) ExitC := by
  show Tr _ (P "(" :: (ps ++ [P ")"])) _
  refine Tr.cons ((tr_lit_pre litOK_lpar).post fun _ h => by rw [isOpener_lpar] at h; exact h) (Tr.seq h ?_)
  exact (tr_lit_exitE litOK_rpar (c := ')') (cs := []) (by decide) inert_closers.1).post fun _ h =>
    tight_exitC isOpener_rpar calleeEnd_rpar h

theorem tr_wrap_expr {sty : Style} {e : Expr} (he : SE sty e) (hh : HE sty e) :
    Tr (Pre "(".toList) (wrapParens (visitExpr sty e)) ExitC :=
  tr_wrap ((se_tight he hh noGlue_lpar).post fun _ h => h.1)

/-- `_format_var` -/
theorem head_fmtVar {sty : Style} {e : Expr} (hh : HE sty e) :
    HeadIs (fmtVar e (visitExpr sty e)) (fun c => H5 c ∧ c ≠ '-') := by
  unfold fmtVar
  split
  · rename_i hv
    exact hh.imp fun c h => ⟨h.1, h.2 (isVarLike_kind hv)⟩
  · exact headIs_wrapParens _ (by decide)

theorem tr_fmtVar {sty : Style} {e : Expr} (he : SE sty e) (hh : HE sty e) :
    Tr (Pre (firstStr (fmtVar e (visitExpr sty e)))) (fmtVar e (visitExpr sty e)) ExitC := by
  unfold fmtVar
  split
  · rename_i hv
    exact he.post fun _ h => h.2 (endsCallee_of_varLike hv)
  · exact tr_wrap_expr he hh

theorem tr_fmtVar_calm {sty : Style} {e : Expr} (he : SE sty e) (hh : HE sty e) :
    Tr Calm (fmtVar e (visitExpr sty e)) ExitC :=
  (tr_fmtVar he hh).pre fun _ hσ => pre_of_head (head_fmtVar hh) fun _ cs hq => pre_of_calm hσ cs hq.1.h3

theorem tr_fmtVar_entryS {sty : Style} {e : Expr} (he : SE sty e) (hh : HE sty e) :
    Tr EntryS (fmtVar e (visitExpr sty e)) ExitC :=
  (tr_fmtVar he hh).pre fun _ hσ => pre_of_head (head_fmtVar hh) fun _ cs hq => pre_of_entryS hσ cs hq.1.h3

/-- an operand, bracketed or not -/
theorem head_operand {sty : Style} {e : Expr} (hh : HE sty e) (b : Bool) :
    HeadIs (if b then wrapParens (visitExpr sty e) else visitExpr sty e) H5 := by
  cases b
  · exact hh.imp fun c h => h.1
  · exact headIs_wrapParens _ (by decide)

theorem tr_operand {sty : Style} {e : Expr} (he : SE sty e) (hh : HE sty e) (b : Bool) :
    Tr (Pre (firstStr (if b then wrapParens (visitExpr sty e) else visitExpr sty e)))
      (if b then wrapParens (visitExpr sty e) else visitExpr sty e) ExitE := by
  cases b
  · exact he.post fun _ h => h.1
  · exact (tr_wrap_expr he hh).post fun _ h => h.exitE

theorem tr_operand_calm {sty : Style} {e : Expr} (he : SE sty e) (hh : HE sty e) (b : Bool) :
    Tr Calm (if b then wrapParens (visitExpr sty e) else visitExpr sty e) ExitE :=
  (tr_operand he hh b).pre fun _ hσ => pre_of_head (head_operand hh b) fun _ cs hq => pre_of_calm hσ cs hq.h3

/-- `_format_key` after `[` -/
theorem noGlue_lbrk {c : Char} (cs : List Char) (h1 : c ≠ '[') (h2 : c ≠ '=') : NoGlue "[".toList (c :: cs) := by
  refine ⟨?_, noFuse_of_not_fusy (by decide) _⟩
  rw [sepRequired_of "[".toList (c :: cs) '[' c '[' (by decide) rfl (by decide)]
  have w : wordChars.contains '[' = false := by decide
  have d : Gen.digits.contains '[' = false := by decide
  simp only [sepBool, w, d, Bool.false_and, Bool.or_false, Bool.false_or, cmpChars,
    show ('[' == '-') = false by decide, show ('[' == '.') = false by decide,
    show (['<', '>', '=', '~'].contains '[') = false by decide, show ('[' == '[') = true by decide,
    show (c == '[') = false by simpa using h1, show (c == '=') = false by simpa using h2, Bool.and_false,
    Bool.true_and]

theorem isOpener_lbrk : isOpener "[".toList = true := by decide

theorem startsWith_lbrk (c : Char) (cs : List Char) : startsWith (c :: cs) ['['] = (c == '[') := by
  by_cases hc : c = '['
  · subst hc; rfl
  · have h1 : (c == '[') = false := by simpa using hc
    have h2 : ('[' == c) = false := by simpa using Ne.symm hc
    simp [startsWith, isPrefix, h1, h2]

theorem tr_fmtKey {sty : Style} {e : Expr} (he : SE sty e) (hh : HE sty e) :
    Tr (Tight "[".toList true) (fmtKey (visitExpr sty e)) ExitE := by
  obtain ⟨c, cs, tail, hv, hq⟩ := id hh
  unfold fmtKey
  rw [hv]
  simp only
  rw [startsWith_lbrk]
  split
  · rw [← hv]
    refine Tr.cons (tr_space.pre fun _ h => h.settled (by decide) (by decide)) ((se_calm he hh).post fun _ h => h.1)
  · rename_i hc
    rw [← hv]
    refine (he.post fun _ h => h.1).pre fun _ hσ => ?_
    rw [hv]
    exact pre_of_tight hσ (noGlue_lbrk cs (by simpa using hc) hq.1.2.2.2.2.1)

end Tumfl.Theory
