import Tumfl.Model.Layout
/-!
# The text of a wrapped string literal as it appears in the output

`wrappedText ps fill`: the string pieces of `ps` concatenated, the `i`-th Newline separator replaced
by a line break followed by `fill i` (the indentation the later passes prepend to the next piece).
Separators other than Newline do not occur in the result of `_string_ident` and contribute nothing.
-/
namespace Tumfl.Theory
open Tumfl.Model

/-- `wrappedText` with a running index for the Newline separators -/
def wrappedTextFrom (fill : Nat → List Char) : Nat → Pieces → List Char
  | _, [] => []
  | i, .str s :: ps => s ++ wrappedTextFrom fill i ps
  | i, .sep .newline :: ps => '\n' :: (fill i ++ wrappedTextFrom fill (i + 1) ps)
  | i, .sep _ :: ps => wrappedTextFrom fill i ps

/-- the text of the wrapped literal as it appears in the output: string pieces concatenated, the i-th
Newline separator replaced by a line break followed by `fill i` -/
def wrappedText (ps : Pieces) (fill : Nat → List Char) : List Char := wrappedTextFrom fill 0 ps

end Tumfl.Theory
