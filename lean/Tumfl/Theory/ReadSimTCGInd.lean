import Tumfl.Theory.ReadSimTCGBlock2
/-!
# The mutual induction over the tree, for every reading
-/
namespace Tumfl.Theory.TCGSim
open Tumfl.Model Tumfl.Spec

mutual
theorem xpropR (sty : Style) : (e : Expr) → pExpr e = true → XPropR sty e
  | .nil t, _ => XR_of_E rfl (by intro _ _ h; cases h) (nil_ER t)
  | .bool t v, _ => XR_of_E rfl (by intro _ _ h; cases h) (bool_ER t v)
  | .vararg t, _ => XR_of_E rfl (by intro _ _ h; cases h) (vararg_ER t)
  | .number t n, h => XR_of_E rfl (by intro _ _ h; cases h) (number_ER t n (by simpa [pExpr] using h))
  | .string t v, _ => XR_of_E rfl (by intro _ _ h; cases h) (string_ER t v)
  | .func t ps body, h => by
    simp only [pExpr, Bool.and_eq_true] at h
    exact XR_of_E rfl (by intro _ _ h; cases h) (func_ER h.1 (xblockR sty body h.2))
  | .table t fs, h => by
    simp only [pExpr] at h
    exact XR_table (fields_of_allR fs (xfieldsR sty fs h))
  | .binop t o l r, h => by
    simp only [pExpr, Bool.and_eq_true] at h
    exact XR_of_E rfl (by intro _ _ h; cases h) (binop_stepR (xpropR sty l h.1).E (xpropR sty r h.2).E)
  | .unop t u x, h => by
    simp only [pExpr] at h
    exact XR_of_E rfl (by intro _ _ h; cases h) (unop_stepR (xpropR sty x h).E)
  | .name t n, h => XR_of_P rfl (name_PR t n (by simpa [pExpr] using h))
  | .index t l k, h => by
    simp only [pExpr, Bool.and_eq_true] at h
    exact XR_of_P rfl (index_PR (xpropR sty l h.1) (xpropR sty k h.2).E)
  | .namedIndex t l nm, h => by
    simp only [pExpr, Bool.and_eq_true] at h
    exact XR_of_P rfl (namedIndex_PR (xpropR sty l h.1) h.2)
  | .call t f args, h => by
    simp only [pExpr, Bool.and_eq_true] at h
    exact XR_of_P rfl (call_PR (xpropR sty f h.1) (xargsR sty args h.2))
  | .method t f m args, h => by
    simp only [pExpr, Bool.and_eq_true] at h
    exact XR_of_P rfl (method_PR (xpropR sty f h.1.1) h.1.2 (xargsR sty args h.2))

theorem xargsR (sty : Style) : (es : List Expr) → pArgs es = true → ∀ e ∈ es, XPropR sty e
  | [], _ => by simp
  | e :: r, h => by
    simp only [pArgs, Bool.and_eq_true] at h
    intro x hx
    rcases List.mem_cons.mp hx with heq | hx
    · rw [heq]; exact xpropR sty e h.1
    · exact xargsR sty r h.2 x hx

theorem xfieldsR (sty : Style) : (fs : List Model.Field) → pFields fs = true → ∀ f ∈ fs, FieldPropR sty f
  | [], _ => by simp
  | f :: r, h => by
    simp only [pFields, Bool.and_eq_true] at h
    intro x hx
    rcases List.mem_cons.mp hx with heq | hx
    · rw [heq]; exact xfieldR sty f h.1
    · exact xfieldsR sty r h.2 x hx

theorem xfieldR (sty : Style) : (f : Model.Field) → pField f = true → FieldPropR sty f
  | .explicit t k v, h => by
    simp only [pField, Bool.and_eq_true] at h
    exact explicit_FR (xpropR sty k h.1).E (xpropR sty v h.2).E
  | .named t n v, h => by
    simp only [pField, Bool.and_eq_true] at h
    exact named_FR h.1 (xpropR sty v h.2).E
  | .numbered t v, h => by
    simp only [pField] at h
    exact numbered_FR (xpropR sty v h).E

theorem xblockR (sty : Style) : (b : Model.Block) → pBlock b = true → BlockPropR sty b
  | .mk t ss none c, h => by
    simp only [pBlock, Bool.and_true] at h
    exact block_stepR (xstmtsR sty ss h) (by intro es he; cases he)
  | .mk t ss (some es) c, h => by
    simp only [pBlock, Bool.and_eq_true] at h
    exact block_stepR (xstmtsR sty ss h.1) (by intro es' he; cases he; exact xargsR sty es h.2)

theorem xstmtsR (sty : Style) : (ss : List Stmt) → pStmts ss = true → ∀ s ∈ ss, pStmt s = true ∧ StmtPropR sty s
  | [], _ => by simp
  | s :: r, h => by
    simp only [pStmts, Bool.and_eq_true] at h
    intro x hx
    rcases List.mem_cons.mp hx with heq | hx
    · rw [heq]; exact ⟨h.1, xstmtR sty s h.1⟩
    · exact xstmtsR sty r h.2 x hx

theorem xstmtR (sty : Style) : (s : Stmt) → pStmt s = true → StmtPropR sty s
  | .assign t [] es, h => by simp [pStmt] at h
  | .assign t (e :: r) es, h => by
    simp only [pStmt, Bool.and_eq_true, Bool.not_eq_true', List.isEmpty_eq_false_iff, List.all_cons] at h
    obtain ⟨⟨⟨⟨_, hts⟩, hp⟩, hes⟩, hpe⟩ := h
    have hx := xargsR sty (e :: r) hp
    have hpm := pArgs_mem (e :: r) hp
    refine assign_SR ⟨hts.1, hpm e (by simp), hx e (by simp)⟩ ?_ hes (xargsR sty es hpe)
    intro x hxr
    exact ⟨List.all_eq_true.mp hts.2 x hxr, hx x (by simp [hxr])⟩
  | .block b, h => by
    simp only [pStmt, Bool.and_eq_true, Bool.not_eq_true'] at h
    exact block_SR h.1 (xblockR sty b h.2)
  | .brk t, _ => brk_SR t
  | .call t f args, h => by
    simp only [pStmt, Bool.and_eq_true] at h
    exact call_SR h.1 (xpropR sty f h.1) (xargsR sty args h.2)
  | .funcDef t [] m ps body, h => by simp [pStmt] at h
  | .funcDef t (n :: ns) m ps body, h => by
    simp only [pStmt, Bool.and_eq_true, List.all_cons] at h
    obtain ⟨⟨⟨⟨_, hn⟩, hm⟩, hp⟩, hb⟩ := h
    refine funcDef_SR hn.1 hn.2 ?_ hp (xblockR sty body hb)
    intro x hx; subst hx; exact hm
  | .goto t l, h => goto_SR t (by simpa [pStmt] using h)
  | .label t l, h => label_SR t (by simpa [pStmt] using h)
  | .iff t test tr fl, h => by
    simp only [pStmt, Bool.and_eq_true, Bool.not_eq_true'] at h
    exact iff_SR (xpropR sty test h.1.1.1).E h.1.1.2 (xblockR sty tr h.1.2) (xfalseR sty fl h.2)
  | .iterFor t [] es body, h => by simp [pStmt] at h
  | .iterFor t (n :: ns) es body, h => by
    simp only [pStmt, Bool.and_eq_true, Bool.not_eq_true', List.isEmpty_eq_false_iff, List.all_cons] at h
    obtain ⟨⟨⟨⟨⟨_, hn⟩, hes⟩, hpe⟩, hc⟩, hb⟩ := h
    exact iterFor_SR hn.1 hn.2 hes (xargsR sty es hpe) hc (xblockR sty body hb)
  | .localAssign t names none, h => by
    simp only [pStmt, Bool.and_eq_true, Bool.not_eq_true', List.isEmpty_eq_false_iff, Bool.and_true] at h
    exact localAssign0_SR h.1 h.2
  | .localAssign t names (some []), h => by simp [pStmt] at h
  | .localAssign t names (some (e :: r)), h => by
    simp only [pStmt, Bool.and_eq_true, Bool.not_eq_true', List.isEmpty_eq_false_iff] at h
    exact localAssign1_SR h.1.1 h.1.2 (xargsR sty (e :: r) h.2)
  | .localFunc t n ps body, h => by
    simp only [pStmt, Bool.and_eq_true] at h
    exact localFunc_SR h.1.1 h.1.2 (xblockR sty body h.2)
  | .method t f m args, h => by
    simp only [pStmt, Bool.and_eq_true] at h
    exact method_SR h.1.1 (xpropR sty f h.1.1) h.1.2 (xargsR sty args h.2)
  | .numFor t v a b none body, h => by
    simp only [pStmt, Bool.and_eq_true, Bool.not_eq_true', Bool.and_true] at h
    obtain ⟨⟨⟨⟨hv, ha⟩, hb⟩, hc⟩, hbody⟩ := h
    exact numFor0_SR hv (xpropR sty a ha).E (xpropR sty b hb).E hc (xblockR sty body hbody)
  | .numFor t v a b (some st) body, h => by
    simp only [pStmt, Bool.and_eq_true, Bool.not_eq_true'] at h
    obtain ⟨⟨⟨⟨⟨hv, ha⟩, hb⟩, hs⟩, hc⟩, hbody⟩ := h
    exact numFor1_SR hv (xpropR sty a ha).E (xpropR sty b hb).E (xpropR sty st hs).E hc (xblockR sty body hbody)
  | .repeat t c body, h => by
    simp only [pStmt, Bool.and_eq_true, Bool.not_eq_true'] at h
    exact repeat_SR (xpropR sty c h.2).E h.1.1 (xblockR sty body h.1.2)
  | .semi t, _ => semi_SR t
  | .whl t c body, h => by
    simp only [pStmt, Bool.and_eq_true, Bool.not_eq_true'] at h
    exact whl_SR (xpropR sty c h.1.1).E h.1.2 (xblockR sty body h.2)

theorem xfalseR (sty : Style) : (fl : IfFalse) → pFalse fl = true → FalsePropR sty fl
  | .none, _ => none_FlR
  | .block b, h => by
    simp only [pFalse, Bool.and_eq_true, Bool.not_eq_true'] at h
    exact else_FlR h.1 (xblockR sty b h.2)
  | .elif t test tr fl, h => by
    simp only [pFalse, Bool.and_eq_true, Bool.not_eq_true'] at h
    exact elif_FlR (xpropR sty test h.1.1.1).E h.1.1.2 (xblockR sty tr h.1.2) (xfalseR sty fl h.2)
end

end Tumfl.Theory.TCGSim
