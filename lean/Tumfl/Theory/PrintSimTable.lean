import Tumfl.Theory.PrintSimArgs
/-!
# Table constructors, parameter lists, function bodies; assembly of `XProp`
-/
namespace Tumfl.Theory
open Tumfl.Model Tumfl.Spec

variable {semi : Bool} {sty : Style}

/-! ## table fields -/

/-- the field parser inside `Spec.fields` -/
def fieldParse (f : Nat) (ts : List Spec.Tok) : Except PErr (Spec.Field × List Spec.Tok) :=
  match pk ts with
  | .name n =>
    if isSym "=" ts.tail then do
      let (e, t2) ← expr f ts.tail.tail
      .ok (.named n e, t2)
    else do
      let (e, t2) ← expr f ts
      .ok (.pos e, t2)
  | .sym "[" => do
    let (k, t1) ← expr f ts.tail
    let t2 ← expectSym "]" t1
    let t3 ← expectSym "=" t2
    let (e, t4) ← expr f t3
    .ok (.keyed k e, t4)
  | _ => do
    let (e, t2) ← expr f ts
    .ok (.pos e, t2)

def fieldsRest (f : Nat) (fd : Spec.Field) (ts1 : List Spec.Tok) : Except PErr (List Spec.Field × List Spec.Tok) :=
  if isSym "," ts1 || isSym ";" ts1 then do
    let (fs, ts2) ← fields f ts1.tail
    .ok (fd :: fs, ts2)
  else do
    let ts2 ← expectSym "}" ts1
    .ok ([fd], ts2)

theorem ps_fields_succ (f : Nat) (ts : List Spec.Tok) : fields (f + 1) ts =
    if isSym "}" ts then .ok ([], ts.tail)
    else (fieldParse f ts).bind fun r => fieldsRest f r.1 r.2 := by
  rw [fields]; rfl

/-- one field, followed by `,` or `}` -/
def FieldProp (semi : Bool) (sty : Style) (f : Model.Field) : Prop :=
  ∀ F rest, nF semi sty f ≤ F → (pk rest = .sym "," ∨ pk rest = .sym "}") →
    fieldParse F (TK semi (visitField sty f) ++ rest) = .ok (refField semi sty f, rest) ∧
    isSym "}" (TK semi (visitField sty f) ++ rest) = false

theorem sep_facts {rest : List Spec.Tok} (h : pk rest = .sym "," ∨ pk rest = .sym "}") :
    sfx (pk rest) = false ∧ hdLp rest = 0 ∧ isSym "=" rest = false := by
  rcases h with h | h <;> simp [h, sfx, hdLp, binOfTk, isSym]

theorem explicit_F {t : Token} {k v : Expr} (hk : EProp semi sty k) (hv : EProp semi sty v) :
    FieldProp semi sty (.explicit t k v) := by
  intro F rest hF hr
  obtain ⟨h1, h2, _⟩ := sep_facts hr
  simp only [nF] at hF
  simp only [visitField, TK_append, TK_lbrack, TK_rbrack, TK_fmtKey, TK_sep_space, TK_assign, TK_nil, List.append_assoc,
    List.cons_append, List.nil_append, refField]
  refine ⟨?_, by simp [isSym_mkTok]⟩
  have e1 := expr_of_EProp hk F (mkTok (.sym "]") :: mkTok (.sym "=") :: (TK semi (visitExpr sty v) ++ rest)) (by omega)
    (by simp [sfx]) (by simp [hdLp, binOfTk])
  have e2 := expr_of_EProp hv F rest (by omega) h1 h2
  unfold fieldParse
  simp only [pk_mkTok, tail_mkTok, e1]
  simp [expectSym, isSym, e2, bind, Except.bind]

theorem named_F {t : Token} {n v : Expr} (hn : nameNodeOK n = true) (hv : EProp semi sty v) :
    FieldProp semi sty (.named t n v) := by
  intro F rest hF hr
  obtain ⟨h1, h2, _⟩ := sep_facts hr
  simp only [nF] at hF
  have hnm := TK_nameNode (semi := semi) sty hn ([S .space, P "=", S .space] ++ visitExpr sty v)
  simp only [visitField, List.append_assoc] at hnm ⊢
  rw [hnm]
  simp only [List.cons_append, TK_sep_space, TK_assign, refField]
  refine ⟨?_, by simp [isSym_mkTok]⟩
  have e2 := expr_of_EProp hv F rest (by omega) h1 h2
  unfold fieldParse
  simp only [pk_mkTok, tail_mkTok, isSym_mkTok]
  simp [e2, bind, Except.bind]

theorem expr_name_stop (F : Nat) (n : String) (X : List Spec.Tok) (hs : sfx (pk X) = false) (hl : hdLp X = 0) :
    expr (F + 4) (mkTok (.name n) :: X) = .ok (.name n, X) := by
  rw [ps_expr_succ]
  have h1 : simpleexp (F + 3) (mkTok (.name n) :: X) = .ok (.name n, X) := by
    rw [simpleexp]; simp only [pk_mkTok]
    rw [suffixedexp]; simp only [pk_mkTok, tail_mkTok]
    exact suffixes_stop _ _ _ hs
  rw [climb_simple _ _ _ _ _ _ (by simp [unOfTk]) h1]
  exact climbLoop_stop _ _ _ _ _ (by omega)

theorem numbered_F {t : Token} {v : Expr} (hp : pExpr v = true) (hv : EProp semi sty v) :
    FieldProp semi sty (.numbered t v) := by
  intro F rest hF hr
  obtain ⟨h1, h2, h3⟩ := sep_facts hr
  simp only [nF] at hF
  simp only [visitField, refField]
  obtain ⟨k, tks, hk, hs⟩ := exprHead (semi := semi) sty v hp
  have e2 := expr_of_EProp hv F rest (by omega) h1 h2
  refine ⟨?_, ?_⟩
  · unfold fieldParse
    rw [hk] at e2 ⊢
    simp only [List.cons_append, pk_mkTok, tail_mkTok] at e2 ⊢
    cases k with
    | name n =>
      simp only
      -- the token after the name is not `=`
      have hne : isSym "=" (tks ++ rest) = false := by
        cases hb : isSym "=" (tks ++ rest) with
        | false => rfl
        | true =>
          exfalso
          have hpk : pk (tks ++ rest) = .sym "=" := by
            unfold isSym at hb
            split at hb
            · rename_i x hx; rw [hx]; simp at hb; rw [hb]
            · cases hb
          have e3 := expr_of_EProp hv (F + 4) rest (by omega) h1 h2
          rw [hk, List.cons_append, expr_name_stop F n (tks ++ rest) (by simp [hpk, sfx]) (by simp [hdLp, hpk, binOfTk])] at e3
          simp only [Except.ok.injEq, Prod.mk.injEq] at e3
          have hl := congrArg List.length e3.2
          simp only [List.length_append] at hl
          have : tks = [] := List.eq_nil_of_length_eq_zero (by omega)
          subst this
          simp only [List.nil_append] at hpk
          rcases hr with hr | hr <;> rw [hr] at hpk <;> simp at hpk
      simp [hne, e2, bind, Except.bind]
    | sym s =>
      have : s ≠ "[" := by rintro rfl; simp [exprStartTk] at hs
      split
      · rename_i heq; cases heq
      · rename_i heq; cases heq; exact absurd rfl this
      · simp [e2, bind, Except.bind]
    | kw s => simp [e2, bind, Except.bind]
    | str s => simp [e2, bind, Except.bind]
    | num s => simp [e2, bind, Except.bind]
    | eof => simp [exprStartTk] at hs
  · rw [hk, List.cons_append, isSym_mkTok]
    cases hb : k == .sym "}" with
    | false => rfl
    | true =>
      have : k = .sym "}" := by simpa using hb
      subst this
      simp [exprStartTk] at hs

theorem fields_of_all : (fs : List Model.Field) → (∀ f ∈ fs, FieldProp semi sty f) → FieldsProp semi sty fs
  | [], _ => by
    intro F rest hF
    simp only [nFs] at hF
    obtain ⟨F, rfl⟩ : ∃ f, F = f + 1 := ⟨F - 1, by omega⟩
    rw [ps_fields_succ]
    simp [visitFields, refFields, isSym_mkTok]
  | [f], hall => by
    intro F rest hF
    simp only [nFs] at hF
    obtain ⟨F, rfl⟩ : ∃ f, F = f + 1 := ⟨F - 1, by omega⟩
    obtain ⟨h1, h2⟩ := hall f (by simp) F (mkTok (.sym "}") :: rest) (by omega) (.inr rfl)
    rw [ps_fields_succ]
    simp only [visitFields, refFields, h1, h2, Except.bind]
    simp [fieldsRest, isSym_mkTok, expectSym, bind, Except.bind]
  | f :: f2 :: fs, hall => by
    intro F rest hF
    simp only [nFs] at hF
    obtain ⟨F, rfl⟩ : ∃ f, F = f + 1 := ⟨F - 1, by omega⟩
    have ih := fields_of_all (f2 :: fs) (fun x hx => hall x (by simp [hx])) F rest (by simp only [nFs]; omega)
    obtain ⟨h1, h2⟩ := hall f (by simp) F
      (mkTok (.sym ",") :: (TK semi (visitFields sty (f2 :: fs)) ++ mkTok (.sym "}") :: rest)) (by omega) (.inl rfl)
    rw [ps_fields_succ, visitFields, refFields]
    simp only [TK_append, TK_sep_argument, List.append_assoc, List.cons_append]
    rw [h1]
    simp only [h2, Except.bind]
    simp [fieldsRest, isSym_mkTok, ih, bind, Except.bind]

/-! ## parameter lists -/

theorem paramsOK_cons {e : Expr} {rest : List Expr} (h : paramsOK (e :: rest) = true) :
    (∃ t, e = .vararg t ∧ rest = []) ∨ (nameNodeOK e = true ∧ paramsOK rest = true) := by
  unfold paramsOK at h
  split at h
  · rename_i heq; cases heq
  · rename_i heq; cases heq; exact .inl ⟨_, rfl, rfl⟩
  · rename_i heq; cases heq
    simp only [Bool.and_eq_true] at h
    exact .inr h

theorem refParams_name {e : Expr} (rest : List Expr) (h : nameNodeOK e = true) :
    refParams (e :: rest) = (nameS e :: (refParams rest).1, (refParams rest).2) := by
  obtain ⟨t, n, rfl, _⟩ := nameNodeOK_iff h
  rfl

theorem parlist_succ (f : Nat) (ts : List Spec.Tok) : parlist (f + 1) ts =
    if isSym ")" ts then .ok ([], false, ts) else parlist1 (f + 1) ts := by
  rw [parlist, parlist1]

theorem params1_step : (ps : List Expr) → paramsOK ps = true → ps ≠ [] → ∀ g X, ps.length ≤ g →
    parlist1 g (TK semi (visitArgs sty ps) ++ mkTok (.sym ")") :: X) =
      .ok ((refParams ps).1, (refParams ps).2, mkTok (.sym ")") :: X)
  | [], _, h => absurd rfl h
  | [e], hp, _ => by
    intro g X hg
    obtain ⟨g, rfl⟩ : ∃ f, g = f + 1 := ⟨g - 1, by simp at hg; omega⟩
    rcases paramsOK_cons hp with ⟨t, rfl, _⟩ | ⟨hn, _⟩
    · rw [parlist1]; simp [visitArgs, visitExpr, refParams]
    · have hnm := TK_nameNode (semi := semi) sty hn []
      simp only [List.append_nil, TK_nil] at hnm
      rw [refParams_name _ hn, parlist1]
      simp [visitArgs, hnm, isSym_mkTok, refParams]
  | e :: e2 :: rest, hp, _ => by
    intro g X hg
    obtain ⟨g, rfl⟩ : ∃ f, g = f + 1 := ⟨g - 1, by simp at hg; omega⟩
    rcases paramsOK_cons hp with ⟨t, _, h⟩ | ⟨hn, hr⟩
    · cases h
    · have ih := params1_step (e2 :: rest) hr (by simp) g X (by simp at hg ⊢; omega)
      have hnm := TK_nameNode (semi := semi) sty hn (S .argument :: visitArgs sty (e2 :: rest))
      rw [visitArgs, hnm, refParams_name _ hn, parlist1]
      simp only [TK_sep_argument, List.cons_append, pk_mkTok, tail_mkTok, isSym_mkTok]
      simp [ih, bind, Except.bind]

theorem params_step (ps : List Expr) (hp : paramsOK ps = true) (g : Nat) (X : List Spec.Tok) (hg : ps.length + 1 ≤ g) :
    parlist g (TK semi (visitArgs sty ps) ++ mkTok (.sym ")") :: X) =
      .ok ((refParams ps).1, (refParams ps).2, mkTok (.sym ")") :: X) := by
  obtain ⟨g, rfl⟩ : ∃ f, g = f + 1 := ⟨g - 1, by omega⟩
  rw [parlist_succ]
  cases ps with
  | nil => simp [visitArgs, refParams, isSym_mkTok]
  | cons e rest =>
    have h1 := params1_step (semi := semi) (sty := sty) (e :: rest) hp (by simp) (g + 1) X (by simp at hg ⊢; omega)
    have hne : isSym ")" (TK semi (visitArgs sty (e :: rest)) ++ mkTok (.sym ")") :: X) = false := by
      rcases paramsOK_cons hp with ⟨t, rfl, rfl⟩ | ⟨hn, _⟩
      · simp [visitArgs, visitExpr, isSym_mkTok]
      · cases rest with
        | nil =>
          have hnm := TK_nameNode (semi := semi) sty hn []
          simp only [List.append_nil, TK_nil] at hnm
          simp [visitArgs, hnm, isSym_mkTok]
        | cons e2 rest =>
          have hnm := TK_nameNode (semi := semi) sty hn (S .argument :: visitArgs sty (e2 :: rest))
          rw [visitArgs, hnm]
          simp [isSym_mkTok]
    rw [hne]
    exact h1

theorem ParamsRel_of_paramsOK : (ps : List Expr) → paramsOK ps = true → ParamsRel ps (refParams ps).1 (refParams ps).2
  | [], _ => .nil
  | e :: rest, hp => by
    rcases paramsOK_cons hp with ⟨t, rfl, rfl⟩ | ⟨hn, hr⟩
    · exact .vararg t
    · rw [refParams_name _ hn]
      exact .cons (NameRel_of_nameNodeOK hn) (ParamsRel_of_paramsOK rest hr)

/-! ## function bodies -/

theorem TK_drop1 (sty : Style) (b : Model.Block) :
    TK semi ((visitBlockFull sty b).drop 1) = semiT semi ++ TK semi (bodyPieces sty b.stmts b.rets) ++ [mkTok (.kw "end")] := by
  obtain ⟨t, ss, rets, c⟩ := b
  rw [visitBlockFull_eq]
  simp [Block.stmts, Block.rets]

theorem body_step {ps : List Expr} {b : Model.Block} (hp : paramsOK ps = true) (hb : BlockProp semi sty b) (g : Nat)
    (rest : List Spec.Tok) (hg : max (ps.length + 1) (nB semi sty b) + 1 ≤ g) :
    body g (mkTok (.sym "(") :: (TK semi (visitArgs sty ps) ++ mkTok (.sym ")") ::
        (TK semi ((visitBlockFull sty b).drop 1) ++ rest))) =
      .ok ((refParams ps).1, (refParams ps).2, refBlock semi sty b, rest) := by
  obtain ⟨g, rfl⟩ : ∃ f, g = f + 1 := ⟨g - 1, by omega⟩
  have h1 := params_step (semi := semi) (sty := sty) ps hp g (TK semi ((visitBlockFull sty b).drop 1) ++ rest) (by omega)
  have h2 := hb g (mkTok (.kw "end") :: rest) (by omega) (by rfl)
  rw [body]
  simp only [TK_drop1, List.append_assoc, List.cons_append, List.nil_append] at h1 h2 ⊢
  simp [expectSym, isSym_mkTok, h1, h2, expectKw, isKw_mkTok, bind, Except.bind]

/-! ## assembly of `XProp` -/

theorem atom_E' {e : Expr} {k : Tk} {tks : List Spec.Tok} (htk : TK semi (visitExpr sty e) = mkTok k :: tks)
    (hn : 1 ≤ nE semi sty e) (hu : unOfTk k = none)
    (hsimple : ∀ g rest, nE semi sty e ≤ g → simpleexp g (mkTok k :: (tks ++ rest)) = .ok (refExpr semi sty e, rest)) :
    EProp semi sty e := by
  intro g F limit rest hg hF _ _ _
  obtain ⟨F, rfl⟩ : ∃ f, F = f + 1 := ⟨F - 1, by omega⟩
  refine ⟨F, by omega, ?_⟩
  rw [htk]
  exact climb_simple _ _ _ _ _ _ (by simpa using hu) (hsimple g rest hg)

theorem func_E {t : Token} {ps : List Expr} {b : Model.Block} (hp : paramsOK ps = true) (hb : BlockProp semi sty b) :
    EProp semi sty (.func t ps b) := by
  refine atom_E' (k := .kw "function")
    (tks := mkTok (.sym "(") :: (TK semi (visitArgs sty ps) ++ mkTok (.sym ")") :: TK semi ((visitBlockFull sty b).drop 1)))
    (by simp [visitExpr]) (by simp only [nE]; omega) rfl ?_
  intro g rest hg
  simp only [nE] at hg
  obtain ⟨g, rfl⟩ : ∃ f, g = f + 1 := ⟨g - 1, by omega⟩
  have := body_step hp hb g rest (by omega)
  rw [simpleexp]
  simp only [pk_mkTok, tail_mkTok, List.cons_append, List.append_assoc, this]
  simp [refExpr, bind, Except.bind]

theorem table_E {t : Token} {fs : List Model.Field} (hf : FieldsProp semi sty fs) : EProp semi sty (.table t fs) := by
  refine atom_E' (k := .sym "{") (tks := TK semi (visitFields sty fs) ++ [mkTok (.sym "}")])
    (by simp [visitExpr]) (by simp only [nE]; omega) rfl ?_
  intro g rest hg
  simp only [nE] at hg
  obtain ⟨g, rfl⟩ : ∃ f, g = f + 1 := ⟨g - 1, by omega⟩
  have := hf g rest (by omega)
  rw [simpleexp]
  simp only [pk_mkTok, tail_mkTok, List.append_assoc, List.cons_append, List.nil_append, this]
  simp [refExpr, bind, Except.bind]

theorem X_of_E {e : Expr} (hv : isVarLike e = false) (ht : ∀ t fs, e ≠ .table t fs) (h : EProp semi sty e) :
    XProp semi sty e :=
  ⟨h, by simp [hv], fun t fs he => absurd he (ht t fs)⟩

theorem X_of_P {e : Expr} (hv : isVarLike e = true) (hp : pExpr e = true) (h : PProp semi sty e) : XProp semi sty e :=
  ⟨E_of_P hv hp h, fun _ => h, by intro t fs he; subst he; simp [isVarLike] at hv⟩

theorem X_table {t : Token} {fs : List Model.Field} (hf : FieldsProp semi sty fs) : XProp semi sty (.table t fs) :=
  ⟨table_E hf, by simp [isVarLike], by intro t' fs' he; cases he; exact hf⟩

end Tumfl.Theory
