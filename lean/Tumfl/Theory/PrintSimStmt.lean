import Tumfl.Theory.PrintSimTable
/-!
# Statements: what `Spec.statement` does on the tokens of a printed statement
-/
namespace Tumfl.Theory
open Tumfl.Model Tumfl.Spec

variable {semi : Bool} {sty : Style}

/-! ## the pieces of nested blocks -/

theorem TK_blk (sty : Style) (b : Model.Block) (h : b.isChunk = false) :
    TK semi (blk b (visitBlockFull sty b)) =
      mkTok (.kw "do") :: (semiT semi ++ (TK semi (bodyPieces sty b.stmts b.rets) ++ [mkTok (.kw "end")])) := by
  obtain ⟨t, ss, rets, c⟩ := b
  simp only [Block.isChunk] at h
  subst h
  simp only [blk, Block.isChunk, Bool.false_eq_true, if_false]
  rw [visitBlockFull_eq]
  simp [Block.stmts, Block.rets]

theorem TK_slice21 (sty : Style) (b : Model.Block) (h : b.isChunk = false) :
    TK semi (sliceInner 2 1 (blk b (visitBlockFull sty b))) = TK semi (bodyPieces sty b.stmts b.rets) := by
  obtain ⟨t, ss, rets, c⟩ := b
  simp only [Block.isChunk] at h
  subst h
  simp only [blk, Block.isChunk, Bool.false_eq_true, if_false]
  rw [visitBlockFull_eq]
  have : [P "do", S .block, S .indent] ++ bodyPieces sty ss rets ++ [S .deindent, P "end"] =
      [P "do", S .block] ++ ([S .indent] ++ bodyPieces sty ss rets ++ [S .deindent]) ++ [P "end"] := by simp
  rw [this, sliceInner_mid _ _ _ 2 1 rfl rfl]
  simp [Block.stmts, Block.rets]

/-! ## the properties -/

def trailT (semi : Bool) (s : Stmt) : List Spec.Tok := if hasTrail s then semiT semi else []

/-- `statement` on the tokens of a printed statement (one that prints something) -/
def StmtProp (semi : Bool) (sty : Style) (s : Stmt) : Prop :=
  droppedSemi sty s = false → ∀ F rest, nS semi sty s ≤ F → safeTk (pk rest) = true →
    statement F (TK semi (visitStmt sty s) ++ rest) = .ok (refStmt semi sty s, trailT semi s ++ rest)

/-- `ifrest` on the tokens of an `elseif` / `else` chain and the closing `end` -/
def FalseProp (semi : Bool) (sty : Style) (fl : IfFalse) : Prop :=
  ∀ F rest, nFl semi sty fl ≤ F →
    ifrest F (TK semi (visitFalse sty fl) ++ mkTok (.kw "end") :: rest) = .ok (refElifs semi sty fl, refElse semi sty fl, rest)

theorem safe_facts {ts : List Spec.Tok} (h : safeTk (pk ts) = true) :
    sfx (pk ts) = false ∧ hdLp ts = 0 ∧ isSym "," ts = false ∧ isSym "=" ts = false := by
  have h0 := h
  simp only [safeTk, Bool.and_eq_true, Bool.not_eq_true', Option.isNone_iff_eq_none, bne_iff_ne, ne_eq] at h
  obtain ⟨hs, hl, hc⟩ := stopTk_facts (stopTk_of_safe h0)
  refine ⟨hs, hl, hc, ?_⟩
  unfold isSym
  split
  · rename_i x hx
    cases hb : x == "=" with
    | false => rfl
    | true =>
      exfalso
      have : x = "=" := by simpa using hb
      subst this
      exact h.2 hx
  · rfl

/-! ## simple statements -/

theorem brk_S (t : Token) : StmtProp semi sty (.brk t) := by
  intro _ F rest hF _
  simp only [nS] at hF
  obtain ⟨F, rfl⟩ : ∃ f, F = f + 1 := ⟨F - 1, by omega⟩
  rw [statement]
  simp [visitStmt, refStmt, trailT, hasTrail]

theorem semi_S (t : Token) : StmtProp semi sty (.semi t) := by
  intro hd F rest hF _
  simp only [droppedSemi, isSemi, Bool.true_and, Bool.not_eq_false'] at hd
  simp only [nS] at hF
  obtain ⟨F, rfl⟩ : ∃ f, F = f + 1 := ⟨F - 1, by omega⟩
  rw [statement]
  simp [visitStmt, hd, refStmt, trailT, hasTrail]

theorem goto_S (t : Token) {l : Expr} (hl : nameNodeOK l = true) : StmtProp semi sty (.goto t l) := by
  intro _ F rest hF _
  simp only [nS] at hF
  obtain ⟨F, rfl⟩ : ∃ f, F = f + 1 := ⟨F - 1, by omega⟩
  have hnm := TK_nameNode (semi := semi) sty hl []
  simp only [List.append_nil, TK_nil] at hnm
  rw [statement]
  simp [visitStmt, hnm, refStmt, trailT, hasTrail, expectName, bind, Except.bind]

theorem label_S (t : Token) {l : Expr} (hl : nameNodeOK l = true) : StmtProp semi sty (.label t l) := by
  intro _ F rest hF _
  simp only [nS] at hF
  obtain ⟨F, rfl⟩ : ∃ f, F = f + 1 := ⟨F - 1, by omega⟩
  have hnm := TK_nameNode (semi := semi) sty hl [P "::"]
  rw [statement]
  simp [visitStmt, hnm, refStmt, trailT, hasTrail, expectName, expectSym, isSym_mkTok, bind, Except.bind]

theorem block_S {b : Model.Block} (hc : b.isChunk = false) (hb : BlockProp semi sty b) : StmtProp semi sty (.block b) := by
  intro _ F rest hF _
  simp only [nS] at hF
  obtain ⟨F, rfl⟩ : ∃ f, F = f + 1 := ⟨F - 1, by omega⟩
  have h1 := hb F (mkTok (.kw "end") :: rest) (by omega) (by rfl)
  rw [statement]
  simp only [visitStmt, TK_blk sty b hc, List.cons_append, List.append_assoc, List.nil_append, pk_mkTok, tail_mkTok] at h1 ⊢
  simp [h1, expectKw, isKw_mkTok, refStmt, trailT, hasTrail, bind, Except.bind]

theorem whl_S {t : Token} {c : Expr} {b : Model.Block} (he : EProp semi sty c) (hc : b.isChunk = false)
    (hb : BlockProp semi sty b) : StmtProp semi sty (.whl t c b) := by
  intro _ F rest hF _
  simp only [nS] at hF
  obtain ⟨F, rfl⟩ : ∃ f, F = f + 1 := ⟨F - 1, by omega⟩
  have h1 := hb F (mkTok (.kw "end") :: rest) (by omega) (by rfl)
  have h0 := expr_of_EProp he F (mkTok (.kw "do") :: (semiT semi ++ (TK semi (bodyPieces sty b.stmts b.rets) ++
    mkTok (.kw "end") :: rest))) (by omega) (by simp [sfx]) (by simp [hdLp, binOfTk])
  rw [statement]
  simp only [visitStmt, TK_blk sty b hc, TK_append, TK_while_kw, TK_sep_space, TK_nil, List.cons_append, List.append_assoc,
    List.nil_append, pk_mkTok, tail_mkTok] at h0 h1 ⊢
  simp [h0, h1, expectKw, isKw_mkTok, refStmt, trailT, hasTrail, bind, Except.bind]

theorem repeat_S {t : Token} {c : Expr} {b : Model.Block} (he : EProp semi sty c) (hc : b.isChunk = false)
    (hb : BlockProp semi sty b) : StmtProp semi sty (.repeat t c b) := by
  intro _ F rest hF hsafe
  obtain ⟨hs1, hs2, _, _⟩ := safe_facts hsafe
  simp only [nS] at hF
  obtain ⟨F, rfl⟩ : ∃ f, F = f + 1 := ⟨F - 1, by omega⟩
  have h0 := expr_of_EProp he F rest (by omega) hs1 hs2
  have h1 := hb F (mkTok (.kw "until") :: (TK semi (visitExpr sty c) ++ rest)) (by omega) (by rfl)
  rw [statement]
  simp only [visitStmt, TK_slice21 sty b hc, TK_append, TK_repeat_kw, TK_until_kw, TK_sep_space, TK_sep_block, TK_nil,
    List.cons_append, List.append_assoc, List.nil_append, pk_mkTok, tail_mkTok] at h0 h1 ⊢
  simp [h0, h1, expectKw, isKw_mkTok, refStmt, trailT, hasTrail, bind, Except.bind]

end Tumfl.Theory
