import Tumfl.Theory.ResolveSpec
/-!
# Dependency resolver, "the error designates the offending call": vocabulary

* `callIn* Q x`: somewhere in the tree `x` - descending exactly where `mentionsRequire*` (and the walker) descends - there
  is a call `.call t fn args` (expression- or statement-level) with `Q t fn args`;
* `Offends fs sp dir m t`: the call carries the token `t`, calls the bare name `require`, and is uninlinable for the
  reason named by the message `m`; `offends* fs sp dir m t x := callIn* (Offends fs sp dir m t) x`;
* `ReqTo fs sp dir path`: a literal `require` whose lookup from `dir` finds `path`;
  `requires* fs sp dir path x := callIn* (ReqTo fs sp dir path) x`;
* `Reach` / `InTree`: the files of the dependency tree (over-approximation: deduplication is ignored).
-/
namespace Tumfl.Theory
open Tumfl.Model

/-! ## 1. A call with a given property occurs -/

mutual
def callInExpr (Q : Token → Expr → List Expr → Prop) : Expr → Prop
  | .func _ ps body => callInExprs Q ps ∨ callInBlock Q body
  | .table _ fs => callInFields Q fs
  | .binop _ _ l r => callInExpr Q l ∨ callInExpr Q r
  | .unop _ _ x => callInExpr Q x
  | .index _ l k => callInExpr Q l ∨ callInExpr Q k
  | .namedIndex _ l n => callInExpr Q l ∨ callInExpr Q n
  | .call t fn args => Q t fn args ∨ callInExpr Q fn ∨ callInExprs Q args
  | .method _ fn m args => callInExpr Q fn ∨ callInExpr Q m ∨ callInExprs Q args
  | _ => False
def callInExprs (Q : Token → Expr → List Expr → Prop) : List Expr → Prop
  | [] => False
  | e :: es => callInExpr Q e ∨ callInExprs Q es
def callInOptExpr (Q : Token → Expr → List Expr → Prop) : Option Expr → Prop
  | none => False
  | some e => callInExpr Q e
def callInOptExprs (Q : Token → Expr → List Expr → Prop) : Option (List Expr) → Prop
  | none => False
  | some es => callInExprs Q es
def callInField (Q : Token → Expr → List Expr → Prop) : Field → Prop
  | .explicit _ k v => callInExpr Q k ∨ callInExpr Q v
  | .named _ n v => callInExpr Q n ∨ callInExpr Q v
  | .numbered _ v => callInExpr Q v
def callInFields (Q : Token → Expr → List Expr → Prop) : List Field → Prop
  | [] => False
  | fd :: rest => callInField Q fd ∨ callInFields Q rest
def callInStmt (Q : Token → Expr → List Expr → Prop) : Stmt → Prop
  | .assign _ ts es => callInExprs Q ts ∨ callInExprs Q es
  | .block b => callInBlock Q b
  | .call t fn args => Q t fn args ∨ callInExpr Q fn ∨ callInExprs Q args
  | .funcDef _ ns m ps body => callInExprs Q ns ∨ callInOptExpr Q m ∨ callInExprs Q ps ∨ callInBlock Q body
  | .goto _ l => callInExpr Q l
  | .label _ n => callInExpr Q n
  | .iff _ c tr fl => callInExpr Q c ∨ callInBlock Q tr ∨ callInFalse Q fl
  | .iterFor _ ns es body => callInExprs Q ns ∨ callInExprs Q es ∨ callInBlock Q body
  | .localAssign _ _ es => callInOptExprs Q es
  | .localFunc _ n ps body => callInExpr Q n ∨ callInExprs Q ps ∨ callInBlock Q body
  | .method _ fn m args => callInExpr Q fn ∨ callInExpr Q m ∨ callInExprs Q args
  | .numFor _ v a b st body => callInExpr Q v ∨ callInExpr Q a ∨ callInExpr Q b ∨ callInOptExpr Q st ∨ callInBlock Q body
  | .repeat _ c body => callInExpr Q c ∨ callInBlock Q body
  | .whl _ c body => callInExpr Q c ∨ callInBlock Q body
  | _ => False
def callInStmts (Q : Token → Expr → List Expr → Prop) : List Stmt → Prop
  | [] => False
  | s :: rest => callInStmt Q s ∨ callInStmts Q rest
def callInFalse (Q : Token → Expr → List Expr → Prop) : IfFalse → Prop
  | .none => False
  | .block b => callInBlock Q b
  | .elif _ c tr fl => callInExpr Q c ∨ callInBlock Q tr ∨ callInFalse Q fl
def callInBlock (Q : Token → Expr → List Expr → Prop) : Block → Prop
  | .mk _ ss rs _ => callInStmts Q ss ∨ callInOptExprs Q rs
end

/-! ## 2. Offending calls and literal requires -/

/-- the call `.call t' fn args`, seen from a file in directory `dir`, is the uninlinable `require` call with token `t`
that the message `m` complains about -/
def Offends (fs : FS) (sp : List Path) (dir : Path) (m : String) (t : Token) (t' : Token) (fn : Expr)
    (args : List Expr) : Prop :=
  t' = t ∧ isRequireName fn = true ∧
    ((m = "Wrong require() arguments" ∧ isStrLit1 args = false) ∨
     (m = "Could not find dependency" ∧ ∃ tk name, args = [.string tk name] ∧ findFileInPath fs sp name dir = none))

/-- the call is `require(<string literal>)` and the lookup from `dir` finds `path` -/
def ReqTo (fs : FS) (sp : List Path) (dir : Path) (path : Path) (_t' : Token) (fn : Expr) (args : List Expr) : Prop :=
  isRequireName fn = true ∧ ∃ tk name, args = [.string tk name] ∧ findFileInPath fs sp name dir = some path

def offendsExpr (fs : FS) (sp : List Path) (dir : Path) (m : String) (t : Token) : Expr → Prop :=
  callInExpr (Offends fs sp dir m t)
def offendsExprs (fs : FS) (sp : List Path) (dir : Path) (m : String) (t : Token) : List Expr → Prop :=
  callInExprs (Offends fs sp dir m t)
def offendsOptExpr (fs : FS) (sp : List Path) (dir : Path) (m : String) (t : Token) : Option Expr → Prop :=
  callInOptExpr (Offends fs sp dir m t)
def offendsOptExprs (fs : FS) (sp : List Path) (dir : Path) (m : String) (t : Token) : Option (List Expr) → Prop :=
  callInOptExprs (Offends fs sp dir m t)
def offendsField (fs : FS) (sp : List Path) (dir : Path) (m : String) (t : Token) : Field → Prop :=
  callInField (Offends fs sp dir m t)
def offendsFields (fs : FS) (sp : List Path) (dir : Path) (m : String) (t : Token) : List Field → Prop :=
  callInFields (Offends fs sp dir m t)
def offendsStmt (fs : FS) (sp : List Path) (dir : Path) (m : String) (t : Token) : Stmt → Prop :=
  callInStmt (Offends fs sp dir m t)
def offendsStmts (fs : FS) (sp : List Path) (dir : Path) (m : String) (t : Token) : List Stmt → Prop :=
  callInStmts (Offends fs sp dir m t)
def offendsFalse (fs : FS) (sp : List Path) (dir : Path) (m : String) (t : Token) : IfFalse → Prop :=
  callInFalse (Offends fs sp dir m t)
def offendsBlock (fs : FS) (sp : List Path) (dir : Path) (m : String) (t : Token) : Block → Prop :=
  callInBlock (Offends fs sp dir m t)

/-- the block contains (statement or expression level) a literal `require` whose lookup from `dir` finds `path` -/
def requiresBlock (fs : FS) (sp : List Path) (dir : Path) (path : Path) : Block → Prop :=
  callInBlock (ReqTo fs sp dir path)

/-! ## 3. The files of the dependency tree -/

/-- what the resolver does to a parsed file before it walks it: `Chunk(ast.token, ast.statements, ast.returns)` -/
def asChunk : Block → Block
  | .mk tk ss rs _ => .mk tk ss rs true

/-- `Reach fs sp d b d' b'`: the block `b'` (of a file in directory `d'`) is reached from the block `b` (directory `d`)
along literal `require` calls -/
inductive Reach (fs : FS) (sp : List Path) : Path → Block → Path → Block → Prop
  | refl (d : Path) (b : Block) : Reach fs sp d b d b
  | head {d : Path} {b : Block} {path : Path} {text : List Char} {b1 : Block} {hs : List Hint} {d' : Path} {b' : Block} :
      requiresBlock fs sp d path b → fs.read path = some text → parseText text = .ok (b1, hs) →
      Reach fs sp (dirOf path) (asChunk b1) d' b' → Reach fs sp d b d' b'

/-- `InTree fs sp main dir b`: `b` is the (chunk of the) parse of a file of the dependency tree of `main`, and `dir` is
the directory of that file.  Deduplication is ignored (over-approximation). -/
inductive InTree (fs : FS) (sp : List Path) (main : Path) : Path → Block → Prop
  | main {text : List Char} {b : Block} {hs : List Hint} :
      fs.read main = some text → parseText text = .ok (b, hs) → InTree fs sp main (dirOf main) b
  | step {dir : Path} {b : Block} {path : Path} {text : List Char} {b1 : Block} {hs : List Hint} :
      InTree fs sp main dir b → requiresBlock fs sp dir path b → fs.read path = some text →
      parseText text = .ok (b1, hs) → InTree fs sp main (dirOf path) (asChunk b1)

theorem InTree.of_reach {fs : FS} {sp : List Path} {main : Path} {d : Path} {b : Block} {d' : Path} {b' : Block}
    (hr : Reach fs sp d b d' b') : InTree fs sp main d b → InTree fs sp main d' b' := by
  induction hr with
  | refl => exact id
  | head h1 h2 h3 _ ih => exact fun h => ih (InTree.step h h1 h2 h3)

/-- every block of the tree is the parse of a file of `fs` (as parsed for the main file, re-wrapped as a chunk for an
inlined file), and `dir` is the directory of that file -/
theorem InTree.is_file {fs : FS} {sp : List Path} {main : Path} {dir : Path} {b : Block} (h : InTree fs sp main dir b) :
    ∃ path text b0 hs, fs.read path = some text ∧ parseText text = .ok (b0, hs) ∧ dir = dirOf path ∧
      (b = b0 ∨ b = asChunk b0) := by
  cases h with
  | main hr hp => exact ⟨_, _, _, _, hr, hp, rfl, Or.inl rfl⟩
  | step _ _ hr hp => exact ⟨_, _, _, _, hr, hp, rfl, Or.inr rfl⟩

/-- what `offends*` says at a call node (expression level; the statement level reads the same) -/
theorem offendsExpr_call (fs : FS) (sp : List Path) (dir : Path) (m : String) (t t' : Token) (fn : Expr) (args : List Expr) :
    offendsExpr fs sp dir m t (.call t' fn args) ↔
      (t' = t ∧ isRequireName fn = true ∧
        ((m = "Wrong require() arguments" ∧ isStrLit1 args = false) ∨
         (m = "Could not find dependency" ∧ ∃ tk name, args = [.string tk name] ∧ findFileInPath fs sp name dir = none))) ∨
      offendsExpr fs sp dir m t fn ∨ offendsExprs fs sp dir m t args := by
  simp only [offendsExpr, offendsExprs, callInExpr, Offends]

theorem offendsStmt_call (fs : FS) (sp : List Path) (dir : Path) (m : String) (t t' : Token) (fn : Expr) (args : List Expr) :
    offendsStmt fs sp dir m t (.call t' fn args) ↔
      (t' = t ∧ isRequireName fn = true ∧
        ((m = "Wrong require() arguments" ∧ isStrLit1 args = false) ∨
         (m = "Could not find dependency" ∧ ∃ tk name, args = [.string tk name] ∧ findFileInPath fs sp name dir = none))) ∨
      offendsExpr fs sp dir m t fn ∨ offendsExprs fs sp dir m t args := by
  simp only [offendsStmt, offendsExpr, offendsExprs, callInStmt, Offends]

/-- an offending call is in particular a call of the bare name `require` -/
theorem Offends.isRequire {fs : FS} {sp : List Path} {dir : Path} {m : String} {t t' : Token} {fn : Expr} {args : List Expr}
    (h : Offends fs sp dir m t t' fn args) : t' = t ∧ isRequireName fn = true := ⟨h.1, h.2.1⟩

/-! ## 4. Splitting a disjunctive property -/

section split
variable {π : Type} {A : Token → Expr → List Expr → Prop} {B : π → Token → Expr → List Expr → Prop} {C : π → Prop}

local notation "AB" => fun (t : Token) (fn : Expr) (args : List Expr) => A t fn args ∨ ∃ p, B p t fn args ∧ C p

mutual
theorem callInExpr_split : ∀ e : Expr, callInExpr (AB) e → callInExpr A e ∨ ∃ p, callInExpr (B p) e ∧ C p
  | .nil _, h | .bool _ _, h | .vararg _, h | .number _ _, h | .string _ _, h | .name _ _, h => by
    simp [callInExpr] at h
  | .func _ ps body, h => by
    have h1 := callInExprs_split ps; have h2 := callInBlock_split body
    simp only [callInExpr] at h ⊢
    grind
  | .table _ fs, h => by
    have h1 := callInFields_split fs
    simp only [callInExpr] at h ⊢
    grind
  | .binop _ _ l r, h => by
    have h1 := callInExpr_split l; have h2 := callInExpr_split r
    simp only [callInExpr] at h ⊢
    grind
  | .unop _ _ x, h => by
    have h1 := callInExpr_split x
    simp only [callInExpr] at h ⊢
    grind
  | .index _ l k, h => by
    have h1 := callInExpr_split l; have h2 := callInExpr_split k
    simp only [callInExpr] at h ⊢
    grind
  | .namedIndex _ l n, h => by
    have h1 := callInExpr_split l; have h2 := callInExpr_split n
    simp only [callInExpr] at h ⊢
    grind
  | .call t fn args, h => by
    have h1 := callInExpr_split fn; have h2 := callInExprs_split args
    simp only [callInExpr] at h ⊢
    grind
  | .method _ fn m args, h => by
    have h1 := callInExpr_split fn; have h2 := callInExpr_split m; have h3 := callInExprs_split args
    simp only [callInExpr] at h ⊢
    grind
theorem callInExprs_split : ∀ es : List Expr, callInExprs (AB) es → callInExprs A es ∨ ∃ p, callInExprs (B p) es ∧ C p
  | [], h => by simp [callInExprs] at h
  | e :: es, h => by
    have h1 := callInExpr_split e; have h2 := callInExprs_split es
    simp only [callInExprs] at h ⊢
    grind
theorem callInOptExpr_split : ∀ o : Option Expr, callInOptExpr (AB) o → callInOptExpr A o ∨ ∃ p, callInOptExpr (B p) o ∧ C p
  | none, h => by simp [callInOptExpr] at h
  | some e, h => by
    have h1 := callInExpr_split e
    simp only [callInOptExpr] at h ⊢
    grind
theorem callInOptExprs_split : ∀ o : Option (List Expr),
    callInOptExprs (AB) o → callInOptExprs A o ∨ ∃ p, callInOptExprs (B p) o ∧ C p
  | none, h => by simp [callInOptExprs] at h
  | some es, h => by
    have h1 := callInExprs_split es
    simp only [callInOptExprs] at h ⊢
    grind
theorem callInField_split : ∀ fd : Field, callInField (AB) fd → callInField A fd ∨ ∃ p, callInField (B p) fd ∧ C p
  | .explicit _ k v, h => by
    have h1 := callInExpr_split k; have h2 := callInExpr_split v
    simp only [callInField] at h ⊢
    grind
  | .named _ n v, h => by
    have h1 := callInExpr_split n; have h2 := callInExpr_split v
    simp only [callInField] at h ⊢
    grind
  | .numbered _ v, h => by
    have h1 := callInExpr_split v
    simp only [callInField] at h ⊢
    grind
theorem callInFields_split : ∀ fds : List Field, callInFields (AB) fds → callInFields A fds ∨ ∃ p, callInFields (B p) fds ∧ C p
  | [], h => by simp [callInFields] at h
  | fd :: rest, h => by
    have h1 := callInField_split fd; have h2 := callInFields_split rest
    simp only [callInFields] at h ⊢
    grind
theorem callInStmt_split : ∀ s : Stmt, callInStmt (AB) s → callInStmt A s ∨ ∃ p, callInStmt (B p) s ∧ C p
  | .brk _, h | .semi _, h => by simp [callInStmt] at h
  | .assign _ ts es, h => by
    have h1 := callInExprs_split ts; have h2 := callInExprs_split es
    simp only [callInStmt] at h ⊢
    grind
  | .block b, h => by
    have h1 := callInBlock_split b
    simp only [callInStmt] at h ⊢
    grind
  | .call t fn args, h => by
    have h1 := callInExpr_split fn; have h2 := callInExprs_split args
    simp only [callInStmt] at h ⊢
    grind
  | .funcDef _ ns m ps body, h => by
    have h1 := callInExprs_split ns; have h2 := callInOptExpr_split m; have h3 := callInExprs_split ps
    have h4 := callInBlock_split body
    simp only [callInStmt] at h ⊢
    grind
  | .goto _ l, h => by
    have h1 := callInExpr_split l
    simp only [callInStmt] at h ⊢
    grind
  | .label _ n, h => by
    have h1 := callInExpr_split n
    simp only [callInStmt] at h ⊢
    grind
  | .iff _ c tr fl, h => by
    have h1 := callInExpr_split c; have h2 := callInBlock_split tr; have h3 := callInFalse_split fl
    simp only [callInStmt] at h ⊢
    grind
  | .iterFor _ ns es body, h => by
    have h1 := callInExprs_split ns; have h2 := callInExprs_split es; have h3 := callInBlock_split body
    simp only [callInStmt] at h ⊢
    grind
  | .localAssign _ _ es, h => by
    have h1 := callInOptExprs_split es
    simp only [callInStmt] at h ⊢
    grind
  | .localFunc _ n ps body, h => by
    have h1 := callInExpr_split n; have h2 := callInExprs_split ps; have h3 := callInBlock_split body
    simp only [callInStmt] at h ⊢
    grind
  | .method _ fn m args, h => by
    have h1 := callInExpr_split fn; have h2 := callInExpr_split m; have h3 := callInExprs_split args
    simp only [callInStmt] at h ⊢
    grind
  | .numFor _ v a b st body, h => by
    have h1 := callInExpr_split v; have h2 := callInExpr_split a; have h3 := callInExpr_split b
    have h4 := callInOptExpr_split st; have h5 := callInBlock_split body
    simp only [callInStmt] at h ⊢
    grind
  | .repeat _ c body, h => by
    have h1 := callInExpr_split c; have h2 := callInBlock_split body
    simp only [callInStmt] at h ⊢
    grind
  | .whl _ c body, h => by
    have h1 := callInExpr_split c; have h2 := callInBlock_split body
    simp only [callInStmt] at h ⊢
    grind
theorem callInStmts_split : ∀ ss : List Stmt, callInStmts (AB) ss → callInStmts A ss ∨ ∃ p, callInStmts (B p) ss ∧ C p
  | [], h => by simp [callInStmts] at h
  | s :: rest, h => by
    have h1 := callInStmt_split s; have h2 := callInStmts_split rest
    simp only [callInStmts] at h ⊢
    grind
theorem callInFalse_split : ∀ fl : IfFalse, callInFalse (AB) fl → callInFalse A fl ∨ ∃ p, callInFalse (B p) fl ∧ C p
  | .none, h => by simp [callInFalse] at h
  | .block b, h => by
    have h1 := callInBlock_split b
    simp only [callInFalse] at h ⊢
    grind
  | .elif _ c tr fl, h => by
    have h1 := callInExpr_split c; have h2 := callInBlock_split tr; have h3 := callInFalse_split fl
    simp only [callInFalse] at h ⊢
    grind
theorem callInBlock_split : ∀ b : Block, callInBlock (AB) b → callInBlock A b ∨ ∃ p, callInBlock (B p) b ∧ C p
  | .mk _ ss rs _, h => by
    have h1 := callInStmts_split ss; have h2 := callInOptExprs_split rs
    simp only [callInBlock] at h ⊢
    grind
end

end split

end Tumfl.Theory
