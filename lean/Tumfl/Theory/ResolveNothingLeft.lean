import Tumfl.Theory.ResolveSpec
import Tumfl.Theory.Resolve
import Tumfl.Theory.ResolveNothingLeftBase
import Tumfl.Theory.ResolveNothingLeftBad
/-!
# Dependency resolver: nothing is silently left behind (property C12)

`resolve_nothing_left`: in a successfully resolved tree NO call of the bare name `require` remains, whatever its
arguments (`mentionsRequireBlock b = false`): the calls with exactly one string literal were inlined (and the inlined
chunks were resolved recursively), all others raised `InvalidDependencyError("Wrong require() arguments")`.

`resolve_ok_no_bad_require`: if `resolveRecursive` succeeds then the parse of the MAIN file contains no call of the
bare name `require` whose argument list is not exactly one string literal (`badRequireBlock b0 = false`).

Positions: `mentionsRequire*` and `resolve*` descend into exactly the same positions.  The only expression-bearing
position that neither of them inspects is the list of attributed names of a `local` statement
(`Stmt.localAssign _ names _`, `AttName.mk nm att`): the walker does not visit it and `mentionsRequire*` /
`badRequire*` do not look at it (the parser only ever puts `Expr.name` nodes there).
-/
namespace Tumfl.Theory
open Tumfl.Model

/-! ## 1. No call of the bare name `require` remains -/

set_option hygiene false in
macro "nl_steps" : tactic => `(tactic|
  repeat (first
    | (refine Spec.bind (by nl_ih) ?_; intro _ _)
    | (apply Spec.pure; simp_all [mentionsRequireExpr, mentionsRequireExprs, mentionsRequireOptExpr,
        mentionsRequireOptExprs, mentionsRequireField, mentionsRequireFields, mentionsRequireStmt, mentionsRequireStmts,
        mentionsRequireFalse, mentionsRequireBlock, isRequireName])))

/-- the eight per-function lemmas: every successful run of a `resolve*` function (any fuel, any initial state) returns
a tree in which no call of the bare name `require` occurs -/
theorem resolve_nothing_left_spec (fs : FS) (sp : List Path) : ∀ f : Nat,
    (∀ dir e, Spec (resolveExpr fs sp f dir e)
        (fun e' => mentionsRequireExpr e' = false ∧ isRequireName e' = isRequireName e) NLAnyErr) ∧
    (∀ dir es, Spec (resolveExprs fs sp f dir es) (fun es' => mentionsRequireExprs es' = false) NLAnyErr) ∧
    (∀ dir fds, Spec (resolveFields fs sp f dir fds) (fun fds' => mentionsRequireFields fds' = false) NLAnyErr) ∧
    (∀ dir b, Spec (resolveBlock fs sp f dir b) (fun b' => mentionsRequireBlock b' = false) NLAnyErr) ∧
    (∀ dir ss, Spec (resolveStmts fs sp f dir ss) (fun ss' => mentionsRequireStmts ss' = false) NLAnyErr) ∧
    (∀ dir o, Spec (resolveOptExpr fs sp f dir o) (fun o' => mentionsRequireOptExpr o' = false) NLAnyErr) ∧
    (∀ dir s, Spec (resolveStmt fs sp f dir s) (fun s' => mentionsRequireStmt s' = false) NLAnyErr) ∧
    (∀ dir fl, Spec (resolveFalse fs sp f dir fl) (fun fl' => mentionsRequireFalse fl' = false) NLAnyErr) := by
  intro f
  induction f with
  | zero =>
    refine ⟨?_, ?_, ?_, ?_, ?_, ?_, ?_, ?_⟩ <;> intro dir x
    · rw [resolveExpr]; exact Spec.rfuel True.intro
    · rw [resolveExprs]; exact Spec.rfuel True.intro
    · rw [resolveFields]; exact Spec.rfuel True.intro
    · rw [resolveBlock]; exact Spec.rfuel True.intro
    · rw [resolveStmts]; exact Spec.rfuel True.intro
    · rw [resolveOptExpr]; exact Spec.rfuel True.intro
    · rw [resolveStmt]; exact Spec.rfuel True.intro
    · rw [resolveFalse]; exact Spec.rfuel True.intro
  | succ f ih =>
    obtain ⟨ihE, ihEs, ihFs, ihB, ihSs, ihO, ihS, ihF⟩ := ih
    refine ⟨?_, ?_, ?_, ?_, ?_, ?_, ?_, ?_⟩
    · intro dir e
      cases e <;> simp only [resolveExpr]
      all_goals try (nl_steps; done)
      rename_i t fn args
      cases hreq : isRequireName fn
      · simp only [Bool.false_eq_true, if_false]
        nl_steps
      · simp only [if_true]
        split
        · refine Spec.bind (Spec.trivial _) ?_
          intro p _
          cases p with
          | none => exact Spec.rthrow True.intro
          | some path =>
            simp only
            refine Spec.bind (Spec.trivial _) ?_
            intro ast _
            nl_steps
        · exact Spec.rthrow True.intro
    · intro dir es
      cases es <;> simp only [resolveExprs] <;> nl_steps
    · intro dir fds
      cases fds with
      | nil => simp only [resolveFields]; nl_steps
      | cons fd rest =>
        simp only [resolveFields]
        refine Spec.bind (P := fun fd' => mentionsRequireField fd' = false) ?_ ?_
        · cases fd <;> simp only <;> nl_steps
        · intro _ _; nl_steps
    · intro dir b
      obtain ⟨t, ss, rs, c⟩ := b
      simp only [resolveBlock]
      refine Spec.bind (by nl_ih) ?_
      intro _ _
      refine Spec.bind (P := fun rs' => mentionsRequireOptExprs rs' = false) ?_ ?_
      · cases rs <;> simp only <;> nl_steps
      · intro _ _; nl_steps
    · intro dir ss
      cases ss <;> simp only [resolveStmts] <;> nl_steps
    · intro dir o
      cases o <;> simp only [resolveOptExpr] <;> nl_steps
    · intro dir s
      cases s <;> simp only [resolveStmt]
      all_goals try (nl_steps; done)
      · rename_i t fn args
        cases hreq : isRequireName fn
        · simp only [Bool.false_eq_true, if_false]
          nl_steps
        · simp only [if_true]
          split
          · refine Spec.bind (Spec.trivial _) ?_
            intro p _
            cases p with
            | none => simp only; nl_steps
            | some path =>
              simp only
              refine Spec.bind (Spec.trivial _) ?_
              intro ast _
              nl_steps
          · exact Spec.rthrow True.intro
      · rename_i t ns es
        refine Spec.bind (P := fun rs' => mentionsRequireOptExprs rs' = false) ?_ ?_
        · cases es <;> simp only <;> nl_steps
        · intro _ _; nl_steps
    · intro dir fl
      cases fl <;> simp only [resolveFalse] <;> nl_steps

theorem resolveExpr_nothing_left {fs : FS} {sp : List Path} {f : Nat} {dir : Path} {e e' : Expr} {st st' : RSt}
    (h : resolveExpr fs sp f dir e st = .ok (e', st')) : mentionsRequireExpr e' = false :=
  (((resolve_nothing_left_spec fs sp f).1 dir e st).1 e' st' h).1
theorem resolveExprs_nothing_left {fs : FS} {sp : List Path} {f : Nat} {dir : Path} {es es' : List Expr} {st st' : RSt}
    (h : resolveExprs fs sp f dir es st = .ok (es', st')) : mentionsRequireExprs es' = false :=
  ((resolve_nothing_left_spec fs sp f).2.1 dir es st).1 es' st' h
theorem resolveFields_nothing_left {fs : FS} {sp : List Path} {f : Nat} {dir : Path} {fds fds' : List Field}
    {st st' : RSt} (h : resolveFields fs sp f dir fds st = .ok (fds', st')) : mentionsRequireFields fds' = false :=
  ((resolve_nothing_left_spec fs sp f).2.2.1 dir fds st).1 fds' st' h
theorem resolveBlock_nothing_left {fs : FS} {sp : List Path} {f : Nat} {dir : Path} {b b' : Block} {st st' : RSt}
    (h : resolveBlock fs sp f dir b st = .ok (b', st')) : mentionsRequireBlock b' = false :=
  ((resolve_nothing_left_spec fs sp f).2.2.2.1 dir b st).1 b' st' h
theorem resolveStmts_nothing_left {fs : FS} {sp : List Path} {f : Nat} {dir : Path} {ss ss' : List Stmt} {st st' : RSt}
    (h : resolveStmts fs sp f dir ss st = .ok (ss', st')) : mentionsRequireStmts ss' = false :=
  ((resolve_nothing_left_spec fs sp f).2.2.2.2.1 dir ss st).1 ss' st' h
theorem resolveOptExpr_nothing_left {fs : FS} {sp : List Path} {f : Nat} {dir : Path} {o o' : Option Expr}
    {st st' : RSt} (h : resolveOptExpr fs sp f dir o st = .ok (o', st')) : mentionsRequireOptExpr o' = false :=
  ((resolve_nothing_left_spec fs sp f).2.2.2.2.2.1 dir o st).1 o' st' h
theorem resolveStmt_nothing_left {fs : FS} {sp : List Path} {f : Nat} {dir : Path} {s s' : Stmt} {st st' : RSt}
    (h : resolveStmt fs sp f dir s st = .ok (s', st')) : mentionsRequireStmt s' = false :=
  ((resolve_nothing_left_spec fs sp f).2.2.2.2.2.2.1 dir s st).1 s' st' h
theorem resolveFalse_nothing_left {fs : FS} {sp : List Path} {f : Nat} {dir : Path} {fl fl' : IfFalse} {st st' : RSt}
    (h : resolveFalse fs sp f dir fl st = .ok (fl', st')) : mentionsRequireFalse fl' = false :=
  ((resolve_nothing_left_spec fs sp f).2.2.2.2.2.2.2 dir fl st).1 fl' st' h

/-- C12, "nothing is silently left behind": in a successfully resolved tree no call of the bare name `require`
remains at all, whatever its arguments -/
theorem resolve_nothing_left (fs : FS) (main : Path) (sp : List Path) (fuel : Nat) (b : Block)
    (h : resolveRecursive fs main sp fuel = .ok b) : mentionsRequireBlock b = false := by
  unfold resolveRecursive at h
  split at h
  · cases h
  · rename_i b' st' heq
    cases h
    obtain ⟨b0, s0, _, h2⟩ := rbind_ok heq
    exact resolveBlock_nothing_left h2

/-- non-vacuity: the end-to-end run of `Resolve.lean` (statement-level inlining, expression-level inlining,
deduplication, and a look-alike `t.require('m')` that stays) succeeds and mentions no bare `require` call -/
example : (match resolveRecursive e2eFS ["proj", "main.lua"] [] 20 with
    | .ok b => mentionsRequireBlock b | .error _ => true) = false := by decide +kernel
/-- the `require` calls of an inlined chunk are resolved too (`m` requires `n`, expression position) -/
example : (match resolveRecursive
      { files := [(["p", "main.lua"], "local x = require('m')".toList), (["p", "m.lua"], "return require('n')".toList),
                  (["p", "n.lua"], "return 1".toList)], dirs := [["p"]] } ["p", "main.lua"] [] 20 with
    | .ok b => mentionsRequireBlock b | .error _ => true) = false := by decide +kernel
/-- a malformed `require` inside an inlined chunk makes the whole run fail -/
example : (match resolveRecursive
      { files := [(["p", "main.lua"], "local x = require('m')".toList), (["p", "m.lua"], "return require(n)".toList)],
        dirs := [["p"]] } ["p", "main.lua"] [] 20 with
    | .error (.dependency "Wrong require() arguments" _) => true | _ => false) = true := by decide +kernel

/-! ## 2. The main file contains no malformed `require` call

`badRequire*` and `resolve_ok_input_spec` are in `ResolveNothingLeftBad.lean`. -/

theorem resolveBlock_ok_no_bad_require {fs : FS} {sp : List Path} {f : Nat} {dir : Path} {b b' : Block} {st st' : RSt}
    (h : resolveBlock fs sp f dir b st = .ok (b', st')) : badRequireBlock b = false :=
  ((resolve_ok_input_spec fs sp f).2.2.2.1 dir b st).1 b' st' h

/-- if resolution succeeds, every call of the bare name `require` that the walker reaches in the MAIN file has exactly
one string-literal argument -/
theorem resolve_ok_no_bad_require (fs : FS) (main : Path) (sp : List Path) (fuel : Nat) (b' : Block)
    (h : resolveRecursive fs main sp fuel = .ok b') :
    ∃ text b hs, fs.read main = some text ∧ parseText text = .ok (b, hs) ∧ badRequireBlock b = false := by
  unfold resolveRecursive at h
  split at h
  · cases h
  · rename_i b1 st' heq
    cases h
    obtain ⟨b0, s0, h1, h2⟩ := rbind_ok heq
    obtain ⟨rfl, text, hs, hr, hp⟩ := parseFile_ok h1
    exact ⟨text, b0, hs, hr, hp, resolveBlock_ok_no_bad_require h2⟩

end Tumfl.Theory

