import Tumfl.Theory.LexBridgeDefs
/-!
# LexBridge, strings part A: inversion of the model's string loop

`StrRead` proves the forward direction (a well-formed in-scope item list is read to its value).  Here is the converse
for the model: every *successful* run of `stringLoop` / `getString` (with `ignoreUnicode = false`) on a text without
carriage returns has read a well-formed, in-scope item list followed by the closing quote.
-/
namespace Tumfl.Theory
open Tumfl.Model

namespace StrA

/-! ## small helpers -/

theorem rest_of_cur {s : LexSt} {c : Char} (h : s.cur = some c) : ∃ r, s.rest = c :: r := by
  cases hr : s.rest with
  | nil => simp [LexSt.cur, hr] at h
  | cons d r =>
    simp only [LexSt.cur, hr, List.head?_cons, Option.some.injEq] at h
    exact ⟨r, by rw [h]⟩

theorem lb_lookup_mem (c v : Char) : ∀ (l : List (Char × Char)), l.lookup c = some v → (c, v) ∈ l
  | [], h => by simp [List.lookup] at h
  | (a, b) :: l, h => by
    rw [List.lookup_cons] at h
    cases hab : (c == a) with
    | true =>
      rw [hab] at h
      have hca : c = a := by simpa using hab
      have hbv : b = v := by simpa using h
      subst hca; subst hbv
      exact List.mem_cons_self
    | false =>
      rw [hab] at h
      exact List.mem_cons_of_mem _ (lb_lookup_mem c v l h)

theorem contains_mem {l : List Char} {c : Char} (h : l.contains c = true) : c ∈ l := by simpa using h
theorem not_contains_mem {l : List Char} {c : Char} (h : ¬ (l.contains c = true)) : c ∉ l := by simpa using h

/-- inversion of `skip_whitespace` -/
theorem skipWhitespace_inv : ∀ (f : Nat) (s : LexSt),
    ∃ ws, s.rest = ws ++ (skipWhitespace f s).rest ∧ (∀ w ∈ ws, w ∈ Gen.whitespace) ∧
      (s.rest.length < f → ∀ nx t, (skipWhitespace f s).rest = nx :: t → nx ∉ Gen.whitespace)
  | 0, s => ⟨[], by simp [skipWhitespace], by simp, by intro h; omega⟩
  | f + 1, s => by
    rw [skipWhitespace]
    cases hc : s.cur with
    | none =>
      simp only [inStr, Bool.false_eq_true, if_false]
      refine ⟨[], by simp, by simp, ?_⟩
      intro _ nx t hr
      simp [LexSt.cur, hr] at hc
    | some c =>
      obtain ⟨r, hr⟩ := rest_of_cur hc
      have e : inStr (some c) Gen.whitespace = Gen.whitespace.contains c := rfl
      rw [e]
      cases hw : Gen.whitespace.contains c with
      | true =>
        simp only [if_true]
        obtain ⟨ws, h1, h2, h3⟩ := skipWhitespace_inv f (advance s)
        rw [advance_rest_of hr] at h1 h3
        refine ⟨c :: ws, by rw [hr, List.cons_append, ← h1], ?_, ?_⟩
        · intro w hw'
          rcases List.mem_cons.1 hw' with rfl | hw'
          · exact contains_mem hw
          · exact h2 w hw'
        · intro hl
          exact h3 (by rw [hr] at hl; simp at hl; omega)
      | false =>
        simp only [Bool.false_eq_true, if_false]
        refine ⟨[], by simp, by simp, ?_⟩
        intro _ nx t hnx
        rw [hr] at hnx
        cases hnx
        exact not_contains_mem (by rw [hw]; exact Bool.false_ne_true)

/-- inversion of a `takeWhileIn` loop (no lower-casing) -/
theorem takeWhileIn_inv (set : List Char) : ∀ (f : Nat) (s : LexSt) (acc r : List Char) (s3 : LexSt),
    takeWhileIn set false f s acc = (r, s3) →
    ∃ ds, r = acc.reverse ++ ds ∧ s.rest = ds ++ s3.rest ∧ (∀ d ∈ ds, d ∈ set)
  | 0, s, acc, r, s3, h => by
    rw [takeWhileIn] at h
    cases h
    exact ⟨[], by simp, by simp, by simp⟩
  | f + 1, s, acc, r, s3, h => by
    rw [takeWhileIn] at h
    cases hc : s.cur with
    | none =>
      rw [hc] at h
      cases h
      exact ⟨[], by simp, by simp, by simp⟩
    | some c =>
      obtain ⟨t, ht⟩ := rest_of_cur hc
      rw [hc] at h
      dsimp only at h
      split at h
      · rename_i hw
        obtain ⟨ds, h1, h2, h3⟩ := takeWhileIn_inv set f _ _ _ _ h
        rw [advance_rest_of ht] at h2
        refine ⟨c :: ds, by simpa using h1, by rw [ht, h2, List.cons_append], ?_⟩
        intro d hd
        rcases List.mem_cons.1 hd with rfl | hd
        · exact contains_mem hw
        · exact h3 d hd
      · cases h
        exact ⟨[], by simp, by simp, by simp⟩

theorem safeDecode_ok {v : Nat} {s : LexSt} {r : List Char} (h : safeDecode false v s = .ok r) :
    v < 128 ∧ r = [Char.ofNat v] := by
  unfold safeDecode at h
  split at h
  · rename_i hv
    cases h
    exact ⟨hv, rfl⟩
  · simp [lexError] at h

theorem safeCodePoint_ok {v : Nat} {s : LexSt} {r : List Char} (h : safeCodePoint false v s = .ok r) :
    v ≤ 0x10FFFF ∧ ¬ (0xD800 ≤ v ∧ v ≤ 0xDFFF) ∧ r = [Char.ofNat v] := by
  unfold safeCodePoint at h
  split at h
  · simp [lexError] at h
  · rename_i h1
    split at h
    · cases h
    · rename_i h2
      cases h
      refine ⟨by omega, ?_, rfl⟩
      intro h3
      apply h2
      simp [h3.1, h3.2]

/-- what an escape sequence has read -/
def EscRead (q : Char) (s s1 : LexSt) (r : List Char) : Prop :=
  ∃ (i : StrItem) (e : List Char), i.spell = '\\' :: e ∧ s.rest = e ++ s1.rest ∧ r = i.value ∧ i.InScope ∧
    ∀ nx t, s1.rest = nx :: t → i.WF q nx

/-- the common end of the decimal escape, for each of the possible digit counts -/
theorem dec_leaf (q c : Char) (ds : List Char) (s s3 s1 : LexSt) (r : List Char) (line : Nat) (col : Int)
    (h : (if intOfDec (c :: ds) > 255 then (lexErrorAt "Invalid char with number" line col : Except PyErr (List Char × LexSt))
          else match safeDecode false (intOfDec (c :: ds)) s3 with
            | .error e => .error e
            | .ok r => .ok (r, s3)) = .ok (r, s1))
    (hrest : s.rest = (c :: ds) ++ s3.rest) (hlen : ds.length ≤ 2) (hdig : ∀ d ∈ c :: ds, d ∈ Gen.number)
    (hnext : ds.length < 2 → ∀ nx t, s3.rest = nx :: t → nx ∉ Gen.number) : EscRead q s s1 r := by
  split at h
  · simp [lexErrorAt] at h
  · rename_i hv
    cases hsd : safeDecode false (intOfDec (c :: ds)) s3 with
    | error e => rw [hsd] at h; cases h
    | ok r' =>
      rw [hsd] at h
      cases h
      obtain ⟨hlt, hr⟩ := safeDecode_ok hsd
      refine ⟨.dec (c :: ds), c :: ds, rfl, hrest, hr, hlt, ?_⟩
      intro nx t hnx
      show 1 ≤ (c :: ds).length ∧ (c :: ds).length ≤ 3 ∧ (∀ d ∈ c :: ds, d ∈ Gen.number) ∧ intOfDec (c :: ds) ≤ 255 ∧
        ((c :: ds).length < 3 → nx ∉ Gen.number)
      refine ⟨by simp, by simp; omega, hdig, by omega, ?_⟩
      intro hl
      exact hnext (by simp at hl; omega) nx t hnx

/-- inversion of one escape sequence -/
theorem escapeSeq_inv (q : Char) (s s1 : LexSt) (r : List Char) (h : escapeSeq false s = .ok (r, s1)) :
    EscRead q s s1 r := by
  unfold escapeSeq at h
  dsimp only at h
  split at h
  · cases h
  · rename_i c hc
    obtain ⟨t0, ht0⟩ := rest_of_cur hc
    have a1 := advance_rest_of ht0
    split at h
    · -- z
      rename_i hz
      have hz : c = 'z' := by simpa using hz
      subst hz
      cases h
      obtain ⟨ws, w1, w2, w3⟩ := skipWhitespace_inv ((advance s).rest.length + 1) (advance s)
      refine ⟨.z ws, 'z' :: ws, rfl, ?_, rfl, trivial, ?_⟩
      · rw [ht0, List.cons_append]
        exact congrArg _ (a1.symm.trans w1)
      · intro nx t hnx
        exact ⟨w2, w3 (by omega) nx t hnx⟩
    · split at h
      · -- x
        rename_i hz hx
        have hx : c = 'x' := by simpa using hx
        subst hx
        cases hc1 : (advance s).cur with
        | none => simp [hc1, lexErrorAt] at h
        | some d1 =>
          obtain ⟨t1, ht1⟩ := rest_of_cur hc1
          have a2 := advance_rest_of ht1
          rw [hc1] at h
          dsimp only at h
          cases hd1 : Gen.hexNumber.contains d1 with
          | false => rw [hd1] at h; simp [lexErrorAt] at h
          | true =>
            rw [hd1] at h
            simp only [Bool.not_true, Bool.false_eq_true, if_false] at h
            cases hc2 : (advance (advance s)).cur with
            | none => simp [hc2, lexErrorAt] at h
            | some d2 =>
              obtain ⟨t2, ht2⟩ := rest_of_cur hc2
              have a3 := advance_rest_of ht2
              rw [hc2] at h
              dsimp only at h
              cases hd2 : Gen.hexNumber.contains d2 with
              | false => rw [hd2] at h; simp [lexErrorAt] at h
              | true =>
                rw [hd2] at h
                simp only [Bool.not_true, Bool.false_eq_true, if_false] at h
                cases hsd : safeDecode false (intOfHex [d1, d2]) (advance (advance (advance s))) with
                | error e => rw [hsd] at h; cases h
                | ok r' =>
                  rw [hsd] at h
                  cases h
                  obtain ⟨hlt, hr⟩ := safeDecode_ok hsd
                  refine ⟨.hex d1 d2, ['x', d1, d2], rfl, ?_, hr, hlt, ?_⟩
                  · rw [ht0, ← a1, ht1, ← a2, ht2, ← a3]; rfl
                  · intro nx t _
                    exact ⟨contains_mem hd1, contains_mem hd2⟩
      · rename_i hz hx
        split at h
        · -- u
          rename_i hu
          have hu : c = 'u' := by simpa using hu
          subst hu
          split at h
          · simp [lexError] at h
          · rename_i hb
            have hc1 : (advance s).cur = some '{' := by simpa using hb
            obtain ⟨t1, ht1⟩ := rest_of_cur hc1
            have a2 := advance_rest_of ht1
            cases hp : takeWhileIn Gen.hexNumber false ((advance (advance s)).rest.length + 1) (advance (advance s)) [] with
            | mk cp s3 =>
              rw [hp] at h
              dsimp only at h
              obtain ⟨ds, k1, k2, k3⟩ := takeWhileIn_inv Gen.hexNumber _ _ _ _ _ hp
              simp only [List.reverse_nil, List.nil_append] at k1
              subst k1
              split at h
              · simp [lexError] at h
              · rename_i hne
                split at h
                · simp [lexError] at h
                · rename_i hcl
                  have hc3 : s3.cur = some '}' := by simpa using hcl
                  obtain ⟨t3, ht3⟩ := rest_of_cur hc3
                  have a4 := advance_rest_of ht3
                  split at h
                  · simp [lexError] at h
                  · rename_i hlt
                    cases hsd : safeCodePoint false (intOfHex cp) (advance s3) with
                    | error e => rw [hsd] at h; cases h
                    | ok r' =>
                      rw [hsd] at h
                      cases h
                      obtain ⟨g1, g2, hr⟩ := safeCodePoint_ok hsd
                      refine ⟨.uni cp, 'u' :: '{' :: (cp ++ ['}']), rfl, ?_, hr, ⟨g1, g2⟩, ?_⟩
                      · rw [ht0, ← a1, ht1, ← a2, k2, ht3, a4]; simp
                      · intro nx t _
                        refine ⟨?_, k3, by omega⟩
                        intro he
                        apply hne
                        simp [he]
        · rename_i hu
          split at h
          · -- decimal
            rename_i hn
            have hcm := contains_mem hn
            cases hc1 : (advance s).cur with
            | none =>
              simp only [hc1, List.append_nil] at h
              refine dec_leaf q c [] s (advance s) s1 r _ _ h (by rw [ht0, a1]; rfl) (by simp) (by simpa using hcm) ?_
              intro _ nx t hnx
              simp [LexSt.cur, hnx] at hc1
            | some d1 =>
              obtain ⟨t1, ht1⟩ := rest_of_cur hc1
              have a2 := advance_rest_of ht1
              cases hd1 : Gen.number.contains d1 with
              | false =>
                simp only [hc1, hd1, Bool.false_eq_true, if_false, List.append_nil] at h
                refine dec_leaf q c [] s (advance s) s1 r _ _ h (by rw [ht0, a1]; rfl) (by simp) (by simpa using hcm) ?_
                intro _ nx t hnx
                rw [ht1] at hnx
                cases hnx
                exact not_contains_mem (by rw [hd1]; exact Bool.false_ne_true)
              | true =>
                have hdm1 := contains_mem hd1
                simp only [hc1, hd1, if_true] at h
                cases hc2 : (advance (advance s)).cur with
                | none =>
                  simp only [hc2, List.append_nil] at h
                  refine dec_leaf q c [d1] s (advance (advance s)) s1 r _ _ h (by rw [ht0, ← a1, ht1, a2]; rfl) (by simp)
                    (by simp [hcm, hdm1]) ?_
                  intro _ nx t hnx
                  simp [LexSt.cur, hnx] at hc2
                | some d2 =>
                  obtain ⟨t2, ht2⟩ := rest_of_cur hc2
                  have a3 := advance_rest_of ht2
                  cases hd2 : Gen.number.contains d2 with
                  | false =>
                    simp only [hc2, hd2, Bool.false_eq_true, if_false, List.append_nil] at h
                    refine dec_leaf q c [d1] s (advance (advance s)) s1 r _ _ h (by rw [ht0, ← a1, ht1, a2]; rfl) (by simp)
                      (by simp [hcm, hdm1]) ?_
                    intro _ nx t hnx
                    rw [ht2] at hnx
                    cases hnx
                    exact not_contains_mem (by rw [hd2]; exact Bool.false_ne_true)
                  | true =>
                    have hdm2 := contains_mem hd2
                    simp only [hc2, hd2, if_true, List.cons_append, List.nil_append] at h
                    refine dec_leaf q c [d1, d2] s (advance (advance (advance s))) s1 r _ _ h
                      (by rw [ht0, ← a1, ht1, ← a2, ht2, a3]; rfl) (by simp) (by simp [hcm, hdm1, hdm2]) ?_
                    intro hl
                    simp at hl
          · -- simple
            rename_i hn
            cases hl : Gen.escapeCodes.lookup c with
            | none => rw [hl] at h; simp [lexErrorAt] at h
            | some v =>
              rw [hl] at h
              cases h
              refine ⟨.simple c v, [c], rfl, ?_, rfl, trivial, ?_⟩
              · rw [ht0, a1]; rfl
              · intro nx t _
                exact lb_lookup_mem c v _ hl

/-- the loop, for both values of the `escape` flag: with `escape = true` the backslash has just been consumed -/
theorem stringLoop_inv (q : Char) (hq : q = '"' ∨ q = '\'') :
    ∀ (f : Nat) (esc : Bool) (s : LexSt) (acc v : List Char) (s' : LexSt),
      stringLoop false q f esc s acc = .ok (v, s') → '\r' ∉ s.rest →
      ∃ items, WF q items ∧ InScope items ∧
        (if esc = true then '\\' :: s.rest else s.rest) = spellAll items ++ q :: s'.rest ∧
        v = acc.reverse ++ valueAll items
  | 0, esc, s, acc, v, s', h, _ => by rw [stringLoop] at h; cases h
  | f + 1, esc, s, acc, v, s', h, hcr => by
    rw [stringLoop] at h
    cases hc : s.cur with
    | none => rw [hc] at h; simp [lexError] at h
    | some c =>
      obtain ⟨t0, ht0⟩ := rest_of_cur hc
      have a1 := advance_rest_of ht0
      rw [hc] at h
      dsimp only at h
      cases esc with
      | true =>
        simp only [Bool.not_true, Bool.false_and, Bool.false_eq_true, if_false, if_true] at h
        cases he : escapeSeq false s with
        | error e => rw [he] at h; cases h
        | ok p =>
          obtain ⟨r, s1⟩ := p
          rw [he] at h
          dsimp only at h
          obtain ⟨i, e, e1, e2, e3, e4, e5⟩ := escapeSeq_inv q s s1 r he
          have hcr1 : '\r' ∉ s1.rest := by
            intro hm
            apply hcr
            rw [e2]
            exact List.mem_append_right _ hm
          obtain ⟨items, w1, w2, w3, w4⟩ := stringLoop_inv q hq f false s1 _ v s' h hcr1
          simp only [Bool.false_eq_true, if_false] at w3
          obtain ⟨t, ht⟩ := head_spellAll_append q items s'.rest
          refine ⟨i :: items, ⟨e5 _ t (w3.trans ht), w1⟩, ?_, ?_, ?_⟩
          · intro j hj
            rcases List.mem_cons.1 hj with rfl | hj
            · exact e4
            · exact w2 j hj
          · simp only [if_true, spellAll_cons, e1, e2, w3, List.cons_append, List.append_assoc]
          · rw [w4, e3]
            simp
      | false =>
        simp only [Bool.not_false, Bool.true_and, Bool.false_eq_true, if_false] at h
        by_cases hcq : c = q
        · subst hcq
          simp only [beq_self_eq_true, if_true] at h
          cases h
          refine ⟨[], ?_, ?_, ?_, ?_⟩
          · exact True.intro
          · intro j hj
            cases hj
          · simp [ht0, a1]
          · simp
        · have hcq' : (c == q) = false := by simpa using hcq
          rw [hcq'] at h
          simp only [Bool.false_eq_true, if_false] at h
          by_cases hb : c = '\\'
          · subst hb
            simp only [beq_self_eq_true, if_true] at h
            have hcr1 : '\r' ∉ (advance s).rest := by
              intro hm
              apply hcr
              rw [ht0, ← a1]
              exact List.mem_cons_of_mem _ hm
            obtain ⟨items, w1, w2, w3, w4⟩ := stringLoop_inv q hq f true (advance s) acc v s' h hcr1
            simp only [if_true] at w3
            refine ⟨items, w1, w2, ?_, w4⟩
            simp only [Bool.false_eq_true, if_false]
            rw [ht0, ← a1]
            exact w3
          · have hb' : (c == '\\') = false := by simpa using hb
            rw [hb'] at h
            simp only [Bool.false_eq_true, if_false] at h
            by_cases hn : c = '\n'
            · subst hn
              simp [lexError] at h
            · have hn' : (c == '\n') = false := by simpa using hn
              rw [hn'] at h
              simp only [Bool.false_eq_true, if_false] at h
              have hcr1 : '\r' ∉ (advance s).rest := by
                intro hm
                apply hcr
                rw [ht0, ← a1]
                exact List.mem_cons_of_mem _ hm
              have hr : c ≠ '\r' := by
                intro hr
                apply hcr
                rw [ht0, hr]
                exact List.mem_cons_self
              obtain ⟨items, w1, w2, w3, w4⟩ := stringLoop_inv q hq f false (advance s) (c :: acc) v s' h hcr1
              simp only [Bool.false_eq_true, if_false] at w3
              refine ⟨.plain c :: items, ⟨⟨hcq, hb, hn, hr⟩, w1⟩, ?_, ?_, ?_⟩
              · intro j hj
                rcases List.mem_cons.1 hj with rfl | hj
                · trivial
                · exact w2 j hj
              · simp only [Bool.false_eq_true, if_false, spellAll_cons, StrItem.spell, List.cons_append, List.nil_append]
                rw [ht0, ← a1, w3]
              · rw [w4]
                simp [StrItem.value]

end StrA

/-- inversion of the model's string loop: a successful run has read a well-formed, in-scope item list followed by the
closing quote -/
theorem stringLoop_items (q : Char) (hq : q = '"' ∨ q = '\'') :
    ∀ (f : Nat) (s : LexSt) (acc v : List Char) (s' : LexSt),
      stringLoop false q f false s acc = .ok (v, s') → '\r' ∉ s.rest →
      ∃ items, WF q items ∧ InScope items ∧ s.rest = spellAll items ++ q :: s'.rest ∧ v = acc.reverse ++ valueAll items := by
  intro f s acc v s' h hcr
  obtain ⟨items, w1, w2, w3, w4⟩ := StrA.stringLoop_inv q hq f false s acc v s' h hcr
  exact ⟨items, w1, w2, by simpa using w3, w4⟩

theorem getString_items (s : LexSt) (q : Char) (cs : List Char) (hq : q = '"' ∨ q = '\'') (hs : s.rest = q :: cs)
    (hcr : '\r' ∉ cs) (v : List Char) (s' : LexSt) (h : getString false s = .ok (v, s')) :
    ∃ items, WF q items ∧ InScope items ∧ cs = spellAll items ++ q :: s'.rest ∧ v = valueAll items := by
  have a1 := advance_rest_of hs
  have hq' : (q == '\'' || q == '"') = true := by rcases hq with rfl | rfl <;> decide
  unfold getString at h
  simp only [cur_of hs, hq', if_true] at h
  obtain ⟨items, w1, w2, w3, w4⟩ := stringLoop_items q hq _ (advance s) [] v s' h (by rw [a1]; exact hcr)
  exact ⟨items, w1, w2, by rw [← a1]; exact w3, by simpa using w4⟩

end Tumfl.Theory
