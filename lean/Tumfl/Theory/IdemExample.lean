import Tumfl.Theory.Idem
/-!
# C15: non-vacuity

Two sources for which all hypotheses of `minify_idempotent` hold (checked by kernel evaluation), with the minified text, and the
instantiated conclusion.  The first one exercises the situations the proof has to deal with: a block that begins with an
empty statement in front of a statement printed with `(` first (the `;` guard is printed, and is read back as an empty
statement), separators the minifier keeps as `;` (`do;x=1`), a numeral with an explicit `+` in its exponent (its spelling is
not visible in the reference tokens), parentheses that the parser erases, a function expression with a body.
-/
namespace Tumfl.Theory
open Tumfl Tumfl.Model

def exSrc1 : List Char :=
  "do ; (\"x\"):f() end do x = 1e+5 end local g = function() ; ({}).y = 0x.8p1 return (g) end ; (g)()".toList

def exOut1 : List Char :=
  "--tumfl\ndo;(\"x\"):f()end;do;x=1e+5;end;local g=function();({}).y=0x1.8p1;return g;end;g()".toList

def roundTrip (src : List Char) : Option (List Char) :=
  match parseText src with
  | .ok (b, _) => (formatI Inst.minifiedStyle b).toOption
  | .error _ => none

theorem roundTrip_ok {src out : List Char} (h : roundTrip src = some out) :
    ∃ b hs, parseText src = .ok (b, hs) ∧ formatI Inst.minifiedStyle b = .ok out := by
  unfold roundTrip at h
  split at h
  · rename_i b hs hp
    refine ⟨b, hs, hp, ?_⟩
    cases hf : formatI Inst.minifiedStyle b with
    | error e => rw [hf] at h; cases h
    | ok t => rw [hf] at h; simp only [Except.toOption, Option.some.injEq] at h; rw [h]
  · cases h

theorem exSrc1_min : roundTrip exSrc1 = some exOut1 := by decide +kernel

/-- the minified text is a fixed point -/
theorem exOut1_min : roundTrip exOut1 = some exOut1 := by decide +kernel

/-- `minify_idempotent` applied: the kernel evaluation `exOut1_min` is an instance of the theorem -/
example : ∃ b' hs', parseText exOut1 = .ok (b', hs') ∧ formatI Inst.minifiedStyle b' = .ok exOut1 := by
  obtain ⟨b, hs, hp, hf⟩ := roundTrip_ok exSrc1_min
  exact minify_idempotent exSrc1 exOut1 b hs (by unfold NoCR; decide) hp hf

end Tumfl.Theory
