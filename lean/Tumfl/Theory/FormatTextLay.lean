import Tumfl.Theory.FormatTextDefs
import Tumfl.Theory.LayoutKeeps
/-!
# The alignment relation `Lay` between the pieces before `indent_brackets` and the pieces after `add_spacing`
-/
namespace Tumfl.Theory
open Tumfl Tumfl.Model

/-- `b` is `a` with Newline separators inserted anywhere -/
inductive InsNl : Pieces → Pieces → Prop
  | nil : InsNl [] []
  | keep (p : Piece) {a b : Pieces} : InsNl a b → InsNl (p :: a) (p :: b)
  | ins {a b : Pieces} : InsNl a b → InsNl a (.sep .newline :: b)

/-- `G` is the non-empty list `ps` with Newline separators inserted between its elements -/
inductive InsIn : Pieces → Pieces → Prop
  | one (p : Piece) : InsIn [p] [p]
  | step (p : Piece) (n : Nat) {q : Piece} {r G : Pieces} : InsIn (q :: r) G →
      InsIn (p :: q :: r) (p :: (List.replicate n (.sep .newline) ++ G))

theorem InsIn.refl : ∀ (ps : Pieces), ps ≠ [] → InsIn ps ps
  | [], h => absurd rfl h
  | [p], _ => .one p
  | p :: q :: r, _ => .step p 0 (InsIn.refl (q :: r) (by simp))

theorem InsNl.refl : ∀ (ps : Pieces), InsNl ps ps
  | [] => .nil
  | p :: r => .keep p (InsNl.refl r)

/-- the next piece exists and is not a Statement separator -/
def HeadNotStmt (b : Pieces) : Prop := ∃ p r, b = p :: r ∧ p ≠ .sep .statement

def isOpenCh (o : Char) : Prop := o = '(' ∨ o = '[' ∨ o = '{'

/-- a separator the layout passes insert -/
def LaySep (x : Piece) : Prop := x = .sep .newline ∨ x = .sep .indent ∨ x = .sep .deindent

/-- `Lay sty tc pv a b`: `b` is `a` with Newline separators inserted anywhere, Indent / DeIndent inserted in front of pieces
that are not Statement separators, (when `tc`) an Argument separator and some inserted separators in front of a `}` that does
not directly follow a `{` (`pv` is the piece in front of `a`), an Argument separator directly after an opening bracket dropped,
and quoted literals replaced by their wrapping (with Newlines inserted between its parts) -/
inductive Lay (sty : Style) (tc : Bool) : Option Piece → Pieces → Pieces → Prop
  | nil {pv : Option Piece} : Lay sty tc pv [] []
  | keep {pv : Option Piece} (p : Piece) {a b : Pieces} : Lay sty tc (some p) a b → Lay sty tc pv (p :: a) (p :: b)
  | insNl {pv : Option Piece} {a b : Pieces} : Lay sty tc pv a b → Lay sty tc pv a (.sep .newline :: b)
  | insInd {pv : Option Piece} (k : Sep) {a b : Pieces} : (k = .indent ∨ k = .deindent) → HeadNotStmt b →
      Lay sty tc pv a b → Lay sty tc pv a (.sep k :: b)
  | comma {pv : Option Piece} (W : Pieces) {a b : Pieces} : tc = true → pv ≠ some (.str ['{']) → (∀ x ∈ W, LaySep x) →
      Lay sty tc (some (.str ['}'])) a b →
      Lay sty tc pv (.str ['}'] :: a) (.sep .argument :: (W ++ .str ['}'] :: b))
  | dropArg {pv : Option Piece} (o : Char) {a b : Pieces} : isOpenCh o → Lay sty tc (some (.sep .argument)) a b →
      Lay sty tc pv (.str [o] :: .sep .argument :: a) (.str [o] :: b)
  | wrap {pv : Option Piece} (q : List Char) (ind : Int) (ps G : Pieces) {a b : Pieces} : stringIdent q ind sty = .ok ps →
      InsIn ps G → Lay sty tc (some (.str q)) a b → Lay sty tc pv (.str q :: a) (G ++ b)

theorem Lay.refl (sty : Style) (tc : Bool) : ∀ (pv : Option Piece) (ps : Pieces), Lay sty tc pv ps ps
  | _, [] => .nil
  | _, p :: r => .keep p (Lay.refl sty tc _ r)

theorem HeadNotStmt.append {b : Pieces} (h : HeadNotStmt b) (d : Pieces) : HeadNotStmt (b ++ d) := by
  obtain ⟨p, r, rfl, hp⟩ := h
  exact ⟨p, r ++ d, rfl, hp⟩

/-- the piece in front of what follows `a` -/
def lastP (pv : Option Piece) : Pieces → Option Piece
  | [] => pv
  | x :: a => lastP (some x) a

theorem lastP_snoc : ∀ (pv : Option Piece) (a : Pieces) (x : Piece), lastP pv (a ++ [x]) = some x
  | _, [], _ => rfl
  | _, y :: a, x => lastP_snoc (some y) a x

theorem lastP_append : ∀ (pv : Option Piece) (a b : Pieces), lastP pv (a ++ b) = lastP (lastP pv a) b
  | _, [], _ => rfl
  | _, y :: a, b => lastP_append (some y) a b

theorem Lay.append {sty : Style} {tc : Bool} {pv : Option Piece} {a b c d : Pieces} (h1 : Lay sty tc pv a b)
    (h2 : Lay sty tc (lastP pv a) c d) : Lay sty tc pv (a ++ c) (b ++ d) := by
  induction h1 with
  | nil => exact h2
  | keep p _ ih => exact .keep p (ih h2)
  | insNl _ ih => exact .insNl (ih h2)
  | insInd k hk hh _ ih => exact .insInd k hk (hh.append d) (ih h2)
  | comma W ht hp hw _ ih =>
    have := Lay.comma (sty := sty) W ht hp hw (ih h2)
    simpa using this
  | dropArg o ho _ ih => exact .dropArg o ho (ih h2)
  | wrap q ind ps G hs hg _ ih => rw [List.cons_append, List.append_assoc]; exact .wrap q ind ps G hs hg (ih h2)

theorem Lay.appendA {sty : Style} {tc : Bool} {pv : Option Piece} {a b c d : Pieces} (h1 : Lay sty tc pv a b)
    (h2 : ∀ q, Lay sty tc q c d) : Lay sty tc pv (a ++ c) (b ++ d) := h1.append (h2 _)

/-! ## closure under later insertion of Newlines -/

theorem InsNl.cons_inv {p : Piece} {a c : Pieces} (h : InsNl (p :: a) c) :
    ∃ n c', c = List.replicate n (.sep .newline) ++ p :: c' ∧ InsNl a c' := by
  generalize hx : p :: a = x at h
  induction h with
  | nil => cases hx
  | keep p' hab _ => cases hx; exact ⟨0, _, rfl, hab⟩
  | ins _ ih =>
    obtain ⟨n, c', rfl, hc⟩ := ih hx
    exact ⟨n + 1, c', by simp [List.replicate_succ], hc⟩

theorem InsNl.nil_inv {c : Pieces} (h : InsNl [] c) : ∃ n, c = List.replicate n (.sep .newline) := by
  generalize hx : ([] : Pieces) = x at h
  induction h with
  | nil => exact ⟨0, rfl⟩
  | keep p' _ _ => cases hx
  | ins _ ih =>
    obtain ⟨n, rfl⟩ := ih hx
    exact ⟨n + 1, by simp [List.replicate_succ]⟩

theorem Lay.nls {sty : Style} {tc : Bool} {pv : Option Piece} {a b : Pieces} (h : Lay sty tc pv a b) :
    ∀ n, Lay sty tc pv a (List.replicate n (.sep .newline) ++ b)
  | 0 => h
  | n + 1 => by rw [List.replicate_succ, List.cons_append]; exact .insNl (Lay.nls h n)

theorem headNotStmt_insNl {b c : Pieces} (hb : HeadNotStmt b) (h : InsNl b c) : HeadNotStmt c := by
  obtain ⟨p, r, rfl, hp⟩ := hb
  obtain ⟨n, c', rfl, _⟩ := h.cons_inv
  cases n with
  | zero => exact ⟨p, c', rfl, hp⟩
  | succ n => exact ⟨.sep .newline, List.replicate n (.sep .newline) ++ p :: c', by simp [List.replicate_succ], by simp⟩

theorem insNl_strip : ∀ (n : Nat) {X c : Pieces}, InsNl (List.replicate n (.sep .newline) ++ X) c →
    ∃ m c', c = List.replicate m (.sep .newline) ++ c' ∧ InsNl X c'
  | 0, X, c, h => ⟨0, c, rfl, by simpa using h⟩
  | n + 1, X, c, h => by
    rw [List.replicate_succ, List.cons_append] at h
    obtain ⟨k, c', rfl, hc⟩ := h.cons_inv
    obtain ⟨m, c'', rfl, hx⟩ := insNl_strip n hc
    refine ⟨k + 1 + m, c'', ?_, hx⟩
    rw [← List.replicate_append_replicate, ← List.replicate_append_replicate]
    simp

/-- splitting an insertion into a group followed by the rest -/
theorem insIn_split {ps G : Pieces} (hg : InsIn ps G) : ∀ {b c : Pieces}, InsNl (G ++ b) c →
    ∃ n G' c', c = List.replicate n (.sep .newline) ++ (G' ++ c') ∧ InsIn ps G' ∧ InsNl b c' := by
  induction hg with
  | one p =>
    intro b c h
    obtain ⟨n, c', rfl, hc⟩ := h.cons_inv
    exact ⟨n, [p], c', rfl, .one p, hc⟩
  | @step p k q r G _ ih =>
    intro b c h
    have h' : InsNl (p :: (List.replicate k (.sep .newline) ++ (G ++ b))) c := by simpa using h
    obtain ⟨n, c', rfl, hc⟩ := h'.cons_inv
    obtain ⟨m, c'', rfl, hx⟩ := insNl_strip k hc
    obtain ⟨m2, G', c3, rfl, hg', hb⟩ := ih hx
    refine ⟨n, p :: (List.replicate (m + m2) (.sep .newline) ++ G'), c3, ?_, .step p (m + m2) hg', hb⟩
    rw [← List.replicate_append_replicate]
    simp only [List.cons_append, List.append_assoc]

theorem laySep_nl : LaySep (.sep .newline) := .inl rfl

theorem insNl_W : ∀ (W : Pieces), (∀ x ∈ W, LaySep x) → ∀ {p : Piece} {b c : Pieces}, InsNl (W ++ p :: b) c →
    ∃ W' c', c = W' ++ p :: c' ∧ (∀ x ∈ W', LaySep x) ∧ InsNl b c'
  | [], _, p, b, c, h => by
    obtain ⟨n, c', rfl, hc⟩ := InsNl.cons_inv (by simpa using h)
    exact ⟨List.replicate n (.sep .newline), c', rfl, fun x hx => by rw [List.eq_of_mem_replicate hx]; exact laySep_nl, hc⟩
  | w :: W, hW, p, b, c, h => by
    obtain ⟨n, c1, rfl, hc1⟩ := InsNl.cons_inv (by simpa using h)
    obtain ⟨W', c', rfl, hW', hc'⟩ := insNl_W W (fun x hx => hW x (by simp [hx])) hc1
    refine ⟨List.replicate n (.sep .newline) ++ w :: W', c', by simp, fun x hx => ?_, hc'⟩
    rcases List.mem_append.mp hx with hx | hx
    · rw [List.eq_of_mem_replicate hx]; exact laySep_nl
    · rcases List.mem_cons.mp hx with rfl | hx
      · exact hW _ (by simp)
      · exact hW' x hx

theorem Lay.mono {sty : Style} {pv : Option Piece} {a b : Pieces} (h : Lay sty false pv a b) : Lay sty true pv a b := by
  induction h with
  | nil => exact .nil
  | keep p _ ih => exact .keep p ih
  | insNl _ ih => exact .insNl ih
  | insInd k hk hh _ ih => exact .insInd k hk hh ih
  | comma W ht _ _ _ _ => cases ht
  | dropArg o ho _ ih => exact .dropArg o ho ih
  | wrap q ind ps G hs hg _ ih => exact .wrap q ind ps G hs hg ih

/-- `Lay` is closed under inserting Newline separators into the output -/
theorem Lay.insNls {sty : Style} {tc : Bool} {pv : Option Piece} {a b : Pieces} (h : Lay sty tc pv a b) :
    ∀ {c : Pieces}, InsNl b c → Lay sty tc pv a c := by
  induction h with
  | @nil pv =>
    intro c hc
    obtain ⟨n, rfl⟩ := hc.nil_inv
    have := Lay.nls (Lay.nil (sty := sty) (tc := tc) (pv := pv)) n
    simpa using this
  | keep p _ ih =>
    intro c hc
    obtain ⟨n, c', rfl, hc'⟩ := hc.cons_inv
    exact Lay.nls (.keep p (ih hc')) n
  | insNl _ ih =>
    intro c hc
    obtain ⟨n, c', rfl, hc'⟩ := hc.cons_inv
    exact Lay.nls (.insNl (ih hc')) n
  | insInd k hk hh _ ih =>
    intro c hc
    obtain ⟨n, c', rfl, hc'⟩ := hc.cons_inv
    exact Lay.nls (.insInd k hk (headNotStmt_insNl hh hc') (ih hc')) n
  | comma W ht hp hw _ ih =>
    intro c hc
    obtain ⟨n, c1, rfl, hc1⟩ := hc.cons_inv
    obtain ⟨W', c', rfl, hW', hc'⟩ := insNl_W W hw hc1
    exact Lay.nls (.comma W' ht hp hW' (ih hc')) n
  | dropArg o ho _ ih =>
    intro c hc
    obtain ⟨n, c', rfl, hc'⟩ := hc.cons_inv
    exact Lay.nls (.dropArg o ho (ih hc')) n
  | wrap q ind ps G hs hg _ ih =>
    intro c hc
    obtain ⟨n, G', c', rfl, hg', hb⟩ := insIn_split hg hc
    exact Lay.nls (.wrap q ind ps G' hs hg' (ih hb)) n

end Tumfl.Theory
