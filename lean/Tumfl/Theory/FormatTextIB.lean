import Tumfl.Theory.FormatTextLay
/-!
# Stage B2: `indent_brackets` is described by `Lay`
-/
namespace Tumfl.Theory
open Tumfl Tumfl.Model

/-- the pieces the collecting loop has put together so far: the current component, then every finished component
with the Argument separator in front of it -/
def rep (cur : Pieces) (comps : List Pieces) : Pieces := cur ++ comps.flatMap (fun c => S .argument :: c)

theorem rep_append (out cur : Pieces) (comps : List Pieces) : rep (out ++ cur) comps = out ++ rep cur comps := by
  simp [rep]

theorem rep_arg (cur : Pieces) (comps : List Pieces) : rep [] (cur :: comps) = S .argument :: rep cur comps := by
  simp [rep]

theorem joinSep_rep : ∀ (c : Pieces) (cs : List Pieces), joinSep .argument (c :: cs) = rep c cs
  | c, [] => by simp [joinSep, rep]
  | c, d :: ds => by
    rw [joinSep, joinSep_rep d ds]
    · simp [rep]
    · simp

theorem closingOf_open {s : List Char} {o : Char} (h : closingOf s = some o) : isOpenCh o := by
  unfold closingOf at h
  split at h
  · rename_i x
    simp only [Gen.matchingBrackets, List.lookup] at h
    split at h
    · cases h; exact Or.inr (Or.inr (by decide))
    · split at h
      · cases h; exact Or.inr (Or.inl (by decide))
      · split at h
        · cases h; exact Or.inl (by decide)
        · cases h
  · cases h

/-! ## the shapes of the reflowed body -/

def withArg (cs : List Pieces) : Pieces := cs.flatMap fun c => c ++ [S .argument]
def withArgNl (cs : List Pieces) : Pieces := cs.flatMap fun c => c ++ [S .argument, S .newline]

theorem insNl_withArg : ∀ cs : List Pieces, InsNl (withArg cs) (withArgNl cs)
  | [] => .nil
  | c :: cs => by
    simp only [withArg, withArgNl, List.flatMap_cons, List.append_assoc]
    have ih := insNl_withArg cs
    have hc : ∀ (c : Pieces) {x y : Pieces}, InsNl x y → InsNl (c ++ x) (c ++ y) := by
      intro c
      induction c with
      | nil => intro x y h; exact h
      | cons p c ihc => intro x y h; exact .keep p (ihc h)
    exact hc c (.keep _ (.ins ih))

theorem joinSep_concat (init : List Pieces) (cn : Pieces) : joinSep .argument (init ++ [cn]) = withArg init ++ cn := by
  induction init with
  | nil => simp [joinSep, withArg]
  | cons c cs ih =>
    cases hcs : cs ++ [cn] with
    | nil => simp at hcs
    | cons d ds =>
      rw [List.cons_append, hcs, joinSep, ← hcs, ih]
      · simp [withArg]
      · simp

theorem insNl_append {a b c d : Pieces} (h1 : InsNl a b) (h2 : InsNl c d) : InsNl (a ++ c) (b ++ d) := by
  induction h1 with
  | nil => exact h2
  | keep p _ ih => exact .keep p ih
  | ins _ ih => exact .ins ih

/-! ## the mutually recursive `__inner_indent` / collecting loop -/

/-- `a` is aligned with `b` whatever piece is in front -/
def LayA (sty : Style) (a b : Pieces) : Prop := ∀ pv, Lay sty true pv a b

theorem LayA.append {sty : Style} {a b c d : Pieces} (h1 : LayA sty a b) (h2 : LayA sty c d) : LayA sty (a ++ c) (b ++ d) :=
  fun pv => (h1 pv).appendA h2

theorem LayA.refl (sty : Style) (a : Pieces) : LayA sty a a := fun pv => Lay.refl sty true pv a

/-- what a run of the collecting loop delivers -/
def CRes (sty : Style) (openCh : Char) (stream rest' : Pieces) (comps : List Pieces) (cur : Pieces)
    (components : List Pieces) : Prop :=
  ∃ (pre mid curF : Pieces) (compsF : List Pieces), stream = pre ++ .str [openCh] :: rest' ∧ LayA sty pre.reverse mid ∧
    components = (if curF.isEmpty then compsF else curF :: compsF) ∧
    rep curF compsF = mid ++ rep cur comps ∧
    (curF = [] → compsF ≠ [] → (pre = [] ∧ mid = [] ∧ cur = [] ∧ comps = compsF) ∨
      ∃ a' mid', pre.reverse = .sep .argument :: a' ∧ mid = .sep .argument :: mid' ∧ LayA sty a' mid') ∧
    (∀ x, pre.head? = some x → x ≠ .str [openCh]) ∧
    (pre = [] → curF = cur ∧ compsF = comps)

def LCollect (sty : Style) (f : Nat) : Prop :=
  ∀ (openCh : Char) (ind : Int) (stream : Pieces) (comps : List Pieces) (cur : Pieces)
    (components : List Pieces) (rest' : Pieces),
    innerCollect sty f openCh ind stream comps cur = .ok (components, rest') →
    CRes sty openCh stream rest' comps cur components

def LIndent (sty : Style) (f : Nat) : Prop :=
  ∀ (closeTok : List Char) (openCh : Char) (ind : Int) (rest content rest' : Pieces),
    closingOf closeTok = some openCh →
    innerCollect.innerIndent sty f closeTok openCh ind rest = .ok (content, rest') →
    ∃ pre, rest = pre ++ .str [openCh] :: rest' ∧ content ≠ [] ∧
      LayA sty (.str [openCh] :: pre.reverse ++ [.str closeTok]) content

theorem ib_indentSpec_zero (sty : Style) : LIndent sty 0 := by
  intro closeTok openCh ind rest content rest' _ h
  rw [innerCollect.innerIndent] at h; cases h

theorem ib_collectSpec_zero (sty : Style) : LCollect sty 0 := by
  intro openCh ind stream comps cur components rest' h
  rw [innerCollect] at h; cases h

/-- the closing part of a reflowed bracket -/
theorem lay_close (sty : Style) (closeTok : List Char) :
    LayA sty [.str closeTok] [S .newline, S .deindent, .str closeTok] :=
  fun _ => .insNl (.insInd .deindent (.inr rfl) ⟨_, _, rfl, by simp⟩ (.keep _ .nil))

theorem lay_close_comma (sty : Style) {pv : Option Piece} (hpv : pv ≠ some (.str ['{'])) :
    Lay sty true pv [.str ['}']] [S .argument, S .newline, S .deindent, .str ['}']] :=
  .comma [.sep .newline, .sep .deindent] rfl hpv (fun x hx => by
    simp only [List.mem_cons, List.not_mem_nil, or_false] at hx
    rcases hx with rfl | rfl
    · exact .inl rfl
    · exact .inr (.inr rfl)) .nil

theorem closingOf_rcur {o : Char} (h : closingOf ['}'] = some o) : o = '{' := by
  have : closingOf ['}'] = some '{' := by decide
  rw [this] at h
  cases h; rfl

theorem ib_indentSpec_succ {sty : Style} {f : Nat} (hc : LCollect sty f) : LIndent sty (f + 1) := by
  intro closeTok openCh ind rest content rest' hclose h
  have hopen := closingOf_open hclose
  rw [innerCollect.innerIndent] at h
  obtain ⟨⟨components, rest1⟩, hcol, h⟩ := lk_bind_ok h
  obtain ⟨pre, mid, curF, compsF, hpre, hlay, hcomp, hrep, hclause, hhd, hnil⟩ :=
    hc openCh ind rest [] [] components rest1 hcol
  simp only [rep, List.flatMap_nil, List.append_nil] at hrep
  -- the joined components, and how the content between the brackets relates to them
  have key : ∃ X pvX, LayA sty X (joinSep .argument components) ∧
      (∀ pv Y b, Lay sty true pvX (X ++ Y) b →
        Lay sty true pv (.str [openCh] :: pre.reverse ++ Y) (.str [openCh] :: b)) ∧
      (∀ x, pre.head? = some x → lastP pvX X = some x) := by
    have hlastKeep : ∀ x, pre.head? = some x → lastP (some (.str [openCh])) pre.reverse = some x := by
      intro x hx
      cases pre with
      | nil => cases hx
      | cons y t =>
        simp only [List.head?_cons, Option.some.injEq] at hx
        subst hx
        rw [List.reverse_cons, lastP_snoc]
    cases hcur : curF with
    | cons c cs =>
      rw [hcur] at hcomp hrep
      simp only [List.isEmpty_cons, Bool.false_eq_true, if_false] at hcomp
      refine ⟨pre.reverse, some (.str [openCh]), ?_, fun pv Y b hb => .keep _ hb, hlastKeep⟩
      rw [hcomp, joinSep_rep]
      simp only [rep]
      rw [hrep]
      exact hlay
    | nil =>
      rw [hcur] at hcomp hrep
      simp only [List.isEmpty_nil, if_true] at hcomp
      cases hcf : compsF with
      | nil =>
        rw [hcf] at hcomp hrep
        refine ⟨pre.reverse, some (.str [openCh]), ?_, fun pv Y b hb => .keep _ hb, hlastKeep⟩
        rw [hcomp]
        simp only [List.flatMap_nil, List.nil_append] at hrep
        rw [← hrep] at hlay
        simpa [joinSep] using hlay
      | cons c1 cs =>
        rcases hclause hcur (by rw [hcf]; simp) with ⟨_, _, _, h4⟩ | ⟨a', mid', hp, hm, hl⟩
        · rw [hcf] at h4; cases h4
        · refine ⟨a', some (.sep .argument), ?_, fun pv Y b hb => by
            rw [hp]; exact .dropArg openCh hopen hb, ?_⟩
          · rw [hcomp, hcf, joinSep_rep]
            rw [hcf] at hrep
            have : rep [] (c1 :: cs) = S .argument :: rep c1 cs := rep_arg c1 cs
            simp only [rep, List.nil_append] at this hrep
            rw [this, hm] at hrep
            simp only [S, List.cons.injEq, true_and] at hrep
            rw [← hrep] at hl
            simpa [rep, S] using hl
          · intro x hx
            have := hlastKeep x hx
            rw [hp] at this
            exact this
  obtain ⟨X, pvX, hX, hhead, hlast⟩ := key
  simp only at h
  split at h
  · simp only [Except.ok.injEq, Prod.mk.injEq] at h
    obtain ⟨rfl, rfl⟩ := h
    refine ⟨pre, hpre, by simp, fun pv => ?_⟩
    have := hhead pv [.str closeTok] _ ((hX pvX).appendA (LayA.refl sty [.str closeTok]))
    simpa using this
  · rename_i hnot
    simp only [Except.ok.injEq, Prod.mk.injEq] at h
    obtain ⟨rfl, rfl⟩ := h
    refine ⟨pre, hpre, by simp, fun pv => ?_⟩
    -- more than one component
    have hne : components ≠ [] := by
      intro h0; rw [h0] at hnot; simp at hnot
    have hprene : pre ≠ [] := by
      intro h0
      obtain ⟨e1, e2⟩ := hnil h0
      rw [e1, e2] at hcomp
      simp at hcomp
      exact hne hcomp
    obtain ⟨x0, hx0⟩ : ∃ x, pre.head? = some x := by
      cases pre with
      | nil => exact absurd rfl hprene
      | cons y t => exact ⟨y, rfl⟩
    rcases List.eq_nil_or_concat components with h0 | ⟨init, cn, hcn⟩
    · exact absurd h0 hne
    · rw [List.concat_eq_append] at hcn
      have hJ : joinSep .argument components = withArg init ++ cn := by rw [hcn, joinSep_concat]
      have hbody : (components.flatMap fun c => c ++ [S .argument, S .newline]) =
          (withArgNl init ++ cn) ++ [S .argument, S .newline] := by
        rw [hcn]; simp [withArgNl]
      have hXnl : LayA sty X (withArgNl init ++ cn) := by
        intro q
        have := hX q
        rw [hJ] at this
        exact this.insNls (insNl_append (insNl_withArg init) (InsNl.refl cn))
      have wrapUp : ∀ tail, Lay sty true (lastP pvX X) [.str closeTok] tail →
          Lay sty true pv (.str [openCh] :: pre.reverse ++ [.str closeTok])
            (.str [openCh] :: S .indent :: S .newline :: ((withArgNl init ++ cn) ++ tail)) := by
        intro tail ht
        have h1 : Lay sty true pvX (X ++ [.str closeTok]) (S .indent :: S .newline :: ((withArgNl init ++ cn) ++ tail)) :=
          .insInd .indent (.inl rfl) ⟨_, _, rfl, by simp [S]⟩ (.insNl ((hXnl pvX).append ht))
        exact hhead pv _ _ h1
      split
      · rename_i htr
        have hct : closeTok = ['}'] := by simpa using htr
        subst hct
        have ho : openCh = '{' := closingOf_rcur hclose
        rw [hbody]
        have hpv : lastP pvX X ≠ some (.str ['{']) := by
          rw [hlast x0 hx0]
          intro e
          simp only [Option.some.injEq] at e
          exact hhd x0 hx0 (by rw [e, ho])
        have := wrapUp _ (lay_close_comma sty hpv)
        simpa [S] using this
      · rw [hbody, take_drop_two]
        have := wrapUp _ (lay_close sty closeTok _)
        simpa [S] using this

/-- the source segment `seg` (in source order) has been turned into `out` and put in front of the current component -/
theorem collect_seg {sty : Style} {openCh : Char} {stream2 rest' : Pieces} {comps : List Pieces} {cur : Pieces}
    {components : List Pieces} {seg out : Pieces} (hl : LayA sty seg out) (hne : out ≠ [])
    {tok : Piece} {sr : Pieces} (hseg : seg.reverse = tok :: sr) (htok : tok ≠ .str [openCh])
    (ih : CRes sty openCh stream2 rest' comps (out ++ cur) components) :
    CRes sty openCh (seg.reverse ++ stream2) rest' comps cur components := by
  obtain ⟨pre2, mid2, curF, compsF, hpre, hlay, hcomp, hrep, hclause, _, _⟩ := ih
  refine ⟨seg.reverse ++ pre2, mid2 ++ out, curF, compsF, by rw [hpre]; simp, ?_, hcomp, ?_, ?_, ?_, ?_⟩
  · have := hlay.append hl
    simpa using this
  · rw [hrep, rep_append]; simp
  · intro h1 h2
    rcases hclause h1 h2 with ⟨_, _, h3, _⟩ | ⟨a', mid', hp, hm, hl'⟩
    · exact absurd (List.append_eq_nil_iff.mp h3).1 hne
    · refine .inr ⟨a' ++ seg, mid' ++ out, by simp [hp], by simp [hm], hl'.append hl⟩
  · intro x hx
    rw [hseg] at hx
    simp only [List.cons_append, List.head?_cons, Option.some.injEq] at hx
    rw [← hx]; exact htok
  · intro h0
    rw [hseg] at h0
    simp at h0

theorem collect_done_l {sty : Style} {openCh : Char} {rest : Pieces} {comps : List Pieces} {cur : Pieces} :
    CRes sty openCh (.str [openCh] :: rest) rest comps cur (if cur.isEmpty then comps else cur :: comps) :=
  ⟨[], [], cur, comps, rfl, fun _ => .nil, rfl, rfl, fun h1 _ => .inl ⟨rfl, rfl, h1, rfl⟩, fun x hx => (by cases hx),
    fun _ => ⟨rfl, rfl⟩⟩

theorem collect_arg {sty : Style} {openCh : Char} {stream2 rest' : Pieces} {comps : List Pieces} {cur : Pieces}
    {components : List Pieces} (ih : CRes sty openCh stream2 rest' (cur :: comps) [] components) :
    CRes sty openCh (.sep .argument :: stream2) rest' comps cur components := by
  obtain ⟨pre2, mid2, curF, compsF, hpre, hlay, hcomp, hrep, hclause, _, _⟩ := ih
  refine ⟨.sep .argument :: pre2, mid2 ++ [.sep .argument], curF, compsF, by rw [hpre]; simp, ?_, hcomp, ?_, ?_, ?_, ?_⟩
  · have := hlay.append (LayA.refl sty [.sep .argument])
    simpa using this
  · rw [hrep, rep_arg]; simp [S]
  · intro h1 h2
    rcases hclause h1 h2 with ⟨h3, h4, _, _⟩ | ⟨a', mid', hp, hm, hl'⟩
    · subst h3 h4
      exact .inr ⟨[], [], by simp, by simp, fun _ => .nil⟩
    · refine .inr ⟨a' ++ [.sep .argument], mid' ++ [.sep .argument], by simp [hp], by simp [hm], ?_⟩
      exact hl'.append (LayA.refl sty _)
  · intro x hx
    simp only [List.head?_cons, Option.some.injEq] at hx
    rw [← hx]; simp
  · intro h0; cases h0

theorem stringIdent_ne_nil {q : List Char} {ind : Int} {sty : Style} {ps : Pieces}
    (h : stringIdent q ind sty = .ok ps) : ps ≠ [] := by
  obtain ⟨parts, rfl, hq, _⟩ := stringIdent_parts h
  have hqn : q ≠ [] := by
    have := stringIdent_isQuoted h
    intro h0; subst h0; simp [isQuoted] at this
  cases parts with
  | nil => simp at hq; exact absurd hq.symm (by simpa using hqn)
  | cons p rest =>
    cases rest with
    | nil => simp [stringIdent.build]
    | cons p2 rest => rw [build_cons_cons]; simp

theorem lay_wrap_one {sty : Style} {q : List Char} {ind : Int} {ps : Pieces} (h : stringIdent q ind sty = .ok ps) :
    LayA sty [.str q] ps := by
  intro pv
  have := Lay.wrap (pv := pv) q ind ps ps h (InsIn.refl ps (stringIdent_ne_nil h)) (Lay.nil (sty := sty) (tc := true))
  simpa using this

theorem ib_collect_succ {sty : Style} {f : Nat} (hc : LCollect sty f) (hi : LIndent sty f) :
    LCollect sty (f + 1) := by
  intro openCh ind stream comps cur components rest' h
  cases stream with
  | nil => rw [innerCollect] at h; cases h
  | cons tok rest =>
    cases tok with
    | str s =>
      rw [innerCollect] at h
      split at h
      · rename_i heq
        simp only [beq_iff_eq, Piece.str.injEq] at heq
        subst heq
        simp only [Except.ok.injEq, Prod.mk.injEq] at h
        obtain ⟨rfl, rfl⟩ := h
        exact collect_done_l
      · rename_i hneq
        have htok : Piece.str s ≠ .str [openCh] := by simpa using hneq
        split at h
        · rename_i o2 hcl
          obtain ⟨⟨content, rest1⟩, hind, h⟩ := lk_bind_ok h
          simp only at h
          obtain ⟨pre1, hpre1, hcne, hlay1⟩ := hi s o2 (ind + 1) rest content rest1 hcl hind
          have ih := hc openCh ind rest1 comps (content ++ cur) components rest' h
          have := collect_seg (tok := .str s) (sr := pre1 ++ [.str [o2]]) hlay1 hcne (by simp) htok ih
          rw [hpre1]
          simpa using this
        · split at h
          · obtain ⟨ps, hps, h⟩ := lk_bind_ok h
            have ih := hc openCh ind rest comps (ps ++ cur) components rest' h
            have := collect_seg (tok := .str s) (sr := []) (lay_wrap_one hps) (stringIdent_ne_nil hps) (by simp) htok ih
            simpa using this
          · have ih := hc openCh ind rest comps (.str s :: cur) components rest' h
            have := collect_seg (seg := [.str s]) (out := [.str s]) (tok := .str s) (sr := []) (LayA.refl sty _)
              (by simp) (by simp) htok ih
            simpa using this
    | sep x =>
      by_cases hx : x = .argument
      · subst hx
        rw [innerCollect] at h
        simp only [beq_iff_eq, reduceCtorEq, if_false] at h
        exact collect_arg (hc openCh ind rest (cur :: comps) [] components rest' h)
      · rw [innerCollect] at h
        · simp only [beq_iff_eq, reduceCtorEq, if_false] at h
          have ih := hc openCh ind rest comps (.sep x :: cur) components rest' h
          have := collect_seg (seg := [.sep x]) (out := [.sep x]) (tok := .sep x) (sr := []) (LayA.refl sty _)
            (by simp) (by simp) (by simp) ih
          simpa using this
        · intro s hs; cases hs
        · intro hs; cases hs; exact hx rfl

theorem ib_inner_specs (sty : Style) : ∀ f : Nat, LCollect sty f ∧ LIndent sty f
  | 0 => ⟨ib_collectSpec_zero sty, ib_indentSpec_zero sty⟩
  | f + 1 =>
    have ih := ib_inner_specs sty f
    ⟨ib_collect_succ ih.1 ih.2, ib_indentSpec_succ ih.1⟩

/-! ## the outer loop -/

theorem ib_rev_spec (sty : Style) : ∀ (f : Nat) (rev : Pieces) (ind : Int) (acc out : Pieces),
    indentBracketsRev sty f rev ind acc = .ok out →
    ∃ mid, out = mid ++ acc ∧ LayA sty rev.reverse mid
  | 0, rev, ind, acc, out, h => by rw [indentBracketsRev] at h; cases h
  | f + 1, [], ind, acc, out, h => by
    rw [indentBracketsRev] at h; cases h
    exact ⟨[], rfl, fun _ => .nil⟩
  | f + 1, .str s :: rest, ind, acc, out, h => by
    rw [indentBracketsRev] at h
    split at h
    · rename_i o hcl
      obtain ⟨⟨content, rest1⟩, hind, h⟩ := lk_bind_ok h
      simp only at h
      obtain ⟨pre1, hpre1, _, hlay1⟩ := (ib_inner_specs sty _).2 s o ind rest content rest1 hcl hind
      obtain ⟨mid2, rfl, hlay2⟩ := ib_rev_spec sty f rest1 ind _ out h
      refine ⟨mid2 ++ content, by simp, ?_⟩
      have := hlay2.append hlay1
      rw [hpre1]
      simpa using this
    · split at h
      · obtain ⟨ps, hps, h⟩ := lk_bind_ok h
        obtain ⟨mid2, rfl, hlay2⟩ := ib_rev_spec sty f rest ind _ out h
        refine ⟨mid2 ++ ps, by simp, ?_⟩
        have := hlay2.append (lay_wrap_one hps)
        simpa using this
      · obtain ⟨mid2, rfl, hlay2⟩ := ib_rev_spec sty f rest ind _ out h
        refine ⟨mid2 ++ [.str s], by simp, ?_⟩
        have := hlay2.append (LayA.refl sty [.str s])
        simpa using this
  | f + 1, .sep x :: rest, ind, acc, out, h => by
    have key : ∃ ind', indentBracketsRev sty f rest ind' (.sep x :: acc) = .ok out := by
      cases x <;> simp only [indentBracketsRev] at h <;> exact ⟨_, h⟩
    obtain ⟨ind', h⟩ := key
    obtain ⟨mid2, rfl, hlay2⟩ := ib_rev_spec sty f rest ind' _ out h
    refine ⟨mid2 ++ [.sep x], by simp, ?_⟩
    have := hlay2.append (LayA.refl sty [.sep x])
    simpa using this

/-- **STAGE B2**: the result of `indent_brackets` is aligned with its input by `Lay` -/
theorem indentBrackets_lay {ts ts' : Pieces} {sty : Style} (h : indentBrackets ts sty = .ok ts') :
    ∀ pv, Lay sty true pv ts ts' := by
  obtain ⟨mid, rfl, hlay⟩ := ib_rev_spec sty _ _ _ _ _ h
  intro pv
  have := hlay pv
  simpa using this

end Tumfl.Theory
