import Tumfl.Theory.ParserSimSoundCore
/-!
# Soundness, step lemmas: name lists, expression lists, parameters
-/
namespace Tumfl.Theory
open Tumfl.Model Tumfl.Spec

variable {B : Bridge}

macro "asm" : term => `(by assumption)

theorem parseDotted_sound_step {f : Nat} (ih : AllSound B f) (ts : List Tok) :
    SPF B (Model.parseDotted (f + 1)) ts (fun r ts' => ∃ ns, Ev (dottedRest · ts) (ns, ts') ∧ Forall₂ NameRel r ns) := by
  rw [Model.parseDotted]
  sp ih
  · exact ⟨_, ev_dottedRest_cons asm asm asm, .cons asm asm⟩
  · exact ⟨_, ev_dottedRest_nil asm, .nil⟩

theorem parseExpList_sound_step {f : Nat} (ih : AllSound B f) (ts : List Tok) :
    SPF B (Model.parseExpList (f + 1)) ts (fun r ts' =>
    ∃ es, Ev (explist · ts) (es, ts') ∧ Forall₂ ExpRel r es ∧ r ≠ []) := by
  rw [Model.parseExpList]
  sp ih
  · exact ⟨_, ev_explist_cons asm asm asm, .cons asm asm, by simp⟩
  · exact ⟨_, ev_explist_last asm asm, .cons asm .nil, by simp⟩

theorem parseMoreVars_sound_step {f : Nat} (ih : AllSound B f) (ts : List Tok) :
    SPF B (Model.parseMoreVars (f + 1)) ts (fun r ts' =>
    ∃ vs, Ev (restassign · ts) (vs, ts') ∧ Forall₂ VarRel r vs) := by
  rw [Model.parseMoreVars]
  sp ih
  · exact ⟨_, ev_restassign_cons asm asm asm, .cons ⟨asm, (asm : true = true → _) rfl⟩ asm⟩
  · exact ⟨_, ev_restassign_nil asm, .nil⟩

theorem parseNames_false_sound_step {f : Nat} (ih : AllSound B f) (ts : List Tok) :
    SPF B (Model.parseNames (f + 1) false) ts (fun r ts' =>
    ∃ n ns, pk ts = .name n ∧ Ev (namelistRest · ts.tail) (ns, ts') ∧ Forall₂ NameRel r (n :: ns)) := by
  rw [Model.parseNames]
  sp ih
  · rename_i h; simp [Cond] at h
  · exact ⟨_, _, asm, ev_namelistRest_cons asm asm asm, .cons asm asm⟩
  · exact ⟨_, _, asm, ev_namelistRest_nil asm, .cons asm .nil⟩

theorem parseNames_true_sound_step {f : Nat} (ih : AllSound B f) (ts : List Tok) :
    SPF B (Model.parseNames (f + 1) true) ts (fun r ts' =>
    ∃ ns va, Ev (parlist1 · ts) (ns, va, if va then ts'.tail else ts') ∧ (va = true ↔ pk ts' = .sym "...") ∧
      Forall₂ NameRel r ns) := by
  rw [Model.parseNames]
  sp ih
  · rename_i t hk h
    have hp : pk ts = .sym "..." := by simpa [Cond, hk.beq_iff] using h
    exact ⟨[], true, by simpa using ev_parlist1_vararg hp, by simp [hp], .nil⟩
  · exact ⟨_, _, ev_parlist1_cons asm asm asm, asm, .cons asm asm⟩
  · rename_i t hk h
    have hp : pk ts.tail ≠ .sym "..." := by simpa [Cond, hk.beq_iff] using h
    exact ⟨_, false, by simpa using ev_parlist1_last asm asm, by simp [hp], .cons asm .nil⟩

end Tumfl.Theory
