import Tumfl.Theory.FormatTextEmitBase2
/-!
# The adjacency discipline of `emit` (stage A)
-/
namespace Tumfl.Theory
open Tumfl Tumfl.Model

theorem exitX_of_E {e : Expr} {σ : DS} (hc : endsCallee e = false) (h : ExitE σ) : ExitX e σ :=
  ⟨h, fun h' => by rw [hc] at h'; cases h'⟩
theorem exitX_of_C {e : Expr} {σ : DS} (h : ExitC σ) : ExitX e σ := ⟨h.exitE, fun _ => h⟩

/-! ## blocks, given their bodies -/

def SB (sty : Style) (b : Block) : Prop := Tr Calm (bodyPieces sty b.stmts b.rets) Calm

theorem full_eq (sty : Style) (b : Block) :
    visitBlockFull sty b = P "do" :: S .block :: S .indent :: (bodyPieces sty b.stmts b.rets ++ [S .deindent, P "end"]) := by
  obtain ⟨t, stmts, rets, c⟩ := b
  rw [visitBlockFull_eq]
  rfl

theorem isOpener_end : isOpener "end".toList = false := by decide

theorem tr_body_end {sty : Style} {b : Block} (hb : SB sty b) :
    Tr Calm (S .indent :: (bodyPieces sty b.stmts b.rets ++ [S .deindent, P "end"])) ExitE := by
  refine Tr.cons tr_indent (Tr.seq hb (Tr.cons tr_deindent ?_))
  exact (tr_lit_calm litOK_end (c := 'e') (cs := ['n', 'd']) (by decide) (by unfold H3; decide)).post fun _ h =>
    tight_exitE isOpener_end (by decide) (by decide) h

theorem tr_funcbody {sty : Style} {b : Block} (hb : SB sty b) : Tr ExitC ((visitBlockFull sty b).drop 1) ExitE := by
  rw [full_eq]
  show Tr _ (S .block :: S .indent :: (bodyPieces sty b.stmts b.rets ++ [S .deindent, P "end"])) _
  exact Tr.cons (tr_block.pre fun _ h => h.exitE.settled) (tr_body_end hb)

theorem slice21_eq (sty : Style) (b : Block) (hc : b.isChunk = false) :
    sliceInner 2 1 (blk b (visitBlockFull sty b)) = S .indent :: (bodyPieces sty b.stmts b.rets ++ [S .deindent]) := by
  rw [blk, hc, full_eq]
  have : P "do" :: S .block :: S .indent :: (bodyPieces sty b.stmts b.rets ++ [S .deindent, P "end"]) =
      [P "do", S .block] ++ (S .indent :: (bodyPieces sty b.stmts b.rets ++ [S .deindent])) ++ [P "end"] := by simp
  simp only [Bool.false_eq_true, if_false]
  rw [this, sliceInner_mid _ _ _ 2 1 rfl rfl]

theorem tr_slice21 {sty : Style} {b : Block} (hb : SB sty b) (hc : b.isChunk = false) :
    Tr Calm (sliceInner 2 1 (blk b (visitBlockFull sty b))) Calm := by
  rw [slice21_eq sty b hc]
  exact Tr.cons tr_indent (Tr.seq hb tr_deindent)

theorem tr_blk {sty : Style} {b : Block} (hb : SB sty b) (hc : b.isChunk = false) :
    Tr (Pre "do".toList) (blk b (visitBlockFull sty b)) ExitE := by
  rw [blk, hc, full_eq]
  simp only [Bool.false_eq_true, if_false]
  refine Tr.cons (tr_lit_pre litOK_do) (Tr.cons (tr_block.pre fun _ h => h.settled (by decide) (by decide)) (tr_body_end hb))

theorem tr_blk_calm {sty : Style} {b : Block} (hb : SB sty b) (hc : b.isChunk = false) :
    Tr Calm (blk b (visitBlockFull sty b)) ExitE :=
  (tr_blk hb hc).pre fun _ h => pre_of_calm (c := 'd') h ['o'] (by unfold H3; decide)

/-! ## names in name slots -/

theorem visitExpr_nameNode (sty : Style) {e : Expr} (h : nameNodeOK e = true) :
    ∃ n, visitExpr sty e = [.str n] ∧ nameStr e = n ∧ identOK n = true := by
  obtain ⟨t, n, rfl, hn⟩ := nameNodeOK_iff h
  exact ⟨n, by simp [visitExpr], rfl, hn⟩

theorem paramsOK_pArgs : ∀ {ps : List Expr}, paramsOK ps = true → pArgs ps = true ∧ numsArgs ps = []
  | [], _ => ⟨rfl, rfl⟩
  | [.vararg _], _ => ⟨rfl, rfl⟩
  | .vararg _ :: _ :: _, h => by simp [paramsOK, nameNodeOK] at h
  | .nil _ :: rest, h | .bool _ _ :: rest, h | .number _ _ :: rest, h | .string _ _ :: rest, h
  | .func _ _ _ :: rest, h | .table _ _ :: rest, h | .binop _ _ _ _ :: rest, h | .unop _ _ _ :: rest, h
  | .index _ _ _ :: rest, h | .namedIndex _ _ _ :: rest, h | .call _ _ _ :: rest, h | .method _ _ _ _ :: rest, h => by
    simp [paramsOK, nameNodeOK] at h
  | .name t n :: rest, h => by
    simp only [paramsOK, nameNodeOK, Bool.and_eq_true] at h
    obtain ⟨h1, h2⟩ := paramsOK_pArgs h.2
    exact ⟨by simp [pArgs, pExpr, h.1, h1], by simp [numsArgs, numsExpr, h2]⟩

theorem allNames_pArgs : ∀ {es : List Expr}, es.all nameNodeOK = true → pArgs es = true ∧ numsArgs es = []
  | [], _ => ⟨rfl, rfl⟩
  | e :: rest, h => by
    simp only [List.all_cons, Bool.and_eq_true] at h
    obtain ⟨t, n, rfl, hn⟩ := nameNodeOK_iff h.1
    obtain ⟨h1, h2⟩ := allNames_pArgs h.2
    exact ⟨by simp [pArgs, pExpr, hn, h1], by simp [numsArgs, numsExpr, h2]⟩

/-! ## dotted names, attributed names -/

theorem tr_dotted (sty : Style) : ∀ (es : List Expr), es.all nameNodeOK = true → es ≠ [] →
    ∀ (P : DS → Prop), (∀ n, identOK n = true → Tr P [.str n] ExitC) → Tr P (visitDotted sty es) ExitC
  | [], _, hne, _, _ => absurd rfl hne
  | [e], h, _, P, hP => by
    simp only [List.all_cons, List.all_nil, Bool.and_true] at h
    obtain ⟨n, hv, _, hn⟩ := visitExpr_nameNode sty h
    simp only [visitDotted]
    rw [hv]
    exact hP n hn
  | e :: e2 :: rest, h, _, P, hP => by
    rw [List.all_cons, Bool.and_eq_true] at h
    obtain ⟨n, hv, _, hn⟩ := visitExpr_nameNode sty h.1
    rw [visitDotted, hv]
    refine Tr.seq (hP n hn) (Tr.cons tr_dot (tr_dotted sty (e2 :: rest) h.2 (by simp) AfterDot fun m hm => ?_))
    exact (tr_name_afterDot hm).post fun _ hσ =>
      tight_exitC (isOpener_word (identOK_word hm)) (calleeEnd_word (identOK_word hm))
        (by rw [isOpener_word (identOK_word hm)]; exact hσ)

theorem tr_lit_calmNF {s : String} (h : LitOK s) (hb : s.toList ≠ ['}']) :
    Tr CalmNF [P s] (Tight s.toList (isOpener s.toList)) :=
  (tr_lit_pre h).pre fun _ hσ => pre_of_calmNF hσ _ hb

theorem noGlue_lt_alpha {c : Char} (cs : List Char) (hc : Spec.isAlpha c = true) : NoGlue "<".toList (c :: cs) := by
  have h5 := (alpha_h5 hc).1
  refine ⟨?_, fun d t e => ?_⟩
  · rw [sepRequired_of "<".toList (c :: cs) '<' c '<' (by decide) rfl (by decide)]
    have e2 : (c == '=') = false := by simpa using h5.2.2.2.2.1
    have e3 : (c == '.') = false := by simpa using (isAlpha_not_special hc).2.2.2.2.1
    simp only [sepBool, show wordChars.contains '<' = false by decide, e2, e3, Bool.false_and, Bool.and_false,
      show ('<' == '-') = false by decide, show ('<' == '[') = false by decide, Bool.or_false]
  · cases e
    have e1 : (c == '<') = false := by simpa using h5.1
    simp [fuses, e1]

theorem isOpener_lt : isOpener "<".toList = false := by decide
theorem isOpener_gt : isOpener ">".toList = false := by decide

theorem tr_attName (n : Expr) (a : Option Expr) (h : attOK (.mk n a) = true) : Tr Calm (attName n a) ExitT := by
  simp only [attOK, Bool.and_eq_true] at h
  obtain ⟨t, s, rfl, hs⟩ := nameNodeOK_iff h.1
  cases a with
  | none =>
    simp only [attName, nameStr]
    exact (tr_name_calm hs).post fun _ hσ => hσ.exitE.exitT
  | some att =>
    obtain ⟨t2, s2, rfl, hs2⟩ := nameNodeOK_iff h.2
    simp only [attName, nameStr]
    refine Tr.cons (tr_name_calm hs) (Tr.cons (tr_space_exitE.pre fun _ hσ => hσ.exitE)
      (Tr.cons ((tr_lit_calmNF litOK_lt (by decide)).post fun _ hσ => by rw [isOpener_lt] at hσ; exact hσ)
        (Tr.cons (tr_name_tight hs2 fun c cs hc => noGlue_lt_alpha cs hc) ?_)))
    exact (tr_lit_exitC litOK_gt (c := '>') (cs := []) (by decide) (by decide)).post fun _ hσ =>
      ⟨_, by rw [isOpener_gt] at hσ; exact hσ, by decide, by decide⟩

theorem tr_attNames : ∀ (names : List AttName), names.all attOK = true → names ≠ [] → Tr Calm (visitAttNames names) ExitT
  | [], _, hne => absurd rfl hne
  | [.mk n a], h, _ => by
    simp only [List.all_cons, List.all_nil, Bool.and_true] at h
    simp only [visitAttNames]
    exact tr_attName n a h
  | .mk n a :: x :: rest, h, _ => by
    rw [List.all_cons, Bool.and_eq_true] at h
    rw [visitAttNames]
    · exact Tr.seq (tr_attName n a h.1) (Tr.cons tr_argument' (tr_attNames (x :: rest) h.2 (by simp)))
    · simp

/-! ## fields -/

theorem head_field (sty : Style) (f : Field) (hp : pField f = true) (hn : NumsCanon (numsField f)) :
    HeadIs (visitField sty f) H5 := by
  cases f with
  | explicit t k v =>
    simp only [visitField, List.cons_append, List.nil_append]
    exact headIs_P "[" _ (c := '[') (cs := []) (by decide) (by decide)
  | named t n v =>
    simp only [pField, Bool.and_eq_true] at hp
    obtain ⟨s, hv, _, hs⟩ := visitExpr_nameNode sty hp.1
    simp only [visitField, hv, List.cons_append, List.nil_append]
    exact (headIs_name hs _).imp fun c hc => (alpha_h5 hc).1
  | numbered t v =>
    simp only [pField] at hp
    simp only [numsField] at hn
    simp only [visitField]
    exact (head_expr sty v hp hn).imp fun c h => h.1

def SFs (sty : Style) (fs : List Field) : Prop :=
  fs ≠ [] → Tr (Pre (firstStr (visitFields sty fs))) (visitFields sty fs) ExitE

theorem head_fields (sty : Style) {fs : List Field} (hp : pFields fs = true) (hn : NumsCanon (numsFields fs))
    (hne : fs ≠ []) : HeadIs (visitFields sty fs) H5 := by
  cases fs with
  | nil => exact absurd rfl hne
  | cons f rest =>
    simp only [pFields, Bool.and_eq_true] at hp
    simp only [numsFields] at hn
    have := head_field sty f hp.1 hn.left
    cases rest with
    | nil => simpa [visitFields] using this
    | cons f2 rest => rw [visitFields]; exact this.append _

theorem isOpener_lcur : isOpener "{".toList = true := by decide
theorem isOpener_rcur : isOpener "}".toList = false := by decide

/-- `{ fields }` -/
theorem tr_table {sty : Style} {fs : List Field} (hs : SFs sty fs) (hh : fs ≠ [] → HeadIs (visitFields sty fs) H5) :
    Tr (Pre "{".toList) (P "{" :: (visitFields sty fs ++ [P "}"])) ExitC := by
  have hclose : ∀ σ, Tight "}".toList (isOpener "}".toList) σ → ExitC σ := fun _ h =>
    tight_exitC isOpener_rcur calleeEnd_rcur h
  refine Tr.cons ((tr_lit_pre litOK_lcur).post fun _ h => by rw [isOpener_lcur] at h; exact h) ?_
  by_cases hne : fs = []
  · subst hne
    simp only [visitFields, List.nil_append]
    exact (tr_lit_tight litOK_rcur (noGlue_inert (by decide) [] inert_closers.2.2.1)).post hclose
  · refine Tr.seq ((hs hne).pre fun _ hσ => ?_) ?_
    · exact pre_of_head (hh hne) fun c cs _ => pre_of_tight hσ (noGlue_lcur c cs)
    · exact (tr_lit_exitE litOK_rcur (c := '}') (cs := []) (by decide) inert_closers.2.2.1).post hclose

end Tumfl.Theory
