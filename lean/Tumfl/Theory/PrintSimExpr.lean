import Tumfl.Theory.PrintSimStep
import Tumfl.Inst.Brackets
/-!
# Expressions: what the reference parser does on the tokens of a printed expression

Properties (`EProp`, `PProp`, `FieldsProp`, ...) and one step lemma per constructor; the mutual induction that
ties them together is in `PrintSim.lean`.
-/
namespace Tumfl.Theory
open Tumfl.Model Tumfl.Spec

variable {semi : Bool} {sty : Style}

/-! ## levels -/

def lowM : Expr → Nat
  | .binop _ o _ _ => lp o
  | _ => 100

def capM (sty : Style) : Expr → Nat
  | .binop _ o _ r => min (rp o) (if needBin sty.brOpts o false r.kind then 100 else capM sty r)
  | .unop _ u x => min UPRI (if needUn sty.brOpts u x.kind then 100 else capM sty x)
  | _ => 100

theorem lowM_pos (e : Expr) : 0 < lowM e := by
  cases e <;> simp [lowM]
  rename_i o _ _; cases o <;> simp [lp]

theorem lowM_eq (e : Expr) : lowM e = lowK e.kind := by
  cases e <;> rfl

theorem sound_facts (sty : Style) :
    (∀ o u, needBin sty.brOpts o true (.un u) = false → lp o ≤ UPRI) ∧
    (∀ o o2, needBin sty.brOpts o true (.bin o2) = false → lp o ≤ lp o2 ∧ lp o ≤ min (rp o2) UPRI) ∧
    (∀ o o2, needBin sty.brOpts o false (.bin o2) = false → rp o < lp o2) ∧
    (∀ u o2, needUn sty.brOpts u (.bin o2) = false → UPRI < lp o2) :=
  Dec.sound_spec (Inst.brackets_sound sty.brOpts)

theorem capK_le_capM (sty : Style) : (e : Expr) → capK e.kind ≤ capM sty e
  | .binop _ o l r => by
    have ih := capK_le_capM sty r
    obtain ⟨_, _, sR, _⟩ := sound_facts sty
    have tf := table_facts o
    show capK (.bin o) ≤ min (rp o) (if needBin sty.brOpts o false r.kind then 100 else capM sty r)
    by_cases hn : needBin sty.brOpts o false r.kind = true
    · simp only [hn, if_true, capK, UPRI]; omega
    · rw [if_neg hn]; simp only [capK]
      have hn' : needBin sty.brOpts o false r.kind = false := by simpa using hn
      match r, ih, hn' with
      | .binop _ o2 _ _, ih, hn' =>
        have := sR o o2 hn'; have tf2 := table_facts o2
        change min (rp o2) UPRI ≤ _ at ih
        simp only [UPRI] at *; omega
      | .unop _ _ _, ih, _ => change UPRI ≤ _ at ih; simp only [UPRI] at *; omega
      | .nil _, ih, _ | .bool _ _, ih, _ | .vararg _, ih, _ | .number _ _, ih, _ | .string _ _, ih, _ | .func _ _ _, ih, _
      | .table _ _, ih, _ | .name _ _, ih, _ | .index _ _ _, ih, _ | .namedIndex _ _ _, ih, _ | .call _ _ _, ih, _
      | .method _ _ _ _, ih, _ => change 100 ≤ _ at ih; simp only [UPRI] at *; omega
  | .unop _ u x => by
    have ih := capK_le_capM sty x
    obtain ⟨_, _, _, sU⟩ := sound_facts sty
    show capK (.un u) ≤ min UPRI (if needUn sty.brOpts u x.kind then 100 else capM sty x)
    by_cases hn : needUn sty.brOpts u x.kind = true
    · simp only [hn, if_true, capK, UPRI]; omega
    · rw [if_neg hn]; simp only [capK]
      have hn' : needUn sty.brOpts u x.kind = false := by simpa using hn
      match x, ih, hn' with
      | .binop _ o2 _ _, ih, hn' =>
        have := sU u o2 hn'; have tf2 := table_facts o2
        change min (rp o2) UPRI ≤ _ at ih
        simp only [UPRI] at *; omega
      | .unop _ _ _, ih, _ => change UPRI ≤ _ at ih; simp only [UPRI] at *; omega
      | .nil _, ih, _ | .bool _ _, ih, _ | .vararg _, ih, _ | .number _ _, ih, _ | .string _ _, ih, _ | .func _ _ _, ih, _
      | .table _ _, ih, _ | .name _ _, ih, _ | .index _ _ _, ih, _ | .namedIndex _ _ _, ih, _ | .call _ _ _, ih, _
      | .method _ _ _ _, ih, _ => change 100 ≤ _ at ih; simp only [UPRI] at *; omega
  | .nil _ | .bool _ _ | .vararg _ | .number _ _ | .string _ _ | .func _ _ _ | .table _ _ | .name _ _
  | .index _ _ _ | .namedIndex _ _ _ | .call _ _ _ | .method _ _ _ _ => by simp [Expr.kind, capK, capM]

/-! ## the properties -/

/-- `climb` on the tokens of `e` parses exactly `e` and goes on with the operator loop -/
def EProp (semi : Bool) (sty : Style) (e : Expr) : Prop :=
  ∀ g F limit rest, nE semi sty e ≤ g → nE semi sty e ≤ F → limit < lowM e → sfx (pk rest) = false →
    hdLp rest ≤ capM sty e →
    ∃ F', F ≤ F' + nE semi sty e ∧
      climb (SS g) F limit (TK semi (visitExpr sty e) ++ rest) = climbLoop (SS g) F' limit (refExpr semi sty e) rest

/-- `suffixedexp` on the tokens of a variable-like `e` parses exactly `e` and goes on with the suffix loop -/
def PProp (semi : Bool) (sty : Style) (e : Expr) : Prop :=
  ∀ F rest, nE semi sty e ≤ F + 2 →
    ∃ F', F + 2 ≤ F' + nE semi sty e ∧
      suffixedexp F (TK semi (visitExpr sty e) ++ rest) = suffixes F' (refExpr semi sty e) rest

/-- the inside of a table constructor -/
def FieldsProp (semi : Bool) (sty : Style) (fs : List Model.Field) : Prop :=
  ∀ F rest, nFs semi sty fs ≤ F →
    fields F (TK semi (visitFields sty fs) ++ mkTok (.sym "}") :: rest) = .ok (refFields semi sty fs, rest)

/-- a nested block, with the separator in front of it, up to a block end -/
def BlockProp (semi : Bool) (sty : Style) (b : Model.Block) : Prop :=
  ∀ F rest, nB semi sty b ≤ F → blockFollow true (pk rest) = true →
    block F (semiT semi ++ TK semi (bodyPieces sty b.stmts b.rets) ++ rest) = .ok (refBlock semi sty b, rest)

structure XProp (semi : Bool) (sty : Style) (e : Expr) : Prop where
  E : EProp semi sty e
  P : isVarLike e = true → PProp semi sty e
  Tb : ∀ t fs, e = .table t fs → FieldsProp semi sty fs

/-! ## generic glue -/

theorem climb_simple (g F limit : Nat) (ts ts' : List Spec.Tok) (c : Exp) (hu : unOfTk (pk ts) = none)
    (hs : simpleexp g ts = .ok (c, ts')) : climb (SS g) (F + 1) limit ts = climbLoop (SS g) F limit c ts' := by
  rw [climb_succ]
  simp [SS, specSig, hu, hs]

theorem ps_expr_succ (f : Nat) (ts : List Spec.Tok) : expr (f + 1) ts = climb (SS f) (f + 1) 0 ts := by
  rw [expr]

theorem expr_of_EProp {e : Expr} (he : EProp semi sty e) (F : Nat) (rest : List Spec.Tok) (hF : nE semi sty e + 1 ≤ F)
    (hs : sfx (pk rest) = false) (hl : hdLp rest = 0) :
    expr F (TK semi (visitExpr sty e) ++ rest) = .ok (refExpr semi sty e, rest) := by
  obtain ⟨f, rfl⟩ : ∃ f, F = f + 1 := ⟨F - 1, by omega⟩
  rw [ps_expr_succ]
  obtain ⟨F', hF', h⟩ := he f (f + 1) 0 rest (by omega) (by omega) (lowM_pos e) hs (by omega)
  rw [h]
  obtain ⟨F'', rfl⟩ : ∃ f, F' = f + 1 := ⟨F' - 1, by omega⟩
  exact climbLoop_stop _ _ _ _ _ (by omega)

theorem simpleexp_paren (g : Nat) (ts rest : List Spec.Tok) (c : Exp)
    (h : expr (g + 1) (ts ++ mkTok (.sym ")") :: rest) = .ok (c, mkTok (.sym ")") :: rest))
    (hs : sfx (pk rest) = false) :
    simpleexp (g + 3) (mkTok (.sym "(") :: (ts ++ mkTok (.sym ")") :: rest)) = .ok (.paren c, rest) := by
  rw [simpleexp]
  simp only [pk_mkTok]
  rw [suffixedexp]
  simp only [pk_mkTok, tail_mkTok, h]
  simp [expectSym, isSym, suffixes_stop g _ _ hs, bind, Except.bind]

/-- an operand, parenthesised or not -/
theorem wrap_step {e : Expr} (he : EProp semi sty e) (b : Bool) (g F limit : Nat) (rest : List Spec.Tok)
    (hg : nE semi sty e + nWrap b ≤ g) (hF : nE semi sty e + nWrap b ≤ F)
    (hb : b = false → limit < lowM e ∧ hdLp rest ≤ capM sty e) (hs : sfx (pk rest) = false) :
    ∃ F', F ≤ F' + (nE semi sty e + nWrap b) ∧
      climb (SS g) F limit (TK semi (if b then wrapParens (visitExpr sty e) else visitExpr sty e) ++ rest) =
        climbLoop (SS g) F' limit (wrapP b (refExpr semi sty e)) rest := by
  cases b with
  | false =>
    obtain ⟨h1, h2⟩ := hb rfl
    simp only [nWrap, Bool.false_eq_true, if_false, Nat.add_zero, wrapP] at hg hF ⊢
    exact he g F limit rest hg hF h1 hs h2
  | true =>
    simp only [nWrap, if_true, wrapP] at hg hF ⊢
    obtain ⟨g, rfl⟩ : ∃ g', g = g' + 3 := ⟨g - 3, by omega⟩
    obtain ⟨F, rfl⟩ : ∃ F', F = F' + 1 := ⟨F - 1, by omega⟩
    refine ⟨F, by omega, ?_⟩
    have hin := expr_of_EProp he (g + 1) (mkTok (.sym ")") :: rest) (by omega) (by simp [sfx]) (by simp [hdLp, binOfTk])
    simp only [TK_wrapParens, List.cons_append, List.append_assoc, List.nil_append]
    exact climb_simple _ _ _ _ _ _ (by simp [unOfTk]) (simpleexp_paren g _ rest _ hin hs)

/-! ## operators -/

theorem climbLoop_step (g F limit : Nat) (acc : Exp) (o : BOp) (ts ts2 : List Spec.Tok) (c2 : Exp) (hlt : limit < lp o)
    (h : climb (SS g) F (rp o) ts = .ok (c2, ts2)) :
    climbLoop (SS g) (F + 1) limit acc (mkTok (bopTk o) :: ts) = climbLoop (SS g) F limit (.bin o acc c2) ts2 := by
  rw [climbLoop_succ]
  simp only [SS, specSig, pk_mkTok, binOfTk_bopTk, hlt, if_true, tail_mkTok]
  simp only [SS, specSig] at h
  rw [h]

theorem climb_un (g F limit : Nat) (u : UOp) (ts ts2 : List Spec.Tok) (c : Exp)
    (h : climb (SS g) F UPRI ts = .ok (c, ts2)) :
    climb (SS g) (F + 1) limit (mkTok (uopTk u) :: ts) = climbLoop (SS g) F limit (.un u c) ts2 := by
  rw [climb_succ]
  simp only [SS, specSig, pk_mkTok, unOfTk_uopTk, tail_mkTok]
  simp only [SS, specSig] at h
  rw [h]

theorem left_ok {o : BOp} {l : Expr} (hn : needBin sty.brOpts o true l.kind = false) :
    lp o ≤ lowM l ∧ lp o ≤ capM sty l := by
  obtain ⟨sLu, sLb, _, _⟩ := sound_facts sty
  have hc := capK_le_capM sty l
  have tf := table_facts o
  match l, hn, hc with
  | .binop _ o2 _ _, hn, hc =>
    have := sLb o o2 hn
    change min (rp o2) UPRI ≤ _ at hc
    refine ⟨this.1, ?_⟩; omega
  | .unop _ u _, hn, hc =>
    have := sLu o u hn
    change UPRI ≤ _ at hc
    refine ⟨by show lp o ≤ 100; omega, by omega⟩
  | .nil _, _, hc | .bool _ _, _, hc | .vararg _, _, hc | .number _ _, _, hc | .string _ _, _, hc | .func _ _ _, _, hc
  | .table _ _, _, hc | .name _ _, _, hc | .index _ _ _, _, hc | .namedIndex _ _ _, _, hc | .call _ _ _, _, hc
  | .method _ _ _ _, _, hc => change 100 ≤ _ at hc; exact ⟨by show lp o ≤ 100; omega, by omega⟩

theorem right_ok {o : BOp} {r : Expr} (hn : needBin sty.brOpts o false r.kind = false) : rp o < lowM r := by
  obtain ⟨_, _, sR, _⟩ := sound_facts sty
  have tf := table_facts o
  match r, hn with
  | .binop _ o2 _ _, hn => exact sR o o2 hn
  | .unop _ u _, _ | .nil _, _ | .bool _ _, _ | .vararg _, _ | .number _ _, _ | .string _ _, _ | .func _ _ _, _
  | .table _ _, _ | .name _ _, _ | .index _ _ _, _ | .namedIndex _ _ _, _ | .call _ _ _, _
  | .method _ _ _ _, _ => show rp o < 100; omega

theorem un_ok {u : UOp} {x : Expr} (hn : needUn sty.brOpts u x.kind = false) : UPRI < lowM x := by
  obtain ⟨_, _, _, sU⟩ := sound_facts sty
  match x, hn with
  | .binop _ o2 _ _, hn => exact sU u o2 hn
  | .unop _ u _, _ | .nil _, _ | .bool _ _, _ | .vararg _, _ | .number _ _, _ | .string _ _, _ | .func _ _ _, _
  | .table _ _, _ | .name _ _, _ | .index _ _ _, _ | .namedIndex _ _ _, _ | .call _ _ _, _
  | .method _ _ _ _, _ => show UPRI < 100; simp [UPRI]

theorem hdLp_bop (o : BOp) (ts : List Spec.Tok) : hdLp (mkTok (bopTk o) :: ts) = lp o := by
  simp [hdLp]

theorem sfx_bop (o : BOp) : sfx (bopTk o) = false := by cases o <;> rfl

theorem binop_step {t : Token} {o : BOp} {l r : Expr} (hl : EProp semi sty l) (hr : EProp semi sty r) :
    EProp semi sty (.binop t o l r) := by
  intro g F limit rest hg hF hlim hs hcap
  simp only [nE] at hg hF ⊢
  simp only [lowM] at hlim
  simp only [capM] at hcap
  have tf := table_facts o
  -- left operand
  obtain ⟨F1, hF1, h1⟩ := wrap_step hl (needBin sty.brOpts o true l.kind) g F limit
    (mkTok (bopTk o) :: (TK semi (if needBin sty.brOpts o false r.kind then wrapParens (visitExpr sty r) else visitExpr sty r) ++ rest))
    (by omega) (by omega)
    (by intro hn; rw [hdLp_bop]; have := left_ok (sty := sty) hn; omega)
    (by simp [sfx_bop])
  obtain ⟨F1, rfl⟩ : ∃ f, F1 = f + 1 := ⟨F1 - 1, by omega⟩
  -- right operand
  obtain ⟨F2, hF2, h2⟩ := wrap_step hr (needBin sty.brOpts o false r.kind) g F1 (rp o) rest (by omega) (by omega)
    (by
      intro hn
      rw [hn] at hcap
      simp only [Bool.false_eq_true, if_false] at hcap
      exact ⟨right_ok hn, by omega⟩)
    hs
  obtain ⟨F2, rfl⟩ : ∃ f, F2 = f + 1 := ⟨F2 - 1, by omega⟩
  rw [climbLoop_stop _ _ _ _ _ (by omega)] at h2
  refine ⟨F1, by omega, ?_⟩
  simp only [visitExpr, TK_append, TK_sep_space, TK_bop, List.append_assoc, List.cons_append, List.nil_append, refExpr]
  rw [h1]
  exact climbLoop_step g F1 limit _ o _ _ _ hlim h2

theorem unop_step {t : Token} {u : UOp} {x : Expr} (hx : EProp semi sty x) : EProp semi sty (.unop t u x) := by
  intro g F limit rest hg hF _ hs hcap
  simp only [nE] at hg hF ⊢
  simp only [capM] at hcap
  obtain ⟨F, rfl⟩ : ∃ f, F = f + 1 := ⟨F - 1, by omega⟩
  obtain ⟨F2, hF2, h2⟩ := wrap_step hx (needUn sty.brOpts u x.kind) g F UPRI rest (by omega) (by omega)
    (by
      intro hn
      rw [hn] at hcap
      simp only [Bool.false_eq_true, if_false] at hcap
      exact ⟨un_ok hn, by omega⟩)
    hs
  obtain ⟨F2, rfl⟩ : ∃ f, F2 = f + 1 := ⟨F2 - 1, by omega⟩
  rw [climbLoop_stop _ _ _ _ _ (by omega)] at h2
  refine ⟨F, by omega, ?_⟩
  have htk : TK semi (visitExpr sty (.unop t u x)) =
      mkTok (uopTk u) :: TK semi (if needUn sty.brOpts u x.kind then wrapParens (visitExpr sty x) else visitExpr sty x) := by
    simp only [visitExpr, TK_uop]
    by_cases h1 : needUn sty.brOpts u x.kind = true
    · simp [h1]
    · by_cases h3 : unSpace sty.brOpts u x.kind = true <;> simp [h1, h3]
  rw [htk, refExpr, List.cons_append]
  exact climb_un g F limit u _ _ _ h2

end Tumfl.Theory
