import Tumfl.Theory.ParserSimClimb
/-!
# Soundness of the model parser w.r.t. the reference parser: contracts of the 21 parse functions and the
symbolic-execution tactic
-/
namespace Tumfl.Theory
open Tumfl.Model Tumfl.Spec

theorem TkRel.beq_iff {t : Token} {k k0 : Tk} {ty : TT} [h0 : FixedTT ty k0] (hk : TkRel t k) :
    (t.type == ty) = true ↔ k = k0 := by
  rw [beq_iff_eq]; exact hk.type_iff h0.eq

theorem TkRel.eq_iff {t : Token} {k k0 : Tk} {ty : TT} [h0 : FixedTT ty k0] (hk : TkRel t k) :
    t.type = ty ↔ k = k0 := hk.type_iff h0.eq

/-- related and not a bare parenthesis (results of `_parse_var` in statement position) -/
def VarRel (e : Expr) (e' : Exp) : Prop := ExpRel e e' ∧ NoParen e'

/-- the `elseif` branches collected by `parseElseIfs` -/
def ElifRel (x : Token × Expr × Model.Block) (y : ElseIf) : Prop :=
  match y with
  | .mk c' b' => ExpRel x.2.1 c' ∧ BlockRel x.2.2 b'

/-- postcondition of `parseBlock tok e` started at `ts`, ending at `ts'` -/
def BlockPost (e : Bool) (ts : List Tok) (b : Model.Block) (ts' : List Tok) : Prop :=
  (e = false → pk ts' ≠ .kw "return") →
    ∃ c tsm, Ev (block · ts) (c, tsm) ∧ BlockRel b c ∧ (if e then pk tsm = .kw "end" ∧ ts' = tsm.tail else ts' = tsm)

theorem BlockPost.true {ts ts' : List Tok} {b : Model.Block} (h : BlockPost true ts b ts') :
    ∃ c tsm, Ev (block · ts) (c, tsm) ∧ BlockRel b c ∧ pk tsm = .kw "end" ∧ ts' = tsm.tail := by
  obtain ⟨c, tsm, h1, h2, h3⟩ := h (fun h => by cases h)
  exact ⟨c, tsm, h1, h2, by simpa using h3⟩

theorem BlockPost.false {ts ts' : List Tok} {b : Model.Block} (h : BlockPost false ts b ts')
    (hnr : pk ts' ≠ .kw "return") : ∃ c, Ev (block · ts) (c, ts') ∧ BlockRel b c := by
  obtain ⟨c, tsm, h1, h2, h3⟩ := h (fun _ => hnr)
  simp only [Bool.false_eq_true, if_false] at h3
  subst h3
  exact ⟨c, h1, h2⟩

theorem ParamsRel.of_names {l : List Expr} {ns : List String} (h : Forall₂ NameRel l ns) : ParamsRel l ns false := by
  induction h with
  | nil => exact .nil
  | cons h1 _ ih => exact .cons h1 ih

theorem ParamsRel.of_names_va {l : List Expr} {ns : List String} (t : Token) (h : Forall₂ NameRel l ns) :
    ParamsRel (l ++ [.vararg t]) ns true := by
  induction h with
  | nil => exact .vararg t
  | cons h1 _ ih => exact .cons h1 ih

structure AllSound (B : Bridge) (f : Nat) : Prop where
  parseBlock : ∀ (tok : Token) (e : Bool) ts, SPF B (Model.parseBlock f tok e) ts (BlockPost e ts)
  parseStatements : ∀ ts, SPF B (Model.parseStatements f) ts (fun r ts' =>
    blockEndTk (pk ts') = true ∧ ∃ ss, Forall₂ StmtRel r ss ∧
      ∀ rt tsE, Ev (statlist · ts') ([], rt, tsE) → Ev (statlist · ts) (ss, rt, tsE))
  parseStatement : ∀ ts, SPF B (Model.parseStatement f) ts (fun r ts' => ∃ s', Ev (statement · ts) (s', ts') ∧ StmtRel r s')
  parseDotted : ∀ ts, SPF B (Model.parseDotted f) ts (fun r ts' => ∃ ns, Ev (dottedRest · ts) (ns, ts') ∧ Forall₂ NameRel r ns)
  parseAttNames : ∀ ts, SPF B (Model.parseAttNames f) ts (fun r ts' =>
    ∃ ns, Ev (attnamelist · ts) (ns, ts') ∧ Forall₂ AttRel r ns)
  parseIf : ∀ ts, SPF B (Model.parseIf f) ts (fun r ts' => ∃ s', Ev (statement · ts) (s', ts') ∧ StmtRel r s')
  parseElseIfs : ∀ ts, SPF B (Model.parseElseIfs f) ts (fun r ts' =>
    pk ts' ≠ .kw "return" → pk ts ≠ .kw "return" ∧ ∃ elifs, Forall₂ ElifRel r elifs ∧
      ∀ els tsE, Ev (ifrest · ts') ([], els, tsE) → Ev (ifrest · ts) (elifs, els, tsE))
  parseFuncBody : ∀ (tok : Token) ts, SPF B (Model.parseFuncBody f tok) ts (fun r ts' =>
    ∃ ps va b, Ev (body · ts) (ps, va, b, ts') ∧ ParamsRel r.1 ps va ∧ BlockRel r.2 b)
  parseNameList_some : ∀ (n : Expr) ts, SPF B (Model.parseNameList f (some n) false) ts (fun r ts' =>
    ∃ ns rest, r = n :: rest ∧ Ev (namelistRest · ts) (ns, ts') ∧ Forall₂ NameRel rest ns)
  parseNameList_none : ∀ ts, SPF B (Model.parseNameList f none true) ts (fun r ts' =>
    ∃ ns va, Ev (parlist1 · ts) (ns, va, if va then ts'.tail else ts') ∧ (va = true ↔ pk ts' = .sym "...") ∧
      Forall₂ NameRel r ns)
  parseNames_false : ∀ ts, SPF B (Model.parseNames f false) ts (fun r ts' =>
    ∃ n ns, pk ts = .name n ∧ Ev (namelistRest · ts.tail) (ns, ts') ∧ Forall₂ NameRel r (n :: ns))
  parseNames_true : ∀ ts, SPF B (Model.parseNames f true) ts (fun r ts' =>
    ∃ ns va, Ev (parlist1 · ts) (ns, va, if va then ts'.tail else ts') ∧ (va = true ↔ pk ts' = .sym "...") ∧
      Forall₂ NameRel r ns)
  parseExpList : ∀ ts, SPF B (Model.parseExpList f) ts (fun r ts' =>
    ∃ es, Ev (explist · ts) (es, ts') ∧ Forall₂ ExpRel r es ∧ r ≠ [])
  parseVarStmt : ∀ ts, SPF B (Model.parseVarStmt f) ts (fun r ts' => ∃ s', Ev (statement · ts) (s', ts') ∧ StmtRel r s')
  parseMoreVars : ∀ ts, SPF B (Model.parseMoreVars f) ts (fun r ts' =>
    ∃ vs, Ev (restassign · ts) (vs, ts') ∧ Forall₂ VarRel r vs)
  parseExp : ∀ ts, SPF B (Model.parseExp f) ts (fun e ts' => ∃ e', Ev (expr · ts) (e', ts') ∧ ExpRel e e')
  parseAtom : ∀ ts, SPF B (Model.parseAtom f) ts (fun e ts' => ∃ e', Ev (simpleexp · ts) (e', ts') ∧ ExpRel e e')
  parseVar : ∀ (b : Bool) ts, SPF B (Model.parseVar f b) ts (fun e ts' =>
    ∃ e', Ev (suffixedexp · ts) (e', ts') ∧ ExpRel e e' ∧ (b = true → NoParen e') ∧ primaryTk (pk ts) = true)
  parseVarTerminal : ∀ (base : Expr) (base' : Exp) ts, ExpRel base base' →
    SPF B (Model.parseVarTerminal f base) ts (fun e ts' => ∃ e', Ev (suffixes · base' ts) (e', ts') ∧ VarRel e e')
  parseTable : ∀ ts, SPF B (Model.parseTable f) ts (fun e ts' =>
    ∃ fs, pk ts = .sym "{" ∧ Ev (fields · ts.tail) (fs, ts') ∧ ExpRel e (.table fs))
  parseFields : ∀ ts, SPF B (Model.parseFields f) ts (fun r ts' =>
    pk ts' = .sym "}" → ∃ fs, Ev (fields · ts) (fs, ts'.tail) ∧ Forall₂ FieldRel r fs)
  parseField : ∀ ts, SPF B (Model.parseField f) ts (fun r ts' => ∃ fd, Ev (fieldOne · ts) (fd, ts') ∧ FieldRel r fd)
  parseArgs : ∀ ts, SPF B (Model.parseArgs f) ts (fun r ts' =>
    ∃ args, Ev (funcargs · ts) (args, ts') ∧ Forall₂ ExpRel r args ∧ argsTk (pk ts) = true)

macro "guard_sp" : tactic => `(tactic| with_reducible show SPF _ _ _ _)

/-- introduce one hypothesis, destructuring existentials and conjunctions -/
syntax "destr" : tactic
macro_rules
  | `(tactic| destr) => `(tactic| first
    | (refine exists_imp.2 ?_; intro _; destr)
    | (refine and_imp.2 ?_; destr; destr)
    | intro _)

/-- a call of a function with an `SPF` contract whose postcondition is an existential/conjunction -/
syntax "sp_call " term : tactic
macro_rules
  | `(tactic| sp_call $t) => `(tactic| (refine SPF_call $t ?_; intro _ _; destr))

/-- explicit use of a contract -/
syntax "sp_use " term : tactic
macro_rules
  | `(tactic| sp_use $t) => `(tactic| (refine SPF_call $t ?_; intro _ _; with_reducible destr))

/-- one syntax-directed step -/
syntax "sp_step " ident : tactic
macro_rules
  | `(tactic| sp_step $ih) => `(tactic| (guard_sp; with_reducible first
    | apply SPF_pure
    | apply SPF_perror
    | apply SPF_pyerr
    | (refine SPF_curTok fun _ _ => ?_)
    | (refine SPF_nxtTok fun _ _ => ?_)
    | (refine SPF_curIs ?_)
    | (refine SPF_eatSome (fun _ => ?_))
    | (refine SPF_eatNone ?hne ?_; try (case hne => (simp [*]; done)))
    | (refine SPF_eatName fun _ _ _ _ => ?_)
    | (refine SPF_assertName fun _ _ => ?_)
    | apply SPF_addHint
    | apply SPF_removeHint
    | apply SPF_switchHint
    | sp_call (($ih).parseBlock _ _ _)
    | sp_call (($ih).parseStatements _)
    | sp_call (($ih).parseStatement _)
    | sp_call (($ih).parseDotted _)
    | sp_call (($ih).parseAttNames _)
    | sp_call (($ih).parseIf _)
    | sp_call (($ih).parseElseIfs _)
    | sp_call (($ih).parseFuncBody _ _)
    | sp_call (($ih).parseNameList_some _ _)
    | sp_call (($ih).parseNameList_none _)
    | sp_call (($ih).parseNames_false _)
    | sp_call (($ih).parseNames_true _)
    | sp_call (($ih).parseExpList _)
    | sp_call (($ih).parseVarStmt _)
    | sp_call (($ih).parseMoreVars _)
    | sp_call (($ih).parseExp _)
    | sp_call (($ih).parseAtom _)
    | sp_call (($ih).parseVar _ _)
    | sp_call (($ih).parseTable _)
    | sp_call (($ih).parseFields _)
    | sp_call (($ih).parseField _)
    | sp_call (($ih).parseArgs _)
    | apply SPF_bind
    | apply SPF_map
    | (refine SPF_ite_beq (fun _ => ?_) (fun _ => ?_))
    | (refine SPF_ite_ty (by assumption) (fun _ => ?_) (fun _ => ?_))
    | (refine SPF_ite_name (by assumption) (fun _ _ => ?_) (fun _ => ?_))
    | (apply SPF_ite <;> intro _)))
/-- split a `match` on the type of the current token, translating the equation to the reference token -/
macro "sp_split" : tactic =>
  `(tactic| (split <;> try (rename_i heq; first
    | have hp := (TkRel.eq_iff (by assumption)).1 heq
    | (have h := (TkRel.name_iff (by assumption)).1 heq; obtain ⟨_, hp⟩ := h)
    | (have h := (TkRel.str_iff (by assumption)).1 heq; obtain ⟨_, hp⟩ := h)
    | (have h := (TkRel.num_iff (by assumption)).1 heq; obtain ⟨_, hp⟩ := h))))
macro "sp " ih:ident : tactic => `(tactic| repeat' sp_step $ih)

end Tumfl.Theory
