import Tumfl.Theory.ParserSimComplete5
/-!
# Completeness, step lemmas: blocks, `if`
-/
namespace Tumfl.Theory
open Tumfl.Model Tumfl.Spec

variable {B : Bridge} (hC : B.Complete)
include hC

theorem block_complete_step {f' : Nat} (ih : AllComplete B f') (ts : List Tok) (c : Spec.Block) (ts' : List Tok)
    (h : Spec.block (f' + 1) ts = .ok (c, ts')) (tok : Token) (e : Bool) (n : Nat) (he : e = true → pk ts' = .kw "end") :
    TPF B (fun g => Model.parseBlock g tok e) ts n n
      (fun b tsx => tsx = (if e then ts'.tail else ts') ∧ BlockRel b c) := by
  rw [Spec.block] at h
  inv h
  rename_i ss rt hsl
  obtain ⟨ts1, hT, hR⟩ := ih.statlist _ _ _ _ hsl
  refine TPF_succ ?_
  simp only [parseBlock_succ]
  apply TPF_bind
  tp_call (hT _)
  apply TPF_bind
  tp_call (hR _)
  cases e
  · simp only [Bool.false_eq_true, if_false]
    tp hC ih
    exact ⟨rfl, .mk' asm asm⟩
  · have := he rfl
    simp only [if_true]
    tp hC ih
    exact ⟨rfl, .mk' asm asm⟩

theorem ifrest_complete_step {f' : Nat} (ih : AllComplete B f') (ts : List Tok) (elifs : List ElseIf)
    (els : Option Spec.Block) (ts' : List Tok) (h : Spec.ifrest (f' + 1) ts = .ok (elifs, els, ts')) : ∃ ts1 ts2,
    (∀ n, TPF B (fun g => Model.parseElseIfs g) ts (n + 1) (n + 1) (fun r tsx => tsx = ts1 ∧ Forall₂ ElifRel r elifs)) ∧
    (∀ n, TPF B elseCode ts1 (n + 1) (n + 1) (fun r tsx => tsx = ts2 ∧ OptBlockRel r els)) ∧
    pk ts2 = .kw "end" ∧ ts' = ts2.tail := by
  rw [Spec.ifrest] at h
  inv h
  · rename_i hrec
    obtain ⟨ts1, ts2, hT, hE, hend, rfl⟩ := ih.ifrest _ _ _ _ hrec
    refine ⟨ts1, ts2, fun n => ?_, hE, hend, rfl⟩
    refine TPF_succ ?_
    simp only [Model.parseElseIfs]
    tp hC ih
    tp_call (hT _)
    tp hC ih
    exact ⟨rfl, .cons ⟨asm, asm⟩ asm⟩
  · rename_i b ts2 hb hend
    refine ⟨ts, ts2, fun n => ?_, fun n => ?_, hend, rfl⟩
    · refine TPF_succ ?_
      simp only [Model.parseElseIfs]
      tp hC ih
      exact ⟨rfl, .nil⟩
    · unfold elseCode
      tp hC ih
      exact ⟨rfl, asm⟩
  · refine ⟨ts, ts, fun n => ?_, fun n => ?_, asm, rfl⟩
    · refine TPF_succ ?_
      simp only [Model.parseElseIfs]
      tp hC ih
      exact ⟨rfl, .nil⟩
    · unfold elseCode
      tp hC ih
      exact ⟨rfl, trivial⟩

end Tumfl.Theory
