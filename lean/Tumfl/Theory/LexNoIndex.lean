import Tumfl.Model.Lexer
/-!
# The lexer never raises an `IndexError`

`NoIndexError e` : `e` is not a Python `IndexError` (at any site).  Every error of `getNextToken`
is a `LexerError`, an `AssertionError`, an out-of-model marker or the fuel error.
-/
namespace Tumfl.Theory
open Tumfl.Model

/-- `e` is not an `IndexError` -/
def NoIndexError (e : PyErr) : Prop := ∀ site, e ≠ .py "IndexError" site

/-- all errors of a result are not `IndexError`s -/
def ErrOK {α : Type} (r : Except PyErr α) : Prop := ∀ e, r = .error e → NoIndexError e

variable {α : Type}

theorem ErrOK_ok (x : α) : ErrOK (.ok x : Except PyErr α) := by intro e h; cases h
theorem ErrOK_fuel : ErrOK (.error .fuel : Except PyErr α) := by
  intro e h; cases h; intro site h2; cases h2
theorem ErrOK_lexer (m l c) : ErrOK (.error (.lexer m l c) : Except PyErr α) := by
  intro e h; cases h; intro site h2; cases h2
theorem ErrOK_lexError (m s) : ErrOK (lexError m s : Except PyErr α) := ErrOK_lexer _ _ _
theorem ErrOK_lexErrorAt (m l c) : ErrOK (lexErrorAt m l c : Except PyErr α) := ErrOK_lexer _ _ _
theorem ErrOK_py {k : String} (hk : k ≠ "IndexError") (site) : ErrOK (.error (.py k site) : Except PyErr α) := by
  intro e h; cases h; intro site h2; injection h2 with h3 _; exact hk h3
theorem ErrOK_of_eq {β : Type} {r : Except PyErr β} {e : PyErr} (h : r = .error e) (hr : ErrOK r) :
    ErrOK (.error e : Except PyErr α) := by
  intro e' h'; cases h'; exact hr e h

/-- leaves of the case analysis -/
macro "errok_leaf" : tactic => `(tactic| with_reducible first
  | apply ErrOK_ok
  | apply ErrOK_fuel
  | apply ErrOK_lexer
  | apply ErrOK_lexError
  | apply ErrOK_lexErrorAt
  | exact ErrOK_py (by decide) _)

/-- case analysis with the given extra closing tactic for sub-calls -/
macro "errok_cases" : tactic => `(tactic| repeat' (first | errok_leaf | split | dsimp only))
macro "errok_cases" " with " t:tactic : tactic =>
  `(tactic| repeat' (first | errok_leaf | ($t:tactic) | split | dsimp only))

/-- close `ErrOK (.error e)` from the equation `callee = .error e` that `split` just introduced -/
syntax "errok_sub " term : tactic
macro_rules
  | `(tactic| errok_sub $t) => `(tactic| (rename_i h; exact ErrOK_of_eq h $t))

theorem longBody_ok (equals line0 col0) : ∀ f s ce acc, ErrOK (longBody equals line0 col0 f s ce acc) := by
  intro f
  induction f with
  | zero => intros; rw [longBody]; errok_leaf
  | succ f ih =>
    intro s ce acc
    rw [longBody]
    errok_cases with apply ih

theorem getLongBrackets_ok (s) : ErrOK (getLongBrackets s) := by
  unfold getLongBrackets
  errok_cases with apply longBody_ok

theorem skipComment_ok (s) : ErrOK (skipComment s) := by
  unfold skipComment
  errok_cases with errok_sub (getLongBrackets_ok _)

theorem getName_ok (s) : ErrOK (getName s) := by
  unfold getName
  errok_cases

theorem safeDecode_ok (i b s) : ErrOK (safeDecode i b s) := by
  unfold safeDecode
  errok_cases

theorem safeCodePoint_ok (i b s) : ErrOK (safeCodePoint i b s) := by
  unfold safeCodePoint
  errok_cases

theorem escapeSeq_ok (i s) : ErrOK (escapeSeq i s) := by
  unfold escapeSeq
  errok_cases with first
    | errok_sub (safeDecode_ok _ _ _)
    | errok_sub (safeCodePoint_ok _ _ _)

theorem stringLoop_ok (i closing) : ∀ f esc s acc, ErrOK (stringLoop i closing f esc s acc) := by
  intro f
  induction f with
  | zero => intros; rw [stringLoop]; errok_leaf
  | succ f ih =>
    intro esc s acc
    rw [stringLoop]
    errok_cases with first
      | apply ih
      | errok_sub (escapeSeq_ok _ _)

theorem getString_ok (i s) : ErrOK (getString i s) := by
  unfold getString
  errok_cases with apply stringLoop_ok

theorem nextTokenLoop_ok (cfg) : ∀ f s, ErrOK (nextTokenLoop cfg f s) := by
  intro f
  induction f with
  | zero => intros; rw [nextTokenLoop]; errok_leaf
  | succ f ih =>
    intro s
    rw [nextTokenLoop]
    errok_cases with first
      | apply ih
      | errok_sub (skipComment_ok _)
      | errok_sub (getName_ok _)
      | errok_sub (getString_ok _ _)
      | errok_sub (getLongBrackets_ok _)

theorem getNextToken_ok (cfg s) : ErrOK (getNextToken cfg s) := by
  unfold getNextToken
  exact nextTokenLoop_ok _ _ _

/-- **the lexer raises no `IndexError`** -/
theorem getNextToken_noIndexError (cfg : LexCfg) (s : LexSt) (e : PyErr) :
    getNextToken cfg s = .error e → NoIndexError e := getNextToken_ok cfg s e

end Tumfl.Theory
