import Tumfl.Theory.ParserSimComplete2
/-!
# Completeness, step lemmas: tables, arguments
-/
namespace Tumfl.Theory
open Tumfl.Model Tumfl.Spec

variable {B : Bridge} (hC : B.Complete)
include hC

theorem fieldOne_complete {f' : Nat} (ih : AllComplete B f') (ts : List Tok) (fd : Spec.Field) (ts1 : List Tok)
    (h : fieldOne f' ts = .ok (fd, ts1)) (n : Nat) :
    TPF B (fun g => Model.parseField g) ts n n (fun r tsx => tsx = ts1 ∧ FieldRel r fd) := by
  refine TPF_succ ?_
  simp only [Model.parseField]
  unfold fieldOne at h
  inv h
  all_goals tp hC ih
  · rename_i nx hnx
    have hne : pk ts ≠ .eof := by simp [*]
    have hn := type_of_pk' (hnx hne) asm
    simp only [hn]
    tp hC ih
    exact ⟨rfl, .named _ asm asm⟩
  · rename_i nx hnx
    have hne : pk ts ≠ .eof := by simp [*]
    apply TPF_ite_neg (by simp [(hnx hne).beq_iff, *])
    tp hC ih
    exact ⟨rfl, .pos _ asm⟩
  · exact ⟨rfl, .keyed _ asm asm⟩
  · rename_i hnn hnb _ _ _ t hk nx hnx
    apply TPF_ite_neg (by simpa [hk.beq_iff] using hnb)
    have : t.type ≠ .NAME := fun h => by obtain ⟨m, hm⟩ := hk.name_iff.1 h; exact hnn m hm
    apply TPF_ite_neg (by simp [this])
    tp hC ih
    exact ⟨rfl, .pos _ asm⟩

theorem fields_complete_step {f' : Nat} (ih : AllComplete B f') (ts : List Tok) (fs : List Spec.Field) (ts' : List Tok)
    (h : Spec.fields (f' + 1) ts = .ok (fs, ts')) : ∃ ts1,
    (∀ n, TPF B (fun g => Model.parseFields g) ts n n (fun r tsx => tsx = ts1 ∧ Forall₂ FieldRel r fs)) ∧
    pk ts1 = .sym "}" ∧ ts' = ts1.tail := by
  rw [fields_succ] at h
  inv h
  · refine ⟨ts, fun n => ?_, asm, rfl⟩
    refine TPF_succ ?_
    simp only [Model.parseFields]
    tp hC ih
    exact ⟨rfl, .nil⟩
  · rename_i hncl fd ts1 hfd hsep fs' ts2 hrec
    obtain ⟨tsc, hT, hcl, rfl⟩ := ih.fields _ _ _ hrec
    refine ⟨tsc, fun n => ?_, hcl, rfl⟩
    refine TPF_succ ?_
    simp only [Model.parseFields]
    tp hC ih
    rename_i t hk
    apply TPF_ite_neg (by simp [hk.beq_iff, hncl, fieldOne_ok_ne_eof hfd])
    apply TPF_bind
    tp_call (fieldOne_complete hC ih _ _ _ hfd _)
    tp hC ih
    rename_i t2 hk2
    apply TPF_ite_pos (by simpa [hk2.beq_iff] using hsep)
    apply TPF_bind
    refine TPF_eatNone hC (by rcases hsep with h | h <;> simp [h]) ?_
    apply TPF_bind
    tp_call (hT _)
    tp hC ih
    exact ⟨rfl, .cons asm asm⟩
  · rename_i hncl fd ts1 hfd hsep hcl
    refine ⟨ts1, fun n => ?_, hcl, rfl⟩
    refine TPF_succ ?_
    simp only [Model.parseFields]
    tp hC ih
    rename_i t hk
    apply TPF_ite_neg (by simp [hk.beq_iff, hncl, fieldOne_ok_ne_eof hfd])
    apply TPF_bind
    tp_call (fieldOne_complete hC ih _ _ _ hfd _)
    tp hC ih
    exact ⟨rfl, .cons asm .nil⟩

theorem parseTable_complete {f' : Nat} (ih : AllComplete B f') (ts : List Tok) (fs : List Spec.Field) (ts' : List Tok)
    (hp : pk ts = .sym "{") (h : Spec.fields f' ts.tail = .ok (fs, ts')) (n : Nat) :
    TPF B (fun g => Model.parseTable g) ts n n (fun e tsx => tsx = ts' ∧ ExpRel e (.table fs)) := by
  obtain ⟨ts1, hT, hcl, rfl⟩ := ih.fields _ _ _ h
  refine TPF_succ ?_
  simp only [Model.parseTable]
  tp hC ih
  tp_call (hT _)
  tp hC ih
  exact ⟨rfl, .table _ asm⟩

theorem funcargs_complete_step {f' : Nat} (ih : AllComplete B f') (ts : List Tok) (args : List Exp) (ts' : List Tok)
    (h : Spec.funcargs (f' + 1) ts = .ok (args, ts')) (n : Nat) :
    TPF B (fun g => Model.parseArgs g) ts n n (fun r tsx => tsx = ts' ∧ Forall₂ ExpRel r args) := by
  refine TPF_succ ?_
  simp only [Model.parseArgs]
  rw [Spec.funcargs] at h
  inv h
  all_goals tp hC ih
  · exact ⟨rfl, .nil⟩
  · exact ⟨rfl, asm⟩
  · tp_call (parseTable_complete hC ih _ _ _ asm asm _)
    tp hC ih
    exact ⟨rfl, .cons asm .nil⟩
  · rename_i v _ t hk hp _
    rw [hp] at hk
    have hval := hk.str_val
    subst hval
    exact ⟨rfl, .cons (.str _ _) .nil⟩

end Tumfl.Theory
