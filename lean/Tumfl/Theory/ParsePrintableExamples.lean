import Tumfl.Theory.ParsePrintable
/-!
# `parseText_printable` is not vacuous: kernel-checked instances

A concrete program (every statement kind, the numerals `5.` and `0x.8` whose printed form differs from the source, `as` /
`is` used as names) is parsed successfully, so the theorem applies to it; the two special numerals satisfy `numOKp`
(evaluated: they print as `5` and `0x1.8`, which the reference grammar reads as canonical numerals).
-/
namespace Tumfl.Theory
open Tumfl.Model

def isOkP (r : Except PyErr (Model.Block × List Hint)) : Bool :=
  match r with
  | .ok _ => true
  | .error _ => false

theorem ok_of_isOkP {r : Except PyErr (Model.Block × List Hint)} (h : isOkP r = true) : ∃ b hs, r = .ok (b, hs) := by
  cases r with
  | error e => cases h
  | ok p => exact ⟨p.1, p.2, rfl⟩

def printableExample : List Char :=
  ("local a <const>, is = 5., 0x.8; local function f(x, ...) return x, ... end " ++
   "function t.a.b:m(as) for i = 1, 0XA.8P1, 2 do t[i] = -i ^ 2 .. 'x' end end " ++
   "for k, v in pairs{1, [2] = 3, z = 4; f} do if k then goto done elseif v then (f)(k):g[[s]] else break end end " ++
   "::done:: repeat a.b.c, a = a, 3e-2 until not a while true do do end end return f\"\", .5e+1;").toList

theorem printableExample_parses : isOkP (parseText printableExample) = true := by decide +kernel

/-- the theorem applies to the example -/
theorem printableExample_printable : ∃ b hs, parseText printableExample = .ok (b, hs) ∧ Printable b := by
  obtain ⟨b, hs, h⟩ := ok_of_isOkP printableExample_parses
  exact ⟨b, hs, h, parseText_printable _ _ _ h⟩

/-- `5.` is scanned to a tuple that prints as `5`, `0x.8` to one that prints as `0x1.8`: both satisfy `numOKp` -/
theorem numOKp_K2 : numOKp (getNumber (initLex "5.".toList)).1 = true ∧
    numberStr (getNumber (initLex "5.".toList)).1 = "5".toList := by decide +kernel

theorem numOKp_K3 : numOKp (getNumber (initLex "0x.8".toList)).1 = true ∧
    numberStr (getNumber (initLex "0x.8".toList)).1 = "0x1.8".toList := by decide +kernel

end Tumfl.Theory

