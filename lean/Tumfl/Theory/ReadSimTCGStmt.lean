import Tumfl.Theory.ReadSimTCGTable
/-!
# Statements, for every reading
-/
namespace Tumfl.Theory.TCGSim
open Tumfl.Model Tumfl.Spec

variable {sty : Style}

/-! ## the pieces of nested blocks -/

theorem AllRd_blk (sty : Style) (b : Model.Block) (h : b.isChunk = false) {p : Option (List Char)}
    {K : List Spec.Tok → Prop} :
    AllRd p (blk b (visitBlockFull sty b)) K ↔
      ∀ s, SemiOpt s → AllRd (some "do".toList) (bodyPieces sty b.stmts b.rets) fun kb =>
        K (mkTok (.kw "do") :: (s ++ (kb ++ [mkTok (.kw "end")]))) := by
  obtain ⟨t, ss, rets, c⟩ := b
  simp only [Block.isChunk] at h
  subst h
  simp only [blk, Block.isChunk, Bool.false_eq_true, if_false]
  rw [visitBlockFull_eq]
  simp only [List.append_assoc, List.cons_append, List.nil_append, AllRd_do_kw, AllRd_block, AllRd_indent, AllRd_append,
    AllRd_deindent, AllRd_end_kw, AllRd_nil, Block.stmts, Block.rets]

theorem AllRd_slice21 (sty : Style) (b : Model.Block) (h : b.isChunk = false) {p : Option (List Char)}
    {K : List Spec.Tok → Prop} :
    AllRd p (sliceInner 2 1 (blk b (visitBlockFull sty b))) K ↔ AllRd p (bodyPieces sty b.stmts b.rets) K := by
  obtain ⟨t, ss, rets, c⟩ := b
  simp only [Block.isChunk] at h
  subst h
  simp only [blk, Block.isChunk, Bool.false_eq_true, if_false]
  rw [visitBlockFull_eq]
  have : [P "do", S .block, S .indent] ++ bodyPieces sty ss rets ++ [S .deindent, P "end"] =
      [P "do", S .block] ++ ([S .indent] ++ bodyPieces sty ss rets ++ [S .deindent]) ++ [P "end"] := by simp
  rw [this, sliceInner_mid _ _ _ 2 1 rfl rfl]
  simp only [List.append_assoc, List.cons_append, List.nil_append, AllRd_indent, AllRd_append, AllRd_deindent, AllRd_nil,
    List.append_nil, Block.stmts, Block.rets]

/-! ## the properties -/

/-- `statement` on the tokens of a printed statement (one that prints something); `tr`: the statement's own trailing
separator, if it is read as `;` -/
def StmtPropR (sty : Style) (s : Stmt) : Prop :=
  droppedSemi sty s = false → ∀ p, AllRd p (visitStmt sty s) fun ks => StmtHeadR sty s ks ∧
    ∃ c tr, SemiOpt tr ∧ StmtRel (dsStmt s) (deStat c) ∧ isEmptyStat c = isSemi s ∧ StmtBody ks c tr

def FalsePropR (sty : Style) (fl : IfFalse) : Prop :=
  ∀ p, AllRd p (visitFalse sty fl) fun ks => (∀ rest, blockFollow true (pk (ks ++ mkTok (.kw "end") :: rest)) = true) ∧
    ∃ elifs els, IfFalseRel (dsFalse fl) (deElifs elifs) (deOptBlock els) ∧
      ∀ F rest, 4 * (ks.length + 1) ≤ F → ifrest F (ks ++ mkTok (.kw "end") :: rest) = .ok (elifs, els, rest)

/-! ## simple statements -/

theorem brk_SR (t : Token) : StmtPropR sty (.brk t) := by
  intro _ p
  simp only [visitStmt, AllRd_break_kw, AllRd_nil]
  refine ⟨headKw _ rfl rfl, .brk, [], .inl rfl, by simp only [dsStmt, deStat]; exact .brk t, rfl, ?_⟩
  intro F rest hF _
  simp only [List.length_cons, List.length_nil] at hF
  obtain ⟨F, rfl⟩ : ∃ f, F = f + 1 := ⟨F - 1, by omega⟩
  rw [List.cons_append, statement]; simp

theorem semi_SR (t : Token) : StmtPropR sty (.semi t) := by
  intro hd p
  simp only [droppedSemi, isSemi, Bool.true_and, Bool.not_eq_false'] at hd
  simp only [visitStmt, hd, if_true, AllRd_semi, AllRd_nil]
  refine ⟨headKw _ rfl rfl, .empty, [], .inl rfl, by simp only [dsStmt, deStat]; exact .empty t, rfl, ?_⟩
  intro F rest hF _
  simp only [List.length_cons, List.length_nil] at hF
  obtain ⟨F, rfl⟩ : ∃ f, F = f + 1 := ⟨F - 1, by omega⟩
  rw [List.cons_append, statement]; simp

theorem goto_SR (t : Token) {l : Expr} (hl : nameNodeOK l = true) : StmtPropR sty (.goto t l) := by
  intro _ p
  simp only [visitStmt, List.cons_append, List.nil_append, AllRd_goto_kw, AllRd_space, AllRd_nameNode' sty hl]
  refine ⟨headKw _ rfl rfl, .goto (nameS l), [], .inl rfl,
    by simp only [dsStmt, deStat]; exact .goto t (NameRel_of_nameNodeOK hl), rfl, ?_⟩
  intro F rest hF _
  simp only [List.length_cons, List.length_nil] at hF
  obtain ⟨F, rfl⟩ : ∃ f, F = f + 1 := ⟨F - 1, by omega⟩
  rw [List.cons_append, statement]
  simp [expectName, bind, Except.bind]

theorem label_SR (t : Token) {l : Expr} (hl : nameNodeOK l = true) : StmtPropR sty (.label t l) := by
  intro _ p
  simp only [visitStmt, List.cons_append, AllRd_dcolon, AllRd_nameNode sty hl, AllRd_nil]
  refine ⟨headKw _ rfl rfl, .label (nameS l), [], .inl rfl,
    by simp only [dsStmt, deStat]; exact .label t (NameRel_of_nameNodeOK hl), rfl, ?_⟩
  intro F rest hF _
  simp only [List.length_cons, List.length_nil] at hF
  obtain ⟨F, rfl⟩ : ∃ f, F = f + 1 := ⟨F - 1, by omega⟩
  rw [List.cons_append, statement]
  simp [expectName, expectSym, isSym_mkTok, bind, Except.bind]

theorem block_SR {b : Model.Block} (hc : b.isChunk = false) (hb : BlockPropR sty b) : StmtPropR sty (.block b) := by
  intro _ p
  simp only [visitStmt, AllRd_blk sty b hc]
  intro s hs kb hkb
  obtain ⟨mk, rel, bb⟩ := hb _ kb hkb
  refine ⟨headKw _ rfl rfl, .doo (mk s), [], .inl rfl, by simp only [dsStmt, deStat]; exact .doo (rel s hs), rfl, ?_⟩
  intro F rest hF _
  simp only [List.length_cons, List.length_append, List.length_nil] at hF
  obtain ⟨F, rfl⟩ : ∃ f, F = f + 1 := ⟨F - 1, by omega⟩
  have h1 := bb s hs F (mkTok (.kw "end") :: rest) (by omega) (by rfl)
  rw [statement]
  simp only [List.cons_append, List.append_assoc, List.nil_append, pk_mkTok, tail_mkTok] at h1 ⊢
  simp [h1, expectKw, isKw_mkTok, bind, Except.bind]

theorem whl_SR {t : Token} {c : Expr} {b : Model.Block} (he : EPropR sty c) (hc : b.isChunk = false)
    (hb : BlockPropR sty b) : StmtPropR sty (.whl t c b) := by
  intro _ p
  simp only [visitStmt, List.append_assoc, List.cons_append, List.nil_append, AllRd_while_kw, AllRd_space, AllRd_append,
    AllRd_blk sty b hc]
  intro kc hkc s hs kb hkb
  obtain ⟨_, cc, relc, bc⟩ := he _ kc hkc
  obtain ⟨mk, rel, bb⟩ := hb _ kb hkb
  refine ⟨headKw _ rfl rfl, .whl cc (mk s), [], .inl rfl, by simp only [dsStmt, deStat]; exact .whl t relc (rel s hs), rfl, ?_⟩
  intro F rest hF _
  simp only [List.length_cons, List.length_append, List.length_nil] at hF
  obtain ⟨F, rfl⟩ : ∃ f, F = f + 1 := ⟨F - 1, by omega⟩
  have h1 := bb s hs F (mkTok (.kw "end") :: rest) (by omega) (by rfl)
  have h0 := expr_of_EBody bc F (mkTok (.kw "do") :: (s ++ (kb ++ mkTok (.kw "end") :: rest))) (by omega) (by simp [sfx])
    (by simp [hdLp, binOfTk])
  rw [statement]
  simp only [List.cons_append, List.append_assoc, List.nil_append, pk_mkTok, tail_mkTok] at h0 h1 ⊢
  simp [h0, h1, expectKw, isKw_mkTok, bind, Except.bind]

theorem repeat_SR {t : Token} {c : Expr} {b : Model.Block} (he : EPropR sty c) (hc : b.isChunk = false)
    (hb : BlockPropR sty b) : StmtPropR sty (.repeat t c b) := by
  intro _ p
  simp only [visitStmt, List.append_assoc, List.cons_append, List.nil_append, AllRd_repeat_kw, AllRd_block, AllRd_append,
    AllRd_slice21 sty b hc, AllRd_until_kw, AllRd_space]
  intro s hs kb hkb kc hkc
  obtain ⟨_, cc, relc, bc⟩ := he _ kc hkc
  obtain ⟨mk, rel, bb⟩ := hb _ kb hkb
  refine ⟨headKw _ rfl rfl, .rep (mk s) cc, [], .inl rfl, by simp only [dsStmt, deStat]; exact .rep t relc (rel s hs), rfl, ?_⟩
  intro F rest hF hsafe
  obtain ⟨hs1, hs2, _, _⟩ := safe_facts hsafe
  simp only [List.length_cons, List.length_append, List.length_nil] at hF
  obtain ⟨F, rfl⟩ : ∃ f, F = f + 1 := ⟨F - 1, by omega⟩
  have h0 := expr_of_EBody bc F rest (by omega) hs1 hs2
  have h1 := bb s hs F (mkTok (.kw "until") :: (kc ++ rest)) (by omega) (by rfl)
  rw [statement]
  simp only [List.cons_append, List.append_assoc, List.nil_append, pk_mkTok, tail_mkTok] at h0 h1 ⊢
  simp [h0, h1, expectKw, isKw_mkTok, bind, Except.bind]

/-! ## `if` -/

theorem none_FlR : FalsePropR sty .none := by
  unfold FalsePropR
  intro p
  simp only [visitFalse, AllRd_nil]
  refine ⟨by intro rest; rfl, [], none, by simp only [dsFalse, deElifs, deOptBlock]; exact .none, ?_⟩
  intro F rest hF
  obtain ⟨F, rfl⟩ : ∃ f, F = f + 1 := ⟨F - 1, by omega⟩
  rw [List.nil_append, ifrest]
  simp [isKw_mkTok, expectKw, bind, Except.bind]

theorem else_FlR {b : Model.Block} (hc : b.isChunk = false) (hb : BlockPropR sty b) : FalsePropR sty (.block b) := by
  unfold FalsePropR
  intro p
  simp only [visitFalse, List.cons_append, List.nil_append, AllRd_else_kw, AllRd_block, AllRd_slice21 sty b hc]
  intro s hs kb hkb
  obtain ⟨mk, rel, bb⟩ := hb _ kb hkb
  refine ⟨by intro rest; rfl, [], some (mk s), by simp only [dsFalse, deElifs, deOptBlock]; exact .els (rel s hs), ?_⟩
  intro F rest hF
  simp only [List.length_cons, List.length_append] at hF
  obtain ⟨F, rfl⟩ : ∃ f, F = f + 1 := ⟨F - 1, by omega⟩
  have h1 := bb s hs F (mkTok (.kw "end") :: rest) (by omega) (by rfl)
  rw [ifrest]
  simp only [List.cons_append, List.append_assoc, tail_mkTok] at h1 ⊢
  simp [isKw_mkTok, h1, expectKw, bind, Except.bind]

theorem elif_FlR {t : Token} {c : Expr} {b : Model.Block} {fl : IfFalse} (he : EPropR sty c) (hc : b.isChunk = false)
    (hb : BlockPropR sty b) (hfl : FalsePropR sty fl) : FalsePropR sty (.elif t c b fl) := by
  unfold FalsePropR
  intro p
  simp only [visitFalse, List.append_assoc, List.cons_append, List.nil_append, AllRd_elseif_kw, AllRd_space, AllRd_append,
    AllRd_then_kw, AllRd_block, AllRd_slice21 sty b hc]
  intro kc hkc s hs kb hkb kf hkf
  obtain ⟨_, cc, relc, bc⟩ := he _ kc hkc
  obtain ⟨mk, rel, bb⟩ := hb _ kb hkb
  obtain ⟨hdf, elifs, els, relf, bf⟩ := hfl _ kf hkf
  refine ⟨by intro rest; rfl, .mk cc (mk s) :: elifs, els,
    by simp only [dsFalse, deElifs]; exact .elif t relc (rel s hs) relf, ?_⟩
  intro F rest hF
  simp only [List.length_cons, List.length_append] at hF
  obtain ⟨F, rfl⟩ : ∃ f, F = f + 1 := ⟨F - 1, by omega⟩
  have h2 := bf F rest (by omega)
  have h1 := bb s hs F (kf ++ mkTok (.kw "end") :: rest) (by omega) (hdf rest)
  have h0 := expr_of_EBody bc F (mkTok (.kw "then") :: (s ++ (kb ++ (kf ++ mkTok (.kw "end") :: rest)))) (by omega)
    (by simp [sfx]) (by simp [hdLp, binOfTk])
  rw [ifrest]
  simp only [List.cons_append, List.append_assoc, tail_mkTok] at h0 h1 ⊢
  simp [isKw_mkTok, h0, h1, h2, expectKw, bind, Except.bind]

theorem iff_SR {t : Token} {c : Expr} {b : Model.Block} {fl : IfFalse} (he : EPropR sty c) (hc : b.isChunk = false)
    (hb : BlockPropR sty b) (hfl : FalsePropR sty fl) : StmtPropR sty (.iff t c b fl) := by
  intro _ p
  simp only [visitStmt, List.append_assoc, List.cons_append, List.nil_append, AllRd_if_kw, AllRd_space, AllRd_append,
    AllRd_then_kw, AllRd_block, AllRd_slice21 sty b hc, AllRd_end_kw, AllRd_nil]
  intro kc hkc s hs kb hkb kf hkf
  obtain ⟨_, cc, relc, bc⟩ := he _ kc hkc
  obtain ⟨mk, rel, bb⟩ := hb _ kb hkb
  obtain ⟨hdf, elifs, els, relf, bf⟩ := hfl _ kf hkf
  refine ⟨headKw _ rfl rfl, .iff cc (mk s) elifs els, [], .inl rfl,
    by simp only [dsStmt, deStat]; exact .iff t relc (rel s hs) relf, rfl, ?_⟩
  intro F rest hF _
  simp only [List.length_cons, List.length_append, List.length_nil] at hF
  obtain ⟨F, rfl⟩ : ∃ f, F = f + 1 := ⟨F - 1, by omega⟩
  have h2 := bf F rest (by omega)
  have h1 := bb s hs F (kf ++ mkTok (.kw "end") :: rest) (by omega) (hdf rest)
  have h0 := expr_of_EBody bc F (mkTok (.kw "then") :: (s ++ (kb ++ (kf ++ mkTok (.kw "end") :: rest)))) (by omega)
    (by simp [sfx]) (by simp [hdLp, binOfTk])
  rw [statement]
  simp only [List.cons_append, List.append_assoc, List.nil_append, pk_mkTok, tail_mkTok] at h0 h1 ⊢
  simp [h0, h1, h2, expectKw, isKw_mkTok, bind, Except.bind]

end Tumfl.Theory.TCGSim
