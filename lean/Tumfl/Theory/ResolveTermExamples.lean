import Tumfl.Theory.ResolveTermMono
/-!
# Termination of the dependency resolver: concrete file systems

(b) a two-file STATEMENT-level cycle (`a.lua: require("b")`, `b.lua: require("a")`): `resolveRecursive` returns `.ok`,
    the file system has no expression-level edge, and corollary (a) applies to it;
(c) a one-file EXPRESSION-level cycle (`a.lua: x = require("a")`): every fuel gives `.error .fuel`
    (the Python `RecursionError`); the hypothesis of the termination theorem fails (`ExprEdge a a`).
-/
namespace Tumfl.Theory
open Tumfl.Model

/-! ## A decidable criterion for "no expression-level edge" -/

/-- the expression-level `require` names of the parsed file `p` -/
def fileReqNames (fs : FS) (p : Path) : List (List Char) :=
  match fs.read p with
  | none => []
  | some text =>
    match parseText text with
    | .error _ => []
    | .ok (b, _) => reqNamesBlock b

theorem ExprEdge.mem_fileReqNames {fs : FS} {sp : List Path} {p q : Path} (h : ExprEdge fs sp p q) :
    ∃ name ∈ fileReqNames fs p, findFileInPath fs sp name (dirOf p) = some q := by
  obtain ⟨text, b, hs, name, hr, hp, hn, hq⟩ := h
  refine ⟨name, ?_, hq⟩
  unfold fileReqNames
  rw [hr]
  simp only [hp]
  exact hn

/-- no parsed file contains an expression-level `require(<literal>)` -/
def noExprRequire (fs : FS) : Bool := fs.files.all fun pf => (fileReqNames fs pf.1).isEmpty

theorem no_exprEdge_of_noExprRequire {fs : FS} (h : noExprRequire fs = true) (sp : List Path) (p q : Path) :
    ¬ ExprEdge fs sp p q := by
  intro he
  obtain ⟨name, hn, _⟩ := he.mem_fileReqNames
  have hfile : fs.isFile p = true := by
    obtain ⟨text, _, _, _, hr, _⟩ := he
    exact read_some_isFile hr
  obtain ⟨c, hc⟩ := isFile_mem hfile
  have := List.all_eq_true.mp h (p, c) hc
  simp only [List.isEmpty_iff] at this
  rw [this] at hn
  cases hn

def isOk {α : Type} : Except PyErr α → Bool
  | .ok _ => true
  | .error _ => false

def isFuel {α : Type} : Except PyErr α → Bool
  | .error .fuel => true
  | _ => false

theorem eq_fuel_of_isFuel {α : Type} {r : Except PyErr α} (h : isFuel r = true) : r = .error .fuel := by
  unfold isFuel at h
  split at h
  · rfl
  · cases h

/-! ## (b) a statement-level cycle -/

def stmtCycleFS : FS :=
  { files := [(["a.lua"], "require(\"b\")".toList), (["b.lua"], "require(\"a\")".toList)], dirs := [] }

/-- `a` inlines `b`, `b` inlines `a` (the main file is not in `found` at the start), and the inner `a`'s `require("b")`
is cut: `do do ; end end` -/
def stmtCycleCheck : Except PyErr Block → Bool
  | .ok (.mk _ [.block (.mk _ [.block (.mk _ [.semi _] none true)] none true)] none true) => true
  | _ => false

theorem stmtCycle_ok : isOk (resolveRecursive stmtCycleFS ["a.lua"] [] 20) = true := by decide +kernel
theorem stmtCycle_shape : stmtCycleCheck (resolveRecursive stmtCycleFS ["a.lua"] [] 20) = true := by decide +kernel
theorem stmtCycle_ok_b : isOk (resolveRecursive stmtCycleFS ["b.lua"] [] 20) = true := by decide +kernel
/-- with too little fuel the model reports fuel exhaustion -/
theorem stmtCycle_fuel_8 : isFuel (resolveRecursive stmtCycleFS ["a.lua"] [] 8) = true := by decide +kernel
theorem stmtCycle_ok_9 : isOk (resolveRecursive stmtCycleFS ["a.lua"] [] 9) = true := by decide +kernel

theorem stmtCycle_noExprRequire : noExprRequire stmtCycleFS = true := by decide +kernel

theorem stmtCycle_maxFileDepth : maxFileDepth stmtCycleFS = 5 := by decide +kernel

/-- corollary (a) on the cycle: every fuel `≥ 15 = (2 + 1) * 5` suffices (in fact 9 is the threshold), for every main file and search path -/
theorem stmtCycle_terminates (main : Path) (sp : List Path) (fuel : Nat) (hf : 15 ≤ fuel) :
    resolveRecursive stmtCycleFS main sp fuel ≠ .error .fuel := by
  apply resolveRecursive_no_fuel_stmt_only (no_exprEdge_of_noExprRequire stmtCycle_noExprRequire sp)
  rw [stmtCycle_maxFileDepth]
  exact hf

/-! ## (c) an expression-level cycle -/

theorem bind_fuel_of {α β : Type} {x : RM α} {g : α → RM β} {st : RSt}
    (hx : x st = .error .fuel ∨ ∃ a s, x st = .ok (a, s)) (hg : ∀ a s, g a s = .error .fuel) :
    (x >>= g) st = .error .fuel := by
  rcases hx with h | ⟨a, s, h⟩
  · exact bind_error h
  · show StateT.bind x g st = _
    unfold StateT.bind
    rw [h]
    exact hg a s

theorem bind_ok_eq {α β : Type} {x : RM α} {g : α → RM β} {st s : RSt} {a : α} (h : x st = .ok (a, s)) :
    (x >>= g) st = g a s := by
  show StateT.bind x g st = _
  unfold StateT.bind
  rw [h]
  rfl

theorem resolveExprs_name_fuel_or_ok (fs : FS) (sp : List Path) (f : Nat) (dir : Path) (t : Token) (x : List Char)
    (st : RSt) : resolveExprs fs sp f dir [.name t x] st = .error .fuel ∨
      ∃ a s, resolveExprs fs sp f dir [.name t x] st = .ok (a, s) := by
  match f with
  | 0 => left; rw [resolveExprs]; rfl
  | 1 => left; simp only [resolveExprs, resolveExpr]; rfl
  | f + 2 => right; simp only [resolveExprs, resolveExpr]; exact ⟨_, _, rfl⟩

/-- a file whose only statement is `x = require("<itself>")` exhausts every fuel -/
theorem self_require_fuel {fs : FS} {sp : List Path} {dir p : Path} {nm x : List Char} {fn : Expr}
    {t0 t1 t2 t3 t5 : Token} (hfn : isRequireName fn = true)
    (hfind : findFileInPath fs sp nm dir = some p) (hdir : dirOf p = dir)
    (hparse : ∀ st, parseFile fs p st =
      .ok (.mk t0 [.assign t1 [.name t2 x] [.call t3 fn [.string t5 nm]]] none true, st)) :
    ∀ f st, resolveBlock fs sp f dir (.mk t0 [.assign t1 [.name t2 x] [.call t3 fn [.string t5 nm]]] none true) st =
      .error .fuel := by
  intro f
  suffices h :
      (∀ st, resolveBlock fs sp f dir (.mk t0 [.assign t1 [.name t2 x] [.call t3 fn [.string t5 nm]]] none true) st =
        .error .fuel) ∧
      (∀ st, resolveStmts fs sp f dir [.assign t1 [.name t2 x] [.call t3 fn [.string t5 nm]]] st = .error .fuel) ∧
      (∀ st, resolveStmt fs sp f dir (.assign t1 [.name t2 x] [.call t3 fn [.string t5 nm]]) st = .error .fuel) ∧
      (∀ st, resolveExprs fs sp f dir [.call t3 fn [.string t5 nm]] st = .error .fuel) ∧
      (∀ st, resolveExpr fs sp f dir (.call t3 fn [.string t5 nm]) st = .error .fuel) from h.1
  induction f with
  | zero =>
    refine ⟨?_, ?_, ?_, ?_, ?_⟩ <;> intro st
    · rw [resolveBlock]; rfl
    · rw [resolveStmts]; rfl
    · rw [resolveStmt]; rfl
    · rw [resolveExprs]; rfl
    · rw [resolveExpr]; rfl
  | succ f ih =>
    obtain ⟨ihB, ihSs, ihS, ihEs, ihE⟩ := ih
    refine ⟨?_, ?_, ?_, ?_, ?_⟩ <;> intro st
    · simp only [resolveBlock]
      exact bind_error (ihSs st)
    · simp only [resolveStmts]
      exact bind_error (ihS st)
    · simp only [resolveStmt]
      exact bind_fuel_of (resolveExprs_name_fuel_or_ok ..) (fun a s => bind_error (ihEs s))
    · simp only [resolveExprs]
      exact bind_error (ihE st)
    · simp only [resolveExpr, hfn, if_true]
      have hget : getDependencyPath fs sp nm dir t3 false st =
          .ok (some p, { found := if st.found.contains p then st.found else st.found ++ [p] }) := by
        unfold getDependencyPath
        rw [hfind]
        rfl
      rw [bind_ok_eq hget]
      simp only []
      rw [bind_ok_eq (hparse _)]
      simp only [hdir]
      exact bind_error (ihB _)

/-! ## A decidable criterion for the rank hypothesis, and a mixed example -/

/-- `rank` decreases along every expression-level edge that starts at a file of `fs` -/
def rankCheck (fs : FS) (sp : List Path) (rank : Path → Nat) : Bool :=
  fs.files.all fun pf => (fileReqNames fs pf.1).all fun name =>
    match findFileInPath fs sp name (dirOf pf.1) with
    | none => true
    | some q => decide (rank q < rank pf.1)

theorem rank_of_rankCheck {fs : FS} {sp : List Path} {rank : Path → Nat} (h : rankCheck fs sp rank = true)
    (p q : Path) (he : ExprEdge fs sp p q) : rank q < rank p := by
  obtain ⟨name, hn, hq⟩ := he.mem_fileReqNames
  have hfile : fs.isFile p = true := by
    obtain ⟨text, _, _, _, hr, _⟩ := he
    exact read_some_isFile hr
  obtain ⟨c, hc⟩ := isFile_mem hfile
  have := List.all_eq_true.mp (List.all_eq_true.mp h (p, c) hc) name hn
  simp only [hq, decide_eq_true_eq] at this
  exact this

/-- `main` requires `a` at expression level, twice; `a` and `b` require each other at statement level -/
def mixedFS : FS :=
  { files := [(["main.lua"], "local m = require(\"a\")\nreturn require(\"a\")".toList),
              (["a.lua"], "require(\"b\")".toList), (["b.lua"], "require(\"a\")".toList)], dirs := [] }

def mixedRank (p : Path) : Nat := if p = ["main.lua"] then 1 else 0

theorem mixed_rankCheck : rankCheck mixedFS [] mixedRank = true := by decide +kernel

theorem mixed_resolveFuel : resolveFuel mixedFS mixedRank = 56 := by decide +kernel

/-- the main theorem on the mixed file system: no fuel exhaustion from fuel 56 on, whatever the main file -/
theorem mixed_terminates (main : Path) (fuel : Nat) (hf : 56 ≤ fuel) :
    resolveRecursive mixedFS main [] fuel ≠ .error .fuel :=
  resolveRecursive_no_fuel (rank_of_rankCheck mixed_rankCheck) main fuel (by rw [mixed_resolveFuel]; exact hf)

/-- the first expression-level `require("a")` inlines `a` and, inside it, `b` (whose `require("a")` is cut, because an
expression-level require also enters `found`); the second one inlines `a` AGAIN (no deduplication at expression level),
but now `b` is cut -/
def mixedCheck : Except PyErr Block → Bool
  | .ok (.mk _ [.localAssign _ _ (some [.call _ (.func _ [] (.mk _ [.block (.mk _ [.semi _] none true)] none true)) _])]
      (some [.call _ (.func _ [] (.mk _ [.semi _] none true)) _]) true) => true
  | _ => false

theorem mixed_shape : mixedCheck (resolveRecursive mixedFS ["main.lua"] [] 56) = true := by decide +kernel

def exprCycleFS : FS := { files := [(["a.lua"], "x = require(\"a\")".toList)], dirs := [] }

theorem exprCycle_fuel_10 : isFuel (resolveRecursive exprCycleFS ["a.lua"] [] 10) = true := by decide +kernel
theorem exprCycle_fuel_100 : isFuel (resolveRecursive exprCycleFS ["a.lua"] [] 100) = true := by decide +kernel
theorem exprCycle_fuel_1000 : isFuel (resolveRecursive exprCycleFS ["a.lua"] [] 1000) = true := by decide +kernel

/-- shape of the parse of `x = require("a")` -/
def exprCycleShape : Except PyErr (Block × List Hint) → Bool
  | .ok (.mk _ [.assign _ [.name _ _] [.call _ fn [.string _ nm]]] none true, _) =>
    isRequireName fn && decide (nm = "a".toList)
  | _ => false

theorem exprCycle_shape : exprCycleShape (parseText "x = require(\"a\")".toList) = true := by decide +kernel

theorem exprCycle_parse : ∃ t0 t1 t2 t3 t5 x fn hs, isRequireName fn = true ∧
    parseText "x = require(\"a\")".toList =
      .ok (.mk t0 [.assign t1 [.name t2 x] [.call t3 fn [.string t5 "a".toList]]] none true, hs) := by
  have h := exprCycle_shape
  generalize parseText "x = require(\"a\")".toList = r at h
  unfold exprCycleShape at h
  split at h
  · rename_i t0 t1 t2 x t3 fn t5 nm hs
    simp only [Bool.and_eq_true, decide_eq_true_eq] at h
    obtain ⟨hfn, rfl⟩ := h
    exact ⟨t0, t1, t2, t3, t5, x, fn, hs, hfn, rfl⟩
  · cases h

/-- (c) the expression-level self-cycle exhausts EVERY fuel (Python: `RecursionError`) -/
theorem exprCycle_always_fuel (n : Nat) : resolveRecursive exprCycleFS ["a.lua"] [] n = .error .fuel := by
  obtain ⟨t0, t1, t2, t3, t5, x, fn, hs, hfn, hp⟩ := exprCycle_parse
  have hparse : ∀ st, parseFile exprCycleFS ["a.lua"] st =
      .ok (.mk t0 [.assign t1 [.name t2 x] [.call t3 fn [.string t5 "a".toList]]] none true, st) := by
    intro st
    unfold parseFile
    have hr : exprCycleFS.read ["a.lua"] = some "x = require(\"a\")".toList := by decide
    rw [hr]
    simp only [hp]
  have hfind : findFileInPath exprCycleFS [] "a".toList [] = some ["a.lua"] := by decide
  have key := self_require_fuel (fs := exprCycleFS) (sp := []) (dir := []) (p := ["a.lua"]) hfn hfind rfl hparse n
  unfold resolveRecursive
  rw [bind_ok_eq (hparse _)]
  have hd : dirOf ["a.lua"] = [] := rfl
  rw [hd, key]

/-- the hypothesis of the termination theorem fails on it: `a.lua --expr--> a.lua` -/
theorem exprCycle_edge : ExprEdge exprCycleFS [] ["a.lua"] ["a.lua"] := by
  obtain ⟨t0, t1, t2, t3, t5, x, fn, hs, hfn, hp⟩ := exprCycle_parse
  refine ⟨_, _, hs, "a".toList, (by decide : exprCycleFS.read ["a.lua"] = some "x = require(\"a\")".toList), hp, ?_,
    (by decide : findFileInPath exprCycleFS [] "a".toList (dirOf ["a.lua"]) = some ["a.lua"])⟩
  simp [reqNamesBlock, reqNamesStmts, reqNamesStmt, reqNamesExprs, reqNamesExpr, reqLitName, hfn, reqNamesOptExprs]

theorem exprCycle_no_rank (rank : Path → Nat) : ¬ ∀ p q, ExprEdge exprCycleFS [] p q → rank q < rank p :=
  fun h => Nat.lt_irrefl _ (h _ _ exprCycle_edge)

end Tumfl.Theory
