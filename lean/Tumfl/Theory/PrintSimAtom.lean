import Tumfl.Theory.PrintSimExpr
/-!
# Expressions, continued: atoms, heads, variable-like expressions, argument lists, table fields, function bodies
-/
namespace Tumfl.Theory
open Tumfl.Model Tumfl.Spec

variable {semi : Bool} {sty : Style}

/-! ## the first token of a printed expression -/

/-- tokens a printed expression can start with -/
def exprStartTk : Tk → Bool
  | .kw "nil" | .kw "true" | .kw "false" | .kw "function" | .kw "not" | .sym "..." | .sym "{" | .sym "(" | .sym "-"
  | .sym "#" | .sym "~" | .num _ | .str _ | .name _ => true
  | _ => false

/-- the first piece of a printed variable-like expression: a bare `(` or an identifier -/
def HeadOK (ps : Pieces) : Prop :=
  (∃ r, ps = .str ['('] :: r) ∨ (∃ n r, ps = .str n :: r ∧ identOK n = true)

theorem HeadOK_append {a : Pieces} (b : Pieces) (h : HeadOK a) : HeadOK (a ++ b) := by
  rcases h with ⟨r, rfl⟩ | ⟨n, r, rfl, hn⟩
  · exact .inl ⟨r ++ b, rfl⟩
  · exact .inr ⟨n, r ++ b, rfl, hn⟩

theorem HeadOK_fmtVar (sty : Style) (l : Expr) (h : isVarLike l = true → HeadOK (visitExpr sty l)) :
    HeadOK (fmtVar l (visitExpr sty l)) := by
  unfold fmtVar
  split
  · rename_i hv; exact h hv
  · exact .inl ⟨_, rfl⟩

theorem varHead (sty : Style) : (e : Expr) → pExpr e = true → isVarLike e = true → HeadOK (visitExpr sty e)
  | .name _ n, h, _ => by
    simp only [pExpr] at h
    exact .inr ⟨n, [], by simp [visitExpr], h⟩
  | .index _ l k, h, _ => by
    simp only [pExpr, Bool.and_eq_true] at h
    simp only [visitExpr, List.append_assoc]
    exact HeadOK_append _ (HeadOK_fmtVar sty l (varHead sty l h.1))
  | .namedIndex _ l nm, h, _ => by
    simp only [pExpr, Bool.and_eq_true] at h
    simp only [visitExpr, List.append_assoc]
    exact HeadOK_append _ (HeadOK_fmtVar sty l (varHead sty l h.1))
  | .call _ f args, h, _ => by
    simp only [pExpr, Bool.and_eq_true] at h
    simp only [visitExpr]
    exact HeadOK_append _ (HeadOK_fmtVar sty f (varHead sty f h.1))
  | .method _ f m args, h, _ => by
    simp only [pExpr, Bool.and_eq_true] at h
    simp only [visitExpr, List.append_assoc]
    exact HeadOK_append _ (HeadOK_fmtVar sty f (varHead sty f h.1.1))
  | .nil _, _, h | .bool _ _, _, h | .vararg _, _, h | .number _ _, _, h | .string _ _, _, h | .func _ _ _, _, h
  | .table _ _, _, h | .binop _ _ _ _, _, h | .unop _ _ _, _, h => by simp [isVarLike] at h

/-- token-level reading of `HeadOK` -/
theorem HeadOK_TK {ps : Pieces} (h : HeadOK ps) :
    ∃ k tks, TK semi ps = mkTok k :: tks ∧ (k = .sym "(" ∨ ∃ n, k = .name n) := by
  rcases h with ⟨r, rfl⟩ | ⟨n, r, rfl, hn⟩
  · exact ⟨_, _, TK_lpar (semi := semi) r, .inl rfl⟩
  · exact ⟨_, _, TK_ident hn r, .inr ⟨_, rfl⟩⟩

theorem exprStart_of_var {k : Tk} (h : k = .sym "(" ∨ ∃ n, k = .name n) : exprStartTk k = true := by
  rcases h with rfl | ⟨n, rfl⟩ <;> rfl

theorem exprStart_uop (u : UOp) : exprStartTk (uopTk u) = true := by cases u <;> rfl

theorem exprHead (sty : Style) : (e : Expr) → pExpr e = true →
    ∃ k tks, TK semi (visitExpr sty e) = mkTok k :: tks ∧ exprStartTk k = true
  | .nil _, _ => ⟨.kw "nil", [], by simp [visitExpr], rfl⟩
  | .bool _ v, _ => by
    cases v
    · exact ⟨.kw "false", [], by simp [visitExpr], rfl⟩
    · exact ⟨.kw "true", [], by simp [visitExpr], rfl⟩
  | .vararg _, _ => ⟨.sym "...", [], by simp [visitExpr], rfl⟩
  | .number _ n, h => by
    simp only [pExpr] at h
    exact ⟨_, _, by simp only [visitExpr]; exact TK_number h [], rfl⟩
  | .string _ v, _ => ⟨_, _, by simpa [visitExpr] using TK_visitString (semi := semi) sty v [], rfl⟩
  | .func _ ps body, _ => ⟨_, _, by simp only [visitExpr, List.append_assoc, List.cons_append, TK_function_kw]; rfl, rfl⟩
  | .table _ fs, _ => ⟨.sym "{", TK semi (visitFields sty fs ++ [P "}"]), by simp only [visitExpr]; exact TK_lcurl _, rfl⟩
  | .binop _ o l r, h => by
    simp only [pExpr, Bool.and_eq_true] at h
    simp only [visitExpr, TK_append]
    by_cases hn : needBin sty.brOpts o true l.kind = true
    · rw [if_pos hn]
      simp only [TK_wrapParens, List.cons_append]
      exact ⟨_, _, rfl, rfl⟩
    · obtain ⟨k, tks, hk, hs⟩ := exprHead sty l h.1
      rw [if_neg hn, hk]
      simp only [List.cons_append]
      exact ⟨_, _, rfl, hs⟩
  | .unop _ u x, _ => ⟨_, _, by simp only [visitExpr, TK_uop]; rfl, exprStart_uop u⟩
  | .name _ n, h => by
    obtain ⟨k, tks, hk, hv⟩ := HeadOK_TK (semi := semi) (varHead sty (.name _ n) h rfl)
    exact ⟨k, tks, hk, exprStart_of_var hv⟩
  | .index _ l k, h => by
    obtain ⟨k, tks, hk, hv⟩ := HeadOK_TK (semi := semi) (varHead sty (.index _ l k) h rfl)
    exact ⟨k, tks, hk, exprStart_of_var hv⟩
  | .namedIndex _ l k, h => by
    obtain ⟨k, tks, hk, hv⟩ := HeadOK_TK (semi := semi) (varHead sty (.namedIndex _ l k) h rfl)
    exact ⟨k, tks, hk, exprStart_of_var hv⟩
  | .call _ l k, h => by
    obtain ⟨k, tks, hk, hv⟩ := HeadOK_TK (semi := semi) (varHead sty (.call _ l k) h rfl)
    exact ⟨k, tks, hk, exprStart_of_var hv⟩
  | .method _ l m k, h => by
    obtain ⟨k, tks, hk, hv⟩ := HeadOK_TK (semi := semi) (varHead sty (.method _ l m k) h rfl)
    exact ⟨k, tks, hk, exprStart_of_var hv⟩

/-! ## atoms -/

theorem atom_E {e : Expr} {k : Tk} (htk : TK semi (visitExpr sty e) = [mkTok k]) (hn : 1 ≤ nE semi sty e)
    (hu : unOfTk k = none) (hsimple : ∀ g rest, simpleexp (g + 1) (mkTok k :: rest) = .ok (refExpr semi sty e, rest)) :
    EProp semi sty e := by
  intro g F limit rest hg hF _ _ _
  obtain ⟨g, rfl⟩ : ∃ f, g = f + 1 := ⟨g - 1, by omega⟩
  obtain ⟨F, rfl⟩ : ∃ f, F = f + 1 := ⟨F - 1, by omega⟩
  refine ⟨F, by omega, ?_⟩
  rw [htk]
  exact climb_simple _ _ _ _ _ _ (by simpa using hu) (hsimple g rest)

theorem nil_E (t : Token) : EProp semi sty (.nil t) :=
  atom_E (k := .kw "nil") (by simp [visitExpr]) (by simp [nE]) rfl (by intro g rest; rw [simpleexp]; simp [refExpr])

theorem bool_E (t : Token) (v : Bool) : EProp semi sty (.bool t v) := by
  cases v
  · exact atom_E (k := .kw "false") (by simp [visitExpr]) (by simp [nE]) rfl (by intro g rest; rw [simpleexp]; simp [refExpr])
  · exact atom_E (k := .kw "true") (by simp [visitExpr]) (by simp [nE]) rfl (by intro g rest; rw [simpleexp]; simp [refExpr])

theorem vararg_E (t : Token) : EProp semi sty (.vararg t) :=
  atom_E (k := .sym "...") (by simp [visitExpr]) (by simp [nE]) rfl (by intro g rest; rw [simpleexp]; simp [refExpr])

theorem number_E (t : Token) (n : NumTuple) (h : numOKp n = true) : EProp semi sty (.number t n) :=
  atom_E (k := .num ((Spec.parseNumeral (numberStr n)).getD default))
    (by simp only [visitExpr]; exact TK_number h []) (by simp [nE]) rfl
    (by intro g rest; rw [simpleexp]; simp [refExpr])

theorem string_E (t : Token) (v : List Char) : EProp semi sty (.string t v) :=
  atom_E (k := .str (v.map fun c => SUnit.ch c.toNat))
    (by simpa [visitExpr] using TK_visitString (semi := semi) sty v []) (by simp [nE]) rfl
    (by intro g rest; rw [simpleexp]; simp [refExpr])

/-! ## from `PProp` to `EProp` -/

theorem simpleexp_var {k : Tk} (hk : k = .sym "(" ∨ ∃ n, k = .name n) (g : Nat) (ts : List Spec.Tok) :
    simpleexp (g + 1) (mkTok k :: ts) = suffixedexp g (mkTok k :: ts) := by
  rcases hk with rfl | ⟨n, rfl⟩ <;> (rw [simpleexp]; simp)

theorem unOf_var {k : Tk} (hk : k = .sym "(" ∨ ∃ n, k = .name n) : unOfTk k = none := by
  rcases hk with rfl | ⟨n, rfl⟩ <;> rfl

theorem nE_var_ge (semi : Bool) (sty : Style) {e : Expr} (h : isVarLike e = true) : 3 ≤ nE semi sty e := by
  cases e <;> simp [isVarLike] at h <;> simp only [nE] <;> omega

theorem lowM_var {e : Expr} (h : isVarLike e = true) : lowM e = 100 := by
  cases e <;> simp [isVarLike] at h <;> rfl

theorem E_of_P {e : Expr} (hv : isVarLike e = true) (hp : pExpr e = true) (h : PProp semi sty e) : EProp semi sty e := by
  intro g F limit rest hg hF _ hs _
  have h3 := nE_var_ge semi sty hv
  obtain ⟨g, rfl⟩ : ∃ f, g = f + 1 := ⟨g - 1, by omega⟩
  obtain ⟨F, rfl⟩ : ∃ f, F = f + 1 := ⟨F - 1, by omega⟩
  refine ⟨F, by omega, ?_⟩
  obtain ⟨k, tks, hk, hkv⟩ := HeadOK_TK (semi := semi) (varHead sty e hp hv)
  obtain ⟨F', hF', hsx⟩ := h g rest (by omega)
  obtain ⟨F', rfl⟩ : ∃ f, F' = f + 1 := ⟨F' - 1, by omega⟩
  rw [suffixes_stop _ _ _ hs] at hsx
  refine climb_simple _ _ _ _ _ _ ?_ ?_
  · rw [hk]; simpa using unOf_var hkv
  · rw [hk, List.cons_append, simpleexp_var hkv, ← List.cons_append, ← hk]; exact hsx

theorem name_P (t : Token) (n : List Char) (h : identOK n = true) : PProp semi sty (.name t n) := by
  intro F rest hF
  simp only [nE] at hF ⊢
  obtain ⟨F, rfl⟩ : ∃ f, F = f + 1 := ⟨F - 1, by omega⟩
  refine ⟨F, by omega, ?_⟩
  simp only [visitExpr, TK_ident h, TK_nil, List.cons_append, List.nil_append, refExpr]
  rw [suffixedexp]
  simp

/-! ## `fmtVar` -/

def nV (semi : Bool) (sty : Style) (l : Expr) : Nat := if isVarLike l then nE semi sty l - 2 else nE semi sty l + 2

theorem var_step {l : Expr} (hl : pExpr l = true) (hx : XProp semi sty l) (F : Nat) (rest : List Spec.Tok) (hF : nV semi sty l ≤ F) :
    ∃ F', F ≤ F' + nV semi sty l ∧
      suffixedexp F (TK semi (fmtVar l (visitExpr sty l)) ++ rest) =
        suffixes F' (wrapP (!isVarLike l) (refExpr semi sty l)) rest := by
  unfold nV at hF ⊢
  unfold fmtVar
  by_cases hv : isVarLike l = true
  · simp only [hv, if_true] at hF ⊢
    have h3 := nE_var_ge semi sty hv
    obtain ⟨F', hF', h⟩ := hx.P hv F rest (by omega)
    exact ⟨F', by omega, by simpa [wrapP] using h⟩
  · have hv' : isVarLike l = false := by simpa using hv
    simp only [hv', Bool.false_eq_true, if_false] at hF ⊢
    obtain ⟨F, rfl⟩ : ∃ f, F = f + 1 := ⟨F - 1, by omega⟩
    refine ⟨F, by omega, ?_⟩
    have hin := expr_of_EProp hx.E F (mkTok (.sym ")") :: rest) (by omega) (by simp [sfx]) (by simp [hdLp, binOfTk])
    simp only [TK_wrapParens, List.cons_append, List.append_assoc, List.nil_append, wrapP, Bool.not_false, if_true]
    rw [suffixedexp]
    simp only [pk_mkTok, tail_mkTok, hin]
    simp [expectSym, isSym, bind, Except.bind]

@[simp] theorem TK_fmtKey (ps : Pieces) : TK semi (fmtKey ps) = TK semi ps := by
  unfold fmtKey
  split
  · split <;> simp
  · rfl

/-! ## suffixes -/

theorem suffixes_index (F : Nat) (e k : Exp) (ts rest : List Spec.Tok)
    (h : expr F (ts ++ mkTok (.sym "]") :: rest) = .ok (k, mkTok (.sym "]") :: rest)) :
    suffixes (F + 1) e (mkTok (.sym "[") :: (ts ++ mkTok (.sym "]") :: rest)) = suffixes F (.index e k) rest := by
  rw [suffixes]
  simp only [pk_mkTok, tail_mkTok, h]
  simp [expectSym, isSym, bind, Except.bind]

theorem suffixes_dot (F : Nat) (e : Exp) (n : String) (rest : List Spec.Tok) :
    suffixes (F + 1) e (mkTok (.sym ".") :: mkTok (.name n) :: rest) = suffixes F (.dot e n) rest := by
  rw [suffixes]
  simp [expectName, bind, Except.bind]

theorem suffixes_call (F : Nat) (e : Exp) (args : List Exp) (ts rest : List Spec.Tok)
    (hk : pk ts = .sym "(" ∨ pk ts = .sym "{" ∨ ∃ v, pk ts = .str v)
    (h : funcargs F ts = .ok (args, rest)) :
    suffixes (F + 1) e ts = suffixes F (.call e args) rest := by
  rw [suffixes]
  rcases hk with hk | hk | ⟨v, hk⟩ <;> simp [hk, h, bind, Except.bind]

theorem suffixes_mcall (F : Nat) (e : Exp) (m : String) (args : List Exp) (ts rest : List Spec.Tok)
    (h : funcargs F ts = .ok (args, rest)) :
    suffixes (F + 1) e (mkTok (.sym ":") :: mkTok (.name m) :: ts) = suffixes F (.mcall e m args) rest := by
  rw [suffixes]
  simp [expectName, h, bind, Except.bind]

end Tumfl.Theory
