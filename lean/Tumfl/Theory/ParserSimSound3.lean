import Tumfl.Theory.ParserSimSound2
/-!
# Soundness, step lemmas: tables, arguments, variables and suffix chains, atoms
-/
namespace Tumfl.Theory
open Tumfl.Model Tumfl.Spec

variable {B : Bridge}

theorem parseTable_sound_step {f : Nat} (ih : AllSound B f) (ts : List Tok) :
    SPF B (Model.parseTable (f + 1)) ts (fun e ts' =>
    ∃ fs, pk ts = .sym "{" ∧ Ev (fields · ts.tail) (fs, ts') ∧ ExpRel e (.table fs)) := by
  rw [Model.parseTable]
  sp ih
  rename_i hfs hcl
  obtain ⟨fs, hev, hrel⟩ := hfs hcl
  exact ⟨fs, asm, hev, .table _ hrel⟩

theorem parseFields_sound_step {f : Nat} (ih : AllSound B f) (ts : List Tok) :
    SPF B (Model.parseFields (f + 1)) ts (fun r ts' =>
    pk ts' = .sym "}" → ∃ fs, Ev (fields · ts) (fs, ts'.tail) ∧ Forall₂ FieldRel r fs) := by
  rw [Model.parseFields]
  sp ih
  · intro hc; exact ⟨[], ev_fields_end hc, .nil⟩
  · rename_i t hk h
    have h' := Cond.elim h
    simp only [Bool.or_eq_true, hk.beq_iff] at h'
    rcases h' with h' | h' <;> simp [h']
  · rename_i t0 hk0 h0 _ _ _ _ _ t1 hk1 h1 _ _ hrest
    intro hc
    obtain ⟨fs, hev, hrel⟩ := hrest hc
    have h0' := Cond.elim h0
    simp only [Bool.or_eq_true, hk0.beq_iff, not_or] at h0'
    have h1' := Cond.elim h1
    simp only [Bool.or_eq_true, hk1.beq_iff] at h1'
    exact ⟨_, ev_fields_more h0'.1 asm h1' hev, .cons asm hrel⟩
  · rename_i t0 hk0 h0 _ _ _ _ _ t1 hk1 h1
    intro hc
    have h0' := Cond.elim h0
    simp only [Bool.or_eq_true, hk0.beq_iff, not_or] at h0'
    exact ⟨_, ev_fields_last h0'.1 asm hc, .cons asm .nil⟩

theorem parseField_sound_step {f : Nat} (ih : AllSound B f) (ts : List Tok) :
    SPF B (Model.parseField (f + 1)) ts (fun r ts' => ∃ fd, Ev (fieldOne · ts) (fd, ts') ∧ FieldRel r fd) := by
  rw [Model.parseField]
  sp ih
  · exact ⟨_, ev_field_keyed asm asm asm asm asm, .keyed _ asm asm⟩
  · exact ⟨_, ev_field_named asm asm asm, .named _ asm asm⟩
  · rename_i t hk n hn hbr h _ _ _ _ _
    refine ⟨_, ev_field_pos hbr ?_ asm, .pos _ asm⟩
    intro nm hnm heq
    have h1 : t.type = .NAME := hk.name_iff.2 ⟨nm, hnm⟩
    have h2 : n.type = .ASSIGN := (hn (by rw [hnm]; intro h; cases h)).eq_iff.2 heq
    exact Cond.elim h (by simp [h1, h2])

end Tumfl.Theory
