import Tumfl.Theory.TriviaCore
/-!
# The reference lexer `Spec.lexLoop` factors through `trivia`

Before each token `Spec.lexLoop` skips exactly `trivia`'s prefix and collects exactly `trivia`'s comments (in order;
the pending comments are kept in reverse), then emits one token that carries them - or fails.
-/
namespace Tumfl.Theory
open Tumfl.Model

/-! ## every token reader of the reference ends within the text -/

theorem map_snd_some {α : Type} {g : α × List Char → α × List Char} (hg : ∀ x, (g x).2 = x.2)
    {o : Option (α × List Char)} {v : α} {rest : List Char} (h : o.map g = some (v, rest)) :
    ∃ v', o = some (v', rest) := by
  cases o with
  | none => cases h
  | some x =>
    simp only [Option.map_some, Option.some.injEq] at h
    have := hg x
    rw [h] at this
    obtain ⟨a, b⟩ := x
    simp only at this
    subst this
    exact ⟨a, rfl⟩

theorem dropFirstNewline_suffix (cs : List Char) : Spec.dropFirstNewline cs <:+ cs := by
  cases cs with
  | nil => rw [dropFirstNewline_nil]; exact List.suffix_refl _
  | cons c cs =>
    by_cases hc : c = '\n'
    · subst hc; rw [dropFirstNewline_nl]; exact List.suffix_cons _ _
    · rw [dropFirstNewline_ne hc]; exact List.suffix_refl _

theorem skipSpaces_suffix : ∀ (cs : List Char), Spec.skipSpaces cs <:+ cs
  | [] => by rw [Spec.skipSpaces]; exact List.suffix_refl _
  | c :: cs => by
    rw [Spec.skipSpaces]
    split
    · exact (skipSpaces_suffix cs).trans (List.suffix_cons _ _)
    · exact List.suffix_refl _

theorem readUHex_suffix : ∀ (cs : List Char) (acc : Nat) (seen : Bool) (v : Nat) (r : List Char),
    Spec.readUHex cs acc seen = some (v, r) → r <:+ cs
  | [], acc, seen, v, r, h => by
    rw [Spec.readUHex] at h
    cases h
  | c :: cs, acc, seen, v, r, h => by
    by_cases hc : c = '}'
    · subst hc
      rw [Spec.readUHex] at h
      split at h
      · cases h; exact List.suffix_cons _ _
      · cases h
    · rw [Spec.readUHex.eq_2] at h
      · split at h
        · dsimp only at h
          split at h
          · exact (readUHex_suffix cs _ _ v r h).trans (List.suffix_cons _ _)
          · cases h
        · cases h
      · intro h'; exact hc h'

theorem readDec3_suffix (cs : List Char) : (Spec.readDec3 cs).2 <:+ cs := by
  unfold Spec.readDec3
  split
  · split
    · exact (List.suffix_cons _ _).trans ((List.suffix_cons _ _).trans (List.suffix_cons _ _))
    · split
      · exact (List.suffix_cons _ _).trans (List.suffix_cons _ _)
      · exact List.suffix_cons _ _
  · split
    · exact List.nil_suffix
    · exact List.suffix_cons _ _
  · exact List.nil_suffix
  · exact List.suffix_refl _

theorem strBody_suffix (q : Char) : ∀ (f : Nat) (cs : List Char) (v : List Spec.SUnit) (rest : List Char),
    Spec.strBody q f cs = some (v, rest) → rest <:+ cs
  | 0, cs, v, rest, h => by rw [Spec.strBody] at h; cases h
  | f + 1, [], v, rest, h => by rw [Spec.strBody] at h; cases h
  | f + 1, c :: cs, v, rest, h => by
    have ih := strBody_suffix q f
    have sc : ∀ {a : Char} {l : List Char}, l <:+ a :: l := fun {a l} => List.suffix_cons a l
    rw [Spec.strBody.eq_def] at h
    simp only at h
    split at h
    · cases h; exact sc
    · split at h
      · cases h
      · split at h
        · split at h
          · cases h
          · split at h
            · obtain ⟨v', hv⟩ := map_snd_some (fun ⟨_, _⟩ => rfl) h
              exact (ih _ _ _ hv).trans (sc.trans (sc.trans (sc.trans sc)))
            · cases h
          · cases h
          · split at h
            · rename_i r _ v1 r1 hu
              obtain ⟨v', hv⟩ := map_snd_some (fun ⟨_, _⟩ => rfl) h
              exact ((ih _ _ _ hv).trans (readUHex_suffix _ _ _ _ _ hu)).trans (sc.trans (sc.trans sc))
            · cases h
          · cases h
          · exact ((ih _ _ _ h).trans (skipSpaces_suffix _)).trans (sc.trans sc)
          · rename_i d r _ _ _ _ _
            split at h
            · have hd := readDec3_suffix (d :: r)
              revert h hd
              generalize Spec.readDec3 (d :: r) = p
              obtain ⟨v1, r1⟩ := p
              intro h hd
              simp only at h hd
              split at h
              · obtain ⟨v', hv⟩ := map_snd_some (fun ⟨_, _⟩ => rfl) h
                exact ((ih _ _ _ hv).trans hd).trans sc
              · cases h
            · split at h
              · obtain ⟨v', hv⟩ := map_snd_some (fun ⟨_, _⟩ => rfl) h
                exact (ih _ _ _ hv).trans (sc.trans sc)
              · cases h
        · obtain ⟨v', hv⟩ := map_snd_some (fun ⟨_, _⟩ => rfl) h
          exact (ih _ _ _ hv).trans sc

theorem numBuf_suffix (expo : Char → Bool) : ∀ (f : Nat) (cs : List Char), (Spec.numBuf expo f cs).2 <:+ cs
  | 0, cs => by rw [Spec.numBuf]; exact List.suffix_refl _
  | f + 1, [] => by rw [Spec.numBuf]; exact List.suffix_refl _
  | f + 1, c :: cs => by
    have sc : ∀ {a : Char} {l : List Char}, l <:+ a :: l := fun {a l} => List.suffix_cons a l
    rw [Spec.numBuf.eq_def]
    simp only
    split
    · split
      · split
        · rename_i s cs' _
          have := numBuf_suffix expo f cs'
          revert this
          generalize Spec.numBuf expo f cs' = p
          obtain ⟨b, r⟩ := p
          intro this
          exact this.trans (sc.trans sc)
        · rename_i s cs' _
          have := numBuf_suffix expo f (s :: cs')
          revert this
          generalize Spec.numBuf expo f (s :: cs') = p
          obtain ⟨b, r⟩ := p
          intro this
          exact this.trans sc
      · exact List.nil_suffix
    · split
      · have := numBuf_suffix expo f cs
        revert this
        generalize Spec.numBuf expo f cs = p
        obtain ⟨b, r⟩ := p
        intro this
        exact this.trans sc
      · split
        · exact sc
        · exact List.suffix_refl _

theorem spanP_suffix (p : Char → Bool) : ∀ (cs : List Char), (Spec.spanP p cs).2 <:+ cs
  | [] => by rw [Spec.spanP]; exact List.suffix_refl _
  | c :: cs => by
    rw [Spec.spanP]
    split
    · have := spanP_suffix p cs
      revert this
      generalize Spec.spanP p cs = q
      obtain ⟨a, b⟩ := q
      intro this
      exact this.trans (List.suffix_cons _ _)
    · exact List.suffix_refl _

/-! ## one iteration of `Spec.lexLoop` -/

theorem lexLoop_zero (n : Nat) (cs : List Char) (cm : List (List Char)) :
    Spec.lexLoop n 0 cs cm = .error (.mk "out of fuel" 0) := by
  rw [Spec.lexLoop]

theorem lexLoop_nil (n f : Nat) (cm : List (List Char)) :
    Spec.lexLoop n (f + 1) [] cm = .ok [{ tk := .eof, off := n, comments := cm.reverse }] := by
  rw [Spec.lexLoop]

theorem lexLoop_space (n f : Nat) {c : Char} (h : Spec.isSpace c = true) (cs : List Char) (cm : List (List Char)) :
    Spec.lexLoop n (f + 1) (c :: cs) cm = Spec.lexLoop n f cs cm := by
  rw [Spec.lexLoop.eq_def]
  simp only [h, if_true]

/-- the comment branch of `Spec.lexLoop` is `refComment` -/
theorem lexLoop_comment (n f : Nat) (r : List Char) (cm : List (List Char)) :
    Spec.lexLoop n (f + 1) ('-' :: '-' :: r) cm =
      match refComment r with
      | some (b, rest) => Spec.lexLoop n f rest (b :: cm)
      | none => .error (.mk "unfinished long comment" (n - (r.length + 2))) := by
  rw [Spec.lexLoop]
  have h1 : Spec.isSpace '-' = false := by decide
  simp only [h1, Bool.false_eq_true, if_false, beq_self_eq_true, if_true]
  unfold refComment
  cases ho : Spec.longOpener r with
  | none => simp only []
  | some p =>
    obtain ⟨lvl, body⟩ := p
    simp only []
    cases Spec.longBody lvl body with
    | none => simp
    | some x => simp

/-- what one token-producing iteration of `Spec.lexLoop` does: it fails, or it emits one token, which carries the
pending comments (reversed into reading order), and goes on after the token with no pending comment -/
def EmitsOne (n f : Nat) (c : Char) (cs : List Char) (cm : List (List Char)) (X : Except Spec.LexErr (List Spec.Tok)) : Prop :=
  (∃ e, X = .error e) ∨
  ∃ tk rest', rest' <:+ c :: cs ∧
    X = (Spec.lexLoop n f rest' []).map fun ts => { tk := tk, off := n - (cs.length + 1), comments := cm.reverse } :: ts

theorem lexLoop_token (n f : Nat) (c : Char) (cs : List Char) (cm : List (List Char)) (hat : AtToken (c :: cs)) :
    EmitsOne n f c cs cm (Spec.lexLoop n (f + 1) (c :: cs) cm) := by
  obtain ⟨h1, h2⟩ := hat
  have sc : ∀ {a : Char} {l : List Char}, l <:+ a :: l := fun {a l} => List.suffix_cons a l
  generalize hX : Spec.lexLoop n (f + 1) (c :: cs) cm = X
  rw [Spec.lexLoop.eq_def] at hX
  simp only [h1, Bool.false_eq_true, if_false] at hX
  have err : ∀ {e}, Except.error e = X → EmitsOne n f c cs cm X := fun h => Or.inl ⟨_, h.symm⟩
  have emit : ∀ {tk rest'}, rest' <:+ c :: cs →
      (Spec.lexLoop n f rest' []).map (fun ts => { tk := tk, off := n - (cs.length + 1), comments := cm.reverse } :: ts) = X →
      EmitsOne n f c cs cm X := fun hs h => Or.inr ⟨_, _, hs, h.symm⟩
  repeat' split at hX
  all_goals first
    | exact err hX
    | exact emit sc hX
    | exact emit (sc.trans sc) hX
    | exact emit (sc.trans (sc.trans sc)) hX
    | exact emit (spanP_suffix _ _) hX
    | exact emit (numBuf_suffix _ _ _) hX
    | exact emit ((numBuf_suffix _ _ _).trans (sc.trans sc)) hX
    | exact emit ((strBody_suffix _ _ _ _ _ (by assumption)).trans sc) hX
    | exact emit (((spec_longBody_suffix _ _ _ _ (by assumption)).1.trans (dropFirstNewline_suffix _)).trans
        (longOpener_suffix (by assumption))) hX
    | (rename_i heq; injection heq with e1 e2; subst e1 e2
       first | exact emit (sc.trans (sc.trans sc)) hX | exact emit (sc.trans sc) hX)
    | (rename_i heq; simp at heq; obtain ⟨_, _, rfl, rfl⟩ := heq
       exact emit ((numBuf_suffix _ _ _).trans (sc.trans sc)) hX)
    | (exfalso; simp_all; done)

/-! ## `Spec.lexLoop` factors through `trivia` -/

/-- **The reference factors through `trivia` (as an equation)**: when `trivia` finds `(cms, rest)`, the loop on `cs`
behaves - for every fuel, offset base and pending comments - as the loop on `rest` with `cms` pushed onto the (reversed)
pending comments; getting there costs `k` iterations. -/
theorem lexLoop_factor : ∀ (m : Nat) (cs : List Char), cs.length < m → ∀ cms rest, triviaOf cs = some (cms, rest) →
    ∃ k, k + rest.length ≤ cs.length ∧
      ∀ n f cm, Spec.lexLoop n f cs cm = Spec.lexLoop n (f - k) rest (cms.reverse ++ cm)
  | 0, _, hm, _, _, _ => by omega
  | m + 1, [], _, cms, rest, h => by
    rw [triviaOf_nil] at h
    cases h
    exact ⟨0, by simp, fun _ _ _ => rfl⟩
  | m + 1, c :: cs, hm, cms, rest, h => by
    by_cases hsp : Spec.isSpace c = true
    · rw [triviaOf_space hsp] at h
      obtain ⟨k, h1, h2⟩ := lexLoop_factor m cs (by simpa using hm) cms rest h
      refine ⟨k + 1, by simp only [List.length_cons]; omega, ?_⟩
      intro n f cm
      cases f with
      | zero => rw [Nat.zero_sub, lexLoop_zero, lexLoop_zero]
      | succ f => rw [lexLoop_space n f hsp, h2, Nat.add_sub_add_right]
    · by_cases hcm : c = '-' ∧ cs.head? = some '-'
      · obtain ⟨rfl, h2⟩ := hcm
        cases cs with
        | nil => cases h2
        | cons d r =>
          simp only [List.head?_cons, Option.some.injEq] at h2
          subst h2
          rw [triviaOf_comment] at h
          split at h
          · rename_i b rest1 hb
            cases ht : triviaOf rest1 with
            | none => rw [ht] at h; cases h
            | some x =>
              rw [ht] at h
              simp only [Option.map_some, Option.some.injEq, Prod.mk.injEq] at h
              obtain ⟨rfl, rfl⟩ := h
              have hl := (refComment_suffix hb).length_le
              obtain ⟨k, h1, h2⟩ := lexLoop_factor m rest1 (by simp at hm; omega) x.1 x.2 ht
              refine ⟨k + 1, by simp only [List.length_cons]; omega, ?_⟩
              intro n f cm
              cases f with
              | zero => rw [Nat.zero_sub, lexLoop_zero, lexLoop_zero]
              | succ f =>
                rw [lexLoop_comment, hb]
                simp only
                rw [h2, Nat.add_sub_add_right]
                simp
          · cases h
      · have hat : AtToken (c :: cs) := ⟨by simpa using hsp, hcm⟩
        rw [triviaOf_atToken hat] at h
        cases h
        exact ⟨0, by simp, fun _ _ _ => rfl⟩

/-- **The reference factors through `trivia` (failure)**: when `trivia` fails, so does the loop: "unfinished long
comment" at the `--` of that comment (`j` characters before the end of the text) as soon as the fuel exceeds the `k`
iterations it takes to get there. -/
theorem lexLoop_trivia_none : ∀ (m : Nat) (cs : List Char), cs.length < m → triviaOf cs = none →
    ∃ k j, k < cs.length ∧ j ≤ cs.length ∧ ∀ n f cm, Spec.lexLoop n f cs cm =
      if f ≤ k then .error (.mk "out of fuel" 0) else .error (.mk "unfinished long comment" (n - j))
  | 0, _, hm, _ => by omega
  | m + 1, [], _, h => by rw [triviaOf_nil] at h; cases h
  | m + 1, c :: cs, hm, h => by
    by_cases hsp : Spec.isSpace c = true
    · rw [triviaOf_space hsp] at h
      obtain ⟨k, j, h1, hj, h2⟩ := lexLoop_trivia_none m cs (by simpa using hm) h
      refine ⟨k + 1, j, by simp only [List.length_cons]; omega, by simp only [List.length_cons]; omega, ?_⟩
      intro n f cm
      cases f with
      | zero => rw [lexLoop_zero]; simp
      | succ f =>
        rw [lexLoop_space n f hsp, h2]
        simp only [Nat.add_le_add_iff_right]
    · by_cases hcm : c = '-' ∧ cs.head? = some '-'
      · obtain ⟨rfl, h2⟩ := hcm
        cases cs with
        | nil => cases h2
        | cons d r =>
          simp only [List.head?_cons, Option.some.injEq] at h2
          subst h2
          rw [triviaOf_comment] at h
          split at h
          · rename_i b rest1 hb
            cases ht : triviaOf rest1 with
            | some x => rw [ht] at h; cases h
            | none =>
              have hl := (refComment_suffix hb).length_le
              obtain ⟨k, j, h1, hj, h2⟩ := lexLoop_trivia_none m rest1 (by simp at hm; omega) ht
              refine ⟨k + 1, j, by simp only [List.length_cons]; omega, by simp only [List.length_cons]; omega, ?_⟩
              intro n f cm
              cases f with
              | zero => rw [lexLoop_zero]; simp
              | succ f =>
                rw [lexLoop_comment, hb]
                simp only
                rw [h2]
                simp only [Nat.add_le_add_iff_right]
          · rename_i hb
            refine ⟨0, r.length + 2, by simp, by simp, ?_⟩
            intro n f cm
            cases f with
            | zero => rw [lexLoop_zero]; simp
            | succ f =>
              rw [lexLoop_comment, hb]
              simp
      · have hat : AtToken (c :: cs) := ⟨by simpa using hsp, hcm⟩
        rw [triviaOf_atToken hat] at h
        cases h

theorem except_map_ok {ε α β : Type} {g : α → β} {x : Except ε α} {y : β} (h : x.map g = .ok y) :
    ∃ a, x = .ok a ∧ y = g a := by
  cases x with
  | error e => cases h
  | ok a => cases h; exact ⟨a, rfl, rfl⟩

/-- **Comment delivery (the reference, whole token list)**: the tokens' comment lists are, in order, exactly the lists
of comments that `trivia` finds in front of each token and in front of the end of the text. -/
theorem lexLoop_segmented (n : Nat) : ∀ (F f : Nat), f < F → ∀ (cs : List Char) (toks : List Spec.Tok),
    Spec.lexLoop n f cs [] = .ok toks → ∃ L, Segmented cs L ∧ toks.map (·.comments) = L
  | 0, _, hF, _, _, _ => by omega
  | F + 1, f, hF, cs, toks, h => by
    cases ht : triviaOf cs with
    | none =>
      obtain ⟨k, j, _, _, h2⟩ := lexLoop_trivia_none _ cs (Nat.lt_succ_self _) ht
      rw [h2] at h
      split at h <;> cases h
    | some x =>
      obtain ⟨cms, rest⟩ := x
      obtain ⟨k, h1, h2⟩ := lexLoop_factor _ cs (Nat.lt_succ_self _) cms rest ht
      have hat := (triviaOf_spec _ cs (Nat.lt_succ_self _) cms rest ht).1
      rw [h2, List.append_nil] at h
      cases hg : f - k with
      | zero => rw [hg, lexLoop_zero] at h; cases h
      | succ g =>
        rw [hg] at h
        cases rest with
        | nil =>
          rw [lexLoop_nil] at h
          cases h
          exact ⟨[cms], .eof ht, by simp⟩
        | cons c cs' =>
          rcases lexLoop_token n g c cs' cms.reverse hat with ⟨e, he⟩ | ⟨tk, rest', hsuf, he⟩
          · rw [he] at h; cases h
          · rw [he] at h
            obtain ⟨ts, hts, rfl⟩ := except_map_ok h
            obtain ⟨L, hL1, hL2⟩ := lexLoop_segmented n F g (by omega) rest' ts hts
            exact ⟨cms :: L, .tok ht (by simp) hsuf hL1, by simp [hL2]⟩

/-- **Comment delivery (`Spec.lex`)** -/
theorem lex_segmented {src : List Char} {toks : List Spec.Tok} (h : Spec.lex src = .ok toks) :
    ∃ L, Segmented (Spec.skipShebang src) L ∧ toks.map (·.comments) = L :=
  lexLoop_segmented _ _ _ (Nat.lt_succ_self _) _ _ h

end Tumfl.Theory
