import Tumfl.Theory.ResolveTermDefs
/-!
# The `found` table only grows

`Grow fs x`: a successful run of `x` does not increase the number of unfound files (in fact `found` is only ever
extended at its end).  Every `resolve*` function is `Grow`; a lookup of a file that was not yet in `found` strictly
decreases `unfound`.
-/
namespace Tumfl.Theory
open Tumfl.Model

/-- `found` only grows: every path found before is found after -/
def Grow {α : Type} (x : RM α) : Prop :=
  ∀ st a st', x st = .ok (a, st') → ∀ p, st.found.contains p = true → st'.found.contains p = true

theorem Grow.pure {α : Type} {a : α} : Grow (Pure.pure a : RM α) := by
  intro st a' st' h p hp; cases h; exact hp

theorem Grow.rfuel {α : Type} : Grow (rfuel : RM α) := by
  intro st a' st' h; cases h

theorem Grow.rthrow {α : Type} {e : PyErr} : Grow (rthrow e : RM α) := by
  intro st a' st' h; cases h

theorem Grow.bind {α β : Type} {x : RM α} {g : α → RM β} (hx : Grow x) (hg : ∀ a, Grow (g a)) : Grow (x >>= g) := by
  intro st b st' h p hp
  obtain ⟨a, s, h1, h2⟩ := rbind_ok h
  exact hg a s b st' h2 p (hx st a s h1 p hp)

theorem getDependencyPath_ok {fs : FS} {sp : List Path} {name : List Char} {dir : Path} {t : Token} {dedup : Bool}
    {st st' : RSt} {o : Option Path} (h : getDependencyPath fs sp name dir t dedup st = .ok (o, st')) :
    ∃ p, findFileInPath fs sp name dir = some p ∧
      ((dedup = true ∧ st.found.contains p = true ∧ o = none ∧ st' = st) ∨
       (dedup = false ∧ st.found.contains p = true ∧ o = some p ∧ st' = st) ∨
       (st.found.contains p = false ∧ o = some p ∧ st' = { found := st.found ++ [p] })) := by
  unfold getDependencyPath at h
  split at h
  · cases h
  · rename_i p hp
    refine ⟨p, hp, ?_⟩
    cases hc : st.found.contains p <;> cases dedup <;>
      simp only [hc, Bool.true_and, Bool.false_and, Bool.false_eq_true, if_true, if_false] at h <;> cases h <;> simp

theorem getDependencyPath_grow (fs : FS) (sp : List Path) (name : List Char) (dir : Path) (t : Token) (dedup : Bool) :
    Grow (getDependencyPath fs sp name dir t dedup) := by
  intro st o st' h q hq
  obtain ⟨p, _, h | h | h⟩ := getDependencyPath_ok h
  · obtain ⟨_, _, _, rfl⟩ := h; exact hq
  · obtain ⟨_, _, _, rfl⟩ := h; exact hq
  · obtain ⟨_, _, rfl⟩ := h
    simp only [List.contains_eq_mem, List.mem_append, decide_eq_true_eq] at hq ⊢
    exact Or.inl hq

theorem parseFile_grow (fs : FS) (p : Path) : Grow (parseFile fs p) := by
  intro st b st' h q hq
  obtain ⟨rfl, _⟩ := parseFile_ok h
  exact hq

set_option hygiene false in
macro "grow_steps" : tactic => `(tactic|
  repeat (first
    | exact Grow.pure
    | exact Grow.rthrow
    | exact ihE _ _
    | exact ihEs _ _
    | exact ihFs _ _
    | exact ihB _ _
    | exact ihSs _ _
    | exact ihO _ _
    | exact ihS _ _
    | exact ihF _ _
    | exact getDependencyPath_grow _ _ _ _ _ _
    | exact parseFile_grow _ _
    | (refine Grow.bind ?_ (fun _ => ?_))
    | split))

theorem resolve_grow (fs : FS) (sp : List Path) : ∀ f : Nat,
    (∀ dir e, Grow (resolveExpr fs sp f dir e)) ∧
    (∀ dir es, Grow (resolveExprs fs sp f dir es)) ∧
    (∀ dir fds, Grow (resolveFields fs sp f dir fds)) ∧
    (∀ dir b, Grow (resolveBlock fs sp f dir b)) ∧
    (∀ dir ss, Grow (resolveStmts fs sp f dir ss)) ∧
    (∀ dir o, Grow (resolveOptExpr fs sp f dir o)) ∧
    (∀ dir s, Grow (resolveStmt fs sp f dir s)) ∧
    (∀ dir fl, Grow (resolveFalse fs sp f dir fl)) := by
  intro f
  induction f with
  | zero =>
    refine ⟨?_, ?_, ?_, ?_, ?_, ?_, ?_, ?_⟩ <;> intro dir x
    · rw [resolveExpr]; exact Grow.rfuel
    · rw [resolveExprs]; exact Grow.rfuel
    · rw [resolveFields]; exact Grow.rfuel
    · rw [resolveBlock]; exact Grow.rfuel
    · rw [resolveStmts]; exact Grow.rfuel
    · rw [resolveOptExpr]; exact Grow.rfuel
    · rw [resolveStmt]; exact Grow.rfuel
    · rw [resolveFalse]; exact Grow.rfuel
  | succ f ih =>
    obtain ⟨ihE, ihEs, ihFs, ihB, ihSs, ihO, ihS, ihF⟩ := ih
    refine ⟨?_, ?_, ?_, ?_, ?_, ?_, ?_, ?_⟩
    · intro dir e
      cases e <;> simp only [resolveExpr] <;> grow_steps
    · intro dir es
      cases es <;> simp only [resolveExprs] <;> grow_steps
    · intro dir fds
      cases fds <;> simp only [resolveFields] <;> grow_steps
    · intro dir b
      obtain ⟨t, ss, rs, c⟩ := b
      simp only [resolveBlock]
      grow_steps
    · intro dir ss
      cases ss <;> simp only [resolveStmts] <;> grow_steps
    · intro dir o
      cases o <;> simp only [resolveOptExpr] <;> grow_steps
    · intro dir s
      cases s <;> simp only [resolveStmt] <;> grow_steps
    · intro dir fl
      cases fl <;> simp only [resolveFalse] <;> grow_steps

/-! ## `unfound` -/

theorem length_filter_le_of_imp {α : Type} (l : List α) {P Q : α → Bool} (hPQ : ∀ x, Q x = true → P x = true) :
    (l.filter Q).length ≤ (l.filter P).length := by
  induction l with
  | nil => simp
  | cons b l ih =>
    simp only [List.filter_cons]
    cases hq : Q b
    · cases hp : P b <;> simp <;> omega
    · simp [hPQ b hq]; omega

theorem unfound_mono {fs : FS} {st st' : RSt}
    (h : ∀ p, st.found.contains p = true → st'.found.contains p = true) : unfound fs st' ≤ unfound fs st := by
  unfold unfound
  apply length_filter_le_of_imp
  intro pf hpf
  cases hc : st.found.contains pf.1
  · rfl
  · rw [h _ hc] at hpf; cases hpf

theorem Grow.unfound_le {α : Type} {x : RM α} (hx : Grow x) (fs : FS) {st st' : RSt} {a : α}
    (h : x st = .ok (a, st')) : unfound fs st' ≤ unfound fs st :=
  unfound_mono (hx st a st' h)

theorem length_filter_lt {α : Type} {l : List α} {P Q : α → Bool} (hPQ : ∀ x, Q x = true → P x = true)
    {a : α} (ha : a ∈ l) (hP : P a = true) (hQ : Q a = false) : (l.filter Q).length < (l.filter P).length := by
  induction l with
  | nil => cases ha
  | cons b l ih =>
    rcases List.mem_cons.mp ha with rfl | ha
    · have : (l.filter Q).length ≤ (l.filter P).length := length_filter_le_of_imp l hPQ
      simp only [List.filter_cons, hP, hQ, if_true, Bool.false_eq_true, if_false, List.length_cons]
      omega
    · have := ih ha
      simp only [List.filter_cons]
      cases hq : Q b
      · cases hp : P b <;> simp <;> omega
      · simp [hPQ b hq]; omega

/-- adding a file that was not yet found strictly decreases `unfound` -/
theorem unfound_add_lt {fs : FS} {st : RSt} {p : Path} (hf : fs.isFile p = true) (hc : st.found.contains p = false) :
    unfound fs { found := st.found ++ [p] } < unfound fs st := by
  obtain ⟨c, hm⟩ := isFile_mem hf
  unfold unfound
  refine length_filter_lt (a := (p, c)) ?_ hm ?_ ?_
  · intro x hx
    simp only [List.contains_eq_mem, List.mem_append, Bool.not_eq_true', decide_eq_false_iff_not, not_or] at hx ⊢
    exact hx.1
  · show (!st.found.contains p) = true
    rw [hc]; rfl
  · show (!(st.found ++ [p]).contains p) = false
    simp

end Tumfl.Theory
