import Tumfl.Inst.Schema
/-!
# Replacing a child of an AST node in place (`replace_child` + re-linking), on the generic tree model

The dependency resolver edits the tree in place: one child of some node is replaced by another subtree.
`GT.get?` reads the subtree at a path of (slot index, child index) pairs, `GT.replaceAt` replaces it.

* `get?_replaceAt_self`, `get?_replaceAt_disjoint`, `get?_replaceAt_prefix`, `replaceAt_ancestor_shape`:
  exactly the given occurrence is substituted and nothing else;
* `wellTyped_replaceAt`, `wellTyped_replaceAll`: well-typedness (against the extracted schema) is preserved,
  so by `ast_links_proper_tree` / `ast_walk` the tree is again a proper tree after any finite sequence of
  replacements (`replaceAll_proper_tree`).
-/
namespace Tumfl.Theory
open Tumfl.Model Tumfl.Inst

/-! ## 1. definitions -/

/-- the subtree at a path of (slot index, child index) pairs -/
def _root_.Tumfl.Model.GT.get? : GT → NodePath → Option GT
  | t, [] => some t
  | .mk _ _ kids, (i, j) :: p =>
    match kids[i]? with
    | some (_, ts) =>
      match ts[j]? with
      | some ch => ch.get? p
      | none => none
    | none => none

/-- replace the subtree at a path; the identity if the path does not exist -/
def _root_.Tumfl.Model.GT.replaceAt : GT → NodePath → GT → GT
  | _, [], new => new
  | .mk c a kids, (i, j) :: p, new =>
    match kids[i]? with
    | some (n, ts) =>
      match ts[j]? with
      | some ch => .mk c a (kids.set i (n, ts.set j (ch.replaceAt p new)))
      | none => .mk c a kids
    | none => .mk c a kids

/-- a finite sequence of replacements, left to right -/
def _root_.Tumfl.Model.GT.replaceAll (t : GT) (rs : List (NodePath × GT)) : GT :=
  rs.foldl (fun acc r => acc.replaceAt r.1 r.2) t

@[simp] theorem get?_nil (t : GT) : t.get? [] = some t := by
  cases t; rfl
@[simp] theorem replaceAt_nil (t new : GT) : t.replaceAt [] new = new := by
  cases t; rfl

theorem get?_cons (c : String) (a : List (String × String)) (kids : List (String × List GT))
    (i j : Nat) (p : NodePath) :
    (GT.mk c a kids).get? ((i, j) :: p) =
      (match kids[i]? with
       | some (_, ts) => (match ts[j]? with | some ch => ch.get? p | none => none)
       | none => none) := rfl

theorem replaceAt_cons (c : String) (a : List (String × String)) (kids : List (String × List GT))
    (i j : Nat) (p : NodePath) (new : GT) :
    (GT.mk c a kids).replaceAt ((i, j) :: p) new =
      (match kids[i]? with
       | some (n, ts) =>
         (match ts[j]? with
          | some ch => .mk c a (kids.set i (n, ts.set j (ch.replaceAt p new)))
          | none => .mk c a kids)
       | none => .mk c a kids) := rfl

/-- the step of `get?` when slot and child exist -/
theorem get?_cons_of {c : String} {a : List (String × String)} {kids : List (String × List GT)}
    {i j : Nat} {n : String} {ts : List GT} {ch : GT} (hk : kids[i]? = some (n, ts)) (ht : ts[j]? = some ch)
    (p : NodePath) : (GT.mk c a kids).get? ((i, j) :: p) = ch.get? p := by
  rw [get?_cons, hk]; simp only [ht]

/-- the step of `replaceAt` when slot and child exist -/
theorem replaceAt_cons_of {c : String} {a : List (String × String)} {kids : List (String × List GT)}
    {i j : Nat} {n : String} {ts : List GT} {ch : GT} (hk : kids[i]? = some (n, ts)) (ht : ts[j]? = some ch)
    (p : NodePath) (new : GT) :
    (GT.mk c a kids).replaceAt ((i, j) :: p) new = .mk c a (kids.set i (n, ts.set j (ch.replaceAt p new))) := by
  rw [replaceAt_cons, hk]; simp only [ht]

theorem get?_cons_noslot {c : String} {a : List (String × String)} {kids : List (String × List GT)}
    {i : Nat} (hk : kids[i]? = none) (j : Nat) (p : NodePath) : (GT.mk c a kids).get? ((i, j) :: p) = none := by
  rw [get?_cons, hk]
theorem get?_cons_nochild {c : String} {a : List (String × String)} {kids : List (String × List GT)}
    {i j : Nat} {n : String} {ts : List GT} (hk : kids[i]? = some (n, ts)) (ht : ts[j]? = none)
    (p : NodePath) : (GT.mk c a kids).get? ((i, j) :: p) = none := by
  rw [get?_cons, hk]; simp only [ht]
theorem replaceAt_cons_noslot {c : String} {a : List (String × String)} {kids : List (String × List GT)}
    {i : Nat} (hk : kids[i]? = none) (j : Nat) (p : NodePath) (new : GT) :
    (GT.mk c a kids).replaceAt ((i, j) :: p) new = .mk c a kids := by
  rw [replaceAt_cons, hk]
theorem replaceAt_cons_nochild {c : String} {a : List (String × String)} {kids : List (String × List GT)}
    {i j : Nat} {n : String} {ts : List GT} (hk : kids[i]? = some (n, ts)) (ht : ts[j]? = none)
    (p : NodePath) (new : GT) : (GT.mk c a kids).replaceAt ((i, j) :: p) new = .mk c a kids := by
  rw [replaceAt_cons, hk]; simp only [ht]

/-- a path that exists starts with an existing slot and child -/
theorem get?_cons_some {c : String} {a : List (String × String)} {kids : List (String × List GT)}
    {i j : Nat} {p : NodePath} {r : GT} (h : (GT.mk c a kids).get? ((i, j) :: p) = some r) :
    ∃ n ts ch, kids[i]? = some (n, ts) ∧ ts[j]? = some ch ∧ ch.get? p = some r := by
  rw [get?_cons] at h
  cases hk : kids[i]? with
  | none => rw [hk] at h; simp at h
  | some nts =>
    obtain ⟨n, ts⟩ := nts
    rw [hk] at h
    cases ht : ts[j]? with
    | none => simp only [ht] at h; simp at h
    | some ch =>
      simp only [ht] at h
      exact ⟨n, ts, ch, rfl, ht, h⟩

theorem set_self_of_getElem? {α} {l : List α} {i : Nat} {x : α} (h : l[i]? = some x) : l.set i x = l := by
  obtain ⟨hi, e⟩ := List.getElem?_eq_some_iff.mp h
  subst e
  exact List.set_getElem_self hi

theorem getElem?_set_self_of {α} {l : List α} {i : Nat} {x y : α} (h : l[i]? = some x) :
    (l.set i y)[i]? = some y :=
  List.getElem?_set_self (List.getElem?_eq_some_iff.mp h).1

/-- replacing at a path that does not exist is the identity -/
theorem replaceAt_of_get?_none (t : GT) (p : NodePath) (new : GT) (h : t.get? p = none) :
    t.replaceAt p new = t := by
  induction p generalizing t with
  | nil => simp at h
  | cons ij p ih =>
    obtain ⟨i, j⟩ := ij
    match t with
    | .mk c a kids =>
      cases hk : kids[i]? with
      | none => exact replaceAt_cons_noslot hk j p new
      | some nts =>
        obtain ⟨n, ts⟩ := nts
        cases ht : ts[j]? with
        | none => exact replaceAt_cons_nochild hk ht p new
        | some ch =>
          rw [get?_cons_of hk ht] at h
          rw [replaceAt_cons_of hk ht, ih ch h, set_self_of_getElem? ht, set_self_of_getElem? hk]

/-! ## 2. exactly the given occurrence, and nothing else -/

/-- (a) after the replacement the new subtree sits at the path -/
theorem get?_replaceAt_self (t : GT) (p : NodePath) (new : GT) (h : (t.get? p).isSome = true) :
    (t.replaceAt p new).get? p = some new := by
  induction p generalizing t with
  | nil => simp
  | cons ij p ih =>
    obtain ⟨i, j⟩ := ij
    match t with
    | .mk c a kids =>
      obtain ⟨r, hr⟩ := Option.isSome_iff_exists.mp h
      obtain ⟨n, ts, ch, hk, ht, hc⟩ := get?_cons_some hr
      rw [replaceAt_cons_of hk ht,
        get?_cons_of (getElem?_set_self_of hk) (getElem?_set_self_of ht)]
      exact ih ch (by rw [hc]; rfl)

/-- (b) every path that is neither a prefix nor an extension of `p` reads the same subtree as before -/
theorem get?_replaceAt_disjoint (t : GT) (p q : NodePath) (new : GT)
    (hpq : ¬ p <+: q) (hqp : ¬ q <+: p) : (t.replaceAt p new).get? q = t.get? q := by
  induction p generalizing t q with
  | nil => exact absurd List.nil_prefix hpq
  | cons ij p ih =>
    obtain ⟨i, j⟩ := ij
    match q with
    | [] => exact absurd List.nil_prefix hqp
    | (i', j') :: q =>
      match t with
      | .mk c a kids =>
        cases hk : kids[i]? with
        | none => rw [replaceAt_cons_noslot hk]
        | some nts =>
          obtain ⟨n, ts⟩ := nts
          cases ht : ts[j]? with
          | none => rw [replaceAt_cons_nochild hk ht]
          | some ch =>
            rw [replaceAt_cons_of hk ht]
            by_cases hi : i = i'
            · subst hi
              by_cases hj : j = j'
              · subst hj
                rw [get?_cons_of (getElem?_set_self_of hk) (getElem?_set_self_of ht), get?_cons_of hk ht]
                apply ih
                · intro hp; exact hpq (by rw [List.cons_prefix_cons]; exact ⟨rfl, hp⟩)
                · intro hp; exact hqp (by rw [List.cons_prefix_cons]; exact ⟨rfl, hp⟩)
              · rw [get?_cons, get?_cons, getElem?_set_self_of hk, hk]
                simp only [List.getElem?_set_ne hj]
            · rw [get?_cons, get?_cons, List.getElem?_set_ne hi]

/-- reading along a concatenated path -/
theorem get?_append (t : GT) (q r : NodePath) : t.get? (q ++ r) = (t.get? q).bind (·.get? r) := by
  induction q generalizing t with
  | nil => simp
  | cons ij q ih =>
    obtain ⟨i, j⟩ := ij
    match t with
    | .mk c a kids =>
      rw [List.cons_append]
      cases hk : kids[i]? with
      | none => rw [get?_cons_noslot hk, get?_cons_noslot hk]; rfl
      | some nts =>
        obtain ⟨n, ts⟩ := nts
        cases ht : ts[j]? with
        | none => rw [get?_cons_nochild hk ht, get?_cons_nochild hk ht]; rfl
        | some ch => rw [get?_cons_of hk ht, get?_cons_of hk ht]; exact ih ch

/-- what sits at a prefix `q` of the replaced path `q ++ r` is the old subtree at `q` with `r` replaced in it
(so the change is confined to the subtree at the path; with `r = []` this is (a)) -/
theorem get?_replaceAt_prefix (t : GT) (q r : NodePath) (new : GT) :
    (t.replaceAt (q ++ r) new).get? q = (t.get? q).map (·.replaceAt r new) := by
  induction q generalizing t with
  | nil => simp
  | cons ij q ih =>
    obtain ⟨i, j⟩ := ij
    match t with
    | .mk c a kids =>
      rw [List.cons_append]
      cases hk : kids[i]? with
      | none => rw [replaceAt_cons_noslot hk, get?_cons_noslot hk]; rfl
      | some nts =>
        obtain ⟨n, ts⟩ := nts
        cases ht : ts[j]? with
        | none => rw [replaceAt_cons_nochild hk ht, get?_cons_nochild hk ht]; rfl
        | some ch =>
          rw [replaceAt_cons_of hk ht,
            get?_cons_of (getElem?_set_self_of hk) (getElem?_set_self_of ht), get?_cons_of hk ht]
          exact ih ch

/-- below the replaced path one reads the new subtree -/
theorem get?_replaceAt_extension (t : GT) (p r : NodePath) (new : GT) (h : (t.get? p).isSome = true) :
    (t.replaceAt p new).get? (p ++ r) = new.get? r := by
  rw [get?_append, get?_replaceAt_self t p new h]; rfl

/-- the node-local data of a node: class, atoms, slot names, number of children per slot -/
def _root_.Tumfl.Model.GT.shape (t : GT) : String × List (String × String) × List (String × Nat) :=
  (t.cls, t.atoms, t.kids.map fun s => (s.1, s.2.length))

/-- replacing strictly below a node leaves the node's own class, atoms, slot names and child counts unchanged -/
theorem shape_replaceAt_cons (t : GT) (ij : Nat × Nat) (p : NodePath) (new : GT) :
    (t.replaceAt (ij :: p) new).shape = t.shape := by
  obtain ⟨i, j⟩ := ij
  match t with
  | .mk c a kids =>
    cases hk : kids[i]? with
    | none => rw [replaceAt_cons_noslot hk]
    | some nts =>
      obtain ⟨n, ts⟩ := nts
      cases ht : ts[j]? with
      | none => rw [replaceAt_cons_nochild hk ht]
      | some ch =>
        rw [replaceAt_cons_of hk ht]
        simp only [GT.shape, GT.cls, GT.atoms, GT.kids, List.map_set, List.length_set]
        congr 2
        apply set_self_of_getElem?
        rw [List.getElem?_map, hk]; rfl

/-- (c) every proper ancestor of the replaced node keeps its class, atoms, slot names and the number of children in
every slot (and exists after the replacement iff it existed before) -/
theorem replaceAt_ancestor_shape (t : GT) (q : NodePath) (ij : Nat × Nat) (r : NodePath) (new : GT) :
    ((t.replaceAt (q ++ ij :: r) new).get? q).map GT.shape = (t.get? q).map GT.shape := by
  rw [get?_replaceAt_prefix, Option.map_map]
  cases t.get? q with
  | none => rfl
  | some s => simp only [Option.map_some, Function.comp_apply, shape_replaceAt_cons]

/-- (c), spelled out with `List.IsPrefix` -/
theorem replaceAt_ancestor_unchanged (t : GT) (p q : NodePath) (new : GT) (hq : q <+: p) (hne : q ≠ p)
    (a : GT) (ha : t.get? q = some a) :
    ∃ b, (t.replaceAt p new).get? q = some b ∧ b.cls = a.cls ∧ b.atoms = a.atoms ∧
      b.kids.map (·.1) = a.kids.map (·.1) ∧ b.kids.map (·.2.length) = a.kids.map (·.2.length) := by
  obtain ⟨r, rfl⟩ := hq
  match r with
  | [] => simp at hne
  | ij :: r =>
    have h := shape_replaceAt_cons a ij r new
    rw [get?_replaceAt_prefix, ha]
    refine ⟨a.replaceAt (ij :: r) new, rfl, ?_⟩
    simp only [GT.shape, Prod.mk.injEq] at h
    obtain ⟨h1, h2, h3⟩ := h
    refine ⟨h1, h2, ?_, ?_⟩
    · have := congrArg (List.map (·.1)) h3
      simpa only [List.map_map, Function.comp_def] using this
    · have := congrArg (List.map (·.2)) h3
      simpa only [List.map_map, Function.comp_def] using this

/-! ## 3. well-typedness is preserved

`wellTyped` (`Inst/Schema.lean`) checks, per node and recursively, that the class is in the extracted schema and that the
atom names and the child slot names are exactly the schema's, in schema order.  It does NOT constrain which classes may sit in
a slot, nor how many children a slot holds; so the only hypothesis on `new` is that it is well typed itself. -/

theorem wellTypedList_iff (ts : List GT) : wellTypedList ts = true ↔ ∀ t ∈ ts, wellTyped t = true := by
  induction ts with
  | nil => simp [wellTypedList]
  | cons t r ih => simp only [wellTypedList, Bool.and_eq_true, ih, List.mem_cons, forall_eq_or_imp]

theorem wellTypedSlots_iff (kids : List (String × List GT)) :
    wellTypedSlots kids = true ↔ ∀ s ∈ kids, wellTypedList s.2 = true := by
  induction kids with
  | nil => simp [wellTypedSlots]
  | cons s r ih =>
    obtain ⟨n, ts⟩ := s
    simp only [wellTypedSlots, Bool.and_eq_true, ih, List.mem_cons, forall_eq_or_imp]

theorem wellTyped_replaceAt (t : GT) (p : NodePath) (new : GT)
    (ht : wellTyped t = true) (hn : wellTyped new = true) : wellTyped (t.replaceAt p new) = true := by
  induction p generalizing t with
  | nil => simpa using hn
  | cons ij p ih =>
    obtain ⟨i, j⟩ := ij
    match t with
    | .mk c a kids =>
      cases hk : kids[i]? with
      | none => rw [replaceAt_cons_noslot hk]; exact ht
      | some nts =>
        obtain ⟨n, ts⟩ := nts
        cases hc : ts[j]? with
        | none => rw [replaceAt_cons_nochild hk hc]; exact ht
        | some ch =>
          rw [replaceAt_cons_of hk hc]
          have hkm : (n, ts) ∈ kids := List.mem_of_getElem? hk
          have hcm : ch ∈ ts := List.mem_of_getElem? hc
          simp only [wellTyped, Bool.and_eq_true] at ht ⊢
          obtain ⟨h1, h2⟩ := ht
          have hnames : (kids.set i (n, ts.set j (ch.replaceAt p new))).map (·.1) = kids.map (·.1) := by
            rw [List.map_set]
            apply set_self_of_getElem?
            rw [List.getElem?_map, hk]; rfl
          rw [hnames]
          refine ⟨h1, ?_⟩
          rw [wellTypedSlots_iff] at h2 ⊢
          intro s hs
          rcases List.mem_or_eq_of_mem_set hs with hs | rfl
          · exact h2 s hs
          · have h3 := h2 _ hkm
            simp only [wellTypedList_iff] at h3 ⊢
            intro u hu
            rcases List.mem_or_eq_of_mem_set hu with hu | rfl
            · exact h3 u hu
            · exact ih ch (h3 ch hcm)

/-- well-typedness after any finite sequence of replacements by well-typed subtrees -/
theorem wellTyped_replaceAll (t : GT) (rs : List (NodePath × GT))
    (ht : wellTyped t = true) (hr : ∀ r ∈ rs, wellTyped r.2 = true) : wellTyped (t.replaceAll rs) = true := by
  induction rs generalizing t with
  | nil => exact ht
  | cons r rs ih =>
    simp only [GT.replaceAll, List.foldl_cons]
    exact ih _ (wellTyped_replaceAt t r.1 r.2 ht (hr r (by simp))) (fun x hx => hr x (by simp [hx]))

/-- **C17, the state after dependency resolution**: after ANY finite sequence of in-place child replacements by well-typed
subtrees (parsed files, empty statements) and re-linking, the AST is again a proper tree: `parent()` sets exactly the
child->parent edges, every node below the root is linked exactly once, to the node one step up, and the generic walker
visits every node below the root exactly once -/
theorem replaceAll_proper_tree (t : GT) (rs : List (NodePath × GT))
    (ht : wellTyped t = true) (hr : ∀ r ∈ rs, wellTyped r.2 = true) :
    let t' := t.replaceAll rs
    wellTyped t' = true ∧
    (links scanOf [] t' = allEdges [] t' ∧ (childPaths (links scanOf [] t')).Nodup ∧
      ∀ e ∈ links scanOf [] t', ∃ ij, e.1 = e.2 ++ [ij]) ∧
    (links walkOf [] t' = allEdges [] t' ∧ (childPaths (links walkOf [] t')).Nodup) := by
  intro t'
  have h := wellTyped_replaceAll t rs ht hr
  exact ⟨h, ast_links_proper_tree t' h, ast_walk t' h⟩

/-- the single-step version -/
theorem replaceAt_proper_tree (t : GT) (p : NodePath) (new : GT)
    (ht : wellTyped t = true) (hn : wellTyped new = true) :
    let t' := t.replaceAt p new
    (links scanOf [] t' = allEdges [] t' ∧ (childPaths (links scanOf [] t')).Nodup ∧
      ∀ e ∈ links scanOf [] t', ∃ ij, e.1 = e.2 ++ [ij]) ∧
    (links walkOf [] t' = allEdges [] t' ∧ (childPaths (links walkOf [] t')).Nodup) := by
  intro t'
  have h := wellTyped_replaceAt t p new ht hn
  exact ⟨ast_links_proper_tree t' h, ast_walk t' h⟩

/-! ## 4. a concrete three-node tree

`exA` is `x + x` (a `BinOp` with the two leaves `leafX`, `leafX`).  Replacing the right operand (path `[(1, 0)]`) by `leafY`
gives exactly `exB` = `x + y`: the left operand, although structurally equal to the replaced child, is untouched (the
occurrence is addressed by position, not by value). -/

def semi : GT := .mk "Semicolon" [("name", "Semicolon")] []

theorem replaceAt_example :
    GT.beq (exA.replaceAt [(1, 0)] leafY) exB = true ∧
    (exA.get? [(1, 0)]).map (GT.beq leafX) = some true ∧
    ((exA.replaceAt [(1, 0)] leafY).get? [(1, 0)]).map (GT.beq leafY) = some true ∧
    ((exA.replaceAt [(1, 0)] leafY).get? [(0, 0)]).map (GT.beq leafX) = some true ∧
    ((exA.replaceAt [(1, 0)] leafY).get? []).map GT.shape = some exA.shape ∧
    -- a path that does not exist: nothing happens
    GT.beq (exA.replaceAt [(2, 0)] leafY) exA = true ∧ GT.beq (exA.replaceAt [(1, 1)] leafY) exA = true ∧
    GT.beq (exA.replaceAt [(1, 0), (0, 0)] leafY) exA = true ∧
    -- two replacements in sequence, one by an empty statement
    GT.beq (exA.replaceAll [([(1, 0)], leafY), ([(0, 0)], semi)])
      (.mk "BinOp" [("name", "BinOp"), ("op", "+")] [("left", [semi]), ("right", [leafY])]) = true ∧
    wellTyped (exA.replaceAll [([(1, 0)], leafY), ([(0, 0)], semi)]) = true ∧
    links scanOf [] (exA.replaceAll [([(1, 0)], leafY), ([(0, 0)], semi)]) = [([(0, 0)], []), ([(1, 0)], [])] := by
  decide +kernel

theorem replaceAt_example_eq : exA.replaceAt [(1, 0)] leafY = exB :=
  (GT.beq_iff_eq _ _).mp replaceAt_example.1

end Tumfl.Theory
-- touch
