import Tumfl.Theory.EmitIEq
import Tumfl.Theory.PrintSimDefs
/-!
# A `Printable` tree has no chunk in statement position (`ncBlock`)
-/
namespace Tumfl.Theory
open Tumfl.Model

theorem nc_of_name {e : Expr} (h : nameNodeOK e = true) : ncExpr e = true := by
  cases e <;> simp_all [nameNodeOK, ncExpr]

theorem nc_of_names : ∀ {es : List Expr}, es.all nameNodeOK = true → ncArgs es = true
  | [], _ => rfl
  | e :: rest, h => by
    simp only [List.all_cons, Bool.and_eq_true] at h
    simp only [ncArgs, Bool.and_eq_true]
    exact ⟨nc_of_name h.1, nc_of_names h.2⟩

theorem nc_of_params : ∀ (es : List Expr), paramsOK es = true → ncArgs es = true
  | [], _ => rfl
  | e :: rest, h => by
    have : ncExpr e = true ∧ paramsOK rest = true := by
      cases e <;> cases rest <;> simp_all [paramsOK, nameNodeOK, ncExpr]
    simp only [ncArgs, Bool.and_eq_true]
    exact ⟨this.1, nc_of_params rest this.2⟩

mutual
theorem nc_pExpr : (e : Expr) → pExpr e = true → ncExpr e = true
  | .nil _, _ | .bool _ _, _ | .vararg _, _ | .number _ _, _ | .string _ _, _ | .name _ _, _ => by simp [ncExpr]
  | .func _ ps body, h => by
    simp only [pExpr, Bool.and_eq_true] at h
    simp only [ncExpr, Bool.and_eq_true]
    exact ⟨nc_of_params ps h.1, nc_pBlock body h.2⟩
  | .table _ fs, h => by
    simp only [pExpr] at h
    simp only [ncExpr]
    exact nc_pFields fs h
  | .binop _ _ l r, h => by
    simp only [pExpr, Bool.and_eq_true] at h
    simp only [ncExpr, Bool.and_eq_true]
    exact ⟨nc_pExpr l h.1, nc_pExpr r h.2⟩
  | .unop _ _ e, h => by
    simp only [pExpr] at h
    simp only [ncExpr]
    exact nc_pExpr e h
  | .index _ l k, h => by
    simp only [pExpr, Bool.and_eq_true] at h
    simp only [ncExpr, Bool.and_eq_true]
    exact ⟨nc_pExpr l h.1, nc_pExpr k h.2⟩
  | .namedIndex _ l nm, h => by
    simp only [pExpr, Bool.and_eq_true] at h
    simp only [ncExpr, Bool.and_eq_true]
    exact ⟨nc_pExpr l h.1, nc_of_name h.2⟩
  | .call _ f args, h => by
    simp only [pExpr, Bool.and_eq_true] at h
    simp only [ncExpr, Bool.and_eq_true]
    exact ⟨nc_pExpr f h.1, nc_pArgs args h.2⟩
  | .method _ f m args, h => by
    simp only [pExpr, Bool.and_eq_true] at h
    simp only [ncExpr, Bool.and_eq_true]
    exact ⟨⟨nc_pExpr f h.1.1, nc_of_name h.1.2⟩, nc_pArgs args h.2⟩

theorem nc_pArgs : (es : List Expr) → pArgs es = true → ncArgs es = true
  | [], _ => rfl
  | e :: rest, h => by
    simp only [pArgs, Bool.and_eq_true] at h
    simp only [ncArgs, Bool.and_eq_true]
    exact ⟨nc_pExpr e h.1, nc_pArgs rest h.2⟩

theorem nc_pFields : (fs : List Field) → pFields fs = true → ncFields fs = true
  | [], _ => rfl
  | f :: rest, h => by
    simp only [pFields, Bool.and_eq_true] at h
    simp only [ncFields, Bool.and_eq_true]
    exact ⟨nc_pField f h.1, nc_pFields rest h.2⟩

theorem nc_pField : (f : Field) → pField f = true → ncField f = true
  | .explicit _ k v, h => by
    simp only [pField, Bool.and_eq_true] at h
    simp only [ncField, Bool.and_eq_true]
    exact ⟨nc_pExpr k h.1, nc_pExpr v h.2⟩
  | .named _ n v, h => by
    simp only [pField, Bool.and_eq_true] at h
    simp only [ncField, Bool.and_eq_true]
    exact ⟨nc_of_name h.1, nc_pExpr v h.2⟩
  | .numbered _ v, h => by
    simp only [pField] at h
    simp only [ncField]
    exact nc_pExpr v h

theorem nc_pBlock : (b : Block) → pBlock b = true → ncBlock b = true
  | .mk _ stmts none _, h => by
    simp only [pBlock, Bool.and_true] at h
    simp only [ncBlock]
    exact nc_pStmts stmts h
  | .mk _ stmts (some es) _, h => by
    simp only [pBlock, Bool.and_eq_true] at h
    simp only [ncBlock, Bool.and_eq_true]
    exact ⟨nc_pStmts stmts h.1, nc_pArgs es h.2⟩

theorem nc_pStmts : (ss : List Stmt) → pStmts ss = true → ncStmts ss = true
  | [], _ => rfl
  | s :: rest, h => by
    simp only [pStmts, Bool.and_eq_true] at h
    simp only [ncStmts, Bool.and_eq_true]
    exact ⟨nc_pStmt s h.1, nc_pStmts rest h.2⟩

theorem nc_pStmt : (s : Stmt) → pStmt s = true → ncStmt s = true
  | .brk _, _ | .semi _, _ | .localAssign _ _ none, _ | .localAssign _ _ (some []), _ => by simp [ncStmt, ncArgs]
  | .assign _ ts es, h => by
    simp only [pStmt, Bool.and_eq_true] at h
    simp only [ncStmt, Bool.and_eq_true]
    exact ⟨nc_pArgs ts h.1.1.2, nc_pArgs es h.2⟩
  | .block b, h => by
    simp only [pStmt, Bool.and_eq_true] at h
    simp only [ncStmt, Bool.and_eq_true]
    exact ⟨h.1, nc_pBlock b h.2⟩
  | .call _ f args, h => by
    simp only [pStmt, Bool.and_eq_true] at h
    simp only [ncStmt, Bool.and_eq_true]
    exact ⟨nc_pExpr f h.1, nc_pArgs args h.2⟩
  | .funcDef _ names none ps body, h => by
    simp only [pStmt, Bool.and_eq_true, Bool.and_true] at h
    simp only [ncStmt, Bool.and_eq_true]
    exact ⟨⟨nc_of_names h.1.1.2, nc_of_params ps h.1.2⟩, nc_pBlock body h.2⟩
  | .funcDef _ names (some mn) ps body, h => by
    simp only [pStmt, Bool.and_eq_true] at h
    simp only [ncStmt, Bool.and_eq_true]
    exact ⟨⟨⟨nc_of_names h.1.1.1.2, nc_of_name h.1.1.2⟩, nc_of_params ps h.1.2⟩, nc_pBlock body h.2⟩
  | .goto _ l, h => by
    simp only [pStmt] at h
    simp only [ncStmt]
    exact nc_of_name h
  | .label _ l, h => by
    simp only [pStmt] at h
    simp only [ncStmt]
    exact nc_of_name h
  | .iff _ test tr fl, h => by
    simp only [pStmt, Bool.and_eq_true] at h
    simp only [ncStmt, Bool.and_eq_true]
    exact ⟨⟨nc_pExpr test h.1.1.1, nc_pBlock tr h.1.2⟩, nc_pFalse fl h.2⟩
  | .iterFor _ ns es body, h => by
    simp only [pStmt, Bool.and_eq_true] at h
    simp only [ncStmt, Bool.and_eq_true]
    exact ⟨⟨nc_of_names h.1.1.1.1.2, nc_pArgs es h.1.1.2⟩, nc_pBlock body h.2⟩
  | .localAssign _ names (some (e :: rest)), h => by
    simp only [pStmt, Bool.and_eq_true] at h
    simp only [ncStmt]
    exact nc_pArgs (e :: rest) h.2
  | .localFunc _ n ps body, h => by
    simp only [pStmt, Bool.and_eq_true] at h
    simp only [ncStmt, Bool.and_eq_true]
    exact ⟨⟨nc_of_name h.1.1, nc_of_params ps h.1.2⟩, nc_pBlock body h.2⟩
  | .method _ f m args, h => by
    simp only [pStmt, Bool.and_eq_true] at h
    simp only [ncStmt, Bool.and_eq_true]
    exact ⟨⟨nc_pExpr f h.1.1, nc_of_name h.1.2⟩, nc_pArgs args h.2⟩
  | .numFor _ v a b none body, h => by
    simp only [pStmt, Bool.and_eq_true, Bool.and_true] at h
    simp only [ncStmt, Bool.and_eq_true]
    exact ⟨⟨⟨nc_of_name h.1.1.1.1, nc_pExpr a h.1.1.1.2⟩, nc_pExpr b h.1.1.2⟩, nc_pBlock body h.2⟩
  | .numFor _ v a b (some s) body, h => by
    simp only [pStmt, Bool.and_eq_true] at h
    simp only [ncStmt, Bool.and_eq_true]
    exact ⟨⟨⟨⟨nc_of_name h.1.1.1.1.1, nc_pExpr a h.1.1.1.1.2⟩, nc_pExpr b h.1.1.1.2⟩, nc_pExpr s h.1.1.2⟩,
      nc_pBlock body h.2⟩
  | .repeat _ c body, h => by
    simp only [pStmt, Bool.and_eq_true] at h
    simp only [ncStmt, Bool.and_eq_true]
    exact ⟨nc_pExpr c h.2, nc_pBlock body h.1.2⟩
  | .whl _ c body, h => by
    simp only [pStmt, Bool.and_eq_true] at h
    simp only [ncStmt, Bool.and_eq_true]
    exact ⟨nc_pExpr c h.1.1, nc_pBlock body h.2⟩

theorem nc_pFalse : (fl : IfFalse) → pFalse fl = true → ncFalse fl = true
  | .none, _ => rfl
  | .block b, h => by
    simp only [pFalse, Bool.and_eq_true] at h
    simp only [ncFalse]
    exact nc_pBlock b h.2
  | .elif _ test tr fl, h => by
    simp only [pFalse, Bool.and_eq_true] at h
    simp only [ncFalse, Bool.and_eq_true]
    exact ⟨⟨nc_pExpr test h.1.1.1, nc_pBlock tr h.1.2⟩, nc_pFalse fl h.2⟩
end

theorem ncBlock_of_Printable {b : Block} (h : Printable b) : ncBlock b = true := nc_pBlock b h.2

end Tumfl.Theory
