import Tumfl.Theory.ResolveComplete
/-!
# Completeness of the dependency error: non-vacuity

* the two failing file systems of `ResolveDesignates.lean` and a cyclic one: the run with fuel 20 ends in an
  `InvalidDependencyError` (computed), hence - soundness, then completeness - NO fuel makes resolution succeed;
* a clean system (expression-level and deduplicated statement-level `require` of the same file, and a statement-level
  cycle back to the main file): resolution succeeds (computed), hence no block of its dependency tree offends.
-/
namespace Tumfl.Theory
open Tumfl.Model

/-- from a computed check to the hypothesis of `resolve_dependency_error_never_ok` -/
theorem never_ok_of_checked {fs : FS} {main : Path} {sp : List Path} {fuel : Nat}
    (key : (match resolveRecursive fs main sp fuel with
      | .error (.dependency _ _) => true
      | _ => false) = true) (fuel' : Nat) : ∃ e, resolveRecursive fs main sp fuel' = .error e := by
  cases h : resolveRecursive fs main sp fuel with
  | ok b => rw [h] at key; cases key
  | error e =>
    rw [h] at key
    cases e with
    | dependency m t => exact resolve_dependency_error_never_ok h fuel'
    | lexer _ _ _ => cases key
    | parser _ _ _ => cases key
    | py _ _ => cases key
    | fuel => cases key

/-- a missing module inside an inlined file (`m.lua`, reached by an expression-level `require`): no fuel helps -/
example (fuel : Nat) : ∃ e, resolveRecursive exMissingFS ["p", "main.lua"] [] fuel = .error e :=
  never_ok_of_checked (fuel := 20) (by decide +kernel) fuel

/-- wrong arguments in the main file: no fuel helps -/
example (fuel : Nat) : ∃ e, resolveRecursive exWrongFS ["p", "main.lua"] [] fuel = .error e :=
  never_ok_of_checked (fuel := 20) (by decide +kernel) fuel

/-- a statement-level cycle does not hide anything: `a` requires `b`; `b` requires `a` back (whose `require('b')` is
then deduplicated while `b` is still being walked) and AFTER that the missing `zz` -/
def exCycleBadFS : FS :=
  { files := [(["p", "a.lua"], "require('b')".toList), (["p", "b.lua"], "require('a')\nrequire('zz')".toList)],
    dirs := [["p"]] }

example (fuel : Nat) : ∃ e, resolveRecursive exCycleBadFS ["p", "a.lua"] [] fuel = .error e :=
  never_ok_of_checked (fuel := 20) (by decide +kernel) fuel

/-- a malformed call deep inside an expression of a file that is required twice (first deduplicating statement level,
then expression level) -/
def exDeepBadFS : FS :=
  { files := [(["p", "main.lua"], "require('m')\nlocal x = {1, f(require('m'))}".toList),
              (["p", "m.lua"], "return function() return 1 + require() end".toList)],
    dirs := [["p"]] }

example (fuel : Nat) : ∃ e, resolveRecursive exDeepBadFS ["p", "main.lua"] [] fuel = .error e :=
  never_ok_of_checked (fuel := 20) (by decide +kernel) fuel

/-- a clean system: `main` inlines `m` at expression level, then a statement-level `require('m')` is deduplicated;
`m` requires `main` back (statement-level cycle) and returns a value -/
def exCleanFS : FS :=
  { files := [(["p", "main.lua"], "local x = require('m')\nrequire('m')".toList),
              (["p", "m.lua"], "require('main')\nreturn 1".toList)],
    dirs := [["p"]] }

theorem exCleanFS_ok : ∃ b', resolveRecursive exCleanFS ["p", "main.lua"] [] 20 = .ok b' := by
  have key : (match resolveRecursive exCleanFS ["p", "main.lua"] [] 20 with | .ok _ => true | .error _ => false) = true := by
    decide +kernel
  cases h : resolveRecursive exCleanFS ["p", "main.lua"] [] 20 with
  | ok b => exact ⟨b, rfl⟩
  | error e => rw [h] at key; cases key

/-- the theorem, instantiated: no block of the dependency tree of the clean system offends -/
example : ∀ dir b m t, InTree exCleanFS [] ["p", "main.lua"] dir b → ¬ offendsBlock exCleanFS [] dir m t b := by
  obtain ⟨b', h⟩ := exCleanFS_ok
  exact resolve_complete h

/-- ... and every file a literal `require` of a tree block finds parses and is in the tree again -/
example {dir : Path} {b : Block} (ht : InTree exCleanFS [] ["p", "main.lua"] dir b) {path : Path}
    (hreq : requiresBlock exCleanFS [] dir path b) :
    ∃ text b1 hs, exCleanFS.read path = some text ∧ parseText text = .ok (b1, hs) ∧
      InTree exCleanFS [] ["p", "main.lua"] (dirOf path) (asChunk b1) := by
  obtain ⟨b', h⟩ := exCleanFS_ok
  exact resolve_complete_parses h ht hreq

end Tumfl.Theory
