import Tumfl.Theory.ResolveFaithfulFoundDefs
/-!
# The threaded relation is functional

`Inl*F fs sp dir found x · ·` relates `x` (under the table `found`) to at most one result and one final table: the
specification has no slack, so (with `resolve_faithfulF_all`) the model's result is THE faithful inlining.
The proof is one application of the mutual recursor (`InlBlockF.rec`), with one minor premise per rule; determinism of the
other relations follows by wrapping the node into a block.
-/
namespace Tumfl.Theory
open Tumfl.Model

theorem not_reqLit_of_name {fn : Expr} {tk : Token} {name : List Char} (hr : isRequireName fn = true)
    (hn : isReqLit fn [.string tk name] = false) : False := by
  simp [isReqLit, isStrLit1, hr] at hn

/-- same lookup, same file content, same parse: the same chunk -/
theorem same_chunk {fs : FS} {sp : List Path} {name : List Char} {dir p1 p2 : Path} {t1 t2 : List Char}
    {tk1 tk2 : Token} {ss1 ss2 : List Stmt} {rs1 rs2 : Option (List Expr)} {c1 c2 : Bool} {x1 x2 : List Hint}
    (hf1 : findFileInPath fs sp name dir = some p1) (hf2 : findFileInPath fs sp name dir = some p2)
    (hr1 : fs.read p1 = some t1) (hr2 : fs.read p2 = some t2)
    (hp1 : parseText t1 = .ok (Block.mk tk1 ss1 rs1 c1, x1)) (hp2 : parseText t2 = .ok (Block.mk tk2 ss2 rs2 c2, x2)) :
    p1 = p2 ∧ tk1 = tk2 ∧ ss1 = ss2 ∧ rs1 = rs2 := by
  rw [hf1] at hf2; cases hf2
  rw [hr1] at hr2; cases hr2
  rw [hp1] at hp2; cases hp2
  exact ⟨rfl, rfl, rfl, rfl⟩

def DetE (fs : FS) (sp : List Path) (dir : Path) (fd : List Path) (x x1 : Expr) (fd1 : List Path) : Prop :=
  ∀ x2 fd2, InlExprF fs sp dir fd x x2 fd2 → x1 = x2 ∧ fd1 = fd2
def DetEs (fs : FS) (sp : List Path) (dir : Path) (fd : List Path) (x x1 : List Expr) (fd1 : List Path) : Prop :=
  ∀ x2 fd2, InlExprsF fs sp dir fd x x2 fd2 → x1 = x2 ∧ fd1 = fd2
def DetFd (fs : FS) (sp : List Path) (dir : Path) (fd : List Path) (x x1 : Field) (fd1 : List Path) : Prop :=
  ∀ x2 fd2, InlFieldF fs sp dir fd x x2 fd2 → x1 = x2 ∧ fd1 = fd2
def DetFds (fs : FS) (sp : List Path) (dir : Path) (fd : List Path) (x x1 : List Field) (fd1 : List Path) : Prop :=
  ∀ x2 fd2, InlFieldsF fs sp dir fd x x2 fd2 → x1 = x2 ∧ fd1 = fd2
def DetO (fs : FS) (sp : List Path) (dir : Path) (fd : List Path) (x x1 : Option Expr) (fd1 : List Path) : Prop :=
  ∀ x2 fd2, InlOptExprF fs sp dir fd x x2 fd2 → x1 = x2 ∧ fd1 = fd2
def DetOs (fs : FS) (sp : List Path) (dir : Path) (fd : List Path) (x x1 : Option (List Expr)) (fd1 : List Path) : Prop :=
  ∀ x2 fd2, InlOptExprsF fs sp dir fd x x2 fd2 → x1 = x2 ∧ fd1 = fd2
def DetS (fs : FS) (sp : List Path) (dir : Path) (fd : List Path) (x x1 : Stmt) (fd1 : List Path) : Prop :=
  ∀ x2 fd2, InlStmtF fs sp dir fd x x2 fd2 → x1 = x2 ∧ fd1 = fd2
def DetSs (fs : FS) (sp : List Path) (dir : Path) (fd : List Path) (x x1 : List Stmt) (fd1 : List Path) : Prop :=
  ∀ x2 fd2, InlStmtsF fs sp dir fd x x2 fd2 → x1 = x2 ∧ fd1 = fd2
def DetFl (fs : FS) (sp : List Path) (dir : Path) (fd : List Path) (x x1 : IfFalse) (fd1 : List Path) : Prop :=
  ∀ x2 fd2, InlFalseF fs sp dir fd x x2 fd2 → x1 = x2 ∧ fd1 = fd2
def DetB (fs : FS) (sp : List Path) (dir : Path) (fd : List Path) (x x1 : Block) (fd1 : List Path) : Prop :=
  ∀ x2 fd2, InlBlockF fs sp dir fd x x2 fd2 → x1 = x2 ∧ fd1 = fd2

/-- determinism of the threaded relation, block level (one minor premise per rule, in the order of the rules) -/
theorem InlBlockF.det {fs : FS} {sp : List Path} {dir : Path} {fd fd1 fd2 : List Path} {b b1 b2 : Block}
    (h : InlBlockF fs sp dir fd b b1 fd1) (k : InlBlockF fs sp dir fd b b2 fd2) : b1 = b2 ∧ fd1 = fd2 := by
  refine InlBlockF.rec (fs := fs) (sp := sp)
    (motive_1 := fun dir fd x x1 fd1 _ => DetE fs sp dir fd x x1 fd1)
    (motive_2 := fun dir fd x x1 fd1 _ => DetEs fs sp dir fd x x1 fd1)
    (motive_3 := fun dir fd x x1 fd1 _ => DetFd fs sp dir fd x x1 fd1)
    (motive_4 := fun dir fd x x1 fd1 _ => DetFds fs sp dir fd x x1 fd1)
    (motive_5 := fun dir fd x x1 fd1 _ => DetO fs sp dir fd x x1 fd1)
    (motive_6 := fun dir fd x x1 fd1 _ => DetOs fs sp dir fd x x1 fd1)
    (motive_7 := fun dir fd x x1 fd1 _ => DetS fs sp dir fd x x1 fd1)
    (motive_8 := fun dir fd x x1 fd1 _ => DetSs fs sp dir fd x x1 fd1)
    (motive_9 := fun dir fd x x1 fd1 _ => DetFl fs sp dir fd x x1 fd1)
    (motive_10 := fun dir fd x x1 fd1 _ => DetB fs sp dir fd x x1 fd1)
    (by intros; intro e2 fd2 k; cases k; exact ⟨rfl, rfl⟩)
    (by intros; intro e2 fd2 k; cases k; exact ⟨rfl, rfl⟩)
    (by intros; intro e2 fd2 k; cases k; exact ⟨rfl, rfl⟩)
    (by intros; intro e2 fd2 k; cases k; exact ⟨rfl, rfl⟩)
    (by intros; intro e2 fd2 k; cases k; exact ⟨rfl, rfl⟩)
    (by intros; intro e2 fd2 k; cases k; exact ⟨rfl, rfl⟩)
    (by intros; rename_i ih1 ih2; intro e2 fd2 k; cases k with | func k1 k2 => obtain ⟨rfl, rfl⟩ := ih1 _ _ k1; obtain ⟨rfl, rfl⟩ := ih2 _ _ k2; exact ⟨rfl, rfl⟩)
    (by intros; rename_i ih1; intro e2 fd2 k; cases k with | table k1 => obtain ⟨rfl, rfl⟩ := ih1 _ _ k1; exact ⟨rfl, rfl⟩)
    (by intros; rename_i ih1 ih2; intro e2 fd2 k; cases k with | binop k1 k2 => obtain ⟨rfl, rfl⟩ := ih1 _ _ k1; obtain ⟨rfl, rfl⟩ := ih2 _ _ k2; exact ⟨rfl, rfl⟩)
    (by intros; rename_i ih1; intro e2 fd2 k; cases k with | unop k1 => obtain ⟨rfl, rfl⟩ := ih1 _ _ k1; exact ⟨rfl, rfl⟩)
    (by intros; rename_i ih1 ih2; intro e2 fd2 k; cases k with | index k1 k2 => obtain ⟨rfl, rfl⟩ := ih1 _ _ k1; obtain ⟨rfl, rfl⟩ := ih2 _ _ k2; exact ⟨rfl, rfl⟩)
    (by intros; rename_i ih1 ih2; intro e2 fd2 k; cases k with | namedIndex k1 k2 => obtain ⟨rfl, rfl⟩ := ih1 _ _ k1; obtain ⟨rfl, rfl⟩ := ih2 _ _ k2; exact ⟨rfl, rfl⟩)
    (by intros; rename_i hn _ _ ih1 ih2; intro e2 fd2 k; cases k with
      | call hn' k1 k2 => obtain ⟨rfl, rfl⟩ := ih1 _ _ k1; obtain ⟨rfl, rfl⟩ := ih2 _ _ k2; exact ⟨rfl, rfl⟩
      | require hr _ _ _ _ => exact (not_reqLit_of_name hr hn).elim)
    (by intros; rename_i ih1 ih2 ih3; intro e2 fd2 k; cases k with | method k1 k2 k3 => obtain ⟨rfl, rfl⟩ := ih1 _ _ k1; obtain ⟨rfl, rfl⟩ := ih2 _ _ k2; obtain ⟨rfl, rfl⟩ := ih3 _ _ k3; exact ⟨rfl, rfl⟩)
    (by intros; rename_i hr hf hread hp hb ih1; intro e2 fd2 k; cases k with
      | call hn' _ _ => exact (not_reqLit_of_name hr hn').elim
      | require hr' hf' hread' hp' k1 =>
        obtain ⟨rfl, rfl, rfl, rfl⟩ := same_chunk hf hf' hread hread' hp hp'
        obtain ⟨rfl, rfl⟩ := ih1 _ _ k1; exact ⟨rfl, rfl⟩)
    (by intros; intro e2 fd2 k; cases k; exact ⟨rfl, rfl⟩)
    (by intros; rename_i ih1 ih2; intro e2 fd2 k; cases k with | cons k1 k2 => obtain ⟨rfl, rfl⟩ := ih1 _ _ k1; obtain ⟨rfl, rfl⟩ := ih2 _ _ k2; exact ⟨rfl, rfl⟩)
    (by intros; rename_i ih1 ih2; intro e2 fd2 k; cases k with | explicit k1 k2 => obtain ⟨rfl, rfl⟩ := ih1 _ _ k1; obtain ⟨rfl, rfl⟩ := ih2 _ _ k2; exact ⟨rfl, rfl⟩)
    (by intros; rename_i ih1 ih2; intro e2 fd2 k; cases k with | named k1 k2 => obtain ⟨rfl, rfl⟩ := ih1 _ _ k1; obtain ⟨rfl, rfl⟩ := ih2 _ _ k2; exact ⟨rfl, rfl⟩)
    (by intros; rename_i ih1; intro e2 fd2 k; cases k with | numbered k1 => obtain ⟨rfl, rfl⟩ := ih1 _ _ k1; exact ⟨rfl, rfl⟩)
    (by intros; intro e2 fd2 k; cases k; exact ⟨rfl, rfl⟩)
    (by intros; rename_i ih1 ih2; intro e2 fd2 k; cases k with | cons k1 k2 => obtain ⟨rfl, rfl⟩ := ih1 _ _ k1; obtain ⟨rfl, rfl⟩ := ih2 _ _ k2; exact ⟨rfl, rfl⟩)
    (by intros; intro e2 fd2 k; cases k; exact ⟨rfl, rfl⟩)
    (by intros; rename_i ih1; intro e2 fd2 k; cases k with | some k1 => obtain ⟨rfl, rfl⟩ := ih1 _ _ k1; exact ⟨rfl, rfl⟩)
    (by intros; intro e2 fd2 k; cases k; exact ⟨rfl, rfl⟩)
    (by intros; rename_i ih1; intro e2 fd2 k; cases k with | some k1 => obtain ⟨rfl, rfl⟩ := ih1 _ _ k1; exact ⟨rfl, rfl⟩)
    (by intros; rename_i ih1 ih2; intro e2 fd2 k; cases k with | assign k1 k2 => obtain ⟨rfl, rfl⟩ := ih1 _ _ k1; obtain ⟨rfl, rfl⟩ := ih2 _ _ k2; exact ⟨rfl, rfl⟩)
    (by intros; rename_i ih1; intro e2 fd2 k; cases k with | block k1 => obtain ⟨rfl, rfl⟩ := ih1 _ _ k1; exact ⟨rfl, rfl⟩)
    (by intros; intro e2 fd2 k; cases k; exact ⟨rfl, rfl⟩)
    (by intros; rename_i hn _ _ ih1 ih2; intro e2 fd2 k; cases k with
      | call hn' k1 k2 => obtain ⟨rfl, rfl⟩ := ih1 _ _ k1; obtain ⟨rfl, rfl⟩ := ih2 _ _ k2; exact ⟨rfl, rfl⟩
      | requireInline hr _ _ _ _ _ => exact (not_reqLit_of_name hr hn).elim
      | requireDedup hr _ _ => exact (not_reqLit_of_name hr hn).elim)
    (by intros; rename_i ih1 ih2 ih3 ih4; intro e2 fd2 k; cases k with | funcDef k1 k2 k3 k4 => obtain ⟨rfl, rfl⟩ := ih1 _ _ k1; obtain ⟨rfl, rfl⟩ := ih2 _ _ k2; obtain ⟨rfl, rfl⟩ := ih3 _ _ k3; obtain ⟨rfl, rfl⟩ := ih4 _ _ k4; exact ⟨rfl, rfl⟩)
    (by intros; rename_i ih1; intro e2 fd2 k; cases k with | goto k1 => obtain ⟨rfl, rfl⟩ := ih1 _ _ k1; exact ⟨rfl, rfl⟩)
    (by intros; rename_i ih1; intro e2 fd2 k; cases k with | label k1 => obtain ⟨rfl, rfl⟩ := ih1 _ _ k1; exact ⟨rfl, rfl⟩)
    (by intros; rename_i ih1 ih2 ih3; intro e2 fd2 k; cases k with | iff k1 k2 k3 => obtain ⟨rfl, rfl⟩ := ih1 _ _ k1; obtain ⟨rfl, rfl⟩ := ih2 _ _ k2; obtain ⟨rfl, rfl⟩ := ih3 _ _ k3; exact ⟨rfl, rfl⟩)
    (by intros; rename_i ih1 ih2 ih3; intro e2 fd2 k; cases k with | iterFor k1 k2 k3 => obtain ⟨rfl, rfl⟩ := ih1 _ _ k1; obtain ⟨rfl, rfl⟩ := ih2 _ _ k2; obtain ⟨rfl, rfl⟩ := ih3 _ _ k3; exact ⟨rfl, rfl⟩)
    (by intros; rename_i ih1; intro e2 fd2 k; cases k with | localAssign k1 => obtain ⟨rfl, rfl⟩ := ih1 _ _ k1; exact ⟨rfl, rfl⟩)
    (by intros; rename_i ih1 ih2 ih3; intro e2 fd2 k; cases k with | localFunc k1 k2 k3 => obtain ⟨rfl, rfl⟩ := ih1 _ _ k1; obtain ⟨rfl, rfl⟩ := ih2 _ _ k2; obtain ⟨rfl, rfl⟩ := ih3 _ _ k3; exact ⟨rfl, rfl⟩)
    (by intros; rename_i ih1 ih2 ih3; intro e2 fd2 k; cases k with | method k1 k2 k3 => obtain ⟨rfl, rfl⟩ := ih1 _ _ k1; obtain ⟨rfl, rfl⟩ := ih2 _ _ k2; obtain ⟨rfl, rfl⟩ := ih3 _ _ k3; exact ⟨rfl, rfl⟩)
    (by intros; rename_i ih1 ih2 ih3 ih4 ih5; intro e2 fd2 k; cases k with | numFor k1 k2 k3 k4 k5 => obtain ⟨rfl, rfl⟩ := ih1 _ _ k1; obtain ⟨rfl, rfl⟩ := ih2 _ _ k2; obtain ⟨rfl, rfl⟩ := ih3 _ _ k3; obtain ⟨rfl, rfl⟩ := ih4 _ _ k4; obtain ⟨rfl, rfl⟩ := ih5 _ _ k5; exact ⟨rfl, rfl⟩)
    (by intros; rename_i ih1 ih2; intro e2 fd2 k; cases k with | «repeat» k1 k2 => obtain ⟨rfl, rfl⟩ := ih1 _ _ k1; obtain ⟨rfl, rfl⟩ := ih2 _ _ k2; exact ⟨rfl, rfl⟩)
    (by intros; intro e2 fd2 k; cases k; exact ⟨rfl, rfl⟩)
    (by intros; rename_i ih1 ih2; intro e2 fd2 k; cases k with | whl k1 k2 => obtain ⟨rfl, rfl⟩ := ih1 _ _ k1; obtain ⟨rfl, rfl⟩ := ih2 _ _ k2; exact ⟨rfl, rfl⟩)
    (by intros; rename_i hr hf hnin hread hp hb ih1; intro e2 fd2 k; cases k with
      | call hn' _ _ => exact (not_reqLit_of_name hr hn').elim
      | requireInline hr' hf' hnin' hread' hp' k1 =>
        obtain ⟨rfl, rfl, rfl, rfl⟩ := same_chunk hf hf' hread hread' hp hp'
        obtain ⟨rfl, rfl⟩ := ih1 _ _ k1; exact ⟨rfl, rfl⟩
      | requireDedup hr' hf' hin' => rw [hf] at hf'; cases hf'; exact (hnin hin').elim)
    (by intros; rename_i hr hf hin; intro e2 fd2 k; cases k with
      | call hn' _ _ => exact (not_reqLit_of_name hr hn').elim
      | requireInline hr' hf' hnin' _ _ _ => rw [hf] at hf'; cases hf'; exact (hnin' hin).elim
      | requireDedup hr' hf' hin' => exact ⟨rfl, rfl⟩)
    (by intros; intro e2 fd2 k; cases k; exact ⟨rfl, rfl⟩)
    (by intros; rename_i ih1 ih2; intro e2 fd2 k; cases k with | cons k1 k2 => obtain ⟨rfl, rfl⟩ := ih1 _ _ k1; obtain ⟨rfl, rfl⟩ := ih2 _ _ k2; exact ⟨rfl, rfl⟩)
    (by intros; intro e2 fd2 k; cases k; exact ⟨rfl, rfl⟩)
    (by intros; rename_i ih1; intro e2 fd2 k; cases k with | block k1 => obtain ⟨rfl, rfl⟩ := ih1 _ _ k1; exact ⟨rfl, rfl⟩)
    (by intros; rename_i ih1 ih2 ih3; intro e2 fd2 k; cases k with | elif k1 k2 k3 => obtain ⟨rfl, rfl⟩ := ih1 _ _ k1; obtain ⟨rfl, rfl⟩ := ih2 _ _ k2; obtain ⟨rfl, rfl⟩ := ih3 _ _ k3; exact ⟨rfl, rfl⟩)
    (by intros; rename_i ih1 ih2; intro e2 fd2 k; cases k with | mk k1 k2 => obtain ⟨rfl, rfl⟩ := ih1 _ _ k1; obtain ⟨rfl, rfl⟩ := ih2 _ _ k2; exact ⟨rfl, rfl⟩)
    h b2 fd2 k

/-! ### the other relations, by wrapping the node into a block -/

theorem InlStmtsF.det {fs : FS} {sp : List Path} {dir : Path} {fd fd1 fd2 : List Path} {ss ss1 ss2 : List Stmt}
    (h : InlStmtsF fs sp dir fd ss ss1 fd1) (k : InlStmtsF fs sp dir fd ss ss2 fd2) : ss1 = ss2 ∧ fd1 = fd2 := by
  have := InlBlockF.det (InlBlockF.mk (t := default) (c := false) h .none) (InlBlockF.mk k .none)
  obtain ⟨h1, h2⟩ := this
  cases h1; exact ⟨rfl, h2⟩

theorem InlOptExprsF.det {fs : FS} {sp : List Path} {dir : Path} {fd fd1 fd2 : List Path} {o o1 o2 : Option (List Expr)}
    (h : InlOptExprsF fs sp dir fd o o1 fd1) (k : InlOptExprsF fs sp dir fd o o2 fd2) : o1 = o2 ∧ fd1 = fd2 := by
  have := InlBlockF.det (InlBlockF.mk (t := default) (c := false) .nil h) (InlBlockF.mk .nil k)
  obtain ⟨h1, h2⟩ := this
  cases h1; exact ⟨rfl, h2⟩

theorem InlStmtF.det {fs : FS} {sp : List Path} {dir : Path} {fd fd1 fd2 : List Path} {s s1 s2 : Stmt}
    (h : InlStmtF fs sp dir fd s s1 fd1) (k : InlStmtF fs sp dir fd s s2 fd2) : s1 = s2 ∧ fd1 = fd2 := by
  obtain ⟨h1, h2⟩ := InlStmtsF.det (.cons h .nil) (.cons k .nil)
  cases h1; exact ⟨rfl, h2⟩

theorem InlExprsF.det {fs : FS} {sp : List Path} {dir : Path} {fd fd1 fd2 : List Path} {es es1 es2 : List Expr}
    (h : InlExprsF fs sp dir fd es es1 fd1) (k : InlExprsF fs sp dir fd es es2 fd2) : es1 = es2 ∧ fd1 = fd2 := by
  obtain ⟨h1, h2⟩ := InlOptExprsF.det (.some h) (.some k)
  cases h1; exact ⟨rfl, h2⟩

theorem InlExprF.det {fs : FS} {sp : List Path} {dir : Path} {fd fd1 fd2 : List Path} {e e1 e2 : Expr}
    (h : InlExprF fs sp dir fd e e1 fd1) (k : InlExprF fs sp dir fd e e2 fd2) : e1 = e2 ∧ fd1 = fd2 := by
  obtain ⟨h1, h2⟩ := InlExprsF.det (.cons h .nil) (.cons k .nil)
  cases h1; exact ⟨rfl, h2⟩

theorem InlFieldsF.det {fs : FS} {sp : List Path} {dir : Path} {fd fd1 fd2 : List Path} {fds fds1 fds2 : List Field}
    (h : InlFieldsF fs sp dir fd fds fds1 fd1) (k : InlFieldsF fs sp dir fd fds fds2 fd2) : fds1 = fds2 ∧ fd1 = fd2 := by
  obtain ⟨h1, h2⟩ := InlExprF.det (.table (t := default) h) (.table k)
  cases h1; exact ⟨rfl, h2⟩

theorem InlFieldF.det {fs : FS} {sp : List Path} {dir : Path} {fd fd1 fd2 : List Path} {f f1 f2 : Field}
    (h : InlFieldF fs sp dir fd f f1 fd1) (k : InlFieldF fs sp dir fd f f2 fd2) : f1 = f2 ∧ fd1 = fd2 := by
  obtain ⟨h1, h2⟩ := InlFieldsF.det (.cons h .nil) (.cons k .nil)
  cases h1; exact ⟨rfl, h2⟩

theorem InlOptExprF.det {fs : FS} {sp : List Path} {dir : Path} {fd fd1 fd2 : List Path} {o o1 o2 : Option Expr}
    (h : InlOptExprF fs sp dir fd o o1 fd1) (k : InlOptExprF fs sp dir fd o o2 fd2) : o1 = o2 ∧ fd1 = fd2 := by
  obtain ⟨h1, h2⟩ := InlStmtF.det
    (.numFor (t := default) (.nil default) (.nil default) (.nil default) h (.mk (t := default) (c := false) .nil .none))
    (.numFor (.nil default) (.nil default) (.nil default) k (.mk .nil .none))
  cases h1; exact ⟨rfl, h2⟩

theorem InlFalseF.det {fs : FS} {sp : List Path} {dir : Path} {fd fd1 fd2 : List Path} {fl fl1 fl2 : IfFalse}
    (h : InlFalseF fs sp dir fd fl fl1 fd1) (k : InlFalseF fs sp dir fd fl fl2 fd2) : fl1 = fl2 ∧ fd1 = fd2 := by
  obtain ⟨h1, h2⟩ := InlStmtF.det
    (.iff (t := default) (.nil default) (.mk (t := default) (c := false) .nil .none) h)
    (.iff (.nil default) (.mk .nil .none) k)
  cases h1; exact ⟨rfl, h2⟩

end Tumfl.Theory
