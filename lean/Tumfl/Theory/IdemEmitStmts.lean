import Tumfl.Theory.IdemEmitLeaf
/-!
# C15: inversion of `toS`, statement lists up to `Semicolon` statements, the pieces of a block
-/
namespace Tumfl.Theory
namespace IdemE
open Tumfl Tumfl.Model

/-! ## inversion of `toS` -/

/-- the expressions of a `local` statement -/
def optEs : Option (List Expr) → List Spec.Exp
  | some es => toEs es
  | none => []

theorem toS_localAssign_none (t : Token) (names : List AttName) :
    toS (.localAssign t names none) = .locl (names.map refAtt) [] := by simp only [toS]

theorem toS_localAssign_some (t : Token) (names : List AttName) (es : List Expr) :
    toS (.localAssign t names (some es)) = .locl (names.map refAtt) (toEs es) := by simp only [toS]

theorem toS_inv_assign {y : Stmt} {a b} (h : toS y = .assign a b) :
    ∃ t ts es, y = .assign t ts es ∧ toEs ts = a ∧ toEs es = b := by
  cases y with
  | localAssign t names eo => cases eo <;> simp only [toS] at h <;> cases h
  | numFor t v a' b' so body' => cases so <;> simp only [toS] at h <;> cases h
  | _ => simp only [toS] at h <;> cases h <;> exact ⟨_, _, _, rfl, rfl, rfl⟩

theorem toS_inv_doo {y : Stmt} {b} (h : toS y = .doo b) : ∃ b', y = .block b' ∧ toB b' = b := by
  cases y with
  | localAssign t names eo => cases eo <;> simp only [toS] at h <;> cases h
  | numFor t v a' b' so body' => cases so <;> simp only [toS] at h <;> cases h
  | _ => simp only [toS] at h <;> cases h <;> exact ⟨_, rfl, rfl⟩

theorem toS_inv_brk {y : Stmt} (h : toS y = .brk) : ∃ t, y = .brk t := by
  cases y with
  | localAssign t names eo => cases eo <;> simp only [toS] at h <;> cases h
  | numFor t v a' b' so body' => cases so <;> simp only [toS] at h <;> cases h
  | _ => simp only [toS] at h <;> cases h <;> exact ⟨_, rfl⟩

theorem toS_inv_call {y : Stmt} {f a} (h : toS y = .call (.call f a)) :
    ∃ t f' args, y = .call t f' args ∧ toE f' = f ∧ toEs args = a := by
  cases y with
  | localAssign t names eo => cases eo <;> simp only [toS] at h <;> cases h
  | numFor t v a' b' so body' => cases so <;> simp only [toS] at h <;> cases h
  | _ => simp only [toS] at h <;> cases h <;> exact ⟨_, _, _, rfl, rfl, rfl⟩

theorem toS_inv_mcall {y : Stmt} {f s a} (h : toS y = .call (.mcall f s a)) :
    ∃ t f' m args, y = .method t f' m args ∧ toE f' = f ∧ nameS m = s ∧ toEs args = a := by
  cases y with
  | localAssign t names eo => cases eo <;> simp only [toS] at h <;> cases h
  | numFor t v a' b' so body' => cases so <;> simp only [toS] at h <;> cases h
  | _ => simp only [toS] at h <;> cases h <;> exact ⟨_, _, _, _, rfl, rfl, rfl, rfl⟩

theorem toS_inv_func {y : Stmt} {ns m ps va body} (h : toS y = .func ns m ps va body) :
    ∃ t names mo ps' b', y = .funcDef t names mo ps' b' ∧ names.map nameS = ns ∧ mo.map nameS = m ∧
      (refParams ps').1 = ps ∧ (refParams ps').2 = va ∧ toB b' = body := by
  cases y with
  | localAssign t names eo => cases eo <;> simp only [toS] at h <;> cases h
  | numFor t v a' b' so body' => cases so <;> simp only [toS] at h <;> cases h
  | funcDef t names mo ps' b' =>
    simp only [toS] at h
    cases h
    exact ⟨_, _, _, _, _, rfl, rfl, by cases mo <;> rfl, rfl, rfl, rfl⟩
  | _ => simp only [toS] at h <;> cases h

theorem toS_inv_goto {y : Stmt} {s} (h : toS y = .goto s) : ∃ t l, y = .goto t l ∧ nameS l = s := by
  cases y with
  | localAssign t names eo => cases eo <;> simp only [toS] at h <;> cases h
  | numFor t v a' b' so body' => cases so <;> simp only [toS] at h <;> cases h
  | _ => simp only [toS] at h <;> cases h <;> exact ⟨_, _, rfl, rfl⟩

theorem toS_inv_label {y : Stmt} {s} (h : toS y = .label s) : ∃ t l, y = .label t l ∧ nameS l = s := by
  cases y with
  | localAssign t names eo => cases eo <;> simp only [toS] at h <;> cases h
  | numFor t v a' b' so body' => cases so <;> simp only [toS] at h <;> cases h
  | _ => simp only [toS] at h <;> cases h <;> exact ⟨_, _, rfl, rfl⟩

theorem toS_inv_iff {y : Stmt} {c tb elifs els} (h : toS y = .iff c tb elifs els) :
    ∃ t test tr fl, y = .iff t test tr fl ∧ toE test = c ∧ toB tr = tb ∧ toElifs fl = elifs ∧ toElse fl = els := by
  cases y with
  | localAssign t names eo => cases eo <;> simp only [toS] at h <;> cases h
  | numFor t v a' b' so body' => cases so <;> simp only [toS] at h <;> cases h
  | _ => simp only [toS] at h <;> cases h <;> exact ⟨_, _, _, _, rfl, rfl, rfl, rfl, rfl⟩

theorem toS_inv_forin {y : Stmt} {ns es body} (h : toS y = .forin ns es body) :
    ∃ t names es' b', y = .iterFor t names es' b' ∧ names.map nameS = ns ∧ toEs es' = es ∧ toB b' = body := by
  cases y with
  | localAssign t names eo => cases eo <;> simp only [toS] at h <;> cases h
  | numFor t v a' b' so body' => cases so <;> simp only [toS] at h <;> cases h
  | _ => simp only [toS] at h <;> cases h <;> exact ⟨_, _, _, _, rfl, rfl, rfl, rfl⟩

theorem toS_inv_locl {y : Stmt} {ns es} (h : toS y = .locl ns es) :
    ∃ t names eo, y = .localAssign t names eo ∧ names.map refAtt = ns ∧ optEs eo = es := by
  cases y with
  | localAssign t names eo => cases eo <;> simp only [toS] at h <;> cases h <;> exact ⟨_, _, _, rfl, rfl, rfl⟩
  | numFor t v a' b' so body' => cases so <;> simp only [toS] at h <;> cases h
  | _ => simp only [toS] at h <;> cases h

theorem toS_inv_localfunc {y : Stmt} {s ps va body} (h : toS y = .localfunc s ps va body) :
    ∃ t n ps' b', y = .localFunc t n ps' b' ∧ nameS n = s ∧ (refParams ps').1 = ps ∧ (refParams ps').2 = va ∧
      toB b' = body := by
  cases y with
  | localAssign t names eo => cases eo <;> simp only [toS] at h <;> cases h
  | numFor t v a' b' so body' => cases so <;> simp only [toS] at h <;> cases h
  | _ => simp only [toS] at h <;> cases h <;> exact ⟨_, _, _, _, rfl, rfl, rfl, rfl, rfl⟩

theorem toS_inv_fornum {y : Stmt} {s a b st body} (h : toS y = .fornum s a b st body) :
    ∃ t v a' b' so body', y = .numFor t v a' b' so body' ∧ nameS v = s ∧ toE a' = a ∧ toE b' = b ∧
      so.map toE = st ∧ toB body' = body := by
  cases y with
  | localAssign t names eo => cases eo <;> simp only [toS] at h <;> cases h
  | numFor t v a' b' so body' =>
    cases so <;> simp only [toS] at h <;> cases h <;> exact ⟨_, _, _, _, _, _, rfl, rfl, rfl, rfl, rfl, rfl⟩
  | _ => simp only [toS] at h <;> cases h

theorem toS_inv_rep {y : Stmt} {b c} (h : toS y = .rep b c) :
    ∃ t c' b', y = .repeat t c' b' ∧ toB b' = b ∧ toE c' = c := by
  cases y with
  | localAssign t names eo => cases eo <;> simp only [toS] at h <;> cases h
  | numFor t v a' b' so body' => cases so <;> simp only [toS] at h <;> cases h
  | _ => simp only [toS] at h <;> cases h <;> exact ⟨_, _, _, rfl, rfl, rfl⟩

theorem toS_inv_whl {y : Stmt} {b c} (h : toS y = .whl c b) :
    ∃ t c' b', y = .whl t c' b' ∧ toE c' = c ∧ toB b' = b := by
  cases y with
  | localAssign t names eo => cases eo <;> simp only [toS] at h <;> cases h
  | numFor t v a' b' so body' => cases so <;> simp only [toS] at h <;> cases h
  | _ => simp only [toS] at h <;> cases h <;> exact ⟨_, _, _, rfl, rfl, rfl⟩

theorem toS_inv_empty {y : Stmt} (h : toS y = .empty) : ∃ t, y = .semi t := by
  cases y with
  | localAssign t names eo => cases eo <;> simp only [toS] at h <;> cases h
  | numFor t v a' b' so body' => cases so <;> simp only [toS] at h <;> cases h
  | _ => simp only [toS] at h <;> cases h <;> exact ⟨_, rfl⟩

/-! ## inversion of `toElifs` / `toElse` -/

theorem toFalse_inv_none {y : IfFalse} (h1 : toElifs y = []) (h2 : toElse y = none) : y = .none := by
  cases y with
  | none => rfl
  | block b => simp only [toElse] at h2; cases h2
  | elif t test tr fl => simp only [toElifs] at h1; cases h1

theorem toFalse_inv_block {y : IfFalse} {b} (h1 : toElifs y = []) (h2 : toElse y = some b) :
    ∃ b', y = .block b' ∧ toB b' = b := by
  cases y with
  | none => simp only [toElse] at h2; cases h2
  | block b' => simp only [toElse] at h2; cases h2; exact ⟨_, rfl, rfl⟩
  | elif t test tr fl => simp only [toElifs] at h1; cases h1

theorem toFalse_inv_elif {y : IfFalse} {c b r} (h1 : toElifs y = .mk c b :: r) :
    ∃ t test tr fl, y = .elif t test tr fl ∧ toE test = c ∧ toB tr = b ∧ toElifs fl = r ∧ toElse y = toElse fl := by
  cases y with
  | none => simp only [toElifs] at h1; cases h1
  | block b' => simp only [toElifs] at h1; cases h1
  | elif t test tr fl => simp only [toElifs] at h1; cases h1; exact ⟨_, _, _, _, rfl, rfl, rfl, rfl, by simp only [toElse]⟩

/-! ## `Semicolon` statements -/

theorem isSemi_inv {s : Stmt} (h : isSemi s = true) : ∃ t, s = .semi t := by
  cases s <;> simp only [isSemi, Bool.false_eq_true] at h
  exact ⟨_, rfl⟩

/-- the statement list from its first statement that is not a `Semicolon` -/
def skp : List Stmt → List Stmt
  | [] => []
  | s :: r => if isSemi s then skp r else s :: r

theorem skp_semi {s : Stmt} (h : isSemi s = true) (r : List Stmt) : skp (s :: r) = skp r := by
  simp only [skp, h, if_true]

theorem skp_real {s : Stmt} (h : isSemi s = false) (r : List Stmt) : skp (s :: r) = s :: r := by
  simp only [skp, h, Bool.false_eq_true, if_false]

theorem toSs_skp : ∀ ss : List Stmt, toSs (skp ss) = toSs ss
  | [] => rfl
  | s :: r => by
    cases h : isSemi s
    · rw [skp_real h]
    · rw [skp_semi h, toSs_skp r]; simp only [toSs, h, if_true]

theorem skp_head : ∀ ss : List Stmt, skp ss = [] ∨ ∃ s r, skp ss = s :: r ∧ isSemi s = false
  | [] => .inl rfl
  | s :: r => by
    cases h : isSemi s
    · rw [skp_real h]; exact .inr ⟨_, _, rfl, h⟩
    · rw [skp_semi h]; exact skp_head r

theorem toSs_inv_nil {ss : List Stmt} (h : toSs ss = []) : skp ss = [] := by
  rcases skp_head ss with e | ⟨s, r, e, hs⟩
  · exact e
  · rw [← toSs_skp, e] at h
    simp only [toSs, hs, Bool.false_eq_true, if_false] at h
    cases h

theorem toSs_inv_cons {ss : List Stmt} {a as} (h : toSs ss = a :: as) :
    ∃ s r, skp ss = s :: r ∧ isSemi s = false ∧ toS s = a ∧ toSs r = as := by
  rcases skp_head ss with e | ⟨s, r, e, hs⟩
  · rw [← toSs_skp, e] at h; simp only [toSs] at h; cases h
  · rw [← toSs_skp, e] at h
    simp only [toSs, hs, Bool.false_eq_true, if_false] at h
    cases h
    exact ⟨_, _, e, hs, rfl, rfl⟩

theorem gS_semi (sty : Style) {s : Stmt} (h : isSemi s = true) : gS sty s = [] := by
  obtain ⟨t, rfl⟩ := isSemi_inv h; simp only [gS]

theorem lS_semi {s : Stmt} (h : isSemi s = true) : lS s = [] := by
  obtain ⟨t, rfl⟩ := isSemi_inv h; simp only [lS]

theorem numsStmt_semi {s : Stmt} (h : isSemi s = true) : numsStmt s = [] := by
  obtain ⟨t, rfl⟩ := isSemi_inv h; simp only [numsStmt]

theorem gSs_skp (sty : Style) : ∀ ss : List Stmt, gSs sty (skp ss) = gSs sty ss
  | [] => rfl
  | s :: r => by
    cases h : isSemi s
    · rw [skp_real h]
    · rw [skp_semi h, gSs_skp sty r]; simp only [gSs, gS_semi sty h, List.nil_append]

theorem numsStmts_skp : ∀ ss : List Stmt, numsStmts (skp ss) = numsStmts ss
  | [] => rfl
  | s :: r => by
    cases h : isSemi s
    · rw [skp_real h]
    · rw [skp_semi h, numsStmts_skp r]; simp only [numsStmts, numsStmt_semi h, List.nil_append]

theorem pStmts_skp : ∀ {ss : List Stmt}, pStmts ss = true → pStmts (skp ss) = true
  | [], h => h
  | s :: r, h => by
    cases hs : isSemi s
    · rw [skp_real hs]; exact h
    · rw [skp_semi hs]
      simp only [pStmts, Bool.and_eq_true] at h
      exact pStmts_skp h.2

/-! ## the `;` guard -/

/-- is the first piece `(`? -/
def hdP (h : Option Piece) : Bool := h == some (.str ['('])

theorem guardable_eq (sty : Style) (s : Stmt) : guardable sty s = hdP (visitStmt sty s).head? := by
  unfold guardable hdP
  split
  · next r h => rw [h]; rfl
  · next h =>
    cases hv : visitStmt sty s with
    | nil => rfl
    | cons p r =>
      by_cases hp : p = .str ['(']
      · subst hp; exact absurd hv (h _)
      · simp [hp]

theorem stmtGuard_eq (f : Bool) (toks : Pieces) :
    stmtGuard f toks = if hdP toks.head? && !f then [P ";"] else [] := by
  unfold stmtGuard hdP
  split
  · cases f <;> simp
  · next h =>
    cases toks with
    | nil => rfl
    | cons p r =>
      by_cases hp : p = .str ['(']
      · subst hp; exact absurd rfl (h _)
      · simp [hp]

theorem guardable_congr (sty : Style) {sx sy : Stmt} (h : CE (visitStmt sty sx) (visitStmt sty sy)) :
    guardable sty sx = guardable sty sy := by
  rw [guardable_eq, guardable_eq, h.head]

/-- is the first statement that is not a `Semicolon` printed with `(` first? -/
def g1 (sty : Style) (ss : List Stmt) : Bool :=
  match skp ss with
  | s :: _ => guardable sty s
  | [] => false

/-- does the first statement that is not a `Semicolon` get the `;` guard? -/
def gd (sty : Style) (f : Bool) (ss : List Stmt) : Bool := g1 sty ss && !(f && !leadSemi ss)

theorem g1_of_skp (sty : Style) {ss : List Stmt} {s : Stmt} {r : List Stmt} (h : skp ss = s :: r) :
    g1 sty ss = guardable sty s := by
  unfold g1; rw [h]

theorem g1_of_skp_nil (sty : Style) {ss : List Stmt} (h : skp ss = []) : g1 sty ss = false := by
  unfold g1; rw [h]

theorem g1_semi (sty : Style) {s : Stmt} (h : isSemi s = true) (r : List Stmt) : g1 sty (s :: r) = g1 sty r := by
  unfold g1; rw [skp_semi h]

theorem g1_real (sty : Style) {s : Stmt} (h : isSemi s = false) (r : List Stmt) :
    g1 sty (s :: r) = guardable sty s := g1_of_skp sty (skp_real h r)

theorem gFirst_eq (sty : Style) : ∀ (f : Bool) (ss : List Stmt),
    gFirst sty f ss = if g1 sty ss then (if f && !leadSemi ss then .P else .S) else .O
  | f, [] => by simp only [gFirst, g1, skp, Bool.false_eq_true, if_false]
  | f, s :: r => by
    cases h : isSemi s
    · rw [g1_real sty h]
      simp only [gFirst, h, Bool.false_eq_true, if_false, leadSemi, Bool.not_false, Bool.and_true]
    · rw [g1_semi sty h, gFirst, if_pos h, gFirst_eq sty false r]
      simp only [leadSemi, h, Bool.not_true, Bool.and_false, Bool.false_and, Bool.false_eq_true, if_false]

/-- the flag of a block gives the guard decision of its first statement -/
theorem gd_of_KLrel (sty : Style) {ssx ssy : List Stmt} (hg : g1 sty ssx = g1 sty ssy)
    (hk : KLrel (gFirst sty true ssy) (leadSemi ssx)) : gd sty true ssx = gd sty true ssy := by
  unfold gd
  rw [hg]
  rw [gFirst_eq] at hk
  cases h1 : g1 sty ssy
  · rfl
  · rw [h1] at hk
    simp only [if_true, Bool.true_and] at hk
    cases hy : leadSemi ssy
    · rw [hy] at hk
      have := hk.2 (by simp)
      rw [this]
    · rw [hy] at hk
      have := hk.1 (by simp)
      rw [this]

theorem gd_false (sty : Style) (ss : List Stmt) : gd sty false ss = g1 sty ss := by
  simp only [gd, Bool.false_and, Bool.not_false, Bool.and_true]

/-! ## the pieces of a statement list -/

theorem visitStmts_semi (sty : Style) (hks : sty.keepSemicolon = false) (hic : sty.includeComments = false)
    (f : Bool) {s : Stmt} (h : isSemi s = true) (r : List Stmt) :
    visitStmts sty f (s :: r) = S .statement :: visitStmts sty false r := by
  obtain ⟨t, rfl⟩ := isSemi_inv h
  rw [visitStmts_cons]
  simp only [stmtCommentPieces, hic, visitStmt, hks, Bool.false_eq_true, if_false, stmtGuard, List.nil_append,
    List.cons_append]

theorem visitStmts_real (sty : Style) (hic : sty.includeComments = false) (f : Bool) (s : Stmt) (r : List Stmt) :
    visitStmts sty f (s :: r) =
      (if guardable sty s && !f then [P ";"] else []) ++ (visitStmt sty s ++ S .statement :: visitStmts sty false r) := by
  rw [visitStmts_cons, stmtGuard_eq, ← guardable_eq]
  simp only [stmtCommentPieces, hic, Bool.false_eq_true, if_false, List.nil_append, List.append_assoc, List.cons_append]

/-- leading `Semicolon` statements print nothing but superfluous separators -/
theorem ct_skp (sty : Style) (hks : sty.keepSemicolon = false) (hic : sty.includeComments = false) :
    ∀ (f : Bool) (ss : List Stmt),
      cn true (visitStmts sty f ss) = cn true (visitStmts sty (f && !leadSemi ss) (skp ss))
  | f, [] => by simp only [skp, visitStmts]
  | f, s :: r => by
    cases h : isSemi s
    · rw [skp_real h]; simp only [leadSemi, h, Bool.not_false, Bool.and_true]
    · rw [skp_semi h, visitStmts_semi sty hks hic f h, cn_true_statement, ct_skp sty hks hic false r]
      simp only [leadSemi, h, Bool.not_true, Bool.and_false, Bool.false_and]

theorem gd_skp (sty : Style) (f : Bool) {ss : List Stmt} {s : Stmt} {r : List Stmt} (h : skp ss = s :: r) :
    (guardable sty s && !(f && !leadSemi ss)) = gd sty f ss := by
  unfold gd; rw [g1_of_skp sty h]

/-- one real statement, then the rest -/
theorem ct_stmts_cons {G a b r r' : Pieces} (h : CE a b) (h' : CT r r') :
    CT (G ++ (a ++ S .statement :: r)) (G ++ (b ++ S .statement :: r')) :=
  (CE.pre G (h.append h'.statement)).ct

/-! ## the pieces of a block -/

/-- the pieces of a block between `do` .. `end` -/
def bodyOf (sty : Style) (b : Block) : Pieces := bodyPieces sty b.stmts b.rets

theorem full_bodyOf (sty : Style) (b : Block) :
    visitBlockFull sty b = P "do" :: S .block :: S .indent :: (bodyOf sty b ++ [S .deindent, P "end"]) := by
  obtain ⟨t, ss, r, c⟩ := b
  rw [visitBlockFull_eq]
  simp only [bodyOf, Block.stmts, Block.rets, List.cons_append, List.nil_append]

theorem ce_full (sty : Style) {x y : Block} (h : CT (bodyOf sty x) (bodyOf sty y)) :
    CE (visitBlockFull sty x) (visitBlockFull sty y) := by
  rw [full_bodyOf, full_bodyOf]
  exact CE.cons _ (CT.block (CT.indent (h.append (CE.rfl' _))))

theorem ce_drop1 (sty : Style) {x y : Block} (h : CT (bodyOf sty x) (bodyOf sty y)) :
    CE ((visitBlockFull sty x).drop 1) ((visitBlockFull sty y).drop 1) := by
  rw [full_bodyOf, full_bodyOf]
  exact CT.block (CT.indent (h.append (CE.rfl' _)))

theorem blk_of_not_chunk {b : Block} (h : b.isChunk = false) (full : Pieces) : blk b full = full := by
  simp only [blk, h, Bool.false_eq_true, if_false]

theorem ce_blk (sty : Style) {x y : Block} (hx : x.isChunk = false) (hy : y.isChunk = false)
    (h : CT (bodyOf sty x) (bodyOf sty y)) :
    CE (blk x (visitBlockFull sty x)) (blk y (visitBlockFull sty y)) := by
  rw [blk_of_not_chunk hx, blk_of_not_chunk hy]
  exact ce_full sty h

theorem slice21 (sty : Style) {b : Block} (h : b.isChunk = false) :
    sliceInner 2 1 (blk b (visitBlockFull sty b)) = S .indent :: (bodyOf sty b ++ [S .deindent]) := by
  rw [blk_of_not_chunk h, full_bodyOf]
  have := sliceInner_mid [P "do", S .block] (S .indent :: (bodyOf sty b ++ [S .deindent])) [P "end"] 2 1 rfl rfl
  simpa only [List.cons_append, List.nil_append, List.append_assoc] using this

/-- a block body behind a Block separator -/
theorem ce_slice (sty : Style) {x y : Block} (hx : x.isChunk = false) (hy : y.isChunk = false)
    (h : CT (bodyOf sty x) (bodyOf sty y)) {r r' : Pieces} (hr : CE r r') :
    CE (S .block :: (sliceInner 2 1 (blk x (visitBlockFull sty x)) ++ r))
      (S .block :: (sliceInner 2 1 (blk y (visitBlockFull sty y)) ++ r')) := by
  rw [slice21 sty hx, slice21 sty hy]
  refine CT.block ?_
  simp only [List.cons_append, List.append_assoc]
  exact CT.indent (h.append (CE.cons _ hr))

theorem ce_slice_nil (sty : Style) {x y : Block} (hx : x.isChunk = false) (hy : y.isChunk = false)
    (h : CT (bodyOf sty x) (bodyOf sty y)) :
    CE (S .block :: sliceInner 2 1 (blk x (visitBlockFull sty x)))
      (S .block :: sliceInner 2 1 (blk y (visitBlockFull sty y))) := by
  have := ce_slice sty hx hy h (CE.rfl' [])
  simpa only [List.append_nil] using this

theorem gd_real (sty : Style) (f : Bool) {s : Stmt} (h : isSemi s = false) (r : List Stmt) :
    gd sty f (s :: r) = (guardable sty s && !f) := by
  unfold gd; rw [g1_real sty h]
  simp only [leadSemi, h, Bool.not_false, Bool.and_true]

theorem gd_semi (sty : Style) (f : Bool) {s : Stmt} (h : isSemi s = true) (r : List Stmt) :
    gd sty f (s :: r) = gd sty false r := by
  unfold gd; rw [g1_semi sty h]
  simp only [leadSemi, h, Bool.not_true, Bool.and_false, Bool.false_and]

/-- the composition tactic for `CE` goals -/
macro "ce_auto" : tactic =>
  `(tactic| repeat' (first
    | assumption | exact CE.rfl' _ | apply CE.cons | apply CE.append | apply CE.fmtVar
    | apply CE.fmtFunctionArgs | apply CE.ite | apply CE.wrap | apply CE.fmtKey))

/-- normal form of piece lists -/
macro "ce_norm" : tactic =>
  `(tactic| simp only [List.append_assoc, List.cons_append, List.nil_append, List.append_nil])

/-! ## separated lists -/

theorem visitArgs_cons (sty : Style) (e : Expr) (r : List Expr) :
    visitArgs sty (e :: r) = visitExpr sty e ++ (if r.isEmpty then [] else S .argument :: visitArgs sty r) := by
  cases r <;> simp [visitArgs]

theorem visitTargets_cons (sty : Style) (e : Expr) (r : List Expr) :
    visitTargets sty (e :: r) =
      fmtVar e (visitExpr sty e) ++ (if r.isEmpty then [] else S .argument :: visitTargets sty r) := by
  cases r <;> simp [visitTargets]

theorem visitFields_cons (sty : Style) (f : Field) (r : List Field) :
    visitFields sty (f :: r) = visitField sty f ++ (if r.isEmpty then [] else S .argument :: visitFields sty r) := by
  cases r <;> simp [visitFields]

theorem Rel2.consK {ls gs ns ms} {Q : Prop} (k : Kd) (l : Bool) (h : Rel2 ls gs ns ms Q) :
    Rel2 (l :: ls) (k :: gs) ns ms (KLrel k l ∧ Q) :=
  ⟨by simp only [List.length_cons, h.1], h.2.1, fun hk hn => ⟨hk.1, h.2.2 hk.2 hn⟩⟩

end IdemE
end Tumfl.Theory
