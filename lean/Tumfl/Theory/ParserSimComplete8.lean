import Tumfl.Theory.ParserSimComplete7
/-!
# Completeness, step lemma for `statement`
-/
namespace Tumfl.Theory
open Tumfl.Model Tumfl.Spec

variable {B : Bridge} (hC : B.Complete)
include hC

set_option maxHeartbeats 1000000 in
theorem statement_complete_step {f' : Nat} (ih : AllComplete B f') (ts : List Tok) (s' : Stat) (ts' : List Tok)
    (h : Spec.statement (f' + 1) ts = .ok (s', ts')) (n : Nat) :
    TPF B (fun g => Model.parseStatement g) ts n n (fun r tsx => tsx = ts' ∧ StmtRel r s') := by
  refine TPF_succ ?_
  simp only [Model.parseStatement]
  rw [Spec.statement] at h
  inv h
  all_goals tp hC ih
  · exact ⟨rfl, .empty _⟩
  · exact parseIf_complete hC ih asm asm asm asm asm _
  · exact ⟨rfl, .whl _ asm (BlockRel.extendComment asm _)⟩
  · exact ⟨rfl, .doo asm⟩
  · exact ⟨rfl, .fornum1 _ asm asm asm asm (BlockRel.extendComment asm _)⟩
  · exact ⟨rfl, .fornum0 _ asm asm asm (BlockRel.extendComment asm _)⟩
  · rename_i t hk
    have hor : pk ts.tail.tail = .sym "," ∨ pk ts.tail.tail = .kw "in" := asm
    apply TPF_ite_neg (by simp [hk.beq_iff, *])
    apply TPF_ite_pos (by simpa [hk.beq_iff] using hor)
    tp hC ih
    rename_i names _ _ _ _ _ heq _ _ _ _ _ _ _ _ _ _ _ _
    subst heq
    exact ⟨rfl, .forin _ (.cons asm asm) asm (BlockRel.extendComment asm _)⟩
  · exact ⟨rfl, .rep _ asm asm⟩
  · exact ⟨rfl, .func _ (.cons asm asm) (show NameRel _ _ from asm) asm asm⟩
  · exact ⟨rfl, .func _ (.cons asm asm) trivial asm asm⟩
  · exact ⟨rfl, .localfunc _ asm asm asm⟩
  · rename_i t hk
    obtain ⟨nm, hnm⟩ := attnamelist_ok_start (asm : attnamelist f' ts.tail = _)
    have ht := type_of_name hk hnm
    simp only [ht]
    tp hC ih
    exact ⟨rfl, .locl1 _ asm asm asm⟩
  · rename_i t hk
    obtain ⟨nm, hnm⟩ := attnamelist_ok_start (asm : attnamelist f' ts.tail = _)
    have ht := type_of_name hk hnm
    simp only [ht]
    tp hC ih
    exact ⟨rfl, .locl0 _ asm⟩
  · exact ⟨rfl, .label _ asm⟩
  · exact ⟨rfl, .brk _⟩
  · exact ⟨rfl, .goto _ asm⟩
  · rename_i t hk
    have hsuf : suffixedexp f' ts = _ := asm
    have hprim := suffixedexp_ok_start hsuf
    unfold primaryTk at hprim
    split at hprim
    · next hp =>
      have ht := type_of_pk' hk hp
      simp only [ht]
      exact parseVarStmt_assign_complete hC ih hsuf asm asm asm asm asm _
    · next nm hp =>
      have ht := type_of_name hk hp
      simp only [ht]
      exact parseVarStmt_assign_complete hC ih hsuf asm asm asm asm asm _
    · cases hprim
  · rename_i t hk
    have hsuf : suffixedexp f' ts = _ := asm
    have hprim := suffixedexp_ok_start hsuf
    unfold primaryTk at hprim
    split at hprim
    · next hp =>
      have ht := type_of_pk' hk hp
      simp only [ht]
      exact parseVarStmt_call_complete ih hsuf asm asm _
    · next nm hp =>
      have ht := type_of_name hk hp
      simp only [ht]
      exact parseVarStmt_call_complete ih hsuf asm asm _
    · cases hprim

end Tumfl.Theory
