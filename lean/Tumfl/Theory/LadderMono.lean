import Tumfl.Model.Ladder
/-!
# One-step unfolding and fuel monotonicity of the ladder functions
-/
namespace Tumfl.Theory
open Tumfl.Spec Tumfl.Model

variable {σ ε Err T : Type}

/-- pointwise "defined at least as much" on parsers -/
def PLe {α : Type} (a b : σ → Except Err α) : Prop := ∀ s r, a s = .ok r → b s = .ok r

theorem PLe.refl {α : Type} (a : σ → Except Err α) : PLe a a := fun _ _ h => h

theorem PLe.trans {α : Type} {a b c : σ → Except Err α} (h1 : PLe a b) (h2 : PLe b c) : PLe a c :=
  fun s r h => h2 s r (h1 s r h)

/-! ## unfolding -/

theorem leftLoop_succ (S : ExprSig σ ε Err T) (ops : List BOp) (base : σ → PR σ ε Err) (f : Nat) (node : ε) (s : σ) :
    leftLoop S ops base (f + 1) node s =
      match S.binOf (S.peek s) with
      | some o =>
        if ops.contains o then
          match S.eat s with
          | .error e => .error e
          | .ok s1 =>
            match base s1 with
            | .error e => .error e
            | .ok (r, s2) => leftLoop S ops base f (S.mkBin (S.peek s) o node r) s2
        else .ok (node, s)
      | none => .ok (node, s) := by
  conv => lhs; rw [leftLoop]
  try rfl

theorem rightCollect_succ (S : ExprSig σ ε Err T) (ops : List BOp) (operand : σ → PR σ ε Err) (f : Nat) (s : σ) :
    rightCollect S ops operand (f + 1) s =
      match S.binOf (S.peek s) with
      | some o =>
        if ops.contains o then
          match S.eat s with
          | .error e => .error e
          | .ok s1 =>
            match operand s1 with
            | .error e => .error e
            | .ok (r, s2) =>
              match rightCollect S ops operand f s2 with
              | .error e => .error e
              | .ok (rest, s3) => .ok ((S.peek s, o, r) :: rest, s3)
        else .ok ([], s)
      | none => .ok ([], s) := by
  conv => lhs; rw [rightCollect]
  try rfl

theorem unLevel_succ (S : ExprSig σ ε Err T) (powOps : List BOp) (f : Nat) (s : σ) :
    unLevel S powOps (f + 1) s =
      match S.unOf (S.peek s) with
      | some u =>
        match S.eat s with
        | .error e => .error e
        | .ok s1 =>
          match unLevel S powOps f s1 with
          | .error e => .error e
          | .ok (e, s2) => .ok (S.mkUn (S.peek s) u e, s2)
      | none => powLevel S powOps f s := by
  conv => lhs; rw [unLevel]
  try rfl

theorem powLevel_succ (S : ExprSig σ ε Err T) (powOps : List BOp) (f : Nat) (s : σ) :
    powLevel S powOps (f + 1) s = rightAssoc S powOps S.simple (unLevel S powOps f) f s := by
  conv => lhs; rw [powLevel]

theorem binLevels_nil (S : ExprSig σ ε Err T) (powOps : List BOp) (f : Nat) (s : σ) :
    binLevels S powOps [] f s = unLevel S powOps f s := by
  rw [binLevels]

theorem binLevels_cons_succ (S : ExprSig σ ε Err T) (powOps : List BOp) (d : LevelDesc) (rest : List LevelDesc)
    (f : Nat) (s : σ) :
    binLevels S powOps (d :: rest) (f + 1) s =
      if d.right then rightAssoc S d.ops (binLevels S powOps rest f) (binLevels S powOps (d :: rest) f) f s
      else leftAssoc S d.ops (binLevels S powOps rest f) f s := by
  conv => lhs; rw [binLevels]

/-! ## inversion of the two helpers -/

theorem leftAssoc_ok {S : ExprSig σ ε Err T} {ops : List BOp} {base : σ → PR σ ε Err} {f : Nat} {s : σ} {r : ε × σ}
    (h : leftAssoc S ops base f s = .ok r) :
    ∃ n s1, base s = .ok (n, s1) ∧ leftLoop S ops base f n s1 = .ok r := by
  unfold leftAssoc at h
  split at h
  · cases h
  · rename_i n s1 hb
    exact ⟨n, s1, hb, h⟩

theorem leftAssoc_intro {S : ExprSig σ ε Err T} {ops : List BOp} {base : σ → PR σ ε Err} {f : Nat} {s : σ}
    {r : ε × σ} {n : ε} {s1 : σ} (hb : base s = .ok (n, s1)) (hl : leftLoop S ops base f n s1 = .ok r) :
    leftAssoc S ops base f s = .ok r := by
  unfold leftAssoc
  simp only [hb]
  exact hl

theorem rightAssoc_ok {S : ExprSig σ ε Err T} {ops : List BOp} {base operand : σ → PR σ ε Err} {f : Nat} {s : σ}
    {r : ε × σ} (h : rightAssoc S ops base operand f s = .ok r) :
    ∃ n s1 items, base s = .ok (n, s1) ∧ rightCollect S ops operand f s1 = .ok (items, r.2) ∧
      r.1 = foldRight S n items := by
  unfold rightAssoc at h
  split at h
  · cases h
  · rename_i n s1 hb
    split at h
    · cases h
    · rename_i items s2 hc
      cases h
      exact ⟨n, s1, items, hb, hc, rfl⟩

theorem rightAssoc_intro {S : ExprSig σ ε Err T} {ops : List BOp} {base operand : σ → PR σ ε Err} {f : Nat} {s : σ}
    {n : ε} {s1 s2 : σ} {items : List (T × BOp × ε)} (hb : base s = .ok (n, s1))
    (hc : rightCollect S ops operand f s1 = .ok (items, s2)) :
    rightAssoc S ops base operand f s = .ok (foldRight S n items, s2) := by
  unfold rightAssoc
  simp only [hb, hc]

/-! ## monotonicity -/

theorem leftLoop_mono {S : ExprSig σ ε Err T} {ops : List BOp} {b b' : σ → PR σ ε Err} (hb : PLe b b') :
    ∀ f f' n s r, f ≤ f' → leftLoop S ops b f n s = .ok r → leftLoop S ops b' f' n s = .ok r := by
  intro f
  induction f with
  | zero => intro f' n s r _ h; rw [leftLoop] at h; cases h
  | succ f ih =>
    intro f' n s r hle h
    obtain ⟨g, rfl⟩ : ∃ g, f' = g + 1 := ⟨f' - 1, by omega⟩
    rw [leftLoop_succ] at h
    rw [leftLoop_succ]
    split at h
    · rename_i o ho
      split at h
      · rename_i hc
        split at h
        · cases h
        · rename_i s1 he
          split at h
          · cases h
          · rename_i r1 s2 hb1
            simp only [hb _ _ hb1, if_pos hc]
            exact ih _ _ _ _ (by omega) h
      · rename_i hc
        rw [if_neg hc]; exact h
    · exact h

theorem rightCollect_mono {S : ExprSig σ ε Err T} {ops : List BOp} {b b' : σ → PR σ ε Err} (hb : PLe b b') :
    ∀ f f' s r, f ≤ f' → rightCollect S ops b f s = .ok r → rightCollect S ops b' f' s = .ok r := by
  intro f
  induction f with
  | zero => intro f' s r _ h; rw [rightCollect] at h; cases h
  | succ f ih =>
    intro f' s r hle h
    obtain ⟨g, rfl⟩ : ∃ g, f' = g + 1 := ⟨f' - 1, by omega⟩
    rw [rightCollect_succ] at h
    rw [rightCollect_succ]
    split at h
    · rename_i o ho
      split at h
      · rename_i hc
        split at h
        · cases h
        · rename_i s1 he
          split at h
          · cases h
          · rename_i r1 s2 hb1
            split at h
            · cases h
            · rename_i rest s3 hr
              have hr' := ih g _ _ (by omega) hr
              simp only [hb _ _ hb1, if_pos hc, hr']
              exact h
      · rename_i hc
        rw [if_neg hc]; exact h
    · exact h

theorem leftAssoc_mono {S : ExprSig σ ε Err T} {ops : List BOp} {b b' : σ → PR σ ε Err} (hb : PLe b b')
    {f f' : Nat} (hle : f ≤ f') : PLe (leftAssoc S ops b f) (leftAssoc S ops b' f') := by
  intro s r h
  obtain ⟨n, s1, h1, h2⟩ := leftAssoc_ok h
  exact leftAssoc_intro (hb _ _ h1) (leftLoop_mono hb _ _ _ _ _ hle h2)

theorem rightAssoc_mono {S : ExprSig σ ε Err T} {ops : List BOp} {b b' o o' : σ → PR σ ε Err} (hb : PLe b b')
    (ho : PLe o o') {f f' : Nat} (hle : f ≤ f') : PLe (rightAssoc S ops b o f) (rightAssoc S ops b' o' f') := by
  intro s r h
  obtain ⟨n, s1, items, h1, h2, h3⟩ := rightAssoc_ok h
  have := rightAssoc_intro (base := b') (hb _ _ h1) (rightCollect_mono ho _ _ _ _ hle h2)
  rw [this, ← h3]

theorem unpow_mono (S : ExprSig σ ε Err T) (powOps : List BOp) : ∀ f,
    PLe (unLevel S powOps f) (unLevel S powOps (f + 1)) ∧ PLe (powLevel S powOps f) (powLevel S powOps (f + 1)) := by
  intro f
  induction f with
  | zero =>
    constructor
    · intro s r h; rw [unLevel] at h; cases h
    · intro s r h; rw [powLevel] at h; cases h
  | succ f ih =>
    obtain ⟨ihu, ihp⟩ := ih
    constructor
    · intro s r h
      rw [unLevel_succ] at h
      rw [unLevel_succ]
      split at h
      · rename_i u hu
        split at h
        · cases h
        · rename_i s1 he
          split at h
          · cases h
          · rename_i e s2 hr
            simp only [ihu _ _ hr]
            exact h
      · exact ihp _ _ h
    · intro s r h
      rw [powLevel_succ] at h
      rw [powLevel_succ]
      exact rightAssoc_mono (PLe.refl _) ihu (Nat.le_succ f) _ _ h

theorem unLevel_mono_le (S : ExprSig σ ε Err T) (powOps : List BOp) {f g : Nat} (hfg : f ≤ g) :
    PLe (unLevel S powOps f) (unLevel S powOps g) := by
  induction hfg with
  | refl => exact PLe.refl _
  | step _ ih => exact ih.trans (unpow_mono S powOps _).1

theorem binLevels_mono (S : ExprSig σ ε Err T) (powOps : List BOp) : ∀ f levels,
    PLe (binLevels S powOps levels f) (binLevels S powOps levels (f + 1)) := by
  intro f
  induction f with
  | zero =>
    intro levels
    cases levels with
    | nil => intro s r h; rw [binLevels_nil] at h ⊢; exact (unpow_mono S powOps 0).1 _ _ h
    | cons d rest => intro s r h; rw [binLevels] at h; cases h
  | succ f ih =>
    intro levels
    cases levels with
    | nil => intro s r h; rw [binLevels_nil] at h ⊢; exact (unpow_mono S powOps _).1 _ _ h
    | cons d rest =>
      intro s r h
      rw [binLevels_cons_succ] at h ⊢
      cases hd : d.right
      · simp only [hd] at h ⊢
        exact leftAssoc_mono (ih rest) (Nat.le_succ f) _ _ h
      · simp only [hd] at h ⊢
        exact rightAssoc_mono (ih rest) (ih (d :: rest)) (Nat.le_succ f) _ _ h

theorem binLevels_mono_le (S : ExprSig σ ε Err T) (powOps : List BOp) (levels : List LevelDesc) {f g : Nat}
    (hfg : f ≤ g) : PLe (binLevels S powOps levels f) (binLevels S powOps levels g) := by
  induction hfg with
  | refl => exact PLe.refl _
  | step _ ih => exact ih.trans (binLevels_mono S powOps _ levels)

end Tumfl.Theory
