import Tumfl.Theory.SameProgramRel
/-!
# The tree relation determines the reference tree up to normalisation

`blockRel_normS : BlockRel b c → normS c = denote b`: the normal form of a reference tree related to the model tree `b`
is the reference tree `b` denotes.  Hence two reference trees related to the same model tree have the same normal form
(`blockRel_normS_eq`).
-/
namespace Tumfl.Theory
open Tumfl.Model

set_option linter.unusedVariables false

theorem nsE_lift {e : Expr} (core : ∀ c, NoParen c → ExpRel e c → nsExp c = toE e) : ∀ c, ExpRel e c → nsExp c = toE e :=
  ExpRel.paren_ind (P := fun c => nsExp c = toE e) core (fun c ih => by simp only [nsExp]; exact ih)

mutual
theorem nsE_core : (e : Expr) → (c : Spec.Exp) → NoParen c → ExpRel e c → nsExp c = toE e
  | .nil t, c, hn, h => by
    cases h with
    | nil _ => simp only [nsExp, toE]
    | paren _ => exact False.elim hn
  | .bool t v, c, hn, h => by
    cases h with
    | tru _ => simp only [nsExp, toE, if_true]
    | fls _ => simp only [nsExp, toE, Bool.false_eq_true, if_false]
    | paren _ => exact False.elim hn
  | .vararg t, c, hn, h => by
    cases h with
    | vararg _ => simp only [nsExp, toE]
    | paren _ => exact False.elim hn
  | .number t n, c, hn, h => by
    cases h with
    | num _ hr =>
      unfold NumRel at hr
      simp only [nsExp, toE, hr, Option.getD_some]
    | paren _ => exact False.elim hn
  | .string t v, c, hn, h => by
    cases h with
    | str _ _ => simp only [nsExp, toE]
    | paren _ => exact False.elim hn
  | .func t ps body, c, hn, h => by
    cases h with
    | func _ hp hb => simp only [nsExp, toE, nsB body _ hb, hp.eq.1, hp.eq.2]
    | paren _ => exact False.elim hn
  | .table t fs, c, hn, h => by
    cases h with
    | table _ hf => simp only [nsExp, toE, nsFs fs _ hf]
    | paren _ => exact False.elim hn
  | .binop t o l r, c, hn, h => by
    cases h with
    | bin _ _ hl hr => simp only [nsExp, toE, nsE_lift (nsE_core l) _ hl, nsE_lift (nsE_core r) _ hr]
    | paren _ => exact False.elim hn
  | .unop t o x, c, hn, h => by
    cases h with
    | un _ _ hx => simp only [nsExp, toE, nsE_lift (nsE_core x) _ hx]
    | paren _ => exact False.elim hn
  | .name t n, c, hn, h => by
    cases h with
    | name _ _ => simp only [nsExp, toE]
    | paren _ => exact False.elim hn
  | .index t l k, c, hn, h => by
    cases h with
    | index _ hl hk => simp only [nsExp, toE, nsE_lift (nsE_core l) _ hl, nsE_lift (nsE_core k) _ hk]
    | paren _ => exact False.elim hn
  | .namedIndex t l nm, c, hn, h => by
    cases h with
    | dot _ hl hm => simp only [nsExp, toE, nsE_lift (nsE_core l) _ hl, hm.eq]
    | paren _ => exact False.elim hn
  | .call t f args, c, hn, h => by
    cases h with
    | call _ hf ha => simp only [nsExp, toE, nsE_lift (nsE_core f) _ hf, nsEs args _ ha]
    | paren _ => exact False.elim hn
  | .method t f m args, c, hn, h => by
    cases h with
    | mcall _ hf hm ha => simp only [nsExp, toE, nsE_lift (nsE_core f) _ hf, nsEs args _ ha, hm.eq]
    | paren _ => exact False.elim hn

theorem nsEs : (es : List Expr) → (cs : List Spec.Exp) → Forall₂ ExpRel es cs → nsExps cs = toEs es
  | [], _, h => by cases h; simp only [nsExps, toEs]
  | e :: r, _, h => by
    cases h with
    | cons h1 h2 => simp only [nsExps, toEs, nsE_lift (nsE_core e) _ h1, nsEs r _ h2]

theorem nsFs : (fs : List Model.Field) → (cs : List Spec.Field) → Forall₂ FieldRel fs cs → nsFields cs = toFs fs
  | [], _, h => by cases h; simp only [nsFields, toFs]
  | f :: r, _, h => by
    cases h with
    | cons h1 h2 => simp only [nsFields, toFs, nsF f _ h1, nsFs r _ h2]

theorem nsF : (f : Model.Field) → (c : Spec.Field) → FieldRel f c → nsField c = toF f
  | .explicit t k v, _, h => by
    cases h with
    | keyed _ hk hv => simp only [nsField, toF, nsE_lift (nsE_core k) _ hk, nsE_lift (nsE_core v) _ hv]
  | .named t n v, _, h => by
    cases h with
    | named _ hn hv => simp only [nsField, toF, nsE_lift (nsE_core v) _ hv, hn.eq]
  | .numbered t v, _, h => by
    cases h with
    | pos _ hv => simp only [nsField, toF, nsE_lift (nsE_core v) _ hv]

theorem nsB : (b : Model.Block) → (c : Spec.Block) → BlockRel b c → nsBlock c = toB b
  | .mk t ss none ch, _, h => by
    cases h with
    | blk0 _ _ hs => simp only [nsBlock, toB, nsSs ss _ hs]
  | .mk t ss (some es) ch, _, h => by
    cases h with
    | blk1 _ _ hs he => simp only [nsBlock, toB, nsSs ss _ hs, nsEs es _ he]

theorem nsSs : (ss : List Stmt) → (cs : List Spec.Stat) → Forall₂ StmtRel ss cs → nsStats cs = toSs ss
  | [], _, h => by cases h; simp only [nsStats, toSs]
  | s :: r, _, h => by
    cases h with
    | cons h1 h2 =>
      simp only [nsStats, toSs, ← h1.semi_iff, nsSs r _ h2, nsS s _ h1]

theorem nsS : (s : Stmt) → (c : Spec.Stat) → StmtRel s c → nsStat c = toS s
  | .assign t ts es, _, h => by
    cases h with
    | assign _ h1 h2 => simp only [nsStat, toS, nsEs ts _ h1, nsEs es _ h2]
  | .block b, _, h => by
    cases h with
    | doo hb => simp only [nsStat, toS, nsB b _ hb]
  | .brk t, _, h => by
    cases h with
    | brk _ => simp only [nsStat, toS]
  | .call t f args, _, h => by
    cases h with
    | call _ hf ha => simp only [nsStat, toS, nsExp, nsE_lift (nsE_core f) _ hf, nsEs args _ ha]
  | .funcDef t names m ps body, _, h => by
    cases h with
    | func _ hns hm hp hb =>
      simp only [nsStat, toS, nsB body _ hb, hp.eq.1, hp.eq.2, names_eq hns, OptNameRel.eq hm]
      rfl
  | .goto t l, _, h => by
    cases h with
    | goto _ hl => simp only [nsStat, toS, hl.eq]
  | .label t l, _, h => by
    cases h with
    | label _ hl => simp only [nsStat, toS, hl.eq]
  | .iff t test tr fl, _, h => by
    cases h with
    | iff _ hc ht hf =>
      simp only [nsStat, toS, nsE_lift (nsE_core test) _ hc, nsB tr _ ht, (nsFl fl _ _ hf).1, (nsFl fl _ _ hf).2]
  | .iterFor t ns es body, _, h => by
    cases h with
    | forin _ hns hes hb => simp only [nsStat, toS, nsEs es _ hes, nsB body _ hb, names_eq hns]
  | .localAssign t names none, _, h => by
    cases h with
    | locl0 _ hns => simp only [nsStat, toS, nsExps, atts_eq hns]
  | .localAssign t names (some es), _, h => by
    cases h with
    | locl1 _ hns hes hne => simp only [nsStat, toS, nsEs es _ hes, atts_eq hns]
  | .localFunc t n ps body, _, h => by
    cases h with
    | localfunc _ hn hp hb => simp only [nsStat, toS, nsB body _ hb, hp.eq.1, hp.eq.2, hn.eq]
  | .method t f m args, _, h => by
    cases h with
    | mcall _ hf hm ha => simp only [nsStat, toS, nsExp, nsE_lift (nsE_core f) _ hf, nsEs args _ ha, hm.eq]
  | .numFor t v a b none body, _, h => by
    cases h with
    | fornum0 _ hv ha hb hbody =>
      simp only [nsStat, toS, nsE_lift (nsE_core a) _ ha, nsE_lift (nsE_core b) _ hb, nsB body _ hbody, hv.eq]
  | .numFor t v a b (some st) body, _, h => by
    cases h with
    | fornum1 _ hv ha hb hst hbody =>
      simp only [nsStat, toS, nsE_lift (nsE_core a) _ ha, nsE_lift (nsE_core b) _ hb, nsE_lift (nsE_core st) _ hst,
        nsB body _ hbody, hv.eq]
  | .repeat t c body, _, h => by
    cases h with
    | rep _ hc hb => simp only [nsStat, toS, nsE_lift (nsE_core c) _ hc, nsB body _ hb]
  | .semi t, _, h => by
    cases h with
    | empty _ => simp only [nsStat, toS]
  | .whl t c body, _, h => by
    cases h with
    | whl _ hc hb => simp only [nsStat, toS, nsE_lift (nsE_core c) _ hc, nsB body _ hb]

theorem nsFl : (fl : IfFalse) → (elifs : List Spec.ElseIf) → (els : Option Spec.Block) → IfFalseRel fl elifs els →
    nsElifs elifs = toElifs fl ∧ nsOptBlock els = toElse fl
  | .none, _, _, h => by
    cases h with
    | none => simp only [nsElifs, nsOptBlock, toElifs, toElse, and_self]
  | .block b, _, _, h => by
    cases h with
    | els hb => simp only [nsElifs, nsOptBlock, toElifs, toElse, nsB b _ hb, and_self]
  | .elif t test tr fl, _, _, h => by
    cases h with
    | elif _ hc ht hf =>
      simp only [nsElifs, toElifs, toElse, nsE_lift (nsE_core test) _ hc, nsB tr _ ht, (nsFl fl _ _ hf).1,
        (nsFl fl _ _ hf).2, and_self]
end

/-- the normal form of a reference tree related to `b` is the reference tree that `b` denotes -/
theorem blockRel_normS {b : Model.Block} {c : Spec.Block} (h : BlockRel b c) : normS c = denote b := nsB b c h

/-- **the model tree determines the reference tree up to parentheses, empty statements and numeral spelling** -/
theorem blockRel_normS_eq {b : Model.Block} {c c' : Spec.Block} (h : BlockRel b c) (h' : BlockRel b c') :
    normS c = normS c' := by
  rw [blockRel_normS h, blockRel_normS h']

end Tumfl.Theory
