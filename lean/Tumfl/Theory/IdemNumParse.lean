import Tumfl.Theory.IdemNumDefs
import Tumfl.Theory.FormatTextNums
import Tumfl.Theory.IdemNumParseCore
/-!
# The numerals of the tree the parser builds are the numerals of the `NUMBER` tokens it consumed, in order

`parseText_nums : parseText src = .ok (b, hs) → ∃ consumed c n l', Reads {} (initLex src) (consumed ++ [c, n]) l' ∧
  c.type = .EOF ∧ numsBlock b = numT consumed`.

One induction on the fuel over the 21 parse functions in the success-only calculus `SPN` of `IdemNumParseCore.lean`:
the contract of a parse function `X` is `acc' = acc ++ numsX r` for the accumulated numerals of the consumed tokens.
-/
namespace Tumfl.Theory.NumParse
open Tumfl Tumfl.Model Tumfl.Spec Tumfl.Theory

set_option linter.unusedVariables false
set_option linter.unusedSimpArgs false

variable {α : Type}

/-- the contract: a successful run appends exactly the numerals of its result -/
abbrev NSpec (s0 : PSt) (m : PM α) (N : α → List NumTuple) : Prop :=
  ∀ acc c, SPN s0 m acc c (fun r acc' _ => acc' = acc ++ N r)

/-! ## the numeral lists -/

@[simp] theorem numsBlock_extendComment (b : Model.Block) (c : List (List Char)) :
    numsBlock (b.extendComment c) = numsBlock b := by
  cases b with
  | mk t ss rs ch => cases rs <;> simp only [Block.extendComment, numsBlock]

theorem numsBlock_chunk (t : Token) (ss : List Stmt) (rs : Option (List Expr)) (c c' : Bool) :
    numsBlock (.mk t ss rs c) = numsBlock (.mk t ss rs c') := by
  cases rs <;> simp only [numsBlock]

theorem numsArgs_append (a b : List Expr) : numsArgs (a ++ b) = numsArgs a ++ numsArgs b := by
  induction a with
  | nil => simp [numsArgs]
  | cons x xs ih => simp [numsArgs, ih]

/-- the `elseif` branches collected by `parseElseIfs` -/
def numsElifs : List (Token × Expr × Model.Block) → List NumTuple
  | [] => []
  | x :: rest => numsExpr x.2.1 ++ numsBlock x.2.2 ++ numsElifs rest

@[simp] theorem numsFalse_foldr (c : List (List Char)) (tail : IfFalse) :
    ∀ (elifs : List (Token × Expr × Model.Block)),
      numsFalse (elifs.foldr (fun (x : Token × Expr × Model.Block) acc =>
          .elif x.1 x.2.1 (x.2.2.extendComment c) acc) tail) = numsElifs elifs ++ numsFalse tail
  | [] => by simp [numsElifs]
  | x :: rest => by
    simp only [List.foldr_cons, numsFalse, numsElifs, numsBlock_extendComment, numsFalse_foldr c tail rest,
      List.append_assoc]

/-! ## the contracts of all parse functions at fuel `f` -/

structure AllN (s0 : PSt) (f : Nat) : Prop where
  parseBlock : ∀ (tok : Token) (b : Bool), NSpec s0 (Model.parseBlock f tok b) numsBlock
  parseStatements : NSpec s0 (Model.parseStatements f) numsStmts
  parseStatement : NSpec s0 (Model.parseStatement f) numsStmt
  parseDotted : NSpec s0 (Model.parseDotted f) numsArgs
  parseAttNames : NSpec s0 (Model.parseAttNames f) (fun _ => [])
  parseIf : NSpec s0 (Model.parseIf f) numsStmt
  parseElseIfs : NSpec s0 (Model.parseElseIfs f) numsElifs
  parseFuncBody : ∀ (tok : Token), NSpec s0 (Model.parseFuncBody f tok) (fun r => numsArgs r.1 ++ numsBlock r.2)
  parseNameList : ∀ (first : Option Expr) (lv : Bool), (∀ n, first = some n → numsExpr n = []) →
    NSpec s0 (Model.parseNameList f first lv) numsArgs
  parseNames : ∀ (lv : Bool), NSpec s0 (Model.parseNames f lv) numsArgs
  parseExpList : NSpec s0 (Model.parseExpList f) numsArgs
  parseVarStmt : NSpec s0 (Model.parseVarStmt f) numsStmt
  parseMoreVars : NSpec s0 (Model.parseMoreVars f) numsArgs
  parseExp : NSpec s0 (Model.parseExp f) numsExpr
  parseAtom : NSpec s0 (Model.parseAtom f) numsExpr
  parseVar : ∀ (b : Bool), NSpec s0 (Model.parseVar f b) numsExpr
  /-- `_parse_var_terminal` extends the numerals of its base -/
  parseVarTerminal : ∀ (base : Expr) acc c, SPN s0 (Model.parseVarTerminal f base) acc c
    (fun r acc' _ => ∃ d, numsExpr r = numsExpr base ++ d ∧ acc' = acc ++ d)
  parseTable : NSpec s0 (Model.parseTable f) numsExpr
  parseFields : NSpec s0 (Model.parseFields f) numsFields
  parseField : NSpec s0 (Model.parseField f) numsField
  parseArgs : NSpec s0 (Model.parseArgs f) numsArgs

macro "guard_sn" : tactic => `(tactic| with_reducible show SPN _ _ _ _ _)

/-- a call of a function with an `NSpec` -/
syntax "sn_call " term : tactic
macro_rules
  | `(tactic| sn_call $t) => `(tactic| (refine SPN_call ($t _ _) ?_; intro _ _ _ hh; subst hh))

/-- the token about to be eaten is not a `NUMBER` (by the branch conditions in the context) -/
macro "sn_ty" : tactic => `(tactic| (with_unfolding_all intro hn; simp_all [Cond]; done))

/-- one syntax-directed step -/
syntax "sn_step " ident : tactic
macro_rules
  | `(tactic| sn_step $ih) => `(tactic| (guard_sn; with_reducible first
    | apply SPN_pure
    | apply SPN_perror
    | apply SPN_pyerr
    | apply SPN_curTok
    | (refine SPN_nxtTok fun _ => ?_)
    | apply SPN_curIs
    | (refine SPN_eatSome (fun _ _ => ?_))
    | (refine SPN_eatNone ?hne (fun _ => ?_); case hne => sn_ty)
    | (refine SPN_eatNum (fun _ => ?_))
    | (refine SPN_eatName fun _ _ _ => ?_)
    | (refine SPN_assertTok fun _ => ?_)
    | apply SPN_addHint
    | apply SPN_removeHint
    | apply SPN_switchHint
    | sn_call (($ih).parseBlock _ _)
    | sn_call ($ih).parseStatements
    | sn_call ($ih).parseStatement
    | sn_call ($ih).parseDotted
    | sn_call ($ih).parseAttNames
    | sn_call ($ih).parseIf
    | sn_call ($ih).parseElseIfs
    | sn_call (($ih).parseFuncBody _)
    | (refine SPN_call (($ih).parseNameList _ _ (by simp [*]) _ _) ?_; intro _ _ _ hh; subst hh)
    | sn_call (($ih).parseNames _)
    | sn_call ($ih).parseExpList
    | sn_call ($ih).parseVarStmt
    | sn_call ($ih).parseMoreVars
    | sn_call ($ih).parseExp
    | sn_call ($ih).parseAtom
    | sn_call (($ih).parseVar _)
    | (refine SPN_call (($ih).parseVarTerminal _ _ _) ?_; rintro _ _ _ ⟨_, _, hh⟩; subst hh)
    | sn_call ($ih).parseTable
    | sn_call ($ih).parseFields
    | sn_call ($ih).parseField
    | sn_call ($ih).parseArgs
    | apply SPN_bind
    | apply SPN_map
    | (apply SPN_ite <;> intro _)
    | split))
macro "sn " ih:ident : tactic => `(tactic| repeat' sn_step $ih)

/-- close the final goals `acc.. = acc ++ nums.. r` -/
macro "sn_fin" : tactic => `(tactic| first
  | (simp [numsBlock, numsStmts, numsStmt, numsExpr, numsArgs, numsFields, numsField, numsFalse, numsElifs,
      numsArgs_append, *]; done)
  | (simp_all [numsBlock, numsStmts, numsStmt, numsExpr, numsArgs, numsFields, numsField, numsFalse, numsElifs,
      numsArgs_append]; done))

variable {s0 : PSt}

theorem parseBlock_n_step {f : Nat} (ih : AllN s0 f) (tok : Token) (b : Bool) :
    NSpec s0 (Model.parseBlock (f + 1) tok b) numsBlock := by
  intro acc c
  rw [Model.parseBlock]
  sn ih
  all_goals sn_fin

theorem parseStatements_n_step {f : Nat} (ih : AllN s0 f) : NSpec s0 (Model.parseStatements (f + 1)) numsStmts := by
  intro acc c
  rw [Model.parseStatements]
  sn ih
  all_goals sn_fin

theorem parseStatement_n_step {f : Nat} (ih : AllN s0 f) : NSpec s0 (Model.parseStatement (f + 1)) numsStmt := by
  intro acc c
  rw [Model.parseStatement]
  sn ih
  all_goals sn_fin

theorem parseDotted_n_step {f : Nat} (ih : AllN s0 f) : NSpec s0 (Model.parseDotted (f + 1)) numsArgs := by
  intro acc c
  rw [Model.parseDotted]
  sn ih
  all_goals sn_fin

theorem parseAttNames_n_step {f : Nat} (ih : AllN s0 f) : NSpec s0 (Model.parseAttNames (f + 1)) (fun _ => []) := by
  intro acc c
  rw [Model.parseAttNames]
  sn ih
  all_goals sn_fin

theorem parseIf_n_step {f : Nat} (ih : AllN s0 f) : NSpec s0 (Model.parseIf (f + 1)) numsStmt := by
  intro acc c
  rw [Model.parseIf]
  sn ih
  all_goals sn_fin

theorem parseElseIfs_n_step {f : Nat} (ih : AllN s0 f) : NSpec s0 (Model.parseElseIfs (f + 1)) numsElifs := by
  intro acc c
  rw [Model.parseElseIfs]
  sn ih
  all_goals sn_fin

theorem parseFuncBody_n_step {f : Nat} (ih : AllN s0 f) (tok : Token) :
    NSpec s0 (Model.parseFuncBody (f + 1) tok) (fun r => numsArgs r.1 ++ numsBlock r.2) := by
  intro acc c
  rw [Model.parseFuncBody]
  sn ih
  all_goals sn_fin

theorem parseNames_n_step {f : Nat} (ih : AllN s0 f) (lv : Bool) :
    NSpec s0 (Model.parseNames (f + 1) lv) numsArgs := by
  intro acc c
  rw [Model.parseNames]
  sn ih
  all_goals sn_fin

theorem parseExpList_n_step {f : Nat} (ih : AllN s0 f) : NSpec s0 (Model.parseExpList (f + 1)) numsArgs := by
  intro acc c
  rw [Model.parseExpList]
  sn ih
  all_goals sn_fin

theorem parseVarStmt_n_step {f : Nat} (ih : AllN s0 f) : NSpec s0 (Model.parseVarStmt (f + 1)) numsStmt := by
  intro acc c
  rw [Model.parseVarStmt]
  sn ih
  all_goals sn_fin

theorem parseMoreVars_n_step {f : Nat} (ih : AllN s0 f) : NSpec s0 (Model.parseMoreVars (f + 1)) numsArgs := by
  intro acc c
  rw [Model.parseMoreVars]
  sn ih
  all_goals sn_fin

theorem parseVar_n_step {f : Nat} (ih : AllN s0 f) (b : Bool) : NSpec s0 (Model.parseVar (f + 1) b) numsExpr := by
  intro acc c
  rw [Model.parseVar]
  sn ih
  all_goals sn_fin

theorem parseTable_n_step {f : Nat} (ih : AllN s0 f) : NSpec s0 (Model.parseTable (f + 1)) numsExpr := by
  intro acc c
  rw [Model.parseTable]
  sn ih
  all_goals sn_fin

theorem parseFields_n_step {f : Nat} (ih : AllN s0 f) : NSpec s0 (Model.parseFields (f + 1)) numsFields := by
  intro acc c
  rw [Model.parseFields]
  sn ih
  all_goals sn_fin

theorem parseField_n_step {f : Nat} (ih : AllN s0 f) : NSpec s0 (Model.parseField (f + 1)) numsField := by
  intro acc c
  rw [Model.parseField]
  sn ih
  all_goals sn_fin

theorem parseArgs_n_step {f : Nat} (ih : AllN s0 f) : NSpec s0 (Model.parseArgs (f + 1)) numsArgs := by
  intro acc c
  rw [Model.parseArgs]
  sn ih
  all_goals sn_fin

theorem parseAtom_n_step {f : Nat} (ih : AllN s0 f) : NSpec s0 (Model.parseAtom (f + 1)) numsExpr := by
  intro acc c
  rw [Model.parseAtom]
  sn ih
  all_goals first
    | sn_fin
    | (simp only [numsExpr, tokNum_of_num ‹_› ‹_›, Option.toList]; done)

theorem parseNameList_n_step {f : Nat} (ih : AllN s0 f) (first : Option Expr) (lv : Bool)
    (hfirst : ∀ n, first = some n → numsExpr n = []) :
    NSpec s0 (Model.parseNameList (f + 1) first lv) numsArgs := by
  intro acc c
  cases first with
  | none =>
    rw [Model.parseNameList]
    sn ih
    all_goals sn_fin
  | some n =>
    have hn := hfirst n rfl
    rw [Model.parseNameList]
    sn ih
    all_goals sn_fin

theorem parseVarTerminal_n_step {f : Nat} (ih : AllN s0 f) (base : Expr) (acc : List NumTuple) (c : Token) :
    SPN s0 (Model.parseVarTerminal (f + 1) base) acc c
      (fun r acc' _ => ∃ d, numsExpr r = numsExpr base ++ d ∧ acc' = acc ++ d) := by
  rw [Model.parseVarTerminal]
  sn ih
  all_goals
    try simp only [List.append_assoc]
    first
      | (refine ⟨_, ?_, rfl⟩; sn_fin)
      | (refine ⟨[], ?_, by simp⟩; sn_fin)

/-! ### the expression ladder -/

theorem keepsT_of_NSpec {m : PM Expr} (h : NSpec s0 m numsExpr) : KeepsT (Tr s0) numsExpr m := by
  intro s acc r s' ht hm
  obtain ⟨acc', ht', rfl⟩ := h acc s.cur s ht rfl r s' hm
  exact ht'

theorem NSpec_of_keepsT {m : PM Expr} (h : KeepsT (Tr s0) numsExpr m) : NSpec s0 m numsExpr := by
  intro acc c s ht _ r s' hm
  exact ⟨_, h s acc r s' ht hm, rfl⟩

theorem parseExp_n_step {f : Nat} (ih : AllN s0 f) : NSpec s0 (Model.parseExp (f + 1)) numsExpr := by
  rw [Model.parseExp]
  apply NSpec_of_keepsT
  apply ladder_keepsT
  · intro s acc o s' ht ho he
    exact modelSig_eat_tr _ ht (binOfTok_ne_number ho) he
  · intro s acc u s' ht hu he
    exact modelSig_eat_tr _ ht (unOfTok_ne_number hu) he
  · intro t o l r; simp only [modelSig, numsExpr]
  · intro t u e; simp only [modelSig, numsExpr]
  · exact keepsT_of_NSpec ih.parseAtom

/-! ### the induction -/

theorem allN_zero : AllN s0 0 := by
  constructor
  · intros; rw [Model.parseBlock]; intro _ _; exact SPN_fuelErrP
  · intros; rw [Model.parseStatements]; intro _ _; exact SPN_fuelErrP
  · intros; rw [Model.parseStatement]; intro _ _; exact SPN_fuelErrP
  · intros; rw [Model.parseDotted]; intro _ _; exact SPN_fuelErrP
  · intros; rw [Model.parseAttNames]; intro _ _; exact SPN_fuelErrP
  · intros; rw [Model.parseIf]; intro _ _; exact SPN_fuelErrP
  · intros; rw [Model.parseElseIfs]; intro _ _; exact SPN_fuelErrP
  · intros; rw [Model.parseFuncBody]; intro _ _; exact SPN_fuelErrP
  · intros; rw [Model.parseNameList]; intro _ _; exact SPN_fuelErrP
  · intros; rw [Model.parseNames]; intro _ _; exact SPN_fuelErrP
  · intros; rw [Model.parseExpList]; intro _ _; exact SPN_fuelErrP
  · intros; rw [Model.parseVarStmt]; intro _ _; exact SPN_fuelErrP
  · intros; rw [Model.parseMoreVars]; intro _ _; exact SPN_fuelErrP
  · intros; rw [Model.parseExp]; intro _ _; exact SPN_fuelErrP
  · intros; rw [Model.parseAtom]; intro _ _; exact SPN_fuelErrP
  · intros; rw [Model.parseVar]; intro _ _; exact SPN_fuelErrP
  · intros; rw [Model.parseVarTerminal]; exact SPN_fuelErrP
  · intros; rw [Model.parseTable]; intro _ _; exact SPN_fuelErrP
  · intros; rw [Model.parseFields]; intro _ _; exact SPN_fuelErrP
  · intros; rw [Model.parseField]; intro _ _; exact SPN_fuelErrP
  · intros; rw [Model.parseArgs]; intro _ _; exact SPN_fuelErrP

theorem allN_succ {f : Nat} (ih : AllN s0 f) : AllN s0 (f + 1) where
  parseBlock := parseBlock_n_step ih
  parseStatements := parseStatements_n_step ih
  parseStatement := parseStatement_n_step ih
  parseDotted := parseDotted_n_step ih
  parseAttNames := parseAttNames_n_step ih
  parseIf := parseIf_n_step ih
  parseElseIfs := parseElseIfs_n_step ih
  parseFuncBody := parseFuncBody_n_step ih
  parseNameList := parseNameList_n_step ih
  parseNames := parseNames_n_step ih
  parseExpList := parseExpList_n_step ih
  parseVarStmt := parseVarStmt_n_step ih
  parseMoreVars := parseMoreVars_n_step ih
  parseExp := parseExp_n_step ih
  parseAtom := parseAtom_n_step ih
  parseVar := parseVar_n_step ih
  parseVarTerminal := parseVarTerminal_n_step ih
  parseTable := parseTable_n_step ih
  parseFields := parseFields_n_step ih
  parseField := parseField_n_step ih
  parseArgs := parseArgs_n_step ih

/-- every parse function, at every fuel, appends exactly the numerals of the tree it builds to the numerals of the
tokens consumed so far -/
theorem allN (s0 : PSt) (f : Nat) : AllN s0 f := by
  induction f with
  | zero => exact allN_zero
  | succ f ih => exact allN_succ ih

/-! ## The chunk and the whole text -/

theorem parseChunk_NSpec (s0 : PSt) (fuel : Nat) : NSpec s0 (parseChunk fuel) numsBlock := by
  have ih := allN s0 fuel
  intro acc c
  unfold parseChunk
  sn ih
  exact congrArg _ (numsBlock_chunk _ _ _ _ _)

/-- the computation run by `parseText` after `initParser` -/
theorem parseText_body (s0 : PSt) (n : Nat) (acc : List NumTuple) (c : Token) :
    SPN s0 (do let b ← parseChunk n; assertTok .EOF; pure b : PM Model.Block) acc c
      (fun r acc' c' => acc' = acc ++ numsBlock r ∧ c'.type = .EOF) := by
  refine SPN_bind (SPN_call (parseChunk_NSpec s0 n acc c) ?_)
  rintro b _ c1 rfl
  refine SPN_bind (SPN_assertTok fun hty => ?_)
  exact SPN_pure ⟨rfl, hty⟩

theorem initParser_reads {cfg : LexCfg} {text : List Char} {s0 : PSt} (h : initParser cfg text = .ok s0) :
    s0.cfg = cfg ∧ Reads cfg (initLex text) [s0.cur, s0.nxt] s0.lex := by
  unfold initParser at h
  split at h
  · cases h
  · next t1 l1 h1 =>
    split at h
    · cases h
    · next t2 l2 h2 =>
      cases h
      exact ⟨rfl, .cons h1 (.cons h2 (.nil _))⟩

end Tumfl.Theory.NumParse

namespace Tumfl.Theory
open Tumfl Tumfl.Model Tumfl.Theory.NumParse

/-- **the numerals of the tree the parser builds are exactly the numeral tuples of the `NUMBER` tokens it consumed, in
order**; the consumed tokens are an initial segment of the token stream of the lexer, followed by the `EOF` token on which
`assertTok .EOF` succeeded and one more buffered token -/
theorem parseText_nums (src : List Char) (b : Block) (hs : List Hint) (h : parseText src = .ok (b, hs)) :
    ∃ (consumed : List Token) (c n : Token) (l' : LexSt),
      Reads {} (initLex src) (consumed ++ [c, n]) l' ∧ c.type = .EOF ∧ numsBlock b = numT consumed := by
  unfold parseText at h
  split at h
  · cases h
  · next s0 h0 =>
    obtain ⟨hcfg, hr0⟩ := initParser_reads h0
    split at h
    · cases h
    · next b1 s1 h1 =>
      cases h
      obtain ⟨acc', ⟨cs, ⟨_, rd, hrd, heq⟩, hnum⟩, hacc, heof⟩ :=
        parseText_body s0 _ [] s0.cur s0 (Tr.refl s0) rfl _ _ h1
      rw [hcfg] at hrd
      refine ⟨cs, s1.cur, s1.nxt, s1.lex, ?_, heof, ?_⟩
      · have := reads_append hr0 hrd
        rw [← heq]
        exact this
      · rw [hnum, hacc, List.nil_append]

end Tumfl.Theory

