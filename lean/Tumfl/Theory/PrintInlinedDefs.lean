import Tumfl.Theory.PrintSimDefs
/-!
# The result of dependency resolution, seen by the printer: definitions

`Model/Resolve.lean` replaces a statement-level `require` by `Stmt.block chunk` (`chunk.isChunk = true`, the statements of the
required file) and an expression-level one by a call of a function expression whose body is such a chunk.  The printer prints a
nested chunk through `visit_Chunk`'s slice, i.e. without `do` ... `end`: its statements appear inline.

* `flattenChunks`: the tree the printed text *is*: every statement-level chunk without a return list is replaced by its own
  (flattened) statements; the comments of the chunk's token move to the first of them (`addComment`); an *empty* chunk
  (an empty or comment-only file) becomes a `Semicolon` statement carrying the chunk's token (it keeps the chunk's comments and
  its statement separator); function bodies lose their chunk flag (the function printers do not consult it).
* `okBlock keep cmts`: the two situations in which the printed pieces are NOT those of the flattened tree
  - `keep`: an empty spliced chunk prints nothing, a `Semicolon` statement prints `;` when the style keeps semicolons;
  - `cmts`: a spliced chunk that is not the first statement of its list and whose first statement starts with `(` and carries
    comments: the enclosing list's `;` guard looks at the chunk's first piece, which is then a comment - the guard is lost
    (a genuine defect of the printer, see `PrintInlined.lean`).
* `InlinedOKFor sty b` (exact, per style) and `InlinedOK b` (style independent).
-/
namespace Tumfl.Theory
open Tumfl.Model

/-! ## Moving comments -/

def tokAddComment (cm : List (List Char)) (t : Token) : Token := { t with comment := cm ++ t.comment }

/-- put the comments `cm` in front of the statement's own -/
def addComment (cm : List (List Char)) : Stmt → Stmt
  | .assign t ts es => .assign (tokAddComment cm t) ts es
  | .block (.mk t ss rs c) => .block (.mk (tokAddComment cm t) ss rs c)
  | .brk t => .brk (tokAddComment cm t)
  | .call t f args => .call (tokAddComment cm t) f args
  | .funcDef t names m ps body => .funcDef (tokAddComment cm t) names m ps body
  | .goto t l => .goto (tokAddComment cm t) l
  | .label t n => .label (tokAddComment cm t) n
  | .iff t test tr fl => .iff (tokAddComment cm t) test tr fl
  | .iterFor t ns es body => .iterFor (tokAddComment cm t) ns es body
  | .localAssign t names es => .localAssign (tokAddComment cm t) names es
  | .localFunc t n ps body => .localFunc (tokAddComment cm t) n ps body
  | .method t f m args => .method (tokAddComment cm t) f m args
  | .numFor t v a b step body => .numFor (tokAddComment cm t) v a b step body
  | .repeat t c body => .repeat (tokAddComment cm t) c body
  | .semi t => .semi (tokAddComment cm t)
  | .whl t c body => .whl (tokAddComment cm t) c body

def addCommentHead (cm : List (List Char)) : List Stmt → List Stmt
  | [] => []
  | x :: xs => addComment cm x :: xs

/-! ## Flattening -/

mutual
def fcExpr : Expr → Expr
  | .func t ps body => .func t ps (fcBody body)
  | .table t fs => .table t (fcFields fs)
  | .binop t o l r => .binop t o (fcExpr l) (fcExpr r)
  | .unop t o e => .unop t o (fcExpr e)
  | .index t l k => .index t (fcExpr l) (fcExpr k)
  | .namedIndex t l nm => .namedIndex t (fcExpr l) nm
  | .call t f args => .call t (fcExpr f) (fcArgs args)
  | .method t f m args => .method t (fcExpr f) m (fcArgs args)
  | .nil t => .nil t
  | .bool t v => .bool t v
  | .vararg t => .vararg t
  | .number t n => .number t n
  | .string t v => .string t v
  | .name t n => .name t n

def fcArgs : List Expr → List Expr
  | [] => []
  | e :: rest => fcExpr e :: fcArgs rest

def fcFields : List Field → List Field
  | [] => []
  | f :: rest => fcField f :: fcFields rest

def fcField : Field → Field
  | .explicit t k v => .explicit t (fcExpr k) (fcExpr v)
  | .named t n v => .named t n (fcExpr v)
  | .numbered t v => .numbered t (fcExpr v)

/-- a function body: the chunk flag (set by expression-level inlining) is dropped -/
def fcBody : Block → Block
  | .mk t stmts (some es) _ => .mk t (fcStmts stmts) (some (fcArgs es)) false
  | .mk t stmts none _ => .mk t (fcStmts stmts) none false

/-- any other block (the root, loop / `if` / `do` bodies): the flag is kept -/
def fcBlock : Block → Block
  | .mk t stmts (some es) c => .mk t (fcStmts stmts) (some (fcArgs es)) c
  | .mk t stmts none c => .mk t (fcStmts stmts) none c

def fcStmts : List Stmt → List Stmt
  | [] => []
  | s :: rest => fcS s ++ fcStmts rest

/-- the statements that replace one statement -/
def fcS : Stmt → List Stmt
  | .assign t ts es => [.assign t (fcArgs ts) (fcArgs es)]
  | .block b => fcSB b
  | .brk t => [.brk t]
  | .call t f args => [.call t (fcExpr f) (fcArgs args)]
  | .funcDef t names m ps body => [.funcDef t names m ps (fcBody body)]
  | .goto t l => [.goto t l]
  | .label t n => [.label t n]
  | .iff t test tr fl => [.iff t (fcExpr test) (fcBlock tr) (fcFalse fl)]
  | .iterFor t ns es body => [.iterFor t ns (fcArgs es) (fcBlock body)]
  | .localAssign t names (some es) => [.localAssign t names (some (fcArgs es))]
  | .localAssign t names none => [.localAssign t names none]
  | .localFunc t n ps body => [.localFunc t n ps (fcBody body)]
  | .method t f m args => [.method t (fcExpr f) m (fcArgs args)]
  | .numFor t v a b (some s) body => [.numFor t v (fcExpr a) (fcExpr b) (some (fcExpr s)) (fcBlock body)]
  | .numFor t v a b none body => [.numFor t v (fcExpr a) (fcExpr b) none (fcBlock body)]
  | .repeat t c body => [.repeat t (fcExpr c) (fcBlock body)]
  | .semi t => [.semi t]
  | .whl t c body => [.whl t (fcExpr c) (fcBlock body)]

/-- the statements that replace the statement `Stmt.block b`: a chunk without return list is spliced -/
def fcSB : Block → List Stmt
  | .mk t stmts none true => if stmts.isEmpty then [.semi t] else addCommentHead t.comment (fcStmts stmts)
  | .mk t stmts none false => [.block (.mk t (fcStmts stmts) none false)]
  | .mk t stmts (some es) c => [.block (.mk t (fcStmts stmts) (some (fcArgs es)) c)]

def fcFalse : IfFalse → IfFalse
  | .none => .none
  | .block b => .block (fcBlock b)
  | .elif t test tr fl => .elif t (fcExpr test) (fcBlock tr) (fcFalse fl)
end

/-- the tree whose printed form the printed form of `b` is -/
def flattenChunks (b : Block) : Block := fcBlock b

/-! ## Does a statement print a leading `(`? (style independent) -/

/-- `fmtVar e (visitExpr sty e)` starts with the piece `(` -/
def leadParenE : Expr → Bool
  | .name _ n => n == ['(']
  | .index _ l _ | .namedIndex _ l _ | .call _ l _ | .method _ l _ _ => leadParenE l
  | _ => true

/-- `visitStmt sty s` may start with the piece `(` (exact for the statements of a `Printable` tree) -/
def leadParenS : Stmt → Bool
  | .assign _ (e :: _) _ => leadParenE e
  | .call _ f _ | .method _ f _ _ => leadParenE f
  | .block b => b.isChunk
  | _ => false

/-- the first statement of a spliced list hides the enclosing list's `;` guard behind its comments -/
def hidesGuard (cmts : Bool) : List Stmt → Bool
  | x :: _ => cmts && !(stmtComments x).isEmpty && leadParenS x
  | [] => false

/-! ## Where the pieces of `b` are the pieces of `flattenChunks b`

`keep` / `cmts`: may the style keep semicolons / print comments? -/

mutual
def okExpr (keep cmts : Bool) : Expr → Bool
  | .func _ _ body => okBlock keep cmts body
  | .table _ fs => okFields keep cmts fs
  | .binop _ _ l r => okExpr keep cmts l && okExpr keep cmts r
  | .unop _ _ e => okExpr keep cmts e
  | .index _ l k => okExpr keep cmts l && okExpr keep cmts k
  | .namedIndex _ l _ => okExpr keep cmts l
  | .call _ f args => okExpr keep cmts f && okArgs keep cmts args
  | .method _ f _ args => okExpr keep cmts f && okArgs keep cmts args
  | _ => true

def okArgs (keep cmts : Bool) : List Expr → Bool
  | [] => true
  | e :: rest => okExpr keep cmts e && okArgs keep cmts rest

def okFields (keep cmts : Bool) : List Field → Bool
  | [] => true
  | f :: rest => okField keep cmts f && okFields keep cmts rest

def okField (keep cmts : Bool) : Field → Bool
  | .explicit _ k v => okExpr keep cmts k && okExpr keep cmts v
  | .named _ _ v => okExpr keep cmts v
  | .numbered _ v => okExpr keep cmts v

def okBlock (keep cmts : Bool) : Block → Bool
  | .mk _ stmts (some es) _ => okStmts keep cmts true stmts && okArgs keep cmts es
  | .mk _ stmts none _ => okStmts keep cmts true stmts

/-- `first`: is the head of the list the first statement of the list the printer walks? -/
def okStmts (keep cmts : Bool) : Bool → List Stmt → Bool
  | _, [] => true
  | first, s :: rest => piOkS keep cmts first s && okStmts keep cmts false rest

def piOkS (keep cmts : Bool) (first : Bool) : Stmt → Bool
  | .assign _ ts es => okArgs keep cmts ts && okArgs keep cmts es
  | .block b => okSB keep cmts first b
  | .call _ f args => okExpr keep cmts f && okArgs keep cmts args
  | .funcDef _ _ _ _ body => okBlock keep cmts body
  | .iff _ test tr fl => okExpr keep cmts test && okBlock keep cmts tr && okFalse keep cmts fl
  | .iterFor _ _ es body => okArgs keep cmts es && okBlock keep cmts body
  | .localAssign _ _ (some es) => okArgs keep cmts es
  | .localFunc _ _ _ body => okBlock keep cmts body
  | .method _ f _ args => okExpr keep cmts f && okArgs keep cmts args
  | .numFor _ _ a b (some s) body =>
    okExpr keep cmts a && okExpr keep cmts b && okExpr keep cmts s && okBlock keep cmts body
  | .numFor _ _ a b none body => okExpr keep cmts a && okExpr keep cmts b && okBlock keep cmts body
  | .repeat _ c body => okExpr keep cmts c && okBlock keep cmts body
  | .whl _ c body => okExpr keep cmts c && okBlock keep cmts body
  | _ => true

def okSB (keep cmts : Bool) (first : Bool) : Block → Bool
  | .mk _ stmts none true =>
    if stmts.isEmpty then !keep
    else okStmts keep cmts true stmts && (first || !hidesGuard cmts (fcStmts stmts))
  | .mk _ stmts none false => okStmts keep cmts true stmts
  | .mk _ stmts (some es) _ => okStmts keep cmts true stmts && okArgs keep cmts es

def okFalse (keep cmts : Bool) : IfFalse → Bool
  | .none => true
  | .block b => okBlock keep cmts b
  | .elif _ test tr fl => okExpr keep cmts test && okBlock keep cmts tr && okFalse keep cmts fl
end

/-- The trees the dependency resolver produces and style `sty` prints faithfully: after splicing the statement-level chunks
the tree is `Printable` (so: no spliced chunk has a return list - a chunk with a return list is not spliced and a nested chunk
is not `Printable` - and chunks occur in statement position and as function bodies only), no empty file is spliced when the
style keeps semicolons, and no `;` guard is hidden behind a comment when the style prints comments. -/
def InlinedOKFor (sty : Style) (b : Block) : Prop :=
  Printable (flattenChunks b) ∧ okBlock sty.keepSemicolon sty.includeComments b = true

/-- the style independent version: `InlinedOKFor` for every style -/
def InlinedOK (b : Block) : Prop :=
  Printable (flattenChunks b) ∧ okBlock true true b = true

instance (sty : Style) (b : Block) : Decidable (InlinedOKFor sty b) := by unfold InlinedOKFor; exact inferInstance
instance (b : Block) : Decidable (InlinedOK b) := by unfold InlinedOK; exact inferInstance

end Tumfl.Theory
