import Tumfl.Theory.ParserSimComplete3
/-!
# Completeness, step lemmas: suffix chains, variables, atoms
-/
namespace Tumfl.Theory
open Tumfl.Model Tumfl.Spec

variable {B : Bridge} (hC : B.Complete)
include hC

omit hC in
/-- the common tail of `_parse_var_terminal` / `_parse_var`: an optional further suffix -/
theorem vt_tail {f' : Nat} (ih : AllComplete B f') {v : Expr} {v0 r' : Exp} {ts2 ts' : List Tok} {n : Nat} {c : Token}
    (hk : TkRel c (pk ts2)) (h : Spec.suffixes f' v0 ts2 = .ok (r', ts')) (hv : ExpRel v v0) :
    TPF B (fun g => if suffixStarts.contains c.type then Model.parseVarTerminal g v else pure v) ts2 n n
      (fun r tsx => tsx = ts' ∧ ExpRel r r') := by
  obtain ⟨h1, h2⟩ := ih.suffixes _ _ _ _ h
  cases hs : suffixTk (pk ts2)
  · obtain ⟨rfl, rfl⟩ := h1 hs
    apply TPF_ite_neg (by rw [suffix_rel hk, hs]; simp)
    exact TPF_pure ⟨rfl, hv⟩
  · apply TPF_ite_pos (by rw [suffix_rel hk, hs])
    exact (h2 hs).2 _ _ hv

omit hC in
theorem vt_noParen {f' : Nat} (ih : AllComplete B f') {v0 r' : Exp} {ts2 ts' : List Tok}
    (h : Spec.suffixes f' v0 ts2 = .ok (r', ts')) (hnp : NoParen v0) : NoParen r' := by
  obtain ⟨h1, h2⟩ := ih.suffixes _ _ _ _ h
  cases hs : suffixTk (pk ts2)
  · obtain ⟨rfl, rfl⟩ := h1 hs; exact hnp
  · exact (h2 hs).1

theorem suffixes_complete_step {f' : Nat} (ih : AllComplete B f') (e0 : Exp) (ts : List Tok) (r' : Exp) (ts' : List Tok)
    (h : Spec.suffixes (f' + 1) e0 ts = .ok (r', ts')) :
    (suffixTk (pk ts) = false → r' = e0 ∧ ts' = ts) ∧
    (suffixTk (pk ts) = true → NoParen r' ∧ ∀ (e : Expr) n, ExpRel e e0 →
      TPF B (fun g => Model.parseVarTerminal g e) ts n n (fun r tsx => tsx = ts' ∧ ExpRel r r')) := by
  rw [Spec.suffixes] at h
  inv h
  case h_7 =>
    refine ⟨fun _ => ⟨rfl, rfl⟩, fun hs => ?_⟩
    exfalso
    unfold suffixTk at hs
    split at hs <;> simp_all
  all_goals
    refine ⟨fun hs => by simp [suffixTk, *] at hs, fun _ => ⟨vt_noParen ih asm (by trivial), fun e n he => ?_⟩⟩
    refine TPF_succ ?_
    simp only [Model.parseVarTerminal]
    tp hC ih
    tp_call (vt_tail ih (by assumption) (by assumption) (by first
      | exact .dot _ he asm | exact .index _ he asm | exact .mcall _ he asm asm | exact .call _ he asm))
    tp hC ih
    exact ⟨rfl, asm⟩

theorem suffixedexp_complete_step {f' : Nat} (ih : AllComplete B f') (ts : List Tok) (r' : Exp) (ts' : List Tok)
    (h : Spec.suffixedexp (f' + 1) ts = .ok (r', ts')) (b : Bool) (n : Nat) (hb : b = true → NoParen r') :
    TPF B (fun g => Model.parseVar g b) ts n n (fun e tsx => tsx = ts' ∧ ExpRel e r') := by
  refine TPF_succ ?_
  simp only [Model.parseVar]
  rw [Spec.suffixedexp] at h
  inv h
  all_goals tp hC ih
  · rename_i e hrel t hk
    obtain ⟨t', cs, rfl, rfl⟩ := hrel
    dsimp only
    tp_call (vt_tail ih hk (by assumption) (.name _ _))
    tp hC ih
    exact ⟨rfl, asm⟩
  · rename_i hsuf hrel t hk
    dsimp only
    tp_call (vt_tail ih hk hsuf (.paren hrel))
    tp hC ih
    rename_i t2 hk2
    have hcond : ¬ (b && true && !suffixStarts.contains t.type) = true := by
      cases b
      · simp
      · rw [suffix_rel hk]
        cases hs' : suffixTk (pk _) with
        | true => simp
        | false =>
          obtain ⟨rfl, _⟩ := (ih.suffixes _ _ _ _ hsuf).1 hs'
          exact (hb rfl).elim
    apply TPF_ite_neg hcond
    tp hC ih
    exact ⟨rfl, asm⟩

end Tumfl.Theory
