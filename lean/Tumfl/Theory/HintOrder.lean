import Tumfl.Theory.HintOrderCore
/-!
# The hint chain of a parser error is in source order and does not pass the offending token

By one induction on the fuel (the conjunction `AllOrd f` over all 21 parse functions), in the calculus of
`HintOrderCore.lean`: every parse function keeps the ordering invariant `Ordered` of the parser state, and
every parser error it raises carries a hint chain satisfying `HintsOK`.

Why this is a plain state invariant: `addHint` pushes the *current* token, which is not before any hint
already on the stack; `eatRaw` replaces the current token by a later one; `removeHint`/`switchHint` do not
touch tokens.  Every one of the 11 `perror` sites, and `assertTok`, passes the token it has just read with
`curTok` in the very state it raises in (no site passes a remembered earlier token), so `HintsOK` is read
off `Ordered` directly.  No site had to be excluded.

Main results: `getNextToken_mono` (in `HintOrderLex.lean`), `allOrd`, `parseText_error_hints`.
-/
namespace Tumfl.Theory
open Tumfl.Model Tumfl.Spec

set_option linter.unusedVariables false

/-- the contracts of all parse functions at fuel `f` -/
structure AllOrd (f : Nat) : Prop where
  parseBlock : ∀ (tok : Token) (b : Bool), OSpec (Model.parseBlock f tok b)
  parseStatements : OSpec (Model.parseStatements f)
  parseStatement : OSpec (Model.parseStatement f)
  parseDotted : OSpec (Model.parseDotted f)
  parseAttNames : OSpec (Model.parseAttNames f)
  parseIf : OSpec (Model.parseIf f)
  parseElseIfs : OSpec (Model.parseElseIfs f)
  parseFuncBody : ∀ (tok : Token), OSpec (Model.parseFuncBody f tok)
  parseNameList : ∀ (first : Option Expr) (lv : Bool), OSpec (Model.parseNameList f first lv)
  parseNames : ∀ (lv : Bool), OSpec (Model.parseNames f lv)
  parseExpList : OSpec (Model.parseExpList f)
  parseVarStmt : OSpec (Model.parseVarStmt f)
  parseMoreVars : OSpec (Model.parseMoreVars f)
  parseExp : OSpec (Model.parseExp f)
  parseAtom : OSpec (Model.parseAtom f)
  parseVar : ∀ (b : Bool), OSpec (Model.parseVar f b)
  parseVarTerminal : ∀ (base : Expr), OSpec (Model.parseVarTerminal f base)
  parseTable : OSpec (Model.parseTable f)
  parseFields : OSpec (Model.parseFields f)
  parseField : OSpec (Model.parseField f)
  parseArgs : OSpec (Model.parseArgs f)

macro "guard_ow" : tactic => `(tactic| with_reducible show OW _ _ _)

/-- a call of a function with an `OSpec` -/
syntax "ow_spec " term : tactic
macro_rules
  | `(tactic| ow_spec $t) => `(tactic| (apply OSpec.call $t; assumption; intro _ _ _))

/-- one syntax-directed step -/
syntax "ow_step " ident : tactic
macro_rules
  | `(tactic| ow_step $ih) => `(tactic| (guard_ow; with_reducible first
    | apply OW_pure
    | apply OW_curTok
    | apply OW_nxtTok
    | apply OW_curIs
    | (apply OW_perror_cur; assumption)
    | apply OW_pyerr
    | ow_spec (OSpec_eat _)
    | ow_spec OSpec_eatName
    | ow_spec (OSpec_assertTok _)
    | ow_spec (OSpec_addHint _ _)
    | ow_spec OSpec_removeHint
    | ow_spec (OSpec_switchHint _)
    | ow_spec (($ih).parseBlock _ _)
    | ow_spec ($ih).parseStatements
    | ow_spec ($ih).parseStatement
    | ow_spec ($ih).parseDotted
    | ow_spec ($ih).parseAttNames
    | ow_spec ($ih).parseIf
    | ow_spec ($ih).parseElseIfs
    | ow_spec (($ih).parseFuncBody _)
    | ow_spec (($ih).parseNameList _ _)
    | ow_spec (($ih).parseNames _)
    | ow_spec ($ih).parseExpList
    | ow_spec ($ih).parseVarStmt
    | ow_spec ($ih).parseMoreVars
    | ow_spec ($ih).parseExp
    | ow_spec ($ih).parseAtom
    | ow_spec (($ih).parseVar _)
    | ow_spec (($ih).parseVarTerminal _)
    | ow_spec ($ih).parseTable
    | ow_spec ($ih).parseFields
    | ow_spec ($ih).parseField
    | ow_spec ($ih).parseArgs
    | apply OW_bind
    | apply OW_map
    | (apply OW_ite <;> intro _)
    | split))
macro "ow " ih:ident : tactic => `(tactic| repeat' ow_step $ih)

theorem parseBlock_ord_step {f : Nat} (ih : AllOrd f) (tok : Token) (b : Bool) : OSpec (Model.parseBlock (f + 1) tok b) := by
  intro s hs
  rw [Model.parseBlock]
  ow ih
  all_goals assumption

theorem parseStatements_ord_step {f : Nat} (ih : AllOrd f) : OSpec (Model.parseStatements (f + 1)) := by
  intro s hs
  rw [Model.parseStatements]
  ow ih
  all_goals assumption

theorem parseStatement_ord_step {f : Nat} (ih : AllOrd f) : OSpec (Model.parseStatement (f + 1)) := by
  intro s hs
  rw [Model.parseStatement]
  ow ih
  all_goals assumption

theorem parseDotted_ord_step {f : Nat} (ih : AllOrd f) : OSpec (Model.parseDotted (f + 1)) := by
  intro s hs
  rw [Model.parseDotted]
  ow ih
  all_goals assumption

theorem parseAttNames_ord_step {f : Nat} (ih : AllOrd f) : OSpec (Model.parseAttNames (f + 1)) := by
  intro s hs
  rw [Model.parseAttNames]
  ow ih
  all_goals assumption

theorem parseIf_ord_step {f : Nat} (ih : AllOrd f) : OSpec (Model.parseIf (f + 1)) := by
  intro s hs
  rw [Model.parseIf]
  ow ih
  all_goals assumption

theorem parseElseIfs_ord_step {f : Nat} (ih : AllOrd f) : OSpec (Model.parseElseIfs (f + 1)) := by
  intro s hs
  rw [Model.parseElseIfs]
  ow ih
  all_goals assumption

theorem parseFuncBody_ord_step {f : Nat} (ih : AllOrd f) (tok : Token) : OSpec (Model.parseFuncBody (f + 1) tok) := by
  intro s hs
  rw [Model.parseFuncBody]
  ow ih
  all_goals assumption

theorem parseNameList_ord_step {f : Nat} (ih : AllOrd f) (first : Option Expr) (lv : Bool) : OSpec (Model.parseNameList (f + 1) first lv) := by
  intro s hs
  cases first with
  | none =>
    rw [Model.parseNameList]
    ow ih
    all_goals assumption
  | some n =>
    rw [Model.parseNameList]
    ow ih
    all_goals assumption

theorem parseNames_ord_step {f : Nat} (ih : AllOrd f) (lv : Bool) : OSpec (Model.parseNames (f + 1) lv) := by
  intro s hs
  rw [Model.parseNames]
  ow ih
  all_goals assumption

theorem parseExpList_ord_step {f : Nat} (ih : AllOrd f) : OSpec (Model.parseExpList (f + 1)) := by
  intro s hs
  rw [Model.parseExpList]
  ow ih
  all_goals assumption

theorem parseVarStmt_ord_step {f : Nat} (ih : AllOrd f) : OSpec (Model.parseVarStmt (f + 1)) := by
  intro s hs
  rw [Model.parseVarStmt]
  ow ih
  all_goals assumption

theorem parseMoreVars_ord_step {f : Nat} (ih : AllOrd f) : OSpec (Model.parseMoreVars (f + 1)) := by
  intro s hs
  rw [Model.parseMoreVars]
  ow ih
  all_goals assumption

theorem parseAtom_ord_step {f : Nat} (ih : AllOrd f) : OSpec (Model.parseAtom (f + 1)) := by
  intro s hs
  rw [Model.parseAtom]
  ow ih
  all_goals assumption

theorem parseVar_ord_step {f : Nat} (ih : AllOrd f) (b : Bool) : OSpec (Model.parseVar (f + 1) b) := by
  intro s hs
  rw [Model.parseVar]
  ow ih
  all_goals assumption

theorem parseVarTerminal_ord_step {f : Nat} (ih : AllOrd f) (base : Expr) : OSpec (Model.parseVarTerminal (f + 1) base) := by
  intro s hs
  rw [Model.parseVarTerminal]
  ow ih
  all_goals assumption

theorem parseTable_ord_step {f : Nat} (ih : AllOrd f) : OSpec (Model.parseTable (f + 1)) := by
  intro s hs
  rw [Model.parseTable]
  ow ih
  all_goals assumption

theorem parseFields_ord_step {f : Nat} (ih : AllOrd f) : OSpec (Model.parseFields (f + 1)) := by
  intro s hs
  rw [Model.parseFields]
  ow ih
  all_goals assumption

theorem parseField_ord_step {f : Nat} (ih : AllOrd f) : OSpec (Model.parseField (f + 1)) := by
  intro s hs
  rw [Model.parseField]
  ow ih
  all_goals assumption

theorem parseArgs_ord_step {f : Nat} (ih : AllOrd f) : OSpec (Model.parseArgs (f + 1)) := by
  intro s hs
  rw [Model.parseArgs]
  ow ih
  all_goals assumption

/-! ### the expression ladder -/

theorem keepsEat_modelSig_ord (atom : PM Expr) : KeepsEat Ordered HErrOK (modelSig atom).eat := by
  intro s hs
  have h := (OSpec_eatRaw s hs).run
  simp only [modelSig]
  cases he : eatRaw s with
  | error e => rw [he] at h; exact h
  | ok r => obtain ⟨a, s1⟩ := r; rw [he] at h; exact h

theorem keepsW_of_OSpec {α : Type} {m : PM α} (h : OSpec m) : KeepsW Ordered (fun _ => True) HErrOK m := by
  intro s hs
  have h1 := (h s hs).run
  unfold ResW
  cases hm : m s with
  | error e => rw [hm] at h1; exact h1
  | ok r => obtain ⟨a, s1⟩ := r; rw [hm] at h1; exact ⟨h1, trivial⟩

theorem OSpec_of_keepsW {α : Type} {m : PM α} (h : KeepsW Ordered (fun _ => True) HErrOK m) : OSpec m := by
  intro s hs
  have h1 := h s hs
  unfold ResW at h1
  constructor
  cases hm : m s with
  | error e => rw [hm] at h1; exact h1
  | ok r => obtain ⟨a, s1⟩ := r; rw [hm] at h1; exact h1.1

theorem parseExp_ord_step {f : Nat} (ih : AllOrd f) : OSpec (Model.parseExp (f + 1)) := by
  rw [Model.parseExp]
  apply OSpec_of_keepsW
  apply ladderExp_keepsW
  · exact trivial
  · exact keepsEat_modelSig_ord _
  · intros; trivial
  · intros; trivial
  · exact keepsW_of_OSpec ih.parseAtom

/-! ### the induction -/

theorem allOrd_zero : AllOrd 0 := by
  constructor
  · intros; rw [Model.parseBlock]; exact OSpec_fuelErrP
  · intros; rw [Model.parseStatements]; exact OSpec_fuelErrP
  · intros; rw [Model.parseStatement]; exact OSpec_fuelErrP
  · intros; rw [Model.parseDotted]; exact OSpec_fuelErrP
  · intros; rw [Model.parseAttNames]; exact OSpec_fuelErrP
  · intros; rw [Model.parseIf]; exact OSpec_fuelErrP
  · intros; rw [Model.parseElseIfs]; exact OSpec_fuelErrP
  · intros; rw [Model.parseFuncBody]; exact OSpec_fuelErrP
  · intros; rw [Model.parseNameList]; exact OSpec_fuelErrP
  · intros; rw [Model.parseNames]; exact OSpec_fuelErrP
  · intros; rw [Model.parseExpList]; exact OSpec_fuelErrP
  · intros; rw [Model.parseVarStmt]; exact OSpec_fuelErrP
  · intros; rw [Model.parseMoreVars]; exact OSpec_fuelErrP
  · intros; rw [Model.parseExp]; exact OSpec_fuelErrP
  · intros; rw [Model.parseAtom]; exact OSpec_fuelErrP
  · intros; rw [Model.parseVar]; exact OSpec_fuelErrP
  · intros; rw [Model.parseVarTerminal]; exact OSpec_fuelErrP
  · intros; rw [Model.parseTable]; exact OSpec_fuelErrP
  · intros; rw [Model.parseFields]; exact OSpec_fuelErrP
  · intros; rw [Model.parseField]; exact OSpec_fuelErrP
  · intros; rw [Model.parseArgs]; exact OSpec_fuelErrP

theorem allOrd_succ {f : Nat} (ih : AllOrd f) : AllOrd (f + 1) where
  parseBlock := parseBlock_ord_step ih
  parseStatements := parseStatements_ord_step ih
  parseStatement := parseStatement_ord_step ih
  parseDotted := parseDotted_ord_step ih
  parseAttNames := parseAttNames_ord_step ih
  parseIf := parseIf_ord_step ih
  parseElseIfs := parseElseIfs_ord_step ih
  parseFuncBody := parseFuncBody_ord_step ih
  parseNameList := parseNameList_ord_step ih
  parseNames := parseNames_ord_step ih
  parseExpList := parseExpList_ord_step ih
  parseVarStmt := parseVarStmt_ord_step ih
  parseMoreVars := parseMoreVars_ord_step ih
  parseExp := parseExp_ord_step ih
  parseAtom := parseAtom_ord_step ih
  parseVar := parseVar_ord_step ih
  parseVarTerminal := parseVarTerminal_ord_step ih
  parseTable := parseTable_ord_step ih
  parseFields := parseFields_ord_step ih
  parseField := parseField_ord_step ih
  parseArgs := parseArgs_ord_step ih

/-- every parse function, at every fuel, keeps the ordering invariant and raises only parser errors whose hint
chain is sorted and does not pass the offending token -/
theorem allOrd (f : Nat) : AllOrd f := by
  induction f with
  | zero => exact allOrd_zero
  | succ f ih => exact allOrd_succ ih


/-! ## The chunk and the whole text -/

theorem parseChunk_OSpec (fuel : Nat) : OSpec (parseChunk fuel) := by
  have ih := allOrd fuel
  intro s hs
  unfold parseChunk
  ow ih
  all_goals assumption

/-- the computation run by `parseText` after `initParser` -/
theorem parseText_body_OSpec (n : Nat) :
    OSpec (do let b ← parseChunk n; assertTok .EOF; pure b : PM Block) := by
  intro s hs
  refine OW_bind (OSpec.call (parseChunk_OSpec n) hs ?_)
  intro b s1 hs1
  refine OW_bind (OSpec.call (OSpec_assertTok _) hs1 ?_)
  intro _ s2 hs2
  exact OW_pure hs2

/-- every error of `parseText` satisfies the error predicate -/
theorem parseText_errOK (src : List Char) (e : PyErr) : parseText src = .error e → HErrOK e := by
  intro h
  unfold parseText at h
  split at h
  · next e0 h0 => cases h; exact initParser_errOK h0
  · next s0 h0 =>
    have hs0 := initParser_ordered h0
    split at h
    · next e1 h1 =>
      cases h
      exact OW_err (parseText_body_OSpec _ s0 hs0) h1
    · cases h

/-- **MAIN THEOREM**: when parsing fails, the hint chain carried by the error is in source order (outermost
construct first) and no hint lies after the offending token.  No `perror` site is excluded. -/
theorem parseText_error_hints (src : List Char) (msg : String) (tok : Token) (hs : List Hint) :
    parseText src = .error (.parser msg tok hs) → HintsOK tok hs :=
  fun h => parseText_errOK src _ h

/-- the same, spelled out -/
theorem parseText_error_hints' (src : List Char) (msg : String) (tok : Token) (hs : List Hint)
    (h : parseText src = .error (.parser msg tok hs)) :
    (hs.Pairwise fun a b => posLe (tokPos a.token) (tokPos b.token)) ∧
      ∀ x ∈ hs, posLe (tokPos x.token) (tokPos tok) :=
  parseText_error_hints src msg tok hs h

/-- per-function form: started in an ordered state, a parse function that fails with a parser error delivers
an ordered hint chain, and one that succeeds leaves an ordered state -/
theorem parseBlock_ordered (f : Nat) (t : Token) (b : Bool) (s : PSt) (hs : Ordered s) :
    (∀ r s', Model.parseBlock f t b s = .ok (r, s') → Ordered s') ∧
    (∀ msg tok hints, Model.parseBlock f t b s = .error (.parser msg tok hints) → HintsOK tok hints) :=
  ⟨fun _ _ h => OW_ok ((allOrd f).parseBlock t b s hs) h, fun _ _ _ h => OW_err ((allOrd f).parseBlock t b s hs) h⟩

theorem parseExp_ordered (f : Nat) (s : PSt) (hs : Ordered s) :
    (∀ r s', Model.parseExp f s = .ok (r, s') → Ordered s') ∧
    (∀ msg tok hints, Model.parseExp f s = .error (.parser msg tok hints) → HintsOK tok hints) :=
  ⟨fun _ _ h => OW_ok ((allOrd f).parseExp s hs) h, fun _ _ _ h => OW_err ((allOrd f).parseExp s hs) h⟩

/-! ## non-vacuity -/

/-- what an error carries: message, position of the offending token, and (`where`, position) of each hint -/
def errInfo (r : Except PyErr (Block × List Hint)) : Option (String × (Nat × Int) × List (String × (Nat × Int))) :=
  match r with
  | .error (.parser msg tok hs) => some (msg, tokPos tok, hs.map fun h => (h.where, tokPos h.token))
  | _ => none

/-- `x = f(` : the error at the end-of-file token (which records the position of the last character) carries four
hints: the assignment, the variable `f`, its call suffix, and the argument list -/
example : errInfo (parseText "x = f(".toList) =
    some ("Unexpected expression", (1, 6),
      [("assignment", (1, 3)), ("named var", (1, 5)), ("function", (1, 6)), ("function call", (1, 6))]) := by
  decide +kernel

/-- a two-line text: seven enclosing constructs, outermost first, none after the offending `}` at (2, 15) -/
example : errInfo (parseText "while x do\n  y = {1, g(2 }\nend".toList) =
    some ("Unexpected token", (2, 15),
      [("while", (1, 1)), ("assignment", (2, 5)), ("table constructor", (2, 7)), ("numbered table field", (2, 11)),
       ("named var", (2, 11)), ("function", (2, 12)), ("function call", (2, 12))]) := by
  decide +kernel

/-- the theorem applies to these: there is an error with at least two hints -/
example : ∃ msg tok hs, parseText "x = f(".toList = .error (.parser msg tok hs) ∧ 2 ≤ hs.length ∧ HintsOK tok hs := by
  cases h : parseText "x = f(".toList with
  | ok r =>
    have : errInfo (parseText "x = f(".toList) ≠ none := by decide +kernel
    rw [h] at this
    exact absurd rfl this
  | error e =>
    cases e with
    | parser msg tok hs =>
      refine ⟨msg, tok, hs, rfl, ?_, parseText_error_hints _ _ _ _ h⟩
      have h2 : (errInfo (parseText "x = f(".toList)).map (fun x => x.2.2.length) = some 4 := by decide +kernel
      rw [h] at h2
      simp [errInfo] at h2
      omega
    | _ =>
      have : errInfo (parseText "x = f(".toList) ≠ none := by decide +kernel
      rw [h] at this
      exact absurd rfl this

end Tumfl.Theory

