import Tumfl.Theory.ReadSim
import Tumfl.Theory.TCG
/-!
# Readings of a piece list with an optional trailing comma in front of `}` (`TCG`) and a choice for every separator

`TCGSim.Rd p ps ts`: `ts` is a reading (`Theory.Rd`) of some `L` with `TCG p ps L`.  The state `p` (the last text piece since
the last Argument separator) is threaded through `++` by `st`.  Same distribution lemmas as `Theory.AllRd`, plus
`AllRd_rcurl` for the `}` piece.  The development `ReadSimTCG*.lean` is the development `ReadSim*.lean` over this relation.
-/
namespace Tumfl.Theory.TCGSim
open Tumfl.Model

/-- the `TCG` state after a piece list -/
def st (p : Option (List Char)) : Pieces → Option (List Char)
  | [] => p
  | .str s :: r => st (some s) r
  | .sep .argument :: r => st none r
  | .sep .statement :: r => st p r
  | .sep .newline :: r => st p r
  | .sep .space :: r => st p r
  | .sep .dot :: r => st p r
  | .sep .indent :: r => st p r
  | .sep .deindent :: r => st p r
  | .sep .block :: r => st p r

theorem st_sep {p : Option (List Char)} {k : Sep} (hk : k ≠ .argument) (r : Pieces) : st p (.sep k :: r) = st p r := by
  cases k <;> first | rfl | exact absurd rfl hk

theorem st_append (p : Option (List Char)) : (a b : Pieces) → st p (a ++ b) = st (st p a) b
  | [], b => rfl
  | .str s :: a, b => by simp only [List.cons_append, st]; exact st_append _ a b
  | .sep k :: a, b => by
    by_cases hk : k = .argument
    · subst hk; simp only [List.cons_append, st]; exact st_append _ a b
    · rw [List.cons_append, st_sep hk, st_sep hk]; exact st_append _ a b

theorem TCG_split {p : Option (List Char)} {src L : Pieces} (h : TCG p src L) :
    ∀ a b, src = a ++ b → ∃ La Lb, L = La ++ Lb ∧ TCG p a La ∧ TCG (st p a) b Lb := by
  induction h with
  | nil =>
    intro a b hx
    have ha : a = [] := by cases a <;> simp_all
    subst ha
    simp only [List.nil_append] at hx
    subst hx
    exact ⟨[], [], rfl, .nil, .nil⟩
  | str s h ih =>
    intro a b hx
    cases a with
    | nil => simp only [List.nil_append] at hx; subst hx; exact ⟨[], _, rfl, .nil, .str s h⟩
    | cons x a' =>
      simp only [List.cons_append, List.cons.injEq] at hx
      obtain ⟨rfl, rfl⟩ := hx
      obtain ⟨La, Lb, rfl, ha, hb⟩ := ih a' b rfl
      exact ⟨.str s :: La, Lb, rfl, .str s ha, hb⟩
  | arg h ih =>
    intro a b hx
    cases a with
    | nil => simp only [List.nil_append] at hx; subst hx; exact ⟨[], _, rfl, .nil, .arg h⟩
    | cons x a' =>
      simp only [List.cons_append, List.cons.injEq] at hx
      obtain ⟨rfl, rfl⟩ := hx
      obtain ⟨La, Lb, rfl, ha, hb⟩ := ih a' b rfl
      exact ⟨.sep .argument :: La, Lb, rfl, .arg ha, hb⟩
  | sep k hk h ih =>
    intro a b hx
    cases a with
    | nil => simp only [List.nil_append] at hx; subst hx; exact ⟨[], _, rfl, .nil, .sep k hk h⟩
    | cons x a' =>
      simp only [List.cons_append, List.cons.injEq] at hx
      obtain ⟨rfl, rfl⟩ := hx
      obtain ⟨La, Lb, rfl, ha, hb⟩ := ih a' b rfl
      exact ⟨.sep k :: La, Lb, rfl, .sep k hk ha, by rw [st_sep hk]; exact hb⟩
  | comma hs h ih =>
    intro a b hx
    cases a with
    | nil => simp only [List.nil_append] at hx; subst hx; exact ⟨[], _, rfl, .nil, .comma hs h⟩
    | cons x a' =>
      obtain ⟨La, Lb, rfl, ha, hb⟩ := ih (x :: a') b hx
      simp only [List.cons_append, List.cons.injEq] at hx
      obtain ⟨rfl, rfl⟩ := hx
      exact ⟨.sep .argument :: La, Lb, rfl, .comma hs ha, hb⟩

theorem TCG_join {p : Option (List Char)} {a La : Pieces} (ha : TCG p a La) :
    ∀ {b Lb : Pieces}, TCG (st p a) b Lb → TCG p (a ++ b) (La ++ Lb) := by
  induction ha with
  | nil => intro b Lb hb; exact hb
  | str s h ih => intro b Lb hb; exact .str s (ih hb)
  | arg h ih => intro b Lb hb; exact .arg (ih hb)
  | sep k hk h ih => intro b Lb hb; rw [st_sep hk] at hb; exact .sep k hk (ih hb)
  | comma hs h ih => intro b Lb hb; exact .comma hs (ih hb)

theorem TCG_append {p : Option (List Char)} {a b L : Pieces} :
    TCG p (a ++ b) L ↔ ∃ La Lb, L = La ++ Lb ∧ TCG p a La ∧ TCG (st p a) b Lb :=
  ⟨fun h => TCG_split h a b rfl, by rintro ⟨La, Lb, rfl, ha, hb⟩; exact TCG_join ha hb⟩

def Rd (p : Option (List Char)) (ps : Pieces) (ts : List Spec.Tok) : Prop := ∃ L, TCG p ps L ∧ Theory.Rd L ts

@[reducible] def AllRd (p : Option (List Char)) (ps : Pieces) (K : List Spec.Tok → Prop) : Prop := ∀ ts, Rd p ps ts → K ts

theorem Rd_nil {p : Option (List Char)} {ts : List Spec.Tok} : Rd p [] ts ↔ ts = [] := by
  constructor
  · rintro ⟨L, hL, h⟩; cases hL; exact Theory.Rd_nil.mp h
  · rintro rfl; exact ⟨[], .nil, Theory.Rd_nil.mpr rfl⟩

theorem Rd_append {p : Option (List Char)} {a b : Pieces} {ts : List Spec.Tok} :
    Rd p (a ++ b) ts ↔ ∃ ta tb, Rd p a ta ∧ Rd (st p a) b tb ∧ ts = ta ++ tb := by
  constructor
  · rintro ⟨L, hL, h⟩
    obtain ⟨La, Lb, rfl, ha, hb⟩ := TCG_append.mp hL
    obtain ⟨ta, tb, hta, htb, rfl⟩ := Theory.Rd_append.mp h
    exact ⟨ta, tb, ⟨La, ha, hta⟩, ⟨Lb, hb, htb⟩, rfl⟩
  · rintro ⟨ta, tb, ⟨La, ha, hta⟩, ⟨Lb, hb, htb⟩, rfl⟩
    exact ⟨La ++ Lb, TCG_append.mpr ⟨La, Lb, rfl, ha, hb⟩, Theory.Rd_append.mpr ⟨ta, tb, hta, htb, rfl⟩⟩

theorem Rd_str {p : Option (List Char)} {s : List Char} (hs : s ≠ ['}']) {r : Pieces} {ts : List Spec.Tok} :
    Rd p (.str s :: r) ts ↔ ∃ t', Rd (some s) r t' ∧ ts = (strTk s).map mkTok ++ t' := by
  constructor
  · rintro ⟨L, hL, h⟩
    cases hL with
    | str _ hL' =>
      obtain ⟨x, t', ht', rfl, hx⟩ := Theory.Rd_cons.mp h
      rcases hx with rfl | ⟨hp, _⟩
      · exact ⟨t', ⟨_, hL', ht'⟩, rfl⟩
      · rcases hp with hp | hp <;> cases hp
    | comma _ _ => exact absurd rfl hs
  · rintro ⟨t', ⟨L, hL, ht'⟩, rfl⟩
    exact ⟨.str s :: L, .str s hL, Theory.Rd_cons.mpr ⟨_, t', ht', rfl, .inl rfl⟩⟩

theorem Rd_rcurl {p : Option (List Char)} {r : Pieces} {ts : List Spec.Tok} :
    Rd p (.str ['}'] :: r) ts ↔
      (∃ t', Rd (some ['}']) r t' ∧ ts = mkTok (.sym "}") :: t') ∨
      (∃ s t', p = some s ∧ s ≠ ['{'] ∧ Rd (some ['}']) r t' ∧ ts = mkTok (.sym ",") :: mkTok (.sym "}") :: t') := by
  have hk : (strTk ['}']).map mkTok = [mkTok (.sym "}")] := by
    have : strTk ['}'] = [.sym "}"] := by decide
    rw [this]; rfl
  constructor
  · rintro ⟨L, hL, h⟩
    cases hL with
    | str _ hL' =>
      left
      obtain ⟨x, t', ht', rfl, hx⟩ := Theory.Rd_cons.mp h
      rcases hx with rfl | ⟨hp, _⟩
      · exact ⟨t', ⟨_, hL', ht'⟩, by simp [pieceTks, hk]⟩
      · rcases hp with hp | hp <;> cases hp
    | comma hs hL' =>
      right
      cases hL' with
      | str _ hL'' =>
        obtain ⟨x, t1, ht1, rfl, hx⟩ := Theory.Rd_cons.mp h
        obtain ⟨y, t2, ht2, rfl, hy⟩ := Theory.Rd_cons.mp ht1
        have hx' : x = [mkTok (.sym ",")] := by
          rcases hx with rfl | ⟨hp, _⟩
          · rfl
          · rcases hp with hp | hp <;> cases hp
        have hy' : y = [mkTok (.sym "}")] := by
          rcases hy with rfl | ⟨hp, _⟩
          · simp [pieceTks, hk]
          · rcases hp with hp | hp <;> cases hp
        subst hx' hy'
        exact ⟨_, t2, rfl, hs, ⟨_, hL'', ht2⟩, rfl⟩
  · rintro (⟨t', ⟨L, hL, ht'⟩, rfl⟩ | ⟨s, t', rfl, hs, ⟨L, hL, ht'⟩, rfl⟩)
    · exact ⟨.str ['}'] :: L, .str _ hL, Theory.Rd_cons.mpr ⟨_, t', ht', by simp [pieceTks, hk], .inl rfl⟩⟩
    · refine ⟨.sep .argument :: .str ['}'] :: L, .comma hs (.str _ hL), ?_⟩
      exact Theory.Rd_cons.mpr ⟨[mkTok (.sym ",")], _,
        Theory.Rd_cons.mpr ⟨[mkTok (.sym "}")], t', ht', rfl, .inl (by simp [pieceTks, hk])⟩, rfl, .inl rfl⟩

theorem Rd_arg {p : Option (List Char)} {r : Pieces} {ts : List Spec.Tok} :
    Rd p (.sep .argument :: r) ts ↔ ∃ t', Rd none r t' ∧ ts = mkTok (.sym ",") :: t' := by
  constructor
  · rintro ⟨L, hL, h⟩
    cases hL with
    | arg hL' =>
      obtain ⟨x, t', ht', rfl, hx⟩ := Theory.Rd_cons.mp h
      rcases hx with rfl | ⟨hp, _⟩
      · exact ⟨t', ⟨_, hL', ht'⟩, rfl⟩
      · rcases hp with hp | hp <;> cases hp
    | sep k hk _ => exact absurd rfl hk
  · rintro ⟨t', ⟨L, hL, ht'⟩, rfl⟩
    exact ⟨.sep .argument :: L, .arg hL, Theory.Rd_cons.mpr ⟨_, t', ht', rfl, .inl rfl⟩⟩

theorem Rd_sep {p : Option (List Char)} {k : Sep} (hk : k ≠ .argument) {r : Pieces} {ts : List Spec.Tok} :
    Rd p (.sep k :: r) ts ↔ ∃ s t', Rd p r t' ∧ ts = s ++ t' ∧
      (s = (pieceTks false (.sep k)).map mkTok ∨ ((k = .statement ∨ k = .block) ∧ s = [mkTok (.sym ";")])) := by
  constructor
  · rintro ⟨L, hL, h⟩
    cases hL with
    | arg _ => exact absurd rfl hk
    | sep _ _ hL' =>
      obtain ⟨x, t', ht', rfl, hx⟩ := Theory.Rd_cons.mp h
      refine ⟨x, t', ⟨_, hL', ht'⟩, rfl, ?_⟩
      rcases hx with rfl | ⟨hp, rfl⟩
      · exact .inl rfl
      · refine .inr ⟨?_, rfl⟩
        rcases hp with hp | hp
        · left; cases hp; rfl
        · right; cases hp; rfl
  · rintro ⟨s, t', ⟨L, hL, ht'⟩, rfl, hs⟩
    refine ⟨.sep k :: L, .sep k hk hL, Theory.Rd_cons.mpr ⟨s, t', ht', rfl, ?_⟩⟩
    rcases hs with rfl | ⟨hp, rfl⟩
    · exact .inl rfl
    · exact .inr ⟨by rcases hp with rfl | rfl <;> simp, rfl⟩

/-! ## `AllRd` -/

variable {p : Option (List Char)} {K : List Spec.Tok → Prop} {r : Pieces}

theorem AllRd_nil : AllRd p [] K ↔ K [] := by simp [AllRd, Rd_nil]

theorem AllRd_append {a b : Pieces} :
    AllRd p (a ++ b) K ↔ AllRd p a fun ta => AllRd (st p a) b fun tb => K (ta ++ tb) := by
  simp only [AllRd, Rd_append]
  constructor
  · intro h ta ha tb hb; exact h _ ⟨ta, tb, ha, hb, rfl⟩
  · rintro h ts ⟨ta, tb, ha, hb, rfl⟩; exact h ta ha tb hb

theorem AllRd_str {s : List Char} (hs : s ≠ ['}']) :
    AllRd p (.str s :: r) K ↔ AllRd (some s) r fun t => K ((strTk s).map mkTok ++ t) := by
  simp only [AllRd, Rd_str hs]
  constructor
  · intro h t ht; exact h _ ⟨t, ht, rfl⟩
  · rintro h ts ⟨t, ht, rfl⟩; exact h t ht

theorem AllRd_P {s : String} {k : Spec.Tk} (h : strTk s.toList = [k]) (hs : s.toList ≠ ['}']) :
    AllRd p (P s :: r) K ↔ AllRd (some s.toList) r fun t => K (mkTok k :: t) := by
  rw [P, AllRd_str hs, h]; rfl

theorem AllRd_rcurl :
    AllRd p (P "}" :: r) K ↔
      (AllRd (some ['}']) r fun t => K (mkTok (.sym "}") :: t)) ∧
      (∀ s, p = some s → s ≠ ['{'] → AllRd (some ['}']) r fun t => K (mkTok (.sym ",") :: mkTok (.sym "}") :: t)) := by
  have : P "}" = .str ['}'] := rfl
  simp only [this, AllRd, Rd_rcurl]
  constructor
  · intro h
    exact ⟨fun t ht => h _ (.inl ⟨t, ht, rfl⟩), fun s hp hs t ht => h _ (.inr ⟨s, t, hp, hs, ht, rfl⟩)⟩
  · rintro ⟨h1, h2⟩ ts (⟨t, ht, rfl⟩ | ⟨s, t, hp, hs, ht, rfl⟩)
    · exact h1 t ht
    · exact h2 s hp hs t ht

theorem AllRd_fixedSep {k : Sep} (hk : k ≠ .argument ∧ k ≠ .statement ∧ k ≠ .block) :
    AllRd p (S k :: r) K ↔ AllRd p r fun t => K ((pieceTks false (.sep k)).map mkTok ++ t) := by
  simp only [AllRd, S, Rd_sep hk.1]
  constructor
  · intro h t ht; exact h _ ⟨_, t, ht, rfl, .inl rfl⟩
  · rintro h ts ⟨s, t', ht, rfl, hs | ⟨hp', _⟩⟩
    · subst hs; exact h t' ht
    · rcases hp' with rfl | rfl
      · exact absurd rfl hk.2.1
      · exact absurd rfl hk.2.2

theorem AllRd_choice {x : Sep} (hx : x = .statement ∨ x = .block) :
    AllRd p (S x :: r) K ↔ ∀ s, SemiOpt s → AllRd p r fun t => K (s ++ t) := by
  have hk : x ≠ .argument := by rcases hx with rfl | rfl <;> simp
  simp only [AllRd, S, Rd_sep hk]
  constructor
  · intro h s hs t ht
    rcases hs with rfl | rfl
    · exact h _ ⟨[], t, ht, rfl, .inl (by rcases hx with rfl | rfl <;> rfl)⟩
    · exact h _ ⟨_, t, ht, rfl, .inr ⟨hx, rfl⟩⟩
  · rintro h ts ⟨s, t', ht, rfl, hs | ⟨_, rfl⟩⟩
    · subst hs
      have : (pieceTks false (.sep x)).map mkTok = [] := by rcases hx with rfl | rfl <;> rfl
      rw [this]
      exact h [] (.inl rfl) t' ht
    · exact h _ (.inr rfl) t' ht

@[simp] theorem AllRd_statement :
    AllRd p (S .statement :: r) K ↔ ∀ s, SemiOpt s → AllRd p r fun t => K (s ++ t) := AllRd_choice (.inl rfl)
@[simp] theorem AllRd_block :
    AllRd p (S .block :: r) K ↔ ∀ s, SemiOpt s → AllRd p r fun t => K (s ++ t) := AllRd_choice (.inr rfl)
@[simp] theorem AllRd_space : AllRd p (S .space :: r) K ↔ AllRd p r K := by
  rw [AllRd_fixedSep ⟨by simp, by simp, by simp⟩]; rfl
@[simp] theorem AllRd_newline : AllRd p (S .newline :: r) K ↔ AllRd p r K := by
  rw [AllRd_fixedSep ⟨by simp, by simp, by simp⟩]; rfl
@[simp] theorem AllRd_indent : AllRd p (S .indent :: r) K ↔ AllRd p r K := by
  rw [AllRd_fixedSep ⟨by simp, by simp, by simp⟩]; rfl
@[simp] theorem AllRd_deindent : AllRd p (S .deindent :: r) K ↔ AllRd p r K := by
  rw [AllRd_fixedSep ⟨by simp, by simp, by simp⟩]; rfl
@[simp] theorem AllRd_dot : AllRd p (S .dot :: r) K ↔ AllRd p r fun t => K (mkTok (.sym ".") :: t) := by
  rw [AllRd_fixedSep ⟨by simp, by simp, by simp⟩]; rfl
@[simp] theorem AllRd_argument : AllRd p (S .argument :: r) K ↔ AllRd none r fun t => K (mkTok (.sym ",") :: t) := by
  simp only [AllRd, S, Rd_arg]
  constructor
  · intro h t ht; exact h _ ⟨t, ht, rfl⟩
  · rintro h ts ⟨t, ht, rfl⟩; exact h t ht

end Tumfl.Theory.TCGSim
