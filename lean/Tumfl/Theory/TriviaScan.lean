import Tumfl.Theory.LexPosScan
import Tumfl.Theory.StrRead
/-!
# Scanners move only through `advance`

`LexPosScan` shows that every scanner preserves every predicate stable under `advance` *and* under a change of the
pending comments.  The token scanners (everything except `skip_comment` and `get_token_args`) never touch the
comments, so they preserve every predicate that is merely stable under `advance` (`AdvStable`) - in particular
"the pending comments are `K`" and "the state is reached from `s0` by some number of `advance`s".
(The proofs are those of `LexPosScan` with the weaker hypothesis.)
-/
namespace Tumfl.Theory
open Tumfl.Model

/-- a state predicate preserved by `advance` -/
def AdvStable (P : LexSt → Prop) : Prop := ∀ s, P s → P (advance s)

variable {P : LexSt → Prop}

theorem skipWhitespace_adv (hP : AdvStable P) : ∀ (f : Nat) (s : LexSt), P s → P (skipWhitespace f s)
  | 0, s, h => by rw [skipWhitespace]; exact h
  | f + 1, s, h => by
    rw [skipWhitespace]
    split
    · exact skipWhitespace_adv hP f _ (hP _ h)
    · exact h

theorem countEquals_adv (hP : AdvStable P) : ∀ (f : Nat) (s : LexSt) (n : Nat), P s → P (countEquals f s n).2
  | 0, s, n, h => by rw [countEquals]; exact h
  | f + 1, s, n, h => by
    rw [countEquals]
    split
    · exact countEquals_adv hP f _ _ (hP _ h)
    · exact h

theorem longBody_adv (hP : AdvStable P) {e l : Nat} {c : Int} :
    ∀ (f : Nat) (s : LexSt) (ce : Option Nat) (acc v : List Char) (s' : LexSt),
      P s → longBody e l c f s ce acc = .ok (v, s') → P s'
  | 0, s, ce, acc, v, s', _, h => by rw [longBody] at h; cases h
  | f + 1, s, ce, acc, v, s', hs, h => by
    rw [longBody] at h
    split at h
    · cases h
    · split at h
      · cases h; exact hP _ hs
      · exact longBody_adv hP f _ _ _ _ _ (hP _ hs) h

theorem getLongBrackets_adv (hP : AdvStable P) {s : LexSt} {v : List Char} {s' : LexSt}
    (hs : P s) (h : getLongBrackets s = .ok (v, s')) : P s' := by
  unfold getLongBrackets at h
  split at h
  · cases h
  · have h2 := countEquals_adv hP ((advance s).rest.length + 1) (advance s) 0 (hP _ hs)
    dsimp only at h
    revert h h2
    generalize countEquals ((advance s).rest.length + 1) (advance s) 0 = p
    obtain ⟨eq, s2⟩ := p
    intro h h2
    simp only at h h2
    split at h
    · cases h
    · refine longBody_adv hP _ _ _ _ _ _ ?_ h
      split
      · exact hP _ (hP _ h2)
      · exact hP _ h2

theorem shortComment_adv (hP : AdvStable P) : ∀ (f : Nat) (s : LexSt) (acc : List Char), P s → P (shortComment f s acc).2
  | 0, s, acc, h => by rw [shortComment]; exact h
  | f + 1, s, acc, h => by
    rw [shortComment]
    split
    · split
      · exact shortComment_adv hP f _ _ (hP _ h)
      · exact h
    · exact h

theorem takeWhileIn_adv (hP : AdvStable P) {set : List Char} {lower : Bool} :
    ∀ (f : Nat) (s : LexSt) (acc : List Char), P s → P (takeWhileIn set lower f s acc).2
  | 0, s, acc, h => by rw [takeWhileIn]; exact h
  | f + 1, s, acc, h => by
    rw [takeWhileIn]
    split
    · split
      · exact takeWhileIn_adv hP f _ _ (hP _ h)
      · exact h
    · exact h

theorem numInt_adv (hP : AdvStable P) (fuel : Nat) {s : LexSt} (hs : P s) : P (numInt fuel s).2.2 := by
  unfold numInt
  split
  · refine takeWhileIn_adv hP _ _ _ ?_
    split
    · exact hP _ (hP _ hs)
    · exact hs
  · exact hs

theorem numFrac_adv (hP : AdvStable P) (digs : List Char) (fuel : Nat) {s : LexSt} (hs : P s) : P (numFrac digs fuel s).2 := by
  unfold numFrac
  split
  · exact takeWhileIn_adv hP _ _ _ (hP _ hs)
  · exact hs

theorem numSign_adv (hP : AdvStable P) {s : LexSt} (hs : P s) : P (numSign s).2 := by
  unfold numSign
  split
  · split
    · exact hP _ hs
    · exact hs
  · exact hs

theorem numExp_adv (hP : AdvStable P) (isHex : Bool) (ip fp : Option (List Char)) (fuel : Nat) {s : LexSt} (hs : P s) :
    P (numExp isHex ip fp fuel s).2 := by
  unfold numExp
  have h := takeWhileIn_adv hP (set := Gen.number) (lower := false) fuel _ [] (numSign_adv hP (hP _ hs))
  dsimp only
  repeat' split
  all_goals first | exact h | exact hs

theorem getNumber_adv (hP : AdvStable P) {s : LexSt} (hs : P s) : P (getNumber s).2 := by
  rw [getNumber_eq]
  exact numExp_adv hP _ _ _ _ (numFrac_adv hP _ _ (numInt_adv hP _ hs))


theorem getName_adv (hP : AdvStable P) {s : LexSt} {v : List Char} {s' : LexSt}
    (hs : P s) (h : getName s = .ok (v, s')) : P s' := by
  unfold getName at h
  split at h
  · cases h
  · have h2 := takeWhileIn_adv hP (set := Gen.alphanumeric) (lower := false) (s.rest.length + 1) s [] hs
    simp only [Except.ok.injEq] at h
    rw [h] at h2
    exact h2

theorem escapeSeq_adv (hP : AdvStable P) {iu : Bool} {s : LexSt} {v : List Char} {s' : LexSt}
    (hs : P s) (h : escapeSeq iu s = .ok (v, s')) : P s' := by
  unfold escapeSeq at h
  dsimp only at h
  split at h
  · cases h
  · split at h
    · cases ok_snd h; exact skipWhitespace_adv hP _ _ (hP _ hs)
    · split at h
      · repeat' split at h
        all_goals first | (cases h; done) | skip
        cases ok_snd h
        exact hP _ (hP _ (hP _ hs))
      · split at h
        · split at h
          · cases h
          · have h2 := takeWhileIn_adv hP (set := Gen.hexNumber) (lower := false) ((advance (advance s)).rest.length + 1) _ [] (hP _ (hP _ hs))
            revert h h2
            generalize takeWhileIn Gen.hexNumber false ((advance (advance s)).rest.length + 1) (advance (advance s)) [] = p
            obtain ⟨cp, s3⟩ := p
            intro h h2
            dsimp only at h h2
            repeat' split at h
            all_goals first | (cases h; done) | skip
            cases ok_snd h
            exact hP _ h2
        · split at h
          · repeat' split at h
            all_goals first | (cases h; done) | skip
            all_goals
              cases ok_snd h
              first
                | exact hP _ (hP _ (hP _ hs))
                | exact hP _ (hP _ hs)
                | exact hP _ hs
          · split at h
            · cases h
            · cases ok_snd h; exact hP _ hs


theorem stringLoop_adv (hP : AdvStable P) {iu : Bool} {q : Char} :
    ∀ (f : Nat) (esc : Bool) (s : LexSt) (acc v : List Char) (s' : LexSt),
      P s → stringLoop iu q f esc s acc = .ok (v, s') → P s'
  | 0, esc, s, acc, v, s', _, h => by rw [stringLoop] at h; cases h
  | f + 1, esc, s, acc, v, s', hs, h => by
    rw [stringLoop] at h
    split at h
    · cases h
    · split at h
      · cases ok_snd h; exact hP _ hs
      · split at h
        · split at h
          · cases h
          · rename_i r s1 heq
            exact stringLoop_adv hP f _ _ _ _ _ (escapeSeq_adv hP hs heq) h
        · split at h
          · exact stringLoop_adv hP f _ _ _ _ _ (hP _ hs) h
          · split at h
            · cases h
            · exact stringLoop_adv hP f _ _ _ _ _ (hP _ hs) h

theorem getString_adv (hP : AdvStable P) {iu : Bool} {s : LexSt} {v : List Char} {s' : LexSt}
    (hs : P s) (h : getString iu s = .ok (v, s')) : P s' := by
  unfold getString at h
  split at h
  · split at h
    · exact stringLoop_adv hP _ _ _ _ _ _ (hP _ hs) h
    · cases h
  · cases h

theorem skipShebang_adv (hP : AdvStable P) : ∀ (f : Nat) (s : LexSt), P s → P (skipShebang f s)
  | 0, s, h => by rw [skipShebang]; exact h
  | f + 1, s, h => by
    rw [skipShebang]
    split
    · split
      · exact skipShebang_adv hP f _ (hP _ h)
      · exact h
    · exact h


/-! ## the token branch of `nextTokenLoop` -/

/-- the token branch of `nextTokenLoop` (the code after the white-space and comment tests), verbatim -/
def scanToken (cfg : LexCfg) (s : LexSt) (c : Char) : Except PyErr (Token × LexSt) :=
  let (a, s0) := tokenArgs s
  if Gen.letter.contains c then
    match getName s0 with
    | .error e => .error e
    | .ok (name, s1) =>
      match keywordOf cfg name with
      | some t => .ok (mkTok t (.str name) a, s1)
      | none => .ok (mkTok .NAME (.str name) a, s1)
  else if Gen.number.contains c || (c == '.' && inStr s0.peek Gen.number) then
    let (n, s1) := getNumber s0
    let last : Char := s1.prev.getD ' '
    if !(n.ip.isSome || n.fp.isSome)
        || (if n.isHex then "pP+-".toList else "eE+-".toList).contains last
        || inStr s1.cur Gen.alphanumeric
        || s1.cur == some '.' then
      lexErrorAt "Malformed number" (a.1 - 1) (a.2.1 - 1)
    else .ok (mkTok .NUMBER (.num n) a, s1)
  else if c == '\'' || c == '"' then
    match getString cfg.ignoreUnicode s0 with
    | .error e => .error e
    | .ok (v, s1) => .ok (mkTok .STRING (.str v) a, s1)
  else if c == '[' && (s0.peek == some '[' || s0.peek == some '=') then
    match getLongBrackets s0 with
    | .error e => .error e
    | .ok (v, s1) => .ok (mkTok .STRING (.str v) a, s1)
  else if c == '.' && s0.peek == some '.' then
    let s2 := advance (advance s0)
    if s2.cur == some '.' then .ok (mkTok .ELLIPSIS (.str "...".toList) a, advance s2)
    else .ok (mkTok .CONCAT (.str "..".toList) a, s2)
  else
    let two : Option (TT × List Char) :=
      match s0.peek with
      | some p => (symbolOf [c, p]).map fun t => (t, [c, p])
      | none => none
    match two with
    | some (t, v) => .ok (mkTok t (.str v) a, advance (advance s0))
    | none =>
      match symbolOf [c] with
      | some t => .ok (mkTok t (.str [c]) a, advance s0)
      | none => lexError "unrecognised character" s0

/-- one iteration of `nextTokenLoop` -/
theorem nextTokenLoop_succ (cfg : LexCfg) (f : Nat) (s : LexSt) :
    nextTokenLoop cfg (f + 1) s =
      match s.cur with
      | none => .ok (mkTok .EOF (.str "eof".toList) (tokenArgs s).1, (tokenArgs s).2)
      | some c =>
        if Gen.whitespace.contains c then nextTokenLoop cfg f (skipWhitespace (s.rest.length + 1) s)
        else if c == '-' && s.peek == some '-' then
          match skipComment s with
          | .error e => .error e
          | .ok s1 => nextTokenLoop cfg f s1
        else scanToken cfg s c := by
  rw [nextTokenLoop]
  rfl

/-- a delivered token carries the pending comments and the position of the state at which its scan began; the
scan itself moves only by `advance`, from that state with the pending comments cleared -/
theorem scanToken_adv (hP : AdvStable P) {cfg : LexCfg} {s : LexSt} {c : Char} {tok : Token} {s' : LexSt}
    (hs0 : P { s with comments := [] }) (h : scanToken cfg s c = .ok (tok, s')) :
    P s' ∧ tok.comment = s.comments ∧ tok.line = s.line + 1 ∧ tok.column = s.col + 1 := by
  unfold scanToken at h
  simp only [tokenArgs] at h
  have fin : ∀ {ty v X}, P X → (Except.ok (mkTok ty v (s.line + 1, s.col + 1, s.comments), X) : Except PyErr (Token × LexSt)) = Except.ok (tok, s') →
      P s' ∧ tok.comment = s.comments ∧ tok.line = s.line + 1 ∧ tok.column = s.col + 1 := by
    intro ty v X hX h
    obtain ⟨rfl, rfl⟩ := ok_pair h
    exact ⟨hX, rfl, rfl, rfl⟩
  split at h
  · -- name
    split at h
    · cases h
    · rename_i name s1 heq
      have h1 := getName_adv hP hs0 heq
      split at h <;> exact fin h1 h
  · rcases ite_cases h with ⟨_, h⟩ | ⟨_, h⟩
    · -- number
      rcases ite_cases h with ⟨_, h⟩ | ⟨_, h⟩
      · cases h
      · exact fin (getNumber_adv hP hs0) h
    · rcases ite_cases h with ⟨_, h⟩ | ⟨_, h⟩
      · -- string
        split at h
        · cases h
        · rename_i v s1 heq
          exact fin (getString_adv hP hs0 heq) h
      · rcases ite_cases h with ⟨_, h⟩ | ⟨_, h⟩
        · -- long bracket
          split at h
          · cases h
          · rename_i v s1 heq
            exact fin (getLongBrackets_adv hP hs0 heq) h
        · rcases ite_cases h with ⟨_, h⟩ | ⟨_, h⟩
          · rcases ite_cases h with ⟨_, h⟩ | ⟨_, h⟩
            · exact fin (hP _ (hP _ (hP _ hs0))) h
            · exact fin (hP _ (hP _ hs0)) h
          · split at h
            · exact fin (hP _ (hP _ hs0)) h
            · split at h
              · exact fin (hP _ hs0) h
              · cases h

/-! ## two `AdvStable` predicates -/

theorem advance_comments (s : LexSt) : (advance s).comments = s.comments := by
  unfold advance
  split
  · rfl
  · split
    · rfl
    · split <;> rfl

/-- "the pending comments are `K`" -/
theorem advStable_comments (K : List (List Char)) : AdvStable (fun s => s.comments = K) :=
  fun s h => (advance_comments s).trans h

/-- "the remaining text is a suffix of `t`" -/
theorem advStable_suffix (t : List Char) : AdvStable (fun s => ∃ k, s.rest = t.drop k) := by
  intro s ⟨k, hk⟩
  refine ⟨k + 1, ?_⟩
  rw [advance_rest, hk, List.tail_drop]

end Tumfl.Theory
