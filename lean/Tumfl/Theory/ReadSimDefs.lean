import Tumfl.Theory.PrintSimRel
import Tumfl.Theory.ReadTks
/-!
# Token readings of a piece list with an independent choice for every statement / block separator

The minifier (`removeSeparators`) deletes a statement / block separator where the neighbouring texts cannot fuse and keeps
it otherwise; kept ones are spelled `;`.  `ReadTks ps ks` (`Tumfl/Theory/ReadTks.lean`): `ks` is a token reading of the pieces `ps` in which every
`.sep .statement` / `.sep .block` piece is read as `;` or as nothing, independently; everything else as `pieceTks`.
This file: the working form `Rd` / `AllRd` on `Spec.Tok` lists with its distribution lemmas.
-/
namespace Tumfl.Theory
open Tumfl.Model

/-! ## working form: readings as `Spec.Tok` lists, universally quantified -/

def SemiOpt (s : List Spec.Tok) : Prop := s = [] ∨ s = [mkTok (.sym ";")]

theorem SemiOpt.length_le {s : List Spec.Tok} (h : SemiOpt s) : s.length ≤ 1 := by
  rcases h with rfl | rfl <;> simp

def Rd (ps : Pieces) (ts : List Spec.Tok) : Prop := ∃ ks, ReadTks ps ks ∧ ts = ks.map mkTok

/-- every reading of `ps` satisfies `K` -/
@[reducible] def AllRd (ps : Pieces) (K : List Spec.Tok → Prop) : Prop := ∀ ts, Rd ps ts → K ts

theorem Rd_nil {ts : List Spec.Tok} : Rd [] ts ↔ ts = [] := by
  constructor
  · rintro ⟨ks, h, rfl⟩; cases h; rfl
  · rintro rfl; exact ⟨[], .nil, rfl⟩

theorem Rd_cons {p : Piece} {r : Pieces} {ts : List Spec.Tok} :
    Rd (p :: r) ts ↔ ∃ s t', Rd r t' ∧ ts = s ++ t' ∧
      (s = (pieceTks false p).map mkTok ∨ ((p = .sep .statement ∨ p = .sep .block) ∧ s = [mkTok (.sym ";")])) := by
  constructor
  · rintro ⟨ks, h, rfl⟩
    cases h with
    | semi hp h => exact ⟨_, _, ⟨_, h, rfl⟩, by simp, .inr ⟨hp, rfl⟩⟩
    | skip hp h =>
      refine ⟨[], _, ⟨_, h, rfl⟩, by simp, .inl ?_⟩
      rcases hp with rfl | rfl <;> rfl
    | other h1 h2 h => exact ⟨_, _, ⟨_, h, rfl⟩, by simp, .inl rfl⟩
  · rintro ⟨s, t', ⟨ks, h, rfl⟩, rfl, hs | ⟨hp, rfl⟩⟩
    · subst hs
      by_cases h1 : p = .sep .statement
      · subst h1; exact ⟨_, .skip (.inl rfl) h, by simp [pieceTks]⟩
      · by_cases h2 : p = .sep .block
        · subst h2; exact ⟨_, .skip (.inr rfl) h, by simp [pieceTks]⟩
        · exact ⟨_, .other h1 h2 h, by simp⟩
    · exact ⟨_, .semi hp h, by simp⟩

theorem Rd_append {a b : Pieces} {ts : List Spec.Tok} :
    Rd (a ++ b) ts ↔ ∃ ta tb, Rd a ta ∧ Rd b tb ∧ ts = ta ++ tb := by
  induction a generalizing ts with
  | nil => simp [Rd_nil]
  | cons p a ih =>
    simp only [List.cons_append, Rd_cons, ih]
    constructor
    · rintro ⟨s, t', ⟨ta, tb, ha, hb, rfl⟩, rfl, hs⟩
      exact ⟨s ++ ta, tb, ⟨s, ta, ha, rfl, hs⟩, hb, by simp⟩
    · rintro ⟨ta, tb, ⟨s, ta', ha, rfl, hs⟩, hb, rfl⟩
      exact ⟨s, ta' ++ tb, ⟨ta', tb, ha, hb, rfl⟩, by simp, hs⟩

theorem AllRd_nil {K : List Spec.Tok → Prop} : AllRd [] K ↔ K [] := by
  simp [AllRd, Rd_nil]

theorem AllRd_append {a b : Pieces} {K : List Spec.Tok → Prop} :
    AllRd (a ++ b) K ↔ AllRd a fun ta => AllRd b fun tb => K (ta ++ tb) := by
  simp only [AllRd, Rd_append]
  constructor
  · intro h ta ha tb hb; exact h _ ⟨ta, tb, ha, hb, rfl⟩
  · rintro h ts ⟨ta, tb, ha, hb, rfl⟩; exact h ta ha tb hb

/-- a piece with a fixed reading -/
theorem AllRd_fixed {p : Piece} {r : Pieces} {K : List Spec.Tok → Prop} (hp : p ≠ .sep .statement ∧ p ≠ .sep .block) :
    AllRd (p :: r) K ↔ AllRd r fun t => K ((pieceTks false p).map mkTok ++ t) := by
  simp only [AllRd, Rd_cons]
  constructor
  · intro h t ht; exact h _ ⟨_, t, ht, rfl, .inl rfl⟩
  · rintro h ts ⟨s, t', ht, rfl, hs | ⟨hp', _⟩⟩
    · subst hs; exact h t' ht
    · rcases hp' with rfl | rfl
      · exact absurd rfl hp.1
      · exact absurd rfl hp.2

theorem AllRd_str {s : List Char} {r : Pieces} {K : List Spec.Tok → Prop} :
    AllRd (.str s :: r) K ↔ AllRd r fun t => K ((strTk s).map mkTok ++ t) :=
  AllRd_fixed ⟨by simp, by simp⟩

theorem AllRd_P {s : String} {k : Spec.Tk} (h : strTk s.toList = [k]) {r : Pieces} {K : List Spec.Tok → Prop} :
    AllRd (P s :: r) K ↔ AllRd r fun t => K (mkTok k :: t) := by
  rw [P, AllRd_str, h]; rfl

/-- a statement / block separator: `;` or nothing -/
theorem AllRd_choice {x : Sep} (hx : x = .statement ∨ x = .block) {r : Pieces} {K : List Spec.Tok → Prop} :
    AllRd (S x :: r) K ↔ ∀ s, SemiOpt s → AllRd r fun t => K (s ++ t) := by
  simp only [AllRd, Rd_cons, S]
  constructor
  · intro h s hs t ht
    rcases hs with rfl | rfl
    · exact h _ ⟨[], t, ht, rfl, .inl (by rcases hx with rfl | rfl <;> rfl)⟩
    · exact h _ ⟨_, t, ht, rfl, .inr ⟨by rcases hx with rfl | rfl <;> simp, rfl⟩⟩
  · rintro h ts ⟨s, t', ht, rfl, hs | ⟨_, rfl⟩⟩
    · subst hs
      have : (pieceTks false (.sep x)).map mkTok = [] := by rcases hx with rfl | rfl <;> rfl
      rw [this]
      exact h [] (.inl rfl) t' ht
    · exact h _ (.inr rfl) t' ht

@[simp] theorem AllRd_statement {r : Pieces} {K : List Spec.Tok → Prop} :
    AllRd (S .statement :: r) K ↔ ∀ s, SemiOpt s → AllRd r fun t => K (s ++ t) := AllRd_choice (.inl rfl)
@[simp] theorem AllRd_block {r : Pieces} {K : List Spec.Tok → Prop} :
    AllRd (S .block :: r) K ↔ ∀ s, SemiOpt s → AllRd r fun t => K (s ++ t) := AllRd_choice (.inr rfl)
@[simp] theorem AllRd_space {r : Pieces} {K : List Spec.Tok → Prop} : AllRd (S .space :: r) K ↔ AllRd r K := by
  rw [S, AllRd_fixed ⟨by simp, by simp⟩]; rfl
@[simp] theorem AllRd_newline {r : Pieces} {K : List Spec.Tok → Prop} : AllRd (S .newline :: r) K ↔ AllRd r K := by
  rw [S, AllRd_fixed ⟨by simp, by simp⟩]; rfl
@[simp] theorem AllRd_indent {r : Pieces} {K : List Spec.Tok → Prop} : AllRd (S .indent :: r) K ↔ AllRd r K := by
  rw [S, AllRd_fixed ⟨by simp, by simp⟩]; rfl
@[simp] theorem AllRd_deindent {r : Pieces} {K : List Spec.Tok → Prop} : AllRd (S .deindent :: r) K ↔ AllRd r K := by
  rw [S, AllRd_fixed ⟨by simp, by simp⟩]; rfl
@[simp] theorem AllRd_argument {r : Pieces} {K : List Spec.Tok → Prop} :
    AllRd (S .argument :: r) K ↔ AllRd r fun t => K (mkTok (.sym ",") :: t) := by
  rw [S, AllRd_fixed ⟨by simp, by simp⟩]; rfl
@[simp] theorem AllRd_dot {r : Pieces} {K : List Spec.Tok → Prop} :
    AllRd (S .dot :: r) K ↔ AllRd r fun t => K (mkTok (.sym ".") :: t) := by
  rw [S, AllRd_fixed ⟨by simp, by simp⟩]; rfl

end Tumfl.Theory
