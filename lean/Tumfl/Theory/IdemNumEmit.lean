import Tumfl.Theory.IdemNumEmitBase
/-!
# C15, numerals: the numeral pieces of `emit sty b` are the printed numerals of `b`, in source order

`numStrP_emit` (one mutual induction over the tree, comments switched off) and `numStrP_softDrop` (dropping
Space / Statement / Block separators does not touch the numeral pieces).
-/
namespace Tumfl.Theory.NumEmit
open Tumfl Tumfl.Model Tumfl.Theory

mutual
theorem ns_visitExpr (sty : Style) (hic : sty.includeComments = false) : (e : Expr) → pExpr e = true →
    numStrP (visitExpr sty e) = (numsExpr e).map numberStr
  | .nil _, _ => by simp [visitExpr, numsExpr]
  | .bool _ v, _ => by simp [visitExpr, numsExpr]
  | .vararg _, _ => by simp [visitExpr, numsExpr]
  | .number _ n, h => by
    simp only [pExpr] at h
    simp [visitExpr, numsExpr, ns_number h]
  | .string _ v, _ => by simp [visitExpr, numsExpr]
  | .name _ n, h => by
    simp only [pExpr] at h
    simp [visitExpr, numsExpr, ns_ident h]
  | .func _ ps body, h => by
    simp only [pExpr, Bool.and_eq_true] at h
    simp [visitExpr, numsExpr, ns_visitArgs sty hic ps (paramsOK_pArgs h.1).1, ns_block sty hic body h.2]
  | .table _ fs, h => by
    simp only [pExpr] at h
    simp [visitExpr, numsExpr, ns_visitFields sty hic fs h]
  | .binop _ o l r, h => by
    simp only [pExpr, Bool.and_eq_true] at h
    simp [visitExpr, numsExpr, apply_ite numStrP, ns_visitExpr sty hic l h.1, ns_visitExpr sty hic r h.2]
  | .unop _ u e, h => by
    simp only [pExpr] at h
    simp [visitExpr, numsExpr, apply_ite numStrP, ns_visitExpr sty hic e h]
  | .index _ l k, h => by
    simp only [pExpr, Bool.and_eq_true] at h
    simp [visitExpr, numsExpr, ns_visitExpr sty hic l h.1, ns_visitExpr sty hic k h.2]
  | .namedIndex _ l n, h => by
    simp only [pExpr, Bool.and_eq_true] at h
    simp [visitExpr, numsExpr, ns_visitExpr sty hic l h.1, ns_visitExpr sty hic n (pExpr_of_nameNode h.2)]
  | .call _ f args, h => by
    simp only [pExpr, Bool.and_eq_true] at h
    simp [visitExpr, numsExpr, ns_visitExpr sty hic f h.1, ns_visitArgs sty hic args h.2]
  | .method _ f m args, h => by
    simp only [pExpr, Bool.and_eq_true] at h
    simp [visitExpr, numsExpr, ns_visitExpr sty hic f h.1.1, ns_visitExpr sty hic m (pExpr_of_nameNode h.1.2),
      ns_visitArgs sty hic args h.2]

theorem ns_visitArgs (sty : Style) (hic : sty.includeComments = false) : (es : List Expr) → pArgs es = true →
    numStrP (visitArgs sty es) = (numsArgs es).map numberStr
  | [], _ => by simp [visitArgs, numsArgs]
  | [e], h => by
    simp only [pArgs, Bool.and_eq_true] at h
    simp [visitArgs, numsArgs, ns_visitExpr sty hic e h.1]
  | e :: e2 :: rest, h => by
    rw [pArgs, Bool.and_eq_true] at h
    rw [visitArgs, numsArgs]
    simp [ns_visitExpr sty hic e h.1, ns_visitArgs sty hic (e2 :: rest) h.2]

theorem ns_visitFields (sty : Style) (hic : sty.includeComments = false) : (fs : List Field) → pFields fs = true →
    numStrP (visitFields sty fs) = (numsFields fs).map numberStr
  | [], _ => by simp [visitFields, numsFields]
  | [f], h => by
    simp only [pFields, Bool.and_eq_true] at h
    simp [visitFields, numsFields, ns_visitField sty hic f h.1]
  | f :: f2 :: rest, h => by
    rw [pFields, Bool.and_eq_true] at h
    rw [visitFields, numsFields]
    simp [ns_visitField sty hic f h.1, ns_visitFields sty hic (f2 :: rest) h.2]

theorem ns_visitField (sty : Style) (hic : sty.includeComments = false) : (f : Field) → pField f = true →
    numStrP (visitField sty f) = (numsField f).map numberStr
  | .explicit _ k v, h => by
    simp only [pField, Bool.and_eq_true] at h
    simp [visitField, numsField, ns_visitExpr sty hic k h.1, ns_visitExpr sty hic v h.2]
  | .named _ n v, h => by
    simp only [pField, Bool.and_eq_true] at h
    simp [visitField, numsField, ns_visitExpr sty hic n (pExpr_of_nameNode h.1), ns_visitExpr sty hic v h.2]
  | .numbered _ v, h => by
    simp only [pField] at h
    simp [visitField, numsField, ns_visitExpr sty hic v h]

theorem ns_block (sty : Style) (hic : sty.includeComments = false) : (b : Block) → pBlock b = true →
    numStrP (visitBlockFull sty b) = (numsBlock b).map numberStr
  | .mk t stmts none c, h => by
    simp only [pBlock, Bool.and_true] at h
    simp [ns_visitBlockFull, bodyPieces, numsBlock, ns_visitStmts sty hic true stmts h]
  | .mk t stmts (some es) c, h => by
    simp only [pBlock, Bool.and_eq_true] at h
    simp [ns_visitBlockFull, bodyPieces, numsBlock, apply_ite numStrP,
      ns_visitStmts sty hic true stmts h.1, ns_visitArgs sty hic es h.2]

theorem ns_visitStmts (sty : Style) (hic : sty.includeComments = false) : (first : Bool) → (ss : List Stmt) →
    pStmts ss = true → numStrP (visitStmts sty first ss) = (numsStmts ss).map numberStr
  | _, [], _ => by simp [visitStmts, numsStmts]
  | first, s :: rest, h => by
    simp only [pStmts, Bool.and_eq_true] at h
    rw [visitStmts_cons, numsStmts, stmtCommentPieces_off hic]
    simp [ns_visitStmt sty hic s h.1, ns_visitStmts sty hic false rest h.2]

theorem ns_visitStmt (sty : Style) (hic : sty.includeComments = false) : (s : Stmt) → pStmt s = true →
    numStrP (visitStmt sty s) = (numsStmt s).map numberStr
  | .assign _ ts es, h => by
    simp only [pStmt, Bool.and_eq_true] at h
    simp [visitStmt, numsStmt, ns_visitTargets sty hic ts h.1.1.2, ns_visitArgs sty hic es h.2]
  | .block b, h => by
    simp only [pStmt, Bool.and_eq_true] at h
    simp [visitStmt, numsStmt, ns_block sty hic b h.2]
  | .brk _, _ => by simp [visitStmt, numsStmt]
  | .call _ f args, h => by
    simp only [pStmt, Bool.and_eq_true] at h
    simp [visitStmt, numsStmt, ns_visitExpr sty hic f h.1, ns_visitArgs sty hic args h.2]
  | .funcDef _ names none ps body, h => by
    simp only [pStmt, Bool.and_eq_true, Bool.and_true] at h
    simp [visitStmt, numsStmt, ns_visitDotted sty hic names (allNames_pArgs h.1.1.2).1,
      ns_visitArgs sty hic ps (paramsOK_pArgs h.1.2).1, ns_block sty hic body h.2]
  | .funcDef _ names (some mn) ps body, h => by
    simp only [pStmt, Bool.and_eq_true] at h
    simp [visitStmt, numsStmt, ns_visitDotted sty hic names (allNames_pArgs h.1.1.1.2).1,
      ns_visitExpr sty hic mn (pExpr_of_nameNode h.1.1.2),
      ns_visitArgs sty hic ps (paramsOK_pArgs h.1.2).1, ns_block sty hic body h.2]
  | .goto _ l, h => by
    simp only [pStmt] at h
    simp [visitStmt, numsStmt, ns_visitExpr sty hic l (pExpr_of_nameNode h)]
  | .label _ n, h => by
    simp only [pStmt] at h
    simp [visitStmt, numsStmt, ns_visitExpr sty hic n (pExpr_of_nameNode h)]
  | .iff _ test tr fl, h => by
    simp only [pStmt, Bool.and_eq_true, Bool.not_eq_true'] at h
    simp [visitStmt, numsStmt, ns_slice21 sty tr h.1.1.2, ns_visitExpr sty hic test h.1.1.1,
      ns_block sty hic tr h.1.2, ns_visitFalse sty hic fl h.2]
  | .iterFor _ ns es body, h => by
    simp only [pStmt, Bool.and_eq_true] at h
    simp [visitStmt, numsStmt, ns_visitArgs sty hic ns (allNames_pArgs h.1.1.1.1.2).1,
      ns_visitArgs sty hic es h.1.1.2, ns_block sty hic body h.2]
  | .localAssign _ names none, h => by
    simp only [pStmt, Bool.and_eq_true, Bool.and_true] at h
    simp [visitStmt, numsStmt, ns_visitAttNames names h.2]
  | .localAssign _ names (some []), h => by
    simp [pStmt] at h
  | .localAssign _ names (some (e :: rest)), h => by
    simp only [pStmt, Bool.and_eq_true] at h
    simp [visitStmt, numsStmt, ns_visitAttNames names h.1.2, ns_visitArgs sty hic (e :: rest) h.2]
  | .localFunc _ n ps body, h => by
    simp only [pStmt, Bool.and_eq_true] at h
    simp [visitStmt, numsStmt, ns_visitExpr sty hic n (pExpr_of_nameNode h.1.1),
      ns_visitArgs sty hic ps (paramsOK_pArgs h.1.2).1, ns_block sty hic body h.2]
  | .method _ f m args, h => by
    simp only [pStmt, Bool.and_eq_true] at h
    simp [visitStmt, numsStmt, ns_visitExpr sty hic f h.1.1, ns_visitExpr sty hic m (pExpr_of_nameNode h.1.2),
      ns_visitArgs sty hic args h.2]
  | .numFor _ v a b none body, h => by
    simp only [pStmt, Bool.and_eq_true, Bool.and_true] at h
    simp [visitStmt, numsStmt, ns_visitExpr sty hic v (pExpr_of_nameNode h.1.1.1.1), ns_visitExpr sty hic a h.1.1.1.2,
      ns_visitExpr sty hic b h.1.1.2, ns_block sty hic body h.2]
  | .numFor _ v a b (some st) body, h => by
    simp only [pStmt, Bool.and_eq_true] at h
    simp [visitStmt, numsStmt, ns_visitExpr sty hic v (pExpr_of_nameNode h.1.1.1.1.1),
      ns_visitExpr sty hic a h.1.1.1.1.2, ns_visitExpr sty hic b h.1.1.1.2, ns_visitExpr sty hic st h.1.1.2,
      ns_block sty hic body h.2]
  | .repeat _ c body, h => by
    simp only [pStmt, Bool.and_eq_true, Bool.not_eq_true'] at h
    simp [visitStmt, numsStmt, ns_slice21 sty body h.1.1, ns_block sty hic body h.1.2,
      ns_visitExpr sty hic c h.2]
  | .semi _, _ => by
    simp [visitStmt, numsStmt, apply_ite numStrP]
  | .whl _ c body, h => by
    simp only [pStmt, Bool.and_eq_true] at h
    simp [visitStmt, numsStmt, ns_visitExpr sty hic c h.1.1, ns_block sty hic body h.2]

theorem ns_visitFalse (sty : Style) (hic : sty.includeComments = false) : (fl : IfFalse) → pFalse fl = true →
    numStrP (visitFalse sty fl) = (numsFalse fl).map numberStr
  | .none, _ => by simp [visitFalse, numsFalse]
  | .block b, h => by
    simp only [pFalse, Bool.and_eq_true, Bool.not_eq_true'] at h
    simp [visitFalse, numsFalse, ns_slice21 sty b h.1, ns_block sty hic b h.2]
  | .elif _ test tr fl, h => by
    simp only [pFalse, Bool.and_eq_true, Bool.not_eq_true'] at h
    simp [visitFalse, numsFalse, ns_slice21 sty tr h.1.1.2, ns_visitExpr sty hic test h.1.1.1,
      ns_block sty hic tr h.1.2, ns_visitFalse sty hic fl h.2]

theorem ns_visitTargets (sty : Style) (hic : sty.includeComments = false) : (es : List Expr) → pArgs es = true →
    numStrP (visitTargets sty es) = (numsArgs es).map numberStr
  | [], _ => by simp [visitTargets, numsArgs]
  | [e], h => by
    simp only [pArgs, Bool.and_eq_true] at h
    simp [visitTargets, numsArgs, ns_visitExpr sty hic e h.1]
  | e :: e2 :: rest, h => by
    rw [pArgs, Bool.and_eq_true] at h
    rw [visitTargets, numsArgs]
    simp [ns_visitExpr sty hic e h.1, ns_visitTargets sty hic (e2 :: rest) h.2]

theorem ns_visitDotted (sty : Style) (hic : sty.includeComments = false) : (es : List Expr) → pArgs es = true →
    numStrP (visitDotted sty es) = (numsArgs es).map numberStr
  | [], _ => by simp [visitDotted, numsArgs]
  | [e], h => by
    simp only [pArgs, Bool.and_eq_true] at h
    simp [visitDotted, numsArgs, ns_visitExpr sty hic e h.1]
  | e :: e2 :: rest, h => by
    rw [pArgs, Bool.and_eq_true] at h
    rw [visitDotted, numsArgs]
    simp [ns_visitExpr sty hic e h.1, ns_visitDotted sty hic (e2 :: rest) h.2]
end

end Tumfl.Theory.NumEmit

namespace Tumfl.Theory
open Tumfl Tumfl.Model Tumfl.Theory.NumEmit

/-- the numeral pieces of the printed tree are the printed numerals of the tree, in order -/
theorem numStrP_emit (sty : Style) (hic : sty.includeComments = false) (b : Block) (hp : Printable b) :
    numStrP (emit sty b) = (numsBlock b).map numberStr := by
  unfold emit
  rw [ns_blk, ns_block sty hic b hp.2]

/-- dropping Space / Statement / Block separators does not touch the numeral pieces -/
theorem numStrP_softDrop {a b : Pieces} (h : SoftDrop a b) : numStrP a = numStrP b := by
  induction h with
  | nil => rfl
  | keep p _ ih =>
    cases p with
    | str s =>
      cases hs : isNumTk (strTk s)
      · rw [ns_str_no hs, ns_str_no hs, ih]
      · rw [ns_str_yes hs, ns_str_yes hs, ih]
    | sep k => rw [ns_sep, ns_sep, ih]
  | drop hx _ ih =>
    rcases keepRS_eq_false.mp hx with rfl | rfl | rfl <;> rw [ns_sep, ih]

end Tumfl.Theory

