import Tumfl.Theory.PrintInlinedDefs
import Tumfl.Theory.EmitCommentsBase
/-!
# Helper lemmas for `PrintInlined`: comments moved by `addComment`, the `;` guard, leading pieces
-/
namespace Tumfl.Theory
open Tumfl.Model

/-! ## `addComment` -/

theorem stmtComments_addComment (cm : List (List Char)) (s : Stmt) :
    stmtComments (addComment cm s) = cm ++ stmtComments s := by
  cases s with
  | block b => obtain ⟨t, ss, rs, c⟩ := b; simp [addComment, stmtComments, tokAddComment]
  | _ => simp [addComment, stmtComments, tokAddComment]

theorem visitStmt_addComment (sty : Style) (cm : List (List Char)) (s : Stmt) :
    visitStmt sty (addComment cm s) = visitStmt sty s := by
  cases s with
  | block b =>
    obtain ⟨t, ss, rs, c⟩ := b
    simp [addComment, visitStmt, blk, Block.isChunk, visitBlockFull_eq]
  | _ => rfl

theorem stmtCommentPieces_addComment (sty : Style) (cm : List (List Char)) (s : Stmt) :
    stmtCommentPieces sty (addComment cm s) =
      (if sty.includeComments then cm.flatMap (formatComment sty) else []) ++ stmtCommentPieces sty s := by
  unfold stmtCommentPieces
  rw [stmtComments_addComment]
  split <;> simp

/-! ## The statement loop on an appended list -/

theorem visitStmts_append (sty : Style) : ∀ (first : Bool) (xs ys : List Stmt),
    visitStmts sty first (xs ++ ys) = visitStmts sty first xs ++ visitStmts sty (first && xs.isEmpty) ys
  | first, [], ys => by simp [visitStmts]
  | first, x :: xs, ys => by
    rw [List.cons_append, visitStmts_cons, visitStmts_cons, visitStmts_append sty false xs ys]
    simp

theorem visitStmts_append_false (sty : Style) (xs ys : List Stmt) :
    visitStmts sty false (xs ++ ys) = visitStmts sty false xs ++ visitStmts sty false ys := by
  rw [visitStmts_append]; simp

/-! ## The `;` guard -/

theorem stmtGuard_true (toks : Pieces) : stmtGuard true toks = [] := by
  unfold stmtGuard; split <;> simp

theorem stmtGuard_nil (first : Bool) : stmtGuard first [] = [] := rfl

theorem stmtGuard_of_head {first : Bool} {p : Piece} {ps : Pieces} (h : p ≠ .str ['(']) :
    stmtGuard first (p :: ps) = [] := by
  unfold stmtGuard
  split
  · next heq => cases heq; exact absurd rfl h
  · rfl

theorem stmtGuard_cons (first : Bool) (p : Piece) (ps : Pieces) :
    stmtGuard first (p :: ps) = if p = .str ['('] then (if first then [] else [P ";"]) else [] := by
  unfold stmtGuard
  split
  · next heq => cases heq; simp
  · next hne =>
    rw [if_neg]
    intro h; subst h; exact hne _ rfl

theorem stmtGuard_append (first : Bool) {toks : Pieces} (h : toks ≠ []) (tail : Pieces) :
    stmtGuard first (toks ++ tail) = stmtGuard first toks := by
  cases toks with
  | nil => exact absurd rfl h
  | cons p ps => rw [List.cons_append, stmtGuard_cons, stmtGuard_cons]

/-- the first piece of a formatted comment is a text that starts with `--` -/
theorem formatComment_head (sty : Style) (c : List Char) :
    ∃ s rest, formatComment sty c = .str s :: rest ∧ s ≠ ['('] := by
  unfold formatComment
  simp only
  split
  · exact ⟨_, _, rfl, by simp⟩
  · exact ⟨_, _, rfl, by simp⟩

theorem stmtCommentPieces_head (sty : Style) (s : Stmt) :
    stmtCommentPieces sty s = [] ∨ ∃ p ps, stmtCommentPieces sty s = p :: ps ∧ p ≠ .str ['('] := by
  unfold stmtCommentPieces
  split
  · cases h : stmtComments s with
    | nil => left; rfl
    | cons c cs =>
      right
      obtain ⟨s', rest, he, hne⟩ := formatComment_head sty c
      refine ⟨.str s', rest ++ cs.flatMap (formatComment sty), by simp [he], ?_⟩
      intro h; injection h with h; exact hne h
  · left; rfl

theorem stmtCommentPieces_nil_of (sty : Style) (s : Stmt)
    (h : sty.includeComments = false ∨ stmtComments s = []) : stmtCommentPieces sty s = [] := by
  unfold stmtCommentPieces
  rcases h with h | h
  · simp [h]
  · simp [h]

/-! ## Leading `(` -/

theorem fmtVar_of_varLike {e : Expr} (h : isVarLike e = true) (ps : Pieces) : fmtVar e ps = ps := by
  unfold fmtVar; rw [if_pos h]

/-- `fmtVar e (visitExpr sty e)` does not start with `(` when `leadParenE e = false` -/
theorem fmtVar_head (sty : Style) : (e : Expr) → leadParenE e = false →
    ∃ p ps, fmtVar e (visitExpr sty e) = p :: ps ∧ p ≠ .str ['(']
  | .name _ n, h => by
    refine ⟨.str n, [], by simp [fmtVar, isVarLike, visitExpr], ?_⟩
    intro h'; injection h' with h'; subst h'; simp [leadParenE] at h
  | .index t l k, h => by
    simp only [leadParenE] at h
    obtain ⟨p, ps, he, hp⟩ := fmtVar_head sty l h
    exact ⟨p, _, by rw [fmtVar_of_varLike (e := .index t l k) rfl, visitExpr, he]; rfl, hp⟩
  | .namedIndex t l nm, h => by
    simp only [leadParenE] at h
    obtain ⟨p, ps, he, hp⟩ := fmtVar_head sty l h
    exact ⟨p, _, by rw [fmtVar_of_varLike (e := .namedIndex t l nm) rfl, visitExpr, he]; rfl, hp⟩
  | .call t l args, h => by
    simp only [leadParenE] at h
    obtain ⟨p, ps, he, hp⟩ := fmtVar_head sty l h
    exact ⟨p, _, by rw [fmtVar_of_varLike (e := .call t l args) rfl, visitExpr, he]; rfl, hp⟩
  | .method t l m args, h => by
    simp only [leadParenE] at h
    obtain ⟨p, ps, he, hp⟩ := fmtVar_head sty l h
    exact ⟨p, _, by rw [fmtVar_of_varLike (e := .method t l m args) rfl, visitExpr, he]; rfl, hp⟩
  | .nil _, h | .bool _ _, h | .vararg _, h | .number _ _, h | .string _ _, h | .func _ _ _, h | .table _ _, h
  | .binop _ _ _ _, h | .unop _ _ _, h => by simp [leadParenE] at h

/-- no guard in front of a statement with `leadParenS s = false` -/
theorem stmtGuard_of_leadParenS (sty : Style) (first : Bool) (s : Stmt) (h : leadParenS s = false) :
    stmtGuard first (visitStmt sty s) = [] := by
  cases s with
  | assign t ts es =>
    cases ts with
    | nil => simp [visitStmt, visitTargets, stmtGuard, S]
    | cons e rest =>
      simp only [leadParenS] at h
      obtain ⟨p, ps, he, hp⟩ := fmtVar_head sty e h
      cases rest with
      | nil => simp only [visitStmt, visitTargets]; rw [he]; exact stmtGuard_of_head hp
      | cons e2 rest => simp only [visitStmt, visitTargets]; rw [he]; exact stmtGuard_of_head hp
  | block b =>
    obtain ⟨t, ss, rs, c⟩ := b
    simp only [leadParenS, Block.isChunk] at h
    subst h
    simp [visitStmt, blk, Block.isChunk, visitBlockFull_eq, stmtGuard, P]
  | call t f args =>
    simp only [leadParenS] at h
    obtain ⟨p, ps, he, hp⟩ := fmtVar_head sty f h
    simp only [visitStmt]; rw [he]; exact stmtGuard_of_head hp
  | method t f m args =>
    simp only [leadParenS] at h
    obtain ⟨p, ps, he, hp⟩ := fmtVar_head sty f h
    simp only [visitStmt]; rw [he]; exact stmtGuard_of_head hp
  | semi t => simp only [visitStmt]; split <;> simp [stmtGuard, P]
  | localAssign t names es => simp [visitStmt, stmtGuard, P]
  | _ => simp [visitStmt, stmtGuard, P, S]

/-! ## Shape facts of the flattening -/

theorem kind_fcExpr (e : Expr) : (fcExpr e).kind = e.kind := by
  cases e <;> simp [fcExpr, Expr.kind]

theorem isVarLike_fcExpr (e : Expr) : isVarLike (fcExpr e) = isVarLike e := by
  cases e <;> simp [fcExpr, isVarLike]

theorem fmtVar_fcExpr (e : Expr) (ps : Pieces) : fmtVar (fcExpr e) ps = fmtVar e ps := by
  unfold fmtVar; rw [isVarLike_fcExpr]

theorem fmtFunctionArgs_fcArgs (sty : Style) (args : List Expr) (ps : Pieces) :
    fmtFunctionArgs sty (fcArgs args) ps = fmtFunctionArgs sty args ps := by
  cases args with
  | nil => simp [fcArgs]
  | cons e rest =>
    cases rest with
    | nil => cases e <;> simp [fcArgs, fcExpr, fmtFunctionArgs]
    | cons e2 rest => simp [fcArgs, fmtFunctionArgs]

theorem isChunk_fcBlock (b : Block) : (fcBlock b).isChunk = b.isChunk := by
  obtain ⟨t, ss, rs, c⟩ := b; cases rs <;> simp [fcBlock, Block.isChunk]

theorem visitBlockFull_fcBody (sty : Style) (b : Block) :
    visitBlockFull sty (fcBody b) = visitBlockFull sty (fcBlock b) := by
  obtain ⟨t, ss, rs, c⟩ := b; cases rs <;> simp [fcBody, fcBlock, visitBlockFull_eq]

theorem blk_congr {sty : Style} {b b' : Block} (h : visitBlockFull sty b' = visitBlockFull sty b)
    (hc : b'.isChunk = b.isChunk) : blk b' (visitBlockFull sty b') = blk b (visitBlockFull sty b) := by
  unfold blk; rw [h, hc]

mutual
theorem fcS_ne_nil : (s : Stmt) → fcS s ≠ []
  | .block b => by rw [fcS]; exact fcSB_ne_nil b
  | .assign .. | .brk .. | .call .. | .funcDef .. | .goto .. | .label .. | .iff .. | .iterFor ..
  | .localAssign _ _ none | .localAssign _ _ (some _) | .localFunc .. | .method .. | .numFor _ _ _ _ none _
  | .numFor _ _ _ _ (some _) _ | .repeat .. | .semi .. | .whl .. => by simp [fcS]

theorem fcSB_ne_nil : (b : Block) → fcSB b ≠ []
  | .mk t [] none true => by simp [fcSB]
  | .mk t (s :: rest) none true => by
    have := fcS_ne_nil s
    simp only [fcSB, List.isEmpty_cons, Bool.false_eq_true, if_false, fcStmts]
    cases h : fcS s with
    | nil => exact absurd h this
    | cons x xs => simp [addCommentHead]
  | .mk t ss none false => by simp [fcSB]
  | .mk t ss (some es) c => by simp [fcSB]
end

theorem fcStmts_ne_nil {ss : List Stmt} (h : ss ≠ []) : fcStmts ss ≠ [] := by
  cases ss with
  | nil => exact absurd rfl h
  | cons s rest =>
    rw [fcStmts]
    intro h'
    exact fcS_ne_nil s (List.append_eq_nil_iff.mp h').1

end Tumfl.Theory
