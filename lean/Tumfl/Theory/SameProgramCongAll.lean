import Tumfl.Theory.SameProgramCong
/-!
# Token congruence of all 18 reference parse functions (one induction on the fuel)
-/
namespace Tumfl.Theory
open Tumfl.Spec

set_option linter.unusedVariables false

/-- every reference parse function at fuel `f` commutes with the erasure of offsets and comments -/
structure AllN (f : Nat) : Prop where
  statlist : ∀ (ts : List Tok), EqN (Spec.statlist f ts) (Spec.statlist f (nz ts))
  block : ∀ (ts : List Tok), EqN (Spec.block f ts) (Spec.block f (nz ts))
  statement : ∀ (ts : List Tok), EqN (Spec.statement f ts) (Spec.statement f (nz ts))
  ifrest : ∀ (ts : List Tok), EqN (Spec.ifrest f ts) (Spec.ifrest f (nz ts))
  namelistRest : ∀ (ts : List Tok), EqN (Spec.namelistRest f ts) (Spec.namelistRest f (nz ts))
  dottedRest : ∀ (ts : List Tok), EqN (Spec.dottedRest f ts) (Spec.dottedRest f (nz ts))
  attnamelist : ∀ (ts : List Tok), EqN (Spec.attnamelist f ts) (Spec.attnamelist f (nz ts))
  restassign : ∀ (ts : List Tok), EqN (Spec.restassign f ts) (Spec.restassign f (nz ts))
  explist : ∀ (ts : List Tok), EqN (Spec.explist f ts) (Spec.explist f (nz ts))
  expr : ∀ (ts : List Tok), EqN (Spec.expr f ts) (Spec.expr f (nz ts))
  simpleexp : ∀ (ts : List Tok), EqN (Spec.simpleexp f ts) (Spec.simpleexp f (nz ts))
  suffixedexp : ∀ (ts : List Tok), EqN (Spec.suffixedexp f ts) (Spec.suffixedexp f (nz ts))
  suffixes : ∀ (e : Exp) (ts : List Tok), EqN (Spec.suffixes f e ts) (Spec.suffixes f e (nz ts))
  funcargs : ∀ (ts : List Tok), EqN (Spec.funcargs f ts) (Spec.funcargs f (nz ts))
  fields : ∀ (ts : List Tok), EqN (Spec.fields f ts) (Spec.fields f (nz ts))
  body : ∀ (ts : List Tok), EqN (Spec.body f ts) (Spec.body f (nz ts))
  parlist : ∀ (ts : List Tok), EqN (Spec.parlist f ts) (Spec.parlist f (nz ts))
  parlist1 : ∀ (ts : List Tok), EqN (Spec.parlist1 f ts) (Spec.parlist1 f (nz ts))

macro "guard_eqn" : tactic => `(tactic| with_reducible show EqN _ _)

/-- close a successful leaf -/
macro "eqn_leaf" : tactic => `(tactic| exact EqN_ok _)

syntax "eqn_step " ident : tactic
macro_rules
  | `(tactic| eqn_step $ih) => `(tactic| (guard_eqn; (try simp only [pk_nz, isSym_nz, isKw_nz, tail_nz]); first
    | with_reducible exact EqN_fuel
    | with_reducible exact EqN_perr _ _
    | with_reducible exact EqN_ok _
    | with_reducible exact EqN_expectSym _ _
    | with_reducible exact EqN_expectKw _ _
    | with_reducible exact EqN_expectName _
    | with_reducible apply ($ih).statlist
    | with_reducible apply ($ih).block
    | with_reducible apply ($ih).statement
    | with_reducible apply ($ih).ifrest
    | with_reducible apply ($ih).namelistRest
    | with_reducible apply ($ih).dottedRest
    | with_reducible apply ($ih).attnamelist
    | with_reducible apply ($ih).restassign
    | with_reducible apply ($ih).explist
    | with_reducible apply ($ih).expr
    | with_reducible apply ($ih).simpleexp
    | with_reducible apply ($ih).suffixedexp
    | with_reducible apply ($ih).suffixes
    | with_reducible apply ($ih).funcargs
    | with_reducible apply ($ih).fields
    | with_reducible apply ($ih).body
    | with_reducible apply ($ih).parlist
    | with_reducible apply ($ih).parlist1
    | (with_reducible refine EqN_bind3 ?_ (fun _ _ _ _ => ?_))
    | (with_reducible refine EqN_bind2 ?_ (fun _ _ _ => ?_))
    | (with_reducible refine EqN_bind1 ?_ (fun _ _ => ?_))
    | (with_reducible refine EqN_bind0 ?_ (fun _ => ?_))
    | with_reducible apply EqN_ite
    | split
    | eqn_leaf))
macro "eqn " ih:ident : tactic => `(tactic| repeat' eqn_step $ih)

theorem statlist_nz_step {f : Nat} (ih : AllN f) (ts : List Tok) :
    EqN (Spec.statlist (f + 1) ts) (Spec.statlist (f + 1) (nz ts)) := by
  rw [Spec.statlist, Spec.statlist]
  eqn ih

theorem block_nz_step {f : Nat} (ih : AllN f) (ts : List Tok) :
    EqN (Spec.block (f + 1) ts) (Spec.block (f + 1) (nz ts)) := by
  rw [Spec.block, Spec.block]
  eqn ih

theorem statement_nz_step {f : Nat} (ih : AllN f) (ts : List Tok) :
    EqN (Spec.statement (f + 1) ts) (Spec.statement (f + 1) (nz ts)) := by
  rw [Spec.statement, Spec.statement]
  eqn ih

theorem ifrest_nz_step {f : Nat} (ih : AllN f) (ts : List Tok) :
    EqN (Spec.ifrest (f + 1) ts) (Spec.ifrest (f + 1) (nz ts)) := by
  rw [Spec.ifrest, Spec.ifrest]
  eqn ih

theorem namelistRest_nz_step {f : Nat} (ih : AllN f) (ts : List Tok) :
    EqN (Spec.namelistRest (f + 1) ts) (Spec.namelistRest (f + 1) (nz ts)) := by
  rw [Spec.namelistRest, Spec.namelistRest]
  eqn ih

theorem dottedRest_nz_step {f : Nat} (ih : AllN f) (ts : List Tok) :
    EqN (Spec.dottedRest (f + 1) ts) (Spec.dottedRest (f + 1) (nz ts)) := by
  rw [Spec.dottedRest, Spec.dottedRest]
  eqn ih

theorem attnamelist_nz_step {f : Nat} (ih : AllN f) (ts : List Tok) :
    EqN (Spec.attnamelist (f + 1) ts) (Spec.attnamelist (f + 1) (nz ts)) := by
  rw [Spec.attnamelist, Spec.attnamelist]
  eqn ih

theorem restassign_nz_step {f : Nat} (ih : AllN f) (ts : List Tok) :
    EqN (Spec.restassign (f + 1) ts) (Spec.restassign (f + 1) (nz ts)) := by
  rw [Spec.restassign, Spec.restassign]
  eqn ih

theorem explist_nz_step {f : Nat} (ih : AllN f) (ts : List Tok) :
    EqN (Spec.explist (f + 1) ts) (Spec.explist (f + 1) (nz ts)) := by
  rw [Spec.explist, Spec.explist]
  eqn ih

theorem simpleexp_nz_step {f : Nat} (ih : AllN f) (ts : List Tok) :
    EqN (Spec.simpleexp (f + 1) ts) (Spec.simpleexp (f + 1) (nz ts)) := by
  rw [Spec.simpleexp, Spec.simpleexp]
  eqn ih

theorem suffixedexp_nz_step {f : Nat} (ih : AllN f) (ts : List Tok) :
    EqN (Spec.suffixedexp (f + 1) ts) (Spec.suffixedexp (f + 1) (nz ts)) := by
  rw [Spec.suffixedexp, Spec.suffixedexp]
  eqn ih

theorem funcargs_nz_step {f : Nat} (ih : AllN f) (ts : List Tok) :
    EqN (Spec.funcargs (f + 1) ts) (Spec.funcargs (f + 1) (nz ts)) := by
  rw [Spec.funcargs, Spec.funcargs]
  eqn ih

theorem fields_nz_step {f : Nat} (ih : AllN f) (ts : List Tok) :
    EqN (Spec.fields (f + 1) ts) (Spec.fields (f + 1) (nz ts)) := by
  rw [Spec.fields, Spec.fields]
  eqn ih

theorem body_nz_step {f : Nat} (ih : AllN f) (ts : List Tok) :
    EqN (Spec.body (f + 1) ts) (Spec.body (f + 1) (nz ts)) := by
  rw [Spec.body, Spec.body]
  eqn ih

theorem parlist_nz_step {f : Nat} (ih : AllN f) (ts : List Tok) :
    EqN (Spec.parlist (f + 1) ts) (Spec.parlist (f + 1) (nz ts)) := by
  rw [Spec.parlist, Spec.parlist]
  eqn ih

theorem parlist1_nz_step {f : Nat} (ih : AllN f) (ts : List Tok) :
    EqN (Spec.parlist1 (f + 1) ts) (Spec.parlist1 (f + 1) (nz ts)) := by
  rw [Spec.parlist1, Spec.parlist1]
  eqn ih

theorem suffixes_nz_step {f : Nat} (ih : AllN f) (e : Exp) (ts : List Tok) :
    EqN (Spec.suffixes (f + 1) e ts) (Spec.suffixes (f + 1) e (nz ts)) := by
  rw [Spec.suffixes, Spec.suffixes]
  eqn ih

theorem expr_nz_step {f : Nat} (ih : AllN f) (ts : List Tok) :
    EqN (Spec.expr (f + 1) ts) (Spec.expr (f + 1) (nz ts)) := by
  rw [Spec.expr, Spec.expr]
  exact (climb_nz ih.simpleexp (f + 1)).1 0 ts

theorem allN_zero : AllN 0 where
  statlist := fun _ => by rw [Spec.statlist, Spec.statlist]; exact EqN_fuel
  block := fun _ => by rw [Spec.block, Spec.block]; exact EqN_fuel
  statement := fun _ => by rw [Spec.statement, Spec.statement]; exact EqN_fuel
  ifrest := fun _ => by rw [Spec.ifrest, Spec.ifrest]; exact EqN_fuel
  namelistRest := fun _ => by rw [Spec.namelistRest, Spec.namelistRest]; exact EqN_fuel
  dottedRest := fun _ => by rw [Spec.dottedRest, Spec.dottedRest]; exact EqN_fuel
  attnamelist := fun _ => by rw [Spec.attnamelist, Spec.attnamelist]; exact EqN_fuel
  restassign := fun _ => by rw [Spec.restassign, Spec.restassign]; exact EqN_fuel
  explist := fun _ => by rw [Spec.explist, Spec.explist]; exact EqN_fuel
  expr := fun _ => by rw [Spec.expr, Spec.expr]; exact EqN_fuel
  simpleexp := fun _ => by rw [Spec.simpleexp, Spec.simpleexp]; exact EqN_fuel
  suffixedexp := fun _ => by rw [Spec.suffixedexp, Spec.suffixedexp]; exact EqN_fuel
  suffixes := fun _ _ => by rw [Spec.suffixes, Spec.suffixes]; exact EqN_fuel
  funcargs := fun _ => by rw [Spec.funcargs, Spec.funcargs]; exact EqN_fuel
  fields := fun _ => by rw [Spec.fields, Spec.fields]; exact EqN_fuel
  body := fun _ => by rw [Spec.body, Spec.body]; exact EqN_fuel
  parlist := fun _ => by rw [Spec.parlist, Spec.parlist]; exact EqN_fuel
  parlist1 := fun _ => by rw [Spec.parlist1, Spec.parlist1]; exact EqN_fuel

theorem allN_succ {f : Nat} (ih : AllN f) : AllN (f + 1) where
  statlist := statlist_nz_step ih
  block := block_nz_step ih
  statement := statement_nz_step ih
  ifrest := ifrest_nz_step ih
  namelistRest := namelistRest_nz_step ih
  dottedRest := dottedRest_nz_step ih
  attnamelist := attnamelist_nz_step ih
  restassign := restassign_nz_step ih
  explist := explist_nz_step ih
  expr := expr_nz_step ih
  simpleexp := simpleexp_nz_step ih
  suffixedexp := suffixedexp_nz_step ih
  suffixes := suffixes_nz_step ih
  funcargs := funcargs_nz_step ih
  fields := fields_nz_step ih
  body := body_nz_step ih
  parlist := parlist_nz_step ih
  parlist1 := parlist1_nz_step ih

theorem allN : ∀ f, AllN f
  | 0 => allN_zero
  | f + 1 => allN_succ (allN f)

/-! ## the congruence in relational form -/

/-- two token lists with the same token kinds -/
def SameTks (ts ts2 : List Tok) : Prop := ts.map (·.tk) = ts2.map (·.tk)

theorem ok_of_nzO_eq {α : Type} [NZ α] {a b : Except PErr α} (h : nzO a = nzO b) {x : α} (ha : a = .ok x) :
    ∃ y, b = .ok y ∧ NZ.nzr y = NZ.nzr x := by
  subst ha
  cases b with
  | error e => obtain ⟨m, o⟩ := e; simp [nzO] at h
  | ok y => simp only [nzO, Except.ok.injEq] at h; exact ⟨y, rfl, h.symm⟩

theorem cong_gen {α : Type} [NZ α] {X : List Tok → Except PErr α} (hX : ∀ ts, EqN (X ts) (X (nz ts)))
    {ts ts2 : List Tok} (h : SameTks ts ts2) {x : α} (ha : X ts = .ok x) : ∃ y, X ts2 = .ok y ∧ NZ.nzr y = NZ.nzr x := by
  have e1 := hX ts
  have e2 := hX ts2
  unfold EqN at e1 e2
  rw [nz_eq_of_tks h, e2] at e1
  exact ok_of_nzO_eq e1.symm ha

theorem cong1 {α : Type} {X : List Tok → Except PErr (α × List Tok)} (hX : ∀ ts, EqN (X ts) (X (nz ts)))
    {ts ts2 : List Tok} (h : SameTks ts ts2) {r : α} {rest : List Tok} (ha : X ts = .ok (r, rest)) :
    ∃ rest2, X ts2 = .ok (r, rest2) ∧ SameTks rest rest2 := by
  obtain ⟨⟨r', rest2⟩, hy, he⟩ := cong_gen hX h ha
  simp only [nzr_pair, nzr_list, Prod.mk.injEq] at he
  obtain ⟨rfl, he⟩ := he
  exact ⟨rest2, hy, tks_of_nz_eq he.symm⟩

theorem cong2 {α β : Type} {X : List Tok → Except PErr (α × β × List Tok)} (hX : ∀ ts, EqN (X ts) (X (nz ts)))
    {ts ts2 : List Tok} (h : SameTks ts ts2) {r : α} {q : β} {rest : List Tok} (ha : X ts = .ok (r, q, rest)) :
    ∃ rest2, X ts2 = .ok (r, q, rest2) ∧ SameTks rest rest2 := by
  obtain ⟨⟨r', q', rest2⟩, hy, he⟩ := cong_gen hX h ha
  simp only [nzr_pair, nzr_list, Prod.mk.injEq] at he
  obtain ⟨rfl, rfl, he⟩ := he
  exact ⟨rest2, hy, tks_of_nz_eq he.symm⟩

theorem cong3 {α β γ : Type} {X : List Tok → Except PErr (α × β × γ × List Tok)} (hX : ∀ ts, EqN (X ts) (X (nz ts)))
    {ts ts2 : List Tok} (h : SameTks ts ts2) {r : α} {q : β} {p : γ} {rest : List Tok} (ha : X ts = .ok (r, q, p, rest)) :
    ∃ rest2, X ts2 = .ok (r, q, p, rest2) ∧ SameTks rest rest2 := by
  obtain ⟨⟨r', q', p', rest2⟩, hy, he⟩ := cong_gen hX h ha
  simp only [nzr_pair, nzr_list, Prod.mk.injEq] at he
  obtain ⟨rfl, rfl, rfl, he⟩ := he
  exact ⟨rest2, hy, tks_of_nz_eq he.symm⟩

/-- **token congruence of the reference parser**: on two token lists with the same `.tk` fields every reference parse
function succeeds with the same result, and the remaining lists again have the same `.tk` fields -/
structure AllCong (f : Nat) : Prop where
  statlist : ∀ {ts ts2 ss r rest}, SameTks ts ts2 → Spec.statlist f ts = .ok (ss, r, rest) →
    ∃ rest2, Spec.statlist f ts2 = .ok (ss, r, rest2) ∧ SameTks rest rest2
  block : ∀ {ts ts2 b rest}, SameTks ts ts2 → Spec.block f ts = .ok (b, rest) →
    ∃ rest2, Spec.block f ts2 = .ok (b, rest2) ∧ SameTks rest rest2
  statement : ∀ {ts ts2 s rest}, SameTks ts ts2 → Spec.statement f ts = .ok (s, rest) →
    ∃ rest2, Spec.statement f ts2 = .ok (s, rest2) ∧ SameTks rest rest2
  ifrest : ∀ {ts ts2 elifs els rest}, SameTks ts ts2 → Spec.ifrest f ts = .ok (elifs, els, rest) →
    ∃ rest2, Spec.ifrest f ts2 = .ok (elifs, els, rest2) ∧ SameTks rest rest2
  namelistRest : ∀ {ts ts2 ns rest}, SameTks ts ts2 → Spec.namelistRest f ts = .ok (ns, rest) →
    ∃ rest2, Spec.namelistRest f ts2 = .ok (ns, rest2) ∧ SameTks rest rest2
  dottedRest : ∀ {ts ts2 ns rest}, SameTks ts ts2 → Spec.dottedRest f ts = .ok (ns, rest) →
    ∃ rest2, Spec.dottedRest f ts2 = .ok (ns, rest2) ∧ SameTks rest rest2
  attnamelist : ∀ {ts ts2 ns rest}, SameTks ts ts2 → Spec.attnamelist f ts = .ok (ns, rest) →
    ∃ rest2, Spec.attnamelist f ts2 = .ok (ns, rest2) ∧ SameTks rest rest2
  restassign : ∀ {ts ts2 es rest}, SameTks ts ts2 → Spec.restassign f ts = .ok (es, rest) →
    ∃ rest2, Spec.restassign f ts2 = .ok (es, rest2) ∧ SameTks rest rest2
  explist : ∀ {ts ts2 es rest}, SameTks ts ts2 → Spec.explist f ts = .ok (es, rest) →
    ∃ rest2, Spec.explist f ts2 = .ok (es, rest2) ∧ SameTks rest rest2
  expr : ∀ {ts ts2 e rest}, SameTks ts ts2 → Spec.expr f ts = .ok (e, rest) →
    ∃ rest2, Spec.expr f ts2 = .ok (e, rest2) ∧ SameTks rest rest2
  simpleexp : ∀ {ts ts2 e rest}, SameTks ts ts2 → Spec.simpleexp f ts = .ok (e, rest) →
    ∃ rest2, Spec.simpleexp f ts2 = .ok (e, rest2) ∧ SameTks rest rest2
  suffixedexp : ∀ {ts ts2 e rest}, SameTks ts ts2 → Spec.suffixedexp f ts = .ok (e, rest) →
    ∃ rest2, Spec.suffixedexp f ts2 = .ok (e, rest2) ∧ SameTks rest rest2
  suffixes : ∀ {e0 ts ts2 e rest}, SameTks ts ts2 → Spec.suffixes f e0 ts = .ok (e, rest) →
    ∃ rest2, Spec.suffixes f e0 ts2 = .ok (e, rest2) ∧ SameTks rest rest2
  funcargs : ∀ {ts ts2 es rest}, SameTks ts ts2 → Spec.funcargs f ts = .ok (es, rest) →
    ∃ rest2, Spec.funcargs f ts2 = .ok (es, rest2) ∧ SameTks rest rest2
  fields : ∀ {ts ts2 fs rest}, SameTks ts ts2 → Spec.fields f ts = .ok (fs, rest) →
    ∃ rest2, Spec.fields f ts2 = .ok (fs, rest2) ∧ SameTks rest rest2
  body : ∀ {ts ts2 ps va b rest}, SameTks ts ts2 → Spec.body f ts = .ok (ps, va, b, rest) →
    ∃ rest2, Spec.body f ts2 = .ok (ps, va, b, rest2) ∧ SameTks rest rest2
  parlist : ∀ {ts ts2 ps va rest}, SameTks ts ts2 → Spec.parlist f ts = .ok (ps, va, rest) →
    ∃ rest2, Spec.parlist f ts2 = .ok (ps, va, rest2) ∧ SameTks rest rest2
  parlist1 : ∀ {ts ts2 ps va rest}, SameTks ts ts2 → Spec.parlist1 f ts = .ok (ps, va, rest) →
    ∃ rest2, Spec.parlist1 f ts2 = .ok (ps, va, rest2) ∧ SameTks rest rest2

theorem allCong (f : Nat) : AllCong f where
  statlist := fun h hb => cong2 (allN f).statlist h hb
  block := fun h hb => cong1 (allN f).block h hb
  statement := fun h hb => cong1 (allN f).statement h hb
  ifrest := fun h hb => cong2 (allN f).ifrest h hb
  namelistRest := fun h hb => cong1 (allN f).namelistRest h hb
  dottedRest := fun h hb => cong1 (allN f).dottedRest h hb
  attnamelist := fun h hb => cong1 (allN f).attnamelist h hb
  restassign := fun h hb => cong1 (allN f).restassign h hb
  explist := fun h hb => cong1 (allN f).explist h hb
  expr := fun h hb => cong1 (allN f).expr h hb
  simpleexp := fun h hb => cong1 (allN f).simpleexp h hb
  suffixedexp := fun h hb => cong1 (allN f).suffixedexp h hb
  suffixes := fun h hb => cong1 ((allN f).suffixes _) h hb
  funcargs := fun h hb => cong1 (allN f).funcargs h hb
  fields := fun h hb => cong1 (allN f).fields h hb
  body := fun h hb => cong3 (allN f).body h hb
  parlist := fun h hb => cong2 (allN f).parlist h hb
  parlist1 := fun h hb => cong2 (allN f).parlist1 h hb

theorem block_cong {f : Nat} {ts ts2 : List Tok} {b : Block} {rest : List Tok} (h : ts.map (·.tk) = ts2.map (·.tk))
    (hb : Spec.block f ts = .ok (b, rest)) :
    ∃ rest2, Spec.block f ts2 = .ok (b, rest2) ∧ rest.map (·.tk) = rest2.map (·.tk) :=
  (allCong f).block h hb

end Tumfl.Theory
