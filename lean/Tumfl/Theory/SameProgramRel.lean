import Tumfl.Theory.SameProgramNorm
/-!
# The tree relation is preserved by the erasure of empty statements on both sides

`blockRel_dropSemis : BlockRel b c → BlockRel (dropSemis b) (dropEmpty c)`, by recursion on the model tree; the `paren`
constructor of `ExpRel` (the only one that is not directed by the model tree) is handled once, by `ExpRel.paren_ind`.
-/
namespace Tumfl.Theory
open Tumfl.Model

set_option linter.unusedVariables false

/-! ## parentheses -/

/-- to prove `P c` from `ExpRel e c`: prove it for the trees `c` that are not a parenthesis, and through a parenthesis -/
theorem ExpRel.paren_ind {e : Expr} {P : Spec.Exp → Prop} (h0 : ∀ c, NoParen c → ExpRel e c → P c)
    (hp : ∀ c, P c → P (.paren c)) : (c : Spec.Exp) → ExpRel e c → P c
  | .paren c, h => by
    cases h with
    | paren h => exact hp c (ExpRel.paren_ind h0 hp c h)
  | .nil, h => h0 _ trivial h
  | .tru, h => h0 _ trivial h
  | .fls, h => h0 _ trivial h
  | .vararg, h => h0 _ trivial h
  | .num _, h => h0 _ trivial h
  | .str _, h => h0 _ trivial h
  | .func _ _ _, h => h0 _ trivial h
  | .table _, h => h0 _ trivial h
  | .bin _ _ _, h => h0 _ trivial h
  | .un _ _, h => h0 _ trivial h
  | .name _, h => h0 _ trivial h
  | .index _ _, h => h0 _ trivial h
  | .dot _ _, h => h0 _ trivial h
  | .call _ _, h => h0 _ trivial h
  | .mcall _ _ _, h => h0 _ trivial h

/-! ## names, parameters and attributes are determined by the model tree -/

theorem NameRel.eq {e : Expr} {n : String} (h : NameRel e n) : n = nameS e := by
  obtain ⟨t, cs, rfl, rfl⟩ := h
  rfl

theorem OptNameRel.eq : {m : Option Expr} → {m' : Option String} → OptNameRel m m' →
    m' = (match m with | some mn => some (nameS mn) | none => none)
  | none, none, _ => rfl
  | some e, some n, h => by have := NameRel.eq h; simp only [this]
  | none, some _, h => False.elim h
  | some _, none, h => False.elim h

theorem names_eq : {es : List Expr} → {ns : List String} → Forall₂ NameRel es ns → ns = es.map nameS
  | [], _, h => by cases h; rfl
  | e :: r, _, h => by
    cases h with
    | cons h1 h2 => rw [List.map_cons, ← names_eq h2, ← h1.eq]

theorem ParamsRel.eq {ps : List Expr} {ns : List String} {va : Bool} (h : ParamsRel ps ns va) :
    (refParams ps).1 = ns ∧ (refParams ps).2 = va := by
  induction h with
  | nil => exact ⟨rfl, rfl⟩
  | vararg t => exact ⟨rfl, rfl⟩
  | cons hn _ ih =>
    obtain ⟨t, cs, rfl, rfl⟩ := hn
    simp only [refParams, ih.1, ih.2]
    exact ⟨rfl, trivial⟩

theorem AttRel.eq : {a : AttName} → {x : String × Option String} → AttRel a x → x = refAtt a
  | .mk nm att, (n, a), h => by
    obtain ⟨h1, h2⟩ := h
    have e1 := h1.eq
    have e2 := OptNameRel.eq h2
    subst e1 e2
    rfl

theorem atts_eq : {as : List AttName} → {ns : List (String × Option String)} → Forall₂ AttRel as ns → ns = as.map refAtt
  | [], _, h => by cases h; rfl
  | a :: r, _, h => by
    cases h with
    | cons h1 h2 => rw [List.map_cons, ← atts_eq h2, ← h1.eq]

/-- a `Semicolon` statement on the model side is exactly an empty statement on the reference side -/
theorem StmtRel.semi_iff {s : Stmt} {c : Spec.Stat} (h : StmtRel s c) : isSemi s = isEmptyStat c := by
  cases h <;> rfl

theorem dsArgs_ne_nil : {es : List Expr} → es ≠ [] → dsArgs es ≠ []
  | [], h => absurd rfl h
  | e :: r, _ => by simp [dsArgs]

/-! ## erasure of empty statements -/

theorem dsE_lift {e : Expr} (core : ∀ c, NoParen c → ExpRel e c → ExpRel (dsExpr e) (deExp c)) :
    ∀ c, ExpRel e c → ExpRel (dsExpr e) (deExp c) :=
  ExpRel.paren_ind (P := fun c => ExpRel (dsExpr e) (deExp c)) core (fun c ih => by simp only [deExp]; exact .paren ih)

mutual
theorem dsE_core : (e : Expr) → (c : Spec.Exp) → NoParen c → ExpRel e c → ExpRel (dsExpr e) (deExp c)
  | .nil t, c, hn, h => by
    cases h with
    | nil _ => simp only [dsExpr, deExp]; exact .nil t
    | paren _ => exact False.elim hn
  | .bool t v, c, hn, h => by
    cases h with
    | tru _ => simp only [dsExpr, deExp]; exact .tru t
    | fls _ => simp only [dsExpr, deExp]; exact .fls t
    | paren _ => exact False.elim hn
  | .vararg t, c, hn, h => by
    cases h with
    | vararg _ => simp only [dsExpr, deExp]; exact .vararg t
    | paren _ => exact False.elim hn
  | .number t n, c, hn, h => by
    cases h with
    | num _ hr => simp only [dsExpr, deExp]; exact .num t hr
    | paren _ => exact False.elim hn
  | .string t v, c, hn, h => by
    cases h with
    | str _ _ => simp only [dsExpr, deExp]; exact .str t v
    | paren _ => exact False.elim hn
  | .func t ps body, c, hn, h => by
    cases h with
    | func _ hp hb => simp only [dsExpr, deExp]; exact .func t hp (dsB body _ hb)
    | paren _ => exact False.elim hn
  | .table t fs, c, hn, h => by
    cases h with
    | table _ hf => simp only [dsExpr, deExp]; exact .table t (dsFs fs _ hf)
    | paren _ => exact False.elim hn
  | .binop t o l r, c, hn, h => by
    cases h with
    | bin _ _ hl hr =>
      simp only [dsExpr, deExp]
      exact .bin t o (dsE_lift (dsE_core l) _ hl) (dsE_lift (dsE_core r) _ hr)
    | paren _ => exact False.elim hn
  | .unop t o x, c, hn, h => by
    cases h with
    | un _ _ hx => simp only [dsExpr, deExp]; exact .un t o (dsE_lift (dsE_core x) _ hx)
    | paren _ => exact False.elim hn
  | .name t n, c, hn, h => by
    cases h with
    | name _ _ => simp only [dsExpr, deExp]; exact .name t n
    | paren _ => exact False.elim hn
  | .index t l k, c, hn, h => by
    cases h with
    | index _ hl hk =>
      simp only [dsExpr, deExp]
      exact .index t (dsE_lift (dsE_core l) _ hl) (dsE_lift (dsE_core k) _ hk)
    | paren _ => exact False.elim hn
  | .namedIndex t l nm, c, hn, h => by
    cases h with
    | dot _ hl hm => simp only [dsExpr, deExp]; exact .dot t (dsE_lift (dsE_core l) _ hl) hm
    | paren _ => exact False.elim hn
  | .call t f args, c, hn, h => by
    cases h with
    | call _ hf ha => simp only [dsExpr, deExp]; exact .call t (dsE_lift (dsE_core f) _ hf) (dsEs args _ ha)
    | paren _ => exact False.elim hn
  | .method t f m args, c, hn, h => by
    cases h with
    | mcall _ hf hm ha => simp only [dsExpr, deExp]; exact .mcall t (dsE_lift (dsE_core f) _ hf) hm (dsEs args _ ha)
    | paren _ => exact False.elim hn

theorem dsEs : (es : List Expr) → (cs : List Spec.Exp) → Forall₂ ExpRel es cs → Forall₂ ExpRel (dsArgs es) (deExps cs)
  | [], _, h => by cases h; simp only [dsArgs, deExps]; exact .nil
  | e :: r, _, h => by
    cases h with
    | cons h1 h2 => simp only [dsArgs, deExps]; exact .cons (dsE_lift (dsE_core e) _ h1) (dsEs r _ h2)

theorem dsFs : (fs : List Model.Field) → (cs : List Spec.Field) → Forall₂ FieldRel fs cs →
    Forall₂ FieldRel (dsFields fs) (deFields cs)
  | [], _, h => by cases h; simp only [dsFields, deFields]; exact .nil
  | f :: r, _, h => by
    cases h with
    | cons h1 h2 => simp only [dsFields, deFields]; exact .cons (dsF f _ h1) (dsFs r _ h2)

theorem dsF : (f : Model.Field) → (c : Spec.Field) → FieldRel f c → FieldRel (dsField f) (deField c)
  | .explicit t k v, _, h => by
    cases h with
    | keyed _ hk hv =>
      simp only [dsField, deField]
      exact .keyed t (dsE_lift (dsE_core k) _ hk) (dsE_lift (dsE_core v) _ hv)
  | .named t n v, _, h => by
    cases h with
    | named _ hn hv => simp only [dsField, deField]; exact .named t hn (dsE_lift (dsE_core v) _ hv)
  | .numbered t v, _, h => by
    cases h with
    | pos _ hv => simp only [dsField, deField]; exact .pos t (dsE_lift (dsE_core v) _ hv)

theorem dsB : (b : Model.Block) → (c : Spec.Block) → BlockRel b c → BlockRel (dsBlock b) (deBlock c)
  | .mk t ss none ch, _, h => by
    cases h with
    | blk0 _ _ hs => simp only [dsBlock, deBlock]; exact .blk0 t ch (dsSs ss _ hs)
  | .mk t ss (some es) ch, _, h => by
    cases h with
    | blk1 _ _ hs he => simp only [dsBlock, deBlock]; exact .blk1 t ch (dsSs ss _ hs) (dsEs es _ he)

theorem dsSs : (ss : List Stmt) → (cs : List Spec.Stat) → Forall₂ StmtRel ss cs →
    Forall₂ StmtRel (dsStmts ss) (deStats cs)
  | [], _, h => by cases h; simp only [dsStmts, deStats]; exact .nil
  | s :: r, _, h => by
    cases h with
    | cons h1 h2 =>
      simp only [dsStmts, deStats, ← h1.semi_iff]
      split
      · exact dsSs r _ h2
      · exact .cons (dsS s _ h1) (dsSs r _ h2)

theorem dsS : (s : Stmt) → (c : Spec.Stat) → StmtRel s c → StmtRel (dsStmt s) (deStat c)
  | .assign t ts es, _, h => by
    cases h with
    | assign _ h1 h2 => simp only [dsStmt, deStat]; exact .assign t (dsEs ts _ h1) (dsEs es _ h2)
  | .block b, _, h => by
    cases h with
    | doo hb => simp only [dsStmt, deStat]; exact .doo (dsB b _ hb)
  | .brk t, _, h => by
    cases h with
    | brk _ => simp only [dsStmt, deStat]; exact .brk t
  | .call t f args, _, h => by
    cases h with
    | call _ hf ha => simp only [dsStmt, deStat, deExp]; exact .call t (dsE_lift (dsE_core f) _ hf) (dsEs args _ ha)
  | .funcDef t names m ps body, _, h => by
    cases h with
    | func _ hns hm hp hb => simp only [dsStmt, deStat]; exact .func t hns hm hp (dsB body _ hb)
  | .goto t l, _, h => by
    cases h with
    | goto _ hl => simp only [dsStmt, deStat]; exact .goto t hl
  | .label t l, _, h => by
    cases h with
    | label _ hl => simp only [dsStmt, deStat]; exact .label t hl
  | .iff t test tr fl, _, h => by
    cases h with
    | iff _ hc ht hf =>
      simp only [dsStmt, deStat]
      exact .iff t (dsE_lift (dsE_core test) _ hc) (dsB tr _ ht) (dsFl fl _ _ hf)
  | .iterFor t ns es body, _, h => by
    cases h with
    | forin _ hns hes hb => simp only [dsStmt, deStat]; exact .forin t hns (dsEs es _ hes) (dsB body _ hb)
  | .localAssign t names none, _, h => by
    cases h with
    | locl0 _ hns => simp only [dsStmt, deStat, deExps]; exact .locl0 t hns
  | .localAssign t names (some es), _, h => by
    cases h with
    | locl1 _ hns hes hne => simp only [dsStmt, deStat]; exact .locl1 t hns (dsEs es _ hes) (dsArgs_ne_nil hne)
  | .localFunc t n ps body, _, h => by
    cases h with
    | localfunc _ hn hp hb => simp only [dsStmt, deStat]; exact .localfunc t hn hp (dsB body _ hb)
  | .method t f m args, _, h => by
    cases h with
    | mcall _ hf hm ha =>
      simp only [dsStmt, deStat, deExp]
      exact .mcall t (dsE_lift (dsE_core f) _ hf) hm (dsEs args _ ha)
  | .numFor t v a b none body, _, h => by
    cases h with
    | fornum0 _ hv ha hb hbody =>
      simp only [dsStmt, deStat]
      exact .fornum0 t hv (dsE_lift (dsE_core a) _ ha) (dsE_lift (dsE_core b) _ hb) (dsB body _ hbody)
  | .numFor t v a b (some st) body, _, h => by
    cases h with
    | fornum1 _ hv ha hb hst hbody =>
      simp only [dsStmt, deStat]
      exact .fornum1 t hv (dsE_lift (dsE_core a) _ ha) (dsE_lift (dsE_core b) _ hb) (dsE_lift (dsE_core st) _ hst)
        (dsB body _ hbody)
  | .repeat t c body, _, h => by
    cases h with
    | rep _ hc hb => simp only [dsStmt, deStat]; exact .rep t (dsE_lift (dsE_core c) _ hc) (dsB body _ hb)
  | .semi t, _, h => by
    cases h with
    | empty _ => simp only [dsStmt, deStat]; exact .empty t
  | .whl t c body, _, h => by
    cases h with
    | whl _ hc hb => simp only [dsStmt, deStat]; exact .whl t (dsE_lift (dsE_core c) _ hc) (dsB body _ hb)

theorem dsFl : (fl : IfFalse) → (elifs : List Spec.ElseIf) → (els : Option Spec.Block) → IfFalseRel fl elifs els →
    IfFalseRel (dsFalse fl) (deElifs elifs) (deOptBlock els)
  | .none, _, _, h => by
    cases h with
    | none => simp only [dsFalse, deElifs, deOptBlock]; exact .none
  | .block b, _, _, h => by
    cases h with
    | els hb => simp only [dsFalse, deElifs, deOptBlock]; exact .els (dsB b _ hb)
  | .elif t test tr fl, _, _, h => by
    cases h with
    | elif _ hc ht hf =>
      simp only [dsFalse, deElifs]
      exact .elif t (dsE_lift (dsE_core test) _ hc) (dsB tr _ ht) (dsFl fl _ _ hf)
end

/-- the erasure of empty statements on both sides preserves the tree relation -/
theorem blockRel_dropSemis {b : Model.Block} {c : Spec.Block} (h : BlockRel b c) : BlockRel (dropSemis b) (dropEmpty c) :=
  dsB b c h

end Tumfl.Theory
