import Tumfl.Theory.FormatTextDL
/-!
# Trailing commas: the guarded form of `TC`

`indent_brackets` may write a trailing comma when it spreads a table constructor over several lines.  `TC a L` (FormatTextDL.lean) says `L` is `a`
with Argument separators inserted in front of some `}` pieces; that alone would allow `{,}` or `{x,,}`.  `TCG p a L` adds the guard: a comma is only
inserted in front of a `}` when the last text piece before it (`p`; reset by an Argument separator) exists and is not `{` - i.e. the constructor is
not empty and does not already end in a separator - and only one comma is inserted.
Interface between the layout composition (`format` produces such an `L`) and the printer simulation (every reading of such an `L` parses to the tree).
-/
namespace Tumfl.Theory
open Tumfl.Model

inductive TCG : Option (List Char) → Pieces → Pieces → Prop
  | nil {p} : TCG p [] []
  | str {p} (s : List Char) {a L : Pieces} : TCG (some s) a L → TCG p (.str s :: a) (.str s :: L)
  | arg {p} {a L : Pieces} : TCG none a L → TCG p (.sep .argument :: a) (.sep .argument :: L)
  | sep {p} (k : Sep) {a L : Pieces} : k ≠ .argument → TCG p a L → TCG p (.sep k :: a) (.sep k :: L)
  | comma {s : List Char} {a L : Pieces} : s ≠ ['{'] → TCG none (.str ['}'] :: a) L →
      TCG (some s) (.str ['}'] :: a) (.sep .argument :: L)

theorem TCG.toTC : ∀ {p a L}, TCG p a L → TC a L
  | _, _, _, .nil => .nil
  | _, _, _, .str s h => .keep _ h.toTC
  | _, _, _, .arg h => .keep _ h.toTC
  | _, _, _, .sep k _ h => .keep _ h.toTC
  | _, _, _, .comma _ h => .comma h.toTC

theorem TCG.refl : ∀ (p : Option (List Char)) (a : Pieces), TCG p a a
  | _, [] => .nil
  | _, .str s :: a => .str s (TCG.refl _ a)
  | _, .sep .argument :: a => .arg (TCG.refl _ a)
  | p, .sep .statement :: a => .sep _ (by decide) (TCG.refl p a)
  | p, .sep .newline :: a => .sep _ (by decide) (TCG.refl p a)
  | p, .sep .space :: a => .sep _ (by decide) (TCG.refl p a)
  | p, .sep .dot :: a => .sep _ (by decide) (TCG.refl p a)
  | p, .sep .indent :: a => .sep _ (by decide) (TCG.refl p a)
  | p, .sep .deindent :: a => .sep _ (by decide) (TCG.refl p a)
  | p, .sep .block :: a => .sep _ (by decide) (TCG.refl p a)

end Tumfl.Theory
