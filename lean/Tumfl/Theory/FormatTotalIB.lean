import Tumfl.Theory.FormatTotalDefs
import Tumfl.Theory.FormatTextIB
import Tumfl.Theory.FormatTextGlue
/-!
# `indent_brackets` raises nothing on a well-formed piece list

`indentBrackets_total`: on a piece list whose text pieces are non-empty, whose quoted pieces end with their quote and whose
brackets are well nested, `indent_brackets` returns (no exception, no fuel exhaustion), for every style, and the result has
the same Indent / DeIndent balance.  `bal_softDrop`: dropping separators keeps the brackets well nested.
-/
namespace Tumfl.Theory.TotIB
open Tumfl Tumfl.Model Tumfl.Theory

/-! ## `indBal` -/

theorem indBal_append (a b : Pieces) : indBal (a ++ b) = indBal a + indBal b := by
  induction a with
  | nil => simp [indBal]
  | cons p a ih =>
    cases p with
    | str s => simp only [List.cons_append, indBal, ih]
    | sep x => cases x <;> simp only [List.cons_append, indBal, ih] <;> omega

theorem indBal_str (s : List Char) (r : Pieces) : indBal (.str s :: r) = indBal r := by simp only [indBal]

/-- a list of text pieces and Newlines -/
theorem indBal_plain : ∀ (ps : Pieces), (∀ p ∈ ps, p = .sep .newline ∨ ∃ s, p = .str s) → indBal ps = 0
  | [], _ => rfl
  | p :: r, h => by
    have ih := indBal_plain r (fun q hq => h q (List.mem_cons_of_mem _ hq))
    rcases h p (List.mem_cons_self) with rfl | ⟨s, rfl⟩
    · simp only [indBal, ih]
    · simp only [indBal, ih]

theorem indBal_joinSep : ∀ comps : List Pieces, indBal (joinSep .argument comps) = indBal comps.flatten
  | [] => rfl
  | [x] => by simp [joinSep]
  | x :: y :: rest => by
    have ih := indBal_joinSep (y :: rest)
    simp only [joinSep, indBal_append, List.flatten_cons] at ih ⊢
    simp only [S, indBal, ih]

theorem indBal_flatMap_arg : ∀ comps : List Pieces,
    indBal (comps.flatMap fun c => c ++ [S .argument, S .newline]) = indBal comps.flatten
  | [] => rfl
  | c :: comps => by
    simp only [List.flatMap_cons, indBal_append, List.flatten_cons, indBal_flatMap_arg comps]
    simp [S, indBal]

theorem indBal_body' (comps : List Pieces) :
    indBal (((comps.flatMap fun c => c ++ [S .argument, S .newline]).take
        ((comps.flatMap fun c => c ++ [S .argument, S .newline]).length - 2)) ++
      (comps.flatMap fun c => c ++ [S .argument, S .newline]).drop
        ((comps.flatMap fun c => c ++ [S .argument, S .newline]).length - 1)) = indBal comps.flatten := by
  rcases List.eq_nil_or_concat comps with rfl | ⟨init, c, rfl⟩
  · rfl
  · rw [List.concat_eq_append]
    have e : ((init ++ [c]).flatMap fun c => c ++ [S .argument, S .newline]) =
        ((init.flatMap fun c => c ++ [S .argument, S .newline]) ++ c) ++ [S .argument, S .newline] := by
      simp
    rw [e, take_drop_two]
    simp only [indBal_append, indBal_flatMap_arg, List.flatten_append, List.flatten_cons, List.flatten_nil]
    simp [S, indBal]

/-! ## `_string_ident` succeeds on a well-formed quoted piece -/

theorem stringIdent_ok {s : List Char} (ind : Int) (sty : Style) (h : StrOK s) (hq : isQuoted s = true) :
    ∃ ps, stringIdent s ind sty = .ok ps ∧ indBal ps = 0 := by
  have key : ∃ ps, stringIdent s ind sty = .ok ps := by
    cases s with
    | nil => simp [isQuoted] at hq
    | cons q t =>
      have hl : (q :: t).getLast? = some q := by
        have := h.2 hq
        simpa using this
      have hq' : (q == '\'' || q == '"') = true := by
        simp only [isQuoted, List.head?_cons] at hq
        simp only [Bool.or_eq_true, beq_iff_eq] at hq ⊢
        exact hq.symm
      unfold stringIdent
      simp only [List.head?_cons, hl, hq']
      simp only [Bool.not_true, bne_self_eq_false, Bool.or_self, Bool.false_eq_true, if_false]
      have ite : ∀ (c : Bool) (a b : Pieces), ∃ ps, (if c = true then (.ok a : R Pieces) else .ok b) = .ok ps := by
        intro c a b; cases c <;> exact ⟨_, rfl⟩
      exact ite _ _ _
  obtain ⟨ps, hps⟩ := key
  obtain ⟨_, _, _, _, hsh⟩ := stringIdent_shape hps
  exact ⟨ps, hps, indBal_plain ps hsh⟩

/-! ## bracket characters -/

theorem closingOf_cases {s : List Char} {o : Char} (h : closingOf s = some o) :
    (s = ['}'] ∧ o = '{') ∨ (s = [']'] ∧ o = '[') ∨ (s = [')'] ∧ o = '(') := by
  unfold closingOf at h
  split at h
  · rename_i x
    simp only [Gen.matchingBrackets, List.lookup] at h
    split at h
    · rename_i hx; simp at hx; cases h; subst hx; exact .inl ⟨rfl, by decide⟩
    · split at h
      · rename_i hx; simp at hx; cases h; subst hx; exact .inr (.inl ⟨rfl, by decide⟩)
      · split at h
        · rename_i hx; simp at hx; cases h; subst hx; exact .inr (.inr ⟨rfl, by decide⟩)
        · cases h
  · cases h

theorem closingOf_isBr {s : List Char} {o : Char} (h : closingOf s = some o) : isBr (.str s) = true := by
  rcases closingOf_cases h with ⟨rfl, _⟩ | ⟨rfl, _⟩ | ⟨rfl, _⟩ <;> decide

theorem open_isBr {o : Char} (h : isOpenCh o) : isBr (.str [o]) = true := by
  rcases h with rfl | rfl | rfl <;> decide

theorem closingOf_ne_open {s : List Char} {o op : Char} (h : closingOf s = some o) (hop : isOpenCh op) : s ≠ [op] := by
  rcases closingOf_cases h with ⟨rfl, _⟩ | ⟨rfl, _⟩ | ⟨rfl, _⟩ <;> rcases hop with rfl | rfl | rfl <;> decide

theorem closingOf_none_of_not_br {s : List Char} (h : isBr (.str s) = false) : closingOf s = none := by
  cases hc : closingOf s with
  | none => rfl
  | some o => rw [closingOf_isBr hc] at h; cases h

/-! ## the reversed view of `Bal` -/

theorem bal_snoc {seg : Pieces} (h : Bal seg) :
    seg = [] ∨ (∃ seg' p, seg = seg' ++ [p] ∧ isBr p = false ∧ Bal seg') ∨
      (∃ seg' o c inner, seg = seg' ++ .str [o] :: (inner ++ [.str c]) ∧ closingOf c = some o ∧ Bal seg' ∧ Bal inner) := by
  induction h with
  | nil => exact .inl rfl
  | @cons p r hp hr ih =>
    rcases ih with rfl | ⟨seg', q, rfl, hq, hs⟩ | ⟨seg', o, c, inner, rfl, hc, hs, hi⟩
    · exact .inr (.inl ⟨[], p, rfl, hp, .nil⟩)
    · exact .inr (.inl ⟨p :: seg', q, rfl, hq, .cons p hp hs⟩)
    · exact .inr (.inr ⟨p :: seg', o, c, inner, rfl, hc, .cons p hp hs, hi⟩)
  | @grp o c inner r hc hi hr _ ih =>
    rcases ih with rfl | ⟨seg', q, rfl, hq, hs⟩ | ⟨seg', o2, c2, inner2, rfl, hc2, hs, hi2⟩
    · exact .inr (.inr ⟨[], o, c, inner, rfl, hc, .nil, hi⟩)
    · exact .inr (.inl ⟨.str [o] :: (inner ++ .str c :: seg'), q, by simp, hq, .grp o c hc hi hs⟩)
    · exact .inr (.inr ⟨.str [o] :: (inner ++ .str c :: seg'), o2, c2, inner2, by simp, hc2, .grp o c hc hi hs, hi2⟩)

theorem strsOK_mono {a b : Pieces} (h : StrsOK b) (hsub : ∀ p ∈ a, p ∈ b) : StrsOK a :=
  fun s hs => h s (hsub _ hs)

/-! ## one step of the collecting loop -/

theorem step_open (sty : Style) (f : Nat) (openCh : Char) (ind : Int) (tail : Pieces) (comps : List Pieces) (cur : Pieces) :
    innerCollect sty (f + 1) openCh ind (.str [openCh] :: tail) comps cur =
      .ok (if cur.isEmpty then comps else cur :: comps, tail) := by
  rw [innerCollect]; simp

theorem step_closer (sty : Style) (f : Nat) {openCh : Char} (ind : Int) {s : List Char} {o2 : Char} (rest : Pieces)
    (comps : List Pieces) (cur : Pieces) (hcl : closingOf s = some o2) (hop : isOpenCh openCh) :
    innerCollect sty (f + 1) openCh ind (.str s :: rest) comps cur =
      (innerCollect.innerIndent sty f s o2 (ind + 1) rest >>= fun x =>
        innerCollect sty f openCh ind x.2 comps (x.1 ++ cur)) := by
  rw [innerCollect]
  have : (Piece.str s == .str [openCh]) = false := by simpa using closingOf_ne_open hcl hop
  simp only [this, Bool.false_eq_true, if_false, hcl]

theorem step_str {sty : Style} (f : Nat) {openCh : Char} (ind : Int) {s : List Char} (rest : Pieces)
    (comps : List Pieces) (cur : Pieces) (hbr : isBr (.str s) = false) (hop : isOpenCh openCh) :
    innerCollect sty (f + 1) openCh ind (.str s :: rest) comps cur =
      if isQuoted s then
        (stringIdent s (ind + 1) sty >>= fun ps => innerCollect sty f openCh ind rest comps (ps ++ cur))
      else innerCollect sty f openCh ind rest comps (.str s :: cur) := by
  rw [innerCollect]
  have : (Piece.str s == .str [openCh]) = false := by
    have : s ≠ [openCh] := by
      intro e; subst e; rw [open_isBr hop] at hbr; cases hbr
    simpa using this
  simp only [this, Bool.false_eq_true, if_false, closingOf_none_of_not_br hbr]

theorem step_arg (sty : Style) (f : Nat) (openCh : Char) (ind : Int) (rest : Pieces) (comps : List Pieces) (cur : Pieces) :
    innerCollect sty (f + 1) openCh ind (.sep .argument :: rest) comps cur =
      innerCollect sty f openCh ind rest (cur :: comps) [] := by
  rw [innerCollect]; simp

theorem step_sep (sty : Style) (f : Nat) (openCh : Char) (ind : Int) {x : Sep} (rest : Pieces) (comps : List Pieces)
    (cur : Pieces) (hx : x ≠ .argument) :
    innerCollect sty (f + 1) openCh ind (.sep x :: rest) comps cur =
      innerCollect sty f openCh ind rest comps (.sep x :: cur) := by
  rw [innerCollect]
  · simp
  · intro s hs; cases hs
  · intro hs; cases hs; exact hx rfl

/-! ## the collecting loop and `__inner_indent` succeed -/

/-- the collecting loop, started in front of the (reversed) well-nested segment `seg` behind its opening bracket, returns -/
def CollectFor (sty : Style) (seg : Pieces) : Prop :=
  ∀ (f : Nat) (openCh : Char) (ind : Int) (tail : Pieces) (comps : List Pieces) (cur : Pieces),
    isOpenCh openCh → seg.length + 1 ≤ f →
    ∃ components, innerCollect sty f openCh ind (seg.reverse ++ .str [openCh] :: tail) comps cur = .ok (components, tail) ∧
      indBal components.flatten = indBal seg + indBal cur + indBal comps.flatten

def IndentFor (sty : Style) (seg : Pieces) : Prop :=
  ∀ (f : Nat) (closeTok : List Char) (openCh : Char) (ind : Int) (tail : Pieces),
    closingOf closeTok = some openCh → seg.length + 2 ≤ f →
    ∃ content, innerCollect.innerIndent sty f closeTok openCh ind (seg.reverse ++ .str [openCh] :: tail) = .ok (content, tail) ∧
      indBal content = indBal seg

theorem indent_of_collect {sty : Style} {seg : Pieces} (hc : CollectFor sty seg) : IndentFor sty seg := by
  intro f closeTok openCh ind tail hcl hf
  obtain ⟨f', rfl⟩ : ∃ f', f = f' + 1 := ⟨f - 1, by omega⟩
  obtain ⟨components, hcol, hbal⟩ := hc f' openCh ind tail [] [] (closingOf_open hcl) (by omega)
  simp only [indBal, List.flatten_nil, Int.add_zero] at hbal
  rw [innerCollect.innerIndent, hcol]
  simp only [bind, Except.bind]
  split
  · refine ⟨_, rfl, ?_⟩
    simp only [indBal_append, indBal_joinSep, hbal, indBal]
    omega
  · refine ⟨_, rfl, ?_⟩
    split
    · simp only [indBal_append, indBal_flatMap_arg, hbal]
      simp only [indBal, S]
      omega
    · rw [indBal_append, indBal_append, indBal_body', hbal]
      simp only [indBal, S]
      omega

theorem collect_nil (sty : Style) : CollectFor sty [] := by
  intro f openCh ind tail comps cur _ hf
  obtain ⟨f', rfl⟩ : ∃ f', f = f' + 1 := ⟨f - 1, by omega⟩
  refine ⟨_, step_open sty f' openCh ind tail comps cur, ?_⟩
  cases cur with
  | nil => simp [indBal]
  | cons c cs =>
    simp only [List.isEmpty_cons, Bool.false_eq_true, if_false, List.flatten_cons, indBal_append, indBal]
    omega

theorem collect_all (sty : Style) : ∀ (n : Nat) (seg : Pieces), seg.length ≤ n → Bal seg → StrsOK seg → CollectFor sty seg
  | 0, seg, hn, _, _ => by
    have : seg = [] := List.eq_nil_of_length_eq_zero (by omega)
    subst this
    exact collect_nil sty
  | n + 1, seg, hn, hb, hs => by
    rcases bal_snoc hb with rfl | ⟨seg', p, rfl, hp, hb'⟩ | ⟨seg', o, c, inner, rfl, hc, hb', hbi⟩
    · exact collect_nil sty
    · -- a plain piece
      have ih := collect_all sty n seg' (by simp at hn; omega) hb' (strsOK_mono hs (fun q hq => by simp [hq]))
      intro f openCh ind tail comps cur hop hf
      obtain ⟨f', rfl⟩ : ∃ f', f = f' + 1 := ⟨f - 1, by omega⟩
      have hf' : seg'.length + 1 ≤ f' := by simp at hf; omega
      simp only [List.reverse_append, List.reverse_cons, List.reverse_nil, List.nil_append, List.cons_append,
        indBal_append]
      cases p with
      | str s =>
        rw [step_str f' ind _ comps cur hp hop]
        split
        · rename_i hq
          obtain ⟨ps, hps, hps0⟩ := stringIdent_ok (ind + 1) sty (hs s (by simp)) hq
          rw [hps]
          simp only [bind, Except.bind]
          obtain ⟨components, h1, h2⟩ := ih f' openCh ind tail comps (ps ++ cur) hop hf'
          refine ⟨components, h1, ?_⟩
          rw [h2, indBal_append, hps0]
          simp only [indBal]; omega
        · obtain ⟨components, h1, h2⟩ := ih f' openCh ind tail comps (.str s :: cur) hop hf'
          refine ⟨components, h1, ?_⟩
          rw [h2]
          simp only [indBal]; omega
      | sep x =>
        by_cases hx : x = .argument
        · subst hx
          rw [step_arg]
          obtain ⟨components, h1, h2⟩ := ih f' openCh ind tail (cur :: comps) [] hop hf'
          refine ⟨components, h1, ?_⟩
          rw [h2]
          simp only [indBal, List.flatten_cons, indBal_append]; omega
        · rw [step_sep _ _ _ _ _ _ _ hx]
          obtain ⟨components, h1, h2⟩ := ih f' openCh ind tail comps (.sep x :: cur) hop hf'
          refine ⟨components, h1, ?_⟩
          rw [h2]
          cases x <;> simp only [indBal] <;> omega
    · -- a nested bracket
      have hlen : seg'.length + inner.length + 2 ≤ n + 1 := by simp at hn; omega
      have ih1 := collect_all sty n seg' (by omega) hb' (strsOK_mono hs (fun q hq => by simp [hq]))
      have ih2 := indent_of_collect (collect_all sty n inner (by omega) hbi (strsOK_mono hs (fun q hq => by simp [hq])))
      intro f openCh ind tail comps cur hop hf
      obtain ⟨f', rfl⟩ : ∃ f', f = f' + 1 := ⟨f - 1, by omega⟩
      have hf' : seg'.length + inner.length + 2 ≤ f' := by simp at hf; omega
      have e : (seg' ++ Piece.str [o] :: (inner ++ [Piece.str c])).reverse ++ Piece.str [openCh] :: tail =
          Piece.str c :: (inner.reverse ++ Piece.str [o] :: (seg'.reverse ++ Piece.str [openCh] :: tail)) := by simp
      rw [e, step_closer sty f' ind _ comps cur hc hop]
      obtain ⟨content, h1, h2⟩ := ih2 f' c o (ind + 1) (seg'.reverse ++ .str [openCh] :: tail) hc (by omega)
      rw [h1]
      simp only [bind, Except.bind]
      obtain ⟨components, h3, h4⟩ := ih1 f' openCh ind tail comps (content ++ cur) hop (by omega)
      refine ⟨components, h3, ?_⟩
      rw [h4]
      simp only [indBal_append, indBal, h2]
      omega

theorem indent_all (sty : Style) {seg : Pieces} (hb : Bal seg) (hs : StrsOK seg) : IndentFor sty seg :=
  indent_of_collect (collect_all sty seg.length seg (Nat.le_refl _) hb hs)

/-! ## the outer loop -/

theorem rev_all (sty : Style) : ∀ (n : Nat) (ts : Pieces), ts.length ≤ n → Bal ts → StrsOK ts →
    ∀ (f : Nat) (ind : Int) (acc : Pieces), ts.length + 1 ≤ f →
    ∃ out, indentBracketsRev sty f ts.reverse ind acc = .ok out ∧ indBal out = indBal ts + indBal acc
  | 0, ts, hn, _, _ => by
    have : ts = [] := List.eq_nil_of_length_eq_zero (by omega)
    subst this
    intro f ind acc hf
    obtain ⟨f', rfl⟩ : ∃ f', f = f' + 1 := ⟨f - 1, by omega⟩
    refine ⟨acc, by rw [List.reverse_nil, indentBracketsRev], by simp [indBal]⟩
  | n + 1, ts, hn, hb, hs => by
    intro f ind acc hf
    obtain ⟨f', rfl⟩ : ∃ f', f = f' + 1 := ⟨f - 1, by omega⟩
    rcases bal_snoc hb with rfl | ⟨seg', p, rfl, hp, hb'⟩ | ⟨seg', o, c, inner, rfl, hc, hb', hbi⟩
    · refine ⟨acc, by rw [List.reverse_nil, indentBracketsRev], by simp [indBal]⟩
    · have ih := rev_all sty n seg' (by simp at hn; omega) hb' (strsOK_mono hs (fun q hq => by simp [hq]))
      have hf' : seg'.length + 1 ≤ f' := by simp at hf; omega
      simp only [List.reverse_append, List.reverse_cons, List.reverse_nil, List.nil_append, List.cons_append,
        indBal_append]
      cases p with
      | str s =>
        rw [indentBracketsRev]
        simp only [closingOf_none_of_not_br hp]
        split
        · rename_i hq
          obtain ⟨ps, hps, hps0⟩ := stringIdent_ok ind sty (hs s (by simp)) hq
          rw [hps]
          simp only [bind, Except.bind]
          obtain ⟨out, h1, h2⟩ := ih f' ind (ps ++ acc) hf'
          refine ⟨out, h1, ?_⟩
          rw [h2, indBal_append, hps0]
          simp only [indBal]; omega
        · obtain ⟨out, h1, h2⟩ := ih f' ind (.str s :: acc) hf'
          refine ⟨out, h1, ?_⟩
          rw [h2]
          simp only [indBal]; omega
      | sep x =>
        have key : ∃ ind', indentBracketsRev sty (f' + 1) (.sep x :: seg'.reverse) ind acc =
            indentBracketsRev sty f' seg'.reverse ind' (.sep x :: acc) := by
          cases x <;> simp only [indentBracketsRev] <;> exact ⟨_, rfl⟩
        obtain ⟨ind', e⟩ := key
        rw [e]
        obtain ⟨out, h1, h2⟩ := ih f' ind' (.sep x :: acc) hf'
        refine ⟨out, h1, ?_⟩
        rw [h2]
        cases x <;> simp only [indBal] <;> omega
    · have hlen : seg'.length + inner.length + 2 ≤ n + 1 := by simp at hn; omega
      have ih1 := rev_all sty n seg' (by omega) hb' (strsOK_mono hs (fun q hq => by simp [hq]))
      have ih2 := indent_all sty hbi (strsOK_mono hs (fun q hq => by simp [hq]))
      have hf' : seg'.length + inner.length + 2 ≤ f' := by simp at hf; omega
      have e : (seg' ++ Piece.str [o] :: (inner ++ [Piece.str c])).reverse =
          Piece.str c :: (inner.reverse ++ Piece.str [o] :: seg'.reverse) := by simp
      rw [e, indentBracketsRev]
      simp only [hc]
      obtain ⟨content, h1, h2⟩ := ih2 ((inner.reverse ++ Piece.str [o] :: seg'.reverse).length + 2) c o ind seg'.reverse hc
        (by simp)
      rw [h1]
      simp only [bind, Except.bind]
      obtain ⟨out, h3, h4⟩ := ih1 f' ind (content ++ acc) (by omega)
      refine ⟨out, h3, ?_⟩
      rw [h4]
      simp only [indBal_append, indBal, h2]
      omega

/-! ## dropping separators -/

theorem softDrop_split : ∀ {u v b : Pieces}, SoftDrop (u ++ v) b → ∃ b1 b2, b = b1 ++ b2 ∧ SoftDrop u b1 ∧ SoftDrop v b2
  | [], v, b, h => ⟨[], b, rfl, .nil, h⟩
  | p :: u, v, b, h => by
    cases h with
    | keep _ h' =>
      obtain ⟨b1, b2, rfl, h1, h2⟩ := softDrop_split h'
      exact ⟨p :: b1, b2, rfl, .keep p h1, h2⟩
    | drop hx h' =>
      obtain ⟨b1, b2, rfl, h1, h2⟩ := softDrop_split h'
      exact ⟨b1, b2, rfl, .drop hx h1, h2⟩

theorem softDrop_str {s : List Char} {a b : Pieces} (h : SoftDrop (.str s :: a) b) : ∃ b', b = .str s :: b' ∧ SoftDrop a b' := by
  cases h with
  | keep _ h' => exact ⟨_, rfl, h'⟩
  | drop hx _ => simp [keepRS, S] at hx

theorem keepRS_not_br {x : Piece} (h : keepRS x = false) : isBr x = false := by
  rcases keepRS_eq_false.mp h with rfl | rfl | rfl <;> rfl

theorem bal_softDrop_aux {a : Pieces} (hb : Bal a) : ∀ {b : Pieces}, SoftDrop a b → Bal b := by
  induction hb with
  | nil => intro b h; cases h; exact .nil
  | @cons p r hp hr ih =>
    intro b h
    cases h with
    | keep _ h' => exact .cons p hp (ih h')
    | drop hx h' => exact ih h'
  | @grp o c inner r hc hi hr ihi ihr =>
    intro b h
    obtain ⟨b', rfl, h'⟩ := softDrop_str h
    obtain ⟨b1, b2, rfl, h1, h2⟩ := softDrop_split h'
    obtain ⟨b3, rfl, h3⟩ := softDrop_str h2
    exact .grp o c hc (ihi h1) (ihr h3)

end Tumfl.Theory.TotIB

namespace Tumfl.Theory
open Tumfl Tumfl.Model

/-- `indent_brackets` raises nothing and runs out of no fuel on a piece list whose text pieces are non-empty, whose quoted pieces end with
their quote, and whose brackets are well nested - for every style (any line width, any indentation); and it keeps the balance of
Indent / DeIndent -/
theorem indentBrackets_total (sty : Style) (ts : Pieces) (hs : StrsOK ts) (hb : Bal ts) :
    ∃ ts', indentBrackets ts sty = .ok ts' ∧ indBal ts' = indBal ts := by
  obtain ⟨out, h1, h2⟩ := TotIB.rev_all sty ts.length ts (Nat.le_refl _) hb hs (ts.length + 1) 0 [] (Nat.le_refl _)
  exact ⟨out, h1, by rw [h2]; simp [indBal]⟩

/-- dropping separators keeps the brackets well nested -/
theorem bal_softDrop {a b : Pieces} (h : SoftDrop a b) (hb : Bal a) : Bal b :=
  TotIB.bal_softDrop_aux hb h

end Tumfl.Theory

