import Tumfl.Theory.PrintSimBlock3
/-!
# The mutual induction over the tree
-/
namespace Tumfl.Theory
open Tumfl.Model Tumfl.Spec

variable {semi : Bool} {sty : Style}

theorem pArgs_mem : (es : List Expr) → pArgs es = true → ∀ e ∈ es, pExpr e = true
  | [], _ => by simp
  | e :: r, h => by
    simp only [pArgs, Bool.and_eq_true] at h
    intro x hx
    rcases List.mem_cons.mp hx with rfl | hx
    · exact h.1
    · exact pArgs_mem r h.2 x hx

mutual
theorem xprop (semi : Bool) (sty : Style) : (e : Expr) → pExpr e = true → XProp semi sty e
  | .nil t, _ => X_of_E rfl (by intro _ _ h; cases h) (nil_E t)
  | .bool t v, _ => X_of_E rfl (by intro _ _ h; cases h) (bool_E t v)
  | .vararg t, _ => X_of_E rfl (by intro _ _ h; cases h) (vararg_E t)
  | .number t n, h => X_of_E rfl (by intro _ _ h; cases h) (number_E t n (by simpa [pExpr] using h))
  | .string t v, _ => X_of_E rfl (by intro _ _ h; cases h) (string_E t v)
  | .func t ps body, h => by
    simp only [pExpr, Bool.and_eq_true] at h
    exact X_of_E rfl (by intro _ _ h; cases h) (func_E h.1 (xblock semi sty body h.2))
  | .table t fs, h => by
    simp only [pExpr] at h
    exact X_table (fields_of_all fs (xfields semi sty fs h))
  | .binop t o l r, h => by
    simp only [pExpr, Bool.and_eq_true] at h
    exact X_of_E rfl (by intro _ _ h; cases h) (binop_step (xprop semi sty l h.1).E (xprop semi sty r h.2).E)
  | .unop t u x, h => by
    simp only [pExpr] at h
    exact X_of_E rfl (by intro _ _ h; cases h) (unop_step (xprop semi sty x h).E)
  | .name t n, h => X_of_P rfl h (name_P t n (by simpa [pExpr] using h))
  | .index t l k, h => by
    have h' := h
    simp only [pExpr, Bool.and_eq_true] at h
    exact X_of_P rfl h' (index_P h.1 (xprop semi sty l h.1) (xprop semi sty k h.2).E)
  | .namedIndex t l nm, h => by
    have h' := h
    simp only [pExpr, Bool.and_eq_true] at h
    exact X_of_P rfl h' (namedIndex_P h.1 (xprop semi sty l h.1) h.2)
  | .call t f args, h => by
    have h' := h
    simp only [pExpr, Bool.and_eq_true] at h
    exact X_of_P rfl h' (call_P h.1 (xprop semi sty f h.1) h.2 (xargs semi sty args h.2))
  | .method t f m args, h => by
    have h' := h
    simp only [pExpr, Bool.and_eq_true] at h
    exact X_of_P rfl h' (method_P h.1.1 (xprop semi sty f h.1.1) h.1.2 h.2 (xargs semi sty args h.2))

theorem xargs (semi : Bool) (sty : Style) : (es : List Expr) → pArgs es = true → ∀ e ∈ es, XProp semi sty e
  | [], _ => by simp
  | e :: r, h => by
    simp only [pArgs, Bool.and_eq_true] at h
    intro x hx
    rcases List.mem_cons.mp hx with heq | hx
    · rw [heq]; exact xprop semi sty e h.1
    · exact xargs semi sty r h.2 x hx

theorem xfields (semi : Bool) (sty : Style) : (fs : List Model.Field) → pFields fs = true → ∀ f ∈ fs, FieldProp semi sty f
  | [], _ => by simp
  | f :: r, h => by
    simp only [pFields, Bool.and_eq_true] at h
    intro x hx
    rcases List.mem_cons.mp hx with heq | hx
    · rw [heq]; exact xfield semi sty f h.1
    · exact xfields semi sty r h.2 x hx

theorem xfield (semi : Bool) (sty : Style) : (f : Model.Field) → pField f = true → FieldProp semi sty f
  | .explicit t k v, h => by
    simp only [pField, Bool.and_eq_true] at h
    exact explicit_F (xprop semi sty k h.1).E (xprop semi sty v h.2).E
  | .named t n v, h => by
    simp only [pField, Bool.and_eq_true] at h
    exact named_F h.1 (xprop semi sty v h.2).E
  | .numbered t v, h => by
    simp only [pField] at h
    exact numbered_F h (xprop semi sty v h).E

theorem xblock (semi : Bool) (sty : Style) : (b : Model.Block) → pBlock b = true → BlockProp semi sty b
  | .mk t ss none c, h => by
    simp only [pBlock, Bool.and_true] at h
    exact block_step (xstmts semi sty ss h) (by intro es he; cases he)
  | .mk t ss (some es) c, h => by
    simp only [pBlock, Bool.and_eq_true] at h
    exact block_step (xstmts semi sty ss h.1) (by intro es' he; cases he; exact ⟨h.2, xargs semi sty es h.2⟩)

theorem xstmts (semi : Bool) (sty : Style) : (ss : List Stmt) → pStmts ss = true →
    ∀ s ∈ ss, pStmt s = true ∧ StmtProp semi sty s
  | [], _ => by simp
  | s :: r, h => by
    simp only [pStmts, Bool.and_eq_true] at h
    intro x hx
    rcases List.mem_cons.mp hx with heq | hx
    · rw [heq]; exact ⟨h.1, xstmt semi sty s h.1⟩
    · exact xstmts semi sty r h.2 x hx

theorem xstmt (semi : Bool) (sty : Style) : (s : Stmt) → pStmt s = true → StmtProp semi sty s
  | .assign t [] es, h => by simp [pStmt] at h
  | .assign t (e :: r) es, h => by
    simp only [pStmt, Bool.and_eq_true, Bool.not_eq_true', List.isEmpty_eq_false_iff, List.all_cons] at h
    obtain ⟨⟨⟨⟨_, hts⟩, hp⟩, hes⟩, hpe⟩ := h
    have hx := xargs semi sty (e :: r) hp
    have hpm := pArgs_mem (e :: r) hp
    refine assign_S ⟨hts.1, hpm e (by simp), hx e (by simp)⟩ ?_ hes (xargs semi sty es hpe)
    intro x hxr
    exact ⟨List.all_eq_true.mp hts.2 x hxr, hpm x (by simp [hxr]), hx x (by simp [hxr])⟩
  | .block b, h => by
    simp only [pStmt, Bool.and_eq_true, Bool.not_eq_true'] at h
    exact block_S h.1 (xblock semi sty b h.2)
  | .brk t, _ => brk_S t
  | .call t f args, h => by
    simp only [pStmt, Bool.and_eq_true] at h
    exact call_S h.1 (xprop semi sty f h.1) h.2 (xargs semi sty args h.2)
  | .funcDef t [] m ps body, h => by simp [pStmt] at h
  | .funcDef t (n :: ns) m ps body, h => by
    simp only [pStmt, Bool.and_eq_true, List.all_cons] at h
    obtain ⟨⟨⟨⟨_, hn⟩, hm⟩, hp⟩, hb⟩ := h
    refine funcDef_S hn.1 hn.2 ?_ hp (xblock semi sty body hb)
    intro x hx; subst hx; exact hm
  | .goto t l, h => goto_S t (by simpa [pStmt] using h)
  | .label t l, h => label_S t (by simpa [pStmt] using h)
  | .iff t test tr fl, h => by
    simp only [pStmt, Bool.and_eq_true, Bool.not_eq_true'] at h
    exact iff_S (xprop semi sty test h.1.1.1).E h.1.1.2 (xblock semi sty tr h.1.2) (xfalse semi sty fl h.2)
  | .iterFor t [] es body, h => by simp [pStmt] at h
  | .iterFor t (n :: ns) es body, h => by
    simp only [pStmt, Bool.and_eq_true, Bool.not_eq_true', List.isEmpty_eq_false_iff, List.all_cons] at h
    obtain ⟨⟨⟨⟨⟨_, hn⟩, hes⟩, hpe⟩, hc⟩, hb⟩ := h
    exact iterFor_S hn.1 hn.2 hes (xargs semi sty es hpe) hc (xblock semi sty body hb)
  | .localAssign t names none, h => by
    simp only [pStmt, Bool.and_eq_true, Bool.not_eq_true', List.isEmpty_eq_false_iff, Bool.and_true] at h
    exact localAssign_S h.1 h.2 (by intro l hl; cases hl)
  | .localAssign t names (some []), h => by simp [pStmt] at h
  | .localAssign t names (some (e :: r)), h => by
    simp only [pStmt, Bool.and_eq_true, Bool.not_eq_true', List.isEmpty_eq_false_iff] at h
    refine localAssign_S h.1.1 h.1.2 ?_
    intro l hl; cases hl
    exact ⟨by simp, xargs semi sty (e :: r) h.2⟩
  | .localFunc t n ps body, h => by
    simp only [pStmt, Bool.and_eq_true] at h
    exact localFunc_S h.1.1 h.1.2 (xblock semi sty body h.2)
  | .method t f m args, h => by
    simp only [pStmt, Bool.and_eq_true] at h
    exact method_S h.1.1 (xprop semi sty f h.1.1) h.1.2 h.2 (xargs semi sty args h.2)
  | .numFor t v a b none body, h => by
    simp only [pStmt, Bool.and_eq_true, Bool.not_eq_true', Bool.and_true] at h
    obtain ⟨⟨⟨⟨hv, ha⟩, hb⟩, hc⟩, hbody⟩ := h
    exact numFor_S hv (xprop semi sty a ha).E (xprop semi sty b hb).E (by intro s hs; cases hs) hc (xblock semi sty body hbody)
  | .numFor t v a b (some st) body, h => by
    simp only [pStmt, Bool.and_eq_true, Bool.not_eq_true'] at h
    obtain ⟨⟨⟨⟨⟨hv, ha⟩, hb⟩, hs⟩, hc⟩, hbody⟩ := h
    exact numFor_S hv (xprop semi sty a ha).E (xprop semi sty b hb).E
      (by intro s hs'; cases hs'; exact (xprop semi sty st hs).E) hc (xblock semi sty body hbody)
  | .repeat t c body, h => by
    simp only [pStmt, Bool.and_eq_true, Bool.not_eq_true'] at h
    exact repeat_S (xprop semi sty c h.2).E h.1.1 (xblock semi sty body h.1.2)
  | .semi t, _ => semi_S t
  | .whl t c body, h => by
    simp only [pStmt, Bool.and_eq_true, Bool.not_eq_true'] at h
    exact whl_S (xprop semi sty c h.1.1).E h.1.2 (xblock semi sty body h.2)

theorem xfalse (semi : Bool) (sty : Style) : (fl : IfFalse) → pFalse fl = true → FalseProp semi sty fl
  | .none, _ => none_Fl
  | .block b, h => by
    simp only [pFalse, Bool.and_eq_true, Bool.not_eq_true'] at h
    exact else_Fl h.1 (xblock semi sty b h.2)
  | .elif t test tr fl, h => by
    simp only [pFalse, Bool.and_eq_true, Bool.not_eq_true'] at h
    exact elif_Fl (xprop semi sty test h.1.1.1).E h.1.1.2 (xblock semi sty tr h.1.2) (xfalse semi sty fl h.2)
end

end Tumfl.Theory
