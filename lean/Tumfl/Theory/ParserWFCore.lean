import Tumfl.Theory.ParserWFTok
import Tumfl.Theory.ParserWFLadder
import Tumfl.Theory.HintsCore
/-!
# A weakest-precondition calculus for the model parser, with the token invariant as state invariant

`WP m Q s` : running `m` in state `s` either succeeds with a result `a` and a state `s'` such that
`Q a s'`, or fails with an error that is not an `AssertionError`.
`PSpec m W` : started in a state satisfying `StOK`, `m` ends in such a state with a result satisfying `W`.
-/
namespace Tumfl.Theory
open Tumfl.Model Tumfl.Spec

/-- the error predicate: anything but an `AssertionError` -/
def NoAssert (e : PyErr) : Prop := ∀ site, e ≠ .py "AssertionError" site

theorem NoAssert_fuel : NoAssert .fuel := by intro _ h; cases h
theorem NoAssert_parser (m : String) (t : Token) (hs : List Hint) : NoAssert (.parser m t hs) := by intro _ h; cases h
theorem NoAssert_index (site : String) : NoAssert (.py "IndexError" site) := by
  intro s h
  injection h with h1 _
  exact absurd h1 (by decide)
theorem NoAssert_lex {cfg : LexCfg} {s : LexSt} {e : PyErr} (h : getNextToken cfg s = .error e) : NoAssert e := by
  intro site he
  subst he
  exact getNextToken_no_assertion cfg s site h

/-- the parser-state invariant: both buffered tokens satisfy the token invariant -/
def StOK (s : PSt) : Prop := TokOK s.cur ∧ TokOK s.nxt

variable {α β : Type}

structure WP (m : PM α) (Q : α → PSt → Prop) (s : PSt) : Prop where
  run : match m s with
    | .ok (a, s') => Q a s'
    | .error e => NoAssert e

theorem WP_iff {m : PM α} {Q : α → PSt → Prop} {s : PSt} :
    WP m Q s ↔ (match m s with | .ok (a, s') => Q a s' | .error e => NoAssert e) := ⟨fun h => h.run, fun h => ⟨h⟩⟩

/-- `m` keeps `StOK` and delivers a result satisfying `W` -/
def PSpec (m : PM α) (W : α → Prop) : Prop := ∀ s, StOK s → WP m (fun a s' => StOK s' ∧ W a) s

theorem WP_bind {m : PM α} {k : α → PM β} {Q : β → PSt → Prop} {s : PSt}
    (h : WP m (fun a s' => WP (k a) Q s') s) : WP (m >>= k) Q s := by
  have h := h.run
  cases hm : m s with
  | error e => rw [hm] at h; exact ⟨by rw [bind_err hm]; exact h⟩
  | ok r => obtain ⟨a, s1⟩ := r; rw [hm] at h; exact ⟨by rw [bind_ok hm]; exact h.run⟩

theorem WP_call {m : PM α} {Q' Q : α → PSt → Prop} {s : PSt}
    (h : WP m Q' s) (hq : ∀ a s', Q' a s' → Q a s') : WP m Q s := by
  have h := h.run
  constructor
  cases hm : m s with
  | error e => rw [hm] at h; exact h
  | ok r => obtain ⟨a, s1⟩ := r; rw [hm] at h; exact hq _ _ h

theorem WP_pure {a : α} {Q : α → PSt → Prop} {s : PSt} (h : Q a s) : WP (pure a : PM α) Q s := ⟨h⟩

theorem WP_ite {c : Prop} [Decidable c] {a b : PM α} {Q : α → PSt → Prop} {s : PSt}
    (ha : c → WP a Q s) (hb : ¬ c → WP b Q s) : WP (if c then a else b) Q s := by
  split
  · exact ha ‹_›
  · exact hb ‹_›

/-- a branch condition, kept opaque for `simp` (it is about token types, never about the tree) -/
def Cond (p : Prop) : Prop := p

theorem WP_ite' {c : Prop} [Decidable c] {a b : PM α} {Q : α → PSt → Prop} {s : PSt}
    (ha : Cond c → WP a Q s) (hb : Cond (¬ c) → WP b Q s) : WP (if c then a else b) Q s := WP_ite ha hb

theorem Cond.elim {p : Prop} (h : Cond p) : p := h

theorem WP_map {γ : Type} {m : PM α} {g : α → γ} {Q : γ → PSt → Prop} {s : PSt}
    (h : WP m (fun a s' => Q (g a) s') s) : WP (g <$> m) Q s := by
  have h := h.run
  constructor
  cases hm : m s with
  | error e => rw [hm] at h; simp [Functor.map, StateT.map, hm, bind, Except.bind]; exact h
  | ok r => obtain ⟨a, s1⟩ := r; rw [hm] at h; simp [Functor.map, StateT.map, hm, bind, Except.bind, pure, Except.pure]; exact h

theorem WP_curTok {Q : Token → PSt → Prop} {s : PSt} (h : Q s.cur s) : WP curTok Q s := ⟨h⟩
theorem WP_nxtTok {Q : Token → PSt → Prop} {s : PSt} (h : Q s.nxt s) : WP nxtTok Q s := ⟨h⟩
theorem WP_curIs {t : TT} {Q : Bool → PSt → Prop} {s : PSt} (h : Q (s.cur.type == t) s) : WP (curIs t) Q s := ⟨h⟩

theorem WP_perror {msg : String} {tok : Token} {Q : α → PSt → Prop} {s : PSt} : WP (perror msg tok : PM α) Q s :=
  ⟨NoAssert_parser _ _ _⟩

theorem WP_fuelErrP {Q : α → PSt → Prop} {s : PSt} : WP (fuelErrP : PM α) Q s := ⟨NoAssert_fuel⟩

/-- read off a successful run -/
theorem WP_ok {m : PM α} {Q : α → PSt → Prop} {s s' : PSt} {a : α} (h : WP m Q s) (hm : m s = .ok (a, s')) : Q a s' := by
  have h := h.run; rw [hm] at h; exact h

theorem WP_err {m : PM α} {Q : α → PSt → Prop} {s : PSt} {e : PyErr} (h : WP m Q s) (hm : m s = .error e) : NoAssert e := by
  have h := h.run; rw [hm] at h; exact h

/-! ## primitives -/

theorem PSpec_fuelErrP {W : α → Prop} : PSpec (fuelErrP : PM α) W := fun _ _ => WP_fuelErrP

theorem PSpec_addHint (wher what : String) : PSpec (addHint wher what) (fun _ => True) :=
  fun _ hs => ⟨⟨hs, trivial⟩⟩

theorem PSpec_removeHint : PSpec removeHint (fun _ => True) := by
  intro s hs
  by_cases h : s.hints.isEmpty = true
  · constructor; simp only [removeHint, h, if_true]; exact NoAssert_index _
  · constructor; simp only [removeHint, h]; exact ⟨hs, trivial⟩

theorem PSpec_switchHint (what : String) : PSpec (switchHint what) (fun _ => True) := by
  intro s hs
  cases h : s.hints.getLast? with
  | none => constructor; simp only [switchHint, h]; exact NoAssert_index _
  | some x => constructor; simp only [switchHint, h]; exact ⟨hs, trivial⟩

/-- `_assert`: on success the current token has the asserted type -/
theorem WP_assertTok (t : TT) (s : PSt) : WP (assertTok t) (fun _ s' => s' = s ∧ s.cur.type = t) s := by
  constructor
  unfold assertTok
  by_cases h : (s.cur.type != t) = true
  · simp only [h, if_true]; exact NoAssert_parser _ _ _
  · simp only [h]
    exact ⟨rfl, by simpa using h⟩

theorem PSpec_assertTok (t : TT) : PSpec (assertTok t) (fun _ => True) := by
  intro s hs
  refine WP_call (WP_assertTok t s) ?_
  rintro _ _ ⟨rfl, _⟩
  exact ⟨hs, trivial⟩

/-- the state invariant is preserved by `_eat_token` -/
theorem PSpec_eatRaw : PSpec eatRaw (fun _ => True) := by
  intro s hs
  constructor
  unfold eatRaw
  cases h : getNextToken s.cfg s.lex with
  | error e => exact NoAssert_lex h
  | ok r =>
    obtain ⟨t, lx⟩ := r
    exact ⟨⟨hs.2, getNextToken_tokOK h⟩, trivial⟩

theorem PSpec_eat (t : Option TT) : PSpec (eat t) (fun _ => True) := by
  intro s hs
  unfold eat
  cases t with
  | none => exact PSpec_eatRaw s hs
  | some ty =>
    refine WP_bind (WP_call (PSpec_assertTok ty s hs) ?_)
    intro _ s' h
    exact PSpec_eatRaw s' h.1

/-- successful-run forms -/
theorem eatRaw_StOK {s s' : PSt} (hs : StOK s) (h : eatRaw s = .ok ((), s')) : StOK s' :=
  (WP_ok (PSpec_eatRaw s hs) h).1

theorem eat_StOK {t : Option TT} {s s' : PSt} (hs : StOK s) (h : eat t s = .ok ((), s')) : StOK s' :=
  (WP_ok (PSpec_eat t s hs) h).1

theorem eatRaw_no_assertion (s : PSt) (site : String) : eatRaw s ≠ .error (.py "AssertionError" site) := by
  unfold eatRaw
  cases h : getNextToken s.cfg s.lex with
  | error e => intro he; cases he; exact getNextToken_no_assertion _ _ _ h
  | ok r => intro he; cases he

theorem letter_nameOK {c : Char} {cs : List Char} (h : Gen.letter.contains c = true) : nameOK (c :: cs) = true := by
  have hne := letter_ne_minus c (mem_of_contains h)
  have : ¬ '-' = c := fun e => hne e.symm
  simp [nameOK, startsWith, isPrefix, this]

/-- `__eat_name` yields a `Name` node whose text does not look like a comment -/
theorem PSpec_eatName : PSpec eatName (fun r => wfExpr r = true ∧ nameOK (nameStr r) = true) := by
  intro s hs
  unfold eatName
  refine WP_bind (WP_curTok ?_)
  unfold eat
  refine WP_bind (WP_bind (WP_call (WP_assertTok .NAME s) ?_))
  rintro _ _ ⟨rfl, hty⟩
  refine WP_call (PSpec_eatRaw _ hs) ?_
  intro _ s' h
  refine WP_pure ⟨h.1, ?_⟩
  obtain ⟨c, cs, hstr, hl, _⟩ := hs.1.2.2 hty
  simp only [wfExpr, nameStr, hstr, letter_nameOK hl, and_self]

/-! ## `initParser` -/

theorem initParser_StOK {cfg : LexCfg} {text : List Char} {s0 : PSt} (h : initParser cfg text = .ok s0) : StOK s0 := by
  unfold initParser at h
  split at h
  · cases h
  · next t1 l1 h1 =>
    split at h
    · cases h
    · next t2 l2 h2 =>
      cases h
      exact ⟨getNextToken_tokOK h1, getNextToken_tokOK h2⟩

theorem initParser_noAssert {cfg : LexCfg} {text : List Char} {e : PyErr} (h : initParser cfg text = .error e) : NoAssert e := by
  unfold initParser at h
  split at h
  · next e1 h1 => cases h; exact NoAssert_lex h1
  · split at h
    · next e2 h2 => cases h; exact NoAssert_lex h2
    · cases h

end Tumfl.Theory
