import Tumfl.Theory.ParserFuel
/-!
# Kernel-checked instances around the fuel bound `5 * length + 15`

The worst case is a run of opening braces `x={{{{...`: every `{` is one character and one token, and
costs five nested calls (`parseTable → parseFields → parseField → parseExp → parseAtom → parseTable`).
For `x=` followed by `n ≥ 1` braces the least sufficient fuel is `5 * n + 12 = 5 * length + 2`
(evaluated for `n = 10, 20, .., 50` and `197`), so no bound `4 * length + C` can work and the slope 5
of `parseTextWith_no_fuel` is optimal.
-/
namespace Tumfl.Theory
open Tumfl.Model

/-- `x=` followed by 197 opening braces (199 characters) -/
def bracesExample : List Char := 'x' :: '=' :: List.replicate 197 '{'

/-- enlarging the additive constant of the model does not help: `4 * length + 200` fails as well -/
theorem braces_fuel_4_200 : parseTextWith (4 * bracesExample.length + 200) bracesExample = .error .fuel :=
  eq_fuel_of_isFuelErr (by decide +kernel)

/-- the slope 5 is needed: `5 * length + 1` is not enough for this text .. -/
theorem braces_fuel_5_1 : parseTextWith (5 * bracesExample.length + 1) bracesExample = .error .fuel :=
  eq_fuel_of_isFuelErr (by decide +kernel)

/-- .. and `5 * length + 2` is (the outcome is the parser error of the unclosed table) -/
theorem braces_fuel_5_2 : isFuelErr (parseTextWith (5 * bracesExample.length + 2) bracesExample) = false := by
  decide +kernel

end Tumfl.Theory
