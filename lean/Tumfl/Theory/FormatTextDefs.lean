import Tumfl.Theory.Unlex
import Tumfl.Theory.ReadTks
import Tumfl.Theory.PrintSimTok
import Tumfl.Theory.CommentWF
import Tumfl.Theory.WrapReads
import Tumfl.Theory.LayoutKeeps
/-!
# The final text of `format` is read back as the tokens of the emitted pieces: definitions

* `DocStyle`: the documented style kinds;
* `Disc σ ps`: the adjacency discipline of a piece list, as a left-to-right check with a small state `DS`
  (the last token since the last hard separator, the kind of the nearest non-indent piece, the kind of the
  piece directly in front).
-/
namespace Tumfl.Theory
open Tumfl.Model

/-- the documented style kinds -/
structure DocStyle (sty : Style) : Prop where
  stmtSep : sty.statementSeparator = ['\n'] ∨ sty.statementSeparator = [';']
  indent  : ∀ c ∈ sty.indentation, c = ' ' ∨ c = '\t'
  argSep  : sty.argumentSeparator = [','] ∨ sty.argumentSeparator = [',', ' ']
  comSep  : ∀ c ∈ sty.commentSep, c = ' ' ∨ c = '\t'

/-! ## vocabulary -/

/-- a piece text that starts a comment -/
def isCom (s : List Char) : Bool := startsWith s ['-', '-']
/-- a comment text whose body opens a long bracket -/
def isLongCom (s : List Char) : Bool := (Spec.longOpener (s.drop 2)).isSome
def isOpener (s : List Char) : Bool := s == ['('] || s == ['['] || s == ['{']

/-- `y` may directly follow `x`: they neither need a separator nor fuse -/
def NoGlue (x y : List Char) : Prop :=
  sepRequired x y = .ok false ∧ ∀ d t, y = d :: t → fuses x d = false
/-- `y` following `x` is not one of the `fuses` adjacencies -/
def NoFuse (x y : List Char) : Prop := ∀ d t, y = d :: t → fuses x d = false

/-- the text `visitString` writes in quoted form -/
def QuotedForm (s : List Char) : Prop :=
  ∃ (q : Char) (v : List Char), (q = '"' ∨ q = '\'') ∧ s = q :: v.flatMap (escapeChar q) ++ [q]

/-- a Python white-space character other than the line break -/
def spaceNN (c : Char) : Bool := pyIsSpace c && c != '\n'

/-- the per-line right-strip and the final strip of `format` leave the text alone: no white-space character directly in
front of a line break, and the last character is not white space -/
def Tidy (s : List Char) : Prop :=
  (∀ a c b, s = a ++ c :: '\n' :: b → spaceNN c = false) ∧ (∀ i l, s = i ++ [l] → pyIsSpace l = false)

/-- a token piece: read robustly as the token `strTk` says; a quoted one is written by `visitString`; tidy -/
def GoodTok (s : List Char) : Prop :=
  (∃ tk, ReadsAs s tk ∧ strTk s = [tk]) ∧ (isQuoted s = true → QuotedForm s) ∧ Tidy s

/-- a comment piece: a well-formed long or short comment -/
def ComOK (s : List Char) : Prop :=
  (isLongCom s = true → IsLongComment s) ∧ (isLongCom s = false → IsShortComment s)

/-! ## the state of the check -/

/-- kind of the nearest piece in front that is not Indent / DeIndent -/
inductive Near | none | str | sep
  deriving DecidableEq, Repr

/-- kind of the piece directly in front -/
inductive LastK
  | start
  | tok (opener : Bool)
  | comShort
  | indent
  | dot
  | other
  deriving DecidableEq, Repr

structure DS where
  /-- the last token text (a Dot separator counts as `.`) since the last Newline / Argument separator or comment -/
  tok : Option (List Char)
  near : Near
  last : LastK
  deriving DecidableEq, Repr

def DS.init : DS := ⟨none, .none, .start⟩

/-- state after one piece -/
def adv (σ : DS) : Piece → DS
  | .str s =>
    if isCom s then ⟨none, .str, if isLongCom s then .other else .comShort⟩
    else ⟨some s, .str, .tok (isOpener s)⟩
  | .sep .dot => ⟨some ['.'], .sep, .dot⟩
  | .sep .space | .sep .statement | .sep .block => ⟨σ.tok, .sep, .other⟩
  | .sep .newline | .sep .argument => ⟨none, .sep, .other⟩
  | .sep .indent | .sep .deindent => ⟨σ.tok, σ.near, .indent⟩

def advs (σ : DS) (ps : Pieces) : DS := ps.foldl adv σ

/-- what the text `y` must satisfy when it arrives in state `σ` -/
def Foll (σ : DS) (y : List Char) : Prop :=
  ∀ x, σ.tok = some x → NoFuse x y ∧ ((σ.near = .str ∨ σ.last = .dot) → NoGlue x y)

/-- the check of one piece -/
def okPiece (σ : DS) : Piece → Prop
  | .str s =>
    if isCom s then σ.last ≠ .comShort ∧ σ.last ≠ .dot ∧ ComOK s ∧ Foll σ s
    else σ.last ≠ .comShort ∧ GoodTok s ∧ Foll σ s ∧ (s = ['}'] → ∃ b, σ.last = .tok b)
  | .sep .dot => σ.last ≠ .comShort ∧ ∃ x, σ.tok = some x ∧ σ.near = .str ∧ NoGlue x ['.']
  | .sep .space | .sep .block => σ.last ≠ .comShort ∧ σ.last ≠ .dot
  | .sep .statement => σ.last ≠ .comShort ∧ σ.last ≠ .dot ∧ (σ.last = .indent → σ.near ≠ .str)
  | .sep .newline => σ.last ≠ .dot
  | .sep .argument => σ.last = .tok false
  | .sep .indent | .sep .deindent => σ.last ≠ .comShort ∧ σ.last ≠ .dot

/-- the adjacency discipline -/
def Disc : DS → Pieces → Prop
  | _, [] => True
  | σ, p :: r => okPiece σ p ∧ Disc (adv σ p) r

@[simp] theorem advs_nil (σ : DS) : advs σ [] = σ := rfl
@[simp] theorem advs_cons (σ : DS) (p : Piece) (r : Pieces) : advs σ (p :: r) = advs (adv σ p) r := rfl
@[simp] theorem advs_append (σ : DS) (a b : Pieces) : advs σ (a ++ b) = advs (advs σ a) b := by
  simp [advs, List.foldl_append]

@[simp] theorem disc_nil (σ : DS) : Disc σ [] = True := rfl
theorem disc_cons (σ : DS) (p : Piece) (r : Pieces) : Disc σ (p :: r) = (okPiece σ p ∧ Disc (adv σ p) r) := rfl

theorem disc_append (σ : DS) (a b : Pieces) : Disc σ (a ++ b) ↔ Disc σ a ∧ Disc (advs σ a) b := by
  induction a generalizing σ with
  | nil => simp
  | cons p a ih => simp only [List.cons_append, disc_cons, advs_cons, ih, and_assoc]

end Tumfl.Theory
