import Tumfl.Theory.PrintSimAtom
/-!
# Expression lists, call arguments, variable-like expressions, table constructors, parameter lists, function bodies
-/
namespace Tumfl.Theory
open Tumfl.Model Tumfl.Spec

variable {semi : Bool} {sty : Style}

/-- a token that ends an expression list: no suffix, no binary operator, no `,` -/
def stopTk (k : Tk) : Bool := !sfx k && (binOfTk k).isNone && k != .sym ","

theorem stopTk_facts {ts : List Spec.Tok} (h : stopTk (pk ts) = true) :
    sfx (pk ts) = false ∧ hdLp ts = 0 ∧ isSym "," ts = false := by
  simp only [stopTk, Bool.and_eq_true, Bool.not_eq_true', Option.isNone_iff_eq_none, bne_iff_ne, ne_eq] at h
  refine ⟨h.1.1, by simp [hdLp, h.1.2], ?_⟩
  unfold isSym
  split
  · rename_i x hx
    cases hb : x == "," with
    | false => rfl
    | true =>
      exfalso
      have : x = "," := by simpa using hb
      subst this
      exact h.2 hx
  · rfl

theorem stopTk_of_safe {k : Tk} (h : safeTk k = true) : stopTk k = true := by
  simp only [safeTk, Bool.and_eq_true] at h
  simp only [stopTk, Bool.and_eq_true]
  exact ⟨h.1.1, h.1.2⟩

/-! ## expression lists -/

theorem explist_one (F : Nat) (ts rest : List Spec.Tok) (c : Exp) (h : expr F ts = .ok (c, rest))
    (hc : isSym "," rest = false) : explist (F + 1) ts = .ok ([c], rest) := by
  rw [explist]
  simp [h, hc, bind, Except.bind]

theorem explist_cons (F : Nat) (ts ts1 rest : List Spec.Tok) (c : Exp) (cs : List Exp)
    (h : expr F ts = .ok (c, mkTok (.sym ",") :: ts1)) (h2 : explist F ts1 = .ok (cs, rest)) :
    explist (F + 1) ts = .ok (c :: cs, rest) := by
  rw [explist]
  simp [h, h2, isSym, bind, Except.bind]

def ArgsProp (semi : Bool) (sty : Style) (es : List Expr) : Prop :=
  ∀ F rest, nA semi sty es ≤ F → stopTk (pk rest) = true → es ≠ [] →
    explist F (TK semi (visitArgs sty es) ++ rest) = .ok (refArgs semi sty es, rest)

theorem args_of_all : (es : List Expr) → (∀ e ∈ es, XProp semi sty e) → ArgsProp semi sty es
  | [], _ => by intro _ _ _ _ h; exact absurd rfl h
  | [e], hall => by
    intro F rest hF hstop _
    obtain ⟨h1, h2, h3⟩ := stopTk_facts hstop
    simp only [nA] at hF
    obtain ⟨F, rfl⟩ : ∃ f, F = f + 1 := ⟨F - 1, by omega⟩
    simp only [visitArgs, refArgs]
    exact explist_one F _ rest _ (expr_of_EProp (hall e (by simp)).E F rest (by omega) h1 h2) h3
  | e :: e2 :: es, hall => by
    intro F rest hF hstop _
    simp only [nA] at hF
    obtain ⟨F, rfl⟩ : ∃ f, F = f + 1 := ⟨F - 1, by omega⟩
    have ih := args_of_all (e2 :: es) (fun x hx => hall x (by simp [hx])) F rest (by simp only [nA]; omega) hstop (by simp)
    rw [visitArgs, refArgs]
    simp only [TK_append, TK_sep_argument, List.append_assoc, List.cons_append]
    exact explist_cons F _ _ rest _ _
      (expr_of_EProp (hall e (by simp)).E F _ (by omega) (by simp [sfx]) (by simp [hdLp, binOfTk])) ih

theorem visitArgs_head (e : Expr) (r : List Expr) (h : pExpr e = true) :
    ∃ k tks, TK semi (visitArgs sty (e :: r)) = mkTok k :: tks ∧ exprStartTk k = true := by
  obtain ⟨k, tks, hk, hs⟩ := exprHead (semi := semi) sty e h
  cases r with
  | nil => exact ⟨k, tks, by simpa [visitArgs] using hk, hs⟩
  | cons e2 r => exact ⟨k, _, by rw [visitArgs, TK_append, hk]; rfl, hs⟩

/-! ## call arguments -/

theorem fmtFunctionArgs_cases (sty : Style) (args : List Expr) (ps : Pieces) :
    (∃ t v, args = [.string t v] ∧ sty.useCallShorthand = true ∧ fmtFunctionArgs sty args ps = ps) ∨
    (∃ t fs, args = [.table t fs] ∧ sty.useCallShorthand = true ∧ fmtFunctionArgs sty args ps = ps) ∨
    (fmtFunctionArgs sty args ps = wrapParens ps ∧ (sty.useCallShorthand && isStrArg args) = false) := by
  unfold fmtFunctionArgs
  split
  · by_cases h : sty.useCallShorthand = true
    · exact .inl ⟨_, _, rfl, h, by simp [h]⟩
    · exact .inr (.inr (by simp [h]))
  · by_cases h : sty.useCallShorthand = true
    · exact .inr (.inl ⟨_, _, rfl, h, by simp [h]⟩)
    · exact .inr (.inr (by simp [h, isStrArg]))
  · rename_i h1 h2
    refine .inr (.inr ⟨rfl, ?_⟩)
    cases hs : isStrArg args with
    | false => simp
    | true =>
      exfalso
      unfold isStrArg at hs
      split at hs
      · exact h1 _ _ rfl
      · cases hs

theorem funcargs_paren (F : Nat) (ts rest : List Spec.Tok) (es : List Exp) (hnr : isSym ")" ts = false)
    (h : explist F ts = .ok (es, mkTok (.sym ")") :: rest)) :
    funcargs (F + 1) (mkTok (.sym "(") :: ts) = .ok (es, rest) := by
  rw [funcargs]
  simp only [pk_mkTok, tail_mkTok, hnr, h]
  simp [expectSym, isSym, bind, Except.bind]

theorem fargs_step (args : List Expr) (hp : pArgs args = true) (hall : ∀ e ∈ args, XProp semi sty e) (F : Nat)
    (rest : List Spec.Tok) (hF : nFA semi sty args ≤ F) :
    funcargs F (TK semi (fmtFunctionArgs sty args (visitArgs sty args)) ++ rest) = .ok (refArgs semi sty args, rest) ∧
    (pk (TK semi (fmtFunctionArgs sty args (visitArgs sty args)) ++ rest) = .sym "(" ∨
     pk (TK semi (fmtFunctionArgs sty args (visitArgs sty args)) ++ rest) = .sym "{" ∨
     ∃ v, pk (TK semi (fmtFunctionArgs sty args (visitArgs sty args)) ++ rest) = .str v) := by
  have hF1 : 1 ≤ F := by unfold nFA at hF; split at hF <;> omega
  rcases fmtFunctionArgs_cases sty args (visitArgs sty args) with ⟨t, v, rfl, _, h⟩ | ⟨t, fs, rfl, _, h⟩ | ⟨h, hcond⟩
  all_goals obtain ⟨F, rfl⟩ : ∃ f, F = f + 1 := ⟨F - 1, by omega⟩
  · rw [h]
    have := TK_visitString (semi := semi) sty v []
    simp only [List.append_nil, TK_nil] at this
    simp only [visitArgs, visitExpr, this, List.cons_append, List.nil_append, refArgs, refExpr]
    refine ⟨?_, .inr (.inr ⟨_, rfl⟩)⟩
    rw [funcargs]; simp
  · rw [h]
    have hf := (hall _ (by simp)).Tb t fs rfl
    simp only [nFA, isStrArg, Bool.and_false, Bool.false_eq_true, if_false, nA, nE] at hF
    simp only [visitArgs, visitExpr, TK_lcurl, TK_append, TK_rcurl, TK_nil, List.cons_append, List.append_assoc,
      List.nil_append, refArgs, refExpr]
    refine ⟨?_, .inr (.inl rfl)⟩
    rw [funcargs]
    simp [hf F rest (by omega), bind, Except.bind]
  · rw [h]
    simp only [nFA, hcond, Bool.false_eq_true, if_false] at hF
    simp only [TK_wrapParens, List.cons_append, List.append_assoc, List.nil_append]
    refine ⟨?_, .inl rfl⟩
    cases args with
    | nil =>
      rw [funcargs]
      simp [visitArgs, refArgs, isSym]
    | cons e r =>
      simp only [pArgs, Bool.and_eq_true] at hp
      obtain ⟨k, tks, hk, hs⟩ := visitArgs_head (semi := semi) (sty := sty) e r hp.1
      have hex := args_of_all (e :: r) hall F (mkTok (.sym ")") :: rest) (by omega) (by rfl) (by simp)
      refine funcargs_paren F _ rest _ ?_ hex
      rw [hk, List.cons_append, isSym_mkTok]
      cases hb : k == .sym ")" with
      | false => rfl
      | true =>
        have : k = .sym ")" := by simpa using hb
        subst this
        simp [exprStartTk] at hs

/-! ## variable-like expressions -/

theorem index_P {t : Token} {l k : Expr} (hl : pExpr l = true) (hxl : XProp semi sty l) (hk : EProp semi sty k) :
    PProp semi sty (.index t l k) := by
  intro F rest hF
  simp only [nE] at hF ⊢
  change nV semi sty l + nE semi sty k + 4 ≤ F + 2 at hF
  change ∃ F', F + 2 ≤ F' + (nV semi sty l + nE semi sty k + 4) ∧ _
  obtain ⟨F1, hF1, h1⟩ := var_step hl hxl F
    (mkTok (.sym "[") :: (TK semi (visitExpr sty k) ++ mkTok (.sym "]") :: rest)) (by omega)
  obtain ⟨F1, rfl⟩ : ∃ f, F1 = f + 1 := ⟨F1 - 1, by omega⟩
  refine ⟨F1, by omega, ?_⟩
  simp only [visitExpr, TK_append, TK_lbrack, TK_rbrack, TK_fmtKey, TK_nil, List.append_assoc, List.cons_append,
    List.nil_append, refExpr]
  rw [h1]
  exact suffixes_index F1 _ _ _ rest
    (expr_of_EProp hk F1 _ (by omega) (by simp [sfx]) (by simp [hdLp, binOfTk]))

theorem namedIndex_P {t : Token} {l nm : Expr} (hl : pExpr l = true) (hxl : XProp semi sty l) (hn : nameNodeOK nm = true) :
    PProp semi sty (.namedIndex t l nm) := by
  intro F rest hF
  simp only [nE] at hF ⊢
  change nV semi sty l + 3 ≤ F + 2 at hF
  change ∃ F', F + 2 ≤ F' + (nV semi sty l + 3) ∧ _
  obtain ⟨F1, hF1, h1⟩ := var_step hl hxl F (mkTok (.sym ".") :: mkTok (.name (nameS nm)) :: rest) (by omega)
  obtain ⟨F1, rfl⟩ : ∃ f, F1 = f + 1 := ⟨F1 - 1, by omega⟩
  refine ⟨F1, by omega, ?_⟩
  have hnm := TK_nameNode (semi := semi) sty hn []
  simp only [List.append_nil, TK_nil] at hnm
  simp only [visitExpr, TK_append, TK_sep_dot, hnm, TK_nil, List.append_assoc, List.cons_append, List.nil_append, refExpr]
  rw [h1]
  exact suffixes_dot F1 _ _ rest

theorem call_P {t : Token} {f : Expr} {args : List Expr} (hf : pExpr f = true) (hxf : XProp semi sty f)
    (hpa : pArgs args = true) (hall : ∀ e ∈ args, XProp semi sty e) : PProp semi sty (.call t f args) := by
  intro F rest hF
  simp only [nE] at hF ⊢
  change nV semi sty f + nFA semi sty args + 3 ≤ F + 2 at hF
  change ∃ F', F + 2 ≤ F' + (nV semi sty f + nFA semi sty args + 3) ∧ _
  obtain ⟨F1, hF1, h1⟩ := var_step hf hxf F (TK semi (fmtFunctionArgs sty args (visitArgs sty args)) ++ rest) (by omega)
  obtain ⟨F1, rfl⟩ : ∃ f, F1 = f + 1 := ⟨F1 - 1, by omega⟩
  refine ⟨F1, by omega, ?_⟩
  obtain ⟨ha, hk⟩ := fargs_step args hpa hall F1 rest (by omega)
  simp only [visitExpr, TK_append, List.append_assoc, refExpr]
  rw [h1]
  exact suffixes_call F1 _ _ _ rest hk ha

theorem method_P {t : Token} {f m : Expr} {args : List Expr} (hf : pExpr f = true) (hxf : XProp semi sty f)
    (hm : nameNodeOK m = true) (hpa : pArgs args = true) (hall : ∀ e ∈ args, XProp semi sty e) :
    PProp semi sty (.method t f m args) := by
  intro F rest hF
  simp only [nE] at hF ⊢
  change nV semi sty f + nFA semi sty args + 3 ≤ F + 2 at hF
  change ∃ F', F + 2 ≤ F' + (nV semi sty f + nFA semi sty args + 3) ∧ _
  obtain ⟨F1, hF1, h1⟩ := var_step hf hxf F
    (mkTok (.sym ":") :: mkTok (.name (nameS m)) :: (TK semi (fmtFunctionArgs sty args (visitArgs sty args)) ++ rest)) (by omega)
  obtain ⟨F1, rfl⟩ : ∃ f, F1 = f + 1 := ⟨F1 - 1, by omega⟩
  refine ⟨F1, by omega, ?_⟩
  obtain ⟨ha, _⟩ := fargs_step args hpa hall F1 rest (by omega)
  have hnm := TK_nameNode (semi := semi) sty hm []
  simp only [List.append_nil, TK_nil] at hnm
  simp only [visitExpr, TK_append, TK_colon, hnm, TK_nil, List.append_assoc, List.cons_append, List.nil_append, refExpr]
  rw [h1]
  exact suffixes_mcall F1 _ _ _ _ rest ha

end Tumfl.Theory
