import Tumfl.Theory.ReadSimBlock
/-!
# Blocks and the root, for every reading
-/
namespace Tumfl.Theory
open Tumfl.Model Tumfl.Spec

variable {sty : Style}

/-! ## the end of a block -/

/-- what `return ...` (or nothing) at the end of a block is read as: tokens `kret`, parsed as `r`, needing `n` -/
def RetOut (sty : Style) (rets : Option (List Expr)) (kret : List Spec.Tok) : Prop :=
  ∃ r : Option (List Exp),
    (match rets, r with
      | some es, some cs => Forall₂ ExpRel (dsArgs es) (deExps cs)
      | none, none => True
      | _, _ => False) ∧
    (∀ rest, blockFollow true (pk rest) = true → safeTk (pk (kret ++ rest)) = true) ∧
    ∀ rest, blockFollow true (pk rest) = true → SLCont (4 * kret.length + 1) (kret ++ rest) [] r rest

/-- `return es` followed by the optional separator `s3` -/
theorem ret_some {es : List Expr} (hall : ∀ e ∈ es, XPropR sty e) :
    AllRd (visitArgs sty es) fun kes => ∀ s3, SemiOpt s3 →
      RetOut sty (some es) (mkTok (.kw "return") :: (kes ++ s3)) := by
  cases es with
  | nil =>
    simp only [visitArgs, AllRd_nil]
    intro s3 hs3
    refine ⟨some [], by simp only [dsArgs, deExps]; exact .nil, by intro rest _; rfl, ?_⟩
    intro rest hbf F hF
    obtain ⟨F, rfl⟩ : ∃ f, F = f + 1 := ⟨F - 1, by omega⟩
    have hrest := isSym_of_blockFollow hbf
    have h1 : (blockFollow true (pk (s3 ++ rest)) || isSym ";" (s3 ++ rest)) = true := by
      rcases hs3 with rfl | rfl <;> simp [hbf, isSym_mkTok]
    have hfin : (if isSym ";" (s3 ++ rest) = true then (s3 ++ rest).tail else s3 ++ rest) = rest := by
      rcases hs3 with rfl | rfl <;> simp [hrest, isSym_mkTok]
    simp only [List.nil_append, List.cons_append]
    rw [statlist_ret_nil F _ h1, hfin]
  | cons e r =>
    intro kes hkes s3 hs3
    obtain ⟨hd, cs, rel, hb⟩ := args_of_allR (e :: r) hall (by simp) kes hkes
    refine ⟨some cs, rel, by intro rest _; rfl, ?_⟩
    intro rest hbf F hF
    simp only [List.length_cons, List.length_append] at hF
    obtain ⟨F, rfl⟩ : ∃ f, F = f + 1 := ⟨F - 1, by omega⟩
    have hrest := isSym_of_blockFollow hbf
    have hfin : (if isSym ";" (s3 ++ rest) = true then (s3 ++ rest).tail else s3 ++ rest) = rest := by
      rcases hs3 with rfl | rfl <;> simp [hrest, isSym_mkTok]
    have hstop : stopTk (pk (s3 ++ rest)) = true := by
      rcases hs3 with rfl | rfl
      · simpa using (blockFollow_facts hbf).2.1
      · rfl
    have hex := hb F (s3 ++ rest) (by omega) hstop
    have hnb : (blockFollow true (pk (kes ++ (s3 ++ rest))) || isSym ";" (kes ++ (s3 ++ rest))) = false := by
      obtain ⟨k, tks, rfl, hs⟩ := hd
      rw [List.cons_append, pk_mkTok, isSym_mkTok]
      revert hs
      unfold exprStartTk
      split <;> simp [blockFollow]
    simp only [List.cons_append, List.append_assoc]
    rw [statlist_ret_list F _ _ _ hnb hex, hfin]

theorem ret_none : RetOut sty none [] := by
  refine ⟨none, trivial, ?_, ?_⟩
  · intro rest h; simpa using (blockFollow_facts h).1
  · intro rest h; simpa using SL_none h

/-- the readings of the `return` pieces -/
theorem AllRd_retPieces {rets : Option (List Expr)} (hr : ∀ es, rets = some es → ∀ e ∈ es, XPropR sty e) :
    AllRd (retPieces sty rets) (RetOut sty rets) := by
  cases rets with
  | none =>
    simp only [retPieces, AllRd_nil]
    exact ret_none
  | some es =>
    have h := ret_some (hr es rfl)
    by_cases he : es.isEmpty = true
    · simp only [retPieces, he, if_true, List.append_nil, List.cons_append, List.nil_append, AllRd_return_kw, AllRd_append,
        AllRd_statement, AllRd_nil]
      intro kes hkes s3 hs3
      simpa using h kes hkes s3 hs3
    · simp only [retPieces, he, Bool.false_eq_true, if_false, List.cons_append, List.nil_append, AllRd_return_kw, AllRd_append,
        AllRd_space, AllRd_statement, AllRd_nil]
      intro kes hkes s3 hs3
      simpa using h kes hkes s3 hs3

theorem BlockRel_mk {t : Token} {ss : List Stmt} {rets : Option (List Expr)} {c : Bool} {cs : List Stat}
    {r : Option (List Exp)} (hs : Forall₂ StmtRel (dsStmts ss) (deStats cs))
    (hr : match rets, r with
      | some es, some cs => Forall₂ ExpRel (dsArgs es) (deExps cs)
      | none, none => True
      | _, _ => False) :
    BlockRel (dsBlock (.mk t ss rets c)) (deBlock (.mk cs r)) := by
  cases rets with
  | none =>
    cases r with
    | none => simp only [dsBlock, deBlock]; exact .blk0 t c hs
    | some _ => exact absurd hr (by simp)
  | some es =>
    cases r with
    | none => exact absurd hr (by simp)
    | some cr => simp only [dsBlock, deBlock]; exact .blk1 t c hs hr

/-! ## blocks -/

theorem block_stepR {t : Token} {ss : List Stmt} {rets : Option (List Expr)} {c : Bool}
    (hss : ∀ s ∈ ss, pStmt s = true ∧ StmtPropR sty s)
    (hr : ∀ es, rets = some es → ∀ e ∈ es, XPropR sty e) : BlockPropR sty (.mk t ss rets c) := by
  unfold BlockPropR
  simp only [Block.stmts, Block.rets]
  rw [bodyPieces_eq]
  cases ss with
  | nil =>
    simp only [visitStmts, List.nil_append]
    intro kret hkret
    obtain ⟨r, relr, _, contr⟩ := AllRd_retPieces hr kret hkret
    refine ⟨fun s => .mk (emp s.length) r, ?_, ?_⟩
    · intro s _
      exact BlockRel_mk (cs := emp s.length) (by rw [deStats_emp]; simp only [dsStmts]; exact .nil) relr
    · intro s hs F rest hF hbf
      obtain ⟨F, rfl⟩ : ∃ f, F = f + 1 := ⟨F - 1, by omega⟩
      have c1 := SL_semisT hs.semis (contr rest hbf)
      have := c1 F (by omega)
      rw [block]
      simp only [this, List.append_nil, bind, Except.bind]
  | cons s0 r0 =>
    rw [visitStmts_init sty true (s0 :: r0) (by simp)]
    simp only [AllRd_append, AllRd_statement, AllRd_nil, List.append_nil]
    intro kss hkss s2 hs2
    obtain ⟨cs, rels, _, conts⟩ := stmts_stepR (s0 :: r0) hss true kss hkss
    intro kret hkret
    obtain ⟨r, relr, safer, contr⟩ := AllRd_retPieces hr kret hkret
    refine ⟨fun s => .mk (emp s.length ++ (cs ++ emp s2.length)) r, ?_, ?_⟩
    · intro s _
      refine BlockRel_mk ?_ relr
      rw [deStats_semis, deStats_append, deStats_emp, List.append_nil]
      exact rels
    · intro s hs F rest hF hbf
      simp only [List.length_append] at hF
      obtain ⟨F, rfl⟩ : ∃ f, F = f + 1 := ⟨F - 1, by omega⟩
      have c0 := contr rest hbf
      have c1 := SL_semisT hs2.semis c0
      have c2 := conts _ _ _ _ _ c1 (safe_semis hs2.semis (safer rest hbf))
      have c3 := SL_semisT hs.semis c2
      have hl2 := hs2.length_le
      have := c3 F (by omega)
      rw [block]
      simp only [List.append_assoc, List.append_nil] at this ⊢
      simp only [this, bind, Except.bind]

/-! ## the root -/

theorem emit_pieces (sty : Style) (t : Token) (ss : List Stmt) (rets : Option (List Expr)) :
    emit sty (.mk t ss rets true) =
      (if rets.isNone then initStmts sty true ss else visitStmts sty true ss) ++ (retPieces sty rets).dropLast := by
  rw [emit_chunk, bodyPieces_eq]
  cases rets with
  | some es =>
    have : retPieces sty (some es) = ([P "return"] ++ (if es.isEmpty then [] else [S .space]) ++ visitArgs sty es) ++
        [S .statement] := rfl
    simp only [Option.isNone_some, Bool.false_eq_true, if_false]
    rw [this, ← List.append_assoc, List.dropLast_concat, List.dropLast_concat]
  | none =>
    simp only [retPieces, List.append_nil, Option.isNone_none, if_true, List.dropLast_nil]
    cases ss with
    | nil => rfl
    | cons s r => rw [visitStmts_init sty true (s :: r) (by simp), List.dropLast_concat]

theorem AllRd_retDropLast {rets : Option (List Expr)} (hr : ∀ es, rets = some es → ∀ e ∈ es, XPropR sty e) :
    AllRd (retPieces sty rets).dropLast (RetOut sty rets) := by
  cases rets with
  | none =>
    simp only [retPieces, List.dropLast_nil, AllRd_nil]
    exact ret_none
  | some es =>
    have h := ret_some (hr es rfl)
    have : retPieces sty (some es) = ([P "return"] ++ (if es.isEmpty then [] else [S .space]) ++ visitArgs sty es) ++
        [S .statement] := rfl
    rw [this, List.dropLast_concat]
    by_cases he : es.isEmpty = true
    · simp only [he, if_true, List.append_nil, List.cons_append, List.nil_append, AllRd_return_kw]
      intro kes hkes
      simpa using h kes hkes [] (.inl rfl)
    · simp only [he, Bool.false_eq_true, if_false, List.cons_append, List.nil_append, AllRd_return_kw, AllRd_space]
      intro kes hkes
      simpa using h kes hkes [] (.inl rfl)

theorem root_stepR {t : Token} {ss : List Stmt} {rets : Option (List Expr)}
    (hss : ∀ s ∈ ss, pStmt s = true ∧ StmtPropR sty s)
    (hr : ∀ es, rets = some es → ∀ e ∈ es, XPropR sty e) :
    AllRd (emit sty (.mk t ss rets true)) fun ks => ∃ c, BlockRel (dsBlock (.mk t ss rets true)) (deBlock c) ∧
      ∀ F, 4 * ks.length + 2 ≤ F → block F (ks ++ [eofTok]) = .ok (c, [eofTok]) := by
  rw [emit_pieces]
  have hbf : blockFollow true (pk [eofTok]) = true := rfl
  cases hn : rets.isNone with
  | true =>
    simp only [if_true, AllRd_append]
    intro kss hkss
    obtain ⟨cs, rels, _, conts⟩ := stmts_stepR ss hss true kss hkss
    intro kret hkret
    obtain ⟨r, relr, safer, contr⟩ := AllRd_retDropLast hr kret hkret
    refine ⟨.mk cs r, BlockRel_mk rels relr, ?_⟩
    intro F hF
    simp only [List.length_append] at hF
    obtain ⟨F, rfl⟩ : ∃ f, F = f + 1 := ⟨F - 1, by omega⟩
    have c2 := conts _ _ _ _ _ (contr _ hbf) (safer _ hbf)
    have := c2 F (by omega)
    rw [block]
    simp only [List.append_assoc, List.append_nil] at this ⊢
    simp only [this, bind, Except.bind]
  | false =>
    simp only [Bool.false_eq_true, if_false, AllRd_append]
    cases ss with
    | nil =>
      simp only [visitStmts, AllRd_nil, List.nil_append]
      intro kret hkret
      obtain ⟨r, relr, _, contr⟩ := AllRd_retDropLast hr kret hkret
      refine ⟨.mk [] r, BlockRel_mk (by simp only [dsStmts, deStats]; exact .nil) relr, ?_⟩
      intro F hF
      obtain ⟨F, rfl⟩ : ∃ f, F = f + 1 := ⟨F - 1, by omega⟩
      have := contr _ hbf F (by omega)
      rw [block]
      simp only [this, bind, Except.bind]
    | cons s0 r0 =>
      rw [visitStmts_init sty true (s0 :: r0) (by simp)]
      simp only [AllRd_append, AllRd_statement, AllRd_nil, List.append_nil]
      intro kss hkss s2 hs2
      obtain ⟨cs, rels, _, conts⟩ := stmts_stepR (s0 :: r0) hss true kss hkss
      intro kret hkret
      obtain ⟨r, relr, safer, contr⟩ := AllRd_retDropLast hr kret hkret
      refine ⟨.mk (cs ++ emp s2.length) r, BlockRel_mk (by rw [deStats_append, deStats_emp, List.append_nil]; exact rels) relr, ?_⟩
      intro F hF
      simp only [List.length_append] at hF
      obtain ⟨F, rfl⟩ : ∃ f, F = f + 1 := ⟨F - 1, by omega⟩
      have c1 := SL_semisT hs2.semis (contr _ hbf)
      have c2 := conts _ _ _ _ _ c1 (safe_semis hs2.semis (safer _ hbf))
      have hl2 := hs2.length_le
      have := c2 F (by omega)
      rw [block]
      simp only [List.append_assoc, List.append_nil] at this ⊢
      simp only [this, bind, Except.bind]

end Tumfl.Theory
