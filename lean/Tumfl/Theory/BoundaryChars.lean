import Tumfl.Theory.Numeral
import Tumfl.Model.Layout
/-!
# Boundary lemmas, part 0: character classes and the shape of `sepRequired`

`sepRequired first second` only looks at the last character of `first`, the first character of
`second` and the first character of `first`; `sepBool` is that Boolean.  `wordChars` is exactly the
reference lexer's `isAlnum`, `Gen.digits` exactly `isDigit`.
-/
namespace Tumfl.Theory
open Tumfl.Model Tumfl

/-! ## tables against the reference classes -/

theorem isAlnum_lt (c : Char) (h : Spec.isAlnum c = true) : c.toNat < 128 := by
  simp only [Spec.isAlnum, Spec.isAlpha, Spec.isDigit, Bool.or_eq_true, Bool.and_eq_true, beq_iff_eq] at h
  rcases h with ((⟨_, h⟩ | ⟨_, h⟩) | rfl) | ⟨_, h⟩
  · have := le_toNat h; simp only [Char.reduceToNat] at this; omega
  · have := le_toNat h; simp only [Char.reduceToNat] at this; omega
  · decide
  · have := le_toNat h; simp only [Char.reduceToNat] at this; omega

theorem wordChars_ascii : ∀ x ∈ wordChars, x.toNat < 128 := by decide +kernel
theorem digits_ascii : ∀ x ∈ Gen.digits, x.toNat < 128 := by decide +kernel

theorem wordChars_tab : ∀ n : Fin 128, wordChars.contains (Char.ofNat n.val) = Spec.isAlnum (Char.ofNat n.val) := by
  decide +kernel
theorem digits_tab : ∀ n : Fin 128, Gen.digits.contains (Char.ofNat n.val) = Spec.isDigit (Char.ofNat n.val) := by
  decide +kernel

/-- `wordChars` (ASCII letters, digits, `_`) is the reference lexer's `isAlnum` -/
theorem wordChars_contains (c : Char) : wordChars.contains c = Spec.isAlnum c := by
  by_cases hc : c.toNat < 128
  · exact ascii_all (fun c => wordChars.contains c = Spec.isAlnum c) wordChars_tab c hc
  · have h1 : wordChars.contains c = false := by
      cases h : wordChars.contains c with
      | false => rfl
      | true => exact absurd (contains_lt _ wordChars_ascii c h) hc
    have h2 : Spec.isAlnum c = false := by
      cases h : Spec.isAlnum c with
      | false => rfl
      | true => exact absurd (isAlnum_lt c h) hc
    rw [h1, h2]

theorem digits_contains (c : Char) : Gen.digits.contains c = Spec.isDigit c := by
  by_cases hc : c.toNat < 128
  · exact ascii_all (fun c => Gen.digits.contains c = Spec.isDigit c) digits_tab c hc
  · have h1 : Gen.digits.contains c = false := by
      cases h : Gen.digits.contains c with
      | false => rfl
      | true => exact absurd (contains_lt _ digits_ascii c h) hc
    have h2 : Spec.isDigit c = false := by
      cases h : Spec.isDigit c with
      | false => rfl
      | true => exact absurd (isDigit_lt c h) hc
    rw [h1, h2]

theorem alpha_alnum (c : Char) (h : Spec.isAlpha c = true) : Spec.isAlnum c = true := by
  simp [Spec.isAlnum, h]

theorem digit_alnum (c : Char) (h : Spec.isDigit c = true) : Spec.isAlnum c = true := by
  simp [Spec.isAlnum, h]

theorem xdigit_isAlnum_tab : ∀ n : Fin 128, Spec.isXDigit (Char.ofNat n.val) = true →
    Spec.isAlnum (Char.ofNat n.val) = true := by decide +kernel

theorem xdigit_isAlnum (c : Char) (h : Spec.isXDigit c = true) : Spec.isAlnum c = true :=
  ascii_all (fun c => Spec.isXDigit c = true → Spec.isAlnum c = true) xdigit_isAlnum_tab c (isXDigit_lt c h) h

/-- a character that is not alphanumeric is none of the things a numeral or a name continues with -/
theorem not_alnum_facts (c : Char) (h : Spec.isAlnum c = false) :
    Spec.isAlpha c = false ∧ Spec.isDigit c = false ∧ Spec.isXDigit c = false ∧
    c ≠ 'e' ∧ c ≠ 'E' ∧ c ≠ 'p' ∧ c ≠ 'P' ∧ c ≠ 'x' ∧ c ≠ 'X' := by
  have ha : Spec.isAlpha c = false := by
    cases hh : Spec.isAlpha c with
    | false => rfl
    | true => rw [alpha_alnum c hh] at h; cases h
  have hd : Spec.isDigit c = false := by
    cases hh : Spec.isDigit c with
    | false => rfl
    | true => rw [digit_alnum c hh] at h; cases h
  have hx : Spec.isXDigit c = false := by
    cases hh : Spec.isXDigit c with
    | false => rfl
    | true => rw [xdigit_isAlnum c hh] at h; cases h
  have hne : ∀ d : Char, Spec.isAlnum d = true → c ≠ d := by
    rintro d hd rfl; rw [hd] at h; cases h
  exact ⟨ha, hd, hx, hne _ (by decide), hne _ (by decide), hne _ (by decide), hne _ (by decide),
    hne _ (by decide), hne _ (by decide)⟩

/-! ## `sepRequired` as a Boolean of three characters -/

/-- the Boolean `sep_required` computes from the last character of the first token, the first
character of the second token, and the first character of the first token -/
def sepBool (last start f0 : Char) : Bool :=
  (wordChars.contains last && wordChars.contains start)
    || (last == '-' && start == '-')
    || (start == '.' && (last == '.' || Gen.digits.contains f0))
    || ("<>=~".toList.contains last && start == '=')
    || (last == '[' && (start == '[' || start == '='))

theorem sepRequired_eq (a b : List Char) (ha : a ≠ []) (hb : b ≠ []) :
    sepRequired a b = .ok (sepBool (a.getLast ha) (b.head hb) (a.head ha)) := by
  unfold sepRequired
  rw [List.getLast?_eq_some_getLast ha, List.head?_eq_some_head hb, List.head?_eq_some_head ha]
  rfl

theorem sepRequired_cons (f0 : Char) (as : List Char) (d : Char) (t : List Char) :
    sepRequired (f0 :: as) (d :: t) = .ok (sepBool ((f0 :: as).getLast (by simp)) d f0) := by
  rw [sepRequired_eq (f0 :: as) (d :: t) (by simp) (by simp)]
  rfl

/-- `sepRequired` never fails on non-empty tokens; on an empty one it is Python's `IndexError` -/
theorem sepRequired_error_iff (a b : List Char) :
    (∃ e, sepRequired a b = .error e) ↔ (a = [] ∨ b = []) := by
  constructor
  · rintro ⟨e, h⟩
    by_cases ha : a = []
    · exact Or.inl ha
    · by_cases hb : b = []
      · exact Or.inr hb
      · rw [sepRequired_eq a b ha hb] at h; cases h
  · rintro (rfl | rfl)
    · exact ⟨_, by unfold sepRequired; rfl⟩
    · refine ⟨.py "IndexError" "formatter.sep_required", ?_⟩
      unfold sepRequired
      cases a.getLast? <;> simp

/-- what `sepRequired a b = .ok false` says, clause by clause -/
structure NoSep (last start f0 : Char) : Prop where
  word : Spec.isAlnum last = true → Spec.isAlnum start = false
  minus : last = '-' → start ≠ '-'
  dotdot : last = '.' → start ≠ '.'
  numdot : Spec.isDigit f0 = true → start ≠ '.'
  cmp : (last = '<' ∨ last = '>' ∨ last = '=' ∨ last = '~') → start ≠ '='
  brack : last = '[' → start ≠ '[' ∧ start ≠ '='

theorem sepBool_false (last start f0 : Char) (h : sepBool last start f0 = false) : NoSep last start f0 := by
  simp only [sepBool, wordChars_contains, digits_contains, Bool.or_eq_false_iff, Bool.and_eq_false_iff,
    beq_eq_false_iff_ne, ne_eq] at h
  obtain ⟨⟨⟨⟨h1, h2⟩, h3⟩, h4⟩, h5⟩ := h
  refine ⟨?_, ?_, ?_, ?_, ?_, ?_⟩
  · intro hl; rcases h1 with h1 | h1
    · rw [hl] at h1; cases h1
    · exact h1
  · intro hl; rcases h2 with h2 | h2
    · exact absurd hl h2
    · exact h2
  · intro hl; rcases h3 with h3 | h3
    · exact h3
    · exact absurd hl h3.1
  · intro hl; rcases h3 with h3 | h3
    · exact h3
    · rw [hl] at h3; exact absurd h3.2 (by simp)
  · intro hl; rcases h4 with h4 | h4
    · exfalso
      have : "<>=~".toList.contains last = true := by
        rcases hl with rfl | rfl | rfl | rfl <;> decide
      rw [this] at h4; cases h4
    · exact h4
  · intro hl; rcases h5 with h5 | h5
    · exact absurd hl h5
    · exact h5

theorem noSep_of_sepRequired (a b : List Char) (h : sepRequired a b = .ok false) :
    ∃ (ha : a ≠ []) (hb : b ≠ []), NoSep (a.getLast ha) (b.head hb) (a.head ha) := by
  have ha : a ≠ [] := by
    rintro rfl
    have := (sepRequired_error_iff [] b).mpr (Or.inl rfl)
    obtain ⟨e, he⟩ := this; rw [he] at h; cases h
  have hb : b ≠ [] := by
    rintro rfl
    have := (sepRequired_error_iff a []).mpr (Or.inr rfl)
    obtain ⟨e, he⟩ := this; rw [he] at h; cases h
  refine ⟨ha, hb, sepBool_false _ _ _ ?_⟩
  rw [sepRequired_eq a b ha hb] at h
  simpa using h

/-- the same with `getLast?` / `head?`, the form in which `sepRequired` is written -/
theorem noSep_of_sepRequired' (a b : List Char) (h : sepRequired a b = .ok false) :
    ∃ l d t f0, a.getLast? = some l ∧ b = d :: t ∧ a.head? = some f0 ∧ NoSep l d f0 := by
  obtain ⟨ha, hb, hn⟩ := noSep_of_sepRequired a b h
  cases b with
  | nil => exact absurd rfl hb
  | cons d t =>
    exact ⟨a.getLast ha, d, t, a.head ha, List.getLast?_eq_some_getLast ha, rfl, List.head?_eq_some_head ha, hn⟩

/-- conversely, each clause forces the separator to stay -/
theorem sepRequired_true_of (a b : List Char) (l d f0 : Char) (hl : a.getLast? = some l) (hd : b.head? = some d)
    (hf : a.head? = some f0) (h : sepBool l d f0 = true) : sepRequired a b = .ok true := by
  unfold sepRequired
  rw [hl, hd, hf]
  simp only
  exact congrArg _ h

end Tumfl.Theory
