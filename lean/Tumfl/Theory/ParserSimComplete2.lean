import Tumfl.Theory.ParserSimComplete1
/-!
# Completeness, step lemmas: parameter lists, function bodies, arguments, tables
-/
namespace Tumfl.Theory
open Tumfl.Model Tumfl.Spec

variable {B : Bridge} (hC : B.Complete)
include hC

theorem parlist1_complete_step {f' : Nat} (ih : AllComplete B f') (ts : List Tok) (ps : List String) (va : Bool)
    (ts' : List Tok) (h : Spec.parlist1 (f' + 1) ts = .ok (ps, va, ts')) (hva : va = false → pk ts' ≠ .sym "...") (n : Nat) :
    TPF B (fun g => Model.parseNames g true) ts n n (fun r tsx => Forall₂ NameRel r ps ∧
      (if va then pk tsx = .sym "..." ∧ ts' = tsx.tail else ts' = tsx)) := by
  refine TPF_succ ?_
  simp only [Model.parseNames]
  rw [Spec.parlist1] at h
  inv h
  all_goals tp hC ih
  · exact ⟨.nil, by simp [*]⟩
  · refine TPF_call (ih.parlist1 _ _ _ _ (by assumption) hva _) ?_
    rintro r tsx ⟨hr, hif⟩
    tp hC ih
    exact ⟨.cons asm hr, hif⟩
  · rename_i t hk
    refine TPF_ite_neg (by simp [hk.beq_iff, hva rfl]) ?_
    tp hC ih
    exact ⟨.cons asm .nil, by simp⟩

omit hC in
theorem parseNameList_none_complete {ts : List Tok} {n : Nat} {Q : List Expr → List Tok → Prop}
    (h : TPF B (fun g => Model.parseNames g true) ts n n Q) :
    TPF B (fun g => Model.parseNameList g none true) ts n n Q := by
  refine TPF_succ ?_
  simp only [Model.parseNameList]
  exact h

theorem parlist_complete_step {f' : Nat} (ih : AllComplete B f') (ts : List Tok) (ps : List String) (va : Bool)
    (ts' : List Tok) (h : Spec.parlist (f' + 1) ts = .ok (ps, va, ts')) (hcl : pk ts' = .sym ")") (c : Token) (n : Nat)
    (hk : TkRel c (pk ts)) :
    TPF B (paramsCode c) ts (n + 1) (n + 1) (fun r tsx => tsx = ts' ∧ ParamsRel r ps va) := by
  have names_case : ∀ ps va ts', Spec.parlist1 (f' + 1) ts = .ok (ps, va, ts') → pk ts' = .sym ")" → c.type = .NAME →
      TPF B (paramsCode c) ts (n + 1) (n + 1) (fun r tsx => tsx = ts' ∧ ParamsRel r ps va) := by
    intro ps va ts' hp1 hcl ht
    unfold paramsCode
    simp only [ht]
    apply TPF_ite_pos (by simp)
    apply TPF_bind
    refine TPF_call (parseNameList_none_complete
      (parlist1_complete_step hC ih _ _ _ _ hp1 (fun _ => by simp [hcl]) _)) ?_
    rintro r tsx ⟨hr, hif⟩
    cases va
    · simp only [Bool.false_eq_true, if_false] at hif
      subst hif
      tp hC ih
      exact ⟨rfl, ParamsRel.of_names hr⟩
    · simp only [if_true] at hif
      obtain ⟨hell, rfl⟩ := hif
      tp hC ih
      exact ⟨rfl, ParamsRel.of_names_va _ hr⟩
  rw [Spec.parlist] at h
  inv h
  · have ht := type_of_pk' hk asm
    unfold paramsCode
    simp only [ht]
    tp hC ih
    exact ⟨rfl, .nil⟩
  · have ht := type_of_pk' hk asm
    unfold paramsCode
    simp only [ht]
    tp hC ih
    exact ⟨rfl, .vararg _⟩
  · refine names_case _ _ _ ?_ asm (type_of_name hk asm)
    rw [Spec.parlist1]
    simp [*, bind, Except.bind]
  · refine names_case _ _ _ ?_ asm (type_of_name hk asm)
    rw [Spec.parlist1]
    simp [*]

theorem body_complete_step {f' : Nat} (ih : AllComplete B f') (ts : List Tok) (ps : List String) (va : Bool)
    (b : Spec.Block) (ts' : List Tok) (h : Spec.body (f' + 1) ts = .ok (ps, va, b, ts')) (tok : Token) (n : Nat) :
    TPF B (fun g => Model.parseFuncBody g tok) ts (n + 1) n
      (fun r tsx => tsx = ts' ∧ ParamsRel r.1 ps va ∧ BlockRel r.2 b) := by
  refine TPF_succ ?_
  simp only [parseFuncBody_succ]
  rw [Spec.body] at h
  inv h
  all_goals tp hC ih
  tp_call (ih.parlist _ _ _ _ (by assumption) (by assumption) _ _ (by assumption))
  tp hC ih
  exact ⟨rfl, asm, BlockRel.extendComment asm _⟩

end Tumfl.Theory
