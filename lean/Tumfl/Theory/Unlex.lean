import Tumfl.Theory.UnlexCore
/-!
# Unlex: the reference lexer reads a well-formed layout back

`LWF is` (UnlexDefs): a list of layout items - tokens with robust spellings, white-space runs, comments - in which nothing
glues to the token in front of it and every short comment is ended by a newline or the end of the text.  Then
`Spec.lex (renderItems is)` succeeds, its tokens are exactly the items' tokens followed by `eof` (`unlex`), and every comment
item's text (`comText`) is delivered, in order, in the `comments` field of the next token or of `eof` (`unlex_comments`,
`itemToks`).

* `readsAs_of_isPiece` - every piece the formatter emits is a robust spelling;
* `ReadsAs.end_` (UnlexCore, from `lexOne_end`) - a robust spelling is also read at the very end of the text;
* `lexLoop_items` - the loop invariant;
* `unlex_comments`, `unlex` - the main theorems (hypothesis: the text does not begin with `#`, because `Spec.lex` skips a
  first line that does; `unlex_shebang_needed` is the counterexample);
* `lwf_append_ws`, `unlex_ws` - the text extended by a white-space run (the formatter appends the statement separator);
* `exampleItems` - non-vacuity.
-/
namespace Tumfl.Theory
open Tumfl Tumfl.Spec Tumfl.Model

/-! ## 1. pieces are robust spellings -/

theorem space_class {c : Char} (h : isSpace c = true) :
    isAlpha c = false ∧ isDigit c = false ∧ (c == '.') = false ∧ (c == '"' || c == '\'') = false ∧ (c == '[') = false ∧
      symGuard c = true := by
  simp only [isSpace, Bool.or_eq_true, beq_iff_eq] at h
  rcases h with ((((rfl | rfl) | rfl) | rfl) | rfl) | rfl <;> decide

/-- `lexOne` finds a token only at a token start -/
theorem atToken_of_lexOne {t : List Char} {p : Tk × List Char} (h : lexOne t = some p) : AtToken t := by
  cases t with
  | nil => trivial
  | cons c cs =>
    rw [lexOne_cons] at h
    refine ⟨?_, ?_⟩
    · cases hs : isSpace c with
      | false => rfl
      | true =>
        obtain ⟨h1, h2, h3, h4, h5, h6⟩ := space_class hs
        rw [symAt_guard c cs h6] at h
        simp [h1, h2, h3, h4, h5] at h
    · rintro ⟨rfl, hd⟩
      cases cs with
      | nil => cases hd
      | cons d t =>
        simp only [List.head?_cons, Option.some.injEq] at hd
        subst hd
        rw [symAt_minus_minus] at h
        simp [show isAlpha '-' = false by decide, show isDigit '-' = false by decide] at h

theorem atToken_of_append {a b : List Char} (hne : a ≠ []) (h : AtToken (a ++ b)) : AtToken a := by
  cases a with
  | nil => exact absurd rfl hne
  | cons c cs =>
    obtain ⟨h1, h2⟩ := h
    refine ⟨h1, ?_⟩
    rintro ⟨rfl, hd⟩
    apply h2
    refine ⟨rfl, ?_⟩
    cases cs with
    | nil => cases hd
    | cons d t => exact hd

/-- a non-empty text with the third clause of `ReadsAs` is a robust spelling -/
theorem readsAs_intro {a : List Char} {tk : Tk} (hne : a ≠ [])
    (h : ∀ b rest, sepRequired a b = .ok false → (∀ d t, b = d :: t → fuses a d = false) →
      lexOne (a ++ b ++ rest) = some (tk, b ++ rest)) : ReadsAs a tk := by
  refine ⟨hne, ?_, h⟩
  have := h [' '] [] (sepRequired_inert a hne ' ' [] inert_blank)
    (fun d t e => by cases e; exact fuses_inert a ' ' inert_blank)
  rw [List.append_nil] at this
  exact atToken_of_append hne (atToken_of_lexOne this)

theorem isPiece_ne_nil {a : List Char} {tk : Tk} (h : IsPiece a tk) : a ≠ [] := by
  cases h with
  | word c cs hc hcs => simp
  | num n sg hc =>
    obtain ⟨⟨f0, hf, _⟩, _⟩ := canon_ends n sg hc
    intro e; rw [e] at hf; cases hf
  | sym x hx => intro e; rw [e] at hx; cases hx
  | quoted _ v hq => obtain ⟨q, body, _, rfl, _⟩ := hq; simp
  | long _ v hl => obtain ⟨lvl, content, rfl, _⟩ := hl; simp

/-- **every piece the formatter emits is a robust spelling of its token** -/
theorem readsAs_of_isPiece {a : List Char} {tk : Tk} (h : IsPiece a tk) : ReadsAs a tk :=
  readsAs_intro (isPiece_ne_nil h) (fun b rest hs hf => boundary_lexOne a b rest tk h hs hf)

/-! ## 2. the loop invariant -/

/-- the tokens, with their comments, that a layout is read as: `cm` are the comments pending in front of it -/
def itemToks : List LItem → List (List Char) → List (Tk × List (List Char))
  | [], cm => [(.eof, cm)]
  | .tok _ tk :: r, cm => (tk, cm) :: itemToks r []
  | .ws _ :: r, cm => itemToks r cm
  | .com c :: r, cm => itemToks r (cm ++ [comText c])

/-- token kind and comments of a reference token -/
def tkc (t : Tok) : Tk × List (List Char) := (t.tk, t.comments)

theorem render_cons (x : LItem) (is : List LItem) : renderItems (x :: is) = x.text ++ renderItems is := by
  simp [renderItems]

theorem render_append (is js : List LItem) : renderItems (is ++ js) = renderItems is ++ renderItems js := by
  simp [renderItems]

theorem itemToks_tks : ∀ (is : List LItem) (cm : List (List Char)), (itemToks is cm).map (·.1) = itemTks is ++ [.eof]
  | [], cm => rfl
  | .tok a tk :: r, cm => by
    simp only [itemToks, List.map_cons, itemToks_tks r [], itemTks, List.flatMap_cons, LItem.tks, List.cons_append,
      List.nil_append]
  | .ws w :: r, cm => by
    simp only [itemToks, itemToks_tks r cm, itemTks, List.flatMap_cons, LItem.tks, List.nil_append]
  | .com c :: r, cm => by
    simp only [itemToks, itemToks_tks r _, itemTks, List.flatMap_cons, LItem.tks, List.nil_append]

/-- **the loop invariant**: on the text of a well-formed layout, with any offset base `n`, any pending comments `cm` and
any fuel above the length of the text, the reference loop succeeds and delivers the layout's tokens and comments -/
theorem lexLoop_items (n : Nat) {is : List LItem} (h : LWF is) : ∀ (f : Nat) (cm : List (List Char)),
    (renderItems is).length < f →
    ∃ ts, lexLoop n f (renderItems is) cm = .ok ts ∧ ts.map tkc = itemToks is cm.reverse := by
  induction h with
  | nil =>
    intro f cm hf
    obtain ⟨f, rfl⟩ : ∃ f', f = f' + 1 := ⟨f - 1, by omega⟩
    exact ⟨_, lexLoop_nil n f cm, rfl⟩
  | @tok a tk rest hr _ hs hfu ih =>
    intro f cm hf
    rw [render_cons] at hf ⊢
    simp only [LItem.text, List.length_append] at hf ⊢
    obtain ⟨f, rfl⟩ : ∃ f', f = f' + 1 := ⟨f - 1, by omega⟩
    have hl : 1 ≤ a.length := by
      cases ha : a with
      | nil => exact absurd ha hr.1
      | cons _ _ => simp
    obtain ⟨ts, h1, h2⟩ := ih f [] (by omega)
    rw [hr.step (renderItems rest) hs hfu n f cm, h1]
    refine ⟨_, rfl, ?_⟩
    simp only [List.map_cons, tkc, itemToks, List.cons.injEq, true_and]
    exact h2
  | @ws w rest hw _ ih =>
    intro f cm hf
    rw [render_cons] at hf ⊢
    simp only [LItem.text, List.length_append] at hf ⊢
    obtain ⟨g, rfl⟩ : ∃ g, f = g + w.length := ⟨f - w.length, by omega⟩
    rw [lexLoop_ws n (renderItems rest) w (fun c hc => isSpace_of_layout (hw c hc)) g cm]
    exact ih g cm (by omega)
  | @short c rest hc _ hr ih =>
    intro f cm hf
    obtain ⟨body, rfl, hnl, ho⟩ := hc
    rw [render_cons] at hf ⊢
    simp only [LItem.text, List.length_append, List.length_cons, List.cons_append] at hf ⊢
    obtain ⟨f, rfl⟩ : ∃ f', f = f' + 1 := ⟨f - 1, by omega⟩
    rw [lexLoop_comment, refComment_short body (renderItems rest) hnl ho hr]
    simp only
    obtain ⟨ts, h1, h2⟩ := ih f (body :: cm) (by omega)
    refine ⟨ts, h1, ?_⟩
    rw [h2, List.reverse_cons]
    simp only [itemToks, comText_short body hnl ho]
  | @long c rest hc _ ih =>
    intro f cm hf
    obtain ⟨lit, v, rfl, hl⟩ := hc
    obtain ⟨lvl, content, _, hct, _, hrc⟩ := comText_long lit v hl
    rw [render_cons] at hf ⊢
    simp only [LItem.text, List.length_append, List.length_cons, List.cons_append] at hf ⊢
    obtain ⟨f, rfl⟩ : ∃ f', f = f' + 1 := ⟨f - 1, by omega⟩
    rw [lexLoop_comment, hrc (renderItems rest)]
    simp only
    obtain ⟨ts, h1, h2⟩ := ih f (content :: cm) (by omega)
    refine ⟨ts, h1, ?_⟩
    rw [h2, List.reverse_cons]
    simp only [itemToks, hct]

/-! ## 3. the main theorems -/

theorem skipShebang_of_not_hash {t : List Char} (h : ∀ r, t ≠ '#' :: r) : Spec.skipShebang t = t :=
  Spec.skipShebang.eq_2 t (fun cs e => h cs e)

/-- **MAIN (with comments)**: the reference lexer reads the text of a well-formed layout as the layout's tokens, then
`eof`; each token (and `eof`) carries, in order, the texts `comText c` of the comment items `.com c` since the token before -/
theorem unlex_comments (is : List LItem) (h : LWF is) (hsh : ∀ r, renderItems is ≠ '#' :: r) :
    ∃ ts, Spec.lex (renderItems is) = .ok ts ∧ ts.map tkc = itemToks is [] := by
  unfold Spec.lex
  simp only [skipShebang_of_not_hash hsh]
  exact lexLoop_items _ h _ [] (Nat.lt_succ_self _)

/-- **MAIN**: `Spec.lex (renderItems is)` succeeds with exactly the layout's tokens, then `eof` -/
theorem unlex (is : List LItem) (h : LWF is) (hsh : ∀ r, renderItems is ≠ '#' :: r) :
    ∃ ts, Spec.lex (renderItems is) = .ok ts ∧ ts.map (·.tk) = itemTks is ++ [.eof] := by
  obtain ⟨ts, h1, h2⟩ := unlex_comments is h hsh
  refine ⟨ts, h1, ?_⟩
  have := congrArg (List.map (·.1)) h2
  rw [itemToks_tks, List.map_map] at this
  exact this

/-- the texts of the comment items, in order -/
def comTexts (is : List LItem) : List (List Char) :=
  is.flatMap fun x => match x with
    | .com c => [comText c]
    | _ => []

theorem itemToks_comments : ∀ (is : List LItem) (cm : List (List Char)),
    (itemToks is cm).flatMap (·.2) = cm ++ comTexts is
  | [], cm => by simp [itemToks, comTexts]
  | .tok a tk :: r, cm => by
    simp only [itemToks, List.flatMap_cons, itemToks_comments r [], comTexts, List.nil_append]
  | .ws w :: r, cm => by
    simp only [itemToks, itemToks_comments r cm, comTexts, List.flatMap_cons, List.nil_append]
  | .com c :: r, cm => by
    simp only [itemToks, itemToks_comments r _, comTexts, List.flatMap_cons, List.append_assoc]

/-- **all comments are delivered, in order, none is lost or invented** -/
theorem unlex_all_comments (is : List LItem) (h : LWF is) (hsh : ∀ r, renderItems is ≠ '#' :: r) :
    ∃ ts, Spec.lex (renderItems is) = .ok ts ∧ ts.flatMap (·.comments) = comTexts is := by
  obtain ⟨ts, h1, h2⟩ := unlex_comments is h hsh
  refine ⟨ts, h1, ?_⟩
  have := itemToks_comments is []
  rw [← h2, List.nil_append, List.flatMap_map] at this
  exact this

/-- token kinds of a lexing result (for closed examples) -/
def tksOf (r : Except LexErr (List Tok)) : Option (List Tk) :=
  match r with
  | .ok ts => some (ts.map (·.tk))
  | .error _ => none

/-- the hypothesis on `#` is needed: `#` `t` is a well-formed layout, but `Spec.lex` skips the line `#t` -/
theorem unlex_shebang_needed :
    LWF [.tok ['#'] (.sym "#"), .tok ['t'] (.name "t")] ∧
    tksOf (Spec.lex (renderItems [.tok ['#'] (.sym "#"), .tok ['t'] (.name "t")])) = some [.eof] := by
  refine ⟨?_, by decide +kernel⟩
  refine .tok (readsAs_of_isPiece (.sym ['#'] (by decide))) (.tok ?_ .nil (Or.inr rfl) (by intro d t e; cases e))
    (Or.inl rfl) (by intro d t e; cases e; decide)
  exact readsAs_of_isPiece (.word 't' [] (by decide) (by simp))

/-! ## 4. the text extended by a white-space run -/

/-- the layout ends in an unterminated short comment (nothing but empty items after it) -/
def EndsInShort (is : List LItem) : Prop :=
  ∃ pre c rest, is = pre ++ .com c :: rest ∧ IsShortComment c ∧ renderItems rest = []

theorem sepRequired_head (a : List Char) (d : Char) (t t' : List Char) :
    sepRequired a (d :: t) = sepRequired a (d :: t') := by
  unfold sepRequired
  simp only [List.head?_cons]

/-- A white-space run may be appended to a well-formed layout - unless the layout ends in a short comment and the run
does not start with a newline (then the blanks up to the next newline would become part of that comment). -/
theorem lwf_append_ws {is : List LItem} (h : LWF is) (w : List Char) (hw : ∀ c ∈ w, isLayoutSpace c = true)
    (hend : (w = [] ∨ ∃ t, w = '\n' :: t) ∨ ¬ EndsInShort is) : LWF (is ++ [.ws w]) := by
  have hrw : ∀ r : List LItem, renderItems (r ++ [.ws w]) = renderItems r ++ w := by
    intro r; rw [render_append]; simp [renderItems, LItem.text]
  induction h with
  | nil => exact .ws hw .nil
  | @tok a tk rest hr _ hs hfu ih =>
    have hend' : (w = [] ∨ ∃ t, w = '\n' :: t) ∨ ¬ EndsInShort rest := by
      rcases hend with h | h
      · exact Or.inl h
      · exact Or.inr (fun ⟨pre, c, r, e, h1, h2⟩ => h ⟨_ :: pre, c, r, by rw [e]; rfl, h1, h2⟩)
    refine .tok hr (ih hend') ?_ ?_
    · rw [show renderItems (rest.append [.ws w]) = renderItems rest ++ w from hrw rest]
      cases hrr : renderItems rest with
      | cons d t =>
        rw [hrr] at hs
        rcases hs with hs | hs
        · left; rw [List.cons_append, sepRequired_head a d _ t]; exact hs
        · cases hs
      | nil =>
        cases w with
        | nil => right; rfl
        | cons c w' => left; exact sepRequired_inert a hr.1 c w' (inert_of_layout (hw c (by simp)))
    · rw [show renderItems (rest.append [.ws w]) = renderItems rest ++ w from hrw rest]
      intro d t e
      cases hrr : renderItems rest with
      | cons d' t' =>
        rw [hrr] at e
        simp only [List.cons_append, List.cons.injEq] at e
        rw [← e.1]
        exact hfu d' t' hrr
      | nil =>
        rw [hrr, List.nil_append] at e
        exact fuses_inert a d (inert_of_layout (hw d (by simp [e])))
  | @ws w' rest hw' _ ih =>
    have hend' : (w = [] ∨ ∃ t, w = '\n' :: t) ∨ ¬ EndsInShort rest := by
      rcases hend with h | h
      · exact Or.inl h
      · exact Or.inr (fun ⟨pre, c, r, e, h1, h2⟩ => h ⟨_ :: pre, c, r, by rw [e]; rfl, h1, h2⟩)
    exact .ws hw' (ih hend')
  | @short c rest hc _ hr ih =>
    have hend' : (w = [] ∨ ∃ t, w = '\n' :: t) ∨ ¬ EndsInShort rest := by
      rcases hend with h | h
      · exact Or.inl h
      · exact Or.inr (fun ⟨pre, c, r, e, h1, h2⟩ => h ⟨_ :: pre, c, r, by rw [e]; rfl, h1, h2⟩)
    refine .short hc (ih hend') ?_
    rw [show renderItems (rest.append [.ws w]) = renderItems rest ++ w from hrw rest]
    rcases hr with hr | ⟨t, hr⟩
    · rw [hr, List.nil_append]
      rcases hend with h | h
      · exact h
      · exact absurd ⟨[], c, rest, rfl, hc, hr⟩ h
    · right; exact ⟨t ++ w, by rw [hr]; rfl⟩
  | @long c rest hc _ ih =>
    have hend' : (w = [] ∨ ∃ t, w = '\n' :: t) ∨ ¬ EndsInShort rest := by
      rcases hend with h | h
      · exact Or.inl h
      · exact Or.inr (fun ⟨pre, c, r, e, h1, h2⟩ => h ⟨_ :: pre, c, r, by rw [e]; rfl, h1, h2⟩)
    exact .long hc (ih hend')

theorem itemToks_append_ws (w : List Char) : ∀ (is : List LItem) (cm : List (List Char)),
    itemToks (is ++ [.ws w]) cm = itemToks is cm
  | [], cm => rfl
  | .tok a tk :: r, cm => by simp only [List.cons_append, itemToks, itemToks_append_ws w r]
  | .ws _ :: r, cm => by simp only [List.cons_append, itemToks, itemToks_append_ws w r]
  | .com c :: r, cm => by simp only [List.cons_append, itemToks, itemToks_append_ws w r]

/-- **COROLLARY**: the text of a well-formed layout, extended by a white-space run `w` (e.g. the statement separator the
formatter appends), is read as the same tokens with the same comments -/
theorem unlex_ws (is : List LItem) (h : LWF is) (w : List Char) (hw : ∀ c ∈ w, isLayoutSpace c = true)
    (hend : (w = [] ∨ ∃ t, w = '\n' :: t) ∨ ¬ EndsInShort is) (hsh : ∀ r, renderItems is ++ w ≠ '#' :: r) :
    ∃ ts, Spec.lex (renderItems is ++ w) = .ok ts ∧ ts.map tkc = itemToks is [] ∧ ts.map (·.tk) = itemTks is ++ [.eof] := by
  have hr : renderItems (is ++ [.ws w]) = renderItems is ++ w := by rw [render_append]; simp [renderItems, LItem.text]
  obtain ⟨ts, h1, h2⟩ := unlex_comments (is ++ [.ws w]) (lwf_append_ws h w hw hend) (by rw [hr]; exact hsh)
  rw [hr] at h1
  rw [itemToks_append_ws] at h2
  refine ⟨ts, h1, h2, ?_⟩
  have := congrArg (List.map (·.1)) h2
  rw [itemToks_tks, List.map_map] at this
  exact this

/-! ### any white-space run: the tokens stay, a trailing short comment may grow -/

theorem split_at_newline : ∀ w : List Char, ∃ w1 w2, w = w1 ++ w2 ∧ '\n' ∉ w1 ∧ (w2 = [] ∨ ∃ t, w2 = '\n' :: t)
  | [] => ⟨[], [], rfl, by simp, Or.inl rfl⟩
  | c :: w => by
    by_cases hc : c = '\n'
    · exact ⟨[], c :: w, rfl, by simp, Or.inr ⟨w, by rw [hc]⟩⟩
    · obtain ⟨w1, w2, h1, h2, h3⟩ := split_at_newline w
      refine ⟨c :: w1, w2, by rw [h1]; rfl, ?_, h3⟩
      intro hm
      rcases List.mem_cons.mp hm with e | e
      · exact hc e.symm
      · exact h2 e

/-- a layout without text has no tokens -/
theorem itemTks_of_render_nil {is : List LItem} (h : LWF is) (hr : renderItems is = []) : itemTks is = [] := by
  induction h with
  | nil => rfl
  | @tok a tk rest hra _ _ _ _ =>
    rw [render_cons] at hr
    exact absurd (List.append_eq_nil_iff.mp hr).1 hra.1
  | @ws w rest _ _ ih =>
    rw [render_cons] at hr
    simp only [itemTks, List.flatMap_cons, LItem.tks, List.nil_append]
    exact ih (List.append_eq_nil_iff.mp hr).2
  | @short c rest _ _ _ ih =>
    rw [render_cons] at hr
    simp only [itemTks, List.flatMap_cons, LItem.tks, List.nil_append]
    exact ih (List.append_eq_nil_iff.mp hr).2
  | @long c rest _ _ ih =>
    rw [render_cons] at hr
    simp only [itemTks, List.flatMap_cons, LItem.tks, List.nil_append]
    exact ih (List.append_eq_nil_iff.mp hr).2

/-- the text of a well-formed layout extended by any white-space run is the text of a well-formed layout with the same
tokens (a trailing short comment absorbs the blanks up to the first newline) -/
theorem lwf_extend_ws {is : List LItem} (h : LWF is) (w : List Char) (hw : ∀ c ∈ w, isLayoutSpace c = true) :
    ∃ is', LWF is' ∧ renderItems is' = renderItems is ++ w ∧ itemTks is' = itemTks is := by
  induction h with
  | nil => exact ⟨[.ws w], .ws hw .nil, by simp [renderItems, LItem.text], rfl⟩
  | @tok a tk rest hr _ hs hfu ih =>
    obtain ⟨rest', h1, h2, h3⟩ := ih
    refine ⟨.tok a tk :: rest', .tok hr h1 ?_ ?_, ?_, ?_⟩
    · rw [h2]
      cases hrr : renderItems rest with
      | cons d t =>
        rw [hrr] at hs
        rcases hs with hs | hs
        · left; rw [List.cons_append, sepRequired_head a d _ t]; exact hs
        · cases hs
      | nil =>
        cases w with
        | nil => right; rfl
        | cons c w' => left; exact sepRequired_inert a hr.1 c w' (inert_of_layout (hw c (by simp)))
    · rw [h2]
      intro d t e
      cases hrr : renderItems rest with
      | cons d' t' =>
        rw [hrr] at e
        simp only [List.cons_append, List.cons.injEq] at e
        rw [← e.1]
        exact hfu d' t' hrr
      | nil =>
        rw [hrr, List.nil_append] at e
        exact fuses_inert a d (inert_of_layout (hw d (by simp [e])))
    · rw [render_cons, render_cons, h2, List.append_assoc]
    · simp only [itemTks, List.flatMap_cons] at h3 ⊢
      rw [h3]
  | @ws w' rest hw' _ ih =>
    obtain ⟨rest', h1, h2, h3⟩ := ih
    refine ⟨.ws w' :: rest', .ws hw' h1, by rw [render_cons, render_cons, h2, List.append_assoc], ?_⟩
    simp only [itemTks, List.flatMap_cons] at h3 ⊢
    rw [h3]
  | @long c rest hc _ ih =>
    obtain ⟨rest', h1, h2, h3⟩ := ih
    refine ⟨.com c :: rest', .long hc h1, by rw [render_cons, render_cons, h2, List.append_assoc], ?_⟩
    simp only [itemTks, List.flatMap_cons] at h3 ⊢
    rw [h3]
  | @short c rest hc hrest hr ih =>
    rcases hr with hr | ⟨t, hr⟩
    · obtain ⟨w1, w2, e, hn, h2⟩ := split_at_newline w
      obtain ⟨body, rfl, hnl, ho⟩ := hc
      have hw1 : ∀ x ∈ w1, isLayoutSpace x = true := fun x hx => hw x (by rw [e]; simp [hx])
      have hw2 : ∀ x ∈ w2, isLayoutSpace x = true := fun x hx => hw x (by rw [e]; simp [hx])
      have hh : ∀ d : Char, (d = '[' ∨ d = '=') → w1.head? ≠ some d := by
        intro d hd hh
        cases w1 with
        | nil => cases hh
        | cons x t =>
          simp only [List.head?_cons, Option.some.injEq] at hh
          have := hw1 x (by simp)
          rw [hh] at this
          rcases hd with rfl | rfl <;> exact absurd this (by decide)
      refine ⟨[.com ('-' :: '-' :: (body ++ w1)), .ws w2], ?_, ?_, ?_⟩
      · refine .short ⟨body ++ w1, rfl, ?_, longOpener_append_none' body w1 ho (hh '[' (Or.inl rfl)) (hh '=' (Or.inr rfl))⟩
          (.ws hw2 .nil) ?_
        · intro hm
          rcases List.mem_append.mp hm with hm | hm
          · exact hnl hm
          · exact hn hm
        · simpa [renderItems, LItem.text] using h2
      · rw [render_cons (.com ('-' :: '-' :: body)) rest, hr, e]
        simp [renderItems, LItem.text]
      · rw [show itemTks (.com ('-' :: '-' :: body) :: rest) = itemTks rest from rfl, itemTks_of_render_nil hrest hr]
        rfl
    · obtain ⟨rest', h1, h2, h3⟩ := ih
      refine ⟨.com c :: rest', .short hc h1 (Or.inr ⟨t ++ w, by rw [h2, hr]; rfl⟩),
        by rw [render_cons, render_cons, h2, List.append_assoc], ?_⟩
      simp only [itemTks, List.flatMap_cons] at h3 ⊢
      rw [h3]

/-- **COROLLARY (tokens, any white-space run)**: `renderItems is ++ w` is read as the layout's tokens, then `eof` -/
theorem unlex_ws_tks (is : List LItem) (h : LWF is) (w : List Char) (hw : ∀ c ∈ w, isLayoutSpace c = true)
    (hsh : ∀ r, renderItems is ++ w ≠ '#' :: r) :
    ∃ ts, Spec.lex (renderItems is ++ w) = .ok ts ∧ ts.map (·.tk) = itemTks is ++ [.eof] := by
  obtain ⟨is', h1, h2, h3⟩ := lwf_extend_ws h w hw
  obtain ⟨ts, h4, h5⟩ := unlex is' h1 (by rw [h2]; exact hsh)
  rw [h2] at h4
  rw [h3] at h5
  exact ⟨ts, h4, h5⟩

/-! ### the stripped variant: a trailing white-space run may be dropped -/

theorem lwf_drop_ws (w : List Char) : ∀ {is : List LItem}, LWF (is ++ [.ws w]) → LWF is
  | [], _ => .nil
  | x :: is, h => by
    have hrw : renderItems (is ++ [.ws w]) = renderItems is ++ w := by rw [render_append]; simp [renderItems, LItem.text]
    rw [List.cons_append] at h
    cases h with
    | tok hr hrest hs hfu =>
      refine .tok hr (lwf_drop_ws w hrest) ?_ ?_
      · cases hrr : renderItems is with
        | nil => right; rfl
        | cons d t =>
          left
          rw [hrw, hrr] at hs
          rcases hs with hs | hs
          · rw [← sepRequired_head _ d (t ++ w) t]; exact hs
          · cases hs
      · intro d t e
        exact hfu d (t ++ w) (by rw [hrw, e]; rfl)
    | ws hw hrest => exact .ws hw (lwf_drop_ws w hrest)
    | short hc hrest hr =>
      refine .short hc (lwf_drop_ws w hrest) ?_
      cases hrr : renderItems is with
      | nil => left; rfl
      | cons d t =>
        right
        rw [hrw, hrr] at hr
        rcases hr with hr | ⟨t', hr⟩
        · cases hr
        · simp only [List.cons_append, List.cons.injEq] at hr
          exact ⟨t, by rw [hr.1]⟩
    | long hc hrest => exact .long hc (lwf_drop_ws w hrest)

/-- **COROLLARY (stripped)**: the text without its trailing white-space run is read as the same tokens and comments -/
theorem unlex_strip (is : List LItem) (w : List Char) (h : LWF (is ++ [.ws w])) (hsh : ∀ r, renderItems is ≠ '#' :: r) :
    ∃ ts, Spec.lex (renderItems is) = .ok ts ∧ ts.map tkc = itemToks (is ++ [.ws w]) [] ∧
      ts.map (·.tk) = itemTks (is ++ [.ws w]) ++ [.eof] := by
  obtain ⟨ts, h1, h2⟩ := unlex_comments is (lwf_drop_ws w h) hsh
  refine ⟨ts, h1, by rw [itemToks_append_ws]; exact h2, ?_⟩
  have := congrArg (List.map (·.1)) h2
  rw [itemToks_tks, List.map_map] at this
  have e : itemTks (is ++ [.ws w]) = itemTks is := by simp [itemTks, LItem.tks]
  rw [e]
  exact this

end Tumfl.Theory
