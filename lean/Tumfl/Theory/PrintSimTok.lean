import Tumfl.Theory.PrintSimDefs
import Tumfl.Props.C06
import Tumfl.Inst.StrRead
/-!
# Token reading of the leaf pieces (names, keywords, symbols, operators, strings, numerals, comments)
-/
namespace Tumfl.Theory
open Tumfl.Model

variable {semi : Bool}

/-! ## `TK` distributes -/

@[simp] theorem TK_nil : TK semi [] = [] := rfl

@[simp] theorem TK_append (a b : Pieces) : TK semi (a ++ b) = TK semi a ++ TK semi b := by
  simp [TK, piecesTks, List.flatMap_append]

theorem TK_cons (p : Piece) (r : Pieces) : TK semi (p :: r) = (pieceTks semi p).map mkTok ++ TK semi r := by
  simp [TK, piecesTks, List.flatMap_cons]

@[simp] theorem TK_sep_argument (r : Pieces) : TK semi (S .argument :: r) = mkTok (.sym ",") :: TK semi r := by
  simp [TK_cons, S, pieceTks]
@[simp] theorem TK_sep_dot (r : Pieces) : TK semi (S .dot :: r) = mkTok (.sym ".") :: TK semi r := by
  simp [TK_cons, S, pieceTks]
@[simp] theorem TK_sep_space (r : Pieces) : TK semi (S .space :: r) = TK semi r := by simp [TK_cons, S, pieceTks]
@[simp] theorem TK_sep_statement (r : Pieces) : TK semi (S .statement :: r) = semiT semi ++ TK semi r := by
  cases semi <;> simp [TK_cons, S, pieceTks, semiT]
@[simp] theorem TK_sep_newline (r : Pieces) : TK semi (S .newline :: r) = TK semi r := by simp [TK_cons, S, pieceTks]
@[simp] theorem TK_sep_indent (r : Pieces) : TK semi (S .indent :: r) = TK semi r := by simp [TK_cons, S, pieceTks]
@[simp] theorem TK_sep_deindent (r : Pieces) : TK semi (S .deindent :: r) = TK semi r := by simp [TK_cons, S, pieceTks]
@[simp] theorem TK_sep_block (r : Pieces) : TK semi (S .block :: r) = semiT semi ++ TK semi r := by
  cases semi <;> simp [TK_cons, S, pieceTks, semiT]

theorem TK_str (s : List Char) (r : Pieces) : TK semi (.str s :: r) = (strTk s).map mkTok ++ TK semi r := by
  simp [TK_cons, pieceTks]

/-! ## keywords and symbols -/

theorem TK_P_of {s : String} {k : Spec.Tk} (h : strTk s.toList = [k]) (r : Pieces) : TK semi (P s :: r) = mkTok k :: TK semi r := by
  simp [P, TK_str, h]

@[simp] theorem TK_nil_kw (r) : TK semi (P "nil" :: r) = mkTok (.kw "nil") :: TK semi r := TK_P_of (by decide) r
@[simp] theorem TK_true_kw (r) : TK semi (P "true" :: r) = mkTok (.kw "true") :: TK semi r := TK_P_of (by decide) r
@[simp] theorem TK_false_kw (r) : TK semi (P "false" :: r) = mkTok (.kw "false") :: TK semi r := TK_P_of (by decide) r
@[simp] theorem TK_function_kw (r) : TK semi (P "function" :: r) = mkTok (.kw "function") :: TK semi r := TK_P_of (by decide) r
@[simp] theorem TK_do_kw (r) : TK semi (P "do" :: r) = mkTok (.kw "do") :: TK semi r := TK_P_of (by decide) r
@[simp] theorem TK_end_kw (r) : TK semi (P "end" :: r) = mkTok (.kw "end") :: TK semi r := TK_P_of (by decide) r
@[simp] theorem TK_return_kw (r) : TK semi (P "return" :: r) = mkTok (.kw "return") :: TK semi r := TK_P_of (by decide) r
@[simp] theorem TK_break_kw (r) : TK semi (P "break" :: r) = mkTok (.kw "break") :: TK semi r := TK_P_of (by decide) r
@[simp] theorem TK_goto_kw (r) : TK semi (P "goto" :: r) = mkTok (.kw "goto") :: TK semi r := TK_P_of (by decide) r
@[simp] theorem TK_if_kw (r) : TK semi (P "if" :: r) = mkTok (.kw "if") :: TK semi r := TK_P_of (by decide) r
@[simp] theorem TK_then_kw (r) : TK semi (P "then" :: r) = mkTok (.kw "then") :: TK semi r := TK_P_of (by decide) r
@[simp] theorem TK_else_kw (r) : TK semi (P "else" :: r) = mkTok (.kw "else") :: TK semi r := TK_P_of (by decide) r
@[simp] theorem TK_elseif_kw (r) : TK semi (P "elseif" :: r) = mkTok (.kw "elseif") :: TK semi r := TK_P_of (by decide) r
@[simp] theorem TK_for_kw (r) : TK semi (P "for" :: r) = mkTok (.kw "for") :: TK semi r := TK_P_of (by decide) r
@[simp] theorem TK_in_kw (r) : TK semi (P "in" :: r) = mkTok (.kw "in") :: TK semi r := TK_P_of (by decide) r
@[simp] theorem TK_local_kw (r) : TK semi (P "local" :: r) = mkTok (.kw "local") :: TK semi r := TK_P_of (by decide) r
@[simp] theorem TK_repeat_kw (r) : TK semi (P "repeat" :: r) = mkTok (.kw "repeat") :: TK semi r := TK_P_of (by decide) r
@[simp] theorem TK_until_kw (r) : TK semi (P "until" :: r) = mkTok (.kw "until") :: TK semi r := TK_P_of (by decide) r
@[simp] theorem TK_while_kw (r) : TK semi (P "while" :: r) = mkTok (.kw "while") :: TK semi r := TK_P_of (by decide) r

@[simp] theorem TK_lpar (r) : TK semi (P "(" :: r) = mkTok (.sym "(") :: TK semi r := TK_P_of (by decide) r
@[simp] theorem TK_rpar (r) : TK semi (P ")" :: r) = mkTok (.sym ")") :: TK semi r := TK_P_of (by decide) r
@[simp] theorem TK_lcurl (r) : TK semi (P "{" :: r) = mkTok (.sym "{") :: TK semi r := TK_P_of (by decide) r
@[simp] theorem TK_rcurl (r) : TK semi (P "}" :: r) = mkTok (.sym "}") :: TK semi r := TK_P_of (by decide) r
@[simp] theorem TK_lbrack (r) : TK semi (P "[" :: r) = mkTok (.sym "[") :: TK semi r := TK_P_of (by decide) r
@[simp] theorem TK_rbrack (r) : TK semi (P "]" :: r) = mkTok (.sym "]") :: TK semi r := TK_P_of (by decide) r
@[simp] theorem TK_assign (r) : TK semi (P "=" :: r) = mkTok (.sym "=") :: TK semi r := TK_P_of (by decide) r
@[simp] theorem TK_colon (r) : TK semi (P ":" :: r) = mkTok (.sym ":") :: TK semi r := TK_P_of (by decide) r
@[simp] theorem TK_dcolon (r) : TK semi (P "::" :: r) = mkTok (.sym "::") :: TK semi r := TK_P_of (by decide) r
@[simp] theorem TK_semi (r) : TK semi (P ";" :: r) = mkTok (.sym ";") :: TK semi r := TK_P_of (by decide) r
@[simp] theorem TK_lt (r) : TK semi (P "<" :: r) = mkTok (.sym "<") :: TK semi r := TK_P_of (by decide) r
@[simp] theorem TK_gt (r) : TK semi (P ">" :: r) = mkTok (.sym ">") :: TK semi r := TK_P_of (by decide) r
@[simp] theorem TK_ellipsis (r) : TK semi (P "..." :: r) = mkTok (.sym "...") :: TK semi r := TK_P_of (by decide) r

@[simp] theorem TK_wrapParens (ps : Pieces) : TK semi (wrapParens ps) = mkTok (.sym "(") :: (TK semi ps ++ [mkTok (.sym ")")]) := by
  simp [wrapParens]

/-! ## operators -/

def bopTk : Spec.BOp → Spec.Tk
  | .or => .kw "or" | .and => .kw "and"
  | o => .sym o.sym

def uopTk : Spec.UOp → Spec.Tk
  | .not => .kw "not"
  | u => .sym u.sym

theorem strTk_bop (o : Spec.BOp) : strTk o.sym.toList = [bopTk o] := by cases o <;> decide
theorem strTk_uop (u : Spec.UOp) : strTk u.sym.toList = [uopTk u] := by cases u <;> decide
@[simp] theorem binOfTk_bopTk (o : Spec.BOp) : Spec.binOfTk (bopTk o) = some o := by cases o <;> decide
@[simp] theorem unOfTk_uopTk (u : Spec.UOp) : Spec.unOfTk (uopTk u) = some u := by cases u <;> decide

@[simp] theorem TK_bop (o : Spec.BOp) (r) : TK semi (.str o.sym.toList :: r) = mkTok (bopTk o) :: TK semi r := by
  simp [TK_str, strTk_bop]
/-- the unary reading of an operator piece (`-` and `~` are spelled like binary operators: same token) -/
theorem TK_uop (u : Spec.UOp) (r) : TK semi (.str u.sym.toList :: r) = mkTok (uopTk u) :: TK semi r := by
  simp [TK_str, strTk_uop]

/-! ## names -/

theorem isAlpha_not_special {c : Char} (h : Spec.isAlpha c = true) :
    c ≠ '-' ∧ c ≠ '"' ∧ c ≠ '\'' ∧ c ≠ '[' ∧ c ≠ '.' ∧ Spec.isDigit c = false ∧ ∀ s ∈ symbolTexts, ∀ r, s ≠ c :: r := by
  have h' : ∀ d : Char, d ∈ ['-', '"', '\'', '[', '.', '0', '1', '2', '3', '4', '5', '6', '7', '8', '9',
      '=', '~', '<', '>', '/', ':', '+', '*', '%', '^', '#', '&', '|', '(', ')', '{', '}', ']', ';', ','] →
      Spec.isAlpha d = false := by decide
  refine ⟨?_, ?_, ?_, ?_, ?_, ?_, ?_⟩
  · rintro rfl; simp [h' '-' (by simp)] at h
  · rintro rfl; simp [h' '"' (by simp)] at h
  · rintro rfl; simp [h' '\'' (by simp)] at h
  · rintro rfl; simp [h' '[' (by simp)] at h
  · rintro rfl; simp [h' '.' (by simp)] at h
  · cases hd : Spec.isDigit c
    · rfl
    · exfalso
      simp only [Spec.isDigit, Spec.isAlpha, Bool.or_eq_true, Bool.and_eq_true, decide_eq_true_eq, Inst.char_le_iff,
        beq_iff_eq] at hd h
      have e0 : ('0' : Char).toNat = 48 := by decide
      have e9 : ('9' : Char).toNat = 57 := by decide
      have ea : ('a' : Char).toNat = 97 := by decide
      have eA : ('A' : Char).toNat = 65 := by decide
      rw [e0, e9] at hd
      rw [ea, eA] at h
      rcases h with (h | h) | h
      · omega
      · omega
      · subst h; revert hd; decide
  · intro s hs r he
    subst he
    have : ∀ s ∈ symbolTexts, ∀ d ∈ s.head?, Spec.isAlpha d = false := by decide
    have := this _ hs c (by simp)
    simp [this] at h

theorem strTk_ident {n : List Char} (h : identOK n = true) : strTk n = [.name (String.ofList n)] := by
  cases n with
  | nil => simp [identOK] at h
  | cons c cs =>
    simp only [identOK, Bool.and_eq_true, Bool.not_eq_true'] at h
    obtain ⟨⟨ha, _⟩, hk⟩ := h
    obtain ⟨h1, h2, h3, h4, h5, h6, h7⟩ := isAlpha_not_special ha
    have hs : isSymText (c :: cs) = false := by
      cases hh : isSymText (c :: cs)
      · rfl
      · exfalso
        simp only [isSymText, List.contains_iff_mem] at hh
        exact h7 _ hh cs rfl
    have hc : startsWith (c :: cs) ['-', '-'] = false := by
      simp [startsWith, isPrefix, Ne.symm h1]
    simp [strTk, hc, hk, hs, h2, h3, h4, h5, h6]

@[simp] theorem TK_ident {n : List Char} (h : identOK n = true) (r) : TK semi (.str n :: r) = mkTok (.name (String.ofList n)) :: TK semi r := by
  simp [TK_str, strTk_ident h]

theorem nameNodeOK_iff {e : Expr} (h : nameNodeOK e = true) : ∃ t n, e = .name t n ∧ identOK n = true := by
  cases e <;> simp [nameNodeOK] at h
  exact ⟨_, _, rfl, h⟩

theorem TK_nameNode (sty : Style) {e : Expr} (h : nameNodeOK e = true) (r : Pieces) :
    TK semi (visitExpr sty e ++ r) = mkTok (.name (nameS e)) :: TK semi r := by
  obtain ⟨t, n, rfl, hn⟩ := nameNodeOK_iff h
  simp [visitExpr, nameS, nameStr, TK_ident hn]

theorem TK_nameStr {e : Expr} (h : nameNodeOK e = true) (r : Pieces) :
    TK semi (.str (nameStr e) :: r) = mkTok (.name (nameS e)) :: TK semi r := by
  obtain ⟨t, n, rfl, hn⟩ := nameNodeOK_iff h
  simp [nameS, nameStr, TK_ident hn]

theorem NameRel_of_nameNodeOK {e : Expr} (h : nameNodeOK e = true) : NameRel e (nameS e) := by
  obtain ⟨t, n, rfl, _⟩ := nameNodeOK_iff h
  exact ⟨t, n, rfl, rfl⟩

/-! ## strings -/

theorem ps_quoted_roundtrip_ge (q : Char) (hq : q = '"' ∨ q = '\'') (v rest : List Char) :
    ∀ f, v.length + 1 ≤ f → Spec.strBody q f (v.flatMap (escapeChar q) ++ q :: rest) =
      some (v.map (fun c => Spec.SUnit.ch c.toNat), rest) := by
  induction v with
  | nil =>
    intro f hf
    obtain ⟨f, rfl⟩ : ∃ g, f = g + 1 := ⟨f - 1, by simp at hf; omega⟩
    simp [Spec.strBody]
  | cons c cs ih =>
    intro f hf
    obtain ⟨f, rfl⟩ : ∃ g, f = g + 1 := ⟨f - 1, by simp at hf; omega⟩
    rw [List.flatMap_cons, List.append_assoc, escapeChar_eq, strBody_escapeChar Inst.escTable_ok q hq,
      ← escapeChar_eq, ih f (by simp at hf; omega)]
    rfl

theorem length_flatMap_escape (q : Char) (v : List Char) : v.length ≤ (v.flatMap (escapeChar q)).length := by
  induction v with
  | nil => simp
  | cons c cs ih =>
    have : 1 ≤ (escapeChar q c).length := by
      unfold escapeChar
      split
      · simp
      · split
        · simp
        · split
          · simp
          · split <;> simp
    simp only [List.flatMap_cons, List.length_append, List.length_cons]
    omega

theorem isKwText_cons_false {c : Char} (cs : List Char) (h : Spec.isAlpha c = false) : isKwText (c :: cs) = false := by
  cases hh : isKwText (c :: cs)
  · rfl
  · exfalso
    simp only [isKwText, List.contains_iff_mem] at hh
    have key : ∀ s ∈ Spec.keywords, ∀ d ∈ s.toList.head?, Spec.isAlpha d = true := by decide
    have := key _ hh c (by simp)
    simp [this] at h

theorem strTk_quoted (q : Char) (hq : q = '"' ∨ q = '\'') (v : List Char) :
    strTk (q :: v.flatMap (escapeChar q) ++ [q]) = [.str (v.map fun c => Spec.SUnit.ch c.toNat)] := by
  have hqa : Spec.isAlpha q = false := by rcases hq with rfl | rfl <;> decide
  have hk := isKwText_cons_false (v.flatMap (escapeChar q) ++ [q]) hqa
  have hs : isSymText (q :: (v.flatMap (escapeChar q) ++ [q])) = false := by
    cases hh : isSymText (q :: (v.flatMap (escapeChar q) ++ [q]))
    · rfl
    · exfalso
      simp only [isSymText, List.contains_iff_mem] at hh
      have key : ∀ s ∈ symbolTexts, ∀ d ∈ s.head?, d ≠ '"' ∧ d ≠ '\'' := by decide
      have := key _ hh q (by simp)
      rcases hq with rfl | rfl <;> simp at this
  have hc : startsWith (q :: (v.flatMap (escapeChar q) ++ [q])) ['-', '-'] = false := by
    rcases hq with rfl | rfl <;> simp [startsWith, isPrefix]
  have hqq : (q == '"' || q == '\'') = true := by rcases hq with rfl | rfl <;> decide
  have hb := ps_quoted_roundtrip_ge q hq v [] ((v.flatMap (escapeChar q) ++ [q]).length + 1)
    (by have := length_flatMap_escape q v; simp only [List.length_append, List.length_cons, List.length_nil]; omega)
  simp only [List.cons_append, strTk, hc, hk, hs, hqq, if_true, hb]
  simp

theorem ps_countEq_replicate (n : Nat) (r : List Char) (h : ∀ t, r ≠ '=' :: t) :
    Spec.countEq (repeatChar '=' n ++ r) = (n, r) := by
  induction n with
  | zero =>
    simp only [repeatChar, List.replicate, List.nil_append]
    cases r with
    | nil => rfl
    | cons c cs =>
      have : c ≠ '=' := by rintro rfl; exact h cs rfl
      unfold Spec.countEq
      split
      · rename_i heq; simp at heq; exact absurd heq.1 this
      · rfl
  | succ n ih =>
    simp only [repeatChar, List.replicate_succ, List.cons_append] at ih ⊢
    rw [Spec.countEq, ih]

theorem strTk_long (v : List Char) :
    strTk (('[' :: repeatChar '=' (findLevel v) ++ ['[']) ++ (if startsWith v ['\n'] then ['\n'] else []) ++ v ++
      (']' :: repeatChar '=' (findLevel v) ++ [']'])) = [.str (v.map fun c => Spec.SUnit.ch c.toNat)] := by
  generalize hstart : (if startsWith v ['\n'] then ['\n'] else []) = start
  have hk := isKwText_cons_false (repeatChar '=' (findLevel v) ++ ['['] ++ start ++ v ++
      (']' :: repeatChar '=' (findLevel v) ++ [']'])) (by decide : Spec.isAlpha '[' = false)
  have hs : isSymText ('[' :: (repeatChar '=' (findLevel v) ++ ['['] ++ start ++ v ++
      (']' :: repeatChar '=' (findLevel v) ++ [']']))) = false := by
    cases hh : isSymText ('[' :: (repeatChar '=' (findLevel v) ++ ['['] ++ start ++ v ++
      (']' :: repeatChar '=' (findLevel v) ++ [']'])))
    · rfl
    · exfalso
      simp only [isSymText, List.contains_iff_mem] at hh
      have key : ∀ s ∈ symbolTexts, s.head? = some '[' → s.tail = [] := by decide
      have := key _ hh rfl
      cases hr : repeatChar '=' (findLevel v) <;> simp [hr] at this
  have hop : Spec.longOpener ('[' :: (repeatChar '=' (findLevel v) ++ ['['] ++ start ++ v ++
      (']' :: repeatChar '=' (findLevel v) ++ [']']))) =
      some (findLevel v, start ++ v ++ (']' :: repeatChar '=' (findLevel v) ++ [']'])) := by
    have : repeatChar '=' (findLevel v) ++ ['['] ++ start ++ v ++ (']' :: repeatChar '=' (findLevel v) ++ [']']) =
        repeatChar '=' (findLevel v) ++ ('[' :: (start ++ v ++ (']' :: repeatChar '=' (findLevel v) ++ [']']))) := by
      simp
    rw [this, Spec.longOpener, ps_countEq_replicate _ _ (by intro t h; cases h)]
    rfl
  have hb := Props.C06_long v []
  simp only [hstart, List.append_nil] at hb
  have e1 : ('[' :: repeatChar '=' (findLevel v) ++ ['[']) ++ start ++ v ++ (']' :: repeatChar '=' (findLevel v) ++ [']']) =
      '[' :: (repeatChar '=' (findLevel v) ++ ['['] ++ start ++ v ++ (']' :: repeatChar '=' (findLevel v) ++ [']'])) := by
    simp
  rw [e1]
  simp only [strTk, startsWith, isPrefix, hk, hs, hop, hb]
  simp

theorem TK_visitString (sty : Style) (v : List Char) (r : Pieces) :
    TK semi (visitString sty v ++ r) = mkTok (.str (v.map fun c => Spec.SUnit.ch c.toNat)) :: TK semi r := by
  rcases Props.C06_forms sty v with ⟨q, hq, h⟩ | h
  · rw [h]
    have := strTk_quoted q hq v
    simp only [List.cons_append] at this
    simp [TK_str, this]
  · rw [h]
    have := strTk_long v
    simp only [List.cons_append, List.append_assoc, List.nil_append] at this
    simp [TK_str, this]

/-- the first piece of a string literal is never the bare `(` the `;` guard looks for -/
theorem visitString_head (sty : Style) (v : List Char) : ∃ s, visitString sty v = [.str s] ∧ s ≠ ['('] := by
  rcases Props.C06_forms sty v with ⟨q, hq, h⟩ | h
  · refine ⟨_, h, ?_⟩
    rcases hq with rfl | rfl <;> simp
  · exact ⟨_, h, by simp⟩

/-! ## numerals -/

theorem strTk_number {n : NumTuple} (h : numOKp n = true) :
    ∃ m, Spec.parseNumeral (numberStr n) = some m ∧ canon m = m ∧ strTk (numberStr n) = [.num m] := by
  simp only [numOKp, Bool.and_eq_true] at h
  obtain ⟨h1, h2⟩ := h
  cases hp : Spec.parseNumeral (numberStr n) with
  | none => simp [hp] at h2
  | some m =>
    simp only [hp, beq_iff_eq] at h2
    refine ⟨m, rfl, h2, ?_⟩
    cases hs : numberStr n with
    | nil => simp [hs] at h1
    | cons c cs =>
      rw [hs] at h1 hp
      simp only at h1
      have hca : Spec.isAlpha c = false := by
        cases ha : Spec.isAlpha c
        · rfl
        · exfalso
          obtain ⟨_, _, _, _, h5, h6, _⟩ := isAlpha_not_special ha
          simp [h6, h5] at h1
      have hk := isKwText_cons_false cs hca
      have hdash : c ≠ '-' ∧ c ≠ '"' ∧ c ≠ '\'' ∧ c ≠ '[' := by
        have : ∀ d : Char, d ∈ ['-', '"', '\'', '['] → Spec.isDigit d = false ∧ d ≠ '.' := by decide
        refine ⟨?_, ?_, ?_, ?_⟩ <;> rintro rfl <;> simp [Spec.isDigit] at h1 <;> revert h1 <;> decide
      have hsym : isSymText (c :: cs) = false := by
        cases hh : isSymText (c :: cs)
        · rfl
        · exfalso
          simp only [isSymText, List.contains_iff_mem] at hh
          -- a symbol starting with a digit does not exist; one starting with '.' is ".", ".." or "..."
          have key : ∀ s ∈ symbolTexts, ∀ d ∈ s.head?, Spec.isDigit d = false ∧
              (d = '.' → ∀ e ∈ s.tail.head?, Spec.isDigit e = false) := by decide
          obtain ⟨k1, k2⟩ := key _ hh c (by simp)
          simp only [List.tail_cons] at k2
          simp only [k1, Bool.false_or, Bool.and_eq_true, beq_iff_eq] at h1
          obtain ⟨hc, hd⟩ := h1
          cases cs with
          | nil => simp at hd
          | cons d t =>
            have := k2 hc d (by simp)
            simp [this] at hd
      have hc : startsWith (c :: cs) ['-', '-'] = false := by simp [startsWith, isPrefix, Ne.symm hdash.1]
      simp [strTk, hc, hk, hsym, hdash, h1, hp]

theorem NumRel_of_numOKp {n : NumTuple} (h : numOKp n = true) :
    ∃ m, Spec.parseNumeral (numberStr n) = some m ∧ NumRel n m := by
  obtain ⟨m, hp, hc, _⟩ := strTk_number h
  exact ⟨m, hp, by rw [NumRel, hc]; exact hp⟩

theorem TK_number {n : NumTuple} (h : numOKp n = true) (r : Pieces) :
    TK semi (.str (numberStr n) :: r) = mkTok (.num ((Spec.parseNumeral (numberStr n)).getD default)) :: TK semi r := by
  obtain ⟨m, hp, _, hs⟩ := strTk_number h
  simp [TK_str, hs, hp]

/-! ## comments -/

/-- a comment is read as nothing, or - a long comment, which is followed by a statement separator - as one `;` -/
theorem TK_formatComment (sty : Style) (c : List Char) :
    TK semi (formatComment sty c) = [] ∨ TK semi (formatComment sty c) = semiT semi := by
  unfold formatComment
  simp only
  split
  · right; simp [TK_str, strTk, startsWith, isPrefix]
  · left; simp [TK_str, strTk, startsWith, isPrefix]

/-- the comments in front of a statement are read as `;` tokens only -/
theorem TK_stmtCommentPieces (sty : Style) (s : Stmt) :
    TK semi (stmtCommentPieces sty s) = List.replicate (cmtN semi sty s) (mkTok (.sym ";")) := by
  have key : ∀ ps : Pieces, (∀ t ∈ TK semi ps, t = mkTok (.sym ";")) →
      TK semi ps = List.replicate (piecesTks semi ps).length (mkTok (.sym ";")) := by
    intro ps h
    have : (piecesTks semi ps).length = (TK semi ps).length := by simp [TK]
    rw [this]
    exact List.eq_replicate_iff.mpr ⟨rfl, h⟩
  unfold cmtN
  apply key
  unfold stmtCommentPieces
  split
  · generalize stmtComments s = cs
    induction cs with
    | nil => simp
    | cons c cs ih =>
      intro t ht
      simp only [List.flatMap_cons, TK_append, List.mem_append] at ht
      rcases ht with ht | ht
      · rcases TK_formatComment (semi := semi) sty c with h | h
        · rw [h] at ht; cases ht
        · rw [h] at ht
          cases semi <;> simp [semiT] at ht
          exact ht
      · exact ih t ht
  · simp

end Tumfl.Theory
