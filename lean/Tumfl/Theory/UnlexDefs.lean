import Tumfl.Theory.Boundary
import Tumfl.Theory.TriviaCore
/-!
# Layout items: the interface between "the formatter produces such a text" and "the reference lexer reads it back"
-/
namespace Tumfl.Theory
open Tumfl.Model

/-- `a` is the spelling of token `tk`, robustly: whatever follows it - provided the follower does not glue to it
(`sepRequired a b = .ok false` and not one of the `fuses` adjacencies) - the reference lexer reads exactly `tk` from
`a ++ b ++ rest` and continues at `b ++ rest`.  Every `IsPiece` is one (`boundary_lexOne`); a quoted literal wrapped with `\z` is one. -/
def ReadsAs (a : List Char) (tk : Spec.Tk) : Prop :=
  a ≠ [] ∧ AtToken a ∧
  ∀ b rest, sepRequired a b = .ok false → (∀ d t, b = d :: t → fuses a d = false) → lexOne (a ++ b ++ rest) = some (tk, b ++ rest)

/-- white space the layout passes produce -/
def isLayoutSpace (c : Char) : Bool := c == ' ' || c == '\n' || c == '\t'

inductive LItem
  /-- a token with its spelling -/
  | tok (a : List Char) (tk : Spec.Tk)
  /-- a possibly empty run of blanks, tabs and newlines -/
  | ws (w : List Char)
  /-- a comment, spelled `--...` (short: up to the end of the line; long: `--[=*[ ... ]=*]`) -/
  | com (c : List Char)

def LItem.text : LItem → List Char
  | .tok a _ => a
  | .ws w => w
  | .com c => c

def LItem.tks : LItem → List Spec.Tk
  | .tok _ tk => [tk]
  | _ => []

def renderItems (is : List LItem) : List Char := is.flatMap LItem.text
def itemTks (is : List LItem) : List Spec.Tk := is.flatMap LItem.tks

/-- a short comment: `--` followed by a text without newline that does not begin with a long-bracket opener -/
def IsShortComment (c : List Char) : Prop :=
  ∃ body, c = '-' :: '-' :: body ∧ '\n' ∉ body ∧ Spec.longOpener body = none
/-- a long comment: `--` followed by a complete long bracket -/
def IsLongComment (c : List Char) : Prop :=
  ∃ lit v, c = '-' :: '-' :: lit ∧ IsLongLit lit v

/-- the text that follows position `i`: the concatenation of the remaining items -/
def after (is : List LItem) : List Char := renderItems is

/-- well-formed item lists: every token reads as its kind, blanks are blanks, comments are comments, a short comment is followed by
a newline or by the end of the text, and what directly follows a token does not glue to it -/
inductive LWF : List LItem → Prop
  | nil : LWF []
  | tok {a tk rest} : ReadsAs a tk → LWF rest →
      sepRequired a (renderItems rest) = .ok false ∨ renderItems rest = [] →
      (∀ d t, renderItems rest = d :: t → fuses a d = false) → LWF (.tok a tk :: rest)
  | ws {w rest} : (∀ c ∈ w, isLayoutSpace c = true) → LWF rest → LWF (.ws w :: rest)
  | short {c rest} : IsShortComment c → LWF rest → (renderItems rest = [] ∨ ∃ t, renderItems rest = '\n' :: t) → LWF (.com c :: rest)
  | long {c rest} : IsLongComment c → LWF rest → LWF (.com c :: rest)

end Tumfl.Theory
