import Tumfl.Theory.ResolveTermCore
/-!
# Termination of the dependency resolver: the induction

One induction on the fuel: with `depth n + W k r ≤ fuel`, no `resolve*` function runs out of fuel on `n`.
-/
namespace Tumfl.Theory
open Tumfl.Model

set_option hygiene false in
macro "bnd_side" : tactic => `(tactic| (simp only [hb]))

set_option hygiene false in
macro "dep_side" : tactic => `(tactic| omega)

set_option hygiene false in
macro "nf_steps" : tactic => `(tactic|
  repeat (first
    | exact RNF.pure
    | refine RNF.bind (ihE _ _ _ r (by bnd_side) (by dep_side)) ((resolve_grow fs sp _).1 _ _) (fun _ => ?_)
    | refine RNF.bind (ihEs _ _ _ r (by bnd_side) (by dep_side)) ((resolve_grow fs sp _).2.1 _ _) (fun _ => ?_)
    | refine RNF.bind (ihFs _ _ _ r (by bnd_side) (by dep_side)) ((resolve_grow fs sp _).2.2.1 _ _) (fun _ => ?_)
    | refine RNF.bind (ihB _ _ _ r (by bnd_side) (by dep_side)) ((resolve_grow fs sp _).2.2.2.1 _ _) (fun _ => ?_)
    | refine RNF.bind (ihSs _ _ _ r (by bnd_side) (by dep_side)) ((resolve_grow fs sp _).2.2.2.2.1 _ _) (fun _ => ?_)
    | refine RNF.bind (ihO _ _ _ r (by bnd_side) (by dep_side)) ((resolve_grow fs sp _).2.2.2.2.2.1 _ _) (fun _ => ?_)
    | refine RNF.bind (ihS _ _ _ r (by bnd_side) (by dep_side)) ((resolve_grow fs sp _).2.2.2.2.2.2.1 _ _) (fun _ => ?_)
    | refine RNF.bind (ihF _ _ _ r (by bnd_side) (by dep_side)) ((resolve_grow fs sp _).2.2.2.2.2.2.2 _ _) (fun _ => ?_)))

section
variable {fs : FS} {sp : List Path} {rank : Path → Nat} {R D : Nat}

/-- inlining the file `p`: parse it and resolve its chunk with the remaining fuel -/
theorem NF_inline {β : Type} (hR : Ranked fs sp rank R D) {f k : Nat} {p : Path}
    (ihB : ∀ dir b k r, Bnd fs sp rank dir r (reqNamesBlock b) → depthBlock b + W R D k r ≤ f →
      RNF fs k (resolveBlock fs sp f dir b))
    (mk : Block → Block) (hmk : ∀ b, reqNamesBlock (mk b) = reqNamesBlock b ∧ depthBlock (mk b) = depthBlock b)
    (g : Block → RM β) (hg : ∀ b, RNF fs k (g b)) (hf : D + W R D k (rank p) ≤ f) :
    RNF fs k (parseFile fs p >>= fun ast => resolveBlock fs sp f (dirOf p) (mk ast) >>= g) := by
  refine RNF.bindP (fun ast => ∃ text hs, fs.read p = some text ∧ parseText text = .ok (ast, hs))
    (parseFile_nf fs p k) (parseFile_grow fs p) (fun st a st' h => (parseFile_ok h).2) ?_
  rintro ast ⟨text, hs, hr, hp⟩
  refine RNF.bind (ihB _ _ _ (rank p) ?_ ?_) ((resolve_grow fs sp _).2.2.2.1 _ _) hg
  · intro name hn q hq
    rw [(hmk ast).1] at hn
    exact hR.edge p q ⟨text, ast, hs, name, hr, hp, hn, hq⟩
  · rw [(hmk ast).2]
    have := hR.depthLe p text ast hs hr hp
    omega

theorem chunk_same (b : Block) :
    reqNamesBlock (match b with | .mk tk ss rs _ => Block.mk tk ss rs true) = reqNamesBlock b ∧
    depthBlock (match b with | .mk tk ss rs _ => Block.mk tk ss rs true) = depthBlock b := by
  obtain ⟨tk, ss, rs, c⟩ := b
  simp only [reqNamesBlock, depthBlock, and_self]

theorem Bnd_reqLit {dir : Path} {r : Nat} {fn : Expr} {ts : Token} {name : List Char}
    (hreq : isRequireName fn = true)
    (hb : Bnd fs sp rank dir r (reqLitName fn [.string ts name]).toList) {q : Path}
    (hq : findFileInPath fs sp name dir = some q) : rank q < r := by
  apply hb name _ q hq
  simp [reqLitName, hreq]

theorem resolve_nf (hR : Ranked fs sp rank R D) : ∀ f : Nat,
    (∀ dir e k r, Bnd fs sp rank dir r (reqNamesExpr e) → depthExpr e + W R D k r ≤ f →
      RNF fs k (resolveExpr fs sp f dir e)) ∧
    (∀ dir es k r, Bnd fs sp rank dir r (reqNamesExprs es) → depthExprs es + W R D k r ≤ f →
      RNF fs k (resolveExprs fs sp f dir es)) ∧
    (∀ dir fds k r, Bnd fs sp rank dir r (reqNamesFields fds) → depthFields fds + W R D k r ≤ f →
      RNF fs k (resolveFields fs sp f dir fds)) ∧
    (∀ dir b k r, Bnd fs sp rank dir r (reqNamesBlock b) → depthBlock b + W R D k r ≤ f →
      RNF fs k (resolveBlock fs sp f dir b)) ∧
    (∀ dir ss k r, Bnd fs sp rank dir r (reqNamesStmts ss) → depthStmts ss + W R D k r ≤ f →
      RNF fs k (resolveStmts fs sp f dir ss)) ∧
    (∀ dir o k r, Bnd fs sp rank dir r (reqNamesOptExpr o) → depthOptExpr o + W R D k r ≤ f →
      RNF fs k (resolveOptExpr fs sp f dir o)) ∧
    (∀ dir s k r, Bnd fs sp rank dir r (reqNamesStmt s) → depthStmt s + W R D k r ≤ f →
      RNF fs k (resolveStmt fs sp f dir s)) ∧
    (∀ dir fl k r, Bnd fs sp rank dir r (reqNamesFalse fl) → depthFalse fl + W R D k r ≤ f →
      RNF fs k (resolveFalse fs sp f dir fl)) := by
  intro f
  induction f with
  | zero =>
    refine ⟨?_, ?_, ?_, ?_, ?_, ?_, ?_, ?_⟩ <;> intro dir x k r _ hd <;> exfalso
    · cases x <;> simp only [depthExpr] at hd <;> omega
    · cases x <;> simp only [depthExprs] at hd <;> omega
    · cases x <;> simp only [depthFields] at hd <;> omega
    · cases x; simp only [depthBlock] at hd; omega
    · cases x <;> simp only [depthStmts] at hd <;> omega
    · cases x <;> simp only [depthOptExpr] at hd <;> omega
    · cases x <;> simp only [depthStmt] at hd <;> omega
    · cases x <;> simp only [depthFalse] at hd <;> omega
  | succ f ih =>
    obtain ⟨ihE, ihEs, ihFs, ihB, ihSs, ihO, ihS, ihF⟩ := ih
    refine ⟨?_, ?_, ?_, ?_, ?_, ?_, ?_, ?_⟩
    · intro dir e k r hb hd
      cases e <;> simp only [resolveExpr] <;>
        simp only [reqNamesExpr, Bnd_append, Bnd_nil] at hb <;> simp only [depthExpr] at hd
      all_goals try (nf_steps; done)
      rename_i t fn args
      cases hreq : isRequireName fn
      · simp only [Bool.false_eq_true, if_false]
        nf_steps
      · simp only [if_true]
        split
        · rename_i ts name
          refine RNF.bindQ (fun o st' => ∃ q, o = some q ∧ findFileInPath fs sp name dir = some q ∧ unfound fs st' ≤ k)
            (getDependencyPath_nf _ _ _ _ _ _ _) ?_ ?_
          · intro st o st' hst h
            have hle := (getDependencyPath_grow _ _ _ _ _ _).unfound_le fs h
            obtain ⟨q, hq, h | h | h⟩ := getDependencyPath_ok h
            · exact absurd h.1 (by decide)
            · exact ⟨q, h.2.2.1, hq, by omega⟩
            · exact ⟨q, h.2.1, hq, by omega⟩
          · rintro o st' ⟨q, rfl, hq, hle⟩
            have hlt : rank q < r := Bnd_reqLit hreq hb.1 hq
            have hw := W_expr (R := R) (D := D) (k := k) hlt
            exact NF_inline hR ihB _ chunk_same _ (fun _ => RNF.pure) (by omega) st' hle
        · exact RNF.rthrow (by intro h; cases h)
    · intro dir es k r hb hd
      cases es <;> simp only [resolveExprs] <;>
        simp only [reqNamesExprs, Bnd_append, Bnd_nil] at hb <;> simp only [depthExprs] at hd <;> nf_steps
    · intro dir fds k r hb hd
      cases fds with
      | nil => simp only [resolveFields]; nf_steps
      | cons fd rest =>
        simp only [resolveFields]
        simp only [reqNamesFields, Bnd_append] at hb
        simp only [depthFields] at hd
        refine RNF.bind ?_ ?_ (fun _ => ?_)
        · cases fd <;> simp only <;> simp only [reqNamesField, Bnd_append] at hb <;>
            simp only [depthField] at hd <;> nf_steps
        · cases fd <;> simp only <;>
            repeat (first | exact Grow.pure | exact (resolve_grow fs sp _).1 _ _ | refine Grow.bind ?_ (fun _ => ?_))
        · nf_steps
    · intro dir b k r hb hd
      obtain ⟨t, ss, rs, c⟩ := b
      simp only [resolveBlock]
      simp only [reqNamesBlock, Bnd_append] at hb
      simp only [depthBlock] at hd
      refine RNF.bind (ihSs _ _ _ r hb.1 (by omega)) ((resolve_grow fs sp _).2.2.2.2.1 _ _) (fun _ => ?_)
      refine RNF.bind ?_ ?_ (fun _ => RNF.pure)
      · cases rs <;> simp only <;> simp only [reqNamesOptExprs] at hb <;> simp only [depthOptExprs] at hd <;> nf_steps
      · cases rs <;> simp only <;>
          repeat (first | exact Grow.pure | exact (resolve_grow fs sp _).2.1 _ _ | refine Grow.bind ?_ (fun _ => ?_))
    · intro dir ss k r hb hd
      cases ss <;> simp only [resolveStmts] <;>
        simp only [reqNamesStmts, Bnd_append, Bnd_nil] at hb <;> simp only [depthStmts] at hd <;> nf_steps
    · intro dir o k r hb hd
      cases o <;> simp only [resolveOptExpr] <;>
        simp only [reqNamesOptExpr] at hb <;> simp only [depthOptExpr] at hd <;> nf_steps
    · intro dir s k r hb hd
      cases s <;> simp only [resolveStmt] <;>
        simp only [reqNamesStmt, Bnd_append, Bnd_nil] at hb <;> simp only [depthStmt] at hd
      all_goals try (nf_steps; done)
      · rename_i t fn args
        cases hreq : isRequireName fn
        · simp only [Bool.false_eq_true, if_false]
          nf_steps
        · simp only [if_true]
          split
          · rename_i ts name
            refine RNF.bindQ (fun o st' => o = none ∨ ∃ q, o = some q ∧ fs.isFile q = true ∧ unfound fs st' + 1 ≤ k)
              (getDependencyPath_nf _ _ _ _ _ _ _) ?_ ?_
            · intro st o st' hst h
              obtain ⟨q, hq, h | h | h⟩ := getDependencyPath_ok h
              · exact Or.inl h.2.2.1
              · exact absurd h.1 (by decide)
              · obtain ⟨hc, rfl, rfl⟩ := h
                have := unfound_add_lt (findFileInPath_some_isFile hq).2 hc
                exact Or.inr ⟨q, rfl, (findFileInPath_some_isFile hq).2, by omega⟩
            · rintro o st' (rfl | ⟨q, rfl, hq, hle⟩)
              · intro h; cases h
              · have hk : k - 1 < k := by omega
                have hw := W_stmt (R := R) (D := D) (r := r) hk (hR.rankLe q hq)
                exact NF_inline (k := k - 1) hR ihB _ chunk_same _ (fun _ => RNF.pure) (by omega) st' (by omega)
          · exact RNF.rthrow (by intro h; cases h)
      · rename_i t ns es
        refine RNF.bind ?_ ?_ (fun _ => RNF.pure)
        · cases es <;> simp only <;> simp only [reqNamesOptExprs] at hb <;> simp only [depthOptExprs] at hd <;> nf_steps
        · cases es <;> simp only <;>
            repeat (first | exact Grow.pure | exact (resolve_grow fs sp _).2.1 _ _ | refine Grow.bind ?_ (fun _ => ?_))
    · intro dir fl k r hb hd
      cases fl <;> simp only [resolveFalse] <;>
        simp only [reqNamesFalse, Bnd_append, Bnd_nil] at hb <;> simp only [depthFalse] at hd <;> nf_steps

end

end Tumfl.Theory
