import Tumfl.Theory.ParserSimComplete6
/-!
# Completeness, step lemmas: `if` statements, assignments and calls, statements
-/
namespace Tumfl.Theory
open Tumfl.Model Tumfl.Spec

variable {B : Bridge} (hC : B.Complete)
include hC

omit hC in
theorem optTail {r : Option Model.Block} {els : Option Spec.Block} :
    OptBlockRel r els → IfFalseRel (match r with | some b => IfFalse.block b | none => IfFalse.none) [] els := by
  intro h
  cases r <;> cases els <;> first | exact .none | exact .els h | exact h.elim

theorem parseIf_complete {f' : Nat} (ih : AllComplete B f') {ts ts1 ts3 ts4 : List Tok} {c : Exp} {b : Spec.Block}
    {elifs : List ElseIf} {els : Option Spec.Block} (hp : pk ts = .kw "if") (h1 : Spec.expr f' ts.tail = .ok (c, ts1))
    (ht : pk ts1 = .kw "then") (h2 : Spec.block f' ts1.tail = .ok (b, ts3))
    (h3 : Spec.ifrest f' ts3 = .ok (elifs, els, ts4)) (n : Nat) :
    TPF B (fun g => Model.parseIf g) ts n n (fun r tsx => tsx = ts4 ∧ StmtRel r (.iff c b elifs els)) := by
  obtain ⟨tsa, tsb, hT, hE, hend, rfl⟩ := ih.ifrest _ _ _ _ h3
  refine TPF_succ ?_
  simp only [parseIf_succ]
  tp hC ih
  tp_call (hT _)
  apply TPF_bind
  tp_call (hE _)
  tp hC ih
  exact ⟨rfl, .iff _ asm (BlockRel.extendComment asm _) (IfFalseRel_foldr _ (optTail asm) asm)⟩

omit hC in
theorem isVarNode_of_rel {e : Expr} {e' : Exp} (h : ExpRel e e') (hv : Spec.isVar e' = true) : isVarNode e = true := by
  cases h <;> first | rfl | cases hv

omit hC in
theorem all_isVarNode_of_rel {l : List Expr} {l' : List Exp} (h : Forall₂ ExpRel l l') (hv : l'.all Spec.isVar = true) :
    l.all isVarNode = true := by
  induction h with
  | nil => rfl
  | cons h1 _ ih =>
    simp only [List.all_cons, Bool.and_eq_true] at hv ⊢
    exact ⟨isVarNode_of_rel h1 hv.1, ih hv.2⟩

theorem parseVarStmt_assign_complete {f' : Nat} (ih : AllComplete B f') {ts ts1 ts2 ts4 : List Tok} {e : Exp}
    {vs es : List Exp} (h1 : Spec.suffixedexp f' ts = .ok (e, ts1)) (ha : pk ts1 = .sym "=" ∨ pk ts1 = .sym ",")
    (h2 : Spec.restassign f' ts1 = .ok (vs, ts2)) (he : pk ts2 = .sym "=") (h3 : Spec.explist f' ts2.tail = .ok (es, ts4))
    (hv : (e :: vs).all Spec.isVar = true) (n : Nat) :
    TPF B (fun g => Model.parseVarStmt g) ts n n (fun r tsx => tsx = ts4 ∧ StmtRel r (.assign (e :: vs) es)) := by
  have hv' := hv
  simp only [List.all_cons, Bool.and_eq_true] at hv'
  refine TPF_succ ?_
  simp only [Model.parseVarStmt]
  tp hC ih
  tp_call (ih.suffixedexp _ _ _ h1 true _ (fun _ => NoParen_of_isVar hv'.1))
  tp hC ih
  rename_i t hk
  apply TPF_ite_pos (by simp only [Bool.or_eq_true, hk.beq_iff]; exact ha.symm)
  tp hC ih
  tp_call (ih.restassign _ _ _ h2 hv'.2 _)
  tp hC ih
  have hrel : ExpRel _ e := asm
  have hvs : Forall₂ ExpRel _ vs := asm
  have hall := all_isVarNode_of_rel (.cons hrel hvs) hv
  apply TPF_ite_neg (by simp [hall])
  tp hC ih
  exact ⟨rfl, .assign _ (.cons hrel hvs) asm⟩

omit hC in
theorem parseVarStmt_call_complete {f' : Nat} (ih : AllComplete B f') {ts ts1 : List Tok} {e : Exp}
    (h1 : Spec.suffixedexp f' ts = .ok (e, ts1)) (ha : ¬ (pk ts1 = .sym "=" ∨ pk ts1 = .sym ","))
    (hc : Spec.isCall e = true) (n : Nat) :
    TPF B (fun g => Model.parseVarStmt g) ts n n (fun r tsx => tsx = ts1 ∧ StmtRel r (.call e)) := by
  refine TPF_succ ?_
  simp only [Model.parseVarStmt]
  tp hC ih
  tp_call (ih.suffixedexp _ _ _ h1 true _ (fun _ => NoParen_of_isCall hc))
  tp hC ih
  rename_i t hk
  apply TPF_ite_neg (by simp only [Bool.or_eq_true, hk.beq_iff]; exact fun h => ha h.symm)
  have hrel : ExpRel _ e := asm
  cases hrel with
  | call _ hf hargs => exact TPF_pure ⟨rfl, .call _ hf hargs⟩
  | mcall _ hf hm hargs => exact TPF_pure ⟨rfl, .mcall _ hf hm hargs⟩
  | _ => cases hc

end Tumfl.Theory
