import Tumfl.Theory.ParserSimBridge
/-!
# A total-correctness calculus (`TPF`) for the completeness direction

`TPF B m ts n n' Q` : the fuel-indexed model computation `m`, started in any state fed by the reference token
list `ts` whose hint stack has `n` entries, succeeds for every sufficiently large fuel, always with the same
result `a` and final state, which is fed by some `ts'` and has `n'` hints, and `Q a ts'` holds.
-/
namespace Tumfl.Theory
open Tumfl.Model Tumfl.Spec

variable {α β : Type} (B : Bridge)

def TPF (m : Nat → PM α) (ts : List Tok) (n n' : Nat) (Q : α → List Tok → Prop) : Prop :=
  ∀ s, B.Feeds s ts → s.hints.length = n →
    ∃ G a s' ts', (∀ g, G ≤ g → m g s = .ok (a, s')) ∧ B.Feeds s' ts' ∧ s'.hints.length = n' ∧ Q a ts'

variable {B}

theorem TPF_bind {m : Nat → PM α} {k : Nat → α → PM β} {ts : List Tok} {n n1 n2 : Nat} {Q : β → List Tok → Prop}
    (h : TPF B m ts n n1 (fun a ts1 => TPF B (fun g => k g a) ts1 n1 n2 Q)) :
    TPF B (fun g => m g >>= k g) ts n n2 Q := by
  intro s hf hn
  obtain ⟨G1, a, s1, ts1, h1, hf1, hn1, hk⟩ := h s hf hn
  obtain ⟨G2, b, s2, ts2, h2, hf2, hn2, hq⟩ := hk s1 hf1 hn1
  refine ⟨G1 + G2, b, s2, ts2, fun g hg => ?_, hf2, hn2, hq⟩
  show (m g >>= k g) s = _
  rw [bind_ok (h1 g (by omega))]
  exact h2 g (by omega)

theorem TPF_conseq {m : Nat → PM α} {ts : List Tok} {n n' : Nat} {Q' Q : α → List Tok → Prop}
    (h : TPF B m ts n n' Q') (hq : ∀ a ts', Q' a ts' → Q a ts') : TPF B m ts n n' Q := by
  intro s hf hn
  obtain ⟨G, a, s', ts', h1, hf', hn', hq'⟩ := h s hf hn
  exact ⟨G, a, s', ts', h1, hf', hn', hq _ _ hq'⟩

/-- the fuel may be shifted -/
theorem TPF_succ {m : Nat → PM α} {ts : List Tok} {n n' : Nat} {Q : α → List Tok → Prop}
    (h : TPF B (fun g => m (g + 1)) ts n n' Q) : TPF B m ts n n' Q := by
  intro s hf hn
  obtain ⟨G, a, s', ts', h1, hf', hn', hq'⟩ := h s hf hn
  refine ⟨G + 1, a, s', ts', fun g hg => ?_, hf', hn', hq'⟩
  obtain ⟨g', rfl⟩ : ∃ g', g = g' + 1 := ⟨g - 1, by omega⟩
  exact h1 g' (by omega)

theorem TPF_pure {a : α} {ts : List Tok} {n : Nat} {Q : α → List Tok → Prop} (h : Q a ts) :
    TPF B (fun _ => (pure a : PM α)) ts n n Q := by
  intro s hf hn
  exact ⟨0, a, s, ts, fun _ _ => rfl, hf, hn, h⟩

theorem TPF_ite_pos {c : Prop} [Decidable c] {a b : Nat → PM α} {ts : List Tok} {n n' : Nat} {Q : α → List Tok → Prop}
    (hc : c) (h : TPF B a ts n n' Q) : TPF B (fun g => if c then a g else b g) ts n n' Q := by
  simp only [if_pos hc]; exact h

theorem TPF_ite_neg {c : Prop} [Decidable c] {a b : Nat → PM α} {ts : List Tok} {n n' : Nat} {Q : α → List Tok → Prop}
    (hc : ¬ c) (h : TPF B b ts n n' Q) : TPF B (fun g => if c then a g else b g) ts n n' Q := by
  simp only [if_neg hc]; exact h

theorem TPF_curTok {ts : List Tok} {n : Nat} {Q : Token → List Tok → Prop} (h : ∀ t, TkRel t (pk ts) → Q t ts) :
    TPF B (fun _ => curTok) ts n n Q := by
  intro s hf hn
  exact ⟨0, s.cur, s, ts, fun _ _ => rfl, hf, hn, h _ (B.cur hf)⟩

theorem TPF_nxtTok {ts : List Tok} {n : Nat} {Q : Token → List Tok → Prop}
    (h : ∀ t, (pk ts ≠ .eof → TkRel t (pk ts.tail)) → Q t ts) : TPF B (fun _ => nxtTok) ts n n Q := by
  intro s hf hn
  exact ⟨0, s.nxt, s, ts, fun _ _ => rfl, hf, hn, h _ (B.nxt hf)⟩

theorem TPF_curIs {ty : TT} {k0 : Tk} [h0 : FixedTT ty k0] {ts : List Tok} {n : Nat} {Q : Bool → List Tok → Prop}
    (h : Q (pk ts == k0) ts) : TPF B (fun _ => curIs ty) ts n n Q := by
  intro s hf hn
  refine ⟨0, s.cur.type == ty, s, ts, fun _ _ => rfl, hf, hn, ?_⟩
  have : (s.cur.type == ty) = (pk ts == k0) := by
    have := (B.cur hf).type_iff h0.eq
    by_cases h1 : s.cur.type = ty
    · rw [beq_iff_eq.2 h1, beq_iff_eq.2 (this.1 h1)]
    · have h2 : pk ts ≠ k0 := fun h => h1 (this.2 h)
      rw [beq_eq_false_iff_ne.2 h1, beq_eq_false_iff_ne.2 h2]
  rw [this]; exact h

theorem TPF_addHint {w x : String} {ts : List Tok} {n : Nat} {Q : Unit → List Tok → Prop} (h : Q () ts) :
    TPF B (fun _ => addHint w x) ts n (n + 1) Q := by
  intro s hf hn
  exact ⟨0, (), _, ts, fun _ _ => rfl, B.hints _ hf, by simp [hn], h⟩

theorem TPF_removeHint {ts : List Tok} {n : Nat} {Q : Unit → List Tok → Prop} (h : Q () ts) :
    TPF B (fun _ => removeHint) ts (n + 1) n Q := by
  intro s hf hn
  have hne : s.hints.isEmpty = false := by
    cases hh : s.hints with
    | nil => rw [hh] at hn; cases hn
    | cons _ _ => rfl
  refine ⟨0, (), { s with hints := s.hints.dropLast }, ts, fun _ _ => ?_, B.hints _ hf, by simp [hn], h⟩
  simp [removeHint, hne]

theorem TPF_switchHint {w : String} {ts : List Tok} {n : Nat} {Q : Unit → List Tok → Prop} (h : Q () ts) :
    TPF B (fun _ => switchHint w) ts (n + 1) (n + 1) Q := by
  intro s hf hn
  cases hl : s.hints.getLast? with
  | none =>
    have : s.hints = [] := List.getLast?_eq_none_iff.1 hl
    rw [this] at hn; cases hn
  | some x =>
    refine ⟨0, (), { s with hints := s.hints.dropLast ++ [{ x with what := w }] }, ts, fun _ _ => ?_, B.hints _ hf, ?_, h⟩
    · simp [switchHint, hl]
    · simp only [List.length_append, List.length_dropLast, hn, List.length_cons, List.length_nil]; omega

theorem eatRaw_hints {s s' : PSt} (h : eatRaw s = .ok ((), s')) : s'.hints = s.hints := by
  unfold eatRaw at h
  split at h
  · cases h
  · cases h; rfl

section complete
variable (hC : B.Complete)
include hC

theorem TPF_eatRaw {ts : List Tok} {n : Nat} {Q : Unit → List Tok → Prop} (hne : pk ts ≠ .eof) (h : Q () ts.tail) :
    TPF B (fun _ => eatRaw) ts n n Q := by
  intro s hf hn
  obtain ⟨s', hs'⟩ := hC.eat hf hne
  exact ⟨0, (), s', ts.tail, fun _ _ => hs', B.eat_sound hf hne hs', by rw [eatRaw_hints hs', hn], h⟩

theorem TPF_eatNone {ts : List Tok} {n : Nat} {Q : Unit → List Tok → Prop} (hne : pk ts ≠ .eof) (h : Q () ts.tail) :
    TPF B (fun _ => eat none) ts n n Q := TPF_eatRaw hC hne h

theorem TPF_eatSome {ty : TT} {k0 : Tk} [h0 : FixedTT ty k0] {ts : List Tok} {n : Nat} {Q : Unit → List Tok → Prop}
    (hp : pk ts = k0) (h : Q () ts.tail) (hty : ty ≠ .EOF := by decide) : TPF B (fun _ => eat (some ty)) ts n n Q := by
  intro s hf hn
  have hne : pk ts ≠ .eof := by rw [hp]; exact tkOfTT_ne_eof h0.eq hty
  obtain ⟨s', hs'⟩ := hC.eat hf hne
  have hcur : s.cur.type = ty := type_of_pk ty (B.cur hf) hp h0.eq
  refine ⟨0, (), s', ts.tail, fun _ _ => ?_, B.eat_sound hf hne hs', by rw [eatRaw_hints hs', hn], h⟩
  simp only [eat, assertTok, bind, StateT.bind, hcur, bne_self_eq_false, Bool.false_eq_true, if_false, Except.bind, hs']

omit hC in
theorem TPF_assertName {ts : List Tok} {n : Nat} {Q : Unit → List Tok → Prop} {nm : String}
    (hp : pk ts = .name nm) (h : Q () ts) : TPF B (fun _ => assertTok .NAME) ts n n Q := by
  intro s hf hn
  have hcur : s.cur.type = .NAME := (B.cur hf).name_iff.2 ⟨nm, hp⟩
  refine ⟨0, (), s, ts, fun _ _ => ?_, hf, hn, h⟩
  simp [assertTok, hcur]

theorem TPF_eatName {ts : List Tok} {n : Nat} {Q : Expr → List Tok → Prop} {nm : String}
    (hp : pk ts = .name nm) (h : ∀ e, NameRel e nm → Q e ts.tail) : TPF B (fun _ => eatName) ts n n Q := by
  intro s hf hn
  have hne : pk ts ≠ .eof := by rw [hp]; intro h; cases h
  obtain ⟨s', hs'⟩ := hC.eat hf hne
  have hk := B.cur hf
  have hcur : s.cur.type = .NAME := hk.name_iff.2 ⟨nm, hp⟩
  refine ⟨0, .name s.cur (tokStr s.cur), s', ts.tail, fun _ _ => ?_, B.eat_sound hf hne hs',
    by rw [eatRaw_hints hs', hn], h _ ⟨_, _, rfl, ?_⟩⟩
  · simp only [eatName, curTok, eat, assertTok, bind, StateT.bind, hcur, bne_self_eq_false, Bool.false_eq_true,
      if_false, Except.bind, hs', pure, StateT.pure, Except.pure]
  · rw [hp] at hk; exact hk.name_val

end complete

/-- use of a previously proved `TPF` fact -/
theorem TPF_call {m : Nat → PM α} {ts : List Tok} {n n' : Nat} {Q' Q : α → List Tok → Prop}
    (h : TPF B m ts n n' Q') (hq : ∀ a ts', Q' a ts' → Q a ts') : TPF B m ts n n' Q := TPF_conseq h hq

end Tumfl.Theory
