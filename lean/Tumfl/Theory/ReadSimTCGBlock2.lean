import Tumfl.Theory.ReadSimTCGBlock
/-!
# Blocks and the root, for every reading
-/
namespace Tumfl.Theory.TCGSim
open Tumfl.Model Tumfl.Spec

variable {sty : Style}

/-! ## the end of a block -/

/-- `return es` followed by the optional separator `s3` -/
theorem ret_some {es : List Expr} (hall : ∀ e ∈ es, XPropR sty e) :
    ∀ p, AllRd p (visitArgs sty es) fun kes => ∀ s3, SemiOpt s3 →
      RetOut sty (some es) (mkTok (.kw "return") :: (kes ++ s3)) := by
  cases es with
  | nil =>
    intro p
    simp only [visitArgs, AllRd_nil]
    intro s3 hs3
    refine ⟨some [], by simp only [dsArgs, deExps]; exact .nil, by intro rest _; rfl, ?_⟩
    intro rest hbf F hF
    obtain ⟨F, rfl⟩ : ∃ f, F = f + 1 := ⟨F - 1, by omega⟩
    have hrest := isSym_of_blockFollow hbf
    have h1 : (blockFollow true (pk (s3 ++ rest)) || isSym ";" (s3 ++ rest)) = true := by
      rcases hs3 with rfl | rfl <;> simp [hbf, isSym_mkTok]
    have hfin : (if isSym ";" (s3 ++ rest) = true then (s3 ++ rest).tail else s3 ++ rest) = rest := by
      rcases hs3 with rfl | rfl <;> simp [hrest, isSym_mkTok]
    simp only [List.nil_append, List.cons_append]
    rw [statlist_ret_nil F _ h1, hfin]
  | cons e r =>
    intro p kes hkes s3 hs3
    obtain ⟨hd, cs, rel, hb⟩ := args_of_allR (e :: r) hall (by simp) p kes hkes
    refine ⟨some cs, rel, by intro rest _; rfl, ?_⟩
    intro rest hbf F hF
    simp only [List.length_cons, List.length_append] at hF
    obtain ⟨F, rfl⟩ : ∃ f, F = f + 1 := ⟨F - 1, by omega⟩
    have hrest := isSym_of_blockFollow hbf
    have hfin : (if isSym ";" (s3 ++ rest) = true then (s3 ++ rest).tail else s3 ++ rest) = rest := by
      rcases hs3 with rfl | rfl <;> simp [hrest, isSym_mkTok]
    have hstop : stopTk (pk (s3 ++ rest)) = true := by
      rcases hs3 with rfl | rfl
      · simpa using (blockFollow_facts hbf).2.1
      · rfl
    have hex := hb F (s3 ++ rest) (by omega) hstop
    have hnb : (blockFollow true (pk (kes ++ (s3 ++ rest))) || isSym ";" (kes ++ (s3 ++ rest))) = false := by
      obtain ⟨k, tks, rfl, hs⟩ := hd
      rw [List.cons_append, pk_mkTok, isSym_mkTok]
      revert hs
      unfold exprStartTk
      split <;> simp [blockFollow]
    simp only [List.cons_append, List.append_assoc]
    rw [statlist_ret_list F _ _ _ hnb hex, hfin]

/-- the readings of the `return` pieces -/
theorem AllRd_retPieces {rets : Option (List Expr)} (hr : ∀ es, rets = some es → ∀ e ∈ es, XPropR sty e) :
    ∀ p, AllRd p (retPieces sty rets) (RetOut sty rets) := by
  intro p
  cases rets with
  | none =>
    simp only [retPieces, AllRd_nil]
    exact ret_none
  | some es =>
    have h := ret_some (hr es rfl)
    by_cases he : es.isEmpty = true
    · simp only [retPieces, he, if_true, List.append_nil, List.cons_append, List.nil_append, AllRd_return_kw, AllRd_append,
        AllRd_statement, AllRd_nil]
      intro kes hkes s3 hs3
      simpa using h _ kes hkes s3 hs3
    · simp only [retPieces, he, Bool.false_eq_true, if_false, List.cons_append, List.nil_append, AllRd_return_kw, AllRd_append,
        AllRd_space, AllRd_statement, AllRd_nil]
      intro kes hkes s3 hs3
      simpa using h _ kes hkes s3 hs3

/-! ## blocks -/

theorem block_stepR {t : Token} {ss : List Stmt} {rets : Option (List Expr)} {c : Bool}
    (hss : ∀ s ∈ ss, pStmt s = true ∧ StmtPropR sty s)
    (hr : ∀ es, rets = some es → ∀ e ∈ es, XPropR sty e) : BlockPropR sty (.mk t ss rets c) := by
  unfold BlockPropR
  intro p
  simp only [Block.stmts, Block.rets]
  rw [bodyPieces_eq]
  cases ss with
  | nil =>
    simp only [visitStmts, List.nil_append]
    intro kret hkret
    obtain ⟨r, relr, _, contr⟩ := AllRd_retPieces hr _ kret hkret
    refine ⟨fun s => .mk (emp s.length) r, ?_, ?_⟩
    · intro s _
      exact BlockRel_mk (cs := emp s.length) (by rw [deStats_emp]; simp only [dsStmts]; exact .nil) relr
    · intro s hs F rest hF hbf
      obtain ⟨F, rfl⟩ : ∃ f, F = f + 1 := ⟨F - 1, by omega⟩
      have c1 := SL_semisT hs.semis (contr rest hbf)
      have := c1 F (by omega)
      rw [block]
      simp only [this, List.append_nil, bind, Except.bind]
  | cons s0 r0 =>
    rw [visitStmts_init sty true (s0 :: r0) (by simp)]
    simp only [AllRd_append, AllRd_statement, AllRd_nil, List.append_nil]
    intro kss hkss s2 hs2
    obtain ⟨cs, rels, _, conts⟩ := stmts_stepR (s0 :: r0) hss true _ kss hkss
    intro kret hkret
    obtain ⟨r, relr, safer, contr⟩ := AllRd_retPieces hr _ kret hkret
    refine ⟨fun s => .mk (emp s.length ++ (cs ++ emp s2.length)) r, ?_, ?_⟩
    · intro s _
      refine BlockRel_mk ?_ relr
      rw [deStats_semis, deStats_append, deStats_emp, List.append_nil]
      exact rels
    · intro s hs F rest hF hbf
      simp only [List.length_append] at hF
      obtain ⟨F, rfl⟩ : ∃ f, F = f + 1 := ⟨F - 1, by omega⟩
      have c0 := contr rest hbf
      have c1 := SL_semisT hs2.semis c0
      have c2 := conts _ _ _ _ _ c1 (safe_semis hs2.semis (safer rest hbf))
      have c3 := SL_semisT hs.semis c2
      have hl2 := hs2.length_le
      have := c3 F (by omega)
      rw [block]
      simp only [List.append_assoc, List.append_nil] at this ⊢
      simp only [this, bind, Except.bind]

/-! ## the root -/

/-! ## the root, with one more optional `;` at the very end -/

/-- the end of the root chunk: `return ...` without its separator (sliced off by `visit_Chunk`) or nothing, then the optional
final `;` (`sE`), then the end of input.  After a `return` the `;` is the one that `retstat` allows; otherwise it is an empty
statement. -/
def RootTail (sty : Style) (rets : Option (List Expr)) (kret sE : List Spec.Tok) : Prop :=
  ∃ (r : Option (List Exp)) (tl : List Stat),
    (match rets, r with
      | some es, some cs => Forall₂ ExpRel (dsArgs es) (deExps cs)
      | none, none => True
      | _, _ => False) ∧
    deStats tl = [] ∧ safeTk (pk (kret ++ (sE ++ [eofTok]))) = true ∧
    SLCont (4 * (kret.length + sE.length) + 1) (kret ++ (sE ++ [eofTok])) tl r [eofTok]

theorem AllRd_retDropLast {rets : Option (List Expr)} (hr : ∀ es, rets = some es → ∀ e ∈ es, XPropR sty e) :
    ∀ p, AllRd p (retPieces sty rets).dropLast fun kret => ∀ sE, SemiOpt sE → RootTail sty rets kret sE := by
  intro p
  have hbf : blockFollow true (pk [eofTok]) = true := rfl
  cases rets with
  | none =>
    simp only [retPieces, List.dropLast_nil, AllRd_nil]
    intro sE hsE
    refine ⟨none, emp sE.length, trivial, deStats_emp _, ?_, ?_⟩
    · simpa using safe_semis hsE.semis (ts := [eofTok]) (by rfl)
    · have := SL_semisT hsE.semis (SL_none hbf)
      refine SLCont.mono (by simpa using this) ?_
      simp only [List.length_nil]; omega
  | some es =>
    have h := ret_some (hr es rfl)
    have : retPieces sty (some es) = ([P "return"] ++ (if es.isEmpty then [] else [S .space]) ++ visitArgs sty es) ++
        [S .statement] := rfl
    rw [this, List.dropLast_concat]
    have key : ∀ q kes, Rd q (visitArgs sty es) kes → ∀ sE, SemiOpt sE →
        RootTail sty (some es) (mkTok (.kw "return") :: kes) sE := by
      intro q kes hkes sE hsE
      obtain ⟨r, relr, safer, contr⟩ := h q kes hkes sE hsE
      refine ⟨r, [], relr, rfl, ?_, ?_⟩
      · rfl
      · have := contr [eofTok] hbf
        simp only [List.cons_append, List.append_assoc, List.length_cons, List.length_append] at this ⊢
        exact SLCont.mono this (by omega)
    by_cases he : es.isEmpty = true
    · simp only [he, if_true, List.append_nil, List.cons_append, List.nil_append, AllRd_return_kw]
      intro kes hkes
      exact key _ kes hkes
    · simp only [he, Bool.false_eq_true, if_false, List.cons_append, List.nil_append, AllRd_return_kw, AllRd_space]
      intro kes hkes
      exact key _ kes hkes

theorem root_stepR {t : Token} {ss : List Stmt} {rets : Option (List Expr)}
    (hss : ∀ s ∈ ss, pStmt s = true ∧ StmtPropR sty s)
    (hr : ∀ es, rets = some es → ∀ e ∈ es, XPropR sty e) :
    ∀ p, AllRd p (emit sty (.mk t ss rets true)) fun ks => ∀ sE, SemiOpt sE →
      ∃ c, BlockRel (dsBlock (.mk t ss rets true)) (deBlock c) ∧
        ∀ F, 4 * (ks.length + sE.length) + 2 ≤ F → block F (ks ++ (sE ++ [eofTok])) = .ok (c, [eofTok]) := by
  intro p
  rw [emit_pieces]
  cases hn : rets.isNone with
  | true =>
    simp only [if_true, AllRd_append]
    intro kss hkss
    obtain ⟨cs, rels, _, conts⟩ := stmts_stepR ss hss true _ kss hkss
    intro kret hkret sE hsE
    obtain ⟨r, tl, relr, htl, safer, contr⟩ := AllRd_retDropLast hr _ kret hkret sE hsE
    refine ⟨.mk (cs ++ tl) r, BlockRel_mk (by rw [deStats_append, htl, List.append_nil]; exact rels) relr, ?_⟩
    intro F hF
    simp only [List.length_append] at hF
    obtain ⟨F, rfl⟩ : ∃ f, F = f + 1 := ⟨F - 1, by omega⟩
    have c2 := conts _ _ _ _ _ contr safer
    have := c2 F (by omega)
    rw [block]
    simp only [List.append_assoc, List.append_nil] at this ⊢
    simp only [this, bind, Except.bind]
  | false =>
    simp only [Bool.false_eq_true, if_false, AllRd_append]
    cases ss with
    | nil =>
      simp only [visitStmts, AllRd_nil, List.nil_append]
      intro kret hkret sE hsE
      obtain ⟨r, tl, relr, htl, _, contr⟩ := AllRd_retDropLast hr _ kret hkret sE hsE
      refine ⟨.mk tl r, BlockRel_mk (by rw [htl]; simp only [dsStmts]; exact .nil) relr, ?_⟩
      intro F hF
      obtain ⟨F, rfl⟩ : ∃ f, F = f + 1 := ⟨F - 1, by omega⟩
      have := contr F (by omega)
      rw [block]
      simp only [this, bind, Except.bind]
    | cons s0 r0 =>
      rw [visitStmts_init sty true (s0 :: r0) (by simp)]
      simp only [AllRd_append, AllRd_statement, AllRd_nil, List.append_nil]
      intro kss hkss s2 hs2
      obtain ⟨cs, rels, _, conts⟩ := stmts_stepR (s0 :: r0) hss true _ kss hkss
      intro kret hkret sE hsE
      obtain ⟨r, tl, relr, htl, safer, contr⟩ := AllRd_retDropLast hr _ kret hkret sE hsE
      refine ⟨.mk (cs ++ (emp s2.length ++ tl)) r,
        BlockRel_mk (by rw [deStats_append, deStats_semis, htl, List.append_nil]; exact rels) relr, ?_⟩
      intro F hF
      simp only [List.length_append] at hF
      obtain ⟨F, rfl⟩ : ∃ f, F = f + 1 := ⟨F - 1, by omega⟩
      have c1 := SL_semisT hs2.semis contr
      have c2 := conts _ _ _ _ _ c1 (safe_semis hs2.semis safer)
      have hl2 := hs2.length_le
      have := c2 F (by omega)
      rw [block]
      simp only [List.append_assoc, List.append_nil] at this ⊢
      simp only [this, bind, Except.bind]

end Tumfl.Theory.TCGSim
