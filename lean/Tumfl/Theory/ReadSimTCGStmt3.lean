import Tumfl.Theory.ReadSimTCGStmt2
/-!
# Statements, for every reading, continued: calls and assignments
-/
namespace Tumfl.Theory.TCGSim
open Tumfl.Model Tumfl.Spec

variable {sty : Style}

theorem headV_stmt {s : Stmt} {ks : List Spec.Tok} (hd : HeadV ks) (hp : HeadOK (visitStmt sty s)) {p : Option (List Char)} (hks : Rd p (visitStmt sty s) ks) :
    StmtHeadR sty s ks := by
  obtain ⟨k, tks, rfl, hk⟩ := hd
  refine ⟨k, tks, rfl, by rcases hk with rfl | ⟨n, rfl⟩ <;> rfl, ?_⟩
  rcases hp with ⟨r, hr⟩ | ⟨n, r, hr, hn⟩
  · exact .inl (by rw [hr]; rfl)
  · right
    rw [hr] at hks
    have : AllRd p (.str n :: r) fun ks => ∃ tl, ks = mkTok (.name (String.ofList n)) :: tl := by
      rw [AllRd_ident hn]; intro t _; exact ⟨t, rfl⟩
    obtain ⟨tl, h⟩ := this _ hks
    simp only [List.cons.injEq] at h
    have : k = .name (String.ofList n) := by
      have := congrArg Spec.Tok.tk h.1
      simpa [mkTok] using this
    subst this
    rfl

theorem call_SR {t : Token} {f : Expr} {args : List Expr} (hf : pExpr f = true) (hxf : XPropR sty f)
    (hall : ∀ e ∈ args, XPropR sty e) : StmtPropR sty (.call t f args) := by
  intro _ p ks hks
  have hks' : Rd p (visitExpr sty (.call t f args)) ks := hks
  obtain ⟨hd, cv, cs, relv, rela, hb⟩ := call_core (t := t) hxf hall p ks hks'
  have hp : HeadOK (visitStmt sty (.call t f args)) := by
    simp only [visitStmt]
    exact HeadOK_append _ (HeadOK_fmtVar sty f (fun hv => varHead sty f hf hv))
  refine ⟨headV_stmt hd hp hks, .call (.call cv cs), [], .inl rfl, ?_, rfl, callstat_stepR hd hb rfl⟩
  simp only [dsStmt, deStat, deExp]
  exact .call t relv rela

theorem method_SR {t : Token} {f m : Expr} {args : List Expr} (hf : pExpr f = true) (hxf : XPropR sty f)
    (hm : nameNodeOK m = true) (hall : ∀ e ∈ args, XPropR sty e) : StmtPropR sty (.method t f m args) := by
  intro _ p ks hks
  have hks' : Rd p (visitExpr sty (.method t f m args)) ks := hks
  obtain ⟨hd, cv, cs, relv, rela, hb⟩ := method_core (t := t) hxf hm hall p ks hks'
  have hp : HeadOK (visitStmt sty (.method t f m args)) := by
    simp only [visitStmt, List.append_assoc]
    exact HeadOK_append _ (HeadOK_fmtVar sty f (fun hv => varHead sty f hf hv))
  refine ⟨headV_stmt hd hp hks, .call (.mcall cv (nameS m) cs), [], .inl rfl, ?_, rfl, callstat_stepR hd hb rfl⟩
  simp only [dsStmt, deStat, deExp]
  exact .mcall t relv (NameRel_of_nameNodeOK hm) rela

/-! ## assignments -/

theorem restassign_stepR : (r : List Expr) → (∀ t ∈ r, isTargetShape t = true ∧ XPropR sty t) →
    ∀ p, AllRd p (tgtRestPieces sty r) fun kr =>
      (∀ X, pk X = .sym "=" → sfx (pk (kr ++ X)) = false ∧ (isSym "=" (kr ++ X) || isSym "," (kr ++ X)) = true) ∧
      ∃ cs, Forall₂ ExpRel (dsArgs r) (deExps cs) ∧ cs.all isVar = true ∧
        ∀ F X, 4 * kr.length + 1 ≤ F → pk X = .sym "=" → restassign F (kr ++ X) = .ok (cs, X)
  | [], _ => by
    intro p
    simp only [tgtRestPieces, AllRd_nil]
    refine ⟨?_, [], by simp only [dsArgs, deExps]; exact .nil, rfl, ?_⟩
    · intro X hX; simp [hX, sfx, isSym]
    · intro F X hF hX
      obtain ⟨F, rfl⟩ : ∃ f, F = f + 1 := ⟨F - 1, by omega⟩
      rw [List.nil_append, restassign]
      simp [isSym, hX]
  | t :: r, hall => by
    intro p
    simp only [tgtRestPieces, AllRd_argument, AllRd_append]
    intro kt hkt kr hkr
    obtain ⟨ht, hx⟩ := hall t (by simp)
    obtain ⟨hdt, c, relc, hvar, _, bc⟩ := hx.P (isVarLike_of_target ht) _ kt hkt
    obtain ⟨hhead, cs, rels, hvars, bs⟩ := restassign_stepR r (fun x hx => hall x (by simp [hx])) _ kr hkr
    refine ⟨?_, c :: cs, by rw [dsArgs, deExps]; exact .cons relc rels, by simp [hvar ht, hvars], ?_⟩
    · intro X _; simp [sfx, isSym_mkTok]
    · intro F X hF hX
      simp only [List.length_cons, List.length_append] at hF
      obtain ⟨F, rfl⟩ : ∃ f, F = f + 1 := ⟨F - 1, by omega⟩
      obtain ⟨F', hF', hsx⟩ := bc F (kr ++ X) (by omega)
      obtain ⟨F', rfl⟩ : ∃ f, F' = f + 1 := ⟨F' - 1, by omega⟩
      rw [suffixes_stop _ _ _ (hhead X hX).1] at hsx
      rw [restassign]
      simp only [List.cons_append, List.append_assoc, isSym_mkTok, beq_self_eq_true, if_true, tail_mkTok]
      simp [hsx, bs F X (by omega) hX, bind, Except.bind]

theorem assign_SR {t : Token} {e : Expr} {r es : List Expr} (he : isTargetShape e = true ∧ pExpr e = true ∧ XPropR sty e)
    (hr : ∀ t ∈ r, isTargetShape t = true ∧ XPropR sty t) (hes : es ≠ [])
    (hall : ∀ x ∈ es, XPropR sty x) : StmtPropR sty (.assign t (e :: r) es) := by
  intro _ p
  obtain ⟨ht, hp, hx⟩ := he
  have hv := isVarLike_of_target ht
  have hrt : r.all isTargetShape = true := by
    simp only [List.all_eq_true]; intro x hx; exact (hr x hx).1
  have hpieces : visitStmt sty (.assign t (e :: r) es) =
      visitExpr sty e ++ (tgtRestPieces sty r ++ ([S .space, P "=", S .space] ++ visitArgs sty es)) := by
    simp [visitStmt, visitTargets_eq e r ht hrt]
  intro ks hks
  have hks0 := hks
  rw [hpieces] at hks
  revert ks
  simp only [AllRd_append, List.cons_append, List.nil_append, AllRd_space, AllRd_assign]
  intro ke hke kr hkr kes hkes hks0
  obtain ⟨hde, c, relc, hvar, _, bc⟩ := hx.P hv _ ke hke
  obtain ⟨hhead, cs, rels, hvars, bs⟩ := restassign_stepR r hr _ kr hkr
  obtain ⟨_, ces, reles, bes⟩ := args_of_allR es hall hes _ kes hkes
  have hp' : HeadOK (visitStmt sty (.assign t (e :: r) es)) := by
    rw [hpieces]; exact HeadOK_append _ (varHead sty e hp hv)
  refine ⟨headV_stmt ((hde.append _)) hp' hks0, .assign (c :: cs) ces, [], .inl rfl, ?_, rfl, ?_⟩
  · simp only [dsStmt, deStat, deExps, dsArgs]
    exact .assign t (.cons relc rels) reles
  intro F rest hF hsafe
  simp only [List.length_cons, List.length_append] at hF
  have pe := hde.headE.pos
  obtain ⟨F, rfl⟩ : ∃ f, F = f + 1 := ⟨F - 1, by omega⟩
  have h2 := bes F rest (by omega) (stopTk_of_safe hsafe)
  have h1 := bs F (mkTok (.sym "=") :: (kes ++ rest)) (by omega) rfl
  obtain ⟨hh1, hh2⟩ := hhead (mkTok (.sym "=") :: (kes ++ rest)) rfl
  obtain ⟨F', hF', hsx⟩ := bc F (kr ++ mkTok (.sym "=") :: (kes ++ rest)) (by omega)
  obtain ⟨F', rfl⟩ : ∃ f, F' = f + 1 := ⟨F' - 1, by omega⟩
  rw [suffixes_stop _ _ _ hh1] at hsx
  obtain ⟨k, tks, rfl, hkv⟩ := hde
  have hvar' : (c :: cs).all isVar = true := by simp [hvar ht, hvars]
  simp only [List.cons_append, List.append_assoc, List.nil_append] at hsx ⊢
  rw [statement_var hkv]
  simp only [exprstat, hsx, bind, Except.bind, hh2, if_true, h1, expectSym, isSym_mkTok, beq_self_eq_true, tail_mkTok, h2, hvar']

end Tumfl.Theory.TCGSim
