import Tumfl.Theory.BoundaryNum
/-!
# Boundary lemmas, part 4: symbols

`symAt` (BoundaryLex.lean) is the transcription of the symbol branches of `Spec.lexLoop`.  Here:

* `sym1_boundary`, `sym2_boundary`, `sym3_boundary`, `sym_boundary`: for every symbol `x` and every
  following character `d` with `sepRequired x (d :: t) = .ok false`, `symAt (x ++ d :: t)` reads exactly
  `x` - *except* for the five situations `fuses x d` (`<`|`<`, `>`|`>`, `/`|`/`, `:`|`:` and `.`|digit), where
  `sepRequired` answers `false` although the two tokens fuse.  `fuses_is_real` shows that each of them
  is a genuine counterexample, so the hypothesis cannot be dropped.  (None of these adjacencies is
  produced by the grammar of Lua: no production puts two `<`, `>`, `/`, `:` tokens next to each other,
  and `.` is always followed by a name.)
* the dangerous pairs as named lemmas: the separator IS kept.
* the finite tables, decided by the kernel.
-/
namespace Tumfl.Theory
open Tumfl Tumfl.Spec Tumfl.Model

/-! ## `symbols2` as a Boolean of two characters -/

def isSym2 (c d : Char) : Bool :=
  (c == '=' && d == '=') || (c == '~' && d == '=') || (c == '<' && d == '=') || (c == '>' && d == '=') ||
  (c == '<' && d == '<') || (c == '>' && d == '>') || (c == '/' && d == '/') || (c == ':' && d == ':') ||
  (c == '.' && d == '.')

theorem str2_eq (c d a b : Char) : (String.ofList [c, d] == String.ofList [a, b]) = (c == a && d == b) := by
  rw [Bool.eq_iff_iff]
  simp

theorem symbols2_contains (c d : Char) : symbols2.contains (String.ofList [c, d]) = isSym2 c d := by
  have e : symbols2 = [String.ofList ['=', '='], String.ofList ['~', '='], String.ofList ['<', '='],
      String.ofList ['>', '='], String.ofList ['<', '<'], String.ofList ['>', '>'], String.ofList ['/', '/'],
      String.ofList [':', ':'], String.ofList ['.', '.']] := by decide
  rw [e]
  simp only [List.contains_cons, List.contains_nil, str2_eq, isSym2, Bool.or_false, Bool.or_assoc]

/-! ## the symbols -/

/-- every symbol token of Lua 5.4, as the formatter writes them -/
def symPieces : List (List Char) :=
  ["+", "-", "*", "/", "%", "^", "#", "==", "~=", "<=", ">=", "<", ">", "=", "(", ")", "{", "}", "[", "]",
   ";", ":", "::", ",", ".", "..", "...", "&", "|", "~", "<<", ">>", "//"].map String.toList

/-- `x` is spelled like a symbol: one character of `symbols1`, a pair of `symbols2`, or `...` -/
def symShape (x : List Char) : Bool :=
  match x with
  | [c] => symbols1.contains c
  | [c1, c2] => isSym2 c1 c2
  | [c1, c2, c3] => c1 == '.' && c2 == '.' && c3 == '.'
  | _ => false

theorem symPieces_shape : ∀ x ∈ symPieces, symShape x = true := by decide +kernel

/-- the adjacencies for which `sepRequired` says "no separator" although the reference lexer fuses the
two tokens; `d` is the first character of the second token -/
def fuses (x : List Char) (d : Char) : Bool :=
  match x with
  | [c] => (c == '<' && d == '<') || (c == '>' && d == '>') || (c == '/' && d == '/') || (c == ':' && d == ':') ||
      (c == '.' && isDigit d)
  | _ => false

def symGuard (c : Char) : Bool := isSpace c || c == '"' || c == '\'' || isDigit c || isAlpha c

theorem sym1_guard : ∀ c ∈ symbols1, symGuard c = false := by decide +kernel

theorem lit_minus : "-" = String.ofList ['-'] := by decide
theorem lit_brack : "[" = String.ofList ['['] := by decide
theorem lit_dot : "." = String.ofList ['.'] := by decide
theorem lit_dot2 : ".." = String.ofList ['.', '.'] := by decide
theorem lit_dot3 : "..." = String.ofList ['.', '.', '.'] := by decide

theorem longOpener_none (d : Char) (t : List Char) (h1 : d ≠ '[') (h2 : d ≠ '=') :
    longOpener ('[' :: d :: t) = none := by
  have : countEq (d :: t) = (0, d :: t) := by
    rw [countEq.eq_def]
    split
    · rename_i heq; simp only [List.cons.injEq] at heq; exact absurd heq.1 h2
    · rfl
  rw [longOpener, this]
  split
  · rename_i heq
    simp only [Prod.mk.injEq, List.cons.injEq] at heq
    exact absurd heq.2.1 h1
  · rfl

/-- SYMBOLS, one character -/
theorem sym1_boundary (c d : Char) (t : List Char) (hc : symbols1.contains c = true) (hn : NoSep c d c)
    (hf : fuses [c] d = false) : symAt (c :: d :: t) = some (String.ofList [c], d :: t) := by
  have hg := sym1_guard c (by simpa using hc)
  simp only [fuses, Bool.or_eq_false_iff, Bool.and_eq_false_iff, beq_eq_false_iff_ne, ne_eq] at hf
  obtain ⟨⟨⟨⟨f1, f2⟩, f3⟩, f4⟩, f5⟩ := hf
  unfold symAt
  unfold symGuard at hg
  simp only [hg, Bool.false_eq_true, if_false]
  by_cases h1 : c = '-'
  · subst h1
    have hd := hn.minus rfl
    simp only [show ('-' == '-') = true by decide, if_true]
    split
    · rename_i heq; simp only [List.cons.injEq] at heq; exact absurd heq.1 hd
    · rw [lit_minus]
  have h1' : (c == '-') = false := by simpa using h1
  simp only [h1', Bool.false_eq_true, if_false]
  by_cases h2 : c = '['
  · subst h2
    obtain ⟨hd1, hd2⟩ := hn.brack rfl
    simp only [show ('[' == '[') = true by decide, if_true, longOpener_none d t hd1 hd2]
    split
    · rename_i heq; simp only [List.cons.injEq] at heq; exact absurd heq.1 hd2
    · rw [lit_brack]
  have h2' : (c == '[') = false := by simpa using h2
  simp only [h2', Bool.false_eq_true, if_false]
  by_cases h3 : c = '.'
  · subst h3
    have hd := hn.dotdot rfl
    have hdig : isDigit d = false := by
      rcases f5 with f5 | f5
      · exact absurd rfl f5
      · simpa using f5
    simp only [show ('.' == '.') = true by decide, if_true]
    split
    · rename_i heq; simp only [List.cons.injEq] at heq; exact absurd heq.1 hd
    · rename_i heq; simp only [List.cons.injEq] at heq; exact absurd heq.1 hd
    · rename_i heq
      simp only [List.cons.injEq] at heq
      rw [← heq.1, hdig, lit_dot]
      rfl
    · rename_i heq; cases heq
  have h3' : (c == '.') = false := by simpa using h3
  simp only [h3', Bool.false_eq_true, if_false]
  have hs2 : isSym2 c d = false := by
    cases hs : isSym2 c d with
    | false => rfl
    | true =>
      exfalso
      simp only [isSym2, Bool.or_eq_true, Bool.and_eq_true, beq_iff_eq] at hs
      rcases hs with (((((((⟨rfl, rfl⟩ | ⟨rfl, rfl⟩) | ⟨rfl, rfl⟩) | ⟨rfl, rfl⟩) | ⟨rfl, rfl⟩) | ⟨rfl, rfl⟩) |
        ⟨rfl, rfl⟩) | ⟨rfl, rfl⟩) | ⟨rfl, rfl⟩
      · exact hn.cmp (Or.inr (Or.inr (Or.inl rfl))) rfl
      · exact hn.cmp (Or.inr (Or.inr (Or.inr rfl))) rfl
      · exact hn.cmp (Or.inl rfl) rfl
      · exact hn.cmp (Or.inr (Or.inl rfl)) rfl
      · rcases f1 with f | f <;> exact f rfl
      · rcases f2 with f | f <;> exact f rfl
      · rcases f3 with f | f <;> exact f rfl
      · rcases f4 with f | f <;> exact f rfl
      · exact h3 rfl
  simp only [symbols2_contains, hs2, hc, Bool.false_eq_true, if_false, if_true]

/-- SYMBOLS, two characters -/
theorem sym2_boundary (c1 c2 d : Char) (t : List Char) (hc : isSym2 c1 c2 = true) (hn : NoSep c2 d c1) :
    symAt (c1 :: c2 :: d :: t) = some (String.ofList [c1, c2], d :: t) := by
  by_cases hdot : c1 = '.'
  · subst hdot
    have h2 : c2 = '.' := by
      simp only [isSym2, Bool.or_eq_true, Bool.and_eq_true, beq_iff_eq] at hc
      rcases hc with (((((((⟨h, _⟩ | ⟨h, _⟩) | ⟨h, _⟩) | ⟨h, _⟩) | ⟨h, _⟩) | ⟨h, _⟩) | ⟨h, _⟩) | ⟨h, _⟩) | ⟨_, h⟩
      all_goals first | exact h | exact absurd h (by decide)
    subst h2
    have hd := hn.dotdot rfl
    unfold symAt
    simp only [show (isSpace '.' || '.' == '"' || '.' == '\'' || isDigit '.' || isAlpha '.') = false by decide,
      show ('.' == '-') = false by decide, show ('.' == '[') = false by decide,
      show ('.' == '.') = true by decide, Bool.false_eq_true, if_false, if_true]
    split
    · rename_i heq; simp only [List.cons.injEq] at heq; exact absurd heq.2.1 hd
    · rename_i heq; simp only [List.cons.injEq] at heq; rw [← heq.2, lit_dot2]
    · rename_i hne2 heq; simp only [List.cons.injEq] at heq; exact (hne2 heq.1.symm).elim
    · rename_i heq; cases heq
  · have hfacts : symGuard c1 = false ∧ (c1 == '-') = false ∧ (c1 == '[') = false := by
      simp only [isSym2, Bool.or_eq_true, Bool.and_eq_true, beq_iff_eq] at hc
      rcases hc with (((((((⟨rfl, _⟩ | ⟨rfl, _⟩) | ⟨rfl, _⟩) | ⟨rfl, _⟩) | ⟨rfl, _⟩) | ⟨rfl, _⟩) | ⟨rfl, _⟩) |
        ⟨rfl, _⟩) | ⟨rfl, _⟩
      all_goals first | decide | exact absurd rfl hdot
    obtain ⟨hg, g1, g2⟩ := hfacts
    have g3 : (c1 == '.') = false := by simpa using hdot
    unfold symAt
    unfold symGuard at hg
    simp only [hg, g1, g2, g3, Bool.false_eq_true, if_false, symbols2_contains, hc, if_true]

/-- SYMBOLS, `...` -/
theorem sym3_boundary (r : List Char) : symAt ('.' :: '.' :: '.' :: r) = some ("...", r) := by
  unfold symAt
  simp only [show (isSpace '.' || '.' == '"' || '.' == '\'' || isDigit '.' || isAlpha '.') = false by decide,
    show ('.' == '-') = false by decide, show ('.' == '[') = false by decide,
    show ('.' == '.') = true by decide, Bool.false_eq_true, if_false, if_true]

theorem sepRequired_1 (c d : Char) (t : List Char) : sepRequired [c] (d :: t) = .ok (sepBool c d c) :=
  sepRequired_cons c [] d t
theorem sepRequired_2 (c1 c2 d : Char) (t : List Char) : sepRequired [c1, c2] (d :: t) = .ok (sepBool c2 d c1) :=
  sepRequired_cons c1 [c2] d t
theorem sepRequired_3 (c1 c2 c3 d : Char) (t : List Char) :
    sepRequired [c1, c2, c3] (d :: t) = .ok (sepBool c3 d c1) :=
  sepRequired_cons c1 [c2, c3] d t

theorem ok_inj {a b : Bool} (h : (Except.ok a : R Bool) = .ok b) : a = b := by cases h; rfl

/-- SYMBOLS: for every symbol `x`, with the separator removed and `fuses` excluded, the reference lexer
reads exactly `x` and goes on at the next token -/
theorem sym_boundary (x : List Char) (hx : symShape x = true) (b rest : List Char)
    (h : sepRequired x b = .ok false) (hf : ∀ d t, b = d :: t → fuses x d = false) :
    symAt (x ++ b ++ rest) = some (String.ofList x, b ++ rest) := by
  obtain ⟨_, d, t, _, _, rfl, _, _⟩ := noSep_of_sepRequired' _ _ h
  have hf := hf d t rfl
  match x, hx with
  | [c], hx =>
    rw [sepRequired_1] at h
    exact sym1_boundary c d (t ++ rest) hx (sepBool_false _ _ _ (ok_inj h)) hf
  | [c1, c2], hx =>
    rw [sepRequired_2] at h
    exact sym2_boundary c1 c2 d (t ++ rest) hx (sepBool_false _ _ _ (ok_inj h))
  | [c1, c2, c3], hx =>
    simp only [symShape, Bool.and_eq_true, beq_iff_eq] at hx
    obtain ⟨⟨rfl, rfl⟩, rfl⟩ := hx
    rw [← lit_dot3]
    exact sym3_boundary _

theorem sym_lexOne (x : List Char) (hx : symShape x = true) (b rest : List Char)
    (h : sepRequired x b = .ok false) (hf : ∀ d t, b = d :: t → fuses x d = false) :
    lexOne (x ++ b ++ rest) = some (.sym (String.ofList x), b ++ rest) :=
  lexOne_of_symAt _ _ _ (sym_boundary x hx b rest h hf)

/-! ## the dangerous pairs: the separator IS kept -/

theorem sep_kept_of (a b : List Char) (l d : Char) (hl : a.getLast? = some l) (hd : b.head? = some d)
    (h : ∀ f0, sepBool l d f0 = true) : sepRequired a b = .ok true := by
  cases a with
  | nil => cases hl
  | cons f0 as => exact sepRequired_true_of _ _ l d f0 hl hd rfl (h f0)

/-- `-` before `-` (would start a comment) -/
theorem kept_minus_minus (a b : List Char) (hl : a.getLast? = some '-') (hd : b.head? = some '-') :
    sepRequired a b = .ok true :=
  sep_kept_of a b _ _ hl hd (by intro f0; simp [sepBool])

/-- anything ending in `.` before anything starting with `.`: `. .`, `.. .`, `. ..`, `.. ..`, `.. ...` -/
theorem kept_dot_dot (a b : List Char) (hl : a.getLast? = some '.') (hd : b.head? = some '.') :
    sepRequired a b = .ok true :=
  sep_kept_of a b _ _ hl hd (by intro f0; simp [sepBool])

/-- `>` (of an attribute, or the operator) before `=` / `==` -/
theorem kept_gt_eq (a b : List Char) (hl : a.getLast? = some '>') (hd : b.head? = some '=') :
    sepRequired a b = .ok true :=
  sep_kept_of a b _ _ hl hd (by intro f0; simp [sepBool])

theorem kept_lt_eq (a b : List Char) (hl : a.getLast? = some '<') (hd : b.head? = some '=') :
    sepRequired a b = .ok true :=
  sep_kept_of a b _ _ hl hd (by intro f0; simp [sepBool])

theorem kept_eq_eq (a b : List Char) (hl : a.getLast? = some '=') (hd : b.head? = some '=') :
    sepRequired a b = .ok true :=
  sep_kept_of a b _ _ hl hd (by intro f0; simp [sepBool])

theorem kept_tilde_eq (a b : List Char) (hl : a.getLast? = some '~') (hd : b.head? = some '=') :
    sepRequired a b = .ok true :=
  sep_kept_of a b _ _ hl hd (by intro f0; simp [sepBool])

/-- `[` before a long bracket `[[` / `[=[` (or before `[`) -/
theorem kept_brack_brack (a b : List Char) (hl : a.getLast? = some '[') (hd : b.head? = some '[') :
    sepRequired a b = .ok true :=
  sep_kept_of a b _ _ hl hd (by intro f0; simp [sepBool])

theorem kept_brack_eq (a b : List Char) (hl : a.getLast? = some '[') (hd : b.head? = some '=') :
    sepRequired a b = .ok true :=
  sep_kept_of a b _ _ hl hd (by intro f0; simp [sepBool])

/-- the pairs named in the property, token by token (`t` is the rest of the second token) -/
theorem kept_pairs (t : List Char) :
    sepRequired ['-'] ('-' :: t) = .ok true ∧ sepRequired ['.'] ('.' :: t) = .ok true ∧
    sepRequired ['.', '.'] ('.' :: t) = .ok true ∧ sepRequired ['>'] ('=' :: t) = .ok true ∧
    sepRequired ['<'] ('=' :: t) = .ok true ∧ sepRequired ['='] ('=' :: t) = .ok true ∧
    sepRequired ['~'] ('=' :: t) = .ok true ∧ sepRequired ['['] ('[' :: t) = .ok true ∧
    sepRequired ['['] ('=' :: t) = .ok true :=
  ⟨kept_minus_minus _ _ rfl rfl, kept_dot_dot _ _ rfl rfl, kept_dot_dot _ _ rfl rfl, kept_gt_eq _ _ rfl rfl,
   kept_lt_eq _ _ rfl rfl, kept_eq_eq _ _ rfl rfl, kept_tilde_eq _ _ rfl rfl, kept_brack_brack _ _ rfl rfl,
   kept_brack_eq _ _ rfl rfl⟩

/-! ## `fuses` is necessary: in each of these situations `sepRequired` answers `false`, yet the reference
lexer reads a different token -/

theorem fuses_is_real (t : List Char) :
    (sepRequired ['<'] ('<' :: t) = .ok false ∧ symAt ('<' :: '<' :: t) = some ("<<", t)) ∧
    (sepRequired ['>'] ('>' :: t) = .ok false ∧ symAt ('>' :: '>' :: t) = some (">>", t)) ∧
    (sepRequired ['/'] ('/' :: t) = .ok false ∧ symAt ('/' :: '/' :: t) = some ("//", t)) ∧
    (sepRequired [':'] (':' :: t) = .ok false ∧ symAt (':' :: ':' :: t) = some ("::", t)) := by
  refine ⟨⟨?_, ?_⟩, ⟨?_, ?_⟩, ⟨?_, ?_⟩, ⟨?_, ?_⟩⟩
  all_goals first
    | (rw [sepRequired_1]; exact congrArg _ (by decide))
    | (unfold symAt; simp only [symbols2_contains]; rfl)

/-- `.` before a numeral: `sepRequired` answers `false`, the reference lexer reads a numeral `.5` (the
grammar never puts a numeral after `.`; the formatter emits a name there) -/
theorem fuses_dot_digit (d : Char) (t : List Char) (hd : isDigit d = true) :
    sepRequired ['.'] (d :: t) = .ok false ∧ symAt ('.' :: d :: t) = none ∧
      lexOne ('.' :: d :: t) =
        (parseNumeral (numScan '.' (d :: t)).1).map fun nm => (Tk.num nm, (numScan '.' (d :: t)).2) := by
  have hne : d ≠ '.' := by rintro rfl; revert hd; decide
  have hne' : (d == '.') = false := by simpa using hne
  refine ⟨?_, ?_, ?_⟩
  · rw [sepRequired_1]
    refine congrArg _ ?_
    have hw : wordChars.contains '.' = false := by decide
    simp only [sepBool, hw, hne', Bool.false_and, Bool.or_false,
      show ('.' == '-') = false by decide, show ("<>=~".toList.contains '.') = false by decide,
      show ('.' == '[') = false by decide]
  · unfold symAt
    simp only [show (isSpace '.' || '.' == '"' || '.' == '\'' || isDigit '.' || isAlpha '.') = false by decide,
      show ('.' == '-') = false by decide, show ('.' == '[') = false by decide,
      show ('.' == '.') = true by decide, Bool.false_eq_true, if_false, if_true]
    split
    · rename_i heq; simp only [List.cons.injEq] at heq; exact absurd heq.1 hne
    · rename_i heq; simp only [List.cons.injEq] at heq; exact absurd heq.1 hne
    · rename_i heq; simp only [List.cons.injEq] at heq; rw [← heq.1, hd]; rfl
    · rename_i heq; cases heq
  · unfold lexOne
    simp only [show isAlpha '.' = false by decide, show isDigit '.' = false by decide,
      show ('.' == '.') = true by decide, nextIsDigit, hd, Bool.false_or, Bool.and_self, Bool.false_eq_true,
      if_false, if_true]

end Tumfl.Theory
