import Tumfl.Theory.PrintInlinedEmit
import Tumfl.Theory.PrintInlinedMono
import Tumfl.Theory.PrintInlinedResolve
import Tumfl.Theory.PrintInlinedK4
import Tumfl.Theory.ReadSim
/-!
# The result of dependency resolution formats to valid Lua in every style

The dependency inliner (`Model/Resolve.lean`) produces trees that are not `Printable`: a statement-level `require` becomes
`Stmt.block chunk` (`chunk.isChunk = true`), an expression-level one a call of a function expression whose body is a chunk; the
printer prints a nested chunk without `do` ... `end`.  `flattenChunks b` (`PrintInlinedDefs.lean`) is the tree with those
chunks spliced into the enclosing statement lists.

* `emit_flatten_for` / `emit_flatten_ok`: for `InlinedOKFor sty b` (resp. the style independent `InlinedOK b`) the printer emits
  for `b` the very same pieces as for `flattenChunks b`; hence (`readTks_flatten`) every token reading of the one is a reading
  of the other;
* `read_sim_inlined` (+ `_for`, `_parseToks`): every reading of `emit sty b` is accepted by the reference parser, as a whole
  chunk, and the tree it builds is `flattenChunks b` modulo parentheses and empty statements.

* `resolve_then_emit_valid_of_check` / `resolve_then_emit_valid`: composed with the resolver (`PrintInlinedResolve.lean`: its
  result is always pre-printable, `qBlock false`): if K4 does not occur in the result (`noSplicedReturn b`, a check on the
  output; or `NoTopReturn fs`, an assumption on the files) and `okBlock` holds for the style, every reading of the pieces
  printed for the result is a valid program that reads as `flattenChunks b`;
* `InlinedOK.for_style` (`PrintInlinedMono.lean`): `InlinedOK b → InlinedOKFor sty b` for every style.

What `InlinedOKFor sty b` excludes beyond "`flattenChunks b` is `Printable`" (which rules out spliced chunks with a return list:
finding K4) are two situations in which the pieces really differ; both are exhibited below (`hiddenGuardTree`,
`emptyChunkTree`):
* a `;` guard lost behind a comment - a genuine defect of the printer: the printed text is a different program;
* an empty spliced chunk under a style that keeps semicolons - harmless (`flattenChunks` represents the empty chunk by a
  `Semicolon` statement, which such a style prints as `;` while the chunk prints nothing).
-/
namespace Tumfl.Theory
open Tumfl.Model

theorem emit_flatten_for (sty : Style) (b : Block) (h : InlinedOKFor sty b) :
    emit sty (flattenChunks b) = emit sty b :=
  emit_flatten sty _ _ (covers_self sty) b h.2

theorem emit_flatten_ok (sty : Style) (b : Block) (h : InlinedOK b) : emit sty (flattenChunks b) = emit sty b :=
  emit_flatten sty true true (covers_true sty) b h.2

/-- every reading of the pieces of an inlined tree is a reading of the pieces of its flattening (per style) -/
theorem readTks_flatten_for (sty : Style) (b : Block) (h : InlinedOKFor sty b) (ks : List Spec.Tk) :
    ReadTks (emit sty b) ks → ReadTks (emit sty (flattenChunks b)) ks := by
  rw [emit_flatten_for sty b h]; exact id

/-- every reading of the pieces of an inlined tree is a reading of the pieces of its flattening (every style) -/
theorem readTks_flatten (sty : Style) (b : Block) (h : InlinedOK b) (ks : List Spec.Tk) :
    ReadTks (emit sty b) ks → ReadTks (emit sty (flattenChunks b)) ks := by
  rw [emit_flatten_ok sty b h]; exact id

/-- **the result of dependency resolution formats to valid Lua** (per style): every reading of the emitted pieces is accepted
by the reference parser and read as the flattened tree -/
theorem read_sim_inlined_for (sty : Style) (b : Block) (h : InlinedOKFor sty b) (ks : List Spec.Tk)
    (hks : ReadTks (emit sty b) ks) :
    ∃ f c, Spec.block f (toToks ks) = .ok (c, [eofTok]) ∧ BlockRel (dropSemis (flattenChunks b)) (dropEmpty c) :=
  read_sim sty (flattenChunks b) h.1 ks (readTks_flatten_for sty b h ks hks)

/-- **the result of dependency resolution formats to valid Lua in every style** -/
theorem read_sim_inlined (sty : Style) (b : Block) (h : InlinedOK b) (ks : List Spec.Tk)
    (hks : ReadTks (emit sty b) ks) :
    ∃ f c, Spec.block f (toToks ks) = .ok (c, [eofTok]) ∧ BlockRel (dropSemis (flattenChunks b)) (dropEmpty c) :=
  read_sim sty (flattenChunks b) h.1 ks (readTks_flatten sty b h ks hks)

/-- the same for the executable entry point of the reference parser -/
theorem read_sim_inlined_parseToks (sty : Style) (b : Block) (h : InlinedOK b) (ks : List Spec.Tk)
    (hks : ReadTks (emit sty b) ks) :
    ∃ c, Spec.parseToks (toToks ks) = .ok c ∧ BlockRel (dropSemis (flattenChunks b)) (dropEmpty c) :=
  read_sim_parseToks sty (flattenChunks b) h.1 ks (readTks_flatten sty b h ks hks)

theorem read_sim_inlined_parseToks_for (sty : Style) (b : Block) (h : InlinedOKFor sty b) (ks : List Spec.Tk)
    (hks : ReadTks (emit sty b) ks) :
    ∃ c, Spec.parseToks (toToks ks) = .ok c ∧ BlockRel (dropSemis (flattenChunks b)) (dropEmpty c) :=
  read_sim_parseToks sty (flattenChunks b) h.1 ks (readTks_flatten_for sty b h ks hks)

/-- `InlinedOK` is `InlinedOKFor` for the most demanding style flags; for a style that neither keeps semicolons nor prints
comments only `Printable (flattenChunks b)` is left -/
theorem inlinedOKFor_of_flags (sty : Style) (b : Block) (hk : sty.keepSemicolon = true) (hc : sty.includeComments = true) :
    InlinedOKFor sty b ↔ InlinedOK b := by
  unfold InlinedOKFor InlinedOK; rw [hk, hc]

/-! ## The resolver's output

`InlinedOK` splits into a part the resolver guarantees (`qBlock`: `PrintInlinedResolve.lean`; with `NoTopReturn fs`, i.e. K4
aside, `Printable (flattenChunks b)`) and a part it does not (`okBlock`: an empty file spliced under a style that keeps
semicolons; a `;` guard hidden behind a comment), which stays a (decidable) hypothesis on the output. -/

/-- a pre-printable chunk without hidden guards / empty spliced chunks is `InlinedOK` -/
theorem inlinedOK_of_q {b : Block} (hc : b.isChunk = true) (hq : qBlock true b = true) (hok : okBlock true true b = true) :
    InlinedOK b := ⟨printable_flatten hc hq, hok⟩

/-- the resolver's result is `InlinedOK` as soon as K4 does not occur in it (`noSplicedReturn`) and `okBlock` holds -/
theorem resolve_inlinedOK_of_check (fs : FS) (main : Path) (sp : List Path) (fuel : Nat) (b : Block)
    (h : resolveRecursive fs main sp fuel = .ok b) (hk4 : noSplicedReturn b = true) (hok : okBlock true true b = true) :
    InlinedOK b := by
  obtain ⟨hc, hq⟩ := resolveRecursive_pre fs main sp fuel b h
  exact inlinedOK_of_q hc (q_of_nkBlock b hq hk4) hok

theorem resolve_inlinedOKFor_of_check (fs : FS) (main : Path) (sp : List Path) (fuel : Nat) (b : Block)
    (h : resolveRecursive fs main sp fuel = .ok b) (hk4 : noSplicedReturn b = true) (sty : Style)
    (hok : okBlock sty.keepSemicolon sty.includeComments b = true) : InlinedOKFor sty b := by
  obtain ⟨hc, hq⟩ := resolveRecursive_pre fs main sp fuel b h
  exact ⟨printable_flatten hc (q_of_nkBlock b hq hk4), hok⟩

/-- **resolve, then format** (checks on the output instead of an assumption on the files) -/
theorem resolve_then_emit_valid_of_check (fs : FS) (main : Path) (sp : List Path) (fuel : Nat) (b : Block)
    (h : resolveRecursive fs main sp fuel = .ok b) (hk4 : noSplicedReturn b = true) (sty : Style)
    (hok : okBlock sty.keepSemicolon sty.includeComments b = true) (ks : List Spec.Tk) (hks : ReadTks (emit sty b) ks) :
    ∃ c, Spec.parseToks (toToks ks) = .ok c ∧ BlockRel (dropSemis (flattenChunks b)) (dropEmpty c) :=
  read_sim_inlined_parseToks_for sty b (resolve_inlinedOKFor_of_check fs main sp fuel b h hk4 sty hok) ks hks

theorem resolve_inlinedOK (fs : FS) (main : Path) (sp : List Path) (fuel : Nat) (b : Block) (hnr : NoTopReturn fs)
    (h : resolveRecursive fs main sp fuel = .ok b) (hok : okBlock true true b = true) : InlinedOK b :=
  ⟨resolveRecursive_printable_flatten fs main sp fuel b hnr h, hok⟩

theorem resolve_inlinedOKFor (fs : FS) (main : Path) (sp : List Path) (fuel : Nat) (b : Block) (hnr : NoTopReturn fs)
    (h : resolveRecursive fs main sp fuel = .ok b) (sty : Style)
    (hok : okBlock sty.keepSemicolon sty.includeComments b = true) : InlinedOKFor sty b :=
  ⟨resolveRecursive_printable_flatten fs main sp fuel b hnr h, hok⟩

/-- **resolve, then format**: every reading of the pieces emitted for the resolver's result is a valid program, the
flattened tree modulo parentheses and empty statements -/
theorem resolve_then_emit_valid (fs : FS) (main : Path) (sp : List Path) (fuel : Nat) (b : Block) (hnr : NoTopReturn fs)
    (h : resolveRecursive fs main sp fuel = .ok b) (sty : Style)
    (hok : okBlock sty.keepSemicolon sty.includeComments b = true) (ks : List Spec.Tk) (hks : ReadTks (emit sty b) ks) :
    ∃ c, Spec.parseToks (toToks ks) = .ok c ∧ BlockRel (dropSemis (flattenChunks b)) (dropEmpty c) :=
  read_sim_inlined_parseToks_for sty b (resolve_inlinedOKFor fs main sp fuel b hnr h sty hok) ks hks

/-! ## Non-vacuity and the two excluded situations -/

section Examples

private def tk0 : Token := default
private def tkC (c : String) : Token := { (default : Token) with comment := [c.toList] }
private def nm (s : String) : Expr := .name tk0 s.toList
/-- the statement `("s"):m()` -/
private def parenStmt (t : Token) : Stmt := .method t (.string tk0 "s".toList) (nm "m") []

/-- `f()`, then a chunk (with a comment) whose first statement is again a chunk, whose first statement is `("s"):m()`,
followed by `g()` in the inner and `h()` in the outer chunk; an expression-level inlined module `local M = (function() x = y
return x end)("m")` closes the root -/
def demoInlined : Block :=
  .mk tk0
    [ .call tk0 (nm "f") [],
      .block (.mk (tkC "outer file") [ .block (.mk tk0 [parenStmt tk0, .call tk0 (nm "g") []] none true),
                                       .call tk0 (nm "h") [] ] none true),
      .localAssign tk0 [.mk (nm "M") none]
        (some [.call tk0 (.func tk0 [] (.mk tk0 [.assign tk0 [nm "x"] [nm "y"]] (some [nm "x"]) true))
                 [.string tk0 "m".toList]]) ]
    none true

example : InlinedOK demoInlined := by decide
example : ¬ Printable demoInlined := by decide

/-- the flattened tree: five statements in a row (`f()`, `("s"):m()`, `g()`, `h()`, `local M = ...`) -/
example : (flattenChunks demoInlined).stmts.length = 5 := by decide

/-- the reading with all separators as white space: the `;` guard is in front of the spliced `(` -/
example : piecesTks false (emit Props.demoStyle demoInlined) =
    [.name "f", .sym "(", .sym ")",
     .sym ";", .sym "(", .str [.ch 115], .sym ")", .sym ":", .name "m", .sym "(", .sym ")",
     .name "g", .sym "(", .sym ")",
     .name "h", .sym "(", .sym ")",
     .kw "local", .name "M", .sym "=", .sym "(", .kw "function", .sym "(", .sym ")", .name "x", .sym "=", .name "y",
       .kw "return", .name "x", .kw "end", .sym ")", .sym "(", .str [.ch 109], .sym ")"] := by decide +kernel

/-- **The defect.**  `f()` followed by a spliced chunk whose first statement `("s"):m()` carries a comment. -/
def hiddenGuardTree : Block :=
  .mk tk0 [ .call tk0 (nm "f") [], .block (.mk tk0 [parenStmt (tkC "hello")] none true) ] none true

example : Printable (flattenChunks hiddenGuardTree) := by decide
example : ¬ InlinedOKFor Props.demoStyle hiddenGuardTree := by decide
/-- without comments the tree is fine -/
example : InlinedOKFor { Props.demoStyle with includeComments := false } hiddenGuardTree := by decide

/-- with comments the guard is missing: the text reads `f()("s"):m()` - ONE statement, a call of the result of `f()` -/
example : piecesTks false (emit Props.demoStyle hiddenGuardTree) =
    [.name "f", .sym "(", .sym ")", .sym "(", .str [.ch 115], .sym ")", .sym ":", .name "m", .sym "(", .sym ")"] := by
  decide +kernel

/-- the flattened tree (and the same tree printed without comments) has the guard -/
example : piecesTks false (emit Props.demoStyle (flattenChunks hiddenGuardTree)) =
    [.name "f", .sym "(", .sym ")", .sym ";", .sym "(", .str [.ch 115], .sym ")", .sym ":", .name "m", .sym "(", .sym ")"] := by
  decide +kernel

/-- the reference parser reads the printed text as one statement -/
example : (match Spec.parseToks (toToks (piecesTks false (emit Props.demoStyle hiddenGuardTree))) with
    | .ok (.mk ss _) => ss.length | .error _ => 0) = 1 := by decide +kernel

/-- **The harmless one.**  `f()`, an empty spliced chunk, `g()`; a style that keeps semicolons -/
def emptyChunkTree : Block :=
  .mk tk0 [ .call tk0 (nm "f") [], .block (.mk tk0 [] none true), .call tk0 (nm "g") [] ] none true

private def keepStyle : Style := { Props.demoStyle with keepSemicolon := true }

example : InlinedOKFor Props.demoStyle emptyChunkTree := by decide
example : ¬ InlinedOKFor keepStyle emptyChunkTree := by decide
example : Printable (flattenChunks emptyChunkTree) := by decide

/-- the chunk prints nothing (but its separator), the `Semicolon` statement that stands for it prints `;` -/
example : piecesTks false (emit keepStyle emptyChunkTree) =
    [.name "f", .sym "(", .sym ")", .name "g", .sym "(", .sym ")"] := by decide +kernel
example : piecesTks false (emit keepStyle (flattenChunks emptyChunkTree)) =
    [.name "f", .sym "(", .sym ")", .sym ";", .name "g", .sym "(", .sym ")"] := by decide +kernel

/-- end to end: `main.lua` requires `a` at statement level (not as its first statement), `a` requires `b` as ITS first
statement, `b` starts with `("s"):m()`; `main` also uses `b` at expression level -/
def demoFS : FS :=
  { files := [(["proj", "main.lua"], "f()\nrequire('a')\nlocal M = require('b')".toList),
              (["proj", "a.lua"], "require('b')\ng()".toList),
              (["proj", "b.lua"], "(\"s\"):m()\nh()".toList)],
    dirs := [["proj"]] }

example : (match resolveRecursive demoFS ["proj", "main.lua"] [] 30 with
    | .ok b => decide (InlinedOK b) && !decide (Printable b) &&
        (piecesTks false (emit Props.demoStyle b) ==
          [.name "f", .sym "(", .sym ")",
           .sym ";", .sym "(", .str [.ch 115], .sym ")", .sym ":", .name "m", .sym "(", .sym ")",
           .name "h", .sym "(", .sym ")", .name "g", .sym "(", .sym ")",
           .kw "local", .name "M", .sym "=", .sym "(", .kw "function", .sym "(", .sym ")",
             .sym "(", .str [.ch 115], .sym ")", .sym ":", .name "m", .sym "(", .sym ")", .name "h", .sym "(", .sym ")",
             .kw "end", .sym ")", .sym "(", .str [.ch 98], .sym ")"])
    | .error _ => false) = true := by decide +kernel

/-- finding K4, end to end: the statement-level `require` of a file with a top-level `return` is caught by
`noSplicedReturn` (and `InlinedOK` fails) -/
def k4FS : FS :=
  { files := [(["proj", "main.lua"], "require('m')\nx = 1\n".toList),
              (["proj", "m.lua"], "local M = {}\nreturn M\n".toList)],
    dirs := [["proj"]] }

example : (match resolveRecursive k4FS ["proj", "main.lua"] [] 30 with
    | .ok b => !noSplicedReturn b && !decide (InlinedOK b) && qBlock false b
    | .error _ => false) = true := by decide +kernel

end Examples

end Tumfl.Theory
