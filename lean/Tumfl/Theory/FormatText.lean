import Tumfl.Theory.FormatTextEmitRoot
import Tumfl.Theory.FormatTextIB
import Tumfl.Theory.FormatTextAS
import Tumfl.Theory.FormatTextGlue
import Tumfl.Theory.FormatTextC1
import Tumfl.Theory.FormatTextC2
import Tumfl.Theory.EmitComments
/-!
# The final text of `format` is read back by the reference lexer as the tokens of the emitted pieces

`format_items`: for a documented style (`DocStyle`), a printable tree whose numerals are canonical and whose comment
pieces are tidy, the text `format sty b` is the rendering of a well-formed layout (`LWF`) whose tokens are a reading
(`ReadTks`) of the emitted pieces - with the final statement separator restored (`emit sty b ++ [Statement]`: the formatter
cuts it off and appends the style's statement separator to the text) and with an Argument separator in front of some
`}` (`TC`: `indent_brackets` writes a trailing comma in a table constructor that it spreads over several lines).
`format_lex`: hence `Spec.lex` reads the text as exactly these tokens.
-/
namespace Tumfl.Theory
open Tumfl Tumfl.Model

def headerText (sty : Style) : List Char := "--".toList ++ sty.commentSep ++ "tumfl".toList

theorem header_facts {sty : Style} (hd : DocStyle sty) :
    isCom (headerText sty) = true ∧ isLongCom (headerText sty) = false ∧ ComOK (headerText sty) ∧ Tidy (headerText sty) := by
  have he : headerText sty = '-' :: '-' :: (sty.commentSep ++ "tumfl".toList) := by simp [headerText]
  have hnl : '\n' ∉ sty.commentSep ++ "tumfl".toList := by
    simp only [List.mem_append, not_or]
    refine ⟨fun h => ?_, by decide⟩
    rcases hd.comSep _ h with e | e <;> cases e
  have hlo : Spec.longOpener (sty.commentSep ++ "tumfl".toList) = none :=
    short_longOpener_none _ _ hd.comSep (by
      rw [show startsWith "tumfl".toList ['['] = false by decide, Bool.and_false, Bool.false_and])
  have hshort : IsShortComment (headerText sty) := ⟨_, he, hnl, hlo⟩
  have hlc : isLongCom (headerText sty) = false := by
    show (Spec.longOpener ((headerText sty).drop 2)).isSome = false
    rw [he]
    show (Spec.longOpener (sty.commentSep ++ "tumfl".toList)).isSome = false
    rw [hlo]; rfl
  refine ⟨by rw [he]; simp [isCom, startsWith, isPrefix], hlc, ⟨fun h => (by rw [hlc] at h; cases h), fun _ => hshort⟩, ?_⟩
  refine tidy_no_nl (by rw [he]; simpa using hnl) ?_
  intro i l e
  have : headerText sty = ("--".toList ++ sty.commentSep ++ "tumf".toList) ++ ['l'] := by simp [headerText]
  rw [this] at e
  have := List.append_inj_right' e rfl
  simp only [List.cons.injEq, and_true] at this
  rw [← this]; decide

theorem chain_com : ∀ (is : List LItem) (pc : PendC), ChainOK pc is → ∀ c, .com c ∈ is → isCom c = true
  | [], _, _, c, h => by cases h
  | .tok a tk :: r, pc, h, c, hc => by
    rcases List.mem_cons.mp hc with e | hc
    · cases e
    · exact chain_com r _ h.2.2 c hc
  | .ws w :: r, pc, h, c, hc => by
    rcases List.mem_cons.mp hc with e | hc
    · cases e
    · exact chain_com r _ h.2.2 c hc
  | .com c' :: r, pc, h, c, hc => by
    rcases List.mem_cons.mp hc with e | hc
    · cases e; exact h.1
    · exact chain_com r _ h.2.2.2 c hc

theorem readTks_header {h : List Char} (hc : isCom h = true) {L : Pieces} {ks : List Spec.Tk}
    (hr : ReadTks (.str h :: .sep .newline :: L) ks) : ReadTks L ks := by
  have hst : strTk h = [] := by
    unfold strTk
    rw [show startsWith h ['-', '-'] = true from hc]
    rfl
  cases hr with
  | semi hp _ => rcases hp with hp | hp <;> cases hp
  | skip hp _ => rcases hp with hp | hp <;> cases hp
  | other _ _ hr' =>
    simp only [pieceTks, hst, List.nil_append] at hr' ⊢
    cases hr' with
    | semi hp _ => rcases hp with hp | hp <;> cases hp
    | skip hp _ => rcases hp with hp | hp <;> cases hp
    | other _ _ hr'' => simpa [pieceTks] using hr''

/-- the comment hypothesis of the main theorem in terms of the tree: comments are switched off, or the piece printed for every
statement comment of the tree is tidy (no blank in front of a line break, none at its end) -/
theorem comments_tidy_of_tree (sty : Style) (b : Block) (hwf : TreeWF b)
    (hc : sty.includeComments = false ∨ ∀ c ∈ commentsBlock b, ∀ t, commentPiece sty c = .str t → Tidy t) :
    ∀ s, .str s ∈ emit sty b → isCom s = true → Tidy s := by
  intro s hs hcom
  have hm : Piece.str s ∈ (emit sty b).filter isCommentPiece := List.mem_filter.mpr ⟨hs, hcom⟩
  rw [emit_comments sty b hwf] at hm
  unfold F at hm
  rcases hc with hc | hc
  · rw [hc] at hm; simp at hm
  · split at hm
    · obtain ⟨c, hcm, e⟩ := List.mem_map.mp hm
      exact hc c hcm s e
    · cases hm

/-- what `format` appends to the stripped text -/
def ending (sty : Style) : List Char := if sty.removeUnnecessaryChars then [] else sty.statementSeparator

/-- **MAIN THEOREM**, detailed form: the tokens of the layout are a reading `ks0` of the emitted pieces (with trailing commas
`TC`, none when `lineWidth = 0`), followed by one more `;` exactly when the appended statement separator is a `;` token -/
theorem format_items_core (sty : Style) (hd : DocStyle sty) (b : Block) (hp : Printable b)
    (hn : NumsCanon (numsBlock b))
    (hcm : ∀ s, .str s ∈ emit sty b → isCom s = true → Tidy s)
    (text : List Char) (h : format sty b = .ok text) :
    ∃ is ks0 L, LWF is ∧ renderItems is = text ∧ TC (emit sty b) L ∧ (sty.lineWidth = 0 → L = emit sty b) ∧
      ReadTks L ks0 ∧ (itemTks is = ks0 ∨ (ending sty = [';'] ∧ itemTks is = ks0 ++ [.sym ";"])) ∧
      (∃ t, text = '-' :: t) ∧
      (comItems is = headerText sty :: comStrs (emit sty b) ∨
        (ending sty = [';'] ∧ ∃ init c, headerText sty :: comStrs (emit sty b) = init ++ [c] ∧
          comItems is = init ++ [c ++ [';']])) ∧
      TCgd none (emit sty b) L := by
  obtain ⟨ts1, ts2, ts3, ts6, ts7, h1, h2, h3, h6, h7, rfl⟩ := format_stages h
  obtain ⟨hcom, hlc, hcok, htidy⟩ := header_facts hd
  -- stage A and removeSeparators
  have hdisc0 : Disc DS.init (emit sty b) := ((disc_append _ _ _).mp (disc_emit sty hd b hp hn)).1
  have hs1 : Disc DS.init ts1 ∧ SoftDrop (emit sty b) ts1 := by
    split at h1
    · exact ⟨removeSeparators_disc h1 hdisc0, removeSeparators_softDrop h1⟩
    · cases h1; exact ⟨hdisc0, SoftDrop.refl _⟩
  obtain ⟨hdisc1, hsd⟩ := hs1
  -- indentBrackets and addSpacing
  have hlay2 : Lay sty (decide (sty.lineWidth > 0)) none ts1 ts2 := by
    split at h2
    · rename_i hpos
      rw [decide_eq_true hpos]
      exact indentBrackets_lay h2 none
    · cases h2; exact Lay.refl sty _ _ _
  have hlay3 : Lay sty (decide (sty.lineWidth > 0)) none ts1 ts3 := by
    split at h3
    · exact hlay2.insNls (addSpacing_insNl h3)
    · cases h3; exact hlay2
  -- the discipline of the pieces
  have hw1 : Weak DS.init := ⟨rfl, by simp [DS.init], .inl rfl⟩
  have hw2 : Weak ⟨none, .sep, .other⟩ := ⟨rfl, by simp, .inr (.inl rfl)⟩
  obtain ⟨L1, htg1, hdl3, hL1⟩ := lay_dl hlay3 ⟨none, .sep, .other⟩ .none none (disc_weak _ _ _ hw1 hw2 hdisc1) trivial
    (fun x hx => by cases hx) (fun bb hb => by cases hb)
  have htc1 : TC ts1 L1 := htg1.toTC
  -- removeOrphaned
  have hro : removeOrphaned (.str (headerText sty) :: S .newline :: ts3) =
      .str (headerText sty) :: .sep .newline :: removeOrphanedFrom [.sep .newline, .str (headerText sty)] ts3 := by
    have hne : headerText sty ≠ [] := by simp [headerText]
    unfold removeOrphaned
    rw [ro_keep _ (by simpa using hne) (by simp), S, ro_keep _ (by simp) (by simp)]
  have hdl5 : DL sty true .none (removeOrphaned (.str (headerText sty) :: S .newline :: ts3))
      (.str (headerText sty) :: .sep .newline :: L1) := by
    rw [hro]
    refine .com hcom hcok trivial ?_
    rw [hlc]
    exact .nl (ro_dl hdl3 _ (by simp) (fun k r' _ x hx => by cases hx))
  -- the text
  have hh6 : resolveTokensAux sty false (removeOrphaned (.str (headerText sty) :: S .newline :: ts3)) = .ok ts6 := h6
  obtain ⟨is, hch, hren, hrd, hio⟩ := dl_text hd hdl5 .none false 0 false ts6 ts7 (fun d => trivial)
    (fun h => absurd rfl h) hh6 h7
  have hlwf := (chain_lwf is .none hch).1
  -- the items are hard
  have hcomI : comItems is = headerText sty :: comStrs (emit sty b) := by
    rw [hio.2, comStrs_cons_str, hcom, comStrs_cons_sep, comStrs_tc htc1, ← comStrs_softDrop hsd]
    rfl
  have hhard : HardIt is := by
    intro it hit
    cases it with
    | tok a tk => exact hio.1 a tk hit
    | ws w => trivial
    | com c =>
      have hm := mem_comItems hit
      rw [hcomI] at hm
      rcases List.mem_cons.mp hm with e | hm
      · rw [e]; exact htidy
      · obtain ⟨h1, h2⟩ := mem_comStrs hm
        exact hcm c h1 h2
  -- the strips
  obtain ⟨is1, hl1, hren1, htk1, hend1, hcom1⟩ := lwf_rsl hlwf hhard
  obtain ⟨core, hlc', hrenc, htkc, _, hcomc, hcore⟩ := lwf_rstrip hl1 hend1
  -- the joined text starts with the header
  have hstart : ∃ F2, joinTokens ts7 = headerText sty ++ F2 := by
    rw [hro] at hh6
    obtain ⟨txt, _, _, _, _, r7, _, _, hj, hout⟩ := step_cons hd _ _ _ _ _ _ _ hh6 h7
    simp only [StepOut] at hout
    exact ⟨joinTokens r7, by rw [hj, hout.1]; rfl⟩
  obtain ⟨F2, hF⟩ := hstart
  have hstrip : pyStripAll (((splitOnNewline (joinTokens ts7)).map pyRstrip).intersperse ['\n']).flatten =
      renderItems core ∧ ∃ t, renderItems core = '-' :: t := by
    have e1 : (((splitOnNewline (joinTokens ts7)).map pyRstrip).intersperse ['\n']).flatten = rsl (joinTokens ts7) :=
      rsl_eq_lines _
    rw [e1, hrenc, hren1, hren]
    unfold pyStripAll
    have e2 : rsl (joinTokens ts7) = headerText sty ++ rsl F2 := by
      rw [hF, rsl_append, Rst_tidy _ htidy]
    have e3 : (rsl (joinTokens ts7)).dropWhile pyIsSpace = rsl (joinTokens ts7) := by
      rw [e2]
      have : headerText sty ++ rsl F2 = '-' :: ('-' :: (sty.commentSep ++ "tumfl".toList ++ rsl F2)) := by
        simp [headerText]
      rw [this, List.dropWhile_cons_of_neg (by decide)]
    rw [e3]
    refine ⟨rfl, ?_⟩
    have : rsl (joinTokens ts7) = '-' :: ('-' :: (sty.commentSep ++ "tumfl".toList ++ rsl F2)) := by
      rw [e2]; simp [headerText]
    rw [this, pyRstrip_cons, if_neg (by intro hh; exact absurd hh.2 (by decide))]
    exact ⟨_, rfl⟩
  -- the appended separator
  have hE : ending sty = [] ∨ ending sty = ['\n'] ∨ ending sty = [';'] := by
    unfold ending
    split
    · exact .inl rfl
    · rcases hd.stmtSep with e | e
      · exact .inr (.inl e)
      · exact .inr (.inr e)
  have hrd1 : ReadTks L1 (itemTks core) := by
    rw [htkc, htk1]
    exact readTks_header hcom hrd
  obtain ⟨fin, hlf, hrenf, _, hks, hcomf⟩ := lwf_ending hlc' hcore hE hrd1
  have hcc : comItems core = headerText sty :: comStrs (emit sty b) := by rw [hcomc, hcom1, hcomI]
  obtain ⟨t, ht⟩ := hstrip.2
  -- back to the emitted pieces
  have hback : ∃ L0, TCgd none (emit sty b) L0 ∧ (sty.lineWidth = 0 → L0 = emit sty b) ∧ ReadTks L0 (itemTks core) := by
    by_cases hw : sty.lineWidth = 0
    · have : L1 = ts1 := hL1 (by simp [hw])
      subst this
      exact ⟨emit sty b, TCgd.refl _ _, fun _ => rfl, softDrop_read hsd _ hrd1⟩
    · obtain ⟨L0, htc0, hsd0⟩ := tcgd_softDrop hsd htg1
      exact ⟨L0, htc0, fun h => absurd h hw, softDrop_read hsd0 _ hrd1⟩
  obtain ⟨L0, htg0, hL0, hrd0⟩ := hback
  have htc0 : TC (emit sty b) L0 := htg0.toTC
  refine ⟨fin, itemTks core, L0, hlf, ?_, htc0, hL0, hrd0, hks, ?_, ?_, htg0⟩
  · show renderItems fin = _ ++ ending sty
    rw [hrenf, hstrip.1]
  · show ∃ t, _ ++ ending sty = '-' :: t
    rw [hstrip.1, ht]; exact ⟨_, rfl⟩
  · rcases hcomf with e | ⟨e1, init, c, e2, e3⟩
    · exact .inl (by rw [e, hcc])
    · exact .inr ⟨e1, init, c, by rw [← hcc, e2], e3⟩

/-- **MAIN THEOREM**: the text is the rendering of a well-formed layout whose tokens are a reading of the emitted pieces with
the final statement separator restored and an Argument separator in front of some `}` -/
theorem format_items (sty : Style) (hd : DocStyle sty) (b : Block) (hp : Printable b)
    (hn : NumsCanon (numsBlock b))
    (hcm : ∀ s, .str s ∈ emit sty b → isCom s = true → Tidy s)
    (text : List Char) (h : format sty b = .ok text) :
    ∃ is ks L, LWF is ∧ renderItems is = text ∧ itemTks is = ks ∧ TC (emit sty b) L ∧
      ReadTks (L ++ [.sep .statement]) ks ∧ ∃ t, text = '-' :: t := by
  obtain ⟨is, ks0, L, hl, hr, htc, _, hrd, hks, ht, _, _⟩ := format_items_core sty hd b hp hn hcm text h
  refine ⟨is, itemTks is, L, hl, hr, rfl, htc, ?_, ht⟩
  rcases hks with e | ⟨_, e⟩
  · rw [e]; exact readTks_snoc_skip hrd
  · rw [e]; exact readTks_snoc_semi hrd

/-- **THE STATEMENT AS ASKED**, under the two extra hypotheses that make it true: no reflow (`lineWidth = 0`, so that no
trailing comma is written) and no `;` appended to the text (minifying, or a line break as statement separator) -/
theorem format_items_exact (sty : Style) (hd : DocStyle sty) (b : Block) (hp : Printable b)
    (hn : NumsCanon (numsBlock b))
    (hcm : ∀ s, .str s ∈ emit sty b → isCom s = true → Tidy s)
    (hw : sty.lineWidth = 0) (he : sty.removeUnnecessaryChars = true ∨ sty.statementSeparator = ['\n'])
    (text : List Char) (h : format sty b = .ok text) :
    ∃ is ks, LWF is ∧ renderItems is = text ∧ itemTks is = ks ∧ ReadTks (emit sty b) ks := by
  obtain ⟨is, ks0, L, hl, hr, _, hL, hrd, hks, _, _, _⟩ := format_items_core sty hd b hp hn hcm text h
  rw [hL hw] at hrd
  refine ⟨is, itemTks is, hl, hr, rfl, ?_⟩
  rcases hks with e | ⟨e, _⟩
  · rw [e]; exact hrd
  · exfalso
    unfold ending at e
    rcases he with he | he
    · rw [he] at e; cases e
    · split at e
      · cases e
      · rw [he] at e; cases e

/-- **COROLLARY**: the reference lexer reads the formatted text as these tokens, then `eof` -/
theorem format_lex (sty : Style) (hd : DocStyle sty) (b : Block) (hp : Printable b)
    (hn : NumsCanon (numsBlock b))
    (hcm : ∀ s, .str s ∈ emit sty b → isCom s = true → Tidy s)
    (text : List Char) (h : format sty b = .ok text) :
    ∃ ts ks L, Spec.lex text = .ok ts ∧ ts.map (·.tk) = ks ++ [.eof] ∧ TC (emit sty b) L ∧
      ReadTks (L ++ [.sep .statement]) ks := by
  obtain ⟨is, ks, L, hl, hr, hk, htc, hrd, t, ht⟩ := format_items sty hd b hp hn hcm text h
  have hsh : ∀ r, renderItems is ≠ '#' :: r := by
    intro r e
    rw [hr, ht] at e
    cases e
  obtain ⟨ts, h1, h2⟩ := unlex is hl hsh
  exact ⟨ts, ks, L, by rw [← hr]; exact h1, by rw [h2, hk], htc, hrd⟩

/-- the same for the statement as asked -/
theorem format_lex_exact (sty : Style) (hd : DocStyle sty) (b : Block) (hp : Printable b)
    (hn : NumsCanon (numsBlock b))
    (hcm : ∀ s, .str s ∈ emit sty b → isCom s = true → Tidy s)
    (hw : sty.lineWidth = 0) (he : sty.removeUnnecessaryChars = true ∨ sty.statementSeparator = ['\n'])
    (text : List Char) (h : format sty b = .ok text) :
    ∃ ts ks, Spec.lex text = .ok ts ∧ ts.map (·.tk) = ks ++ [.eof] ∧ ReadTks (emit sty b) ks := by
  obtain ⟨is, ks0, L, hl, hr, _, hL, hrd, hks, ⟨t, ht⟩, _, _⟩ := format_items_core sty hd b hp hn hcm text h
  obtain ⟨is', ks, hl', hr', hk', hrd'⟩ := format_items_exact sty hd b hp hn hcm hw he text h
  have hsh : ∀ r, renderItems is' ≠ '#' :: r := by
    intro r e
    rw [hr', ht] at e
    cases e
  obtain ⟨ts, h1, h2⟩ := unlex is' hl' hsh
  exact ⟨ts, ks, by rw [← hr']; exact h1, by rw [h2, hk'], hrd'⟩

theorem comTexts_eq (is : List LItem) : comTexts is = (comItems is).map comText := by
  induction is with
  | nil => rfl
  | cons x r ih =>
    cases x <;> simp [comTexts, comItems] at ih ⊢ <;> exact ih

/-- **the comments of the formatted text**: the reference lexer delivers, in order, the header comment and the comment pieces
of the emitted list (the pieces that start with `--`; there are none when comments are switched off) - each as the lexer
records a comment (`comText`) - except that the `;` which a non-minifying style with statement separator `;` appends to the
text becomes part of a short comment that ends the text -/
theorem format_lex_comments (sty : Style) (hd : DocStyle sty) (b : Block) (hp : Printable b)
    (hn : NumsCanon (numsBlock b))
    (hcm : ∀ s, .str s ∈ emit sty b → isCom s = true → Tidy s)
    (text : List Char) (h : format sty b = .ok text) :
    ∃ ts, Spec.lex text = .ok ts ∧
      (ts.flatMap (·.comments) = (headerText sty :: comStrs (emit sty b)).map comText ∨
        (ending sty = [';'] ∧ ∃ init c, headerText sty :: comStrs (emit sty b) = init ++ [c] ∧
          ts.flatMap (·.comments) = (init ++ [c ++ [';']]).map comText)) := by
  obtain ⟨is, ks0, L, hl, hr, _, _, _, _, ⟨t, ht⟩, hcomm, _⟩ := format_items_core sty hd b hp hn hcm text h
  have hsh : ∀ r, renderItems is ≠ '#' :: r := by
    intro r e
    rw [hr, ht] at e
    cases e
  obtain ⟨ts, h1, h2⟩ := unlex_all_comments is hl hsh
  refine ⟨ts, by rw [← hr]; exact h1, ?_⟩
  rw [h2, comTexts_eq]
  rcases hcomm with e | ⟨e1, init, c, e2, e3⟩
  · exact .inl (by rw [e])
  · exact .inr ⟨e1, init, c, e2, by rw [e3]⟩

end Tumfl.Theory
