import Tumfl.Theory.ParserSimComplete8
/-!
# Completeness of the model parser w.r.t. the reference parser (C03)

By one induction on the reference fuel (`AllComplete B f'`, the conjunction over all 21 reference functions):
whenever a reference function succeeds on a token list, the corresponding model parse function - started in
any state fed by that list (with a hint stack of the required height) - succeeds for every sufficiently large
fuel, with a related tree, in a state fed by the reference's remaining tokens.
-/
namespace Tumfl.Theory
open Tumfl.Model Tumfl.Spec

variable {B : Bridge} (hC : B.Complete)

theorem allComplete_zero : AllComplete B 0 := by
  constructor
  · intro ts c ts' h; rw [Spec.block] at h; cases h
  · intro ts ss rt ts' h; rw [Spec.statlist] at h; cases h
  · intro ts s' ts' h; rw [Spec.statement] at h; cases h
  · intro ts a b ts' h; rw [Spec.ifrest] at h; cases h
  · intro ts ns ts' h; rw [Spec.namelistRest] at h; cases h
  · intro ts0 nm ns ts' _ h; rw [Spec.namelistRest] at h; cases h
  · intro ts ns ts' h; rw [Spec.dottedRest] at h; cases h
  · intro ts ns ts' h; rw [Spec.attnamelist] at h; cases h
  · intro ts vs ts' h; rw [Spec.restassign] at h; cases h
  · intro ts es ts' h; rw [Spec.explist] at h; cases h
  · intro ts e' ts' h; rw [Spec.expr] at h; cases h
  · intro ts e' ts' h; rw [Spec.simpleexp] at h; cases h
  · intro ts r' ts' h; rw [Spec.suffixedexp] at h; cases h
  · intro e0 ts r' ts' h; rw [Spec.suffixes] at h; cases h
  · intro ts args ts' h; rw [Spec.funcargs] at h; cases h
  · intro ts fs ts' h; rw [Spec.fields] at h; cases h
  · intro ts ps va b ts' h; rw [Spec.body] at h; cases h
  · intro ts ps va ts' h; rw [Spec.parlist] at h; cases h
  · intro ts ps va ts' h; rw [Spec.parlist1] at h; cases h

include hC in
theorem allComplete_succ {f' : Nat} (ih : AllComplete B f') : AllComplete B (f' + 1) where
  block := block_complete_step hC ih
  statlist := statlist_complete_step hC ih
  statement := statement_complete_step hC ih
  ifrest := ifrest_complete_step hC ih
  namelistRest := namelistRest_complete_step hC ih
  namelistRest' := namelistRest'_complete_step hC ih
  dottedRest := dottedRest_complete_step hC ih
  attnamelist := attnamelist_complete_step hC ih
  restassign := restassign_complete_step hC ih
  explist := explist_complete_step hC ih
  expr := parseExp_complete_step hC ih.simpleexp
  simpleexp := simpleexp_complete_step hC ih
  suffixedexp := fun ts r' ts' h b n hb => suffixedexp_complete_step hC ih ts r' ts' h b n hb
  suffixes := suffixes_complete_step hC ih
  funcargs := funcargs_complete_step hC ih
  fields := fields_complete_step hC ih
  body := body_complete_step hC ih
  parlist := fun ts ps va ts' h hcl c n hk => parlist_complete_step hC ih ts ps va ts' h hcl c n hk
  parlist1 := parlist1_complete_step hC ih

include hC in
/-- the completeness contracts of all reference functions hold at every fuel -/
theorem allComplete (f' : Nat) : AllComplete B f' := by
  induction f' with
  | zero => exact allComplete_zero
  | succ f' ih => exact allComplete_succ hC ih

/-! ## The chunk -/

include hC in
/-- **`parse_chunk` is complete** (C03, statement level, modulo parentheses): if the reference `block` accepts a
prefix of `ts` (leaving `ts'`), then the model's `parseChunk`, started in any state fed by `ts`, succeeds for
every sufficiently large fuel, with a related tree, in a state fed by `ts'`. -/
theorem parseChunk_complete {f' : Nat} {s : PSt} {ts ts' : List Tok} {c : Spec.Block}
    (hf : B.Feeds s ts) (h : Spec.block f' ts = .ok (c, ts')) :
    ∃ f0 b s', (∀ f, f0 ≤ f → parseChunk f s = .ok (b, s')) ∧ BlockRel b c ∧ B.Feeds s' ts' ∧ s'.hints.length = s.hints.length := by
  have hspec : TPF B (fun g => parseChunk g) ts s.hints.length s.hints.length (fun b tsx => tsx = ts' ∧ BlockRel b c) := by
    unfold parseChunk
    apply TPF_bind
    refine TPF_curTok fun t _ => ?_
    apply TPF_bind
    refine TPF_call ((allComplete hC f').block _ _ _ h t false _ (fun h => by cases h)) ?_
    rintro b1 tsx ⟨rfl, hrel⟩
    cases b1 with
    | mk tk ss rs ch => exact TPF_pure ⟨by simp, hrel.chunk⟩
  obtain ⟨G, b, s', tsx, hrun, hf', hn', rfl, hrel⟩ := hspec s hf rfl
  exact ⟨G, b, s', hrun, hrel, hf', hn'⟩

include hC in
/-- the computation run by `parseText` after `initParser`: if the reference accepts the whole list (a block
followed by the end of input), so does the model, with a related tree -/
theorem parseChunk_eof_complete {f' : Nat} {s : PSt} {ts ts' : List Tok} {c : Spec.Block}
    (hf : B.Feeds s ts) (h : Spec.block f' ts = .ok (c, ts')) (heof : pk ts' = .eof) :
    ∃ f0 b s', (∀ f, f0 ≤ f → (do let b ← parseChunk f; assertTok .EOF; pure b : PM Model.Block) s = .ok (b, s')) ∧
      BlockRel b c ∧ B.Feeds s' ts' := by
  obtain ⟨f0, b, s', hrun, hrel, hf', _⟩ := parseChunk_complete hC hf h
  refine ⟨f0, b, s', fun f hle => ?_, hrel, hf'⟩
  rw [bind_ok (hrun f hle)]
  have hcur : s'.cur.type = .EOF := by
    have := B.cur hf'
    rw [heof] at this
    exact this
  simp [assertTok, hcur, bind, StateT.bind, Except.bind, pure, StateT.pure, Except.pure]

end Tumfl.Theory
