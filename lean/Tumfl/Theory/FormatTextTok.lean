import Tumfl.Theory.FormatTextDefs
/-!
# Token pieces of the emitter: `GoodTok`, `NoGlue`, `NoFuse` facts
-/
namespace Tumfl.Theory
open Tumfl Tumfl.Spec Tumfl.Model

/-! ## `sepRequired` on known end characters -/

theorem sepRequired_of (a b : List Char) (l d f0 : Char) (hl : a.getLast? = some l) (hd : b.head? = some d)
    (hf : a.head? = some f0) : sepRequired a b = .ok (sepBool l d f0) := by
  unfold sepRequired
  rw [hl, hd, hf]
  rfl

/-- the texts that can take part in a `fuses` adjacency on the left -/
def Fusy (x : List Char) : Bool := x == ['<'] || x == ['>'] || x == ['/'] || x == [':'] || x == ['.']

theorem fuses_fusy {x : List Char} {d : Char} (h : fuses x d = true) : Fusy x = true := by
  unfold fuses at h
  split at h
  · rename_i c
    simp only [Bool.or_eq_true, Bool.and_eq_true, beq_iff_eq] at h
    rcases h with (((⟨rfl, _⟩ | ⟨rfl, _⟩) | ⟨rfl, _⟩) | ⟨rfl, _⟩) | ⟨rfl, _⟩ <;> decide
  · cases h

theorem noFuse_of_not_fusy {x : List Char} (h : Fusy x = false) (y : List Char) : NoFuse x y := by
  intro d t _
  cases hf : fuses x d
  · rfl
  · rw [fuses_fusy hf] at h; cases h

/-- heads that never fuse with `<`, `>`, `/` (and are not `}`) -/
def H3 (c : Char) : Prop := c ≠ '<' ∧ c ≠ '>' ∧ c ≠ '/' ∧ c ≠ '}'

theorem noFuse_h3 {x : List Char} (h1 : x ≠ ['.']) (h2 : x ≠ [':']) {c : Char} (cs : List Char) (h : H3 c) :
    NoFuse x (c :: cs) := by
  intro d t e
  cases e
  cases hf : fuses x c
  · rfl
  · exfalso
    unfold fuses at hf
    split at hf
    · rename_i c'
      simp only [Bool.or_eq_true, Bool.and_eq_true, beq_iff_eq] at hf
      rcases hf with (((⟨_, rfl⟩ | ⟨_, rfl⟩) | ⟨_, rfl⟩) | ⟨rfl, _⟩) | ⟨rfl, _⟩
      · exact h.1 rfl
      · exact h.2.1 rfl
      · exact h.2.2.1 rfl
      · exact h2 rfl
      · exact h1 rfl
    · cases hf

theorem noGlue_inert {x : List Char} (hx : x ≠ []) {c : Char} (cs : List Char) (h : Inert c) : NoGlue x (c :: cs) :=
  ⟨sepRequired_inert x hx c cs h, fun d t e => by cases e; exact fuses_inert x c h⟩

theorem noFuse_inert (x : List Char) {c : Char} (cs : List Char) (h : Inert c) : NoFuse x (c :: cs) :=
  fun d t e => by cases e; exact fuses_inert x c h

theorem cmpChars : "<>=~".toList = ['<', '>', '=', '~'] := by decide

/-- the end characters after which no follower asks for a separator -/
def LeftInert (l : Char) : Prop :=
  isAlnum l = false ∧ l ≠ '-' ∧ l ≠ '.' ∧ l ≠ '<' ∧ l ≠ '>' ∧ l ≠ '=' ∧ l ≠ '~' ∧ l ≠ '['

theorem sepBool_leftInert (l d f0 : Char) (h : LeftInert l) (hf : isDigit f0 = false) : sepBool l d f0 = false := by
  obtain ⟨h1, h2, h3, h4, h5, h6, h7, h8⟩ := h
  have hc : "<>=~".toList.contains l = false := by
    rw [cmpChars]
    simp [h4, h5, h6, h7]
  simp only [sepBool, wordChars_contains, digits_contains, h1, Bool.false_and, hf, hc,
    show (l == '-') = false by simpa using h2, show (l == '.') = false by simpa using h3,
    show (l == '[') = false by simpa using h8, Bool.or_self, Bool.and_false]

theorem sepBool_alnumL (l d f0 : Char) (h1 : isAlnum l = true) (h2 : isAlnum d = false)
    (h3 : d = '.' → isDigit f0 = false) : sepBool l d f0 = false := by
  have e1 : (l == '-') = false := by
    cases h : l == '-'
    · rfl
    · rw [beq_iff_eq] at h; subst h; revert h1; decide
  have e2 : (l == '.') = false := by
    cases h : l == '.'
    · rfl
    · rw [beq_iff_eq] at h; subst h; revert h1; decide
  have e3 : (l == '[') = false := by
    cases h : l == '['
    · rfl
    · rw [beq_iff_eq] at h; subst h; revert h1; decide
  have e4 : "<>=~".toList.contains l = false := by
    cases h : "<>=~".toList.contains l
    · rfl
    · exfalso
      rw [cmpChars] at h
      have : l = '<' ∨ l = '>' ∨ l = '=' ∨ l = '~' := by simpa using h
      rcases this with rfl | rfl | rfl | rfl <;> revert h1 <;> decide
  have e5 : (d == '.' && Gen.digits.contains f0) = false := by
    cases h : d == '.'
    · rfl
    · rw [beq_iff_eq] at h
      rw [digits_contains, h3 h]; rfl
  simp only [sepBool, wordChars_contains, h2, Bool.and_false, e1, e2, e3, e4, Bool.false_and, Bool.or_false,
    Bool.false_or]
  simpa [Bool.and_or_distrib_left, e2] using e5

/-- a text that ends in a left-inert character, does not start with a digit, and is not fusy: anything may follow -/
theorem noGlue_leftInert {x : List Char} {l f0 : Char} (hl : x.getLast? = some l) (hf0 : x.head? = some f0)
    (h : LeftInert l) (hd : isDigit f0 = false) (hfu : Fusy x = false) {c : Char} (cs : List Char) :
    NoGlue x (c :: cs) := by
  refine ⟨?_, noFuse_of_not_fusy hfu _⟩
  rw [sepRequired_of x (c :: cs) l c f0 hl rfl hf0, sepBool_leftInert l c f0 h hd]

/-! ## tidy texts -/

theorem tidy_of_nospace {s : List Char} (h : ∀ c ∈ s, pyIsSpace c = false) : Tidy s := by
  refine ⟨fun a c b e => ?_, fun i l e => h l (by rw [e]; simp)⟩
  have : pyIsSpace '\n' = false := h '\n' (by rw [e]; simp)
  exact absurd this (by decide)

theorem tidy_no_nl {s : List Char} (h : '\n' ∉ s) (hl : ∀ i l, s = i ++ [l] → pyIsSpace l = false) : Tidy s :=
  ⟨fun a c b e => absurd (by rw [e]; simp) h, hl⟩

theorem alnum_not_pySpace_tab : ∀ n : Fin 128, isAlnum (Char.ofNat n.val) = true → pyIsSpace (Char.ofNat n.val) = false := by
  decide +kernel

theorem alnum_not_pySpace {c : Char} (h : isAlnum c = true) : pyIsSpace c = false :=
  ascii_all (fun c => isAlnum c = true → pyIsSpace c = false) alnum_not_pySpace_tab c (isAlnum_lt c h) h

theorem tidy_word {a : List Char} (h : IsWord a) : Tidy a := by
  obtain ⟨c, cs, rfl, hc, hcs⟩ := h
  exact tidy_of_nospace fun x hx => alnum_not_pySpace (word_all_alnum c cs hc hcs x hx)

/-! ## literals -/

def isWordB (a : List Char) : Bool :=
  match a with
  | c :: cs => isAlpha c && cs.all isAlnum
  | [] => false

theorem isWord_of_B {a : List Char} (h : isWordB a = true) : IsWord a := by
  cases a with
  | nil => cases h
  | cons c cs =>
    simp only [isWordB, Bool.and_eq_true, List.all_eq_true] at h
    exact ⟨c, cs, rfl, h.1, h.2⟩

theorem isQuoted_word {a : List Char} (h : IsWord a) : isQuoted a = false := by
  obtain ⟨c, cs, rfl, hc, _⟩ := h
  simp only [isQuoted, List.head?_cons]
  cases hq : (c == '"' || c == '\'')
  · rfl
  · exfalso
    simp only [Bool.or_eq_true, beq_iff_eq] at hq
    rcases hq with rfl | rfl <;> revert hc <;> decide

theorem goodTok_of_isPiece {a : List Char} {tk : Tk} (h : IsPiece a tk) (hs : strTk a = [tk])
    (hq : isQuoted a = true → QuotedForm a) (ht : Tidy a) : GoodTok a :=
  ⟨⟨tk, readsAs_of_isPiece h, hs⟩, hq, ht⟩

theorem goodTok_word {a : List Char} (hw : IsWord a) (hs : strTk a = [wordTk a]) : GoodTok a :=
  goodTok_of_isPiece (isPiece_word a hw) hs (fun h => by rw [isQuoted_word hw] at h; cases h) (tidy_word hw)

/-- a literal piece of the emitter -/
structure LitOK (s : String) : Prop where
  com : isCom s.toList = false
  quo : isQuoted s.toList = false
  good : GoodTok s.toList

theorem litOK_kw {s : String}
    (h : isWordB s.toList = true ∧ strTk s.toList = [wordTk s.toList] ∧ isCom s.toList = false) : LitOK s :=
  ⟨h.2.2, isQuoted_word (isWord_of_B h.1), goodTok_word (isWord_of_B h.1) h.2.1⟩

theorem litOK_sym {s : String}
    (h : s.toList ∈ symPieces ∧ strTk s.toList = [.sym (String.ofList s.toList)] ∧ isCom s.toList = false ∧
      isQuoted s.toList = false ∧ s.toList.all (fun c => !pyIsSpace c) = true) : LitOK s :=
  ⟨h.2.2.1, h.2.2.2.1, goodTok_of_isPiece (isPiece_symPieces _ h.1) h.2.1
    (fun hq => by rw [h.2.2.2.1] at hq; cases hq)
    (tidy_of_nospace fun c hc => by
      have := List.all_eq_true.mp h.2.2.2.2 c hc
      simpa using this)⟩

@[simp] theorem litOK_nil : LitOK "nil" := litOK_kw (by decide)
@[simp] theorem litOK_true : LitOK "true" := litOK_kw (by decide)
@[simp] theorem litOK_false : LitOK "false" := litOK_kw (by decide)
@[simp] theorem litOK_function : LitOK "function" := litOK_kw (by decide)
@[simp] theorem litOK_do : LitOK "do" := litOK_kw (by decide)
@[simp] theorem litOK_end : LitOK "end" := litOK_kw (by decide)
@[simp] theorem litOK_return : LitOK "return" := litOK_kw (by decide)
@[simp] theorem litOK_break : LitOK "break" := litOK_kw (by decide)
@[simp] theorem litOK_goto : LitOK "goto" := litOK_kw (by decide)
@[simp] theorem litOK_if : LitOK "if" := litOK_kw (by decide)
@[simp] theorem litOK_then : LitOK "then" := litOK_kw (by decide)
@[simp] theorem litOK_else : LitOK "else" := litOK_kw (by decide)
@[simp] theorem litOK_elseif : LitOK "elseif" := litOK_kw (by decide)
@[simp] theorem litOK_for : LitOK "for" := litOK_kw (by decide)
@[simp] theorem litOK_in : LitOK "in" := litOK_kw (by decide)
@[simp] theorem litOK_local : LitOK "local" := litOK_kw (by decide)
@[simp] theorem litOK_repeat : LitOK "repeat" := litOK_kw (by decide)
@[simp] theorem litOK_until : LitOK "until" := litOK_kw (by decide)
@[simp] theorem litOK_while : LitOK "while" := litOK_kw (by decide)
@[simp] theorem litOK_dots3 : LitOK "..." := litOK_sym (by decide)
@[simp] theorem litOK_lpar : LitOK "(" := litOK_sym (by decide)
@[simp] theorem litOK_rpar : LitOK ")" := litOK_sym (by decide)
@[simp] theorem litOK_lcur : LitOK "{" := litOK_sym (by decide)
@[simp] theorem litOK_rcur : LitOK "}" := litOK_sym (by decide)
@[simp] theorem litOK_lbrk : LitOK "[" := litOK_sym (by decide)
@[simp] theorem litOK_rbrk : LitOK "]" := litOK_sym (by decide)
@[simp] theorem litOK_colon : LitOK ":" := litOK_sym (by decide)
@[simp] theorem litOK_assign : LitOK "=" := litOK_sym (by decide)
@[simp] theorem litOK_lt : LitOK "<" := litOK_sym (by decide)
@[simp] theorem litOK_gt : LitOK ">" := litOK_sym (by decide)
@[simp] theorem litOK_semi : LitOK ";" := litOK_sym (by decide)
@[simp] theorem litOK_dcolon : LitOK "::" := litOK_sym (by decide)

theorem litOK_bop (o : BOp) : LitOK o.sym := by
  cases o <;> first | exact litOK_kw (by decide) | exact litOK_sym (by decide)

theorem litOK_uop (u : UOp) : LitOK u.sym := by
  cases u <;> first | exact litOK_kw (by decide) | exact litOK_sym (by decide)

/-! ## names -/

theorem identOK_word {n : List Char} (h : identOK n = true) : IsWord n := by
  cases n with
  | nil => simp [identOK] at h
  | cons c cs =>
    simp only [identOK, Bool.and_eq_true, List.all_eq_true] at h
    exact ⟨c, cs, rfl, h.1.1, h.1.2⟩

theorem wordTk_ident {n : List Char} (h : identOK n = true) : wordTk n = .name (String.ofList n) := by
  cases n with
  | nil => simp [identOK] at h
  | cons c cs =>
    simp only [identOK, Bool.and_eq_true, Bool.not_eq_true'] at h
    have hk : keywords.contains (String.ofList (c :: cs)) = false := h.2
    unfold wordTk
    rw [hk]
    rfl

theorem goodTok_ident {n : List Char} (h : identOK n = true) : GoodTok n :=
  goodTok_word (identOK_word h) (by rw [strTk_ident h, wordTk_ident h])

theorem isCom_word {a : List Char} (h : IsWord a) : isCom a = false := by
  obtain ⟨c, cs, rfl, hc, _⟩ := h
  have : c ≠ '-' := by rintro rfl; revert hc; decide
  simp [isCom, startsWith, isPrefix, Ne.symm this]

theorem word_head {a : List Char} (h : IsWord a) : ∃ c cs, a = c :: cs ∧ isAlpha c = true := by
  obtain ⟨c, cs, rfl, hc, _⟩ := h
  exact ⟨c, cs, rfl, hc⟩

theorem word_last {a : List Char} (h : IsWord a) : ∃ l, a.getLast? = some l ∧ isAlnum l = true := by
  obtain ⟨c, cs, rfl, hc, hcs⟩ := h
  exact getLast?_all (fun x => isAlnum x = true) (c :: cs) (by simp) (word_all_alnum c cs hc hcs)

theorem fusy_word {a : List Char} (h : IsWord a) : Fusy a = false := by
  obtain ⟨c, cs, rfl, hc, _⟩ := h
  cases hf : Fusy (c :: cs)
  · rfl
  · exfalso
    simp only [Fusy, Bool.or_eq_true, beq_iff_eq, List.cons.injEq] at hf
    rcases hf with (((⟨rfl, _⟩ | ⟨rfl, _⟩) | ⟨rfl, _⟩) | ⟨rfl, _⟩) | ⟨rfl, _⟩ <;> revert hc <;> decide

theorem isOpener_word {a : List Char} (h : IsWord a) : isOpener a = false := by
  obtain ⟨c, cs, rfl, hc, _⟩ := h
  cases hf : isOpener (c :: cs)
  · rfl
  · exfalso
    simp only [isOpener, Bool.or_eq_true, beq_iff_eq, List.cons.injEq] at hf
    rcases hf with (⟨rfl, _⟩ | ⟨rfl, _⟩) | ⟨rfl, _⟩ <;> revert hc <;> decide

/-! ## what may follow the last token of a callee -/

/-- the last token of a printed callee (`_format_var`): ends in a word character or a left-inert one, does not
start with a digit, is not fusy -/
def CalleeEnd (l : List Char) : Prop :=
  ∃ e f0, l.getLast? = some e ∧ l.head? = some f0 ∧ isDigit f0 = false ∧ Fusy l = false ∧
    (isAlnum e = true ∨ LeftInert e)

theorem CalleeEnd.ne_nil {l : List Char} (h : CalleeEnd l) : l ≠ [] := by
  obtain ⟨e, f0, _, hf, _⟩ := h
  rintro rfl; cases hf

theorem noGlue_callee {l : List Char} (h : CalleeEnd l) {d : Char} (t : List Char) (hd : isAlnum d = false) :
    NoGlue l (d :: t) := by
  obtain ⟨e, f0, hl, hf0, hdig, hfu, he⟩ := h
  refine ⟨?_, noFuse_of_not_fusy hfu _⟩
  rw [sepRequired_of l (d :: t) e d f0 hl rfl hf0]
  rcases he with he | he
  · rw [sepBool_alnumL e d f0 he hd (fun _ => hdig)]
  · rw [sepBool_leftInert e d f0 he hdig]

theorem calleeEnd_word {a : List Char} (h : IsWord a) : CalleeEnd a := by
  obtain ⟨l, hl, hal⟩ := word_last h
  obtain ⟨c, cs, rfl, hc⟩ := word_head h
  refine ⟨l, c, hl, rfl, ?_, fusy_word h, Or.inl hal⟩
  exact (isAlpha_not_special hc).2.2.2.2.2.1

theorem leftInert_closers : LeftInert ')' ∧ LeftInert ']' ∧ LeftInert '}' ∧ LeftInert '"' ∧ LeftInert '\'' ∧
    LeftInert '(' ∧ LeftInert '{' ∧ LeftInert ';' ∧ LeftInert ':' ∧ LeftInert ',' := by
  refine ⟨?_, ?_, ?_, ?_, ?_, ?_, ?_, ?_, ?_, ?_⟩ <;> (unfold LeftInert; decide)

theorem getLast?_snoc (a : List Char) (q : Char) : (a ++ [q]).getLast? = some q := by simp

/-! ## tidy literals -/

theorem hexDigit_ne_nl : ∀ k : Fin 16, hexDigitLower k.val ≠ '\n' := by decide

theorem natToHex_no_nl : ∀ (f n : Nat), '\n' ∉ natToHex f n := by
  intro f
  induction f with
  | zero => intro n; simp [natToHex]
  | succ f ih =>
    intro n
    rw [natToHex]
    split
    · rename_i h
      simp only [List.mem_singleton]
      exact fun e => hexDigit_ne_nl ⟨n, h⟩ e.symm
    · simp only [List.mem_append, List.mem_singleton, not_or]
      exact ⟨ih _, fun e => hexDigit_ne_nl ⟨n % 16, Nat.mod_lt _ (by omega)⟩ e.symm⟩

theorem escapeChar_no_nl (q : Char) (hq : q = '"' ∨ q = '\'') (c : Char) : '\n' ∉ escapeChar q c := by
  unfold escapeChar
  split
  · rename_i h
    simp only [Bool.or_eq_true, beq_iff_eq] at h
    simp only [List.mem_cons, List.not_mem_nil, or_false, not_or]
    refine ⟨by decide, ?_⟩
    rcases h with rfl | rfl
    · rcases hq with rfl | rfl <;> decide
    · decide
  · split
    · rename_i h
      simp only [Bool.and_eq_true, decide_eq_true_eq] at h
      simp only [List.mem_singleton]
      rintro rfl
      have : ('\n' : Char).toNat = 10 := by decide
      omega
    · split
      · rename_i l hl
        obtain ⟨c', hm, _⟩ := lookup_mem _ _ _ hl
        simp only [List.mem_cons, List.not_mem_nil, or_false, not_or]
        refine ⟨by decide, ?_⟩
        rintro rfl
        revert hm
        simp [Gen.escapeCharacters]
      · split
        · simp only [hex2, List.mem_cons, List.not_mem_nil, or_false, not_or]
          refine ⟨by decide, by decide, ?_, ?_⟩
          · exact fun e => hexDigit_ne_nl ⟨_, Nat.mod_lt _ (by omega)⟩ e.symm
          · exact fun e => hexDigit_ne_nl ⟨_, Nat.mod_lt _ (by omega)⟩ e.symm
        · simp only [List.mem_append, List.mem_singleton, not_or]
          exact ⟨⟨by decide, natToHex_no_nl _ _⟩, by decide⟩

theorem tidy_quoted (q : Char) (hq : q = '"' ∨ q = '\'') (v : List Char) : Tidy (q :: v.flatMap (escapeChar q) ++ [q]) := by
  have hqs : pyIsSpace q = false := by rcases hq with rfl | rfl <;> decide
  refine tidy_no_nl ?_ ?_
  · simp only [List.cons_append, List.mem_cons, List.mem_append, List.mem_flatMap, List.mem_singleton, not_or, not_exists,
      not_and]
    refine ⟨by rcases hq with rfl | rfl <;> decide, fun c _ => escapeChar_no_nl q hq c, by rcases hq with rfl | rfl <;> decide⟩
  · intro i l e
    have : (q :: v.flatMap (escapeChar q) ++ [q]) = (q :: v.flatMap (escapeChar q)) ++ [q] := rfl
    rw [this] at e
    have := List.append_inj_right' e rfl
    simp only [List.cons.injEq, and_true] at this
    rw [← this]; exact hqs

/-- no white-space character (other than the line break) directly in front of a line break -/
def NoSN (s : List Char) : Prop := ∀ a c b, s = a ++ c :: '\n' :: b → spaceNN c = false

theorem noSN_of_all {s : List Char} (h : ∀ c ∈ s, spaceNN c = false) : NoSN s :=
  fun a c b e => h c (by rw [e]; simp)

theorem noSN_append {x y : List Char} (hx : NoSN x) (hy : NoSN y)
    (hb : ∀ i l, x = i ++ [l] → ∀ t, y = '\n' :: t → spaceNN l = false) : NoSN (x ++ y) := by
  intro a c b e
  rcases List.append_eq_append_iff.mp e with ⟨a', ha, hy'⟩ | ⟨c', hx', hc'⟩
  · exact hy a' c b hy'
  · cases c' with
    | nil => simp at hc' hx'; exact hy [] c b (by simpa using hc'.symm)
    | cons c0 c1 =>
      simp only [List.cons_append, List.cons.injEq] at hc'
      obtain ⟨rfl, hc1⟩ := hc'
      cases c1 with
      | nil => simp at hc1; exact hb a c (by simpa using hx') b hc1.symm
      | cons d c2 =>
        simp only [List.cons_append, List.cons.injEq] at hc1
        obtain ⟨rfl, hc2⟩ := hc1
        exact hx a c c2 hx'

theorem printable_space_tab : ∀ n : Fin 128, 32 ≤ (Char.ofNat n.val).toNat → (Char.ofNat n.val).toNat < 127 →
    pyIsSpace (Char.ofNat n.val) = true → Char.ofNat n.val = ' ' := by
  decide +kernel

theorem printable_space {c : Char} (h1 : 32 ≤ c.toNat) (h2 : c.toNat < 127) (h : pyIsSpace c = true) : c = ' ' :=
  ascii_all (fun c => 32 ≤ c.toNat → c.toNat < 127 → pyIsSpace c = true → c = ' ') printable_space_tab c (by omega) h1 h2 h

theorem spaceNN_eq_false_of {c : Char} (h : pyIsSpace c = false ∨ c = '\n') : spaceNN c = false := by
  rcases h with h | rfl
  · simp [spaceNN, h]
  · decide

theorem mem_bracket {c o : Char} {n : Nat} (h : c ∈ o :: repeatChar '=' n ++ [o]) : c = o ∨ c = '=' := by
  simp only [List.cons_append, List.mem_cons, List.mem_append, repeatChar, List.mem_replicate, List.mem_singleton,
    List.not_mem_nil, or_false] at h
  rcases h with h | ⟨_, h⟩ | h
  · exact .inl h
  · exact .inr h
  · exact .inl h

/-- what `visitString` writes is tidy: a quoted literal has no line break, a long literal is only chosen for values
without a blank in front of a line break and without other white space -/
theorem visitString_tidy (sty : Style) (v a : List Char) (h : visitString sty v = [.str a]) : Tidy a := by
  unfold visitString at h
  simp only at h
  split at h
  · rename_i hcond
    simp only [Bool.and_eq_true, Bool.not_eq_true', decide_eq_true_eq] at hcond
    obtain ⟨⟨_, hunp⟩, hsub⟩ := hcond
    simp only [List.cons.injEq, Piece.str.injEq, and_true] at h
    subst h
    -- the characters of the value
    have hv : ∀ c ∈ v, spaceNN c = true → c = ' ' := by
      intro c hc hs
      have := List.any_eq_false.mp hunp c hc
      simp only [Bool.and_eq_true, bne_iff_ne, ne_eq, Bool.not_eq_true', not_and, Bool.not_eq_false,
        Bool.and_eq_true, decide_eq_true_eq] at this
      simp only [spaceNN, Bool.and_eq_true, bne_iff_ne, ne_eq] at hs
      by_cases h1 : c = '\n'
      · exact absurd h1 hs.2
      · by_cases h2 : c = '\''
        · subst h2; exact absurd hs.1 (by decide)
        · by_cases h3 : c = '"'
          · subst h3; exact absurd hs.1 (by decide)
          · have := this ⟨⟨h1, h2⟩, h3⟩
            exact printable_space this.1 this.2 hs.1
    have hnv : NoSN v := by
      intro a c b e
      cases hs : spaceNN c
      · rfl
      · exfalso
        have := hv c (by rw [e]; simp) hs
        subst this
        have : containsSub [' ', '\n'] v = true := (containsSub_iff _ _).mpr ⟨a, b, by rw [e]; simp⟩
        rw [this] at hsub; cases hsub
    have hA : ∀ c ∈ ('[' :: repeatChar '=' (findLevel v) ++ ['[']) ++ (if startsWith v ['\n'] then ['\n'] else []),
        spaceNN c = false := by
      intro c hc
      rcases List.mem_append.mp hc with hc | hc
      · rcases mem_bracket hc with rfl | rfl <;> decide
      · split at hc
        · simp only [List.mem_singleton] at hc; subst hc; decide
        · cases hc
    have hB : ∀ c ∈ (']' :: repeatChar '=' (findLevel v) ++ [']']), spaceNN c = false := by
      intro c hc
      rcases mem_bracket hc with rfl | rfl <;> decide
    refine ⟨?_, ?_⟩
    · refine noSN_append (noSN_append (noSN_of_all hA) hnv ?_) (noSN_of_all hB) ?_
      · intro i l e t _
        exact hA l (by rw [e]; simp)
      · intro i l _ t e
        simp at e
    · intro i l e
      have : ∀ X Y : List Char, X ++ (']' :: Y ++ [']']) = (X ++ ']' :: Y) ++ [']'] := by intro X Y; simp
      rw [this] at e
      have := List.append_inj_right' e rfl
      simp only [List.cons.injEq, and_true] at this
      rw [← this]; decide
  · simp only [List.cons.injEq, Piece.str.injEq, and_true] at h
    subst h
    split
    · exact tidy_quoted '\'' (Or.inr rfl) v
    · exact tidy_quoted '"' (Or.inl rfl) v

/-- the characters of a canonical numeral are not white space -/
theorem numText_nospace (n : Numeral) (sg : List Char) (hc : CanonNum n sg) :
    ∀ c ∈ numText n 'x' (stdMark n.hex) sg, pyIsSpace c = false := by
  obtain ⟨hip, hfp, hm, hex, _⟩ := hc.wf
  have hdig : ∀ c, dig n.hex c = true → pyIsSpace c = false := fun c h =>
    alnum_not_pySpace (xdigit_isAlnum c (dig_xdigit n.hex c h))
  intro c hcm
  simp only [numText, List.mem_append] at hcm
  rcases hcm with ((hcm | hcm) | hcm) | hcm
  · split at hcm
    · simp only [List.mem_cons, List.not_mem_nil, or_false] at hcm
      rcases hcm with rfl | rfl <;> decide
    · cases hcm
  · exact hdig c (hip c hcm)
  · cases hf : n.fp with
    | none => rw [hf] at hcm; simp [dotS] at hcm
    | some f =>
      rw [hf] at hcm
      simp only [dotS, List.mem_cons] at hcm
      rcases hcm with rfl | hcm
      · decide
      · exact hdig c (hfp f hf c hcm)
  · cases he : n.ex with
    | none => rw [he] at hcm; simp [exS] at hcm
    | some nd =>
      obtain ⟨neg, ds⟩ := nd
      rw [he] at hcm
      obtain ⟨hsg, _, hds⟩ := hex neg ds he
      simp only [exS, List.mem_cons, List.mem_append] at hcm
      rcases hcm with rfl | hcm | hcm
      · unfold stdMark; split <;> decide
      · rcases hsg with ⟨rfl, _⟩ | ⟨rfl, _⟩ | ⟨rfl, _⟩
        · cases hcm
        · simp only [List.mem_singleton] at hcm; subst hcm; decide
        · simp only [List.mem_singleton] at hcm; subst hcm; decide
      · exact alnum_not_pySpace (digit_alnum c (hds c hcm))

/-! ## strings -/

/-- a long-bracket or quoted literal as the last token of a callee -/
theorem visitString_tok (sty : Style) (v : List Char) :
    ∃ a, visitString sty v = [.str a] ∧ isCom a = false ∧ GoodTok a ∧ CalleeEnd a ∧ isOpener a = false ∧
      ∃ c cs, a = c :: cs ∧ (c = '"' ∨ c = '\'' ∨ c = '[') := by
  obtain ⟨a, ha, hp⟩ := isPiece_visitString sty v
  rcases Props.C06_forms sty v with ⟨q, hq, h⟩ | h
  · rw [ha] at h
    simp only [List.cons.injEq, Piece.str.injEq, and_true] at h
    subst h
    have hst := strTk_quoted q hq v
    have hqd : isDigit q = false := by rcases hq with rfl | rfl <;> decide
    have hli : LeftInert q := by
      rcases hq with rfl | rfl
      · exact leftInert_closers.2.2.2.1
      · exact leftInert_closers.2.2.2.2.1
    refine ⟨_, ha, ?_, goodTok_of_isPiece hp hst (fun _ => ⟨q, v, hq, rfl⟩) (visitString_tidy sty v _ ha), ?_, ?_, q, _, rfl, ?_⟩
    · rcases hq with rfl | rfl <;> simp [isCom, startsWith, isPrefix]
    · refine ⟨q, q, ?_, rfl, hqd, ?_, Or.inr hli⟩
      · rw [List.cons_append]
        have : q :: (v.flatMap (escapeChar q) ++ [q]) = (q :: v.flatMap (escapeChar q)) ++ [q] := rfl
        rw [this, getLast?_snoc]
      · cases hv : v.flatMap (escapeChar q) <;> simp [Fusy]
    · cases hv : v.flatMap (escapeChar q) <;> simp [isOpener]
    · rcases hq with rfl | rfl <;> simp
  · rw [ha] at h
    simp only [List.cons.injEq, Piece.str.injEq, and_true] at h
    subst h
    have hst := strTk_long v
    refine ⟨_, ha, ?_, goodTok_of_isPiece hp hst (fun hq => ?_) (visitString_tidy sty v _ ha), ?_, ?_, '[', _, rfl, Or.inr (Or.inr rfl)⟩
    · simp [isCom, startsWith, isPrefix]
    · simp [isQuoted] at hq
    · refine ⟨']', '[', ?_, rfl, by decide, ?_, Or.inr leftInert_closers.2.1⟩
      · have : ∀ x y : List Char, (x ++ (']' :: y ++ [']'])).getLast? = some ']' := by
          intro x y
          have : x ++ (']' :: y ++ [']']) = (x ++ ']' :: y) ++ [']'] := by simp
          rw [this, getLast?_snoc]
        exact this _ _
      · cases hv : repeatChar '=' (findLevel v) <;> simp [Fusy]
    · cases hv : repeatChar '=' (findLevel v) <;> simp [isOpener]

/-! ## numerals -/

theorem number_tok {t : NumTuple} (h1 : numOKp t = true) (h2 : CanonNumeral (numberStr t)) :
    isCom (numberStr t) = false ∧ GoodTok (numberStr t) ∧ isOpener (numberStr t) = false ∧
      Fusy (numberStr t) = false ∧
      ∃ c cs, numberStr t = c :: cs ∧ (isDigit c = true ∨ c = '.') := by
  obtain ⟨m, hp, _, hs⟩ := strTk_number h1
  obtain ⟨n, sg, hc, e⟩ := h2
  have hb := parseNumeral_build n 'x' (stdMark n.hex) sg hc.wf (Or.inl rfl)
  rw [← e, hp] at hb
  cases hb
  have hpc : IsPiece (numberStr t) (.num m) := by rw [e]; exact .num m sg hc
  simp only [numOKp, Bool.and_eq_true] at h1
  obtain ⟨hh, _⟩ := h1
  cases hn : numberStr t with
  | nil => rw [hn] at hh; cases hh
  | cons c cs =>
    rw [hn] at hh hpc hs
    simp only [Bool.or_eq_true, Bool.and_eq_true, beq_iff_eq] at hh
    have hcd : isDigit c = true ∨ c = '.' := by
      rcases hh with hh | hh
      · exact Or.inl hh
      · exact Or.inr hh.1
    have hne : c ≠ '-' ∧ c ≠ '"' ∧ c ≠ '\'' ∧ c ≠ '<' ∧ c ≠ '>' ∧ c ≠ '/' ∧ c ≠ ':' ∧ c ≠ '(' ∧ c ≠ '[' ∧ c ≠ '{' := by
      rcases hcd with hd | rfl
      · refine ⟨?_, ?_, ?_, ?_, ?_, ?_, ?_, ?_, ?_, ?_⟩ <;> (rintro rfl; revert hd; decide)
      · decide
    have hlen : c = '.' → cs ≠ [] := by
      rintro rfl
      rcases hh with hh | hh
      · exact absurd hh (by decide)
      · cases cs with
        | nil => simp at hh
        | cons _ _ => simp
    refine ⟨?_, goodTok_of_isPiece hpc hs (fun hq => ?_) (by rw [← hn, e]; exact tidy_of_nospace (numText_nospace m sg hc)), ?_, ?_, c, cs, rfl, hcd⟩
    · simp [isCom, startsWith, isPrefix, Ne.symm hne.1]
    · simp only [isQuoted, List.head?_cons, Bool.or_eq_true, beq_iff_eq] at hq
      rcases hq with rfl | rfl
      · exact absurd rfl hne.2.1
      · exact absurd rfl hne.2.2.1
    · cases ho : isOpener (c :: cs)
      · rfl
      · exfalso
        simp only [isOpener, Bool.or_eq_true, beq_iff_eq, List.cons.injEq] at ho
        rcases ho with (⟨rfl, _⟩ | ⟨rfl, _⟩) | ⟨rfl, _⟩
        · exact hne.2.2.2.2.2.2.2.1 rfl
        · exact hne.2.2.2.2.2.2.2.2.1 rfl
        · exact hne.2.2.2.2.2.2.2.2.2 rfl
    · cases hf : Fusy (c :: cs)
      · rfl
      · exfalso
        simp only [Fusy, Bool.or_eq_true, beq_iff_eq, List.cons.injEq] at hf
        rcases hf with (((⟨rfl, _⟩ | ⟨rfl, _⟩) | ⟨rfl, _⟩) | ⟨rfl, _⟩) | ⟨rfl, h0⟩
        · exact hne.2.2.2.1 rfl
        · exact hne.2.2.2.2.1 rfl
        · exact hne.2.2.2.2.2.1 rfl
        · exact hne.2.2.2.2.2.2.1 rfl
        · exact hlen rfl h0

end Tumfl.Theory
