import Tumfl.Theory.FormatTextWrap
import Tumfl.Theory.FormatTextChain
import Tumfl.Theory.FormatTextEmitBase
import Tumfl.Theory.FormatTextHard
/-!
# Stage C1: from the disciplined pieces to a well-formed layout of the joined text
-/
namespace Tumfl.Theory
open Tumfl Tumfl.Model

/-- `d` may directly follow the token text `x` -/
def NoGlueC (x : List Char) (d : Char) : Prop := sepRequired x [d] = .ok false ∧ fuses x d = false

/-- the pending state of the pieces versus the pending state of the items -/
def Compat : Pend → PendC → Prop
  | .none, pc => ∀ d, FollC pc d
  | .t0 x, pc => x ≠ [] ∧ ∀ d, NoGlueC x d → FollC pc d
  | .t1 x, pc => x ≠ [] ∧ ∀ d, NoGlueC x d → FollC pc d
  | .dotp, pc => ∀ d, NoGlueC ['.'] d → FollC pc d
  | .short, pc => pc = .short

/-- nothing but Indent / DeIndent since a pending token or comment: no blank line pending, no indentation due -/
def Coup (pend : Pend) (blank dirty : Bool) : Prop := pend ≠ .none → blank = false ∧ dirty = false

theorem compat_bump {pend : Pend} {pc : PendC} (h : Compat pend pc) : Compat pend.bump pc := by
  cases pend <;> exact h

theorem coup_bump {pend : Pend} {blank dirty : Bool} (h : Coup pend blank dirty) : Coup pend.bump false dirty := by
  intro hn
  have : pend ≠ .none := by cases pend <;> simp_all [Pend.bump]
  exact ⟨rfl, (h this).2⟩

theorem noGlueC_of_noGlue {x s : List Char} (h : NoGlue x s) {d : Char} {t : List Char} (e : s = d :: t) : NoGlueC x d := by
  subst e
  exact ⟨by rw [sepRequired_head x d [] t]; exact h.1, h.2 d t rfl⟩

theorem noGlueC_inert {x : List Char} (hx : x ≠ []) {d : Char} (h : Inert d) : NoGlueC x d :=
  ⟨sepRequired_inert x hx d [] h, fuses_inert x d h⟩

/-- the first character of a text that may follow the pending pieces may follow the pending items -/
theorem follC_of_follP {pend : Pend} {pc : PendC} (hc : Compat pend pc) {s : List Char} (hf : FollP pend s)
    {d : Char} {t : List Char} (e : s = d :: t) : FollC pc d := by
  cases pend with
  | none => exact hc d
  | t0 x => exact hc.2 d (noGlueC_of_noGlue hf e)
  | t1 x => exact hc.2 d (noGlueC_of_noGlue hf e)
  | dotp => exact hc d (noGlueC_of_noGlue hf e)
  | short => exact absurd hf id

theorem follC_inert {pend : Pend} {pc : PendC} (hc : Compat pend pc) (hs : pend ≠ .short) {d : Char} (h : Inert d) :
    FollC pc d := by
  cases pend with
  | none => exact hc d
  | t0 x => exact hc.2 d (noGlueC_inert hc.1 h)
  | t1 x => exact hc.2 d (noGlueC_inert hc.1 h)
  | dotp => exact hc d (noGlueC_inert (by simp) h)
  | short => exact absurd rfl hs

theorem tidy_endsNl {s : List Char} (h : Tidy s) : endsNl s = false := by
  unfold endsNl
  cases hs : s.getLast? with
  | none => rfl
  | some l =>
    obtain ⟨i, rfl⟩ : ∃ i, s = i ++ [l] := List.getLast?_eq_some_iff.mp hs
    have := h.2 i l rfl
    by_cases hl : l = '\n'
    · subst hl; exact absurd this (by decide)
    · simp [hl]

theorem closer_last (lvl : Nat) : (closer lvl).getLast? = some ']' := by
  unfold closer
  have : (']' :: repeatChar '=' lvl ++ [']']) = (']' :: repeatChar '=' lvl) ++ [']'] := rfl
  rw [this, List.getLast?_append]; rfl

theorem comOK_endsNl {s : List Char} (hc : isCom s = true) (h : ComOK s) : endsNl s = false := by
  cases hl : isLongCom s
  · obtain ⟨body, rfl, hnl, _⟩ := h.2 hl
    unfold endsNl
    rcases List.eq_nil_or_concat body with rfl | ⟨b, l, rfl⟩
    · decide
    · rw [List.concat_eq_append] at hnl ⊢
      have : '-' :: '-' :: (b ++ [l]) = ('-' :: '-' :: b) ++ [l] := rfl
      rw [this, List.getLast?_append]
      have : l ≠ '\n' := by rintro rfl; exact hnl (by simp)
      simp [this]
  · obtain ⟨lit, v, rfl, lvl, content, rfl, _⟩ := h.1 hl
    unfold endsNl
    have : '-' :: '-' :: ('[' :: repeatChar '=' lvl ++ '[' :: content ++ closer lvl) =
        ('-' :: '-' :: ('[' :: repeatChar '=' lvl ++ '[' :: content)) ++ closer lvl := by simp
    rw [this, List.getLast?_append, closer_last]
    rfl

theorem readsAs_semi : ReadsAs [';'] (.sym ";") := by
  have := readsAs_of_isPiece (isPiece_symPieces [';'] (by decide))
  exact this
theorem readsAs_comma : ReadsAs [','] (.sym ",") := by
  have := readsAs_of_isPiece (isPiece_symPieces [','] (by decide))
  exact this
theorem readsAs_dot : ReadsAs ['.'] (.sym ".") := by
  have := readsAs_of_isPiece (isPiece_symPieces ['.'] (by decide))
  exact this

theorem free_semi : ∀ d, FollC (.tok [';']) d := by
  intro d
  have := noGlue_semi d []
  exact ⟨this.1, this.2 d [] rfl⟩

theorem free_comma : ∀ d, FollC (.tok [',']) d := by
  intro d
  have := noGlue_leftInert (x := [',']) (l := ',') (f0 := ',') rfl rfl leftInert_closers.2.2.2.2.2.2.2.2.2 (by decide)
    (by decide) (c := d) []
  exact ⟨this.1, this.2 d [] rfl⟩

theorem inert_layout' {d : Char} (h : d = ' ' ∨ d = '\t') : Inert d := inert_of_layout (layout_of_blank h)

/-- the token items are hard, the comment items are the comment pieces of `L` in order -/
def ItemsOK (L : Pieces) (is : List LItem) : Prop :=
  (∀ a tk, .tok a tk ∈ is → HardTok a tk) ∧ comItems is = comStrs L

theorem itemsOK_nil : ItemsOK [] [] := ⟨fun _ _ h => (by cases h), rfl⟩

theorem itemsOK_sep {L : Pieces} {is : List LItem} (k : Sep) (h : ItemsOK L is) : ItemsOK (.sep k :: L) is :=
  ⟨h.1, by rw [h.2]; simp [comStrs]⟩

theorem itemsOK_str {L : Pieces} {is : List LItem} {s : List Char} (hc : isCom s = false) (h : ItemsOK L is) :
    ItemsOK (.str s :: L) is :=
  ⟨h.1, by rw [h.2]; simp [comStrs, hc]⟩

theorem itemsOK_drop {L : Pieces} {is : List LItem} (h : ItemsOK L is) : ItemsOK L is := h

theorem itemsOK_ws {L : Pieces} {is : List LItem} (w : List Char) (h : ItemsOK L is) : ItemsOK L (.ws w :: is) := by
  refine ⟨fun a tk hm => ?_, by rw [← h.2]; simp [comItems]⟩
  rcases List.mem_cons.mp hm with e | hm
  · cases e
  · exact h.1 a tk hm

theorem itemsOK_tok {L : Pieces} {is : List LItem} {a : List Char} {tk : Spec.Tk} (ha : HardTok a tk)
    (h : ItemsOK L is) : ItemsOK L (.tok a tk :: is) := by
  refine ⟨fun a' tk' hm => ?_, by rw [← h.2]; simp [comItems]⟩
  rcases List.mem_cons.mp hm with e | hm
  · cases e; exact ha
  · exact h.1 a' tk' hm

theorem itemsOK_com {L : Pieces} {is : List LItem} {c : List Char} (hc : isCom c = true)
    (h : ItemsOK L is) : ItemsOK (.str c :: L) (.com c :: is) := by
  refine ⟨fun a tk hm => ?_, by simp [comItems, comStrs, hc] at h ⊢; exact h.2⟩
  rcases List.mem_cons.mp hm with e | hm
  · cases e
  · exact h.1 a tk hm

theorem hardTok_semi : HardTok [';'] (.sym ";") := hardTok_tidy readsAs_semi (tidy_of_nospace (by decide))
theorem hardTok_comma : HardTok [','] (.sym ",") := hardTok_tidy readsAs_comma (tidy_of_nospace (by decide))
theorem hardTok_dot : HardTok ['.'] (.sym ".") := hardTok_tidy readsAs_dot (tidy_of_nospace (by decide))

theorem pre_ok {sty : Style} (hd : DocStyle sty) {pend : Pend} {pc : PendC} {blank dirty : Bool} (level : Int)
    (hc : Compat pend pc) (hcoup : Coup pend blank dirty) :
    (∀ c ∈ indPre sty.indentation level dirty, isLayoutSpace c = true) ∧
    (∀ d t, indPre sty.indentation level dirty = d :: t → FollC pc d) ∧
    (pend ≠ .none → indPre sty.indentation level dirty = []) := by
  refine ⟨fun c h => layout_of_blank (indPre_layout hd level dirty c h), ?_, fun h => by rw [(hcoup h).2]; rfl⟩
  intro d t e
  by_cases hp : pend = .none
  · subst hp; exact hc d
  · rw [(hcoup hp).2] at e; cases e

/-- after the indentation in front of a piece: the pending items -/
theorem compat_nextC {sty : Style} {pend : Pend} {pc : PendC} {blank dirty : Bool} (level : Int)
    (hc : Compat pend pc) (hcoup : Coup pend blank dirty) :
    Compat pend (nextC pc (indPre sty.indentation level dirty)) := by
  by_cases hp : pend = .none
  · subst hp
    unfold nextC
    split
    · exact hc
    · intro d; trivial
  · have : indPre sty.indentation level dirty = [] := by rw [(hcoup hp).2]; rfl
    rw [this]; exact hc

theorem sepRequired_quoted (q : Char) (X : List Char) (d : Char) :
    sepRequired (q :: X ++ [q]) [d] = .ok (sepBool q d q) := by
  have : q :: X ++ [q] = (q :: X) ++ [q] := rfl
  exact sepRequired_of _ _ q d q (by rw [this, List.getLast?_append]; rfl) rfl rfl

theorem fuses_long {q : Char} {X : List Char} (d : Char) : fuses (q :: X ++ [q]) d = false := by
  cases X <;> rfl

/-- a Newline separator (kept or inserted) -/
theorem nl_items {sty : Style} (hd : DocStyle sty) {pend : Pend} {pc : PendC} {blank dirty : Bool} {level : Int}
    {r ts6 ts7 L : Pieces} (hcomp : Compat pend pc) (hcoup : Coup pend blank dirty)
    (h6 : resolveTokensAux sty blank (.sep .newline :: r) = .ok ts6)
    (h7 : indentLoop sty.indentation ts6 level dirty = .ok ts7)
    (ih : ∀ (pc : PendC) (blank : Bool) (level : Int) (dirty : Bool) (ts6 ts7 : Pieces), Compat .none pc →
      Coup .none blank dirty → resolveTokensAux sty blank r = .ok ts6 →
      indentLoop sty.indentation ts6 level dirty = .ok ts7 →
      ∃ is, ChainOK pc is ∧ renderItems is = joinTokens ts7 ∧ ReadTks L (itemTks is) ∧ ItemsOK L is) :
    ∃ is, ChainOK pc is ∧ renderItems is = joinTokens ts7 ∧ ReadTks L (itemTks is) ∧ ItemsOK L is := by
  obtain ⟨txt, b1, l1, d1, r6, r7, hr6, hr7, hj, hout⟩ := step_cons hd _ _ _ _ _ _ _ h6 h7
  obtain ⟨p1, p2, p3⟩ := pre_ok hd level hcomp hcoup
  simp only [StepOut] at hout
  have htxt : (∀ c ∈ txt, isLayoutSpace c = true) ∧ (∀ d t, txt = d :: t → FollC pc d) ∧ Compat .none (nextC pc txt) := by
    cases blank with
    | true =>
      simp only [if_true] at hout
      obtain ⟨rfl, _, _, _⟩ := hout
      have hpn : pend = .none := by
        cases pend with
        | none => rfl
        | _ => exact absurd (hcoup (by simp)).1 (by simp)
      subst hpn
      refine ⟨p1, p2, ?_⟩
      unfold nextC
      split
      · exact hcomp
      · intro d; trivial
    | false =>
      simp only [Bool.false_eq_true, if_false] at hout
      obtain ⟨rfl, _, _, _⟩ := hout
      refine ⟨?_, ?_, ?_⟩
      · intro c hc
        rcases List.mem_append.mp hc with h | h
        · exact p1 c h
        · simp only [List.mem_singleton] at h; subst h; decide
      · intro d t e
        by_cases hps : pend = .short
        · subst hps
          rw [p3 (by simp)] at e
          simp only [List.nil_append, List.cons.injEq] at e
          rw [hcomp, ← e.1]
          rfl
        · have hdl : isLayoutSpace d = true := by
            cases hpre : indPre sty.indentation level dirty with
            | nil => rw [hpre] at e; simp at e; rw [← e.1]; decide
            | cons a b => rw [hpre] at e; simp at e; rw [← e.1]; exact p1 a (by rw [hpre]; simp)
          exact follC_inert hcomp hps (inert_of_layout hdl)
      · have : nextC pc (indPre sty.indentation level dirty ++ ['\n']) = .none := by simp [nextC]
        rw [this]; intro d; trivial
  have hl : l1 = level := by
    cases blank
    · simp only [Bool.false_eq_true, if_false] at hout; exact hout.2.2.1
    · simp only [if_true] at hout; exact hout.2.2.1
  subst hl
  obtain ⟨is, hch, hren, hrd, hio⟩ := ih (nextC pc txt) b1 l1 d1 r6 r7 htxt.2.2 (fun h => absurd rfl h) hr6 hr7
  exact ⟨.ws txt :: is, ⟨htxt.1, htxt.2.1, hch⟩, by simp only [render_cons, LItem.text, hren, hj],
    by simpa [itemTks, LItem.tks] using hrd, itemsOK_ws _ hio⟩

theorem dl_text {sty : Style} (hd : DocStyle sty) {pend : Pend} {ts5 L : Pieces} (h : DL sty true pend ts5 L) :
    ∀ (pc : PendC) (blank : Bool) (level : Int) (dirty : Bool) (ts6 ts7 : Pieces), Compat pend pc →
      Coup pend blank dirty → resolveTokensAux sty blank ts5 = .ok ts6 →
      indentLoop sty.indentation ts6 level dirty = .ok ts7 →
      ∃ is, ChainOK pc is ∧ renderItems is = joinTokens ts7 ∧ ReadTks L (itemTks is) ∧ ItemsOK L is := by
  induction h with
  | nil =>
    intro pc blank level dirty ts6 ts7 _ _ h6 h7
    rw [resolveTokensAux] at h6; cases h6
    rw [indentLoop] at h7
    split at h7
    · cases h7; exact ⟨[], trivial, rfl, .nil, itemsOK_nil⟩
    · cases h7
  | @tok pend s r L hc hg hf _ ih =>
    intro pc blank level dirty ts6 ts7 hcomp hcoup h6 h7
    obtain ⟨txt, b1, l1, d1, r6, r7, hr6, hr7, hj, hout⟩ := step_cons hd _ _ _ _ _ _ _ h6 h7
    simp only [StepOut] at hout
    obtain ⟨rfl, rfl, rfl, rfl⟩ := hout
    obtain ⟨⟨tk, hra, hst⟩, _, htidy⟩ := hg
    rw [tidy_endsNl htidy] at hr7
    obtain ⟨is, hch, hren, hrd, hio⟩ := ih (.tok s) false l1 false r6 r7 ⟨hra.1, fun d h => h⟩ (fun _ => ⟨rfl, rfl⟩) hr6 hr7
    obtain ⟨p1, p2, _⟩ := pre_ok hd l1 hcomp hcoup
    refine ⟨.ws (indPre sty.indentation l1 dirty) :: .tok s tk :: is, ⟨p1, p2, hra, ?_, hch⟩, ?_, ?_,
      itemsOK_ws _ (itemsOK_tok (hardTok_tidy hra htidy) (itemsOK_str hc hio))⟩
    · intro d t e
      exact follC_of_follP (compat_nextC l1 hcomp hcoup) hf e
    · simp only [render_cons, LItem.text, hren, hj, List.append_assoc]
    · have := ReadTks.other (p := .str s) (by simp) (by simp) hrd
      simpa [itemTks, LItem.tks, pieceTks, hst] using this
  | @grp pend q ind ps G r L hc hg hs hi hf _ ih =>
    intro pc blank level dirty ts6 ts7 hcomp hcoup h6 h7
    obtain ⟨⟨tk, hra, hst⟩, hqf, htidy⟩ := hg
    obtain ⟨quote, v, hq, rfl⟩ := hqf (stringIdent_isQuoted hs)
    obtain ⟨parts, rfl, hflat, hpne⟩ := stringIdent_parts hs
    have hparts : parts ≠ [] := by rintro rfl; simp at hflat
    have hlast : ∀ a, parts.getLast? = some a → endsNl a = false := by
      intro a ha
      obtain ⟨init, rfl⟩ := List.getLast?_eq_some_iff.mp ha
      have hane : a ≠ [] := hpne a (by simp)
      obtain ⟨a0, l, rfl⟩ : ∃ a0 l, a = a0 ++ [l] := by
        rcases List.eq_nil_or_concat a with rfl | ⟨a0, l, rfl⟩
        · exact absurd rfl hane
        · exact ⟨a0, l, by simp⟩
      have e : (init ++ [a0 ++ [l]]).flatten = (init.flatten ++ a0) ++ [l] := by simp
      rw [e] at hflat
      have : (quote :: v.flatMap (escapeChar quote) ++ [quote]) = (quote :: v.flatMap (escapeChar quote)) ++ [quote] := rfl
      rw [this] at hflat
      have hl := List.append_inj_right' hflat rfl
      simp only [List.cons.injEq, and_true] at hl
      subst hl
      unfold endsNl
      rw [List.getLast?_append]
      rcases hq with rfl | rfl <;> rfl
    obtain ⟨fill, hfill, r6, r7, hr6, hr7, hj⟩ := grp_text hd parts hparts hlast G hi r blank level dirty ts6 ts7 h6 h7
    have hfsp : ∀ i, ∀ ch ∈ fill i, Spec.isSpace ch = true := fun i ch h => isSpace_of_layout (hfill i ch h)
    have hlit := wrap_reads_sp sty quote hq v ind _ hs fill hfsp
    obtain ⟨g, gs, _, _, hshape⟩ := wrap_shape sty quote hq v ind _ hs fill
    have hra' : ReadsAs (wrappedText (stringIdent.build parts) fill) (.str (v.map fun c => Spec.SUnit.ch c.toNat)) :=
      readsAs_of_isPiece (.quoted _ _ hlit)
    have htk : tk = .str (v.map fun c => Spec.SUnit.ch c.toNat) := by
      rw [strTk_quoted quote hq v] at hst
      simp only [List.cons.injEq, and_true] at hst
      exact hst.symm
    have hcompat : Compat (.t0 (quote :: v.flatMap (escapeChar quote) ++ [quote]))
        (.tok (wrappedText (stringIdent.build parts) fill)) := by
      refine ⟨by simp, fun d hd' => ?_⟩
      rw [hshape]
      refine ⟨?_, fuses_long d⟩
      rw [sepRequired_quoted]
      have := hd'.1
      rw [sepRequired_quoted] at this
      exact this
    obtain ⟨is, hch, hren, hrd, hio⟩ := ih _ false level false r6 r7 hcompat (fun _ => ⟨rfl, rfl⟩) hr6 hr7
    obtain ⟨p1, p2, _⟩ := pre_ok hd level hcomp hcoup
    refine ⟨.ws (indPre sty.indentation level dirty) :: .tok (wrappedText (stringIdent.build parts) fill) _ :: is,
      ⟨p1, p2, hra', ?_, hch⟩, ?_, ?_,
      itemsOK_ws _ (itemsOK_tok (hardTok_wrapped sty quote hq v ind _ hs fill hfill) (itemsOK_str hc hio))⟩
    · intro d t e
      rw [hshape] at e
      simp only [List.cons_append, List.cons.injEq] at e
      exact follC_of_follP (compat_nextC level hcomp hcoup) hf (by rw [← e.1]; rfl)
    · simp only [render_cons, LItem.text, hren, hj, wrappedText, List.append_assoc]
    · have := ReadTks.other (p := .str (quote :: v.flatMap (escapeChar quote) ++ [quote])) (by simp) (by simp) hrd
      have h0 : pieceTks false (.str (quote :: v.flatMap (escapeChar quote) ++ [quote])) =
          [.str (v.map fun c => Spec.SUnit.ch c.toNat)] := by
        show strTk _ = _
        rw [hst, htk]
      rw [h0] at this
      simpa [itemTks, LItem.tks] using this
  | @com pend s r L hc hok hf _ ih =>
    intro pc blank level dirty ts6 ts7 hcomp hcoup h6 h7
    obtain ⟨txt, b1, l1, d1, r6, r7, hr6, hr7, hj, hout⟩ := step_cons hd _ _ _ _ _ _ _ h6 h7
    simp only [StepOut] at hout
    obtain ⟨rfl, rfl, rfl, rfl⟩ := hout
    rw [comOK_endsNl hc hok] at hr7
    have hcompat : Compat (if isLongCom s then Pend.none else Pend.short) (if isLongCom s then PendC.none else PendC.short) := by
      cases isLongCom s
      · rfl
      · intro d; trivial
    obtain ⟨is, hch, hren, hrd, hio⟩ := ih _ false l1 false r6 r7 hcompat (fun _ => ⟨rfl, rfl⟩) hr6 hr7
    obtain ⟨p1, p2, _⟩ := pre_ok hd l1 hcomp hcoup
    refine ⟨.ws (indPre sty.indentation l1 dirty) :: .com s :: is, ⟨p1, p2, hc, hok, ?_, hch⟩, ?_, ?_,
      itemsOK_ws _ (itemsOK_com hc hio)⟩
    · intro d t e
      exact follC_of_follP (compat_nextC l1 hcomp hcoup) hf e
    · simp only [render_cons, LItem.text, hren, hj, List.append_assoc]
    · have := ReadTks.other (p := .str s) (by simp) (by simp) hrd
      have hst : strTk s = [] := by
        unfold strTk
        rw [show startsWith s ['-', '-'] = true from hc]
        rfl
      simpa [itemTks, LItem.tks, pieceTks, hst] using this
  | @dot pend r L hf _ ih =>
    intro pc blank level dirty ts6 ts7 hcomp hcoup h6 h7
    obtain ⟨txt, b1, l1, d1, r6, r7, hr6, hr7, hj, hout⟩ := step_cons hd _ _ _ _ _ _ _ h6 h7
    simp only [StepOut] at hout
    obtain ⟨rfl, rfl, rfl, rfl⟩ := hout
    obtain ⟨is, hch, hren, hrd, hio⟩ := ih (.tok ['.']) false l1 false r6 r7 (fun d h => h) (fun _ => ⟨rfl, rfl⟩) hr6 hr7
    obtain ⟨p1, p2, _⟩ := pre_ok hd l1 hcomp hcoup
    refine ⟨.ws (indPre sty.indentation l1 dirty) :: .tok ['.'] (.sym ".") :: is, ⟨p1, p2, readsAs_dot, ?_, hch⟩, ?_, ?_,
      itemsOK_ws _ (itemsOK_tok hardTok_dot (itemsOK_sep _ hio))⟩
    · intro d t e
      exact follC_of_follP (compat_nextC l1 hcomp hcoup) hf e
    · simp only [render_cons, LItem.text, hren, hj, List.append_assoc]
    · have := ReadTks.other (p := .sep .dot) (by simp) (by simp) hrd
      simpa [itemTks, LItem.tks, pieceTks] using this
  | @sepT pend k r L hk hp _ ih =>
    intro pc blank level dirty ts6 ts7 hcomp hcoup h6 h7
    obtain ⟨txt, b1, l1, d1, r6, r7, hr6, hr7, hj, hout⟩ := step_cons hd _ _ _ _ _ _ _ h6 h7
    obtain ⟨p1, p2, _⟩ := pre_ok hd level hcomp hcoup
    have hnext := compat_nextC (sty := sty) level hcomp hcoup
    rcases hk with rfl | rfl | rfl
    · -- Space
      simp only [StepOut] at hout
      obtain ⟨rfl, rfl, rfl, rfl⟩ := hout
      obtain ⟨is, hch, hren, hrd, hio⟩ := ih .none false l1 false r6 r7 (fun d => trivial) (fun h => absurd rfl h) hr6 hr7
      refine ⟨.ws (indPre sty.indentation l1 dirty ++ [' ']) :: is, ⟨?_, ?_, ?_⟩, ?_, ?_, itemsOK_ws _ (itemsOK_sep _ hio)⟩
      · intro c hc
        rcases List.mem_append.mp hc with h | h
        · exact p1 c h
        · simp only [List.mem_singleton] at h; subst h; decide
      · intro d t e
        have hdl : isLayoutSpace d = true := by
          cases hpre : indPre sty.indentation l1 dirty with
          | nil => rw [hpre] at e; simp at e; rw [← e.1]; decide
          | cons a b => rw [hpre] at e; simp at e; rw [← e.1]; exact p1 a (by rw [hpre]; simp)
        exact follC_inert hcomp hp (inert_of_layout hdl)
      · have : nextC pc (indPre sty.indentation l1 dirty ++ [' ']) = .none := by simp [nextC]
        rw [this]; exact hch
      · simp only [render_cons, LItem.text, hren, hj, List.append_assoc]
      · have := ReadTks.other (p := .sep .space) (by simp) (by simp) hrd
        simpa [itemTks, LItem.tks, pieceTks] using this
    · -- Block
      simp only [StepOut] at hout
      obtain ⟨rfl, rfl, rfl, rfl⟩ := hout
      rcases hd.stmtSep with hs | hs
      · rw [hs] at hr7 hj
        obtain ⟨is, hch, hren, hrd, hio⟩ := ih .none false l1 true r6 r7 (fun d => trivial) (fun h => absurd rfl h) hr6
          (by simpa [endsNl] using hr7)
        refine ⟨.ws (indPre sty.indentation l1 dirty ++ ['\n']) :: is, ⟨?_, ?_, ?_⟩, ?_, .skip (Or.inr rfl) ?_,
          itemsOK_ws _ (itemsOK_sep _ hio)⟩
        · intro c hc
          rcases List.mem_append.mp hc with h | h
          · exact p1 c h
          · simp only [List.mem_singleton] at h; subst h; decide
        · intro d t e
          have hdl : isLayoutSpace d = true := by
            cases hpre : indPre sty.indentation l1 dirty with
            | nil => rw [hpre] at e; simp at e; rw [← e.1]; decide
            | cons a b => rw [hpre] at e; simp at e; rw [← e.1]; exact p1 a (by rw [hpre]; simp)
          exact follC_inert hcomp hp (inert_of_layout hdl)
        · have : nextC pc (indPre sty.indentation l1 dirty ++ ['\n']) = .none := by simp [nextC]
          rw [this]; exact hch
        · simp only [render_cons, LItem.text, hren, hj, List.append_assoc]
        · simpa [itemTks, LItem.tks] using hrd
      · rw [hs] at hr7 hj
        obtain ⟨is, hch, hren, hrd, hio⟩ := ih (.tok [';']) false l1 false r6 r7 free_semi (fun h => absurd rfl h) hr6
          (by simpa [endsNl] using hr7)
        refine ⟨.ws (indPre sty.indentation l1 dirty) :: .tok [';'] (.sym ";") :: is,
          ⟨p1, p2, readsAs_semi, ?_, hch⟩, ?_, ?_, itemsOK_ws _ (itemsOK_tok hardTok_semi (itemsOK_sep _ hio))⟩
        · intro d t e
          cases e
          exact follC_inert hnext hp inert_closers.2.2.2.2.2.2.2.1
        · simp only [render_cons, LItem.text, hren, hj, List.append_assoc]
        · have := ReadTks.semi (p := .sep .block) (Or.inr rfl) hrd
          simpa [itemTks, LItem.tks] using this
    · -- Argument
      simp only [StepOut] at hout
      obtain ⟨_, rfl, rfl, rfl, rfl⟩ := hout
      obtain ⟨w, hw, hwl⟩ : ∃ w, (if r.head? = some (.sep .newline) then [','] else sty.argumentSeparator) = ',' :: w ∧
          (w = [] ∨ w = [' ']) := by
        split
        · exact ⟨[], rfl, .inl rfl⟩
        · rcases hd.argSep with e | e <;> rw [e]
          · exact ⟨[], rfl, .inl rfl⟩
          · exact ⟨[' '], rfl, .inr rfl⟩
      rw [hw] at hj
      obtain ⟨is, hch, hren, hrd, hio⟩ := ih (nextC (.tok [',']) w) false l1 false r6 r7
        (by unfold nextC; split; exact free_comma; exact fun d => trivial) (fun h => absurd rfl h) hr6 hr7
      refine ⟨.ws (indPre sty.indentation l1 dirty) :: .tok [','] (.sym ",") :: .ws w :: is,
        ⟨p1, p2, readsAs_comma, ?_, ?_, ?_, hch⟩, ?_, ?_,
        itemsOK_ws _ (itemsOK_tok hardTok_comma (itemsOK_ws _ (itemsOK_sep _ hio)))⟩
      · intro d t e
        cases e
        exact follC_inert hnext hp inert_closers.2.2.2.2.2.2.2.2
      · intro c hc
        rcases hwl with rfl | rfl
        · cases hc
        · simp only [List.mem_singleton] at hc; subst hc; decide
      · intro d t e
        exact free_comma d
      · simp only [render_cons, LItem.text, hren, hj, List.append_assoc, List.cons_append, List.nil_append]
      · have := ReadTks.other (p := .sep .argument) (by simp) (by simp) hrd
        simpa [itemTks, LItem.tks, pieceTks] using this
  | @stmt pend r L hp _ _ _ ih =>
    intro pc blank level dirty ts6 ts7 hcomp hcoup h6 h7
    obtain ⟨txt, b1, l1, d1, r6, r7, hr6, hr7, hj, hout⟩ := step_cons hd _ _ _ _ _ _ _ h6 h7
    obtain ⟨p1, p2, _⟩ := pre_ok hd level hcomp hcoup
    have hnext := compat_nextC (sty := sty) level hcomp hcoup
    simp only [StepOut] at hout
    obtain ⟨rfl, rfl, rfl, rfl⟩ := hout
    rcases hd.stmtSep with hs | hs
    · rw [hs] at hr7 hj
      obtain ⟨is, hch, hren, hrd, hio⟩ := ih .none false l1 true r6 r7 (fun d => trivial) (fun h => absurd rfl h) hr6
        (by simpa [endsNl] using hr7)
      refine ⟨.ws (indPre sty.indentation l1 dirty ++ ['\n']) :: is, ⟨?_, ?_, ?_⟩, ?_, .skip (Or.inl rfl) ?_,
        itemsOK_ws _ (itemsOK_sep _ hio)⟩
      · intro c hc
        rcases List.mem_append.mp hc with h | h
        · exact p1 c h
        · simp only [List.mem_singleton] at h; subst h; decide
      · intro d t e
        have hdl : isLayoutSpace d = true := by
          cases hpre : indPre sty.indentation l1 dirty with
          | nil => rw [hpre] at e; simp at e; rw [← e.1]; decide
          | cons a b => rw [hpre] at e; simp at e; rw [← e.1]; exact p1 a (by rw [hpre]; simp)
        exact follC_inert hcomp hp (inert_of_layout hdl)
      · have : nextC pc (indPre sty.indentation l1 dirty ++ ['\n']) = .none := by simp [nextC]
        rw [this]; exact hch
      · simp only [render_cons, LItem.text, hren, hj, List.append_assoc]
      · simpa [itemTks, LItem.tks] using hrd
    · rw [hs] at hr7 hj
      obtain ⟨is, hch, hren, hrd, hio⟩ := ih (.tok [';']) false l1 false r6 r7 free_semi (fun h => absurd rfl h) hr6
        (by simpa [endsNl] using hr7)
      refine ⟨.ws (indPre sty.indentation l1 dirty) :: .tok [';'] (.sym ";") :: is,
        ⟨p1, p2, readsAs_semi, ?_, hch⟩, ?_, ?_, itemsOK_ws _ (itemsOK_tok hardTok_semi (itemsOK_sep _ hio))⟩
      · intro d t e
        cases e
        exact follC_inert hnext hp inert_closers.2.2.2.2.2.2.2.1
      · simp only [render_cons, LItem.text, hren, hj, List.append_assoc]
      · have := ReadTks.semi (p := .sep .statement) (Or.inl rfl) hrd
        simpa [itemTks, LItem.tks] using this
  | @nl pend r L _ ih =>
    intro pc blank level dirty ts6 ts7 hcomp hcoup h6 h7
    obtain ⟨is, hch, hren⟩ := nl_items hd hcomp hcoup h6 h7 ih
    exact ⟨is, hch, hren.1, by
      have := ReadTks.other (p := .sep .newline) (by simp) (by simp) hren.2.1
      simpa [pieceTks] using this, itemsOK_sep _ hren.2.2⟩
  | @nlIns pend r L _ ih =>
    intro pc blank level dirty ts6 ts7 hcomp hcoup h6 h7
    obtain ⟨is, hch, hren⟩ := nl_items hd hcomp hcoup h6 h7 ih
    exact ⟨is, hch, hren.1, hren.2.1, hren.2.2⟩
  | @ind pend k r L hk _ ih =>
    intro pc blank level dirty ts6 ts7 hcomp hcoup h6 h7
    obtain ⟨txt, b1, l1, d1, r6, r7, hr6, hr7, hj, hout⟩ := step_cons hd _ _ _ _ _ _ _ h6 h7
    have hst : txt = [] ∧ b1 = false ∧ d1 = dirty := by
      rcases hk with rfl | rfl <;> simp only [StepOut] at hout <;> exact ⟨hout.1, hout.2.1, hout.2.2.2⟩
    obtain ⟨rfl, rfl, rfl⟩ := hst
    obtain ⟨is, hch, hren, hrd, hio⟩ := ih pc false l1 d1 r6 r7 (compat_bump hcomp) (coup_bump hcoup) hr6 hr7
    refine ⟨is, hch, by rw [hren, hj]; rfl, ?_, itemsOK_sep _ hio⟩
    have := ReadTks.other (p := .sep k) (by rcases hk with rfl | rfl <;> simp) (by rcases hk with rfl | rfl <;> simp) hrd
    rcases hk with rfl | rfl <;> simpa [pieceTks] using this
  | @indIns pend k r L hk _ _ ih =>
    intro pc blank level dirty ts6 ts7 hcomp hcoup h6 h7
    obtain ⟨txt, b1, l1, d1, r6, r7, hr6, hr7, hj, hout⟩ := step_cons hd _ _ _ _ _ _ _ h6 h7
    have hst : txt = [] ∧ b1 = false ∧ d1 = dirty := by
      rcases hk with rfl | rfl <;> simp only [StepOut] at hout <;> exact ⟨hout.1, hout.2.1, hout.2.2.2⟩
    obtain ⟨rfl, rfl, rfl⟩ := hst
    obtain ⟨is, hch, hren, hrd, hio⟩ := ih pc false l1 d1 r6 r7 (compat_bump hcomp) (coup_bump hcoup) hr6 hr7
    exact ⟨is, hch, by rw [hren, hj]; rfl, hrd, hio⟩
  | @dropS pend r L _ _ ih =>
    intro pc blank level dirty ts6 ts7 hcomp hcoup h6 h7
    obtain ⟨is, hch, hren, hrd, hio⟩ := ih pc blank level dirty ts6 ts7 hcomp hcoup h6 h7
    exact ⟨is, hch, hren, .skip (Or.inl rfl) hrd, itemsOK_sep _ hio⟩

end Tumfl.Theory
