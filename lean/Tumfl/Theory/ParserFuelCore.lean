import Tumfl.Model.Parser
import Tumfl.Theory.LexTotal
import Tumfl.Theory.HintsCore
/-!
# Fuel adequacy of the model parser: the measure and a weakest-precondition calculus

`rem s` : the number of tokens the parser state `s` has not consumed yet, bounded by characters
(`rest` of the lexer, plus one for each buffered token that is not `EOF`).
`FW m Q s` : running `m` in state `s` either succeeds with a result `a` and a state `s'` such that
`Q a s'`, or fails with an error that is **not** `.fuel`.
-/
namespace Tumfl.Theory
open Tumfl.Model Tumfl.Spec

/-- tokens not yet consumed, measured in characters -/
def rem (s : PSt) : Nat :=
  s.lex.rest.length + (if s.cur.type = .EOF then 0 else 1) + (if s.nxt.type = .EOF then 0 else 1)

variable {α β : Type}

structure FW (m : PM α) (Q : α → PSt → Prop) (s : PSt) : Prop where
  run : match m s with
    | .ok (a, s') => Q a s'
    | .error e => e ≠ .fuel

theorem FW_bind {m : PM α} {k : α → PM β} {Q : β → PSt → Prop} {s : PSt}
    (h : FW m (fun a s' => FW (k a) Q s') s) : FW (m >>= k) Q s := by
  have h := h.run
  cases hm : m s with
  | error e => rw [hm] at h; exact ⟨by rw [bind_err hm]; exact h⟩
  | ok r => obtain ⟨a, s1⟩ := r; rw [hm] at h; exact ⟨by rw [bind_ok hm]; exact h.run⟩

theorem FW_call {m : PM α} {Q' Q : α → PSt → Prop} {s : PSt}
    (h : FW m Q' s) (hq : ∀ a s', Q' a s' → Q a s') : FW m Q s := by
  have h := h.run
  constructor
  cases hm : m s with
  | error e => rw [hm] at h; exact h
  | ok r => obtain ⟨a, s1⟩ := r; rw [hm] at h; exact hq _ _ h

theorem FW_pure {a : α} {Q : α → PSt → Prop} {s : PSt} (h : Q a s) : FW (pure a : PM α) Q s := ⟨h⟩

/-- a branch condition, kept opaque -/
def FCond (p : Prop) : Prop := p

theorem FW_ite {c : Prop} [Decidable c] {a b : PM α} {Q : α → PSt → Prop} {s : PSt}
    (ha : FCond c → FW a Q s) (hb : FCond (¬ c) → FW b Q s) : FW (if c then a else b) Q s := by
  split
  · exact ha ‹_›
  · exact hb ‹_›

theorem FW_map {γ : Type} {m : PM α} {g : α → γ} {Q : γ → PSt → Prop} {s : PSt}
    (h : FW m (fun a s' => Q (g a) s') s) : FW (g <$> m) Q s := by
  have h := h.run
  constructor
  cases hm : m s with
  | error e => rw [hm] at h; simp [Functor.map, StateT.map, hm, bind, Except.bind]; exact h
  | ok r => obtain ⟨a, s1⟩ := r; rw [hm] at h; simp [Functor.map, StateT.map, hm, bind, Except.bind, pure, Except.pure]; exact h

theorem FW_curTok {Q : Token → PSt → Prop} {s : PSt} (h : Q s.cur s) : FW curTok Q s := ⟨h⟩
theorem FW_nxtTok {Q : Token → PSt → Prop} {s : PSt} (h : Q s.nxt s) : FW nxtTok Q s := ⟨h⟩
theorem FW_curIs {t : TT} {Q : Bool → PSt → Prop} {s : PSt} (h : Q (s.cur.type == t) s) : FW (curIs t) Q s := ⟨h⟩

theorem FW_perror {msg : String} {tok : Token} {Q : α → PSt → Prop} {s : PSt} : FW (perror msg tok : PM α) Q s :=
  ⟨by intro h; cases h⟩

theorem FW_pyerr {kind site : String} {Q : α → PSt → Prop} {s : PSt} : FW (pyerr kind site : PM α) Q s :=
  ⟨by intro h; cases h⟩

theorem FW_ok {m : PM α} {Q : α → PSt → Prop} {s s' : PSt} {a : α} (h : FW m Q s) (hm : m s = .ok (a, s')) : Q a s' := by
  have h := h.run; rw [hm] at h; exact h

theorem FW_err {m : PM α} {Q : α → PSt → Prop} {s : PSt} {e : PyErr} (h : FW m Q s) (hm : m s = .error e) : e ≠ .fuel := by
  have h := h.run; rw [hm] at h; exact h

theorem FW_ne_fuel {m : PM α} {Q : α → PSt → Prop} {s : PSt} (h : FW m Q s) : m s ≠ .error .fuel := by
  intro hm; exact FW_err h hm rfl

/-! ## primitives: the hint operations change neither the tokens nor the measure -/

theorem FW_addHint {wher what : String} {Q : Unit → PSt → Prop} {s : PSt}
    (hq : ∀ s', s'.cur.type = s.cur.type → rem s' = rem s → Q () s') : FW (addHint wher what) Q s :=
  ⟨hq _ rfl rfl⟩

theorem FW_removeHint {Q : Unit → PSt → Prop} {s : PSt}
    (hq : ∀ s', s'.cur.type = s.cur.type → rem s' = rem s → Q () s') : FW removeHint Q s := by
  constructor
  unfold removeHint
  by_cases h : s.hints.isEmpty = true
  · simp only [h, if_true]; intro h; cases h
  · simp only [h]; exact hq _ rfl rfl

theorem FW_switchHint {what : String} {Q : Unit → PSt → Prop} {s : PSt}
    (hq : ∀ s', s'.cur.type = s.cur.type → rem s' = rem s → Q () s') : FW (switchHint what) Q s := by
  constructor
  unfold switchHint
  cases h : s.hints.getLast? with
  | none => simp only []; intro h; cases h
  | some x => simp only []; exact hq _ rfl rfl

theorem FW_assertTok {t : TT} {Q : Unit → PSt → Prop} {s : PSt}
    (hq : s.cur.type = t → Q () s) : FW (assertTok t) Q s := by
  constructor
  unfold assertTok
  by_cases h : (s.cur.type != t) = true
  · simp only [h, if_true]; intro h; cases h
  · simp only [h]; exact hq (by simpa using h)

/-! ## eating a token -/

theorem eatRaw_rem {s s' : PSt} (h : eatRaw s = .ok ((), s')) :
    rem s' + (if s.cur.type = .EOF then 0 else 1) ≤ rem s := by
  unfold eatRaw at h
  split at h
  · cases h
  · next t lx hl =>
    cases h
    simp only [rem]
    by_cases ht : t.type = .EOF
    · have := getNextToken_len_le hl
      simp only [ht, if_true]; omega
    · have := getNextToken_progress hl ht
      simp only [ht, if_false]; omega

theorem eatRaw_ne_fuel (s : PSt) : eatRaw s ≠ .error .fuel := by
  unfold eatRaw
  split
  · next e he => intro h; cases h; exact getNextToken_ne_fuel _ _ he
  · intro h; cases h

theorem FW_eatRaw_le {Q : Unit → PSt → Prop} {s : PSt}
    (hq : ∀ s', rem s' ≤ rem s → Q () s') : FW eatRaw Q s := by
  constructor
  cases h : eatRaw s with
  | error e => intro he; subst he; exact eatRaw_ne_fuel s h
  | ok r =>
    obtain ⟨⟨⟩, s'⟩ := r
    have := eatRaw_rem h
    exact hq s' (by omega)

theorem FW_eatRaw_strict {Q : Unit → PSt → Prop} {s : PSt} (hne : s.cur.type ≠ .EOF)
    (hq : ∀ s', rem s' + 1 ≤ rem s → Q () s') : FW eatRaw Q s := by
  constructor
  cases h : eatRaw s with
  | error e => intro he; subst he; exact eatRaw_ne_fuel s h
  | ok r =>
    obtain ⟨⟨⟩, s'⟩ := r
    have := eatRaw_rem h
    simp only [hne, if_false] at this
    exact hq s' this

theorem FW_eat_none_le {Q : Unit → PSt → Prop} {s : PSt}
    (hq : ∀ s', rem s' ≤ rem s → Q () s') : FW (eat none) Q s := by
  show FW eatRaw Q s
  exact FW_eatRaw_le hq

theorem FW_eat_none_strict {Q : Unit → PSt → Prop} {s : PSt} (hne : s.cur.type ≠ .EOF)
    (hq : ∀ s', rem s' + 1 ≤ rem s → Q () s') : FW (eat none) Q s := by
  show FW eatRaw Q s
  exact FW_eatRaw_strict hne hq

theorem FW_eat_some {t : TT} {Q : Unit → PSt → Prop} {s : PSt} (ht : t ≠ .EOF)
    (hq : ∀ s', rem s' + 1 ≤ rem s → Q () s') : FW (eat (some t)) Q s := by
  show FW (assertTok t >>= fun _ => eatRaw) Q s
  refine FW_bind (FW_assertTok ?_)
  intro hty
  exact FW_eatRaw_strict (by rw [hty]; exact ht) hq

theorem FW_eatName {Q : Expr → PSt → Prop} {s : PSt}
    (hq : ∀ a s', rem s' + 1 ≤ rem s → Q a s') : FW eatName Q s := by
  unfold eatName
  refine FW_bind (FW_curTok ?_)
  refine FW_bind (FW_eat_some (by decide) ?_)
  intro s' h
  exact FW_pure (hq _ _ h)

/-! ## the initial state -/

theorem initParser_rem {cfg : LexCfg} {text : List Char} {s0 : PSt} (h : initParser cfg text = .ok s0) :
    rem s0 ≤ text.length := by
  unfold initParser at h
  split at h
  · cases h
  · next t1 l1 h1 =>
    split at h
    · cases h
    · next t2 l2 h2 =>
      cases h
      simp only [rem]
      have e0 := initLex_rest text
      have a1 := getNextToken_len_le h1
      have a2 := getNextToken_len_le h2
      rw [e0] at a1
      by_cases ht1 : t1.type = .EOF <;> by_cases ht2 : t2.type = .EOF
      · simp only [ht1, ht2, if_true]; omega
      · have := getNextToken_progress h2 ht2
        simp only [ht1, ht2, if_true, if_false]; omega
      · have := getNextToken_progress h1 ht1
        rw [e0] at this
        simp only [ht1, ht2, if_true, if_false]; omega
      · have b1 := getNextToken_progress h1 ht1
        have b2 := getNextToken_progress h2 ht2
        rw [e0] at b1
        simp only [ht1, ht2, if_false]; omega

theorem initParser_ne_fuel (cfg : LexCfg) (text : List Char) : initParser cfg text ≠ .error .fuel := by
  unfold initParser
  split
  · next e he => intro h; cases h; exact getNextToken_ne_fuel _ _ he
  · split
    · next e he => intro h; cases h; exact getNextToken_ne_fuel _ _ he
    · intro h; cases h

end Tumfl.Theory
