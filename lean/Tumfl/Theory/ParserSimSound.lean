import Tumfl.Theory.ParserSimSound7
/-!
# Soundness of the model parser w.r.t. the reference parser (C10)

By one induction on the model fuel (`AllSound B f`, the conjunction over all 21 parse functions): whenever a
model parse function succeeds in a state fed by a reference token list, the corresponding reference function
succeeds (for every sufficiently large reference fuel: `Ev`) on that list with a related tree, and the final
state is fed by the reference's remaining tokens.
-/
namespace Tumfl.Theory
open Tumfl.Model Tumfl.Spec

variable {B : Bridge}

theorem allSound_zero : AllSound B 0 := by
  constructor
  · intros; rw [Model.parseBlock]; exact SPF_fuelErrP
  · intros; rw [Model.parseStatements]; exact SPF_fuelErrP
  · intros; rw [Model.parseStatement]; exact SPF_fuelErrP
  · intros; rw [Model.parseDotted]; exact SPF_fuelErrP
  · intros; rw [Model.parseAttNames]; exact SPF_fuelErrP
  · intros; rw [Model.parseIf]; exact SPF_fuelErrP
  · intros; rw [Model.parseElseIfs]; exact SPF_fuelErrP
  · intros; rw [Model.parseFuncBody]; exact SPF_fuelErrP
  · intros; rw [Model.parseNameList]; exact SPF_fuelErrP
  · intros; rw [Model.parseNameList]; exact SPF_fuelErrP
  · intros; rw [Model.parseNames]; exact SPF_fuelErrP
  · intros; rw [Model.parseNames]; exact SPF_fuelErrP
  · intros; rw [Model.parseExpList]; exact SPF_fuelErrP
  · intros; rw [Model.parseVarStmt]; exact SPF_fuelErrP
  · intros; rw [Model.parseMoreVars]; exact SPF_fuelErrP
  · intros; rw [Model.parseExp]; exact SPF_fuelErrP
  · intros; rw [Model.parseAtom]; exact SPF_fuelErrP
  · intros; rw [Model.parseVar]; exact SPF_fuelErrP
  · intros; rw [Model.parseVarTerminal]; exact SPF_fuelErrP
  · intros; rw [Model.parseTable]; exact SPF_fuelErrP
  · intros; rw [Model.parseFields]; exact SPF_fuelErrP
  · intros; rw [Model.parseField]; exact SPF_fuelErrP
  · intros; rw [Model.parseArgs]; exact SPF_fuelErrP

theorem allSound_succ {f : Nat} (ih : AllSound B f) : AllSound B (f + 1) where
  parseBlock := parseBlock_sound_step ih
  parseStatements := parseStatements_sound_step ih
  parseStatement := parseStatement_sound_step ih
  parseDotted := parseDotted_sound_step ih
  parseAttNames := parseAttNames_sound_step ih
  parseIf := parseIf_sound_step ih
  parseElseIfs := parseElseIfs_sound_step ih
  parseFuncBody := parseFuncBody_sound_step ih
  parseNameList_some := parseNameList_some_sound_step ih
  parseNameList_none := parseNameList_none_sound_step ih
  parseNames_false := parseNames_false_sound_step ih
  parseNames_true := parseNames_true_sound_step ih
  parseExpList := parseExpList_sound_step ih
  parseVarStmt := parseVarStmt_sound_step ih
  parseMoreVars := parseMoreVars_sound_step ih
  parseExp := parseExp_sound_step ih.parseAtom
  parseAtom := parseAtom_sound_step ih
  parseVar := parseVar_sound_step ih
  parseVarTerminal := parseVarTerminal_sound_step ih
  parseTable := parseTable_sound_step ih
  parseFields := parseFields_sound_step ih
  parseField := parseField_sound_step ih
  parseArgs := parseArgs_sound_step ih

/-- the soundness contracts of all parse functions hold at every fuel -/
theorem allSound (B : Bridge) (f : Nat) : AllSound B f := by
  induction f with
  | zero => exact allSound_zero
  | succ f ih => exact allSound_succ ih

/-! ## The chunk -/

/-- **`parse_chunk` is sound** (C10, statement level, modulo parentheses): if the model's `parseChunk` succeeds in
a state fed by `ts`, its final state is fed by some `ts'`, and - unless the remaining input starts with
`return` (see `parseChunk_return_counterexample` in the report: `return return`) - the reference `block` accepts
`ts` up to `ts'` with a related tree. -/
theorem parseChunk_sound (B : Bridge) {fuel : Nat} {s s' : PSt} {ts : List Tok} {b : Model.Block}
    (hf : B.Feeds s ts) (h : parseChunk fuel s = .ok (b, s')) :
    ∃ ts', B.Feeds s' ts' ∧ (pk ts' ≠ .kw "return" → ∃ c, Ev (block · ts) (c, ts') ∧ BlockRel b c) := by
  have hspec : SPF B (parseChunk fuel) ts (fun b ts' =>
      pk ts' ≠ .kw "return" → ∃ c, Ev (block · ts) (c, ts') ∧ BlockRel b c) := by
    unfold parseChunk
    refine SPF_bind (SPF_curTok fun t _ => ?_)
    refine SPF_bind (SPF_call ((allSound B fuel).parseBlock t false ts) ?_)
    intro b1 ts1 hb
    cases b1 with
    | mk tk ss rs ch =>
      refine SPF_pure ?_
      intro hnr
      obtain ⟨c, hev, hrel⟩ := BlockPost.false hb hnr
      exact ⟨c, hev, hrel.chunk⟩
  exact hspec s hf b s' h

/-- the computation run by `parseText` after `initParser`: the whole input is one chunk -/
theorem parseChunk_eof_sound (B : Bridge) {fuel : Nat} {s s' : PSt} {ts : List Tok} {b : Model.Block}
    (hf : B.Feeds s ts)
    (h : (do let b ← parseChunk fuel; assertTok .EOF; pure b : PM Model.Block) s = .ok (b, s')) :
    ∃ c ts', Ev (block · ts) (c, ts') ∧ pk ts' = .eof ∧ BlockRel b c ∧ B.Feeds s' ts' := by
  have hspec : SPF B (do let b ← parseChunk fuel; assertTok .EOF; pure b : PM Model.Block) ts (fun b ts' =>
      ∃ c, Ev (block · ts) (c, ts') ∧ pk ts' = .eof ∧ BlockRel b c) := by
    refine SPF_bind ?_
    intro s0 hf0 b0 s1 h0
    obtain ⟨ts1, hf1, hb⟩ := parseChunk_sound B hf0 h0
    refine ⟨ts1, hf1, ?_⟩
    refine SPF_bind (SPF_assertTok fun hp => ?_)
    refine SPF_pure ?_
    obtain ⟨c, hev, hrel⟩ := hb (by rw [hp]; intro h; cases h)
    exact ⟨c, hev, hp, hrel⟩
  obtain ⟨ts', hf', c, hev, hp, hrel⟩ := hspec s hf b s' h
  exact ⟨c, ts', hev, hp, hrel, hf'⟩

/-- in terms of `Spec.parseToks`' ingredients: some reference fuel makes `block` succeed and the rest is `eof` -/
theorem parseChunk_eof_sound' (B : Bridge) {fuel : Nat} {s s' : PSt} {ts : List Tok} {b : Model.Block}
    (hf : B.Feeds s ts)
    (h : (do let b ← parseChunk fuel; assertTok .EOF; pure b : PM Model.Block) s = .ok (b, s')) :
    ∃ f' c ts', Spec.block f' ts = .ok (c, ts') ∧ pk ts' = .eof ∧ BlockRel b c ∧ B.Feeds s' ts' := by
  obtain ⟨c, ts', hev, hp, hrel, hf'⟩ := parseChunk_eof_sound B hf h
  obtain ⟨f', hf0⟩ := hev.of_fuel
  exact ⟨f', c, ts', hf0, hp, hrel, hf'⟩

end Tumfl.Theory
