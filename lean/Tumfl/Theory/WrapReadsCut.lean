import Tumfl.Theory.WrapReadsEsc
import Tumfl.Theory.LayoutKeepsString
/-!
# Where `_string_ident` cuts a written literal

`stepPos limit input` (the cut of one round of the loop) is either the whole input, or a position that
`escapePositions` does not mark, at least three characters before the end, whose next character is not
white space (`stepPos_spec`) - both when the position was found by the backward search and when it was
found by the forward search.  For `input = pre ++ escBody q v ++ [q]` (`pre` the opening quote or
nothing) this means the cut falls between two items (`cut_spec`), and the loop splits the value into
groups (`loop_groups`).
-/
namespace Tumfl.Theory
open Tumfl.Model

theorem newlinePosBack_spec (s : Array Char) (forb : List Nat) :
    ∀ (n p : Nat), newlinePosBack s forb n = some p →
      p ≤ n ∧ p ∉ forb ∧ (p = s.size ∨ pyIsSpace (s.getD p ' ') = false)
  | 0, p, h => by rw [newlinePosBack] at h; cases h
  | n + 1, p, h => by
    rw [newlinePosBack] at h
    split at h
    · cases h
    · simp only at h
      split at h
      · rename_i hc
        cases h
        simp only [Bool.and_eq_true, Bool.or_eq_true, beq_iff_eq, Bool.not_eq_true', List.contains_eq_mem,
          decide_eq_false_iff_not] at hc
        exact ⟨Nat.le_refl _, hc.2, hc.1.1⟩
      · obtain ⟨h1, h2⟩ := newlinePosBack_spec s forb n p h
        exact ⟨by omega, h2⟩

theorem newlinePosFwd_spec (s : Array Char) (forb : List Nat) :
    ∀ (f p0 : Nat), s.size < f + p0 → p0 ≤ s.size →
      newlinePosFwd s forb f p0 = s.size ∨
        (newlinePosFwd s forb f p0 < s.size ∧ newlinePosFwd s forb f p0 ∉ forb ∧
          pyIsSpace (s.getD (newlinePosFwd s forb f p0) ' ') = false)
  | 0, p0, h, h' => by omega
  | f + 1, p0, h, h' => by
    rw [newlinePosFwd]
    split
    · rename_i hlt
      split
      · rename_i hc
        simp only [Bool.and_eq_true, Bool.not_eq_true', List.contains_eq_mem, decide_eq_false_iff_not] at hc
        exact .inr ⟨hlt, hc.2, hc.1⟩
      · exact newlinePosFwd_spec s forb f (p0 + 1) (by omega) (by omega)
    · exact .inl rfl

/-- `__get_newline_pos`: the whole input, or an unmarked position whose next character is not white space -/
theorem getNewlinePos_spec (input : List Char) (limit : Int) :
    getNewlinePos input limit = input.length ∨
      (getNewlinePos input limit < input.length ∧
        getNewlinePos input limit ∉ escapePositions (input.length + 1) 0 input ∧
        pyIsSpace (input.toArray.getD (getNewlinePos input limit) ' ') = false) := by
  unfold getNewlinePos
  simp only
  split
  · exact .inl rfl
  · rename_i hlt
    split
    · rename_i p hp
      obtain ⟨h1, h2, h3⟩ := newlinePosBack_spec _ _ _ _ hp
      simp only [List.size_toArray] at h3
      by_cases he : p = input.length
      · exact .inl he
      · refine .inr ⟨by omega, h2, ?_⟩
        rcases h3 with h3 | h3
        · exact absurd h3 he
        · exact h3
    · have := newlinePosFwd_spec input.toArray (escapePositions (input.length + 1) 0 input)
        (input.length + 1) (max limit 1).toNat (by simp; omega) (by simp; omega)
      simpa using this

/-- the cut of one round: the whole input, or an unmarked position at least three characters before the
end whose next character is not white space -/
theorem stepPos_spec (input : List Char) (limit : Int) :
    stepPos limit input = input.length ∨
      (stepPos limit input + 3 ≤ input.length ∧
        stepPos limit input ∉ escapePositions (input.length + 1) 0 input ∧
        pyIsSpace (input.toArray.getD (stepPos limit input) ' ') = false) := by
  unfold stepPos
  split
  · exact .inl rfl
  · rename_i hlt
    rcases getNewlinePos_spec input limit with h | ⟨h1, h2, h3⟩
    · exact .inl h
    · exact .inr ⟨by omega, h2, h3⟩

theorem escapeChar_blank (q : Char) (hq : q = '"' ∨ q = '\'') : escapeChar q ' ' = [' '] := by
  rcases hq with rfl | rfl <;> decide

theorem getD_toArray_append (a b : List Char) (c d : Char) :
    (a ++ c :: b).toArray.getD a.length d = c := by
  simp [Array.getD]

/-- one round of the loop on a written literal (or on what is left of it): the cut is the whole input,
or falls between two items, and then the next item is not a blank -/
theorem cut_spec (q : Char) (hq : q = '"' ∨ q = '\'') (limit : Int) (pre v : List Char)
    (hpre : pre = [] ∨ pre = [q]) :
    stepPos limit (pre ++ escBody q v ++ [q]) = (pre ++ escBody q v ++ [q]).length ∨
      ∃ k, k ≤ v.length ∧
        (pre ++ escBody q v ++ [q]).take (stepPos limit (pre ++ escBody q v ++ [q])) = pre ++ escBody q (v.take k) ∧
        (pre ++ escBody q v ++ [q]).drop (stepPos limit (pre ++ escBody q v ++ [q])) = escBody q (v.drop k) ++ [q] ∧
        (v.drop k).head? ≠ some ' ' := by
  have hqb : q ≠ '\\' := by rcases hq with rfl | rfl <;> decide
  generalize hin : pre ++ escBody q v ++ [q] = input
  have hne : input ≠ [] := by subst hin; simp
  have hpos := stepPos_pos limit input hne
  rcases stepPos_spec input limit with h | ⟨h1, h2, h3⟩
  · exact .inl h
  · right
    generalize stepPos limit input = p at *
    have hlen : input.length = pre.length + (escBody q v).length + 1 := by subst hin; simp; omega
    have hvl := escBody_length_ge q v
    -- the boundary
    have hb : (∃ k, k ≤ v.length ∧ p = pre.length + (escBody q (v.take k)).length) ∨
        p = pre.length + (escBody q v).length + 1 := by
      rcases hpre with rfl | rfl
      · simp only [List.nil_append] at hin
        rw [← hin] at h2
        exact not_forbidden_boundary q hq v _ 0 p (by simp; omega) (by omega) (by simp at hlen ⊢; omega) h2
      · simp only [List.cons_append, List.nil_append] at hin
        rw [← hin, List.length_cons, escapePositions_plain _ _ _ _ hqb] at h2
        exact not_forbidden_boundary q hq v _ 1 p (by simp; omega) (by omega) (by simp at hlen ⊢; omega) h2
    rcases hb with ⟨k, hk, e⟩ | e
    · have hsplit : input = (pre ++ escBody q (v.take k)) ++ (escBody q (v.drop k) ++ [q]) := by
        rw [← hin]
        conv => lhs; rw [← List.take_append_drop k v, escBody_append]
        simp
      have hpl : (pre ++ escBody q (v.take k)).length = p := by simp [e]
      refine ⟨k, hk, ?_, ?_, ?_⟩
      · rw [hsplit, List.take_left' hpl]
      · rw [hsplit, List.drop_left' hpl]
      · intro hh
        obtain ⟨t, ht⟩ : ∃ t, v.drop k = ' ' :: t := by
          cases hd : v.drop k with
          | nil => rw [hd] at hh; simp at hh
          | cons a t => rw [hd] at hh; simp at hh; exact ⟨t, by rw [hh]⟩
        rw [hsplit, ht, escBody_cons, escapeChar_blank q hq, ← hpl] at h3
        simp only [List.cons_append, List.nil_append] at h3
        rw [getD_toArray_append] at h3
        revert h3; decide
    · omega

/-- the parts of a literal whose value is cut into the groups `g :: gs`; `pre` is the opening quote for
the first part -/
def textParts (q : Char) : List Char → List Char → List (List Char) → List (List Char)
  | pre, g, [] => [pre ++ escBody q g ++ [q]]
  | pre, g, g' :: gs => (pre ++ escBody q g) :: textParts q [] g' gs

theorem stringIdentLoop_nil (limit : Int) (f : Nat) : stringIdentLoop limit f [] = [] := by
  cases f <;> rw [stringIdentLoop]

/-- the loop cuts the value into groups, none of which (but possibly the first) begins with a blank -/
theorem loop_groups (q : Char) (hq : q = '"' ∨ q = '\'') (limit : Int) :
    ∀ (f : Nat) (pre v : List Char), (pre = [] ∨ pre = [q]) → (pre ++ escBody q v ++ [q]).length < f →
      ∃ g gs, g ++ gs.flatten = v ∧
        stringIdentLoop limit f (pre ++ escBody q v ++ [q]) = textParts q pre g gs ∧
        ∀ g' ∈ gs, g'.head? ≠ some ' '
  | 0, pre, v, _, h => by omega
  | f + 1, pre, v, hpre, h => by
    have hne : pre ++ escBody q v ++ [q] ≠ [] := by simp
    rw [stringIdentLoop_succ limit f _ hne]
    have hpos := stepPos_pos limit _ hne
    rcases cut_spec q hq limit pre v hpre with e | ⟨k, hk, e1, e2, e3⟩
    · refine ⟨v, [], by simp, ?_, by simp⟩
      rw [e, List.take_length, List.drop_length, stringIdentLoop_nil]
      rfl
    · rw [e1, e2]
      have hl : ([] ++ escBody q (v.drop k) ++ [q]).length < f := by
        have := congrArg List.length e2
        rw [List.length_drop] at this
        have h0 : 1 ≤ (pre ++ escBody q v ++ [q]).length := by simp; omega
        rw [List.nil_append, ← this]
        omega
      obtain ⟨g', gs', hv, hloop, hgs⟩ := loop_groups q hq limit f [] (v.drop k) (.inl rfl) hl
      rw [List.nil_append] at hloop
      refine ⟨v.take k, g' :: gs', ?_, ?_, ?_⟩
      · rw [List.flatten_cons, hv, List.take_append_drop]
      · rw [hloop]; rfl
      · intro x hx
        rcases List.mem_cons.mp hx with rfl | hx
        · cases x with
          | nil => simp
          | cons a t =>
            rw [← hv] at e3
            simpa using e3
        · exact hgs x hx

end Tumfl.Theory
