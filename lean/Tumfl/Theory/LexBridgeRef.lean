import Tumfl.Theory.LexBridgeTok
/-!
# LexBridge, part 5: the reference loop emits exactly `lexOne`'s token

`lexLoop_lexOne` (BoundaryLex) unfolds one iteration of `Spec.lexLoop` when `lexOne` finds a token; here is the converse:
at a token start, where `lexOne` finds none, the loop reports an error.
-/
namespace Tumfl.Theory
open Tumfl.Model Tumfl

theorem lexOne_none_error (n f : Nat) (c : Char) (cs : List Char) (cm : List (List Char)) (hat : AtToken (c :: cs))
    (h : lexOne (c :: cs) = none) : ∃ e, Spec.lexLoop n (f + 1) (c :: cs) cm = .error e := by
  obtain ⟨hsp, hcm⟩ := hat
  rw [lexOne_cons] at h
  by_cases ha : Spec.isAlpha c = true
  · simp only [ha, if_true] at h; cases h
  simp only [ha, Bool.false_eq_true, if_false] at h
  by_cases hn : (Spec.isDigit c || (c == '.' && nextIsDigit cs)) = true
  · simp only [hn, if_true] at h
    have hp : Spec.parseNumeral (numScan c cs).1 = none := by
      cases hp : Spec.parseNumeral (numScan c cs).1 with
      | none => rfl
      | some m => rw [hp] at h; cases h
    by_cases hd : Spec.isDigit c = true
    · rw [lexLoop_num n f c cs cm hd]
      unfold numResult
      rw [hp]
      exact ⟨_, rfl⟩
    · simp only [hd, Bool.false_or, Bool.and_eq_true, beq_iff_eq] at hn
      obtain ⟨rfl, hnd⟩ := hn
      cases cs with
      | nil => cases hnd
      | cons d r =>
        rw [lexLoop_num_dot n f d r cm hnd]
        unfold numResult
        rw [hp]
        exact ⟨_, rfl⟩
  simp only [hn, Bool.false_eq_true, if_false] at h
  simp only [Bool.or_eq_true, Bool.and_eq_true, beq_iff_eq, not_or, not_and] at hn
  have hd : Spec.isDigit c = false := by simpa using hn.1
  have ha' : Spec.isAlpha c = false := by simpa using ha
  by_cases hq : (c == '"' || c == '\'') = true
  · simp only [hq, if_true] at h
    have hb : Spec.strBody c (cs.length + 1) cs = none := by
      cases hb : Spec.strBody c (cs.length + 1) cs with
      | none => rfl
      | some m => rw [hb] at h; cases h
    have hq' : c = '"' ∨ c = '\'' := by simpa using hq
    unfold Spec.lexLoop
    rcases hq' with rfl | rfl
    · simp only [show Spec.isSpace '"' = false by decide, show ('"' == '-') = false by decide,
        show ('"' == '[') = false by decide, show ('"' == '"' || '"' == '\'') = true by decide,
        Bool.false_eq_true, if_false, if_true, hb]
      exact ⟨_, rfl⟩
    · simp only [show Spec.isSpace '\'' = false by decide, show ('\'' == '-') = false by decide,
        show ('\'' == '[') = false by decide, show ('\'' == '"' || '\'' == '\'') = true by decide,
        Bool.false_eq_true, if_false, if_true, hb]
      exact ⟨_, rfl⟩
  simp only [hq, Bool.false_eq_true, if_false] at h
  have hq2 : (c == '"' || c == '\'') = false := by simpa using hq
  have hg : symGuard c = false := by
    have e1 : (c == '"') = false := by
      cases e : (c == '"') with
      | false => rfl
      | true => rw [e] at hq2; cases hq2
    have e2 : (c == '\'') = false := by
      cases e : (c == '\'') with
      | false => rfl
      | true => rw [e, Bool.or_true] at hq2; cases hq2
    simp only [symGuard, hsp, e1, e2, hd, ha', Bool.or_self]
  cases hsy : symAt (c :: cs) with
  | some p => rw [hsy] at h; cases h
  | none =>
    rw [hsy] at h
    simp only at h
    by_cases hmin : c = '-'
    · subst hmin
      rw [symAt_minus cs (fun hh => hcm ⟨rfl, hh⟩)] at hsy
      cases hsy
    by_cases hbr : c = '['
    · subst hbr
      simp only [beq_self_eq_true, if_true] at h
      unfold Spec.lexLoop
      simp only [show Spec.isSpace '[' = false by decide, show ('[' == '-') = false by decide,
        show ('[' == '[') = true by decide, Bool.false_eq_true, if_false, if_true]
      unfold longTk at h
      cases ho : Spec.longOpener ('[' :: cs) with
      | some p =>
        obtain ⟨lvl, body⟩ := p
        rw [ho] at h
        simp only at h ⊢
        cases hb : Spec.longBody lvl (Spec.dropFirstNewline body) with
        | some x => rw [hb] at h; cases h
        | none => exact ⟨_, rfl⟩
      | none =>
        simp only
        by_cases he : cs.head? = some '='
        · cases cs with
          | nil => cases he
          | cons d t =>
            simp only [List.head?_cons, Option.some.injEq] at he
            subst he
            exact ⟨_, rfl⟩
        · have hb : cs.head? ≠ some '[' := by
            intro hh
            cases cs with
            | nil => cases hh
            | cons d t =>
              simp only [List.head?_cons, Option.some.injEq] at hh
              subst hh
              rw [longOpener_brack] at ho; cases ho
          rw [symAt_brack cs hb he] at hsy
          cases hsy
    by_cases hdot : c = '.'
    · subst hdot
      rw [symAt_dot] at hsy
      split at hsy
      · cases hsy
      · cases hsy
      · rename_i d t _ _
        by_cases hdd : Spec.isDigit d = true
        · exact absurd hdd (hn.2 rfl)
        · simp only [hdd, Bool.false_eq_true, if_false] at hsy; cases hsy
      · cases hsy
    -- an ordinary character
    rw [symAt_other c cs hg hmin hbr hdot] at hsy
    have e1 : (c == '-') = false := by simpa using hmin
    have e2 : (c == '[') = false := by simpa using hbr
    have e3 : (c == '.') = false := by simpa using hdot
    unfold Spec.lexLoop
    simp only [hsp, e1, e2, e3, hq2, hd, ha', Bool.false_and, Bool.or_self, Bool.false_eq_true, if_false]
    cases cs with
    | nil =>
      simp only at hsy ⊢
      by_cases h1 : Spec.symbols1.contains c = true
      · simp only [h1, if_true] at hsy; cases hsy
      · simp only [h1, Bool.false_eq_true, if_false]
        exact ⟨_, rfl⟩
    | cons d r =>
      simp only at hsy ⊢
      rw [symbols2_contains]
      by_cases h2 : isSym2 c d = true
      · simp only [h2, if_true] at hsy; cases hsy
      · simp only [h2, Bool.false_eq_true, if_false] at hsy ⊢
        by_cases h1 : Spec.symbols1.contains c = true
        · simp only [h1, if_true] at hsy; cases hsy
        · simp only [h1, Bool.false_eq_true, if_false]
          exact ⟨_, rfl⟩

/-- at a token start, a successful iteration of the reference loop emits `lexOne`'s token -/
theorem lexLoop_ok_lexOne (n f : Nat) (c : Char) (cs : List Char) (cm : List (List Char)) (hat : AtToken (c :: cs))
    (ts : List Spec.Tok) (h : Spec.lexLoop n (f + 1) (c :: cs) cm = .ok ts) :
    ∃ tk rest, lexOne (c :: cs) = some (tk, rest) := by
  cases hl : lexOne (c :: cs) with
  | some p => exact ⟨p.1, p.2, rfl⟩
  | none =>
    obtain ⟨e, he⟩ := lexOne_none_error n f c cs cm hat hl
    rw [he] at h; cases h

end Tumfl.Theory
