import Tumfl.Model.Api
/-!
# Non-interference: without shared writes, every instance behaves as if alone (core of C14)
-/
namespace Tumfl.Theory
open Tumfl.Model

variable {Sh Pr Op Out : Type}

/-- the code never changes the shared store -/
def NoSharedWrites (S : ApiSys Sh Pr Op Out) : Prop := ∀ sh p op, (S.step sh p op).1 = sh

theorem run_filter (S : ApiSys Sh Pr Op Out) (h : NoSharedWrites S) (i : Nat) :
    ∀ (hist : List (Nat × Op)) (sh : Sh) (pr : Nat → Pr),
      ((S.run sh pr hist).filter (·.1 == i)).map (·.2) =
        S.runAlone sh (pr i) ((hist.filter (·.1 == i)).map (·.2)) := by
  intro hist
  induction hist with
  | nil => intro sh pr; simp [ApiSys.run, ApiSys.runAlone]
  | cons x rest ih =>
    intro sh pr
    obtain ⟨j, op⟩ := x
    have hsh : (S.step sh (pr j) op).1 = sh := h sh (pr j) op
    by_cases hj : j = i
    · subst hj
      simp only [ApiSys.run, List.filter_cons, beq_self_eq_true, if_true, List.map_cons, ApiSys.runAlone]
      rw [ih]
      simp [hsh]
    · have hne : (j == i) = false := by simpa using hj
      simp only [ApiSys.run, List.filter_cons, hne, Bool.false_eq_true, if_false]
      rw [ih, hsh]
      have : (if i = j then (S.step sh (pr j) op).2.1 else pr i) = pr i := by
        have : ¬ i = j := fun e => hj e.symm
        simp [this]
      rw [this]

/-- C14: in any interleaving of any histories, the outputs instance `i` sees are exactly those of running its own operations alone
from the same initial shared store -/
theorem noninterference (S : ApiSys Sh Pr Op Out) (h : NoSharedWrites S) (sh : Sh) (hist : List (Nat × Op)) (i : Nat) :
    ((S.run sh (fun _ => S.init) hist).filter (·.1 == i)).map (·.2) =
      S.runAlone sh S.init ((hist.filter (·.1 == i)).map (·.2)) :=
  run_filter S h i hist sh (fun _ => S.init)

end Tumfl.Theory
