import Tumfl.Theory.IdemNumDefs
import Tumfl.Theory.Unlex
import Tumfl.Theory.LexBridge
import Tumfl.Theory.ParseNumsTok
import Tumfl.Theory.ParseAgreeLex
/-!
# C15, numerals: the model lexer on the rendering of a well-formed layout

The spelling of a numeral's exponent sign (`1e5` / `1e+5`) is invisible in the reference tokens, so the lexer bridge
(`TkRel` / `NumRel`) does not tell which text the model lexer's tuple prints.  Here:

* `StrongCanon a` : `a` is a numeral text in the form `Number.__str__` prints for a scanned tuple;
* A `getNextToken_strong` : every `NUMBER` token the model lexer delivers prints in that form;
* B `reads_after_eof` : after the end-of-file token the lexer keeps delivering end-of-file tokens;
* C `munlex_nums` : on the rendering of a well-formed layout whose numeral items are spelled in that form, the model
  lexer's `NUMBER` tokens print exactly those numeral texts, in order, and the token stream ends in (at least) two `EOF`s.

All auxiliary declarations live in `Tumfl.Theory.NumLex`.
-/
namespace Tumfl.Theory
open Tumfl.Model Tumfl

/-- a numeral text in the form `Number.__str__` prints for a scanned tuple (lower case, no empty fraction, "0"/"1" for a
missing integer part) -/
def StrongCanon (a : List Char) : Prop :=
  ∃ (m : Spec.Numeral) (mk : Char) (sg : List Char), NumWF m mk sg ∧ a = numText (canon m) 'x' (stdMark m.hex) sg

namespace NumLex

/-! ## A. every `NUMBER` token prints in the strong canonical form -/

/-- what `get_number` delivers, when the acceptance test of `nextTokenLoop` passes, prints in the strong canonical form -/
theorem getNumber_strong (s : LexSt) (c : Char) (cs : List Char) (hs : s.rest = c :: cs)
    (hc : Spec.isDigit c = true ∨ (c = '.' ∧ nextIsDigit cs = true))
    (hacc : numReject (getNumber s) = false) : StrongCanon (numberStr (getNumber s).1) := by
  obtain ⟨m, hp, _, _⟩ := number_sound s c cs hs hc hacc
  have hb := numScan_boundary c cs m hp
  obtain ⟨x, mk, sg, hx, hsrc, wf⟩ := parseNumeral_inv _ m hp
  have htext : s.rest = numText m x mk sg ++ (numScan c cs).2 := by rw [hs, ← hsrc, numScan_text]
  obtain ⟨g1, _⟩ := getNumber_spec s m x mk sg _ wf hx hb htext
  rw [g1]
  exact ⟨m, mk, sg, wf, numberStr_tupleOf m mk sg wf⟩

def TokS (t : Token) : Prop := ∀ n, tokNum t = some n → StrongCanon (numberStr n)

/-- a successful outcome carries a good token -/
def TokResS (r : Except PyErr (Token × LexSt)) : Prop := ∀ tok s', r = .ok (tok, s') → TokS tok

theorem TokResS_error (e : PyErr) : TokResS (.error e) := by intro _ _ h; cases h

theorem tokNum_some {t : Token} {n : NumTuple} (h : tokNum t = some n) : t.type = .NUMBER ∧ t.value = .num n := by
  unfold tokNum at h
  split at h
  · rename_i ht
    refine ⟨ht, ?_⟩
    split at h
    · rename_i n' hv
      cases h
      exact hv
    · cases h
  · cases h

theorem tokNum_of {t : Token} {n : NumTuple} (h1 : t.type = .NUMBER) (h2 : t.value = .num n) : tokNum t = some n := by
  unfold tokNum
  rw [if_pos h1, h2]

theorem tokNum_none {t : Token} (h : t.type ≠ .NUMBER) : tokNum t = none := by
  unfold tokNum
  rw [if_neg h]

theorem TokResS_other {ty : TT} {v : TokVal} {a : Nat × Int × List (List Char)} {X : LexSt}
    (h : ty ≠ .NUMBER) : TokResS (.ok (Model.mkTok ty v a, X)) := by
  intro tok s' he; cases he
  intro n hn
  exact absurd (tokNum_some hn).1 h

theorem TokResS_ite {c : Prop} [Decidable c] {a b : Except PyErr (Token × LexSt)}
    (ha : c → TokResS a) (hb : ¬ c → TokResS b) : TokResS (if c then a else b) := by
  split
  · exact ha ‹_›
  · exact hb ‹_›

theorem nextTokenLoop_tokS (cfg : LexCfg) : ∀ (f : Nat) (s : LexSt), TokResS (nextTokenLoop cfg f s)
  | 0, s => by rw [nextTokenLoop]; exact TokResS_error _
  | f + 1, s => by
    rw [nextTokenLoop]
    split
    · exact TokResS_other (ty := .EOF) (by decide)
    · rename_i c hc
      refine TokResS_ite (fun _ => nextTokenLoop_tokS cfg f _) (fun hws => ?_)
      refine TokResS_ite (fun _ => ?_) (fun hcm => ?_)
      · split
        · exact TokResS_error _
        · exact nextTokenLoop_tokS cfg f _
      simp only [tokenArgs]
      have hc0 : ({ s with comments := [] } : LexSt).cur = some c := hc
      obtain ⟨cs, hrest⟩ := rest_of_cur hc0
      refine TokResS_ite (fun hl => ?_) (fun _ => ?_)
      · -- name or keyword
        split
        · exact TokResS_error _
        · split
          · rename_i t ht
            exact TokResS_other (keywordOf_ne ht).2
          · exact TokResS_other (ty := .NAME) (by decide)
      refine TokResS_ite (fun hnum => ?_) (fun _ => ?_)
      · -- number
        refine TokResS_ite (fun _ => TokResS_error _) (fun hacc => ?_)
        intro tok s' he
        cases he
        intro n hn
        have hv : TokVal.num (getNumber { s with comments := [] }).1 = TokVal.num n := (tokNum_some hn).2
        injection hv with hv
        subst hv
        have hcond : Spec.isDigit c = true ∨ (c = '.' ∧ nextIsDigit cs = true) := by
          rw [number_contains, inStr_peek _ c cs hrest] at hnum
          simpa using hnum
        have hrej : numReject (getNumber { s with comments := [] }) = false := by
          cases hr : numReject (getNumber { s with comments := [] }) with
          | false => rfl
          | true => exact absurd hr hacc
        exact getNumber_strong _ c cs hrest hcond hrej
      refine TokResS_ite (fun _ => ?_) (fun _ => ?_)
      · split
        · exact TokResS_error _
        · exact TokResS_other (ty := .STRING) (by decide)
      refine TokResS_ite (fun _ => ?_) (fun _ => ?_)
      · split
        · exact TokResS_error _
        · exact TokResS_other (ty := .STRING) (by decide)
      refine TokResS_ite (fun _ => ?_) (fun _ => ?_)
      · exact TokResS_ite (fun _ => TokResS_other (ty := .ELLIPSIS) (by decide))
          (fun _ => TokResS_other (ty := .CONCAT) (by decide))
      split
      · rename_i t v htwo
        split at htwo
        · rename_i p hp
          cases hs : symbolOf [c, p] with
          | none => rw [hs] at htwo; cases htwo
          | some t' =>
            rw [hs] at htwo
            cases htwo
            exact TokResS_other (symbolOf_ne hs).2
        · cases htwo
      · split
        · rename_i t ht
          exact TokResS_other (symbolOf_ne ht).2
        · exact TokResS_error _

/-! ## B. the end of the text -/

/-- at the end of the text `get_next_token` delivers `EOF` and stays at the end of the text -/
theorem getNextToken_end {cfg : LexCfg} {l l1 : LexSt} {t : Token} (h : l.rest = [])
    (hg : getNextToken cfg l = .ok (t, l1)) : t.type = .EOF ∧ l1.rest = [] := by
  have hc : l.cur = none := cur_eq_none h
  unfold getNextToken at hg
  simp only [hc] at hg
  have : (l.line == 0 && l.col == 0 && (none : Option Char) == some '#') = false := by simp
  simp only [this, Bool.false_eq_true, if_false] at hg
  rw [nextTokenLoop, hc] at hg
  obtain ⟨rfl, rfl⟩ := ok_pair hg
  exact ⟨rfl, h⟩

/-- an `EOF` token is delivered only at the end of the text -/
theorem eof_at_end {cfg : LexCfg} {l l1 : LexSt} {t : Token} (hg : getNextToken cfg l = .ok (t, l1))
    (ht : t.type = .EOF) : l1.rest = [] := by
  obtain ⟨cms, s0, _, _, _, h4⟩ := getNextToken_trivia hg
  rcases h4 with ⟨h0, _, rfl⟩ | ⟨c, cs, _, hsc⟩
  · exact h0
  · exact absurd ht (scanToken_not_eof hsc)

theorem reads_at_end {cfg : LexCfg} {l l' : LexSt} {ts : List Token} (h : Reads cfg l ts l') :
    l.rest = [] → ∀ x ∈ ts, x.type = .EOF := by
  induction h with
  | nil l => intro _ x hx; cases hx
  | cons hg _ ih =>
    intro h0 x hx
    obtain ⟨h1, h2⟩ := getNextToken_end h0 hg
    rcases List.mem_cons.mp hx with rfl | hx
    · exact h1
    · exact ih h2 x hx

/-! ## C. the model lexer on the rendering of a well-formed layout -/

/-- the first token item of a layout (its spelling, its token) and the items after it -/
def firstTok : List LItem → Option (List Char × Spec.Tk × List LItem)
  | [] => none
  | .tok a tk :: r => some (a, tk, r)
  | .ws _ :: r => firstTok r
  | .com _ :: r => firstTok r

/-- the text at which `trivia` stops on the rendering of a layout -/
def afterTrivia (is : List LItem) : List Char :=
  match firstTok is with
  | some (a, _, r) => a ++ renderItems r
  | none => []

theorem afterTrivia_ws (w : List Char) (r : List LItem) : afterTrivia (.ws w :: r) = afterTrivia r := rfl
theorem afterTrivia_com (c : List Char) (r : List LItem) : afterTrivia (.com c :: r) = afterTrivia r := rfl

/-- the reference lexer reads the token item in front of a well-formed layout -/
theorem lexOne_tok {a : List Char} {tk : Spec.Tk} {r : List LItem} (h : LWF (.tok a tk :: r)) :
    a ≠ [] ∧ lexOne (a ++ renderItems r) = some (tk, renderItems r) := by
  cases h with
  | tok hr _ hs hfu =>
    refine ⟨hr.1, ?_⟩
    rcases hs with hs | hs
    · have := hr.2.2 (renderItems r) [] hs hfu
      simpa using this
    · rw [hs, List.append_nil]; exact hr.end_

theorem triviaOf_spaces (rest : List Char) : ∀ (w : List Char), (∀ c ∈ w, Spec.isSpace c = true) →
    triviaOf (w ++ rest) = triviaOf rest
  | [], _ => rfl
  | c :: w, h => by
    rw [List.cons_append, triviaOf_space (h c (by simp))]
    exact triviaOf_spaces rest w (fun d hd => h d (by simp [hd]))

/-- `trivia` on the rendering of a well-formed layout skips the white-space and comment items in front of the first
token item -/
theorem triviaOf_items {is : List LItem} (h : LWF is) :
    ∃ cms, triviaOf (renderItems is) = some (cms, afterTrivia is) := by
  induction h with
  | nil => exact ⟨[], triviaOf_nil⟩
  | @tok a tk rest hr hrest hs hfu _ =>
    have h1 := (lexOne_tok (.tok hr hrest hs hfu)).2
    refine ⟨[], ?_⟩
    rw [render_cons]
    exact triviaOf_atToken (atToken_of_lexOne h1)
  | @ws w rest hw _ ih =>
    obtain ⟨cms, ih⟩ := ih
    refine ⟨cms, ?_⟩
    rw [render_cons, afterTrivia_ws]
    simp only [LItem.text]
    rw [triviaOf_spaces _ w (fun c hc => isSpace_of_layout (hw c hc))]
    exact ih
  | @short c rest hc _ hr ih =>
    obtain ⟨cms, ih⟩ := ih
    obtain ⟨body, rfl, hnl, ho⟩ := hc
    refine ⟨body :: cms, ?_⟩
    rw [render_cons, afterTrivia_com]
    simp only [LItem.text, List.cons_append]
    rw [triviaOf_comment, refComment_short body (renderItems rest) hnl ho hr]
    simp only [ih, Option.map_some]
  | @long c rest hc _ ih =>
    obtain ⟨cms, ih⟩ := ih
    obtain ⟨lit, v, rfl, hl⟩ := hc
    obtain ⟨lvl, content, _, _, _, hrc⟩ := comText_long lit v hl
    refine ⟨content :: cms, ?_⟩
    rw [render_cons, afterTrivia_com]
    simp only [LItem.text, List.cons_append]
    rw [triviaOf_comment, hrc (renderItems rest)]
    simp only [ih, Option.map_some]

/-- what the first token item tells about the layout -/
theorem firstTok_some : ∀ {is : List LItem} {a : List Char} {tk : Spec.Tk} {r : List LItem}, LWF is →
    firstTok is = some (a, tk, r) →
    LWF (.tok a tk :: r) ∧ r.length < is.length ∧ (∀ x, x ∈ LItem.tok a tk :: r → x ∈ is) ∧
      numItems is = numItems (.tok a tk :: r)
  | [], _, _, _, _, h => by cases h
  | .tok a' tk' :: r', a, tk, r, hw, h => by
    simp only [firstTok, Option.some.injEq, Prod.mk.injEq] at h
    obtain ⟨rfl, rfl, rfl⟩ := h
    exact ⟨hw, by simp, fun x hx => hx, rfl⟩
  | .ws w :: r', a, tk, r, hw, h => by
    have hw' : LWF r' := by cases hw with | ws _ h' => exact h'
    obtain ⟨h1, h2, h3, h4⟩ := firstTok_some hw' (show firstTok r' = some (a, tk, r) from h)
    refine ⟨h1, by simp only [List.length_cons]; omega, fun x hx => List.mem_cons_of_mem _ (h3 x hx), ?_⟩
    rw [← h4]; rfl
  | .com c :: r', a, tk, r, hw, h => by
    have hw' : LWF r' := by
      cases hw with
      | short _ h' _ => exact h'
      | long _ h' => exact h'
    obtain ⟨h1, h2, h3, h4⟩ := firstTok_some hw' (show firstTok r' = some (a, tk, r) from h)
    refine ⟨h1, by simp only [List.length_cons]; omega, fun x hx => List.mem_cons_of_mem _ (h3 x hx), ?_⟩
    rw [← h4]; rfl

theorem firstTok_none : ∀ {is : List LItem}, firstTok is = none → numItems is = []
  | [], _ => rfl
  | .tok a tk :: r, h => by cases h
  | .ws w :: r, h => by
    have := firstTok_none (is := r) h
    simpa [numItems, numItem] using this
  | .com c :: r, h => by
    have := firstTok_none (is := r) h
    simpa [numItems, numItem] using this

/-- the reference lexer's next token on the rendering of a well-formed layout that has a token item -/
theorem specNext_tok {is : List LItem} {a : List Char} {tk : Spec.Tk} {r : List LItem} (h : LWF is)
    (hf : firstTok is = some (a, tk, r)) :
    specNext (renderItems is) = some (tk, renderItems r) ∧
      ∃ cms c cs, a ++ renderItems r = c :: cs ∧ triviaOf (renderItems is) = some (cms, c :: cs) := by
  obtain ⟨cms, ht⟩ := triviaOf_items h
  obtain ⟨hne, hl⟩ := lexOne_tok (firstTok_some h hf).1
  have hat : afterTrivia is = a ++ renderItems r := by simp only [afterTrivia, hf]
  rw [hat] at ht
  obtain ⟨c, cs, hc⟩ : ∃ c cs, a ++ renderItems r = c :: cs := by
    cases a with
    | nil => exact absurd rfl hne
    | cons c a' => exact ⟨c, a' ++ renderItems r, rfl⟩
  refine ⟨?_, cms, c, cs, hc, by rw [ht, hc]⟩
  unfold specNext
  rw [ht, hc]
  simp only
  rw [← hc]
  exact hl

/-- ... and of one without -/
theorem specNext_end {is : List LItem} (h : LWF is) (hf : firstTok is = none) :
    specNext (renderItems is) = some (.eof, []) := by
  obtain ⟨cms, ht⟩ := triviaOf_items h
  have hat : afterTrivia is = [] := by simp only [afterTrivia, hf]
  unfold specNext
  rw [ht, hat]

/-! ### the model side -/

theorem not_shebang_of_past {t : List Char} {s : LexSt} (h : PastShebang t s) : ¬ shebangCase s := by
  rintro ⟨hl, hc, hcur⟩
  obtain ⟨r, hr⟩ := tv_rest_of_cur hcur
  obtain ⟨⟨pre, ht, hp⟩, h2, h3⟩ := h
  simp only [PosAt, hr] at hp
  have hne : ('#' : Char) ≠ '\n' := by decide
  simp only [hne, if_false] at hp
  have hpre : pre = [] := pos_zero_nil pre (by omega) (by omega)
  subst hpre
  rw [List.nil_append] at ht
  have := h3 (by rw [ht, hr]; rfl)
  rw [ht] at this
  omega

theorem past_initLex {t : List Char} (hsh : ∀ r, t ≠ '#' :: r) : PastShebang t (initLex t) := by
  have h := pastShebang_initLex t
  have e : startSt (initLex t) = initLex t := by
    unfold startSt
    rw [initLex_cond]
    have : (t.head? == some '#') = false := by
      cases t with
      | nil => rfl
      | cons c cs =>
        simp only [List.head?_cons, beq_eq_false_iff_ne, ne_eq, Option.some.injEq]
        rintro rfl
        exact hsh cs rfl
    simp only [this, Bool.false_eq_true, if_false]
  rw [e] at h
  exact h

theorem past_step {t : List Char} {cfg : LexCfg} {s s' : LexSt} {tok : Token} (hq : PastShebang t s)
    (hg : getNextToken cfg s = .ok (tok, s')) : PastShebang t s' := by
  rw [getNextToken_eq, pastShebang_startSt hq] at hg
  exact (nextTokenLoop_core (stable_pastShebang t) _ _ _ _ hq hg).1

/-- a call of `get_next_token` that finds a character after the trivia scans the token there -/
theorem getNextToken_scan {cfg : LexCfg} {s s' : LexSt} {tok : Token} {cms : List (List Char)} {c : Char}
    {cs : List Char} (hg : getNextToken cfg s = .ok (tok, s'))
    (ht : triviaOf (startSt s).rest = some (cms, c :: cs)) :
    ∃ s0 : LexSt, s0.rest = c :: cs ∧ scanToken cfg s0 c = .ok (tok, s') := by
  obtain ⟨cms', s0, h1, _, _, h4⟩ := getNextToken_trivia hg
  rw [ht] at h1
  simp only [Option.some.injEq, Prod.mk.injEq] at h1
  have hr : s0.rest = c :: cs := h1.2.symm
  rcases h4 with ⟨h0, _, _⟩ | ⟨c', cs', h0, hsc⟩
  · rw [hr] at h0; cases h0
  · rw [hr] at h0
    simp only [List.cons.injEq] at h0
    obtain ⟨rfl, rfl⟩ := h0
    exact ⟨s0, hr, hsc⟩

/-- a token related to a reference token that is not a numeral is not a `NUMBER` token -/
theorem tkRel_not_number {t : Token} {k : Spec.Tk} (hk : TkRel t k) (hn : ∀ m, k ≠ .num m) : t.type ≠ .NUMBER := by
  intro h
  cases k with
  | num m => exact hn m rfl
  | eof => have : t.type = .EOF := hk; rw [h] at this; cases this
  | name n => have := hk.1; rw [h] at this; cases this
  | str u => have := hk.1; rw [h] at this; cases this
  | kw s => have := hk.1; rw [h] at this; revert this; decide
  | sym s => have := hk.1; rw [h] at this; revert this; decide

/-- what follows a numeral that the reference lexer reads does not continue it -/
theorem boundary_of_lexOne {c : Char} {cs rr : List Char} {tk : Spec.Tk} (hd : Spec.isDigit c = true)
    (h : lexOne (c :: cs) = some (tk, rr)) : Boundary rr := by
  have ha : Spec.isAlpha c = false := by
    cases hh : Spec.isAlpha c with
    | false => rfl
    | true => rw [(alpha_class c hh).2.2.2.2.1] at hd; cases hd
  rw [lexOne_cons] at h
  simp only [ha, hd, Bool.true_or, Bool.false_eq_true, if_false, if_true] at h
  cases hp : Spec.parseNumeral (numScan c cs).1 with
  | none => rw [hp] at h; cases h
  | some nm =>
    rw [hp] at h
    simp only [Option.map_some, Option.some.injEq, Prod.mk.injEq] at h
    rw [← h.2]
    exact numScan_boundary c cs nm hp

/-- the token scanned at a strongly canonical numeral text prints that text -/
theorem scan_numeral {cfg : LexCfg} {s0 s' : LexSt} {tok : Token} {c : Char} {cs rr : List Char}
    {m : Spec.Numeral} {mk : Char} {sg : List Char} (wf : NumWF m mk sg)
    (hr : s0.rest = c :: cs) (htxt : numText (canon m) 'x' (stdMark m.hex) sg ++ rr = c :: cs) (hb : Boundary rr)
    (hsc : scanToken cfg s0 c = .ok (tok, s')) :
    ∃ n, tokNum tok = some n ∧ numberStr n = numText (canon m) 'x' (stdMark m.hex) sg := by
  have wf' := canon_wf m mk sg wf
  obtain ⟨c', cs', hc', hd'⟩ := numText_canon_head m 'x' (stdMark m.hex) sg wf'
  have hd : Spec.isDigit c = true := by
    rw [hc'] at htxt
    simp only [List.cons_append, List.cons.injEq] at htxt
    rw [← htxt.1]; exact hd'
  have ha : Gen.letter.contains c = false := by
    rw [letter_contains]
    cases hh : Spec.isAlpha c with
    | false => rfl
    | true => rw [(alpha_class c hh).2.2.2.2.1] at hd; cases hd
  have hn : Gen.number.contains c = true := by rw [number_contains]; exact hd
  rw [scanToken_eq] at hsc
  simp only [ha, hn, Bool.true_or, Bool.false_eq_true, if_false, if_true] at hsc
  have hr' : (tokenArgs s0).2.rest = numText (canon m) 'x' (stdMark m.hex) sg ++ rr := by
    rw [htxt, ← hr]; rfl
  have hx : (canon m).hex = m.hex := rfl
  obtain ⟨g1, _⟩ := getNumber_spec (tokenArgs s0).2 (canon m) 'x' (stdMark m.hex) sg rr wf' (Or.inl rfl) hb hr'
  unfold numPart at hsc
  split at hsc
  · cases hsc
  · obtain ⟨rfl, _⟩ := ok_pair hsc
    refine ⟨_, tokNum_of rfl rfl, ?_⟩
    rw [g1, numberStr_tupleOf (canon m) (stdMark m.hex) sg wf', canon_idem, hx]

/-- **the run of the model lexer over a well-formed layout** -/
theorem run_items (t : List Char) : ∀ (n : Nat) (is : List LItem), is.length ≤ n → LWF is →
    (∀ a tk, LItem.tok a tk ∈ is → InScopeTk tk) →
    (∀ a m, LItem.tok a (.num m) ∈ is → StrongCanon a) →
    ∀ s : LexSt, PastShebang t s → s.rest = renderItems is →
    ∃ (mts : List Token) (e1 e2 : Token) (l' : LexSt),
      Reads {} s (mts ++ [e1, e2]) l' ∧ (∀ x ∈ mts, x.type ≠ .EOF) ∧
      e1.type = .EOF ∧ e2.type = .EOF ∧ (numT mts).map numberStr = numItems is
  | n, is, hn, hw, hin, hnum, s, hq, hs => by
    have hns := not_shebang_of_past hq
    cases hf : firstTok is with
    | none =>
      have hsp := specNext_end hw hf
      rw [← hs] at hsp
      obtain ⟨e1, l1, hg1, hr1, hrel1⟩ := getNextToken_complete {} rfl rfl hsp hns trivial
      obtain ⟨e2, l2, hg2⟩ := getNextToken_at_end {} hr1
      refine ⟨[], e1, e2, l2, .cons hg1 (.cons hg2 (.nil _)), (fun x hx => by cases hx), hrel1,
        (getNextToken_end hr1 hg2).1, ?_⟩
      rw [firstTok_none hf]; rfl
    | some p =>
      obtain ⟨a, tk, r⟩ := p
      obtain ⟨hw1, hlen, hmem, hni⟩ := firstTok_some hw hf
      obtain ⟨hsp, cms, c, cs, hacs, htr⟩ := specNext_tok hw hf
      rw [← hs] at hsp htr
      have hmem0 : LItem.tok a tk ∈ is := hmem _ List.mem_cons_self
      obtain ⟨tok, s1, hg, hr1, hrel⟩ := getNextToken_complete {} rfl rfl hsp hns (hin a tk hmem0)
      have hq1 := past_step hq hg
      obtain ⟨s0, hr0, hsc⟩ := getNextToken_scan hg (by rw [pastShebang_startSt hq]; exact htr)
      have hne : tok.type ≠ .EOF := scanToken_not_eof hsc
      obtain ⟨n', rfl⟩ : ∃ n', n = n' + 1 := ⟨n - 1, by omega⟩
      have hw2 : LWF r := by cases hw1 with | tok _ h' _ _ => exact h'
      obtain ⟨mts, e1, e2, l', hrd, hall, he1, he2, hnums⟩ := run_items t n' r (by omega) hw2
        (fun a' tk' hm => hin a' tk' (hmem _ (List.mem_cons_of_mem _ hm)))
        (fun a' m' hm => hnum a' m' (hmem _ (List.mem_cons_of_mem _ hm))) s1 hq1 hr1
      refine ⟨tok :: mts, e1, e2, l', .cons hg hrd, ?_, he1, he2, ?_⟩
      · intro x hx
        rcases List.mem_cons.mp hx with rfl | hx
        · exact hne
        · exact hall x hx
      · rw [hni]
        by_cases hk : ∃ m, tk = .num m
        · obtain ⟨m, rfl⟩ := hk
          obtain ⟨m0, mk, sg, wf, rfl⟩ := hnum a m hmem0
          have hl := (lexOne_tok hw1).2
          rw [hacs] at hl
          have hd : Spec.isDigit c = true := by
            obtain ⟨c', cs', hc', hd'⟩ := numText_canon_head m0 'x' (stdMark m0.hex) sg (canon_wf m0 mk sg wf)
            rw [hc'] at hacs
            simp only [List.cons_append, List.cons.injEq] at hacs
            rw [← hacs.1]; exact hd'
          have hb := boundary_of_lexOne hd hl
          obtain ⟨nt, hnt, hstr⟩ := scan_numeral wf hr0 hacs hb hsc
          simp only [numT, List.filterMap_cons, hnt, List.map_cons, hstr, numItems, numItem, List.cons.injEq, true_and]
          exact hnums
        · have hnn : tok.type ≠ .NUMBER := tkRel_not_number hrel (fun m e => hk ⟨m, e⟩)
          have hi : numItems (LItem.tok a tk :: r) = numItems r := by
            cases tk with
            | num m => exact absurd ⟨m, rfl⟩ hk
            | _ => rfl
          rw [hi]
          simp only [numT, List.filterMap_cons, tokNum_none hnn]
          exact hnums

end NumLex

/-- A: every NUMBER token the model lexer delivers prints in that form -/
theorem getNextToken_strong {cfg : LexCfg} {s s' : LexSt} {t : Token} (h : getNextToken cfg s = .ok (t, s')) :
    ∀ n, tokNum t = some n → StrongCanon (numberStr n) := by
  unfold getNextToken at h
  exact NumLex.nextTokenLoop_tokS cfg _ _ t s' h

/-- B: after the end-of-file token the lexer keeps delivering end-of-file tokens -/
theorem reads_after_eof {cfg : LexCfg} {l l' : LexSt} {t : Token} {ts : List Token}
    (h : Reads cfg l (t :: ts) l') (ht : t.type = .EOF) : ∀ x ∈ ts, x.type = .EOF := by
  obtain ⟨l1, hg, hr⟩ := h.cons_inv
  exact NumLex.reads_at_end hr (NumLex.eof_at_end hg ht)

/-- C: the model lexer on the rendering of a well-formed layout -/
theorem munlex_nums (is : List LItem) (h : LWF is) (hsh : ∀ r, renderItems is ≠ '#' :: r)
    (hin : ∀ a tk, LItem.tok a tk ∈ is → InScopeTk tk)
    (hnum : ∀ a m, LItem.tok a (.num m) ∈ is → StrongCanon a) :
    ∃ (mts : List Token) (e1 e2 : Token) (l' : LexSt),
      Reads {} (initLex (renderItems is)) (mts ++ [e1, e2]) l' ∧ (∀ t ∈ mts, t.type ≠ .EOF) ∧
      e1.type = .EOF ∧ e2.type = .EOF ∧ (numT mts).map numberStr = numItems is :=
  NumLex.run_items (renderItems is) is.length is (Nat.le_refl _) h hin hnum (initLex (renderItems is))
    (NumLex.past_initLex hsh) (tv_initLex_rest _)

/-! ## non-vacuity: ` 1e+5 1e5` -/

namespace NumLex

/-- the numeral `1e5`; spelled `1e+5` with sign text `+` and `1e5` with the empty sign text -/
def exNum : Spec.Numeral := { hex := false, ip := ['1'], fp := none, ex := some (false, ['5']) }

theorem exNum_wf (sg : List Char) (hsg : sg = [] ∨ sg = ['+']) : NumWF exNum 'e' sg := by
  refine ⟨by decide, (fun f h => by cases h), rfl, ?_, rfl⟩
  intro neg ds h
  simp only [exNum, Option.some.injEq, Prod.mk.injEq] at h
  obtain ⟨rfl, rfl⟩ := h
  refine ⟨?_, by decide, by decide⟩
  rcases hsg with rfl | rfl
  · exact Or.inl ⟨rfl, rfl⟩
  · exact Or.inr (Or.inl ⟨rfl, rfl⟩)

theorem exNum_canon (sg : List Char) (hsg : sg = [] ∨ sg = ['+']) : CanonNum exNum sg :=
  ⟨exNum_wf sg hsg, by decide, fun f h => by cases h⟩

def exItems : List LItem :=
  [.ws [' '], .tok "1e+5".toList (.num exNum), .ws [' '], .tok "1e5".toList (.num exNum)]

theorem exItems_lwf : LWF exItems := by
  refine .ws (by decide) (.tok (readsAs_of_isPiece (.num exNum ['+'] (exNum_canon _ (Or.inr rfl))))
    (.ws (by decide) (.tok (readsAs_of_isPiece (.num exNum [] (exNum_canon _ (Or.inl rfl)))) .nil (Or.inr rfl)
      (by intro d t e; cases e))) (Or.inl (sepRequired_inert _ (by decide) ' ' _ inert_blank)) (by intro d t e; cases e; decide))

/-- the hypotheses of `munlex_nums` are satisfiable by a layout with both spellings of the exponent sign, and its
conclusion then tells them apart -/
example : ∃ (mts : List Token) (e1 e2 : Token) (l' : LexSt),
    Reads {} (initLex " 1e+5 1e5".toList) (mts ++ [e1, e2]) l' ∧ (∀ t ∈ mts, t.type ≠ .EOF) ∧
    e1.type = .EOF ∧ e2.type = .EOF ∧ (numT mts).map numberStr = ["1e+5".toList, "1e5".toList] := by
  have hnum : ∀ a m, LItem.tok a (.num m) ∈ exItems → StrongCanon a := by
    intro a m hm
    simp only [exItems, List.mem_cons, LItem.tok.injEq, List.not_mem_nil, or_false, reduceCtorEq, false_or] at hm
    rcases hm with ⟨rfl, _⟩ | ⟨rfl, _⟩
    · exact ⟨exNum, 'e', ['+'], exNum_wf _ (Or.inr rfl), by decide⟩
    · exact ⟨exNum, 'e', [], exNum_wf _ (Or.inl rfl), by decide⟩
  have hin : ∀ a tk, LItem.tok a tk ∈ exItems → InScopeTk tk := by
    intro a tk hm
    simp only [exItems, List.mem_cons, LItem.tok.injEq, List.not_mem_nil, or_false, reduceCtorEq, false_or] at hm
    rcases hm with ⟨_, rfl⟩ | ⟨_, rfl⟩ <;> trivial
  exact munlex_nums exItems exItems_lwf (by
    intro r h
    have : (renderItems exItems).head? = some '#' := by rw [h]; rfl
    revert this; decide) hin hnum

end NumLex

end Tumfl.Theory
