import Tumfl.Theory.ReadSimInd
/-!
# Formatting preserves the program, at token level, for every reading of the separators

`read_sim`: for every style, every printable tree `b` and EVERY reading `ks` of the pieces `emit sty b` (each statement /
block separator independently a `;` or nothing; `ReadTks`), the reference parser reads `toToks ks` completely as a tree that
is `b` modulo parentheses (`BlockRel`) and empty statements (`dropSemis` / `dropEmpty`) - with any fuel from
`4 * (number of tokens) + 2` on, so in particular with the fuel of `Spec.parseToks` (`read_sim_parseToks`).
The two constant readings `piecesTks true / false` are instances (`print_sim_const`, `print_sim_parseToks`).
-/
namespace Tumfl.Theory
open Tumfl.Model Tumfl.Spec

/-- explicit fuel: `4 * (number of tokens) + 2` suffices -/
theorem read_sim_fuel (sty : Style) (b : Model.Block) (hb : Printable b) (ks : List Spec.Tk) (hks : ReadTks (emit sty b) ks) :
    ∃ c, BlockRel (dropSemis b) (dropEmpty c) ∧
      ∀ f, 4 * ks.length + 2 ≤ f → Spec.block f (toToks ks) = .ok (c, [eofTok]) := by
  obtain ⟨t, ss, rets, c⟩ := b
  obtain ⟨hc, hp⟩ := hb
  simp only [Block.isChunk] at hc
  subst hc
  have hss : ∀ s ∈ ss, pStmt s = true ∧ StmtPropR sty s := by
    cases rets <;> simp only [pBlock, Bool.and_eq_true, Bool.and_true] at hp
    · exact xstmtsR sty ss hp
    · exact xstmtsR sty ss hp.1
  have hr : ∀ es, rets = some es → ∀ e ∈ es, XPropR sty e := by
    intro es he
    subst he
    simp only [pBlock, Bool.and_eq_true] at hp
    exact xargsR sty es hp.2
  obtain ⟨cb, rel, hparse⟩ := root_stepR hss hr (ks.map mkTok) ⟨ks, hks, rfl⟩
  refine ⟨cb, rel, ?_⟩
  intro f hf
  exact hparse f (by simpa using hf)

/-- MAIN THEOREM (every reading). -/
theorem read_sim (sty : Style) (b : Model.Block) (hb : Printable b) (ks : List Spec.Tk) (hks : ReadTks (emit sty b) ks) :
    ∃ f c, Spec.block f (toToks ks) = .ok (c, [eofTok]) ∧ BlockRel (dropSemis b) (dropEmpty c) := by
  obtain ⟨c, rel, h⟩ := read_sim_fuel sty b hb ks hks
  exact ⟨_, c, h _ (Nat.le_refl _), rel⟩

/-- the reference parser's entry point `parseToks` (fuel `4 * length + 64`, then end of input) accepts every reading -/
theorem read_sim_parseToks (sty : Style) (b : Model.Block) (hb : Printable b) (ks : List Spec.Tk)
    (hks : ReadTks (emit sty b) ks) :
    ∃ c, Spec.parseToks (toToks ks) = .ok c ∧ BlockRel (dropSemis b) (dropEmpty c) := by
  obtain ⟨c, rel, h⟩ := read_sim_fuel sty b hb ks hks
  refine ⟨c, ?_, rel⟩
  have := h (4 * (toToks ks).length + 64) (by simp [toToks]; omega)
  unfold parseToks
  rw [this]
  rfl

/-- the two constant readings: all separators `;` (`semi = true`) or all white space (`semi = false`) -/
theorem print_sim_const (semi : Bool) (sty : Style) (b : Model.Block) (hb : Printable b) :
    ∃ f c, Spec.block f (toToks (piecesTks semi (emit sty b))) = .ok (c, [eofTok]) ∧ BlockRel (dropSemis b) (dropEmpty c) :=
  read_sim sty b hb _ (readTks_const semi _)

theorem print_sim_parseToks (semi : Bool) (sty : Style) (b : Model.Block) (hb : Printable b) :
    ∃ c, Spec.parseToks (toToks (piecesTks semi (emit sty b))) = .ok c ∧ BlockRel (dropSemis b) (dropEmpty c) :=
  read_sim_parseToks sty b hb _ (readTks_const semi _)

/-! ## non-vacuity -/

/-- `local x = 1  f(x)  ;  ("s"):m(x + 1)  return x` (the third statement is a `Semicolon` node) -/
def demoTree : Model.Block :=
  let tk : Token := default
  let one : NumTuple := { isHex := false, ip := some ['1'], fp := none, ex := none, fo := none }
  let nm (s : String) : Expr := .name tk s.toList
  .mk tk [ .localAssign tk [.mk (nm "x") none] (some [.number tk one]),
           .call tk (nm "f") [nm "x"],
           .semi tk,
           .method tk (.string tk "s".toList) (nm "m") [.binop tk .add (nm "x") (.number tk one)] ]
      (some [nm "x"]) true

example : Printable demoTree := by decide

/-- with all separators read as white space: the dropped `Semicolon` leaves no token, and the statement that starts with `(`
is protected by the `;` guard of `visitStmts` -/
example : piecesTks false (emit Props.demoStyle demoTree) =
    [.kw "local", .name "x", .sym "=", .num ⟨false, ['1'], none, none⟩,
     .name "f", .sym "(", .name "x", .sym ")",
     .sym ";", .sym "(", .str [.ch 115], .sym ")", .sym ":", .name "m", .sym "(", .name "x", .sym "+",
       .num ⟨false, ['1'], none, none⟩, .sym ")",
     .kw "return", .name "x"] := by decide +kernel

example : (match Spec.parseToks (toToks (piecesTks false (emit Props.demoStyle demoTree))) with
    | .ok _ => true | .error _ => false) = true := by decide +kernel

end Tumfl.Theory
