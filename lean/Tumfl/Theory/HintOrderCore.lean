import Tumfl.Theory.HintOrderLex
import Tumfl.Theory.HintsCore
import Tumfl.Theory.ParserWFLadder
/-!
# The ordering invariant of the parser state, and a weakest-precondition calculus for it

`Ordered s` : the hint stack of `s` is sorted by position (outermost = oldest first), no hint lies after
the current token, the current token is not after the look-ahead token, and the look-ahead token is not
after the lexer's position (so that the next token the lexer delivers is not before it, by
`getNextToken_pos_between`).

`HintsOK tok hs` : what an error `.parser msg tok hs` must satisfy.

`OW m Q s` : running `m` in `s` either succeeds with `(a, s')` such that `Q a s'`, or fails with an error
satisfying `HErrOK` (a parser error satisfies `HintsOK`; other errors carry no hints).
-/
namespace Tumfl.Theory
open Tumfl.Model Tumfl.Spec

/-- the hints' positions are pairwise non-decreasing along the list (outermost first) -/
def SortedHints (hs : List Hint) : Prop :=
  hs.Pairwise fun a b => posLe (tokPos a.token) (tokPos b.token)

/-- the contract of the hint chain carried by a parser error raised at token `tok` -/
def HintsOK (tok : Token) (hs : List Hint) : Prop :=
  SortedHints hs ∧ ∀ h ∈ hs, posLe (tokPos h.token) (tokPos tok)

structure Ordered (s : PSt) : Prop where
  hints : HintsOK s.cur s.hints
  curNxt : posLe (tokPos s.cur) (tokPos s.nxt)
  nxtLex : posLe (tokPos s.nxt) (lexPos s.lex)

/-- the error predicate -/
def HErrOK : PyErr → Prop
  | .parser _ tok hs => HintsOK tok hs
  | _ => True

theorem HintsOK_nil (tok : Token) : HintsOK tok [] := ⟨List.Pairwise.nil, fun _ h => by cases h⟩

theorem HintsOK_mono {tok tok' : Token} {hs : List Hint} (h : HintsOK tok hs) (hle : posLe (tokPos tok) (tokPos tok')) :
    HintsOK tok' hs :=
  ⟨h.1, fun x hx => posLe_trans (h.2 x hx) hle⟩

theorem HintsOK_push {tok : Token} {hs : List Hint} (h : HintsOK tok hs) (x : Hint) (hx : x.token = tok) :
    HintsOK tok (hs ++ [x]) := by
  refine ⟨?_, ?_⟩
  · unfold SortedHints
    rw [List.pairwise_append]
    refine ⟨h.1, List.pairwise_singleton _ _, ?_⟩
    intro a ha b hb
    simp only [List.mem_singleton] at hb
    subst hb
    rw [hx]
    exact h.2 a ha
  · intro y hy
    rcases List.mem_append.mp hy with hy | hy
    · exact h.2 y hy
    · simp only [List.mem_singleton] at hy
      subst hy
      rw [hx]
      exact posLe_refl _

theorem HintsOK_dropLast {tok : Token} {hs : List Hint} (h : HintsOK tok hs) : HintsOK tok hs.dropLast :=
  ⟨List.Pairwise.sublist (List.dropLast_sublist hs) h.1, fun x hx => h.2 x (List.dropLast_subset hs hx)⟩

theorem HintsOK_switch {tok : Token} {hs : List Hint} {x : Hint} (h : HintsOK tok hs) (hx : hs.getLast? = some x)
    (what : String) : HintsOK tok (hs.dropLast ++ [{ x with what := what }]) := by
  have hsplit : hs = hs.dropLast ++ [x] := by
    obtain ⟨ys, rfl⟩ := List.getLast?_eq_some_iff.mp hx
    simp
  rw [hsplit] at h
  refine ⟨?_, ?_⟩
  · have h1 := h.1
    unfold SortedHints at *
    rw [List.pairwise_append] at h1 ⊢
    refine ⟨h1.1, List.pairwise_singleton _ _, ?_⟩
    intro a ha b hb
    simp only [List.mem_singleton] at hb
    subst hb
    exact h1.2.2 a ha x (List.mem_singleton.mpr rfl)
  · intro y hy
    rcases List.mem_append.mp hy with hy | hy
    · exact h.2 y (List.mem_append_left _ hy)
    · simp only [List.mem_singleton] at hy
      subst hy
      exact h.2 x (List.mem_append_right _ (List.mem_singleton.mpr rfl))

variable {α β : Type}

structure OW (m : PM α) (Q : α → PSt → Prop) (s : PSt) : Prop where
  run : match m s with
    | .ok (a, s') => Q a s'
    | .error e => HErrOK e

/-- `m` keeps `Ordered` (and all its errors are `HErrOK`) -/
def OSpec (m : PM α) : Prop := ∀ s, Ordered s → OW m (fun _ s' => Ordered s') s

theorem OW_bind {m : PM α} {k : α → PM β} {Q : β → PSt → Prop} {s : PSt}
    (h : OW m (fun a s' => OW (k a) Q s') s) : OW (m >>= k) Q s := by
  have h := h.run
  cases hm : m s with
  | error e => rw [hm] at h; exact ⟨by rw [bind_err hm]; exact h⟩
  | ok r => obtain ⟨a, s1⟩ := r; rw [hm] at h; exact ⟨by rw [bind_ok hm]; exact h.run⟩

theorem OW_call {m : PM α} {Q' Q : α → PSt → Prop} {s : PSt}
    (h : OW m Q' s) (hq : ∀ a s', Q' a s' → Q a s') : OW m Q s := by
  have h := h.run
  constructor
  cases hm : m s with
  | error e => rw [hm] at h; exact h
  | ok r => obtain ⟨a, s1⟩ := r; rw [hm] at h; exact hq _ _ h

theorem OSpec.call {m : PM α} {Q : α → PSt → Prop} {s : PSt}
    (h : OSpec m) (hs : Ordered s) (hq : ∀ a s', Ordered s' → Q a s') : OW m Q s :=
  OW_call (h s hs) hq

theorem OW_pure {a : α} {Q : α → PSt → Prop} {s : PSt} (h : Q a s) : OW (pure a : PM α) Q s := ⟨h⟩

theorem OW_ite {c : Prop} [Decidable c] {a b : PM α} {Q : α → PSt → Prop} {s : PSt}
    (ha : c → OW a Q s) (hb : ¬ c → OW b Q s) : OW (if c then a else b) Q s := by
  split
  · exact ha ‹_›
  · exact hb ‹_›

theorem OW_map {γ : Type} {m : PM α} {g : α → γ} {Q : γ → PSt → Prop} {s : PSt}
    (h : OW m (fun a s' => Q (g a) s') s) : OW (g <$> m) Q s := by
  have h := h.run
  constructor
  cases hm : m s with
  | error e => rw [hm] at h; simp [Functor.map, StateT.map, hm, bind, Except.bind]; exact h
  | ok r => obtain ⟨a, s1⟩ := r; rw [hm] at h; simp [Functor.map, StateT.map, hm, bind, Except.bind, pure, Except.pure]; exact h

theorem OW_curTok {Q : Token → PSt → Prop} {s : PSt} (h : Q s.cur s) : OW curTok Q s := ⟨h⟩
theorem OW_nxtTok {Q : Token → PSt → Prop} {s : PSt} (h : Q s.nxt s) : OW nxtTok Q s := ⟨h⟩
theorem OW_curIs {t : TT} {Q : Bool → PSt → Prop} {s : PSt} (h : Q (s.cur.type == t) s) : OW (curIs t) Q s := ⟨h⟩

/-- `perror` with the *current* token (every `perror` site of the parser passes the token it has just read with
`curTok`, the state being unchanged since) -/
theorem OW_perror_cur {msg : String} {Q : α → PSt → Prop} {s : PSt} (hs : Ordered s) :
    OW (perror msg s.cur : PM α) Q s := ⟨hs.hints⟩

/-- `perror` with any token that is not before the current one -/
theorem OW_perror {msg : String} {tok : Token} {Q : α → PSt → Prop} {s : PSt} (hs : Ordered s)
    (hle : posLe (tokPos s.cur) (tokPos tok)) : OW (perror msg tok : PM α) Q s := ⟨HintsOK_mono hs.hints hle⟩

theorem OW_pyerr {kind site : String} {Q : α → PSt → Prop} {s : PSt} : OW (pyerr kind site : PM α) Q s := ⟨trivial⟩
theorem OW_fuelErrP {Q : α → PSt → Prop} {s : PSt} : OW (fuelErrP : PM α) Q s := ⟨trivial⟩

theorem OW_ok {m : PM α} {Q : α → PSt → Prop} {s s' : PSt} {a : α} (h : OW m Q s) (hm : m s = .ok (a, s')) : Q a s' := by
  have h := h.run; rw [hm] at h; exact h

theorem OW_err {m : PM α} {Q : α → PSt → Prop} {s : PSt} {e : PyErr} (h : OW m Q s) (hm : m s = .error e) : HErrOK e := by
  have h := h.run; rw [hm] at h; exact h

/-! ## primitives -/

theorem OSpec_fuelErrP : OSpec (fuelErrP : PM α) := fun _ _ => OW_fuelErrP

theorem OSpec_addHint (wher what : String) : OSpec (addHint wher what) := by
  intro s hs
  exact ⟨⟨HintsOK_push hs.hints _ rfl, hs.curNxt, hs.nxtLex⟩⟩

theorem OSpec_removeHint : OSpec removeHint := by
  intro s hs
  by_cases h : s.hints.isEmpty = true
  · constructor; simp only [removeHint, h, if_true]; trivial
  · constructor; simp only [removeHint, h]; exact ⟨HintsOK_dropLast hs.hints, hs.curNxt, hs.nxtLex⟩

theorem OSpec_switchHint (what : String) : OSpec (switchHint what) := by
  intro s hs
  cases h : s.hints.getLast? with
  | none => constructor; simp only [switchHint, h]; trivial
  | some x => constructor; simp only [switchHint, h]; exact ⟨HintsOK_switch hs.hints h what, hs.curNxt, hs.nxtLex⟩

theorem OSpec_assertTok (t : TT) : OSpec (assertTok t) := by
  intro s hs
  constructor
  unfold assertTok
  by_cases h : (s.cur.type != t) = true
  · simp only [h, if_true]; exact hs.hints
  · simp only [h]; exact hs

/-- the lexer's errors are not parser errors -/
theorem getNextToken_not_parser {cfg : LexCfg} {l : LexSt} {e : PyErr} (h : getNextToken cfg l = .error e) : HErrOK e := by
  cases e with
  | parser msg tok hs =>
    exfalso
    have hg := getNextToken_good cfg l
    rw [h] at hg
    rcases hg with ⟨m, a, b, he⟩ | he <;> cases he
  | _ => trivial

theorem OSpec_eatRaw : OSpec eatRaw := by
  intro s hs
  constructor
  unfold eatRaw
  cases h : getNextToken s.cfg s.lex with
  | error e => exact getNextToken_not_parser h
  | ok r =>
    obtain ⟨t, lx⟩ := r
    have hb := getNextToken_pos_between h
    exact ⟨HintsOK_mono hs.hints hs.curNxt, posLe_trans hs.nxtLex hb.1, hb.2⟩

theorem OSpec_eat (t : Option TT) : OSpec (eat t) := by
  intro s hs
  unfold eat
  cases t with
  | none => exact OSpec_eatRaw s hs
  | some ty =>
    refine OW_bind (OW_call (OSpec_assertTok ty s hs) ?_)
    intro _ s' h
    exact OSpec_eatRaw s' h

theorem OSpec_eatName : OSpec eatName := by
  intro s hs
  unfold eatName
  refine OW_bind (OW_curTok ?_)
  refine OW_bind (OW_call (OSpec_eat _ s hs) ?_)
  intro _ s' h
  exact OW_pure h

/-! ## `initParser` -/

theorem initParser_ordered {cfg : LexCfg} {text : List Char} {s0 : PSt} (h : initParser cfg text = .ok s0) : Ordered s0 := by
  unfold initParser at h
  split at h
  · cases h
  · next t1 l1 h1 =>
    split at h
    · cases h
    · next t2 l2 h2 =>
      cases h
      exact ⟨HintsOK_nil _, getNextToken_mono h1 h2, (getNextToken_pos_between h2).2⟩

theorem initParser_errOK {cfg : LexCfg} {text : List Char} {e : PyErr} (h : initParser cfg text = .error e) : HErrOK e := by
  unfold initParser at h
  split at h
  · next e1 h1 => cases h; exact getNextToken_not_parser h1
  · split at h
    · next e2 h2 => cases h; exact getNextToken_not_parser h2
    · cases h

end Tumfl.Theory
