import Tumfl.Theory.PrintInlinedBase
/-!
# The pieces of an inlined tree are the pieces of its flattening

`emit_flatten`: under `okBlock keep cmts b` (with `keep` / `cmts` covering the style's `keepSemicolon` / `includeComments`)
`emit sty (flattenChunks b) = emit sty b` - the very same piece list, not just the same token readings.
-/
namespace Tumfl.Theory
open Tumfl.Model

/-- the flags `keep` / `cmts` of `okBlock` cover what the style does -/
def Covers (sty : Style) (keep cmts : Bool) : Prop :=
  (sty.keepSemicolon = true → keep = true) ∧ (sty.includeComments = true → cmts = true)

theorem covers_self (sty : Style) : Covers sty sty.keepSemicolon sty.includeComments := ⟨id, id⟩
theorem covers_true (sty : Style) : Covers sty true true := ⟨fun _ => rfl, fun _ => rfl⟩

/-! ## One statement replaced by one statement -/

theorem vs_single {sty : Style} {first : Bool} {s s' : Stmt} (h1 : stmtComments s' = stmtComments s)
    (h2 : visitStmt sty s' = visitStmt sty s) {R R' : List Stmt}
    (hR : visitStmts sty false R = visitStmts sty false R') :
    visitStmts sty first ([s'] ++ R) = visitStmts sty first (s :: R') := by
  rw [List.singleton_append, visitStmts_cons, visitStmts_cons, hR, h2]
  unfold stmtCommentPieces
  rw [h1]

/-! ## A spliced chunk -/

theorem visitStmts_ne_nil (sty : Style) (first : Bool) {ss : List Stmt} (h : ss ≠ []) : visitStmts sty first ss ≠ [] := by
  cases ss with
  | nil => exact absurd rfl h
  | cons s rest => rw [visitStmts_cons]; simp

/-- the pieces of a non-empty nested chunk without return list: its statement loop without the last separator -/
theorem visitStmt_chunk (sty : Style) (t : Token) {stmts : List Stmt} (h : stmts ≠ []) :
    visitStmt sty (.block (.mk t stmts none true)) ++ [S .statement] = visitStmts sty true stmts := by
  rcases visitStmts_last sty true stmts with h0 | ⟨init, hi⟩
  · exact absurd h0 (visitStmts_ne_nil sty true h)
  · rw [hi]
    simp only [visitStmt, blk, Block.isChunk, if_true, visitBlockFull_eq, bodyPieces, List.append_nil]
    rw [hi]
    have : [P "do", S .block, S .indent] ++ (init ++ [S .statement]) ++ [S .deindent, P "end"] =
        [P "do", S .block, S .indent] ++ init ++ [S .statement, S .deindent, P "end"] := by simp
    rw [this, sliceInner_mid _ _ _ 3 3 rfl rfl]

/-- the pieces of an empty nested chunk without return list: none -/
theorem visitStmt_chunk_nil (sty : Style) (t : Token) : visitStmt sty (.block (.mk t [] none true)) = [] := by
  simp only [visitStmt, blk, Block.isChunk, if_true, visitBlockFull_eq, bodyPieces, visitStmts, List.append_nil]
  rfl

theorem stmtGuard_tail (first : Bool) (tx tl : Pieces) (h : tl = [] ∨ ∃ r, tl = S .statement :: r) :
    stmtGuard first (tx ++ tl) = stmtGuard first tx := by
  cases tx with
  | nil =>
    rcases h with h | ⟨r, h⟩
    · subst h; rfl
    · subst h; rfl
  | cons p ps => exact stmtGuard_append first (by simp) tl

/-- splicing the (already flattened) statements `M` of a non-empty chunk: the guard of the enclosing list moves behind the
comments of the chunk's first statement -/
theorem splice_step (sty : Style) (first : Bool) (t : Token) (stmts : List Stmt) (x : Stmt) (xs : List Stmt)
    (hne : stmts ≠ [])
    (hM : visitStmts sty true (x :: xs) = visitStmts sty true stmts)
    (hcond : stmtCommentPieces sty x = [] ∨ stmtGuard first (visitStmt sty x) = [])
    {R R' : List Stmt} (hR : visitStmts sty false R = visitStmts sty false R') :
    visitStmts sty first (addCommentHead t.comment (x :: xs) ++ R) =
      visitStmts sty first (.block (.mk t stmts none true) :: R') := by
  have hA := visitStmt_chunk sty t hne
  rw [← hM, visitStmts_cons, stmtGuard_true] at hA
  -- the tail of the chunk's pieces behind its first statement
  obtain ⟨tl, htl, htoks⟩ : ∃ tl, (tl = [] ∨ ∃ r, tl = S .statement :: r) ∧
      visitStmt sty (.block (.mk t stmts none true)) = stmtCommentPieces sty x ++ visitStmt sty x ++ tl := by
    rcases visitStmts_last sty false xs with h0 | ⟨init, hi⟩
    · refine ⟨[], Or.inl rfl, ?_⟩
      rw [h0] at hA
      have : stmtCommentPieces sty x ++ [] ++ visitStmt sty x ++ [S .statement] ++ [] =
          (stmtCommentPieces sty x ++ visitStmt sty x ++ []) ++ [S .statement] := by simp
      rw [this] at hA
      exact List.append_cancel_right hA
    · refine ⟨S .statement :: init, Or.inr ⟨_, rfl⟩, ?_⟩
      rw [hi] at hA
      have : stmtCommentPieces sty x ++ [] ++ visitStmt sty x ++ [S .statement] ++ (init ++ [S .statement]) =
          (stmtCommentPieces sty x ++ visitStmt sty x ++ S .statement :: init) ++ [S .statement] := by simp
      rw [this] at hA
      exact List.append_cancel_right hA
  -- the guard in front of the chunk
  have hg : stmtGuard first (visitStmt sty (.block (.mk t stmts none true))) ++ stmtCommentPieces sty x =
      stmtCommentPieces sty x ++ stmtGuard first (visitStmt sty x) := by
    rw [htoks]
    rcases stmtCommentPieces_head sty x with h0 | ⟨p, ps, hp, hne'⟩
    · rw [h0, List.nil_append, List.nil_append, List.append_nil, stmtGuard_tail first _ _ htl]
    · have hgx : stmtGuard first (visitStmt sty x) = [] := by
        rcases hcond with h | h
        · rw [hp] at h; cases h
        · exact h
      rw [hgx, hp, List.cons_append, List.cons_append, stmtGuard_of_head hne']
      simp
  simp only [addCommentHead, List.cons_append]
  rw [visitStmts_cons, visitStmts_cons, visitStmt_addComment, stmtCommentPieces_addComment, visitStmts_append_false, hR]
  have hB : stmtCommentPieces sty (.block (.mk t stmts none true)) =
      (if sty.includeComments then t.comment.flatMap (formatComment sty) else []) := rfl
  rw [hB]
  have hA' : visitStmt sty (.block (.mk t stmts none true)) ++ [S .statement] =
      stmtCommentPieces sty x ++ visitStmt sty x ++ [S .statement] ++ visitStmts sty false xs := by
    simpa using hA
  generalize (if sty.includeComments then t.comment.flatMap (formatComment sty) else []) = cB at *
  generalize visitStmt sty (.block (.mk t stmts none true)) = toks at *
  calc cB ++ stmtCommentPieces sty x ++ stmtGuard first (visitStmt sty x) ++ visitStmt sty x ++ [S .statement] ++
        (visitStmts sty false xs ++ visitStmts sty false R')
      = cB ++ (stmtCommentPieces sty x ++ stmtGuard first (visitStmt sty x)) ++
          (visitStmt sty x ++ [S .statement] ++ visitStmts sty false xs) ++ visitStmts sty false R' := by simp
    _ = cB ++ (stmtGuard first toks ++ stmtCommentPieces sty x) ++
          (visitStmt sty x ++ [S .statement] ++ visitStmts sty false xs) ++ visitStmts sty false R' := by rw [hg]
    _ = cB ++ stmtGuard first toks ++
          (stmtCommentPieces sty x ++ visitStmt sty x ++ [S .statement] ++ visitStmts sty false xs) ++
          visitStmts sty false R' := by simp
    _ = cB ++ stmtGuard first toks ++ (toks ++ [S .statement]) ++ visitStmts sty false R' := by rw [hA']
    _ = cB ++ stmtGuard first toks ++ toks ++ [S .statement] ++ visitStmts sty false R' := by simp

/-- the condition `okSB` asks for is the one `splice_step` needs -/
theorem hides_cond (sty : Style) {keep cmts : Bool} (hs : Covers sty keep cmts) (first : Bool) (x : Stmt) (xs : List Stmt)
    (h : (first || !hidesGuard cmts (x :: xs)) = true) :
    stmtCommentPieces sty x = [] ∨ stmtGuard first (visitStmt sty x) = [] := by
  cases first with
  | true => right; exact stmtGuard_true _
  | false =>
    simp only [Bool.false_or, hidesGuard, Bool.not_eq_true', Bool.and_eq_false_iff, Bool.not_eq_false',
      List.isEmpty_iff] at h
    rcases h with (h | h) | h
    · left
      apply stmtCommentPieces_nil_of; left
      cases hi : sty.includeComments with
      | false => rfl
      | true => rw [hs.2 hi] at h; cases h
    · left; exact stmtCommentPieces_nil_of sty x (Or.inr h)
    · right; exact stmtGuard_of_leadParenS sty false x h

/-! ## The traversal -/

mutual
theorem em_expr (sty : Style) (keep cmts : Bool) (hs : Covers sty keep cmts) : (e : Expr) → okExpr keep cmts e = true →
    visitExpr sty (fcExpr e) = visitExpr sty e
  | .nil _, _ | .bool _ _, _ | .vararg _, _ | .number _ _, _ | .string _ _, _ | .name _ _, _ => by simp only [fcExpr]
  | .func _ ps body, h => by
    simp only [okExpr] at h
    simp only [fcExpr, visitExpr, visitBlockFull_fcBody, em_block sty keep cmts hs body h]
  | .table _ fs, h => by
    simp only [okExpr] at h
    simp only [fcExpr, visitExpr, em_fields sty keep cmts hs fs h]
  | .binop _ o l r, h => by
    simp only [okExpr, Bool.and_eq_true] at h
    simp only [fcExpr, visitExpr, kind_fcExpr, em_expr sty keep cmts hs l h.1, em_expr sty keep cmts hs r h.2]
  | .unop _ u e, h => by
    simp only [okExpr] at h
    simp only [fcExpr, visitExpr, kind_fcExpr, em_expr sty keep cmts hs e h]
  | .index _ l k, h => by
    simp only [okExpr, Bool.and_eq_true] at h
    simp only [fcExpr, visitExpr, fmtVar_fcExpr, em_expr sty keep cmts hs l h.1, em_expr sty keep cmts hs k h.2]
  | .namedIndex _ l nm, h => by
    simp only [okExpr] at h
    simp only [fcExpr, visitExpr, fmtVar_fcExpr, em_expr sty keep cmts hs l h]
  | .call _ f args, h => by
    simp only [okExpr, Bool.and_eq_true] at h
    simp only [fcExpr, visitExpr, fmtVar_fcExpr, fmtFunctionArgs_fcArgs, em_expr sty keep cmts hs f h.1,
      em_args sty keep cmts hs args h.2]
  | .method _ f m args, h => by
    simp only [okExpr, Bool.and_eq_true] at h
    simp only [fcExpr, visitExpr, fmtVar_fcExpr, fmtFunctionArgs_fcArgs, em_expr sty keep cmts hs f h.1,
      em_args sty keep cmts hs args h.2]

theorem em_args (sty : Style) (keep cmts : Bool) (hs : Covers sty keep cmts) : (es : List Expr) →
    okArgs keep cmts es = true → visitArgs sty (fcArgs es) = visitArgs sty es
  | [], _ => by simp only [fcArgs]
  | [e], h => by
    simp only [okArgs, Bool.and_eq_true] at h
    simp only [fcArgs, visitArgs, em_expr sty keep cmts hs e h.1]
  | e :: e2 :: rest, h => by
    rw [okArgs, Bool.and_eq_true] at h
    have ih := em_args sty keep cmts hs (e2 :: rest) h.2
    rw [fcArgs] at ih
    rw [fcArgs, fcArgs, visitArgs, visitArgs, em_expr sty keep cmts hs e h.1, ih]

theorem em_targets (sty : Style) (keep cmts : Bool) (hs : Covers sty keep cmts) : (es : List Expr) →
    okArgs keep cmts es = true → visitTargets sty (fcArgs es) = visitTargets sty es
  | [], _ => by simp only [fcArgs]
  | [e], h => by
    simp only [okArgs, Bool.and_eq_true] at h
    simp only [fcArgs, visitTargets, fmtVar_fcExpr, em_expr sty keep cmts hs e h.1]
  | e :: e2 :: rest, h => by
    rw [okArgs, Bool.and_eq_true] at h
    have ih := em_targets sty keep cmts hs (e2 :: rest) h.2
    rw [fcArgs] at ih
    rw [fcArgs, fcArgs, visitTargets, visitTargets, fmtVar_fcExpr, em_expr sty keep cmts hs e h.1, ih]

theorem em_fields (sty : Style) (keep cmts : Bool) (hs : Covers sty keep cmts) : (fs : List Field) →
    okFields keep cmts fs = true → visitFields sty (fcFields fs) = visitFields sty fs
  | [], _ => by simp only [fcFields]
  | [f], h => by
    simp only [okFields, Bool.and_eq_true] at h
    simp only [fcFields, visitFields, em_field sty keep cmts hs f h.1]
  | f :: f2 :: rest, h => by
    rw [okFields, Bool.and_eq_true] at h
    have ih := em_fields sty keep cmts hs (f2 :: rest) h.2
    rw [fcFields] at ih
    rw [fcFields, fcFields, visitFields, visitFields, em_field sty keep cmts hs f h.1, ih]

theorem em_field (sty : Style) (keep cmts : Bool) (hs : Covers sty keep cmts) : (f : Field) →
    okField keep cmts f = true → visitField sty (fcField f) = visitField sty f
  | .explicit _ k v, h => by
    simp only [okField, Bool.and_eq_true] at h
    simp only [fcField, visitField, em_expr sty keep cmts hs k h.1, em_expr sty keep cmts hs v h.2]
  | .named _ n v, h => by
    simp only [okField] at h
    simp only [fcField, visitField, em_expr sty keep cmts hs v h]
  | .numbered _ v, h => by
    simp only [okField] at h
    simp only [fcField, visitField, em_expr sty keep cmts hs v h]

theorem em_block (sty : Style) (keep cmts : Bool) (hs : Covers sty keep cmts) : (b : Block) →
    okBlock keep cmts b = true → visitBlockFull sty (fcBlock b) = visitBlockFull sty b
  | .mk t stmts none c, h => by
    simp only [okBlock] at h
    simp only [fcBlock, visitBlockFull_eq, bodyPieces, em_stmts sty keep cmts hs true stmts h]
  | .mk t stmts (some es) c, h => by
    simp only [okBlock, Bool.and_eq_true] at h
    have : (fcArgs es).isEmpty = es.isEmpty := by cases es <;> simp [fcArgs]
    simp only [fcBlock, visitBlockFull_eq, bodyPieces, em_stmts sty keep cmts hs true stmts h.1,
      em_args sty keep cmts hs es h.2, this]

theorem em_stmts (sty : Style) (keep cmts : Bool) (hs : Covers sty keep cmts) : (first : Bool) → (ss : List Stmt) →
    okStmts keep cmts first ss = true → visitStmts sty first (fcStmts ss) = visitStmts sty first ss
  | _, [], _ => by simp only [fcStmts]
  | first, s :: rest, h => by
    simp only [okStmts, Bool.and_eq_true] at h
    rw [fcStmts]
    exact em_S sty keep cmts hs first s h.1 (em_stmts sty keep cmts hs false rest h.2)

theorem em_S (sty : Style) (keep cmts : Bool) (hs : Covers sty keep cmts) : (first : Bool) → (s : Stmt) →
    piOkS keep cmts first s = true → ∀ {R R' : List Stmt}, visitStmts sty false R = visitStmts sty false R' →
    visitStmts sty first (fcS s ++ R) = visitStmts sty first (s :: R')
  | first, .assign _ ts es, h, _, _, hR => by
    simp only [piOkS, Bool.and_eq_true] at h
    rw [fcS]
    refine vs_single (by rfl) ?_ hR
    simp only [visitStmt, em_targets sty keep cmts hs ts h.1, em_args sty keep cmts hs es h.2]
  | first, .block b, h, _, _, hR => by
    simp only [piOkS] at h
    rw [fcS]
    exact em_SB sty keep cmts hs first b h hR
  | first, .brk _, _, _, _, hR => by rw [fcS]; exact vs_single (by rfl) (by rfl) hR
  | first, .call _ f args, h, _, _, hR => by
    simp only [piOkS, Bool.and_eq_true] at h
    rw [fcS]
    refine vs_single (by rfl) ?_ hR
    simp only [visitStmt, fmtVar_fcExpr, fmtFunctionArgs_fcArgs, em_expr sty keep cmts hs f h.1,
      em_args sty keep cmts hs args h.2]
  | first, .funcDef _ names none ps body, h, _, _, hR => by
    simp only [piOkS] at h
    rw [fcS]
    refine vs_single (by rfl) ?_ hR
    simp only [visitStmt, visitBlockFull_fcBody, em_block sty keep cmts hs body h]
  | first, .funcDef _ names (some mn) ps body, h, _, _, hR => by
    simp only [piOkS] at h
    rw [fcS]
    refine vs_single (by rfl) ?_ hR
    simp only [visitStmt, visitBlockFull_fcBody, em_block sty keep cmts hs body h]
  | first, .goto _ l, _, _, _, hR => by rw [fcS]; exact vs_single (by rfl) (by rfl) hR
  | first, .label _ n, _, _, _, hR => by rw [fcS]; exact vs_single (by rfl) (by rfl) hR
  | first, .iff _ test tr fl, h, _, _, hR => by
    simp only [piOkS, Bool.and_eq_true] at h
    rw [fcS]
    refine vs_single (by rfl) ?_ hR
    simp only [visitStmt, em_expr sty keep cmts hs test h.1.1,
      blk_congr (em_block sty keep cmts hs tr h.1.2) (isChunk_fcBlock tr), em_false sty keep cmts hs fl h.2]
  | first, .iterFor _ ns es body, h, _, _, hR => by
    simp only [piOkS, Bool.and_eq_true] at h
    rw [fcS]
    refine vs_single (by rfl) ?_ hR
    simp only [visitStmt, em_args sty keep cmts hs es h.1,
      blk_congr (em_block sty keep cmts hs body h.2) (isChunk_fcBlock body)]
  | first, .localAssign _ names none, _, _, _, hR => by rw [fcS]; exact vs_single (by rfl) (by rfl) hR
  | first, .localAssign _ names (some []), _, _, _, hR => by rw [fcS]; exact vs_single (by rfl) (by rfl) hR
  | first, .localAssign _ names (some (e :: rest)), h, _, _, hR => by
    simp only [piOkS] at h
    rw [fcS]
    refine vs_single (by rfl) ?_ hR
    have ih := em_args sty keep cmts hs (e :: rest) h
    rw [fcArgs] at ih
    simp only [fcArgs, visitStmt, ih]
  | first, .localFunc _ n ps body, h, _, _, hR => by
    simp only [piOkS] at h
    rw [fcS]
    refine vs_single (by rfl) ?_ hR
    simp only [visitStmt, visitBlockFull_fcBody, em_block sty keep cmts hs body h]
  | first, .method _ f m args, h, _, _, hR => by
    simp only [piOkS, Bool.and_eq_true] at h
    rw [fcS]
    refine vs_single (by rfl) ?_ hR
    simp only [visitStmt, fmtVar_fcExpr, fmtFunctionArgs_fcArgs, em_expr sty keep cmts hs f h.1,
      em_args sty keep cmts hs args h.2]
  | first, .numFor _ v a b none body, h, _, _, hR => by
    simp only [piOkS, Bool.and_eq_true] at h
    rw [fcS]
    refine vs_single (by rfl) ?_ hR
    simp only [visitStmt, em_expr sty keep cmts hs a h.1.1, em_expr sty keep cmts hs b h.1.2,
      blk_congr (em_block sty keep cmts hs body h.2) (isChunk_fcBlock body)]
  | first, .numFor _ v a b (some st) body, h, _, _, hR => by
    simp only [piOkS, Bool.and_eq_true] at h
    rw [fcS]
    refine vs_single (by rfl) ?_ hR
    simp only [visitStmt, em_expr sty keep cmts hs a h.1.1.1, em_expr sty keep cmts hs b h.1.1.2,
      em_expr sty keep cmts hs st h.1.2, blk_congr (em_block sty keep cmts hs body h.2) (isChunk_fcBlock body)]
  | first, .repeat _ c body, h, _, _, hR => by
    simp only [piOkS, Bool.and_eq_true] at h
    rw [fcS]
    refine vs_single (by rfl) ?_ hR
    simp only [visitStmt, em_expr sty keep cmts hs c h.1,
      blk_congr (em_block sty keep cmts hs body h.2) (isChunk_fcBlock body)]
  | first, .semi _, _, _, _, hR => by rw [fcS]; exact vs_single (by rfl) (by rfl) hR
  | first, .whl _ c body, h, _, _, hR => by
    simp only [piOkS, Bool.and_eq_true] at h
    rw [fcS]
    refine vs_single (by rfl) ?_ hR
    simp only [visitStmt, em_expr sty keep cmts hs c h.1,
      blk_congr (em_block sty keep cmts hs body h.2) (isChunk_fcBlock body)]

theorem em_SB (sty : Style) (keep cmts : Bool) (hs : Covers sty keep cmts) : (first : Bool) → (b : Block) →
    okSB keep cmts first b = true → ∀ {R R' : List Stmt}, visitStmts sty false R = visitStmts sty false R' →
    visitStmts sty first (fcSB b ++ R) = visitStmts sty first (.block b :: R')
  | first, .mk t stmts (some es) c, h, _, _, hR => by
    simp only [okSB, Bool.and_eq_true] at h
    rw [fcSB]
    refine vs_single (by rfl) ?_ hR
    have : (fcArgs es).isEmpty = es.isEmpty := by cases es <;> simp [fcArgs]
    simp only [visitStmt, blk, Block.isChunk, visitBlockFull_eq, bodyPieces, em_stmts sty keep cmts hs true stmts h.1,
      em_args sty keep cmts hs es h.2, this]
  | first, .mk t stmts none false, h, _, _, hR => by
    simp only [okSB] at h
    rw [fcSB]
    refine vs_single (by rfl) ?_ hR
    simp only [visitStmt, blk, Block.isChunk, visitBlockFull_eq, bodyPieces, em_stmts sty keep cmts hs true stmts h]
  | first, .mk t [] none true, h, _, _, hR => by
    simp only [okSB, List.isEmpty_nil, if_true, Bool.not_eq_true'] at h
    have hk : sty.keepSemicolon = false := by
      cases hk : sty.keepSemicolon with
      | false => rfl
      | true => rw [hs.1 hk] at h; cases h
    simp only [fcSB, List.isEmpty_nil, if_true]
    refine vs_single (by rfl) ?_ hR
    rw [visitStmt_chunk_nil]
    simp [visitStmt, hk]
  | first, .mk t (s :: rest) none true, h, _, _, hR => by
    simp only [okSB, List.isEmpty_cons, Bool.false_eq_true, if_false, Bool.and_eq_true] at h
    simp only [fcSB, List.isEmpty_cons, Bool.false_eq_true, if_false]
    have ih := em_stmts sty keep cmts hs true (s :: rest) h.1
    have hne : fcStmts (s :: rest) ≠ [] := fcStmts_ne_nil (by simp)
    cases hM : fcStmts (s :: rest) with
    | nil => exact absurd hM hne
    | cons x xs =>
      rw [hM] at ih
      have h2 := h.2
      rw [hM] at h2
      exact splice_step sty first t (s :: rest) x xs (by simp) ih (hides_cond sty hs first x xs h2) hR

theorem em_false (sty : Style) (keep cmts : Bool) (hs : Covers sty keep cmts) : (fl : IfFalse) →
    okFalse keep cmts fl = true → visitFalse sty (fcFalse fl) = visitFalse sty fl
  | .none, _ => by simp only [fcFalse]
  | .block b, h => by
    simp only [okFalse] at h
    simp only [fcFalse, visitFalse, blk_congr (em_block sty keep cmts hs b h) (isChunk_fcBlock b)]
  | .elif _ test tr fl, h => by
    simp only [okFalse, Bool.and_eq_true] at h
    simp only [fcFalse, visitFalse, em_expr sty keep cmts hs test h.1.1,
      blk_congr (em_block sty keep cmts hs tr h.1.2) (isChunk_fcBlock tr), em_false sty keep cmts hs fl h.2]
end

/-- **The pieces of an inlined tree are the pieces of its flattening.** -/
theorem emit_flatten (sty : Style) (keep cmts : Bool) (hs : Covers sty keep cmts) (b : Block)
    (h : okBlock keep cmts b = true) : emit sty (flattenChunks b) = emit sty b := by
  unfold emit flattenChunks
  exact blk_congr (em_block sty keep cmts hs b h) (isChunk_fcBlock b)

end Tumfl.Theory
