import Tumfl.Theory.TriviaLong
import Tumfl.Theory.TriviaScan
import Tumfl.Theory.TriviaCore
import Tumfl.Theory.TriviaRef
/-!
# Trivia: long brackets, comments, and where the comments go - summary of the main theorems

The proofs live in
* `TriviaLong`  - the loop invariant of the long-bracket reader (`longBody_agree`) and `getLongBrackets_*`;
* `TriviaScan`  - the token scanners move only by `advance` (they never touch the pending comments);
* `TriviaCore`  - `skipComment` against the reference's comment branch `refComment`; the pure function `trivia`
                  (`triviaOf` = `trivia` with enough fuel); the model's `nextTokenLoop` / `getNextToken` / `lexAll` /
                  `lexText` factor through it; comment delivery;
* `TriviaRef`   - the reference's `Spec.lexLoop` / `Spec.lex` factor through it.

This file restates the results in the form of the task list, and adds non-vacuity examples.
-/
namespace Tumfl.Theory
open Tumfl.Model

/-! ## 1. long brackets agree -/

/-- For a state standing at a `[`:
(a) what the reference reads as a long bracket, the model reads with the same value and the same rest;
(b) where the reference finds the long bracket unfinished, the model raises the lexer error
    "long brackets never closed" (at the position of the `[`);
(c) where the `[` is followed by `=` or `[` but is no opener `[=*[`, the model raises the lexer error
    "Malformed long bracket" - never a Python exception, never out of fuel. -/
theorem long_brackets_agree (s : LexSt) (r : List Char) (hs : s.rest = '[' :: r) :
    (∀ lvl body v rest', Spec.longOpener s.rest = some (lvl, body) →
        Spec.longBody lvl (Spec.dropFirstNewline body) = some (v, rest') →
        ∃ s', getLongBrackets s = .ok (v, s') ∧ s'.rest = rest') ∧
    (∀ lvl body, Spec.longOpener s.rest = some (lvl, body) →
        Spec.longBody lvl (Spec.dropFirstNewline body) = none →
        getLongBrackets s = .error (.lexer "long brackets never closed" s.line s.col)) ∧
    (Spec.longOpener s.rest = none → (s.peek = some '=' ∨ s.peek = some '[') →
        ∃ l c, getLongBrackets s = .error (.lexer "Malformed long bracket" l c)) :=
  ⟨fun _ _ _ _ ho hb => getLongBrackets_agree hs ho hb,
   fun _ _ ho hb => getLongBrackets_unclosed hs ho hb,
   fun ho hpk => getLongBrackets_malformed hs ho hpk⟩

/-- consequently `getLongBrackets` succeeds exactly when the reference does, and then with the reference's result -/
theorem long_brackets_iff (s : LexSt) (r : List Char) (hs : s.rest = '[' :: r) (hpk : s.peek = some '=' ∨ s.peek = some '[')
    (v : List Char) (s' : LexSt) :
    getLongBrackets s = .ok (v, s') →
      ∃ lvl body, Spec.longOpener s.rest = some (lvl, body) ∧
        Spec.longBody lvl (Spec.dropFirstNewline body) = some (v, s'.rest) := by
  intro h
  cases ho : Spec.longOpener s.rest with
  | none =>
    obtain ⟨l, c, he⟩ := getLongBrackets_malformed hs ho hpk
    rw [he] at h; cases h
  | some p =>
    obtain ⟨lvl, body⟩ := p
    refine ⟨lvl, body, rfl, ?_⟩
    cases hb : Spec.longBody lvl (Spec.dropFirstNewline body) with
    | none => rw [getLongBrackets_unclosed hs ho hb] at h; cases h
    | some x =>
      obtain ⟨s'', h1, h2⟩ := getLongBrackets_agree hs ho (v := x.1) (rest' := x.2) hb
      rw [h1] at h
      cases h
      rw [h2]

/-! ## 2. comments agree -/

/-- For a state standing at `--`, with `refComment r` the comment branch of `Spec.lexLoop`
(`match longOpener r with | some (lvl, body) => longBody lvl body | none => some (untilNewline r)`):
(a) if the reference skips the comment as `(b, rest')`, the model's `skipComment` succeeds with the same rest and appends
    `Spec.dropFirstNewline b` to the pending comments: *the same text, except that the model drops a newline that
    directly follows the opener of a long comment and the reference keeps it* (for a short comment, and for a long
    comment whose body does not start with a newline, the texts are equal);
(b) if the reference fails (unfinished long comment), the model raises "long brackets never closed";
(c) hence one succeeds iff the other does;
(d) `_is_long_bracket` decides exactly `Spec.longOpener`. -/
theorem comments_agree (s : LexSt) (r : List Char) (hs : s.rest = '-' :: '-' :: r) :
    (∀ b rest', refComment r = some (b, rest') →
        ∃ s', skipComment s = .ok s' ∧ s'.rest = rest' ∧ s'.comments = s.comments ++ [Spec.dropFirstNewline b]) ∧
    (refComment r = none → ∃ l c, skipComment s = .error (.lexer "long brackets never closed" l c)) ∧
    ((∃ s', skipComment s = .ok s') ↔ (refComment r).isSome) ∧
    (∀ s2 : LexSt, ∀ r2, s2.rest = '[' :: r2 → (isLongBracket s2 = true ↔ (Spec.longOpener s2.rest).isSome)) :=
  ⟨fun _ _ h => skipComment_agree hs h,
   fun h => ⟨_, _, skipComment_unclosed hs h⟩,
   skipComment_ok_iff hs,
   fun _ _ h => isLongBracket_iff h⟩

/-- the comment branch of `Spec.lexLoop` really is `refComment` -/
theorem comments_reference (n f : Nat) (r : List Char) (cm : List (List Char)) :
    Spec.lexLoop n (f + 1) ('-' :: '-' :: r) cm =
      match refComment r with
      | some (b, rest) => Spec.lexLoop n f rest (b :: cm)
      | none => .error (.mk "unfinished long comment" (n - (r.length + 2))) :=
  lexLoop_comment n f r cm

/-! ## 3. comment delivery -/

/-- every pending comment, and every comment skipped in this call, goes - in order - to the delivered token; none
stays pending -/
theorem comment_delivery (cfg : LexCfg) :
    (∀ f s tok s', nextTokenLoop cfg f s = .ok (tok, s') → s'.comments = [] ∧ ∃ cs, tok.comment = s.comments ++ cs) ∧
    (∀ s tok s', getNextToken cfg s = .ok (tok, s') → s'.comments = [] ∧ ∃ cs, tok.comment = s.comments ++ cs) :=
  ⟨fun f s tok s' h => nextTokenLoop_comments f s tok s' h, fun _ _ _ h => getNextToken_comments h⟩

/-- ... and the comments skipped in this call are exactly those that `trivia` finds (normalised), the token being
delivered from `trivia`'s rest -/
theorem comment_delivery_trivia (cfg : LexCfg) (f : Nat) (s : LexSt) (tok : Token) (s' : LexSt)
    (h : nextTokenLoop cfg f s = .ok (tok, s')) :
    ∃ cms rest, triviaOf s.rest = some (cms, rest) ∧ AtToken rest ∧ tok.comment = s.comments ++ normC cms ∧
      s'.comments = [] ∧ s'.rest <:+ rest ∧ (rest = [] → tok.type = .EOF) := by
  obtain ⟨cms, s0, h1, h2, h3, h4⟩ := nextTokenLoop_trivia f s tok s' h
  obtain ⟨f1, f2, f3, f4⟩ := h4.facts
  exact ⟨cms, s0.rest, h1, h2, by rw [f1, h3], f2, f3, f4⟩

/-- both lexers, on the same text: the comment lists of their tokens are the `trivia` comments of a segmentation of
the text after the `#!` line - the model's normalised by `Spec.dropFirstNewline` -/
theorem comment_delivery_both (cfg : LexCfg) (t : List Char) :
    (∀ toks, lexText cfg t = .ok toks →
      ∃ L, Segmented (Spec.skipShebang t) L ∧ toks.map (·.comment) = L.map normC ∧
        toks.flatMap (·.comment) = normC L.flatten) ∧
    (∀ toks, Spec.lex t = .ok toks →
      ∃ L, Segmented (Spec.skipShebang t) L ∧ toks.map (·.comments) = L ∧
        toks.flatMap (·.comments) = L.flatten) := by
  constructor
  · intro toks h
    obtain ⟨L, h1, h2⟩ := lexText_segmented h
    refine ⟨L, h1, h2, ?_⟩
    rw [List.flatMap_def, h2, normC, List.map_flatten]
    rfl
  · intro toks h
    obtain ⟨L, h1, h2⟩ := lex_segmented h
    exact ⟨L, h1, h2, by rw [List.flatMap_def, h2]⟩

/-! ## non-vacuity -/

/-- the comment lists of a lexing result of the model -/
def commentsOf (r : Except PyErr (List Token)) : Option (List (List String)) :=
  match r with
  | .ok toks => some (toks.map fun tok => tok.comment.map String.ofList)
  | .error _ => none

/-- the comment lists of a lexing result of the reference -/
def refCommentsOf (r : Except Spec.LexErr (List Spec.Tok)) : Option (List (List String)) :=
  match r with
  | .ok toks => some (toks.map fun tok => tok.comments.map String.ofList)
  | .error _ => none

def exampleText : List Char := "--[==[\nlong ]] ]=] ]==] x --short\n --[[a]]--b".toList

/-- `x` gets the long comment (model: without the newline after the opener), EOF gets the other three -/
example : commentsOf (lexText {} exampleText) = some [["long ]] ]=] "], ["short", "a", "b"]] := by decide +kernel

example : refCommentsOf (Spec.lex exampleText) = some [["\nlong ]] ]=] "], ["short", "a", "b"]] := by decide +kernel

example : (triviaOf exampleText).map (fun x => (x.1.map String.ofList, String.ofList x.2)) =
    some (["\nlong ]] ]=] "], "x --short\n --[[a]]--b") := by decide +kernel

/-- an unfinished long comment -/
example : triviaOf " --[[ x ] ]".toList = none := by decide +kernel

end Tumfl.Theory
