import Tumfl.Theory.BoundarySym
/-!
# Boundary lemmas, part 4b: the finite symbol tables, decided by the kernel

The general theorems are in BoundarySym.lean (`sym_boundary` holds for every continuation); the tables
here re-check them by plain evaluation on every ordered pair of symbols and on every symbol followed
by every possible first character of a name, numeral or quoted string, and pin down the exact list of
symbol pairs that `sepRequired` lets fuse.
-/
namespace Tumfl.Theory
open Tumfl Tumfl.Spec Tumfl.Model

/-! ## the finite tables, decided by the kernel -/

/-- `sepRequired x y = .ok false` as a Boolean -/
def sepOff (x y : List Char) : Bool :=
  match sepRequired x y with
  | .ok false => true
  | _ => false

theorem sepOff_iff (x y : List Char) : sepOff x y = true ↔ sepRequired x y = .ok false := by
  unfold sepOff
  split
  · rename_i h; simp [h]
  · rename_i h
    constructor
    · intro hh; cases hh
    · intro hh; exact absurd hh h

/-- every ordered pair of symbols: when the separator is removed (and the pair is not one of the fusing
ones), the reference lexer reads exactly the first symbol and stops in front of the second -/
theorem sym_sym_table :
    ∀ x ∈ symPieces, ∀ y ∈ symPieces, sepOff x y = true → fuses x (y.headD ' ') = false →
      symAt (x ++ y) = some (String.ofList x, y) := by
  decide +kernel

/-- every symbol before every first character of a name, a numeral or a quoted string -/
theorem sym_first_table :
    ∀ x ∈ symPieces, ∀ n : Fin 128,
      (isAlnum (Char.ofNat n.val) || Char.ofNat n.val == '"' || Char.ofNat n.val == '\'') = true →
      sepOff x [Char.ofNat n.val] = true → fuses x (Char.ofNat n.val) = false →
      symAt (x ++ [Char.ofNat n.val]) = some (String.ofList x, [Char.ofNat n.val]) := by
  decide +kernel

/-- the ordered pairs of symbols for which `sepRequired` removes the separator although they fuse -/
def fusingPairs : List (List Char × List Char) :=
  (symPieces.flatMap fun x => symPieces.map fun y => (x, y)).filter fun p =>
    sepOff p.1 p.2 && fuses p.1 (p.2.headD ' ')

theorem fusingPairs_eq : fusingPairs =
    [("/", "/"), ("/", "//"), ("<", "<="), ("<", "<"), ("<", "<<"), (">", ">="), (">", ">"), (">", ">>"),
     (":", ":"), (":", "::")].map (fun p : String × String => (p.1.toList, p.2.toList)) := by
  decide +kernel

/-- the dangerous pairs of the property are all answered with "keep the separator" -/
theorem dangerous_table :
    ([("-", "-"), (".", "."), ("..", "."), (".", ".."), ("..", ".."), ("..", "..."), (">", "="), (">", "=="),
      ("<", "="), ("=", "="), ("=", "=="), ("~", "="), ("[", "["), ("[", "="), ("[", "=="),
      ("[", "[[x]]"), ("[", "[==[x]==]"), ("1", "."), ("1", ".."), ("0x1", ".."), ("1.5e3", "..")]
      : List (String × String)).all (fun p => !sepOff p.1.toList p.2.toList &&
        (match sepRequired p.1.toList p.2.toList with | .ok true => true | _ => false)) = true := by
  decide +kernel

end Tumfl.Theory
