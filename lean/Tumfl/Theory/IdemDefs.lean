import Tumfl.Spec.Parse
import Tumfl.Model.Layout
/-!
# C15 (minifying is idempotent): shared definitions

* `scan`: a four-state machine over a token-kind list that reports, for every block of the program in source order, the
  kind (`Kd`) of the token that follows the block opener (`do`, `then`, `else`, `repeat`, the `)` of a parameter list, the
  beginning of the text): a `;`, a `(`, or anything else;
* `kB` / `kS` / `kE` ..: the same list read off a reference tree (`Spec.Block`), blocks in source order;
* `cn`: the piece list without the Statement separators that directly follow (Indent / DeIndent aside) a Statement or
  Block separator or the beginning of the list;
* `formatPieces`: `Model.format` after `emit`.
-/
namespace Tumfl.Theory
open Tumfl.Model

/-! ## the block-start scanner -/

/-- what follows a block opener: a `;`, a `(`, something else -/
inductive Kd
  | S | P | O
  deriving DecidableEq, Repr

/-- scanner states: normal; directly after a block opener; after `function` (before the `(` of the parameters); inside
the parameter list -/
inductive ScSt
  | N | Pd | Fn | Pa
  deriving DecidableEq, Repr

def kindOf (k : Spec.Tk) : Kd :=
  if k = .sym ";" then .S else if k = .sym "(" then .P else .O

/-- the state after a token read in the normal state -/
def nxtN (k : Spec.Tk) : ScSt :=
  if k = .kw "do" ∨ k = .kw "then" ∨ k = .kw "else" ∨ k = .kw "repeat" then .Pd
  else if k = .kw "function" then .Fn
  else .N

def scStep : ScSt → Spec.Tk → ScSt
  | .N, k => nxtN k
  | .Pd, k => nxtN k
  | .Fn, k => if k = .sym "(" then .Pa else .Fn
  | .Pa, k => if k = .sym ")" then .Pd else .Pa

/-- the kinds of the tokens that follow the block openers, in source order; a block opener at the very end of the list is
followed by "something else" (the parser reads the end of the list as `eof`) -/
def scan : ScSt → List Spec.Tk → List Kd
  | .Pd, [] => [.O]
  | .N, [] => []
  | .Fn, [] => []
  | .Pa, [] => []
  | st, k :: r => (if st = .Pd then [kindOf k] else []) ++ scan (scStep st k) r

/-- `scan` on a reference token list -/
def sc (st : ScSt) (ts : List Spec.Tok) : List Kd := scan st (ts.map (·.tk))

/-! ## the same list read off a reference tree -/

/-- the leftmost token of a suffixed expression is `(` -/
def leftParen : Spec.Exp → Bool
  | .paren _ => true
  | .index p _ => leftParen p
  | .dot p _ => leftParen p
  | .call p _ => leftParen p
  | .mcall p _ _ => leftParen p
  | _ => false

/-- the kind of the first token of a statement -/
def headKd : Spec.Stat → Kd
  | .empty => .S
  | .call e => if leftParen e then .P else .O
  | .assign (e :: _) _ => if leftParen e then .P else .O
  | _ => .O

/-- the kind of the first token of a statement list (`return` or the closing keyword when there is no statement) -/
def firstKd : List Spec.Stat → Kd
  | s :: _ => headKd s
  | [] => .O

mutual
def kE : Spec.Exp → List Kd
  | .func _ _ body => kB body
  | .table fs => kFs fs
  | .bin _ l r => kE l ++ kE r
  | .un _ e => kE e
  | .paren e => kE e
  | .index p k => kE p ++ kE k
  | .dot p _ => kE p
  | .call f args => kE f ++ kEs args
  | .mcall f _ args => kE f ++ kEs args
  | _ => []

def kEs : List Spec.Exp → List Kd
  | [] => []
  | e :: rest => kE e ++ kEs rest

def kFs : List Spec.Field → List Kd
  | [] => []
  | f :: rest => kF f ++ kFs rest

def kF : Spec.Field → List Kd
  | .pos e => kE e
  | .named _ e => kE e
  | .keyed k e => kE k ++ kE e

/-- a block: the kind of its first token, then the blocks inside it -/
def kB : Spec.Block → List Kd
  | .mk ss ret => firstKd ss :: (kSs ss ++ (match ret with | some es => kEs es | none => []))

def kSs : List Spec.Stat → List Kd
  | [] => []
  | s :: rest => kS s ++ kSs rest

def kS : Spec.Stat → List Kd
  | .assign ts es => kEs ts ++ kEs es
  | .call e => kE e
  | .doo b => kB b
  | .whl c b => kE c ++ kB b
  | .rep b c => kB b ++ kE c
  | .iff c t elifs els => kE c ++ kB t ++ kElifs elifs ++ kOptB els
  | .fornum _ a b s body => kE a ++ kE b ++ (match s with | some s => kE s | none => []) ++ kB body
  | .forin _ es body => kEs es ++ kB body
  | .func _ _ _ _ body => kB body
  | .localfunc _ _ _ body => kB body
  | .locl _ es => kEs es
  | _ => []

def kElifs : List Spec.ElseIf → List Kd
  | [] => []
  | .mk c b :: rest => kE c ++ kB b ++ kElifs rest

def kOptB : Option Spec.Block → List Kd
  | some b => kB b
  | none => []
end

/-! ## superfluous Statement separators -/

/-- `cn d ps`: `ps` without every Statement separator whose nearest preceding piece other than Indent / DeIndent is a
Statement or Block separator; `d` says that this is the case at the beginning of `ps` (`d = true` at the beginning of the
whole list) -/
def cn : Bool → Pieces → Pieces
  | _, [] => []
  | d, p :: r =>
    if p = .sep .statement then (if d then cn true r else p :: cn true r)
    else if p = .sep .block then p :: cn true r
    else if p = .sep .indent ∨ p = .sep .deindent then p :: cn d r
    else p :: cn false r

/-- the state of `cn` after a piece list -/
def cnSt : Bool → Pieces → Bool
  | d, [] => d
  | d, p :: r =>
    if p = .sep .statement then cnSt true r
    else if p = .sep .block then cnSt true r
    else if p = .sep .indent ∨ p = .sep .deindent then cnSt d r
    else cnSt false r

/-! ## `format` after `emit` -/

def formatPieces (sty : Style) (ts0 : Pieces) : R (List Char) := do
  let ts1 ← (if sty.removeUnnecessaryChars then removeSeparators ts0 else .ok ts0)
  let ts2 ← (if sty.lineWidth > 0 then indentBrackets ts1 sty else .ok ts1)
  let ts3 ← (if sty.blockSpacer > 0 then addSpacing ts2 sty else .ok ts2)
  let ts4 := .str ("--".toList ++ sty.commentSep ++ "tumfl".toList) :: S .newline :: ts3
  let ts5 := removeOrphaned ts4
  let ts6 ← resolveTokens sty ts5
  let ts7 ← indentLoop sty.indentation ts6 0 false
  let ending := if sty.removeUnnecessaryChars then [] else sty.statementSeparator
  let formatted := joinTokens ts7
  let lines := (splitOnNewline formatted).map pyRstrip
  .ok (pyStripAll (lines.intersperse ['\n']).flatten ++ ending)

theorem format_eq_formatPieces (sty : Style) (b : Block) : format sty b = formatPieces sty (emit sty b) := rfl

end Tumfl.Theory
