import Tumfl.Theory.Prec
import Tumfl.Model.Brackets
/-!
# Printer soundness for operator trees (core of C11)

`T` is tumfl's view of an expression (no parenthesis node), `par d t` says where `visit_BinOp` /
`visit_UnOp` put brackets according to a decision record `d`.  `Dec.sound` is a *decidable*,
kind-level condition on `d`; `par_ok` shows it makes every printed tree precedence-correct, and
`print_roundtrip` that Lua's algorithm re-reads the printed tokens as exactly that tree, whose
paren-erasure is the original.  `Inst/Brackets.lean` decides `Dec.sound` for the table extracted
from the real formatter, for all 8 option sets.
-/
set_option linter.unusedSimpArgs false
namespace Tumfl.Theory
open Tumfl.Spec Tumfl.Model

def allOps : List BOp := BOp.all
theorem allOps_complete (o : BOp) : o ∈ allOps := by cases o <;> simp [allOps, BOp.all]
def allUOps : List UOp := UOp.all
theorem allUOps_complete (u : UOp) : u ∈ allUOps := by cases u <;> simp [allUOps, UOp.all]

/-- tumfl-style AST: no paren node -/
inductive T
  | atom (n : Nat) | un (u : UOp) (e : T) | bin (o : BOp) (l r : T)
  deriving DecidableEq, Repr

def T.kind : T → K
  | .atom _ => .atom | .un u _ => .un u | .bin o _ _ => .bin o

@[simp] theorem kind_atom (n) : (T.atom n).kind = .atom := rfl
@[simp] theorem kind_un (u e) : (T.un u e).kind = .un u := rfl
@[simp] theorem kind_bin (o l r) : (T.bin o l r).kind = .bin o := rfl

/-- bracket decisions: parameters of the theorem (instantiated with the extracted table) -/
structure Dec where
  needL : BOp → K → Bool
  needR : BOp → K → Bool
  needU : UOp → K → Bool

def wrap (b : Bool) (e : E) : E := if b then .paren e else e
@[simp] theorem wrap_true (e : E) : wrap true e = .paren e := rfl
@[simp] theorem wrap_false (e : E) : wrap false e = e := rfl

/-- model of visit_BinOp / visit_UnOp at the tree level: where brackets go -/
def par (d : Dec) : T → E
  | .atom n => .atom n
  | .un u e => .un u (wrap (d.needU u e.kind) (par d e))
  | .bin o l r => .bin o (wrap (d.needL o l.kind) (par d l)) (wrap (d.needR o r.kind) (par d r))

def strip : E → T
  | .atom n => .atom n
  | .paren e => strip e
  | .un u e => .un u (strip e)
  | .bin o l r => .bin o (strip l) (strip r)

theorem strip_wrap (b : Bool) (e : E) : strip (wrap b e) = strip e := by cases b <;> simp [strip]
theorem strip_par (d : Dec) (t : T) : strip (par d t) = t := by
  induction t with
  | atom n => rfl
  | un u e ih => simp [par, strip, strip_wrap, ih]
  | bin o l r ihl ihr => simp [par, strip, strip_wrap, ihl, ihr]

def lowK : K → Nat | .bin o => lp o | _ => 100
def capK : K → Nat | .atom => 100 | .un _ => UPRI | .bin o => min (rp o) UPRI

/-- decidable, kind-level soundness of a decision table -/
def Dec.sound (d : Dec) : Bool :=
  (allOps.all fun o =>
    (allUOps.all fun u => d.needL o (.un u) || decide (lp o ≤ UPRI)) &&
    allOps.all fun o2 =>
      (d.needL o (.bin o2) || (decide (lp o ≤ lp o2) && decide (lp o ≤ capK (.bin o2)))) &&
      (d.needR o (.bin o2) || decide (rp o < lp o2))) &&
  (allUOps.all fun u => allOps.all fun o2 => d.needU u (.bin o2) || decide (UPRI < lp o2))

theorem table_facts : ∀ o, lp o ≤ rp o + 1 ∧ 1 ≤ lp o ∧ lp o ≤ 100 ∧ rp o + 1 ≤ 100 := by
  intro o; cases o <;> simp [lp, rp]

theorem low_par (d : Dec) (t : T) : low (par d t) = lowK t.kind := by
  cases t <;> simp [par, low, lowK, kind_atom, kind_un, kind_bin]

theorem Dec.sound_spec {d : Dec} (h : d.sound = true) :
    (∀ o u, d.needL o (.un u) = false → lp o ≤ UPRI) ∧
    (∀ o o2, d.needL o (.bin o2) = false → lp o ≤ lp o2 ∧ lp o ≤ min (rp o2) UPRI) ∧
    (∀ o o2, d.needR o (.bin o2) = false → rp o < lp o2) ∧
    (∀ u o2, d.needU u (.bin o2) = false → UPRI < lp o2) := by
  simp only [Dec.sound, Bool.and_eq_true, List.all_eq_true, Bool.or_eq_true, decide_eq_true_eq, capK] at h
  obtain ⟨h1, h2⟩ := h
  refine ⟨?_, ?_, ?_, ?_⟩
  · intro o u hn
    have := (h1 o (allOps_complete o)).1 u (allUOps_complete u)
    rw [hn] at this; simpa using this
  · intro o o2 hn
    have := ((h1 o (allOps_complete o)).2 o2 (allOps_complete o2)).1
    rw [hn] at this; simp at this; exact ⟨this.1, of_decide_eq_true this.2⟩
  · intro o o2 hn
    have := ((h1 o (allOps_complete o)).2 o2 (allOps_complete o2)).2
    rw [hn] at this; simpa using this
  · intro u o2 hn
    have := h2 u (allUOps_complete u) o2 (allOps_complete o2)
    rw [hn] at this; simpa using this

/-- a child slot is fine at threshold `lo`/`cp` if it is wrapped or its kind passes -/
theorem wrap_ok (b : Bool) (e : E) (lo cp : Nat) (hlo : lo ≤ 100) (hcp : cp ≤ 100)
    (h : b = false → lo ≤ low e ∧ cp ≤ cap e) : lo ≤ low (wrap b e) ∧ cp ≤ cap (wrap b e) := by
  cases b with
  | true => simp [low, cap, hlo, hcp]
  | false => simpa using h rfl
theorem PrecOK_wrap (b : Bool) (e : E) (h : PrecOK e) : PrecOK (wrap b e) := by cases b <;> simpa [PrecOK] using h

theorem par_ok (d : Dec) (hs : d.sound = true) (t : T) : PrecOK (par d t) ∧ capK t.kind ≤ cap (par d t) := by
  obtain ⟨sLu, sLb, sRb, sUb⟩ := Dec.sound_spec hs
  induction t with
  | atom n => simp [par, PrecOK, cap, capK, kind_atom, kind_un, kind_bin]
  | un u e ih =>
    obtain ⟨ihok, ihcap⟩ := ih
    have key : UPRI + 1 ≤ low (wrap (d.needU u e.kind) (par d e)) ∧ UPRI ≤ cap (wrap (d.needU u e.kind) (par d e)) := by
      apply wrap_ok _ _ _ _ (by simp [UPRI]) (by simp [UPRI])
      intro hn
      rw [low_par]
      cases e with
      | atom _ => simp [kind_atom, kind_un, kind_bin, lowK, par, cap, UPRI]
      | un _ _ => simp only [kind_atom, kind_un, kind_bin, capK, lowK] at ihcap ⊢; simp only [UPRI] at *; omega
      | bin o2 _ _ =>
        have := sUb u o2 hn; have tf := table_facts o2
        simp only [kind_atom, kind_un, kind_bin, capK, lowK] at ihcap ⊢; simp only [UPRI] at *; omega
    refine ⟨?_, ?_⟩
    · simp only [par, PrecOK]; exact ⟨by omega, PrecOK_wrap _ _ ihok⟩
    · simp only [par, cap, capK, kind_atom, kind_un, kind_bin]; omega
  | bin o l r ihl ihr =>
    obtain ⟨okl, capl⟩ := ihl
    obtain ⟨okr, capr⟩ := ihr
    have tfo := table_facts o
    have keyL : lp o ≤ low (wrap (d.needL o l.kind) (par d l)) ∧ lp o ≤ cap (wrap (d.needL o l.kind) (par d l)) := by
      apply wrap_ok _ _ _ _ (by omega) (by omega)
      intro hn
      rw [low_par]
      cases l with
      | atom _ => simp only [kind_atom, kind_un, kind_bin, lowK, par, cap]; omega
      | un u' _ => have := sLu o u' hn; simp only [kind_atom, kind_un, kind_bin, capK, lowK] at capl ⊢; omega
      | bin o2 _ _ => have := sLb o o2 hn; simp only [kind_atom, kind_un, kind_bin, capK, lowK] at capl ⊢; omega
    have keyR : rp o + 1 ≤ low (wrap (d.needR o r.kind) (par d r)) ∧ min (rp o) UPRI ≤ cap (wrap (d.needR o r.kind) (par d r)) := by
      apply wrap_ok _ _ _ _ (by omega) (by simp only [UPRI]; omega)
      intro hn
      rw [low_par]
      cases r with
      | atom _ => simp only [kind_atom, kind_un, kind_bin, lowK, par, cap, UPRI]; omega
      | un _ _ => simp only [kind_atom, kind_un, kind_bin, capK, lowK] at capr ⊢; simp only [UPRI] at *; omega
      | bin o2 _ _ =>
        have := sRb o o2 hn; have tf := table_facts o2
        simp only [kind_atom, kind_un, kind_bin, capK, lowK] at capr ⊢; simp only [UPRI] at *; omega
    refine ⟨?_, ?_⟩
    · simp only [par, PrecOK]
      exact ⟨keyL.1, keyL.2, by omega, PrecOK_wrap _ _ okl, PrecOK_wrap _ _ okr⟩
    · simp only [par, cap, capK, kind_atom, kind_un, kind_bin]; omega

/-- C11 core: under a sound table, what is printed re-reads (by Lua's algorithm) as exactly the printed tree,
    whose paren-erasure is the original tree. -/
theorem print_roundtrip (d : Dec) (hs : d.sound = true) (t : T) :
    ∃ f, subexpr f 0 (yld (par d t)) = some (par d t, []) ∧ strip (par d t) = t :=
  let ⟨f, hf⟩ := climb_complete_top _ (par_ok d hs t).1
  ⟨f, hf, strip_par d t⟩


end Tumfl.Theory
