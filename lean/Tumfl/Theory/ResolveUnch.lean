import Tumfl.Theory.ResolveSpec
/-!
# Dependency resolver: look-alikes are left untouched

A tree that contains no call of the bare name `require` is returned unchanged, and the `found` table is not touched.
-/
namespace Tumfl.Theory
open Tumfl.Model

set_option hygiene false in
macro "unch_side" : tactic => `(tactic|
  simp_all [mentionsRequireExpr, mentionsRequireExprs, mentionsRequireOptExpr, mentionsRequireOptExprs,
    mentionsRequireField, mentionsRequireFields, mentionsRequireStmt, mentionsRequireStmts, mentionsRequireFalse,
    mentionsRequireBlock])

set_option hygiene false in
macro "unch_steps" : tactic => `(tactic|
  repeat (first
    | exact Unch.pure
    | refine Unch.bind (ihE _ _ (by unch_side)) ?_
    | refine Unch.bind (ihEs _ _ (by unch_side)) ?_
    | refine Unch.bind (ihFs _ _ (by unch_side)) ?_
    | refine Unch.bind (ihB _ _ (by unch_side)) ?_
    | refine Unch.bind (ihSs _ _ (by unch_side)) ?_
    | refine Unch.bind (ihO _ _ (by unch_side)) ?_
    | refine Unch.bind (ihS _ _ (by unch_side)) ?_
    | refine Unch.bind (ihF _ _ (by unch_side)) ?_))

theorem resolve_unch (fs : FS) (sp : List Path) : ∀ f : Nat,
    (∀ dir e, mentionsRequireExpr e = false → Unch (resolveExpr fs sp f dir e) e) ∧
    (∀ dir es, mentionsRequireExprs es = false → Unch (resolveExprs fs sp f dir es) es) ∧
    (∀ dir fds, mentionsRequireFields fds = false → Unch (resolveFields fs sp f dir fds) fds) ∧
    (∀ dir b, mentionsRequireBlock b = false → Unch (resolveBlock fs sp f dir b) b) ∧
    (∀ dir ss, mentionsRequireStmts ss = false → Unch (resolveStmts fs sp f dir ss) ss) ∧
    (∀ dir o, mentionsRequireOptExpr o = false → Unch (resolveOptExpr fs sp f dir o) o) ∧
    (∀ dir s, mentionsRequireStmt s = false → Unch (resolveStmt fs sp f dir s) s) ∧
    (∀ dir fl, mentionsRequireFalse fl = false → Unch (resolveFalse fs sp f dir fl) fl) := by
  intro f
  induction f with
  | zero =>
    refine ⟨?_, ?_, ?_, ?_, ?_, ?_, ?_, ?_⟩ <;> intro dir x _
    · rw [resolveExpr]; exact Unch.rfuel
    · rw [resolveExprs]; exact Unch.rfuel
    · rw [resolveFields]; exact Unch.rfuel
    · rw [resolveBlock]; exact Unch.rfuel
    · rw [resolveStmts]; exact Unch.rfuel
    · rw [resolveOptExpr]; exact Unch.rfuel
    · rw [resolveStmt]; exact Unch.rfuel
    · rw [resolveFalse]; exact Unch.rfuel
  | succ f ih =>
    obtain ⟨ihE, ihEs, ihFs, ihB, ihSs, ihO, ihS, ihF⟩ := ih
    refine ⟨?_, ?_, ?_, ?_, ?_, ?_, ?_, ?_⟩
    · intro dir e hm
      cases e <;> simp only [resolveExpr]
      all_goals try (unch_steps; done)
      rename_i t fn args
      have hreq : isRequireName fn = false := by unch_side
      simp only [hreq, Bool.false_eq_true, if_false]
      unch_steps
    · intro dir es hm
      cases es <;> simp only [resolveExprs] <;> unch_steps
    · intro dir fds hm
      cases fds with
      | nil => simp only [resolveFields]; unch_steps
      | cons fd rest =>
        simp only [resolveFields]
        refine Unch.bind (a := fd) ?_ ?_
        · cases fd <;> simp only <;> unch_steps
        · unch_steps
    · intro dir b hm
      obtain ⟨t, ss, rs, c⟩ := b
      simp only [resolveBlock]
      refine Unch.bind (ihSs _ _ (by unch_side)) ?_
      refine Unch.bind (a := rs) ?_ ?_
      · cases rs <;> simp only <;> unch_steps
      · unch_steps
    · intro dir ss hm
      cases ss <;> simp only [resolveStmts] <;> unch_steps
    · intro dir o hm
      cases o <;> simp only [resolveOptExpr] <;> unch_steps
    · intro dir s hm
      cases s <;> simp only [resolveStmt]
      all_goals try (unch_steps; done)
      · rename_i t fn args
        have hreq : isRequireName fn = false := by unch_side
        simp only [hreq, Bool.false_eq_true, if_false]
        unch_steps
      · rename_i t ns es
        refine Unch.bind (a := es) ?_ ?_
        · cases es <;> simp only <;> unch_steps
        · unch_steps
    · intro dir fl hm
      cases fl <;> simp only [resolveFalse] <;> unch_steps
