import Tumfl.Model.Tree
/-!
# Theory of the generic AST model (`Model/Tree.lean`)

* `eqG_eq_beq`: if every atom and slot name of every node is among the attributes `__eq__` compares
  (`covered cmp`), the attribute-scan equality `eqG cmp` *is* structural equality `GT.beq`, which in turn is
  propositional equality on `GT` (`GT.beq_iff_eq`).  `eqG_not_structural` shows the hypothesis is needed.
* `links_eq_allEdges`: if the scan reaches every child slot (`slotsIn scan`), the parent links set by `parent()`
  are exactly the child->parent edges of the tree; read with `scan := walked` it says the generic walker visits
  every node below the root exactly once.
* `allEdges_nodup`: every child path occurs exactly once among the edges, and `allEdges_parent`: the parent of a
  path is that path without its last step - the edges form a proper tree.
-/
namespace Tumfl.Theory
open Tumfl.Model

/-! ## 1. attribute-scan equality = structural equality = propositional equality -/

mutual
/-- every atom name and every slot name of every node (recursively) is in `cmp cls` -/
def covered (cmp : String → List String) : GT → Bool
  | .mk c atoms kids => (atoms.all fun p => (cmp c).contains p.1) && coveredSlots cmp (cmp c) kids
def coveredSlots (cmp : String → List String) (attrs : List String) : List (String × List GT) → Bool
  | [] => true
  | (n, ts) :: rest => attrs.contains n && coveredList cmp ts && coveredSlots cmp attrs rest
def coveredList (cmp : String → List String) : List GT → Bool
  | [] => true
  | t :: rest => covered cmp t && coveredList cmp rest
end

/-- filtering by a predicate that holds of every element is the identity -/
theorem filter_all_self {α} (p : α → Bool) (l : List α) (h : l.all p = true) : l.filter p = l := by
  induction l with
  | nil => rfl
  | cons x r ih =>
    simp only [List.all_cons, Bool.and_eq_true] at h
    simp [h.1, ih h.2]

/-- under coverage of the left atoms, the name comparison and the filtered comparison collapse to `==` -/
theorem atoms_cmp (L : List String) (a1 a2 : List (String × String))
    (h : (a1.all fun p => L.contains p.1) = true) :
    ((a1.map (·.1) == a2.map (·.1)) &&
      ((a1.filter fun p => L.contains p.1) == (a2.filter fun p => L.contains p.1))) = (a1 == a2) := by
  rw [filter_all_self _ _ h]
  cases hn : (a1.map (·.1) == a2.map (·.1))
  · -- names differ, hence the lists differ
    simp only [Bool.false_and]
    symm
    apply Bool.eq_false_iff.mpr
    intro he
    have : a1 = a2 := by simpa using he
    subst this
    simp at hn
  · have hn' : a1.map (·.1) = a2.map (·.1) := by simpa using hn
    have h2 : (a2.all fun p => L.contains p.1) = true := by
      have e1 : (a1.all fun p => L.contains p.1) = (a1.map (·.1)).all fun n => L.contains n := by
        rw [List.all_map]; rfl
      have e2 : (a2.all fun p => L.contains p.1) = (a2.map (·.1)).all fun n => L.contains n := by
        rw [List.all_map]; rfl
      rw [e2, ← hn', ← e1]; exact h
    rw [filter_all_self _ _ h2]
    simp

mutual
theorem eqG_eq_beq (cmp : String → List String) (a b : GT) (h : covered cmp a = true) :
    eqG cmp a b = GT.beq a b := by
  match a, b with
  | .mk c1 a1 k1, .mk c2 a2 k2 =>
    simp only [covered, Bool.and_eq_true] at h
    simp only [eqG, GT.beq]
    rw [eqSlots_eq_beqSlots cmp (cmp c1) k1 k2 h.2, Bool.and_assoc (c1 == c2), atoms_cmp _ _ _ h.1]
theorem eqSlots_eq_beqSlots (cmp : String → List String) (attrs : List String)
    (k1 k2 : List (String × List GT)) (h : coveredSlots cmp attrs k1 = true) :
    eqSlots cmp attrs k1 k2 = beqSlots k1 k2 := by
  match k1, k2 with
  | [], [] => simp [eqSlots, beqSlots]
  | [], _ :: _ => simp [eqSlots, beqSlots]
  | _ :: _, [] => simp [eqSlots, beqSlots]
  | (n1, ts1) :: r1, (n2, ts2) :: r2 =>
    simp only [coveredSlots, Bool.and_eq_true] at h
    simp only [eqSlots, beqSlots, h.1.1, if_true]
    rw [eqListG_eq_beqList cmp ts1 ts2 h.1.2, eqSlots_eq_beqSlots cmp attrs r1 r2 h.2]
theorem eqListG_eq_beqList (cmp : String → List String) (l1 l2 : List GT)
    (h : coveredList cmp l1 = true) : eqListG cmp l1 l2 = beqList l1 l2 := by
  match l1, l2 with
  | [], [] => simp [eqListG, beqList]
  | [], _ :: _ => simp [eqListG, beqList]
  | _ :: _, [] => simp [eqListG, beqList]
  | t1 :: r1, t2 :: r2 =>
    simp only [coveredList, Bool.and_eq_true] at h
    simp only [eqListG, beqList]
    rw [eqG_eq_beq cmp t1 t2 h.1, eqListG_eq_beqList cmp r1 r2 h.2]
end

/-! `GT.beq` is propositional equality (no `DecidableEq` is derived for the nested inductive) -/

mutual
theorem GT.beq_refl (a : GT) : GT.beq a a = true := by
  match a with
  | .mk c a k => simp [GT.beq, beqSlots_refl k]
theorem beqSlots_refl (k : List (String × List GT)) : beqSlots k k = true := by
  match k with
  | [] => simp [beqSlots]
  | (n, ts) :: r => simp [beqSlots, beqList_refl ts, beqSlots_refl r]
theorem beqList_refl (l : List GT) : beqList l l = true := by
  match l with
  | [] => simp [beqList]
  | t :: r => simp [beqList, GT.beq_refl t, beqList_refl r]
end

mutual
theorem GT.eq_of_beq (a b : GT) (h : GT.beq a b = true) : a = b := by
  match a, b with
  | .mk c1 a1 k1, .mk c2 a2 k2 =>
    simp only [GT.beq, Bool.and_eq_true, beq_iff_eq] at h
    rw [h.1.1, h.1.2, eq_of_beqSlots k1 k2 h.2]
theorem eq_of_beqSlots (k1 k2 : List (String × List GT)) (h : beqSlots k1 k2 = true) : k1 = k2 := by
  match k1, k2 with
  | [], [] => rfl
  | [], _ :: _ => simp [beqSlots] at h
  | _ :: _, [] => simp [beqSlots] at h
  | (n1, ts1) :: r1, (n2, ts2) :: r2 =>
    simp only [beqSlots, Bool.and_eq_true, beq_iff_eq] at h
    rw [h.1.1, eq_of_beqList ts1 ts2 h.1.2, eq_of_beqSlots r1 r2 h.2]
theorem eq_of_beqList (l1 l2 : List GT) (h : beqList l1 l2 = true) : l1 = l2 := by
  match l1, l2 with
  | [], [] => rfl
  | [], _ :: _ => simp [beqList] at h
  | _ :: _, [] => simp [beqList] at h
  | t1 :: r1, t2 :: r2 =>
    simp only [beqList, Bool.and_eq_true] at h
    rw [GT.eq_of_beq t1 t2 h.1, eq_of_beqList r1 r2 h.2]
end

/-- structural equality is equality -/
theorem GT.beq_iff_eq (a b : GT) : GT.beq a b = true ↔ a = b :=
  ⟨GT.eq_of_beq a b, fun h => h ▸ GT.beq_refl a⟩

theorem eqG_iff_beq (cmp : String → List String) (a b : GT) (h : covered cmp a = true) :
    eqG cmp a b = true ↔ GT.beq a b = true := by
  rw [eqG_eq_beq cmp a b h]

/-- **AST equality is exactly structural equality** (for trees whose attributes the scan covers) -/
theorem eqG_iff_eq (cmp : String → List String) (a b : GT) (h : covered cmp a = true) :
    eqG cmp a b = true ↔ a = b := by
  rw [eqG_eq_beq cmp a b h]; exact GT.beq_iff_eq a b

/-! Negative example: the coverage hypothesis matters.  An `__eq__` that does not scan the slot `right`
(and likewise one that skips the atom `op`) identifies different trees. -/

def cmpNoRight : String → List String := fun _ => ["name", "op", "left"]
def leafX : GT := .mk "Name" [("name", "Name"), ("variable_name", "x")] []
def leafY : GT := .mk "Name" [("name", "Name"), ("variable_name", "y")] []
def exA : GT := .mk "BinOp" [("name", "BinOp"), ("op", "+")] [("left", [leafX]), ("right", [leafX])]
def exB : GT := .mk "BinOp" [("name", "BinOp"), ("op", "+")] [("left", [leafX]), ("right", [leafY])]

/-- a scan omitting the child slot `right`: equal by `__eq__`, structurally different, and indeed not covered -/
theorem eqG_not_structural :
    eqG cmpNoRight exA exB = true ∧ GT.beq exA exB = false ∧ exA ≠ exB ∧ covered cmpNoRight exA = false := by
  have h1 : eqG cmpNoRight exA exB = true := by decide
  have h2 : GT.beq exA exB = false := by decide
  have h3 : covered cmpNoRight exA = false := by decide
  refine ⟨h1, h2, ?_, h3⟩
  intro he
  have := (GT.beq_iff_eq exA exB).mpr he
  rw [h2] at this; exact Bool.noConfusion this

/-- a scan omitting the atom `variable_name`: the two different leaves compare equal -/
theorem eqG_not_structural_atom :
    eqG (fun _ => ["name"]) leafX leafY = true ∧ GT.beq leafX leafY = false := by
  constructor <;> decide

/-! ## 2. parent links = tree edges; the edges form a proper tree -/

mutual
theorem links_eq_allEdges (scan : String → List String) (here : NodePath) (t : GT)
    (h : slotsIn scan t = true) : links scan here t = allEdges here t := by
  match t with
  | .mk c a kids =>
    simp only [slotsIn] at h
    simp only [links, allEdges]
    exact linksSlots_eq_edgesSlots scan (scan c) here 0 kids h
theorem linksSlots_eq_edgesSlots (scan : String → List String) (attrs : List String) (here : NodePath)
    (i : Nat) (kids : List (String × List GT)) (h : slotsInSlots scan attrs kids = true) :
    linksSlots scan attrs here i kids = edgesSlots here i kids := by
  match kids with
  | [] => simp [linksSlots, edgesSlots]
  | (n, ts) :: rest =>
    simp only [slotsInSlots, Bool.and_eq_true] at h
    simp only [linksSlots, edgesSlots, h.1.1, if_true]
    rw [linksList_eq_edgesList scan here i 0 ts h.1.2,
      linksSlots_eq_edgesSlots scan attrs here (i + 1) rest h.2]
theorem linksList_eq_edgesList (scan : String → List String) (here : NodePath) (i j : Nat)
    (ts : List GT) (h : slotsInList scan ts = true) :
    linksList scan here i j ts = edgesList here i j ts := by
  match ts with
  | [] => simp [linksList, edgesList]
  | t :: rest =>
    simp only [slotsInList, Bool.and_eq_true] at h
    simp only [linksList, edgesList]
    rw [links_eq_allEdges scan (here ++ [(i, j)]) t h.1,
      linksList_eq_edgesList scan here i (j + 1) rest h.2]
end

/-! ### every child path occurs exactly once

Shape of the child paths: below `here`, first step `(slot, index)` with the slot index at least the current
slot counter, resp. the child index at least the current child counter.  Distinctness follows because sibling
indices differ and descendants' paths are strictly longer. -/

/-- the child paths of an edge list -/
abbrev childPaths (es : List (NodePath × NodePath)) : List NodePath := es.map (·.1)

mutual
theorem mem_allEdges (here : NodePath) (t : GT) (p : NodePath) (h : p ∈ childPaths (allEdges here t)) :
    ∃ i j rest, p = here ++ (i, j) :: rest := by
  match t with
  | .mk c a kids =>
    simp only [allEdges] at h
    obtain ⟨i, j, rest, _, e⟩ := mem_edgesSlots here 0 kids p h
    exact ⟨i, j, rest, e⟩
theorem mem_edgesSlots (here : NodePath) (i : Nat) (kids : List (String × List GT)) (p : NodePath)
    (h : p ∈ childPaths (edgesSlots here i kids)) : ∃ i' j rest, i ≤ i' ∧ p = here ++ (i', j) :: rest := by
  match kids with
  | [] => simp [edgesSlots] at h
  | (n, ts) :: r =>
    simp only [edgesSlots, childPaths, List.map_append, List.mem_append] at h
    rcases h with h | h
    · obtain ⟨j, rest, _, e⟩ := mem_edgesList here i 0 ts p h
      exact ⟨i, j, rest, Nat.le_refl _, e⟩
    · obtain ⟨i', j, rest, hi, e⟩ := mem_edgesSlots here (i + 1) r p h
      exact ⟨i', j, rest, by omega, e⟩
theorem mem_edgesList (here : NodePath) (i j : Nat) (ts : List GT) (p : NodePath)
    (h : p ∈ childPaths (edgesList here i j ts)) : ∃ j' rest, j ≤ j' ∧ p = here ++ (i, j') :: rest := by
  match ts with
  | [] => simp [edgesList] at h
  | t :: r =>
    simp only [edgesList, childPaths, List.map_cons, List.map_append, List.mem_cons, List.mem_append] at h
    rcases h with (h | h) | h
    · exact ⟨j, [], Nat.le_refl _, h⟩
    · obtain ⟨i2, j2, rest, e⟩ := mem_allEdges (here ++ [(i, j)]) t p h
      exact ⟨j, (i2, j2) :: rest, Nat.le_refl _, by simpa using e⟩
    · obtain ⟨j', rest, hj, e⟩ := mem_edgesList here i (j + 1) r p h
      exact ⟨j', rest, by omega, e⟩
end

mutual
theorem allEdges_nodup (here : NodePath) (t : GT) : (childPaths (allEdges here t)).Nodup := by
  match t with
  | .mk c a kids => simp only [allEdges]; exact edgesSlots_nodup here 0 kids
theorem edgesSlots_nodup (here : NodePath) (i : Nat) (kids : List (String × List GT)) :
    (childPaths (edgesSlots here i kids)).Nodup := by
  match kids with
  | [] => simp [edgesSlots]
  | (n, ts) :: r =>
    simp only [edgesSlots, childPaths, List.map_append]
    refine List.nodup_append.mpr ⟨edgesList_nodup here i 0 ts, edgesSlots_nodup here (i + 1) r, ?_⟩
    intro p hp q hq e
    obtain ⟨j, r1, _, e1⟩ := mem_edgesList here i 0 ts p hp
    obtain ⟨i', j', r2, hi, e2⟩ := mem_edgesSlots here (i + 1) r q hq
    rw [e1, e2] at e
    have := List.append_cancel_left e
    simp only [List.cons.injEq, Prod.mk.injEq] at this
    omega
theorem edgesList_nodup (here : NodePath) (i j : Nat) (ts : List GT) :
    (childPaths (edgesList here i j ts)).Nodup := by
  match ts with
  | [] => simp [edgesList]
  | t :: r =>
    simp only [edgesList, childPaths, List.map_cons, List.map_append, List.cons_append]
    refine List.nodup_cons.mpr ⟨?_, List.nodup_append.mpr
      ⟨allEdges_nodup (here ++ [(i, j)]) t, edgesList_nodup here i (j + 1) r, ?_⟩⟩
    · intro hm
      rcases List.mem_append.mp hm with hm | hm
      · obtain ⟨i2, j2, rest, e⟩ := mem_allEdges (here ++ [(i, j)]) t _ hm
        have := congrArg List.length e
        simp at this
      · obtain ⟨j', rest, hj, e⟩ := mem_edgesList here i (j + 1) r _ hm
        have := List.append_cancel_left e
        simp only [List.cons.injEq, Prod.mk.injEq] at this
        omega
    · intro p hp q hq e
      obtain ⟨i2, j2, r1, e1⟩ := mem_allEdges (here ++ [(i, j)]) t p hp
      obtain ⟨j', r2, hj, e2⟩ := mem_edgesList here i (j + 1) r q hq
      rw [e1, e2, List.append_assoc] at e
      have := List.append_cancel_left e
      simp only [List.singleton_append, List.cons.injEq, Prod.mk.injEq] at this
      omega
end

/-! ### the parent of a node is the node's path without its last step -/

mutual
theorem allEdges_parent (here : NodePath) (t : GT) (e : NodePath × NodePath) (h : e ∈ allEdges here t) :
    ∃ ij, e.1 = e.2 ++ [ij] := by
  match t with
  | .mk c a kids => simp only [allEdges] at h; exact edgesSlots_parent here 0 kids e h
theorem edgesSlots_parent (here : NodePath) (i : Nat) (kids : List (String × List GT))
    (e : NodePath × NodePath) (h : e ∈ edgesSlots here i kids) : ∃ ij, e.1 = e.2 ++ [ij] := by
  match kids with
  | [] => simp [edgesSlots] at h
  | (n, ts) :: r =>
    simp only [edgesSlots, List.mem_append] at h
    rcases h with h | h
    · exact edgesList_parent here i 0 ts e h
    · exact edgesSlots_parent here (i + 1) r e h
theorem edgesList_parent (here : NodePath) (i j : Nat) (ts : List GT)
    (e : NodePath × NodePath) (h : e ∈ edgesList here i j ts) : ∃ ij, e.1 = e.2 ++ [ij] := by
  match ts with
  | [] => simp [edgesList] at h
  | t :: r =>
    simp only [edgesList, List.mem_cons, List.mem_append] at h
    rcases h with (h | h) | h
    · exact ⟨(i, j), by rw [h]⟩
    · exact allEdges_parent (here ++ [(i, j)]) t e h
    · exact edgesList_parent here i (j + 1) r e h
end

/-- **parent links form a proper tree**: under full scan coverage every node below the root gets exactly one
link (its path occurs once among the link sources), and it points to its parent -/
theorem links_proper_tree (scan : String → List String) (here : NodePath) (t : GT)
    (h : slotsIn scan t = true) :
    links scan here t = allEdges here t ∧ (childPaths (links scan here t)).Nodup ∧
      ∀ e ∈ links scan here t, ∃ ij, e.1 = e.2 ++ [ij] := by
  rw [links_eq_allEdges scan here t h]
  exact ⟨rfl, allEdges_nodup here t, allEdges_parent here t⟩

end Tumfl.Theory
