import Tumfl.Theory.ParserSimTok
/-!
# The reference token kind of every model token type with a fixed spelling, as instances (so that the
rules of the simulation calculus find it by unification)
-/
namespace Tumfl.Theory
open Tumfl.Model Tumfl.Spec

class FixedTT (ty : TT) (k0 : outParam Tk) : Prop where
  eq : tkOfTT ty = some k0

instance : FixedTT .EOF .eof := ⟨by decide⟩
instance : FixedTT .AND (.kw "and") := ⟨by decide⟩
instance : FixedTT .BREAK (.kw "break") := ⟨by decide⟩
instance : FixedTT .DO (.kw "do") := ⟨by decide⟩
instance : FixedTT .ELSE (.kw "else") := ⟨by decide⟩
instance : FixedTT .ELSEIF (.kw "elseif") := ⟨by decide⟩
instance : FixedTT .END (.kw "end") := ⟨by decide⟩
instance : FixedTT .FALSE (.kw "false") := ⟨by decide⟩
instance : FixedTT .FOR (.kw "for") := ⟨by decide⟩
instance : FixedTT .FUNCTION (.kw "function") := ⟨by decide⟩
instance : FixedTT .GOTO (.kw "goto") := ⟨by decide⟩
instance : FixedTT .IF (.kw "if") := ⟨by decide⟩
instance : FixedTT .IN (.kw "in") := ⟨by decide⟩
instance : FixedTT .LOCAL (.kw "local") := ⟨by decide⟩
instance : FixedTT .NIL (.kw "nil") := ⟨by decide⟩
instance : FixedTT .NOT (.kw "not") := ⟨by decide⟩
instance : FixedTT .OR (.kw "or") := ⟨by decide⟩
instance : FixedTT .REPEAT (.kw "repeat") := ⟨by decide⟩
instance : FixedTT .RETURN (.kw "return") := ⟨by decide⟩
instance : FixedTT .THEN (.kw "then") := ⟨by decide⟩
instance : FixedTT .TRUE (.kw "true") := ⟨by decide⟩
instance : FixedTT .UNTIL (.kw "until") := ⟨by decide⟩
instance : FixedTT .WHILE (.kw "while") := ⟨by decide⟩
instance : FixedTT .PLUS (.sym "+") := ⟨by decide⟩
instance : FixedTT .MINUS (.sym "-") := ⟨by decide⟩
instance : FixedTT .MULT (.sym "*") := ⟨by decide⟩
instance : FixedTT .DIVIDE (.sym "/") := ⟨by decide⟩
instance : FixedTT .MODULO (.sym "%") := ⟨by decide⟩
instance : FixedTT .EXPONENT (.sym "^") := ⟨by decide⟩
instance : FixedTT .HASH (.sym "#") := ⟨by decide⟩
instance : FixedTT .EQUALS (.sym "==") := ⟨by decide⟩
instance : FixedTT .NOT_EQUALS (.sym "~=") := ⟨by decide⟩
instance : FixedTT .LESS_EQUALS (.sym "<=") := ⟨by decide⟩
instance : FixedTT .GREATER_EQUALS (.sym ">=") := ⟨by decide⟩
instance : FixedTT .LESS_THAN (.sym "<") := ⟨by decide⟩
instance : FixedTT .GREATER_THAN (.sym ">") := ⟨by decide⟩
instance : FixedTT .ASSIGN (.sym "=") := ⟨by decide⟩
instance : FixedTT .L_PAREN (.sym "(") := ⟨by decide⟩
instance : FixedTT .R_PAREN (.sym ")") := ⟨by decide⟩
instance : FixedTT .L_CURL (.sym "{") := ⟨by decide⟩
instance : FixedTT .R_CURL (.sym "}") := ⟨by decide⟩
instance : FixedTT .L_BRACKET (.sym "[") := ⟨by decide⟩
instance : FixedTT .R_BRACKET (.sym "]") := ⟨by decide⟩
instance : FixedTT .SEMICOLON (.sym ";") := ⟨by decide⟩
instance : FixedTT .COLON (.sym ":") := ⟨by decide⟩
instance : FixedTT .LABEL_BORDER (.sym "::") := ⟨by decide⟩
instance : FixedTT .COMMA (.sym ",") := ⟨by decide⟩
instance : FixedTT .DOT (.sym ".") := ⟨by decide⟩
instance : FixedTT .CONCAT (.sym "..") := ⟨by decide⟩
instance : FixedTT .ELLIPSIS (.sym "...") := ⟨by decide⟩
instance : FixedTT .BIT_AND (.sym "&") := ⟨by decide⟩
instance : FixedTT .BIT_OR (.sym "|") := ⟨by decide⟩
instance : FixedTT .BIT_XOR (.sym "~") := ⟨by decide⟩
instance : FixedTT .BIT_SHIFT_LEFT (.sym "<<") := ⟨by decide⟩
instance : FixedTT .BIT_SHIFT_RIGHT (.sym ">>") := ⟨by decide⟩
instance : FixedTT .INTEGER_DIVISION (.sym "//") := ⟨by decide⟩

/-- the converse direction: the model token type of a reference token kind with a fixed spelling -/
class FixedTk (k0 : Tk) (ty : outParam TT) : Prop where
  eq : tkOfTT ty = some k0

instance : FixedTk .eof .EOF := ⟨by decide⟩
instance : FixedTk (.kw "and") .AND := ⟨by decide⟩
instance : FixedTk (.kw "break") .BREAK := ⟨by decide⟩
instance : FixedTk (.kw "do") .DO := ⟨by decide⟩
instance : FixedTk (.kw "else") .ELSE := ⟨by decide⟩
instance : FixedTk (.kw "elseif") .ELSEIF := ⟨by decide⟩
instance : FixedTk (.kw "end") .END := ⟨by decide⟩
instance : FixedTk (.kw "false") .FALSE := ⟨by decide⟩
instance : FixedTk (.kw "for") .FOR := ⟨by decide⟩
instance : FixedTk (.kw "function") .FUNCTION := ⟨by decide⟩
instance : FixedTk (.kw "goto") .GOTO := ⟨by decide⟩
instance : FixedTk (.kw "if") .IF := ⟨by decide⟩
instance : FixedTk (.kw "in") .IN := ⟨by decide⟩
instance : FixedTk (.kw "local") .LOCAL := ⟨by decide⟩
instance : FixedTk (.kw "nil") .NIL := ⟨by decide⟩
instance : FixedTk (.kw "not") .NOT := ⟨by decide⟩
instance : FixedTk (.kw "or") .OR := ⟨by decide⟩
instance : FixedTk (.kw "repeat") .REPEAT := ⟨by decide⟩
instance : FixedTk (.kw "return") .RETURN := ⟨by decide⟩
instance : FixedTk (.kw "then") .THEN := ⟨by decide⟩
instance : FixedTk (.kw "true") .TRUE := ⟨by decide⟩
instance : FixedTk (.kw "until") .UNTIL := ⟨by decide⟩
instance : FixedTk (.kw "while") .WHILE := ⟨by decide⟩
instance : FixedTk (.sym "+") .PLUS := ⟨by decide⟩
instance : FixedTk (.sym "-") .MINUS := ⟨by decide⟩
instance : FixedTk (.sym "*") .MULT := ⟨by decide⟩
instance : FixedTk (.sym "/") .DIVIDE := ⟨by decide⟩
instance : FixedTk (.sym "%") .MODULO := ⟨by decide⟩
instance : FixedTk (.sym "^") .EXPONENT := ⟨by decide⟩
instance : FixedTk (.sym "#") .HASH := ⟨by decide⟩
instance : FixedTk (.sym "==") .EQUALS := ⟨by decide⟩
instance : FixedTk (.sym "~=") .NOT_EQUALS := ⟨by decide⟩
instance : FixedTk (.sym "<=") .LESS_EQUALS := ⟨by decide⟩
instance : FixedTk (.sym ">=") .GREATER_EQUALS := ⟨by decide⟩
instance : FixedTk (.sym "<") .LESS_THAN := ⟨by decide⟩
instance : FixedTk (.sym ">") .GREATER_THAN := ⟨by decide⟩
instance : FixedTk (.sym "=") .ASSIGN := ⟨by decide⟩
instance : FixedTk (.sym "(") .L_PAREN := ⟨by decide⟩
instance : FixedTk (.sym ")") .R_PAREN := ⟨by decide⟩
instance : FixedTk (.sym "{") .L_CURL := ⟨by decide⟩
instance : FixedTk (.sym "}") .R_CURL := ⟨by decide⟩
instance : FixedTk (.sym "[") .L_BRACKET := ⟨by decide⟩
instance : FixedTk (.sym "]") .R_BRACKET := ⟨by decide⟩
instance : FixedTk (.sym ";") .SEMICOLON := ⟨by decide⟩
instance : FixedTk (.sym ":") .COLON := ⟨by decide⟩
instance : FixedTk (.sym "::") .LABEL_BORDER := ⟨by decide⟩
instance : FixedTk (.sym ",") .COMMA := ⟨by decide⟩
instance : FixedTk (.sym ".") .DOT := ⟨by decide⟩
instance : FixedTk (.sym "..") .CONCAT := ⟨by decide⟩
instance : FixedTk (.sym "...") .ELLIPSIS := ⟨by decide⟩
instance : FixedTk (.sym "&") .BIT_AND := ⟨by decide⟩
instance : FixedTk (.sym "|") .BIT_OR := ⟨by decide⟩
instance : FixedTk (.sym "~") .BIT_XOR := ⟨by decide⟩
instance : FixedTk (.sym "<<") .BIT_SHIFT_LEFT := ⟨by decide⟩
instance : FixedTk (.sym ">>") .BIT_SHIFT_RIGHT := ⟨by decide⟩
instance : FixedTk (.sym "//") .INTEGER_DIVISION := ⟨by decide⟩

theorem type_of_pk' {t : Token} {k k0 : Tk} {ty : TT} [h0 : FixedTk k0 ty] (hk : TkRel t k) (hp : k = k0) : t.type = ty :=
  type_of_pk ty hk hp h0.eq

theorem type_of_name {t : Token} {k : Tk} {n : String} (hk : TkRel t k) (hp : k = .name n) : t.type = .NAME :=
  hk.name_iff.2 ⟨n, hp⟩

theorem type_of_str {t : Token} {k : Tk} {v : List SUnit} (hk : TkRel t k) (hp : k = .str v) : t.type = .STRING :=
  hk.str_iff.2 ⟨v, hp⟩

theorem type_of_num {t : Token} {k : Tk} {v : Numeral} (hk : TkRel t k) (hp : k = .num v) : t.type = .NUMBER :=
  hk.num_iff.2 ⟨v, hp⟩

end Tumfl.Theory
