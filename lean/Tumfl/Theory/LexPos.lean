import Tumfl.Model.Lexer
/-!
# The lexer's position state machine (core of C16)

`Inv t s`: the lexer state `s` stands at a split point `t = pre ++ s.rest` of the text and its
`line` / `col` fields are exactly the line and column of that point (`lineOf pre`, `colOf pre`) - with
Python's convention that on a newline character the line is already incremented and the column is -1.
`advance` preserves `Inv`; every scanner moves only through `advance`, so every scanner preserves it;
hence every token's recorded (line, column) is the position of the character at which its scan began.
-/
namespace Tumfl.Theory
open Tumfl.Model

def lineOf (pre : List Char) : Nat := pre.count '\n'
def colOf (pre : List Char) : Nat := (pre.reverse.takeWhile (· != '\n')).length

theorem lineOf_snoc (pre : List Char) (c : Char) :
    lineOf (pre ++ [c]) = lineOf pre + (if c = '\n' then 1 else 0) := by
  simp [lineOf, List.count_append, List.count_singleton]

theorem colOf_snoc (pre : List Char) (c : Char) :
    colOf (pre ++ [c]) = if c = '\n' then 0 else colOf pre + 1 := by
  simp only [colOf, List.reverse_append, List.reverse_cons, List.reverse_nil, List.nil_append, List.cons_append]
  by_cases h : c = '\n'
  · subst h; simp [List.takeWhile]
  · have : (c != '\n') = true := by simpa using h
    simp [List.takeWhile, h, this]

/-- the position fields of `s` describe the split point `pre | s.rest` -/
def PosAt (pre : List Char) (s : LexSt) : Prop :=
  match s.rest with
  | [] => True
  | c :: _ =>
    if c = '\n' then s.line = lineOf pre + 1 ∧ s.col = -1
    else s.line = lineOf pre ∧ s.col = (colOf pre : Int)

def Inv (t : List Char) (s : LexSt) : Prop := ∃ pre, t = pre ++ s.rest ∧ PosAt pre s

theorem inv_init (t : List Char) : Inv t (initLex t) := by
  refine ⟨[], ?_, ?_⟩
  · cases t with
    | nil => simp [initLex]
    | cons c cs => simp only [initLex]; split <;> simp
  · cases t with
    | nil => simp [initLex, PosAt]
    | cons c cs =>
      simp only [initLex]
      by_cases h : c = '\n'
      · subst h; simp [PosAt, lineOf]
      · have : (c == '\n') = false := by simpa using h
        simp [this, PosAt, h, lineOf, colOf]

theorem advance_rest_cons {s : LexSt} {c : Char} {r : List Char} (h : s.rest = c :: r) : (advance s).rest = r := by
  unfold advance
  rw [h]
  cases r with
  | nil => rfl
  | cons d r' => simp only; split <;> rfl

theorem inv_advance {t : List Char} {s : LexSt} (h : Inv t s) : Inv t (advance s) := by
  obtain ⟨pre, ht, hp⟩ := h
  cases hr : s.rest with
  | nil =>
    have : advance s = s := by unfold advance; rw [hr]
    rw [this]; exact ⟨pre, ht, hp⟩
  | cons c r =>
    refine ⟨pre ++ [c], ?_, ?_⟩
    · rw [advance_rest_cons hr, ht, hr]; simp
    · cases r with
      | nil => simp [PosAt, advance_rest_cons hr]
      | cons d r' =>
        simp only [PosAt, hr] at hp
        by_cases hd : d = '\n'
        · subst hd
          have hadv : advance s = { s with rest := '\n' :: r', prev := some c, line := s.line + 1, col := -1 } := by
            unfold advance; rw [hr]; simp
          rw [hadv]
          simp only [PosAt, if_true, lineOf_snoc]
          by_cases hc : c = '\n'
          · subst hc; simp at hp; simp [hp.1]
          · simp [hc] at hp; simp [hc, hp.1]
        · have hd' : (d == '\n') = false := by simpa using hd
          have hadv : advance s = { s with rest := d :: r', prev := some c, col := s.col + 1 } := by
            unfold advance; rw [hr]; simp [hd']
          rw [hadv]
          simp only [PosAt, hd, if_false, lineOf_snoc, colOf_snoc]
          by_cases hc : c = '\n'
          · subst hc; simp at hp; simp [hp.1, hp.2]
          · simp [hc] at hp; simp [hc, hp.1, hp.2]

/-- changing only the pending comments does not move the cursor -/
theorem inv_comments {t : List Char} {s : LexSt} (cs : List (List Char)) (h : Inv t s) :
    Inv t { s with comments := cs } := by
  obtain ⟨pre, ht, hp⟩ := h
  exact ⟨pre, ht, by simpa [PosAt] using hp⟩

end Tumfl.Theory
